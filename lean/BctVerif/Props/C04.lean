import BctVerif.Model.Measures
import BctVerif.Lemmas.MeasuresBasic
import BctVerif.Lemmas.MeasuresAlg
import BctVerif.Lemmas.MeasuresSim
import BctVerif.Lemmas.MeasuresCore
import BctVerif.Lemmas.MeasuresFlow
import BctVerif.Lemmas.MeasuresCluster
import BctVerif.Lemmas.MeasuresDistX
import BctVerif.Lemmas.MeasuresReach
import BctVerif.Lemmas.MeasuresBetween
import BctVerif.Lemmas.MeasuresCoreX
import BctVerif.Lemmas.MeasuresComp
import BctVerif.Lemmas.MeasuresPartition
import BctVerif.Lemmas.MeasuresWalks
import BctVerif.Lemmas.MeasuresLocalEff
import BctVerif.Lemmas.MeasuresEcc
import BctVerif.Lemmas.MeasuresOracle
/-!
# C04 — graph measures are equivariant under renumbering of the nodes

`permA σ A` is the renumbered matrix `A[np.ix_(σ,σ)]` (`(permA σ A).get i j = A.get (σ i) (σ j)`),
`permVec σ v` the renumbered per-node vector `v[σ]`.  Every theorem is for **every** `n`, every permutation
`σ : Equiv.Perm (Fin n)` and every matrix of the stated entry type.  All but two are about an *executable model that a
driver of this framework runs against the real bct function* (the model of the slice that owns the routine); the two
exceptions transport a specification rather than an executed definition: `isDist_equivariant` (the predicate `IsDist`) and
`eigenvector_equivariant` (the eigen-equation, written with the executed `Walks.mulVecQ`).  Betweenness models take
natural-number connection lengths (`AMat Nat n`).

* §1 `Model/Measures.lean` (this slice): `strengths_und_sign`, `density_und/dir`, `matching_ind`, `edge_nei_overlap_bu/bd`,
  `gtom`, `flow_coef_bd`, `rich_club_bu/bd`, `assortativity_bin/wei`;
* §2 `Model/Cluster.lean` (C09/C10): degrees, strengths, `clustering_coef_bu/bd/wu/wd`, `clustering_coef_wu_sign` (3 types),
  `transitivity_bu/bd/wu/wd` — rational weights, the matrix of cube roots renumbered with the weights;
* §3 `Model/Dist.lean` (C03): `distance_wei_floyd`, `distance_wei`, `distance_bin`, `breadthdist`, `reachdist`, `charpath`,
  `efficiency_bin`, `efficiency_wei`; `Model/LocalEff.lean` (C10): `efficiency_bin/efficiency_wei(local=True)` — from "model = minimum walk length" (`IsDist`, unique) transported along σ;
* §4 `Model/Between.lean` (C08): `betweenness_wei`, `edge_betweenness_wei`, `edge_betweenness_bin`, `betweenness_bin` — from
  "model = sum of shortest-path fractions" (`bcSpec`, `ebcSpec`) and equivariance of the definition;
* §5 `Model/Core.lean` (C15): `kcore_bu/bd`, `score_wu`, `kcoreness_centrality_bu/bd`;
* §6 `Model/Comp.lean` (C16): `get_components` as a partition;
* §7 `Model/Partition.lean` (C14): `participation_coef(_sign)`, `module_degree_zscore` (deviation and variance; the
  square root is outside exact arithmetic);
* §8 `Model/Walks.lean` (C18): `pagerank_centrality` (exact solve + certificate; via uniqueness of the solution), the series
  executed for `subgraph_centrality`, the exact certificate of an eigenvector oracle for `eigenvector_centrality_und`.

Shapes: per-node `f (permA σ A) = permVec σ (f A)`, per-pair `= permA σ (f A)`, scalars/distributions `= f A`; routines
that can raise: the same under `Except.map`/`Option.map` (an error for one numbering iff for all).
Hypotheses are the routines' documented domains where the proof goes through a specification (non-negative lengths for the
weighted distances, 0/1 matrix for the binary betweenness routines, symmetric matrix where the code reads one triangle).

Partial: `breadthdist_equivariant_offdiag_partial`
(ordered pairs of distinct nodes; the diagonal holds the code's "length of a cycle through the source" quirk, which the
C03 specification leaves open — searched on the real code).
Not modelled by any slice, search on the real code only: `efficiency_wei(local='original')`, `rich_club_wu/wd`,
`matching_ind_und`, the LAPACK calls themselves (`eig`, `eigh`, `solve`).
-/
namespace Bct.C04
open Bct Bct.Measures

variable {n : Nat} (σ : Equiv.Perm (Fin n))

/-! ## §1 measures modelled in `Model/Measures.lean` -/

/-- `Spos`, `Sneg` renumbered; the totals `vpos`, `vneg` unchanged -/
theorem strengths_und_sign_equivariant (A : AMat Int n) :
    strengthsUndSign (permA σ A) =
      (permVec σ (strengthsUndSign A).1, permVec σ (strengthsUndSign A).2.1, (strengthsUndSign A).2.2.1, (strengthsUndSign A).2.2.2) :=
  strengthsUndSign_perm σ A

theorem density_dir_invariant (A : AMat Int n) : densityDir (permA σ A) = densityDir A := densityDir_perm σ A

/-- `density_und` reads `np.triu`: invariant on its domain (symmetric matrices) -/
theorem density_und_invariant (A : AMat Int n) (hA : ∀ i j, A.get i j = A.get j i) :
    densityUnd (permA σ A) = densityUnd A := densityUnd_perm σ A hA

/-- `Min`, `Mout`, `Mall` are renumbered on both axes (the `i < j` loop followed by `M + M.T`) -/
theorem matching_ind_equivariant (A : AMat Int n) :
    matchingInd (permA σ A) = (permA σ (matchingInd A).1, permA σ (matchingInd A).2.1, permA σ (matchingInd A).2.2) :=
  matchingInd_perm σ A

/-- matrix output `EC` of `edge_nei_overlap_bu/bd`; the `ZeroDivisionError` is raised for all numberings or none -/
theorem edge_nei_overlap_equivariant (A : AMat Int n) :
    edgeNeiOverlap (permA σ A) = (edgeNeiOverlap A).map (permA σ) := edgeNeiOverlap_perm σ A

/-- `gtom(adj, nr_steps)` for every `nr_steps` (0 returns the binarised matrix; each expansion round reads the neighbourhood
matrix as it was at the start of the round) -/
theorem gtom_equivariant (A : AMat Int n) (s : Nat) : gtom (permA σ A) s = permA σ (gtom A s) := gtom_perm σ A s

/-- the path 0-4-2-3-1: the input on which the former in-place expansion depended on the node order (D17), kept as a regression example -/
def gtomWitness : AMat Int 5 := AMat.ofFn fun i j =>
  if (i.val, j.val) ∈ [(0, 4), (4, 0), (1, 3), (3, 1), (2, 3), (3, 2), (2, 4), (4, 2)] then 1 else 0

example : (gtom (permA (Equiv.swap (1 : Fin 5) 2) gtomWitness) 3).get 0 1 = (permA (Equiv.swap (1 : Fin 5) 2) (gtom gtomWitness 3)).get 0 1 := by
  rw [gtom_equivariant]

/-- `fc` and `total_flo` are renumbered (covers the branch that tests for a neighbour with nonzero *index*) -/
theorem flow_coef_bd_equivariant (A : AMat Int n) :
    flowCoef (permA σ A) = (permVec σ (flowCoef A).1, permVec σ (flowCoef A).2) := flowCoef_perm σ A

/-- the index test of `flow_coef_bd` never changes the result -/
theorem flow_coef_bd_index_test_harmless (A : AMat Int n) (v : Fin n) :
    nanToZero (flowNode A v).1 = nanToZero (flowNodeSpec A v).1 ∧ (flowNode A v).2 = (flowNodeSpec A v).2 :=
  flowNode_eq_spec A v

/-- `FC = mean(fc)` -/
theorem flow_coef_bd_mean_invariant (A : AMat Int n) : flowFC (permA σ A) = flowFC A := flowFC_perm σ A

/-- `jdegree`: every cell `J[a, b]` (number of nodes with in-degree `a` and out-degree `b`) and `(J_od, J_id, J_bl)`.
(The real routine raises `TypeError` under the installed NumPy — `np.zeros` with a float size — so this model states the
documented behaviour and cannot be tied by correspondence.) -/
theorem jdegree_invariant (A : AMat Int n) :
    (∀ a b : Int, jdegCell (permA σ A) a b = jdegCell A a b) ∧ jdegSummary (permA σ A) = jdegSummary A :=
  ⟨fun a b => jdegCell_perm σ A a b, jdegSummary_perm σ A⟩

/-- `(R, Nk, Ek)` per level, including the number of levels -/
theorem rich_club_bu_invariant (A : AMat Int n) : richClubBu (permA σ A) = richClubBu A := richClubBu_perm σ A
theorem rich_club_bd_invariant (A : AMat Int n) : richClubBd (permA σ A) = richClubBd A := richClubBd_perm σ A

/-- `rich_club_wu` / `rich_club_wd`: the list `Rw` (one value per level, `nan` where no node is dropped), including its
length; the ranking `np.sort(CIJ.flat)[::-1]` of all weights is the same sorted list for every numbering -/
theorem rich_club_wu_invariant (A : AMat Int n) : richClubWu (permA σ A) = richClubWu A := richClubWu_perm σ A
theorem rich_club_wd_invariant (A : AMat Int n) : richClubWd (permA σ A) = richClubWd A := richClubWd_perm σ A

/-- directed variants (flags 1-4; any other nonzero flag raises `ValueError` for every numbering) -/
theorem assortativity_bin_dir_invariant (A : AMat Int n) (flag : Nat) (hf : flag ≠ 0) :
    assortativityBin (permA σ A) flag = assortativityBin A flag := assortativityBin_perm_dir σ A flag hf
/-- undirected variant: edges are listed from `np.triu(CIJ, 1)`; invariant for symmetric matrices -/
theorem assortativity_bin_und_invariant (A : AMat Int n) (hA : ∀ i j, A.get i j = A.get j i) :
    assortativityBin (permA σ A) 0 = assortativityBin A 0 := assortativityBin_perm_und σ A hA
theorem assortativity_wei_und_invariant (A : AMat Int n) (hA : ∀ i j, A.get i j = A.get j i) :
    assortativityWei0 (permA σ A) = assortativityWei0 A := assortativityWei0_perm σ A hA

/-- the degree / strength vectors used inside the rich-club and assortativity models are those of `Model/Cluster.lean`
(`castQ` reads the integer matrix as a rational one): no second, unrelated definition of `degrees_und/dir`, `strengths_und` -/
theorem degree_helpers_are_cluster (A : AMat Int n) (i : Fin n) :
    vget (Cluster.degreesUnd (castQ A)) i = ((vget (degreesUnd A) i : Int) : Rat) ∧
    vget (Cluster.degreesIn (castQ A)) i = ((vget (degreesDir A).1 i : Int) : Rat) ∧
    vget (Cluster.degreesOut (castQ A)) i = ((vget (degreesDir A).2.1 i : Int) : Rat) ∧
    vget (Cluster.degreesTot (castQ A)) i = ((vget (degTotal A) i : Int) : Rat) ∧
    vget (Cluster.strengthsUnd (castQ A)) i = ((vget (strengthsUnd A) i : Int) : Rat) :=
  ⟨degreesUnd_eq_cluster A i, (degreesInOut_eq_cluster A i).1, (degreesInOut_eq_cluster A i).2, degTotal_eq_cluster A i,
    strengthsUnd_eq_cluster A i⟩

/-! ## §2 degrees, strengths, clustering, transitivity (`Model/Cluster.lean`) -/

theorem degrees_und_equivariant (W : AMat Rat n) : Cluster.degreesUnd (permA σ W) = permVec σ (Cluster.degreesUnd W) :=
  cl_degreesUnd_perm σ W
/-- `id`, `od`, `deg` of `degrees_dir` -/
theorem degrees_dir_equivariant (W : AMat Rat n) :
    Cluster.degreesIn (permA σ W) = permVec σ (Cluster.degreesIn W) ∧
    Cluster.degreesOut (permA σ W) = permVec σ (Cluster.degreesOut W) ∧
    Cluster.degreesTot (permA σ W) = permVec σ (Cluster.degreesTot W) :=
  ⟨cl_degreesIn_perm σ W, cl_degreesOut_perm σ W, cl_degreesTot_perm σ W⟩
theorem strengths_und_equivariant (W : AMat Rat n) : Cluster.strengthsUnd (permA σ W) = permVec σ (Cluster.strengthsUnd W) :=
  cl_strengthsUnd_perm σ W
theorem strengths_dir_equivariant (W : AMat Rat n) : Cluster.strengthsDir (permA σ W) = permVec σ (Cluster.strengthsDir W) :=
  cl_strengthsDir_perm σ W

theorem clustering_coef_bu_equivariant (G : AMat Rat n) : Cluster.ccBu (permA σ G) = permVec σ (Cluster.ccBu G) := ccBu_perm σ G
theorem clustering_coef_bd_equivariant (A : AMat Rat n) : Cluster.ccBd (permA σ A) = permVec σ (Cluster.ccBd A) := ccBd_perm σ A
/-- `R` stands for `cuberoot(W)` (any rational matrix; `C09.rootMat_sound` ties the one the driver computes to `W`) -/
theorem clustering_coef_wu_equivariant (W R : AMat Rat n) :
    Cluster.ccWu (permA σ W) (permA σ R) = permVec σ (Cluster.ccWu W R) := ccWu_perm σ W R
theorem clustering_coef_wd_equivariant (W R : AMat Rat n) :
    Cluster.ccWd (permA σ W) (permA σ R) = permVec σ (Cluster.ccWd W R) := ccWd_perm σ W R
/-- `clustering_coef_wu_sign`, `coef_type='default'` → `(C_pos, C_neg)` -/
theorem clustering_coef_wu_sign_default_equivariant (W Rp Rn : AMat Rat n) :
    Cluster.ccSignDefault (permA σ W) (permA σ Rp) (permA σ Rn) =
      (permVec σ (Cluster.ccSignDefault W Rp Rn).1, permVec σ (Cluster.ccSignDefault W Rp Rn).2) := ccSignDefault_perm σ W Rp Rn
theorem clustering_coef_wu_sign_zhang_equivariant (W : AMat Rat n) :
    Cluster.ccSignZhang (permA σ W) = (permVec σ (Cluster.ccSignZhang W).1, permVec σ (Cluster.ccSignZhang W).2) :=
  ccSignZhang_perm σ W
theorem clustering_coef_wu_sign_costantini_equivariant (W : AMat Rat n) :
    Cluster.ccSignCost (permA σ W) = permVec σ (Cluster.ccSignCost W) := ccSignCost_perm σ W
theorem transitivity_bu_invariant (A : AMat Rat n) : Cluster.transBu (permA σ A) = Cluster.transBu A := transBu_perm σ A
theorem transitivity_bd_invariant (A : AMat Rat n) : Cluster.transBd (permA σ A) = Cluster.transBd A := transBd_perm σ A
theorem transitivity_wu_invariant (W R : AMat Rat n) :
    Cluster.transWu (permA σ W) (permA σ R) = Cluster.transWu W R := transWu_perm σ W R
theorem transitivity_wd_invariant (W R : AMat Rat n) :
    Cluster.transWd (permA σ W) (permA σ R) = Cluster.transWd W R := transWd_perm σ W R

/-! ## §3 distances and global efficiencies (`Model/Dist.lean`) -/

/-- the distance specification itself is transported by a renumbering (`permM σ L i j = L (σ i) (σ j)`) -/
theorem isDist_equivariant {L D : Dist.LMat n} (h : Dist.IsDist L D) : Dist.IsDist (permM σ L) (permM σ D) := isDist_perm σ h

/-- `distance_wei_floyd` (`SPL`; `transform` none / inv), non-negative weights -/
theorem distance_wei_floyd_equivariant (tr : Dist.Transform) (A : AMat Rat n) (hA : C03.NonNeg A) :
    (Dist.floyd (Dist.lenMat tr (permA σ A))).D = permA σ (Dist.floyd (Dist.lenMat tr A)).D := floyd_perm σ tr A hA

/-- `distance_wei` (`D`), non-negative lengths -/
theorem distance_wei_equivariant (tr : Dist.Transform) (A : AMat Rat n) (hA : C03.NonNeg A) :
    (Dist.dijkstra (Dist.lenMat tr (permA σ A))).map Prod.fst = (Dist.dijkstra (Dist.lenMat tr A)).map fun r => permA σ r.1 :=
  dijkstra_perm σ tr A hA

theorem distance_bin_equivariant (A : AMat Rat n) : Dist.distBin (permA σ A) = (Dist.distBin A).map (permA σ) :=
  distBin_perm σ A

/-- full statement: `breadthdist (permA σ A) = (breadthdist A).map fun r => (permA σ r.1, permA σ r.2)`.
Proved for ordered pairs of distinct nodes (empty diagonal, the BCT convention); the diagonal cells are outside the C03
specification. -/
theorem breadthdist_equivariant_offdiag_partial (A : AMat Rat n) (hdiag : ∀ i, A.get i i = 0)
    (R R' : AMat Bool n) (D D' : AMat Dist.Ext n) (h : Dist.breadthdist A = some (R, D))
    (h' : Dist.breadthdist (permA σ A) = some (R', D')) (i j : Fin n) (hij : i ≠ j) :
    D'.get i j = D.get (σ i) (σ j) ∧ R'.get i j = R.get (σ i) (σ j) :=
  breadthdist_perm_offdiag σ A hdiag R R' D D' h h' i j hij

/-- `reachdist` → `(R, D)`, every cell (diagonal = shortest cycle through the node included) -/
theorem reachdist_equivariant (A : AMat Rat n) :
    Dist.reachdist (permA σ A) = (permA σ (Dist.reachdist A).1, permA σ (Dist.reachdist A).2) := reachdist_perm_full σ A

/-- `charpath(D)` → `(lambda, efficiency)` for both flags -/
theorem charpath_invariant (D : AMat Dist.Ext n) (incDiag incInf : Bool) :
    Dist.charpath (permA σ D) incDiag incInf = Dist.charpath D incDiag incInf := charpath_perm σ D incDiag incInf

/-- `charpath(D)`: the eccentricity vector `ecc` is renumbered (all flag combinations; a fully masked row holds NumPy's fill value) -/
theorem charpath_ecc_equivariant (D : AMat Dist.Ext n) (incDiag incInf : Bool) (i : Fin n) :
    Dist.eccOf (permA σ D) incDiag incInf i = Dist.eccOf D incDiag incInf (σ i) := eccOf_perm σ D incDiag incInf i
/-- `charpath(D)`: `radius = min(ecc)` and `diameter = max(ecc)` are unchanged -/
theorem charpath_radius_diameter_invariant (D : AMat Dist.Ext n) (incDiag incInf : Bool) :
    Dist.radiusDiameter (permA σ D) incDiag incInf = Dist.radiusDiameter D incDiag incInf := radiusDiameter_perm σ D incDiag incInf

theorem efficiency_bin_invariant (A : AMat Rat n) : Dist.efficiencyBin (permA σ A) = Dist.efficiencyBin A :=
  efficiencyBin_perm σ A
/-- `efficiency_wei` (global), non-negative weights -/
theorem efficiency_wei_invariant (W : AMat Rat n) (hW : C03.NonNeg W) : Dist.efficiencyWei (permA σ W) = Dist.efficiencyWei W :=
  efficiencyWei_perm σ W hW

/-- `efficiency_bin(G, local=True)` (model `Model/LocalEff.lean`; neighbourhood sub-graph distances from `Dist.distBin`) -/
theorem efficiency_bin_local_equivariant (G : AMat Rat n) :
    LocalEff.localEffBin (permA σ G) = permVec σ (LocalEff.localEffBin G) := localEffBin_perm σ G

/-- `efficiency_wei(W, local=True)` with `R = cuberoot(W)` (non-negative), both renumbered -/
theorem efficiency_wei_local_equivariant (W R : AMat Rat n) (hR : C03.NonNeg R) :
    LocalEff.localEffWei (permA σ W) (permA σ R) = permVec σ (LocalEff.localEffWei W R) := localEffWei_perm σ W R hR

/-! ## §4 betweenness (`Model/Between.lean`) -/

/-- the definitions (sums of fractions of minimum-length walks) are renumbered with the graph -/
theorem betweenness_spec_equivariant (L : AMat Nat n) :
    Between.bcSpec (permA σ L) = permVec σ (Between.bcSpec L) ∧ Between.ebcSpec (permA σ L) = permA σ (Between.ebcSpec L) :=
  ⟨bcSpec_perm σ L, ebcSpec_perm σ L⟩

/-- executed model of `edge_betweenness_wei` (`EBC`, `BC`) and `betweenness_wei` (`BC`): every connection-length matrix -/
theorem betweenness_wei_equivariant (L : AMat Nat n) :
    Between.brandes true (permA σ L) = (Between.brandes true L).map fun r => (permA σ r.1, permVec σ r.2) :=
  brandes_wei_perm σ L

/-- executed model of `edge_betweenness_bin` (`EBC`, `BC`) on 0/1 matrices -/
theorem edge_betweenness_bin_equivariant (L : AMat Nat n) (hbin : ∀ i j, L.get i j ≤ 1) :
    Between.brandes false (permA σ L) = (Between.brandes false L).map fun r => (permA σ r.1, permVec σ r.2) :=
  brandes_bin_perm σ L hbin

/-- executed model of `betweenness_bin` (matrix powers + back-propagation) on 0/1 matrices with empty diagonal -/
theorem betweenness_bin_equivariant (L : AMat Nat n) (hbin : ∀ i j, L.get i j ≤ 1) (hdiag : ∀ i, L.get i i = 0) :
    Between.betweennessBin (permA σ L) = (Between.betweennessBin L).map (permVec σ) := betweennessBin_perm σ L hbin hdiag

/-! ## §5 cores (`Model/Core.lean`) -/

/-- result matrix renumbered, `kn` unchanged -/
theorem kcore_bu_equivariant (A : AMat Int n) (k : Nat) :
    (Core.kcoreBu (permA σ A) k).M = permA σ (Core.kcoreBu A k).M ∧ (Core.kcoreBu (permA σ A) k).kn = (Core.kcoreBu A k).kn :=
  core_kcoreBu_perm σ A k
theorem kcore_bd_equivariant (A : AMat Int n) (k : Nat) :
    (Core.kcoreBd (permA σ A) k).M = permA σ (Core.kcoreBd A k).M ∧ (Core.kcoreBd (permA σ A) k).kn = (Core.kcoreBd A k).kn :=
  core_kcoreBd_perm σ A k
theorem score_wu_equivariant (A : AMat Rat n) (s : Rat) :
    (Core.scoreWu (permA σ A) s).M = permA σ (Core.scoreWu A s).M ∧ (Core.scoreWu (permA σ A) s).kn = (Core.scoreWu A s).kn :=
  core_scoreWu_perm σ A s
/-- coreness renumbered, `kn` (size of each k-core) unchanged -/
theorem kcoreness_centrality_bu_equivariant (A : AMat Int n) :
    (∀ v, (Core.kcorenessBu (permA σ A)).1 v = (Core.kcorenessBu A).1 (σ v)) ∧
      (Core.kcorenessBu (permA σ A)).2 = (Core.kcorenessBu A).2 := core_kcorenessBu_perm σ A
theorem kcoreness_centrality_bd_equivariant (A : AMat Int n) :
    (∀ v, (Core.kcorenessBd (permA σ A)).1 v = (Core.kcorenessBd A).1 (σ v)) ∧
      (Core.kcorenessBd (permA σ A)).2 = (Core.kcorenessBd A).2 := core_kcorenessBd_perm σ A

/-! ## §6 components (`Model/Comp.lean`) -/

/-- `get_components` as a partition: two nodes of the renumbered graph share a label iff the nodes they stand for do -/
theorem get_components_equivariant (A : AMat Int n) (hsym : Comp.isSymm A = true) (x y : Fin n) :
    C16.labelFn (permA σ A) x = C16.labelFn (permA σ A) y ↔ C16.labelFn A (σ x) = C16.labelFn A (σ y) :=
  components_perm σ A hsym x y

/-- asymmetric input is rejected for every numbering -/
theorem get_components_rejects_equivariant (A : AMat Int n) (h : Comp.isSymm A = false) :
    Comp.getComponents (permA σ A) = .error .param ∧ Comp.getComponents A = .error .param := getComponents_error_perm σ A h

/-! ## §7 partition consumers (`Model/Partition.lean`); `ci` is node data and is renumbered with the matrix -/

theorem participation_coef_equivariant (W : AMat Rat n) (c : Vector Int n) :
    Partition.partCoef (permA σ W) (permVec σ c) = permVec σ (Partition.partCoef W c) := partCoef_perm σ W c
/-- `participation_coef(W, ci, degree='in')` (the routine and the driver transpose `W`) -/
theorem participation_coef_in_equivariant (W : AMat Rat n) (c : Vector Int n) :
    Partition.partCoef (AMat.transpose (permA σ W)) (permVec σ c) = permVec σ (Partition.partCoef (AMat.transpose W) c) :=
  partCoef_in_perm σ W c
theorem participation_coef_sign_equivariant (W : AMat Rat n) (c : Vector Int n) :
    Partition.partCoefSign (permA σ W) (permVec σ c) =
      (permVec σ (Partition.partCoefSign W c).1, permVec σ (Partition.partCoefSign W c).2) := partCoefSign_perm σ W c
/-- `module_degree_zscore` (all flags): per node the pair (deviation from the module mean, module variance); `Z` is their
quotient after a square root -/
theorem module_degree_zscore_equivariant (W : AMat Rat n) (c : Vector Int n) (flag : Nat) :
    Partition.zIngr (permA σ W) (permVec σ c) flag = permVec σ (Partition.zIngr W c flag) := zIngr_perm σ W c flag

/-- `diversity_coef_sign`: `Σ_m φ(pnm[u, m])` for every summand `φ` (the routine uses `-p log p`) and the number of modules in the
normalisation `log m` -/
theorem diversity_coef_equivariant {α : Type} [AddCommMonoid α] (φ : Rat → α) (W : AMat Rat n) (c : Vector Int n) (u : Fin n) :
    Partition.divSum φ (permA σ W) (permVec σ c) u = Partition.divSum φ W c (σ u) ∧
      Partition.numMods (permVec σ c) = Partition.numMods c := ⟨divSum_perm σ φ W c u, numMods_perm σ c⟩

/-! ## §8 spectral measures (`Model/Walks.lean`); LAPACK itself is not modelled -/

/-- `pagerank_centrality`: the model solves the linear system exactly (Gaussian elimination, certified).  On the routine's
domain — weights ≥ 0, `0 ≤ d < 1`, no prior or a non-negative prior with non-zero sum, renumbered with the graph — the model
returns for both numberings (`C18.pagerank_total`) and the PageRank vectors correspond: what it returns is the unique solution
of the system (`C18.pagerank_model_is_solution`), whatever the elimination order; empty columns are allowed. -/
theorem pagerank_equivariant (A : Walks.QMat n) (d : Rat) (f : Option (Vector Int n)) (hn : 0 < n)
    (hA : ∀ i j, 0 ≤ A.get i j) (hd0 : 0 ≤ d) (hd1 : d < 1)
    (hf : ∀ g, f = some g → (∀ i : Fin n, 0 ≤ g[i]) ∧ ∑ i : Fin n, (g[i] : ℚ) ≠ 0) :
    ∃ o o', Walks.pagerank A d f = .ok o ∧ Walks.pagerank (permA σ A) d (f.map (permVec σ)) = .ok o' ∧ o'.r = permVec σ o.r :=
  pagerank_perm_total σ A d f hn hA hd0 hd1 hf

/-- the series `Σ_{m<T} (A^m)_{ii}/m!` that the driver evaluates for `subgraph_centrality` (C18 proves it equal to the
spectral formula for every orthonormal eigenbasis, so no basis of a degenerate eigenspace can matter) -/
theorem subgraph_series_equivariant (A : AMat Int n) (T : Nat) : Walks.expDiag (permA σ A) T = permVec σ (Walks.expDiag A T) :=
  expDiag_perm σ A T

/-- `subgraph_centrality` relative to the `eigh` oracle contract (`C18`: orthonormal columns diagonalising the real symmetric matrix):
an output meeting the contract for `A`, with its rows renumbered, meets it for the renumbered matrix, and the routine's
`dot(vecs*vecs, exp(vals))` of it is the renumbered result.  (By `C18.subgraph_spec` every contract-meeting output gives
`diag(exp A)`, so the choice of basis inside a degenerate eigenspace cannot matter for either numbering.) -/
theorem subgraph_centrality_oracle_equivariant (A : Matrix (Fin n) (Fin n) ℝ) (vals : Fin n → ℝ) (vecs : Matrix (Fin n) (Fin n) ℝ)
    (h : WalksAlg.EighOracle A vals vecs) :
    WalksAlg.EighOracle (A.submatrix σ σ) vals (vecs.submatrix σ id) ∧
      ∀ i, WalksAlg.subgraphCentrality vals (vecs.submatrix σ id) i = WalksAlg.subgraphCentrality vals vecs (σ i) :=
  ⟨eighOracle_perm σ h, fun i => subgraphCentrality_perm σ vals vecs i⟩

/-- `eigenvector_centrality_und` relative to the `eig` oracle contract (column `i` a unit eigenvector for `vals i`, `vals` complete):
the row-renumbered output meets the contract for the renumbered matrix with the same `vals` (hence the same `argmax`), and
`|vecs[:, i]|` of it is the renumbered result.  The contract does not make the column unique when `vals i` is a repeated
eigenvalue — that is exactly the open finding `C04-eigenvector-degenerate-top-eigenvalue`. -/
theorem eigenvector_centrality_oracle_equivariant (A : Matrix (Fin n) (Fin n) ℝ) (vals : Fin n → ℝ) (vecs : Matrix (Fin n) (Fin n) ℝ)
    (i : Fin n) (h : WalksAlg.EigOracle A vals vecs i) :
    WalksAlg.EigOracle (A.submatrix σ σ) vals (vecs.submatrix σ id) i ∧
      ∀ r, WalksAlg.eigCentrality (vecs.submatrix σ id) i r = WalksAlg.eigCentrality vecs i (σ r) :=
  ⟨eigOracle_perm σ h, fun r => eigCentrality_perm σ vecs i r⟩

/-- the executable post-processing the C18 driver runs on the solver's output (`subpost`, `eigpost`), rows of `vecs` renumbered -/
theorem subgraph_post_equivariant (vecs : Walks.QMat n) (ev : Walks.QVec n) :
    Walks.subPost (permRows σ vecs) ev = permVec σ (Walks.subPost vecs ev) := subPost_perm σ vecs ev
theorem eigenvector_post_equivariant (vals : Walks.QVec n) (vecs : Walks.QMat n) :
    Walks.eigPost vals (permRows σ vecs) = (Walks.eigPost vals vecs).map fun r => (r.1, permVec σ r.2) := eigPost_perm σ vals vecs

/-- `eigenvector_centrality_und`: the eigen-solver is an oracle; the certificate that the driver computes for the vector
it returns (‖v‖², Rayleigh quotient, squared residual, min v, Collatz–Wielandt bounds) is unchanged when matrix and vector
are renumbered together, and an exact eigenvector renumbers to an eigenvector -/
theorem eigenvector_certificate_invariant (A : AMat Int n) (v : Walks.QVec n) :
    Walks.eigCert (permA σ A) (permVec σ v) = Walks.eigCert A v := eigCert_perm σ A v
theorem eigenvector_equivariant (A : AMat Int n) (lam : Rat) (v : Walks.QVec n)
    (h : ∀ i : Fin n, Walks.mulVecQ A v i = lam * v[i]) :
    ∀ i : Fin n, Walks.mulVecQ (permA σ A) (permVec σ v) i = lam * (permVec σ v)[i] := eigvec_perm σ A lam v h

/-! ## non-vacuity: concrete inputs on which the renumbering really moves the outputs and the hypotheses hold -/

/-- `okB x p`: `x` returned a value and `p` holds for it -/
def okB {ε α : Type} (x : Except ε α) (p : α → Bool) : Bool := match x with | .ok a => p a | .error _ => false
def someB {α : Type} (x : Option α) (p : α → Bool) : Bool := match x with | some a => p a | none => false

/-- a directed 4-node graph without symmetry: 0→1, 0→2, 1→2, 2→0, 3→0, 2→3 (weights 1,2,1,3,1,2) -/
def G4 : AMat Int 4 := AMat.ofFn fun i j =>
  match i.val, j.val with
  | 0, 1 => 1 | 0, 2 => 2 | 1, 2 => 1 | 2, 0 => 3 | 3, 0 => 1 | 2, 3 => 2 | _, _ => 0
/-- an undirected 4-node graph: triangle 0-1-2 plus the pendant edge 2-3, weight 2 on 0-1 -/
def U4 : AMat Int 4 := AMat.ofFn fun i j =>
  match i.val, j.val with
  | 0, 1 => 2 | 1, 0 => 2 | 0, 2 => 1 | 2, 0 => 1 | 1, 2 => 1 | 2, 1 => 1 | 2, 3 => 1 | 3, 2 => 1 | _, _ => 0
def s4 : Equiv.Perm (Fin 4) := Equiv.swap 0 3
/-- a directed 3-node graph: 0→1, 1→2, 2→0, 0→2 -/
def G3 : AMat Int 3 := AMat.ofFn fun i j =>
  match i.val, j.val with
  | 0, 1 => 1 | 1, 2 => 1 | 2, 0 => 1 | 0, 2 => 1 | _, _ => 0
def s3 : Equiv.Perm (Fin 3) := Equiv.swap 0 1
/-- the same graphs with rational / natural entries for the models of the other slices -/
def Q4 : AMat Rat 4 := castQ U4
def D3 : AMat Rat 3 := castQ G3
def N3 : AMat Nat 3 := AMat.ofFn fun i j => (G3.get i j).toNat
def c4 : Vector Int 4 := #v[5, 3, 5, 9]

example : ∀ i j, U4.get i j = U4.get j i := by decide +kernel
example : permA s4 G4 ≠ G4 ∧ permA s4 U4 ≠ U4 ∧ permA s3 G3 ≠ G3 := by decide +kernel
-- §1
example : (strengthsUndSign (permA s4 U4)).1 ≠ (strengthsUndSign U4).1 := by decide +kernel
example : okB (densityDir G4) (fun r => r.2.2 == 6) = true ∧ okB (densityUnd U4) (fun r => r.2.2 == 4) = true := by decide +kernel
example : (matchingInd (permA s3 G3)).2.2 ≠ (matchingInd G3).2.2 := by decide +kernel
example : okB (edgeNeiOverlap U4) (fun a => okB (edgeNeiOverlap (permA s4 U4)) fun b => decide (a ≠ b)) = true := by decide +kernel
example : gtom (permA s4 U4) 2 ≠ gtom U4 2 ∧ gtom (permA s4 U4) 0 ≠ gtom U4 0 ∧ gtom (permA s4 U4) 3 ≠ gtom U4 3 := by decide +kernel
example : (flowCoef (permA s3 G3)).2 ≠ (flowCoef G3).2 := by decide +kernel
example : (richClubBu U4).length = 3 ∧ (richClubBd G4).length = 4 := by decide +kernel
example : okB (assortativityBin U4 0) (fun r => decide (r ≠ .nan)) = true ∧ okB (assortativityBin G4 1) (fun r => decide (r ≠ .nan)) = true ∧
    assortativityWei0 U4 ≠ .nan := by decide +kernel
example : jdegSummary G4 = (0, 0, 4) ∧ jdegCell G4 2 2 = 2 ∧ flowFC G3 ≠ .nan := by decide +kernel
example : (richClubWu U4).length = 3 ∧ (richClubWd G4).length = 4 ∧ (flatEntries U4).length = 16 ∧ flatEntries (permA s4 U4) ≠ flatEntries U4 := by
  decide +kernel
-- §2
example : Cluster.degreesUnd (permA s4 Q4) ≠ Cluster.degreesUnd Q4 ∧ Cluster.strengthsDir (permA s3 D3) ≠ Cluster.strengthsDir D3 := by
  decide +kernel
example : Cluster.ccBu (permA s4 Q4) ≠ Cluster.ccBu Q4 ∧ Cluster.ccBd (permA s3 D3) ≠ Cluster.ccBd D3 := by decide +kernel
example : Cluster.ccWu (permA s4 Q4) (permA s4 Q4) ≠ Cluster.ccWu Q4 Q4 ∧ Cluster.ccSignCost (permA s4 Q4) ≠ Cluster.ccSignCost Q4 := by
  decide +kernel
example : Cluster.transBu Q4 ≠ none ∧ Cluster.transBd D3 ≠ none := by decide +kernel
-- §3
example : C03.NonNeg D3 ∧ (∀ i, D3.get i i = 0) := by decide +kernel
example : (Dist.floyd (Dist.lenMat .none (permA s3 D3))).D ≠ (Dist.floyd (Dist.lenMat .none D3)).D := by decide +kernel
example : someB (Dist.dijkstra (Dist.lenMat .none D3)) (fun r => r.1.get 1 0 == .fin 2) = true := by decide +kernel
example : someB (Dist.distBin D3) (fun a => someB (Dist.distBin (permA s3 D3)) fun b => decide (a ≠ b)) = true := by decide +kernel
example : someB (Dist.breadthdist D3) (fun r => r.2.get 1 0 == .fin 2) = true ∧
    someB (Dist.breadthdist (permA s3 D3)) (fun r => r.2.get 0 1 == .fin 2) = true := by decide +kernel
example : (Dist.reachdist (permA s3 D3)).2 ≠ (Dist.reachdist D3).2 := by decide +kernel
example : Dist.efficiencyBin D3 ≠ none ∧ Dist.efficiencyWei D3 ≠ none := by decide +kernel
example : someB (Dist.distBin D3) (fun D => decide (Dist.eccOf D false true 0 ≠ Dist.eccOf D false true 1) &&
    decide (Dist.radiusDiameter D false true = some (.fin 1, .fin 2))) = true := by decide +kernel
-- §4
example : (∀ i j, N3.get i j ≤ 1) ∧ (∀ i, N3.get i i = 0) := by decide +kernel
example : Between.bcSpec (permA s3 N3) ≠ Between.bcSpec N3 := by decide +kernel
example : okB (Between.brandes true N3) (fun r => decide (r.2 = Between.bcSpec N3)) = true ∧
    okB (Between.betweennessBin N3) (fun r => decide (r = Between.bcSpec N3)) = true := by decide +kernel
-- §5
example : (Core.kcoreBu U4 2).kn = 3 ∧ (Core.kcoreBu (permA s4 U4) 2).M ≠ (Core.kcoreBu U4 2).M := by decide +kernel
example : (Core.kcorenessBu U4).1 0 ≠ (Core.kcorenessBu U4).1 3 := by decide +kernel
-- §6
example : Comp.isSymm U4 = true ∧ Comp.isSymm G4 = false := by decide +kernel
-- §7
example : Partition.partCoef (permA s4 Q4) (permVec s4 c4) ≠ Partition.partCoef Q4 c4 := by decide +kernel
example : Partition.relabel (permVec s4 c4) ≠ Partition.relabel c4 ∧ Partition.numMods c4 = 3 := by decide +kernel
example : Partition.divSum (fun p => p * p) Q4 c4 0 ≠ Partition.divSum (fun p => p * p) Q4 c4 3 := by decide +kernel
-- §8
example : okB (Walks.pagerank Q4 (1 / 2) none) (fun o => okB (Walks.pagerank (permA s4 Q4) (1 / 2) none) fun o' =>
    decide (o'.r ≠ o.r)) = true := by decide +kernel
example : (∀ i j, 0 ≤ Q4.get i j) ∧ (0 : Rat) ≤ 1 / 2 ∧ (1 / 2 : Rat) < 1 := by decide +kernel
example : LocalEff.localEffBin (permA s4 Q4) ≠ LocalEff.localEffBin Q4 ∧ C03.NonNeg Q4 := by decide +kernel
example : Walks.expDiag (permA s4 U4) 3 ≠ Walks.expDiag U4 3 := by decide +kernel
/-- K₂ has the eigenvector (1, 1) for the eigenvalue 1 -/
def K2 : AMat Int 2 := AMat.ofFn fun i j => if i = j then 0 else 1
example : ∀ i : Fin 2, Walks.mulVecQ K2 #v[1, 1] i = 1 * (#v[1, 1] : Walks.QVec 2)[i] := by decide +kernel
example : okB (Walks.eigCert K2 #v[1, 1]) (fun c => c.res2 == 0) = true := by decide +kernel

/-- non-vacuity of the oracle-contract theorems: the symmetric matrix [[9,12],[12,16]] with a rational orthonormal eigenbasis
(C18's example) meets the `eigh` contract, so its renumbering by the transposition does too -/
example : WalksAlg.EighOracle (C18.a34.submatrix (Equiv.swap (0 : Fin 2) 1) (Equiv.swap (0 : Fin 2) 1)) C18.vals34
    (C18.vecs34.submatrix (Equiv.swap (0 : Fin 2) 1) id) := by
  apply eighOracle_perm
  constructor
  · ext i j; fin_cases i <;> fin_cases j <;>
      norm_num [C18.a34, C18.vals34, C18.vecs34, Matrix.mul_apply, Fin.sum_univ_two, Matrix.diagonal]
  · ext i j; fin_cases i <;> fin_cases j <;> norm_num [C18.vecs34, Matrix.mul_apply, Fin.sum_univ_two, Matrix.one_apply]
example : Walks.subPost (permRows (Equiv.swap (0 : Fin 2) 1) (AMat.ofFn fun i j => if i = j then (1 : Rat) else 0)) #v[2, 3] = #v[3, 2] := by
  decide +kernel

end Bct.C04
