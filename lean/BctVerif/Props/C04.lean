import BctVerif.Model.Measures
import BctVerif.Lemmas.MeasuresBasic
import BctVerif.Lemmas.MeasuresAlg
import BctVerif.Lemmas.MeasuresSim
import BctVerif.Lemmas.MeasuresCore
import BctVerif.Lemmas.MeasuresDist
import BctVerif.Lemmas.MeasuresFlow
import BctVerif.Lemmas.MeasuresSpectral
/-!
# C04 — graph measures are equivariant under renumbering of the nodes

`permA σ A` is the renumbered matrix `A[np.ix_(σ,σ)]` (`(permA σ A).get i j = A.get (σ i) (σ j)`),
`permVec σ v` the renumbered per-node vector `v[σ]`.  For every measure of `Model/Measures.lean`
(the executable model that the check runs against the real bct functions) and **every** `n`, every
permutation `σ : Equiv.Perm (Fin n)` and every integer matrix:

* per-node outputs:   `f (permA σ A) = permVec σ (f A)`
* per-pair outputs:   `f (permA σ A) = permA σ (f A)`
* scalars / distributions: `f (permA σ A) = f A`
* routines that can raise: the same with `Except.map` (an error is raised for one numbering iff for all).

Hypotheses appear only where the routine's documented domain is "undirected" and the code reads the
upper triangle (`density_und`, `assortativity_bin/wei` with flag 0): the matrix must be symmetric.

`gtom` is equivariant only for `nr_steps ≤ 2` (`gtom_equivariant_partial`); for `nr_steps = 3` the model
(which replays the in-place neighbourhood expansion of the real routine) is *not* equivariant
(`gtom_three_steps_not_equivariant`, a 5-node witness) — defect D17, recorded as a known finding.

Measures that are not modelled (Dijkstra / Floyd / Brandes based, LAPACK based, `breadthdist`,
`module_degree_zscore`, `rich_club_wu/wd`, `matching_ind_und`, local efficiencies, components) are covered
by the search on the real code only.  For the spectral ones the exact definitions are shown equivariant
(`subgraphSeries_equivariant`, `pagerank_equivariant`, `eigenvector_equivariant`).
-/
namespace Bct.C04
open Bct Bct.Measures

variable {n : Nat} (σ : Equiv.Perm (Fin n))

/-! ## degree.py, physical_connectivity.py -/

theorem degrees_und_equivariant (A : AMat Int n) : degreesUnd (permA σ A) = permVec σ (degreesUnd A) :=
  degreesUnd_perm σ A

/-- `(id, od, deg)` are each renumbered -/
theorem degrees_dir_equivariant (A : AMat Int n) :
    degreesDir (permA σ A) = (permVec σ (degreesDir A).1, permVec σ (degreesDir A).2.1, permVec σ (degreesDir A).2.2) :=
  degreesDir_perm σ A

theorem strengths_und_equivariant (A : AMat Int n) : strengthsUnd (permA σ A) = permVec σ (strengthsUnd A) :=
  strengthsUnd_perm σ A

theorem strengths_dir_equivariant (A : AMat Int n) : strengthsDir (permA σ A) = permVec σ (strengthsDir A) :=
  strengthsDir_perm σ A

/-- `Spos`, `Sneg` renumbered; the totals `vpos`, `vneg` unchanged -/
theorem strengths_und_sign_equivariant (A : AMat Int n) :
    strengthsUndSign (permA σ A) =
      (permVec σ (strengthsUndSign A).1, permVec σ (strengthsUndSign A).2.1, (strengthsUndSign A).2.2.1, (strengthsUndSign A).2.2.2) :=
  strengthsUndSign_perm σ A

theorem density_dir_invariant (A : AMat Int n) : densityDir (permA σ A) = densityDir A := densityDir_perm σ A

/-- `density_und` reads `np.triu`: invariant on its domain (symmetric matrices) -/
theorem density_und_invariant (A : AMat Int n) (hA : ∀ i j, A.get i j = A.get j i) :
    densityUnd (permA σ A) = densityUnd A := densityUnd_perm σ A hA

/-! ## clustering.py -/

theorem clustering_coef_bu_equivariant (G : AMat Int n) : clusteringBu (permA σ G) = permVec σ (clusteringBu G) :=
  clusteringBu_perm σ G
theorem clustering_coef_bd_equivariant (A : AMat Int n) : clusteringBd (permA σ A) = permVec σ (clusteringBd A) :=
  clusteringBd_perm σ A
/-- on `W = R³` (cube roots as input) -/
theorem clustering_coef_wu_equivariant (R : AMat Int n) : clusteringWu (permA σ R) = permVec σ (clusteringWu R) :=
  clusteringWu_perm σ R
theorem clustering_coef_wd_equivariant (R : AMat Int n) : clusteringWd (permA σ R) = permVec σ (clusteringWd R) :=
  clusteringWd_perm σ R
theorem transitivity_bu_invariant (A : AMat Int n) : transitivityBu (permA σ A) = transitivityBu A := transitivityBu_perm σ A
theorem transitivity_bd_invariant (A : AMat Int n) : transitivityBd (permA σ A) = transitivityBd A := transitivityBd_perm σ A
theorem transitivity_wu_invariant (R : AMat Int n) : transitivityWu (permA σ R) = transitivityWu R := transitivityWu_perm σ R
theorem transitivity_wd_invariant (R : AMat Int n) : transitivityWd (permA σ R) = transitivityWd R := transitivityWd_perm σ R

/-! ## similarity.py, flow coefficient -/

/-- `Min`, `Mout`, `Mall` are renumbered on both axes (the `i < j` loop followed by `M + M.T`) -/
theorem matching_ind_equivariant (A : AMat Int n) :
    matchingInd (permA σ A) = (permA σ (matchingInd A).1, permA σ (matchingInd A).2.1, permA σ (matchingInd A).2.2) :=
  matchingInd_perm σ A

/-- matrix output `EC` of `edge_nei_overlap_bu/bd`; the `ZeroDivisionError` is raised for all numberings or none -/
theorem edge_nei_overlap_equivariant (A : AMat Int n) :
    edgeNeiOverlap (permA σ A) = (edgeNeiOverlap A).map (permA σ) := edgeNeiOverlap_perm σ A

/-- full statement (false, see `gtom_three_steps_not_equivariant`):
`∀ s, gtom (permA σ A) s = permA σ (gtom A s)`.  Proved for `nr_steps ≤ 2`, where no in-place expansion round runs. -/
theorem gtom_equivariant_partial (A : AMat Int n) (s : Nat) (hs : s ≤ 2) : gtom (permA σ A) s = permA σ (gtom A s) :=
  gtom_perm_of_le_two σ A s hs

/-- the path 0-4-2-3-1 -/
def gtomWitness : AMat Int 5 := AMat.ofFn fun i j =>
  if (i.val, j.val) ∈ [(0, 4), (4, 0), (1, 3), (3, 1), (2, 3), (3, 2), (2, 4), (4, 2)] then 1 else 0

/-- D17: with one in-place expansion round (`nr_steps = 3`) renumbering nodes 1 and 2 of the path 0-4-2-3-1
changes the result (cell (0,1): 3/5 vs 2/5) -/
theorem gtom_three_steps_not_equivariant :
    gtom (permA (Equiv.swap (1 : Fin 5) 2) gtomWitness) 3 ≠ permA (Equiv.swap (1 : Fin 5) 2) (gtom gtomWitness 3) := by
  intro h
  have h2 := congrArg (fun M => M.get 0 1) h
  revert h2
  decide +kernel

/-- `fc` and `total_flo` are renumbered (covers the branch that tests for a neighbour with nonzero *index*) -/
theorem flow_coef_bd_equivariant (A : AMat Int n) :
    flowCoef (permA σ A) = (permVec σ (flowCoef A).1, permVec σ (flowCoef A).2) := flowCoef_perm σ A

/-- the index test of `flow_coef_bd` never changes the result -/
theorem flow_coef_bd_index_test_harmless (A : AMat Int n) (v : Fin n) :
    nanToZero (flowNode A v).1 = nanToZero (flowNodeSpec A v).1 ∧ (flowNode A v).2 = (flowNodeSpec A v).2 :=
  flowNode_eq_spec A v

/-! ## centrality.py / core.py -/

/-- the community vector is node data and is renumbered together with the matrix -/
theorem participation_coef_equivariant (W : AMat Int n) (ci : Vector Nat n) :
    participation (permA σ W) (permVec σ ci) = permVec σ (participation W ci) := participation_perm σ W ci

theorem kcore_bu_equivariant (A : AMat Int n) (k : Int) :
    kcoreBu (permA σ A) k = (kcoreBu A k).map fun r => (permA σ r.1, r.2) := kcoreBu_perm σ A k
theorem kcore_bd_equivariant (A : AMat Int n) (k : Int) :
    kcoreBd (permA σ A) k = (kcoreBd A k).map fun r => (permA σ r.1, r.2) := kcoreBd_perm σ A k
theorem score_wu_equivariant (A : AMat Int n) (s : Int) :
    scoreWu (permA σ A) s = (scoreWu A s).map fun r => (permA σ r.1, r.2) := scoreWu_perm σ A s
/-- coreness renumbered, `kn` (size of each k-core) unchanged -/
theorem kcoreness_centrality_bu_equivariant (A : AMat Int n) :
    kcorenessBu (permA σ A) = (kcorenessBu A).map fun r => (permVec σ r.1, r.2) := kcorenessBu_perm σ A
theorem kcoreness_centrality_bd_equivariant (A : AMat Int n) :
    kcorenessBd (permA σ A) = (kcorenessBd A).map fun r => (permVec σ r.1, r.2) := kcorenessBd_perm σ A

/-- `(R, Nk, Ek)` per level, including the number of levels -/
theorem rich_club_bu_invariant (A : AMat Int n) : richClubBu (permA σ A) = richClubBu A := richClubBu_perm σ A
theorem rich_club_bd_invariant (A : AMat Int n) : richClubBd (permA σ A) = richClubBd A := richClubBd_perm σ A

/-- directed variants (flags 1-4; any other nonzero flag raises `ValueError` for every numbering) -/
theorem assortativity_bin_dir_invariant (A : AMat Int n) (flag : Nat) (hf : flag ≠ 0) :
    assortativityBin (permA σ A) flag = assortativityBin A flag := assortativityBin_perm_dir σ A flag hf
/-- undirected variant: edges are listed from `np.triu(CIJ, 1)`; invariant for symmetric matrices -/
theorem assortativity_bin_und_invariant (A : AMat Int n) (hA : ∀ i j, A.get i j = A.get j i) :
    assortativityBin (permA σ A) 0 = assortativityBin A 0 := assortativityBin_perm_und σ A hA
theorem assortativity_wei_und_invariant (A : AMat Int n) (hA : ∀ i j, A.get i j = A.get j i) :
    assortativityWei0 (permA σ A) = assortativityWei0 A := assortativityWei0_perm σ A hA

/-! ## distance.py, efficiency.py -/

theorem distance_bin_equivariant (A : AMat Int n) : distanceBin (permA σ A) = (distanceBin A).map (permA σ) :=
  distanceBin_perm σ A
theorem efficiency_bin_invariant (A : AMat Int n) : efficiencyBin (permA σ A) = efficiencyBin A := efficiencyBin_perm σ A
/-- both outputs `(R, D)` -/
theorem reachdist_equivariant (A : AMat Int n) :
    reachdist (permA σ A) = (reachdist A).map fun r => (permA σ r.1, permA σ r.2) := reachdist_perm σ A

/-! ## spectral measures: the exact definitions (not the eigen-solver) -/

/-- every partial sum of `Σ_k (A^k)_{ii} / k!` (limit: `subgraph_centrality`) -/
theorem subgraphSeries_equivariant (A : AMat Int n) (K : Nat) :
    subgraphSeries (permA σ A) K = permVec σ (subgraphSeries A K) := subgraphSeries_perm σ A K
/-- a solution of the PageRank system of `A` (prior `f`) renumbers to a solution of the system of the renumbered matrix -/
theorem pagerank_equivariant (A : AMat Int n) (d : Rat) (f r : Vector Rat n) (h : IsPagerank A d f r) :
    IsPagerank (permA σ A) d (permVec σ f) (permVec σ r) := isPagerank_perm σ A d f r h
theorem eigenvector_equivariant (A : AMat Int n) (lam : Rat) (v : Vector Rat n) (h : IsEigvec A lam v) :
    IsEigvec (permA σ A) lam (permVec σ v) := isEigvec_perm σ A lam v h

/-! ## non-vacuity: concrete inputs on which the renumbering really moves the outputs -/

/-- a directed 4-node graph without symmetry: 0→1, 0→2, 1→2, 2→0, 3→0, 2→3 (weights 1,2,1,3,1,2) -/
def G4 : AMat Int 4 := AMat.ofFn fun i j =>
  match i.val, j.val with
  | 0, 1 => 1 | 0, 2 => 2 | 1, 2 => 1 | 2, 0 => 3 | 3, 0 => 1 | 2, 3 => 2 | _, _ => 0
/-- an undirected 4-node graph: triangle 0-1-2 plus the pendant edge 2-3, weight 2 on 0-1 -/
def U4 : AMat Int 4 := AMat.ofFn fun i j =>
  match i.val, j.val with
  | 0, 1 => 2 | 1, 0 => 2 | 0, 2 => 1 | 2, 0 => 1 | 1, 2 => 1 | 2, 1 => 1 | 2, 3 => 1 | 3, 2 => 1 | _, _ => 0
def s4 : Equiv.Perm (Fin 4) := Equiv.swap 0 3
def ci4 : Vector Nat 4 := #v[5, 3, 5, 9]

/-- `okB x p`: `x` returned a value and `p` holds for it -/
def okB {ε α : Type} (x : Except ε α) (p : α → Bool) : Bool := match x with | .ok a => p a | .error _ => false

/-- a directed 3-node graph: 0→1, 1→2, 2→0, 0→2 -/
def G3 : AMat Int 3 := AMat.ofFn fun i j =>
  match i.val, j.val with
  | 0, 1 => 1 | 1, 2 => 1 | 2, 0 => 1 | 0, 2 => 1 | _, _ => 0
/-- the undirected path 0-1-2 with weights 2, 1 -/
def U3 : AMat Int 3 := AMat.ofFn fun i j =>
  match i.val, j.val with
  | 0, 1 => 2 | 1, 0 => 2 | 1, 2 => 1 | 2, 1 => 1 | _, _ => 0
def s3 : Equiv.Perm (Fin 3) := Equiv.swap 0 1

example : ∀ i j, U4.get i j = U4.get j i := by decide +kernel
example : permA s4 G4 ≠ G4 ∧ permA s4 U4 ≠ U4 ∧ permA s3 G3 ≠ G3 ∧ permA s3 U3 ≠ U3 := by decide +kernel
example : degreesUnd (permA s4 U4) ≠ degreesUnd U4 := by decide +kernel
example : (degreesDir (permA s4 G4)).1 ≠ (degreesDir G4).1 := by decide +kernel
example : strengthsUnd (permA s4 U4) ≠ strengthsUnd U4 ∧ strengthsDir (permA s4 G4) ≠ strengthsDir G4 := by decide +kernel
example : (strengthsUndSign (permA s4 U4)).1 ≠ (strengthsUndSign U4).1 := by decide +kernel
example : okB (densityDir G4) (fun r => r.2.2 == 6) = true ∧ okB (densityUnd U4) (fun r => r.2.2 == 4) = true := by decide +kernel
example : clusteringBu (permA s4 U4) ≠ clusteringBu U4 := by decide +kernel
example : clusteringBd (permA s4 G4) ≠ clusteringBd G4 := by decide +kernel
example : clusteringWd (permA s4 G4) ≠ clusteringWd G4 := by decide +kernel
example : clusteringWu (permA s4 U4) ≠ clusteringWu U4 := by decide +kernel
example : transitivityBu U4 ≠ .nan ∧ transitivityBd G4 ≠ .nan ∧ transitivityWu U4 ≠ .nan ∧ transitivityWd G4 ≠ .nan := by decide +kernel
example : (matchingInd (permA s3 G3)).2.2 ≠ (matchingInd G3).2.2 := by decide +kernel
example : okB (edgeNeiOverlap U4) (fun a => okB (edgeNeiOverlap (permA s4 U4)) fun b => decide (a ≠ b)) = true := by decide +kernel
example : gtom (permA s4 U4) 2 ≠ gtom U4 2 := by decide +kernel
example : (flowCoef (permA s3 G3)).2 ≠ (flowCoef G3).2 := by decide +kernel
example : participation (permA s4 U4) (permVec s4 ci4) ≠ participation U4 ci4 := by decide +kernel
example : okB (kcoreBu U4 2) (fun a => decide (a.2 = 3 ∧ a.1 ≠ U4)) = true := by decide +kernel
example : okB (kcoreBd U4 3) (fun a => a.2 == 3) = true ∧ okB (scoreWu U4 2) (fun b => b.2 == 3) = true := by decide +kernel
example : okB (kcorenessBu U3) (fun a => decide (a.1 = #v[1, 1, 1])) = true := by decide +kernel
example : okB (kcorenessBd G3) (fun a => decide (a.1 = #v[2, 2, 2])) = true := by decide +kernel
example : (richClubBu U4).length = 3 ∧ (richClubBd G4).length = 4 := by decide +kernel
example : okB (assortativityBin U4 0) (fun r => decide (r ≠ .nan)) = true ∧ okB (assortativityBin G4 1) (fun r => decide (r ≠ .nan)) = true ∧
    assortativityWei0 U4 ≠ .nan := by decide +kernel
example : okB (distanceBin G3) (fun a => okB (distanceBin (permA s3 G3)) fun b => decide (a ≠ b)) = true := by decide +kernel
example : okB (efficiencyBin G3) (fun e => decide (e ≠ .nan ∧ e ≠ .fin 0)) = true := by decide +kernel
example : okB (reachdist G3) (fun a => okB (reachdist (permA s3 G3)) fun b => decide (a.2 ≠ b.2)) = true := by decide +kernel
example : subgraphSeries (permA s3 U3) 3 ≠ subgraphSeries U3 3 := by decide +kernel
/-- the 2-cycle: PageRank (1/2, 1/2) for d = 1/2 and eigenvector (1, 1) for eigenvalue 1 exist, so the hypotheses are satisfiable -/
def K2 : AMat Int 2 := AMat.ofFn fun i j => if i = j then 0 else 1
example : IsEigvec K2 1 #v[1, 1] := by unfold IsEigvec; decide +kernel
example : IsPagerank K2 (1 / 2) #v[1, 1] #v[1 / 2, 1 / 2] := ⟨#v[1 / 2, 1 / 2], by decide +kernel, by decide +kernel⟩

end Bct.C04
