import BctVerif.Lemmas.NbsObs
import BctVerif.Lemmas.NbsStat
import BctVerif.Lemmas.NbsTotal
import BctVerif.Lemmas.NbsLink
import BctVerif.Props.CoresNbs
/-!
# C19 — NBS reports true suprathreshold components and correct permutation p-values

Theorems about the executable model `Bct.Nbs` (all sizes, all data, all thresholds, all draw lists):

* `exceeds2_iff_real`, `exceedsP_iff_real` – the square-root-free decision is `thr < t` for the real t statistic
* `exceeds2_zero_variance`, `exceedsP_zero_variance` – the coded behaviour on zero-variance edges (two-sample: statistic 0; paired: ±inf / nan)
* `adj0_isAdj`, `adj0_eq_one_iff`  – the thresholded matrix is symmetric 0/1 with empty diagonal, 1 exactly on
                                    the cells whose (upper-triangular) statistic exceeds the threshold
* `adj_spec`        – marked cells = suprathreshold cells; labels lie in `1..C`, two marked cells carry the same
                      label iff their endpoints are connected by suprathreshold cells; `sizes[t]` = number of
                      cells `i<j` labelled `t+1`, and is at least 1
* `pval_spec`       – `hits[c] = #{u : null[u] ≥ sizes[c]}` (p-value `hits[c]/k`), one per component, `|null| = k ≠ 0`
* `null_spec`, `null_chain` – each null value is the largest component size (0 if none) of the thresholded matrix of
                      the data relabelled by the next recorded permutation / sign flips, consumed one after the other
* `nbs_total` – the model returns on its whole domain (`GoodDraws`), so the statements above are unconditional there
* `components_are_get_components`, `component_size_spec` – the component finder is the C16 `get_components` model; `sizes[t]` = suprathreshold connections inside component t
* `observed_support_end_to_end` – the source's own statistic statements (ag-tgen's `link_tstat`) put a row into `ind_t` iff the model marks the cell
* `tail_swap`, `subject_order_invariant_two_sample`, `subject_order_invariant_paired`
-/
open Relation Finset

namespace Bct.C19
open Bct Bct.Nbs

variable {n : ℕ}

/-! ## the statistic -/

/-- two-sample: with a positive pooled variance the model's decision is `thr < t`, `t` the real statistic
in the requested tail (`|t|`, `−t`, `t`) -/
theorem exceeds2_iff_real (x y : List ℚ) (thr : ℚ) (tail : Tail) (hV : 0 < pooledV x y) :
    exceeds2 x y thr tail = true ↔
      (thr : ℝ) < (tnum tail (mean x - mean y) : ℝ) / Real.sqrt (pooledV x y : ℝ) := by
  unfold exceeds2
  rw [if_neg (ne_of_gt hV)]
  exact gtSqrt_iff _ _ _ hV

/-- paired: with a positive sum of squares the decision is `thr < t`, `t = mean(d) / √(ss / (n(n−1)))` -/
theorem exceedsP_iff_real (x y : List ℚ) (thr : ℚ) (tail : Tail)
    (hss : pairedSS (diffs x y) ≠ 0)
    (hV : 0 < pairedSS (diffs x y) / (((diffs x y).length : ℚ) * (((diffs x y).length : ℚ) - 1))) :
    exceedsP x y thr tail = true ↔
      (thr : ℝ) < (tnum tail (mean (diffs x y)) : ℝ) /
        Real.sqrt ((pairedSS (diffs x y) / (((diffs x y).length : ℚ) * (((diffs x y).length : ℚ) - 1)) : ℚ) : ℝ) := by
  unfold exceedsP
  simp only
  rw [if_neg hss]
  exact gtSqrt_iff _ _ _ hV

/-- zero pooled variance (`denom == 0`): the code's statistic is 0 whatever the mean difference
(this is the behaviour recorded as known finding C19-zero-variance-two-sample) -/
theorem exceeds2_zero_variance (x y : List ℚ) (thr : ℚ) (tail : Tail) (hV : pooledV x y = 0) :
    exceeds2 x y thr tail = true ↔ thr < 0 := by
  unfold exceeds2; rw [if_pos hV]; simp

/-- paired test with zero variance of the differences (`sample_ss == 0`): the float code divides by zero, giving `+inf`,
`-inf` or `nan`; the model's decision is `0 < ` (mean difference in the requested tail), independent of the threshold -/
theorem exceedsP_zero_variance (x y : List ℚ) (thr : ℚ) (tail : Tail) (hss : pairedSS (diffs x y) = 0) :
    exceedsP x y thr tail = true ↔ 0 < tnum tail (mean (diffs x y)) := by
  unfold exceedsP
  simp only
  rw [if_pos hss]; simp

example : exceedsP [1, 2, 3] [3, 4, 5] 100 .left = true ∧ pairedSS (diffs [1, 2, 3] [3, 4, 5]) = 0 := by decide +kernel
example : exceeds2 [1, 1, 1] [5, 5, 5, 5] 2 .left = false ∧ pooledV [1, 1, 1] [5, 5, 5, 5] = 0 := by decide +kernel
example : exceeds2 [1, 2, 3] [7, 8, 9, 8] 2 .left = true ∧ 0 < pooledV [1, 2, 3] [7, 8, 9, 8] := by decide +kernel
example : exceedsP [1, 2, 4] [3, 3, 7] 2 .left = true ∧ exceedsP [1, 2, 4] [3, 3, 7] 2 .right = false := by decide +kernel

/-! ## thresholded adjacency -/

theorem adj0_get (p : Bool) (x y : Cells n) (thr : ℚ) (tail : Tail) (i j : Fin n) :
    (adj0 p x y thr tail).get i j =
      if i.val < j.val then (if exceeds p (x.get i j) (y.get i j) thr tail then 1 else 0)
      else if j.val < i.val then (if exceeds p (x.get j i) (y.get j i) thr tail then 1 else 0) else 0 := by
  simp [adj0]

theorem adj0_isAdj (p : Bool) (x y : Cells n) (thr : ℚ) (tail : Tail) : IsAdj (adj0 p x y thr tail) := by
  refine ⟨fun i j => ?_, fun i j => ?_, fun i => ?_⟩
  · rw [adj0_get, adj0_get]
    rcases Nat.lt_trichotomy i.val j.val with h | h | h
    · simp [h, Nat.lt_asymm h]
    · have : i = j := Fin.ext h
      subst this; rfl
    · simp [h, Nat.lt_asymm h]
  · rw [adj0_get]; split_ifs <;> simp
  · rw [adj0_get]; simp

/-- a cell is marked in the thresholded matrix iff it is off-diagonal and the statistic of the
upper-triangular cell `(min, max)` exceeds the threshold in the requested tail -/
theorem adj0_eq_one_iff (p : Bool) (x y : Cells n) (thr : ℚ) (tail : Tail) (i j : Fin n) :
    (adj0 p x y thr tail).get i j = 1 ↔
      (i < j ∧ exceeds p (x.get i j) (y.get i j) thr tail = true) ∨
      (j < i ∧ exceeds p (x.get j i) (y.get j i) thr tail = true) := by
  rw [adj0_get]
  rcases Nat.lt_trichotomy i.val j.val with h | h | h
  · have h' : i < j := h
    simp [h, h', not_lt_of_gt h']
  · have : i = j := Fin.ext h
    subst this; simp
  · have h' : j < i := h
    simp [h, h', Nat.lt_asymm h, not_lt_of_gt h']

/-! ## observed components -/

/-- `observe` on any symmetric 0/1 matrix with empty diagonal -/
theorem observe_spec (A : AMat Int n) (hA : IsAdj A) :
    (∀ i j, (observe A).adj.get i j ≠ 0 ↔ A.get i j = 1) ∧
    (∀ i j, A.get i j = 1 → 1 ≤ (observe A).adj.get i j ∧ (observe A).adj.get i j ≤ (observe A).sizes.length) ∧
    (∀ i j k l, A.get i j = 1 → A.get k l = 1 →
      ((observe A).adj.get i j = (observe A).adj.get k l ↔ EqvGen (Link A) i k)) ∧
    (∀ t (ht : t < (observe A).sizes.length),
      (observe A).sizes[t] = (((Finset.univ : Finset (Fin n × Fin n)).filter
        (fun p => p.1 < p.2 ∧ (observe A).adj.get p.1 p.2 = (t : ℤ) + 1)).card : ℤ) ∧
      1 ≤ (observe A).sizes[t]) := by
  have hlen : (observe A).sizes.length = (bigSets A).length := by rw [observe_sizes]; simp
  refine ⟨fun i j => ?_, fun i j h => ?_, fun i j k l h1 h2 => ?_, fun t ht => ?_⟩
  · constructor
    · intro h
      rcases hA.bin i j with h0 | h1
      · exact absurd (observe_nonedge A i j h0) h
      · exact h1
    · intro h
      obtain ⟨t, _, _, _, g⟩ := observe_edge A hA i j h
      rw [g]; omega
  · obtain ⟨t, ht, _, _, g⟩ := observe_edge A hA i j h
    rw [g, hlen]; omega
  · obtain ⟨t, ht, a1, _, g⟩ := observe_edge A hA i j h1
    obtain ⟨t', ht', b1, _, g'⟩ := observe_edge A hA k l h2
    rw [g, g']
    have hS : (bigSets A)[t] ∈ components A := (bigSets_sublist A).subset (List.getElem_mem ht)
    constructor
    · intro h
      have : t = t' := by omega
      subst this
      exact comps_conn A _ hS i k a1 b1
    · intro h
      have hk : (bigSets A)[t][k] = true := (comps_closed A _ hS i k h).mp a1
      have := idx_unique (bigSets_pairwise A) ht ht' k hk b1
      subst this; rfl
  · have ht' : t < (bigSets A).length := by omega
    obtain ⟨_, hcard⟩ := observe_size_card A hA t ht'
    refine ⟨hcard, ?_⟩
    rw [hcard]
    -- the big set has two distinct nodes, hence an edge, hence a labelled cell
    have hS : (bigSets A)[t] ∈ bigSets A := List.getElem_mem ht'
    obtain ⟨hSc, hbig⟩ := (mem_bigSets A _).mp hS
    obtain ⟨a, ha, b, hb, hab⟩ := Finset.one_lt_card.mp hbig
    simp only [mem_toFS] at ha hb
    obtain ⟨⟨z, hz, hl⟩, -⟩ := exists_link_of_eqv A (comps_conn A _ hSc a b ha hb) hab
    have haz : A.get a z = 1 := by
      rcases hl with h | h
      · rcases hA.bin a z with h0 | h1
        · exact absurd h0 h
        · exact h1
      · rw [hA.symm a z]
        rcases hA.bin z a with h0 | h1
        · exact absurd h0 h
        · exact h1
    have hzS : (bigSets A)[t][z] = true :=
      (comps_closed A _ hSc a z (EqvGen.rel _ _ (by unfold Link; omega))).mp ha
    have hlab : (observe A).adj.get a z = (t : ℤ) + 1 := (observe_label_iff A hA t ht' a z).mpr ⟨haz, ha, hzS⟩
    have hlab' : (observe A).adj.get z a = (t : ℤ) + 1 :=
      (observe_label_iff A hA t ht' z a).mpr ⟨by rw [hA.symm z a]; exact haz, hzS, ha⟩
    have : 0 < ((Finset.univ : Finset (Fin n × Fin n)).filter
        (fun p => p.1 < p.2 ∧ (observe A).adj.get p.1 p.2 = (t : ℤ) + 1)).card := by
      apply Finset.card_pos.mpr
      rcases lt_or_gt_of_ne hz with h | h
      · exact ⟨(z, a), by simp [h, hlab']⟩
      · exact ⟨(a, z), by simp [h, hlab]⟩
    exact_mod_cast this

/-- **adj_spec**: the adjacency output marks exactly the suprathreshold connections, labelled by component -/
theorem adj_spec (p : Bool) (x y : Cells n) (thr : ℚ) (tail : Tail) :
    let A := adj0 p x y thr tail
    let o := observe A
    (∀ i j, o.adj.get i j ≠ 0 ↔
      ((i < j ∧ exceeds p (x.get i j) (y.get i j) thr tail = true) ∨
       (j < i ∧ exceeds p (x.get j i) (y.get j i) thr tail = true))) ∧
    (∀ i j, A.get i j = 1 → 1 ≤ o.adj.get i j ∧ o.adj.get i j ≤ o.sizes.length) ∧
    (∀ i j k l, A.get i j = 1 → A.get k l = 1 → (o.adj.get i j = o.adj.get k l ↔ EqvGen (Link A) i k)) ∧
    (∀ t (ht : t < o.sizes.length),
      o.sizes[t] = (((Finset.univ : Finset (Fin n × Fin n)).filter
        (fun q => q.1 < q.2 ∧ o.adj.get q.1 q.2 = (t : ℤ) + 1)).card : ℤ) ∧ 1 ≤ o.sizes[t]) := by
  intro A o
  obtain ⟨h1, h2, h3, h4⟩ := observe_spec A (adj0_isAdj p x y thr tail)
  exact ⟨fun i j => (h1 i j).trans (adj0_eq_one_iff p x y thr tail i j), h2, h3, h4⟩

/-! ## p-values and the null distribution -/

/-- **pval_spec**: one hit count per component; `hits[c]` is the number of returned null values that are at
least the component's number of connections `sizes[c]`; the p-value is `hits[c] / k`, `k = |null| ≠ 0`. -/
theorem pval_spec {p : Bool} {nx ny : ℕ} {x y : Cells n} {thr : ℚ} {tail : Tail} {k : ℕ} {ds : List ℕ}
    {o : Out n} {rest : List ℕ} (h : nbs p nx ny x y thr tail k ds = .ok (o, rest)) :
    o.obs = observe (adj0 p x y thr tail) ∧ o.null.length = k ∧ k ≠ 0 ∧ o.k = k ∧
    o.hits.length = o.obs.sizes.length ∧
    ∀ c (hc : c < o.obs.sizes.length) (hc' : c < o.hits.length),
      o.hits[c] = (o.null.filter fun v => decide (o.obs.sizes[c] ≤ v)).length := by
  obtain ⟨-, hobs, hnull, hk, hok, hhits⟩ := nbs_ok h
  refine ⟨hobs, nullVals_length p nx ny x y thr tail k ds _ _ hnull, hk, hok, by rw [hhits]; simp [hitsOf], ?_⟩
  intro c hc hc'
  simp only [hhits, hitsOf, List.getElem_map, List.countP_eq_length_filter]

/-- **null_spec**: one null value consumes the next recorded relabelling and equals the largest component
size (number of connections; 0 when there is no component) of the thresholded relabelled data:
two-sample – columns `perm` of `hstack(x, y)`, first `nx` / remaining `ny`; paired – both stacks multiplied
by the recorded signs `sign(0.5 − u)`. -/
theorem null_spec (p : Bool) (nx ny : ℕ) (x y : Cells n) (thr : ℚ) (tail : Tail) (ds : List ℕ) (v : ℤ)
    (rest : List ℕ) (h : nullOne p nx ny x y thr tail ds = .ok (v, rest)) :
    ∃ (x' y' : Cells n),
      (if p then
        (∀ i j, x'.get i j = flipCell ((ds.take nx).map signOf) (x.get i j) ∧
                y'.get i j = flipCell ((ds.take nx).map signOf) (y.get i j)) ∧ rest = ds.drop nx
       else
        validPerm (nx + ny) (ds.take (nx + ny)) = true ∧
        (∀ i j, x'.get i j = (permuteCell nx (ds.take (nx + ny)) (x.get i j) (y.get i j)).1 ∧
                y'.get i j = (permuteCell nx (ds.take (nx + ny)) (x.get i j) (y.get i j)).2) ∧
        rest = ds.drop (nx + ny)) ∧
      v = maxOr0 (observe (adj0 p x' y' thr tail)).sizes ∧
      (∀ s ∈ (observe (adj0 p x' y' thr tail)).sizes, s ≤ v) ∧ 0 ≤ v := by
  cases p with
  | true =>
    simp only [nullOne, if_true] at h
    split_ifs at h with h1
    cases h
    refine ⟨AMat.ofFn fun i j => flipCell ((ds.take nx).map signOf) (x.get i j),
      AMat.ofFn fun i j => flipCell ((ds.take nx).map signOf) (y.get i j), ?_, ?_, ?_⟩
    · simp
    · simp only [sizesOnly_eq]
    · simp only [sizesOnly_eq]
      exact ⟨(maxOr0_spec _).1, (maxOr0_spec _).2.1⟩
  | false =>
    simp only [nullOne, Bool.false_eq_true, if_false] at h
    split_ifs at h with h1 h3
    cases h
    refine ⟨AMat.ofFn fun i j => (permuteCell nx (ds.take (nx + ny)) (x.get i j) (y.get i j)).1,
      AMat.ofFn fun i j => (permuteCell nx (ds.take (nx + ny)) (x.get i j) (y.get i j)).2, ?_, ?_, ?_⟩
    · simp only [Bool.false_eq_true, if_false, AMat.get_ofFn, and_self, implies_true, and_true]
      simpa using h3
    · simp only [sizesOnly_eq]
    · simp only [sizesOnly_eq]
      exact ⟨(maxOr0_spec _).1, (maxOr0_spec _).2.1⟩

/-- the `k` null values are produced one after the other, each consuming the draws left by the previous one -/
theorem null_chain (p : Bool) (nx ny : ℕ) (x y : Cells n) (thr : ℚ) (tail : Tail) (k : ℕ) (ds : List ℕ)
    (vs : List ℤ) (rest' : List ℕ) (h : nullVals p nx ny x y thr tail (k + 1) ds = .ok (vs, rest')) :
    ∃ v vs' rest, vs = v :: vs' ∧ nullOne p nx ny x y thr tail ds = .ok (v, rest) ∧
      nullVals p nx ny x y thr tail k rest = .ok (vs', rest') := by
  rw [nullVals] at h
  split at h
  · cases h
  · rename_i v rest h1
    split at h
    · cases h
    · rename_i vs2 rest2 h2
      cases h
      exact ⟨v, vs2, rest, rfl, h1, h2⟩

/-! ## totality, the link to the `get_components` model of C16, and the source-level statistic -/

/-- **totality**: on the whole domain (well-shaped stacks, ≥ 2 subjects per group, equal groups when paired, at least one
suprathreshold connection, `k ≠ 0`, recorded draws of the right shape `GoodDraws`) the model returns, consuming exactly
`k·(nx+ny)` (two-sample) or `k·nx` (paired) draws; with `pval_spec` / `null_spec` / `adj_spec` the statements about the
output are therefore unconditional there.  (The other outcomes are the explicit errors compared with the real code:
no suprathreshold connection / unequal paired groups → `BCTParamError`, `k = 0` → `ZeroDivisionError`.) -/
theorem nbs_total (paired : Bool) (nx ny : ℕ) (x y : Cells n) (thr : ℚ) (tail : Tail) (k : ℕ) (ds : List ℕ)
    (hx : wellShaped nx x = true) (hy : wellShaped ny y = true) (hnx : 2 ≤ nx) (hny : 2 ≤ ny)
    (hpair : paired = true → nx = ny) (hedge : anyEdge (adj0 paired x y thr tail) = true) (hk : k ≠ 0)
    (hd : GoodDraws paired nx ny k ds) :
    ∃ o, nbs paired nx ny x y thr tail k ds = .ok (o, ds.drop (k * (if paired then nx else nx + ny))) ∧
      o.obs = observe (adj0 paired x y thr tail) ∧ o.null.length = k ∧ o.hits.length = o.obs.sizes.length ∧
      ∀ c (hc : c < o.obs.sizes.length) (hc' : c < o.hits.length),
        o.hits[c] = (o.null.filter fun v => decide (o.obs.sizes[c] ≤ v)).length := by
  obtain ⟨o, ho⟩ := Nbs.nbs_total paired nx ny x y thr tail k ds hx hy hnx hny hpair hedge hk hd
  obtain ⟨h1, h2, -, -, h5, h6⟩ := pval_spec ho
  exact ⟨o, ho, h1, h2, h5, h6⟩

/-- the component finder inside the NBS model is, set for set and in the same order, the `get_components` model of C16
(`Comp.unionSets`), so `Props/C16.lean` (`components_correct`, `sizes_correct`, `components_vs_distance`: classes of mutual
reachability, BFS distance) applies to it; the components used by NBS are those with more than one node -/
theorem components_are_get_components (A : AMat Int n) :
    components A = Comp.unionSets A ∧
    bigSets A = (Comp.unionSets A).filter (fun s => decide (1 < Comp.NSet.size s)) := by
  refine ⟨components_eq_comp A, ?_⟩
  unfold bigSets
  rw [components_eq_comp]
  refine List.filter_congr (fun s _ => ?_)
  rw [sizeS_eq_comp]

/-- **the component-size statistic**: `sizes[t]` is the number of suprathreshold connections `i < j` with both endpoints in the
`t`-th component (with more than one node) returned by `get_components` -/
theorem component_size_spec (A : AMat Int n) (hA : IsAdj A) (t : ℕ) (ht : t < (bigSets A).length) :
    ∃ ht' : t < (observe A).sizes.length, (observe A).sizes[t] =
      (((Finset.univ : Finset (Fin n × Fin n)).filter
        (fun p => p.1 < p.2 ∧ A.get p.1 p.2 = 1 ∧ (bigSets A)[t][p.1] = true ∧ (bigSets A)[t][p.2] = true)).card : ℤ) := by
  obtain ⟨ht', h⟩ := observe_size_card A hA t ht
  refine ⟨ht', ?_⟩
  rw [h]
  congr 2
  refine Finset.filter_congr (fun p _ => ?_)
  rw [observe_label_iff A hA t ht p.1 p.2]

/-- **observed support, end to end**: for the statements extracted from the current source of `nbs_bct` (the nested t
functions and the lines that call them and build `ind_t`; `statOk`, `t2Ok`, `pairOk` are the decidable checks ag-tgen's
translator obligations discharge on every run), the row of connection `i < j` is put into `ind_t` exactly when the model's
adjacency output marks the cell — numbers read as reals, `Real.sqrt` -/
theorem observed_support_end_to_end (s : CoreIR.Nbs.StatIR) (t2 : CoreIR.Nbs.T2IR) (pr : CoreIR.Nbs.PairIR)
    (hs : CoreIR.Nbs.statOk s = true) (h2 : CoreIR.Nbs.t2Ok t2 = true) (hp : CoreIR.Nbs.pairOk pr = true)
    (paired : Bool) (x y : Cells n) (thr : ℚ) (tail : Tail) (i j : Fin n) (hij : i < j)
    (hx : 2 ≤ (x.get i j).length) (hy : 2 ≤ (y.get i j).length)
    (hxy : paired = true → (x.get i j).length = (y.get i j).length) :
    CoreIR.Nbs.runStat Cores.Nbs.realOps s t2 pr paired (Cores.Nbs.castL (x.get i j)) (Cores.Nbs.castL (y.get i j))
        (Cores.Nbs.tailStr tail) (thr : ℝ)
      = some (decide ((observe (adj0 paired x y thr tail)).adj.get i j ≠ 0)) := by
  rw [Cores.Nbs.link_tstat s t2 pr hs h2 hp paired (x.get i j) (y.get i j) thr tail hx hy hxy]
  congr 1
  have h := (adj_spec paired x y thr tail).1 i j
  have hji : ¬ j < i := not_lt_of_gt hij
  simp only [hij, hji, true_and, false_and, or_false] at h
  by_cases he : exceeds paired (x.get i j) (y.get i j) thr tail = true
  · rw [he]; symm; exact decide_eq_true (h.mpr he)
  · have he' : exceeds paired (x.get i j) (y.get i j) thr tail = false := by simpa using he
    rw [he']; symm; exact decide_eq_false (fun hne => he (h.mp hne))

/-! ## symmetries of the observed components -/

/-- **tail_swap**: swapping the two groups together with the tail (`left ↔ right`), or under `both`,
leaves the observed components (labelled adjacency and sizes) unchanged -/
theorem tail_swap (p : Bool) (x y : Cells n) (thr : ℚ) :
    observe (adj0 p x y thr .left) = observe (adj0 p y x thr .right) ∧
    observe (adj0 p x y thr .right) = observe (adj0 p y x thr .left) ∧
    observe (adj0 p x y thr .both) = observe (adj0 p y x thr .both) := by
  exact ⟨congrArg observe (adj0_swap_left p x y thr), congrArg observe (adj0_swap_right p x y thr),
    congrArg observe (adj0_swap_both p x y thr)⟩

/-- **subject_order_invariant** (two-sample): reordering the subjects within either group (any rearrangement
of the per-cell value lists) leaves the observed components unchanged -/
theorem subject_order_invariant_two_sample (x x' y y' : Cells n) (thr : ℚ) (t : Tail)
    (hx : ∀ i j, (x.get i j).Perm (x'.get i j)) (hy : ∀ i j, (y.get i j).Perm (y'.get i j)) :
    observe (adj0 false x y thr t) = observe (adj0 false x' y' thr t) := by
  rw [adj0_reorder_two_sample x x' y y' thr t hx hy]

/-- **subject_order_invariant** (paired): reordering the subject *pairs* leaves the observed components unchanged -/
theorem subject_order_invariant_paired (x x' y y' : Cells n) (thr : ℚ) (t : Tail)
    (h : ∀ i j, ((x.get i j).zip (y.get i j)).Perm ((x'.get i j).zip (y'.get i j))) :
    observe (adj0 true x y thr t) = observe (adj0 true x' y' thr t) := by
  rw [adj0_reorder_paired x x' y y' thr t h]

/-! ## non-vacuity: a concrete run (3 nodes, groups of 3 and 4, k = 2 recorded permutations) -/

def xs : Cells 3 := AMat.ofFn fun i j =>
  if (i.val = 0 ∧ j.val = 1) ∨ (i.val = 1 ∧ j.val = 0) then [1, 2, 1]
  else if (i.val = 1 ∧ j.val = 2) ∨ (i.val = 2 ∧ j.val = 1) then [1, 2, 3]
  else if i = j then [0, 0, 0] else [4, 1, 3]
def ys : Cells 3 := AMat.ofFn fun i j =>
  if (i.val = 0 ∧ j.val = 1) ∨ (i.val = 1 ∧ j.val = 0) then [5, 6, 5, 7]
  else if (i.val = 1 ∧ j.val = 2) ∨ (i.val = 2 ∧ j.val = 1) then [7, 8, 9, 8]
  else if i = j then [0, 0, 0, 0] else [3, 2, 4, 1]

example : (match nbs false 3 4 xs ys 2 .left 2 [0, 1, 2, 3, 4, 5, 6, 6, 5, 4, 3, 2, 1, 0] with
    | .ok (o, rest) => showMat o.obs.adj == "0,1,0,1,0,1,0,1,0" && o.obs.sizes == [2] && o.null == [2, 0]
        && o.hits == [1] && rest == []
    | .error _ => false) = true := by decide +kernel

/-- non-vacuity from a recorded real run: `bct.nbs_bct(x, y, 2.0, k=4, tail='left', seed=Recorder(3))` on the stacks `xs`, `ys`
above returned `pvals = [0.]`, `adj = [[0,1,0],[1,0,1],[0,1,0]]`, `null = [0,1,0,0]` and drew these four permutations;
the model reproduces it, and the hypotheses of `nbs_total` hold for it -/
def realDraws : List ℕ := [4, 6, 5, 3, 1, 0, 2, 6, 4, 1, 2, 3, 5, 0, 6, 1, 3, 4, 0, 5, 2, 3, 5, 4, 1, 2, 0, 6]

example : (match nbs false 3 4 xs ys 2 .left 4 realDraws with
    | .ok (o, rest) => showMat o.obs.adj == "0,1,0,1,0,1,0,1,0" && o.obs.sizes == [2] && o.null == [0, 1, 0, 0]
        && o.hits == [0] && rest == []
    | .error _ => false) = true := by decide +kernel

example : wellShaped 3 xs = true ∧ wellShaped 4 ys = true ∧ anyEdge (adj0 false xs ys 2 .left) = true ∧
    GoodDraws false 3 4 4 realDraws := by
  refine ⟨by decide +kernel, by decide +kernel, by decide +kernel, ?_⟩
  simp only [GoodDraws, realDraws]
  decide +kernel

example : IsAdj (adj0 false xs ys 2 .left) := adj0_isAdj _ _ _ _ _
example : (adj0 false xs ys 2 .left).get 0 1 = 1 := by decide +kernel

end Bct.C19
