import BctVerif.Model.CoreIRDinv
import BctVerif.Props.CoresDijk
/-!
# T-gen for the nested `distance_inv_wei` of `efficiency_wei`: the Dijkstra part computes the distances of `Dist.dijkstra`

The proofs follow `Props/CoresDijk.lean` (the routine `distance_wei`) with the matrix `B` removed.
-/
namespace Bct.Cores.Dinv
open Bct Bct.Dist Bct.CoreIR.Dijk Bct.CoreIR.Dinv Bct.Cores.Dijk

variable {n : ℕ}

/-- the environment holds, for the pass of row `u`, the distances and the temporary set of the model state `st` -/
def RowStD (L : AMat Ext n) (u : Fin n) (E : Env n) (st : DSt n) : Prop :=
  (∃ Dm, E.mat "D" = some Dm ∧ ∀ w, Dm.get u w = .ext st.D[w]) ∧
  (∃ G1, E.mat "G1" = some G1 ∧ ∀ v w, G1.get v w = g1cell L st.S v w) ∧
  E.vec "S" = some st.S ∧ E.node "u" = some u

/-- rows other than `u` of `D`, the argument `G` and the dimension names are the same in both environments -/
def FrameD (u : Fin n) (E E' : Env n) : Prop :=
  (∀ a w, a ≠ u → cellOf E' "D" a w = cellOf E "D" a w) ∧ E'.mat "G" = E.mat "G" ∧ E'.dims = E.dims

theorem FrameD.refl (u : Fin n) (E : Env n) : FrameD u E E := ⟨fun _ _ _ => rfl, rfl, rfl⟩
theorem FrameD.trans {u : Fin n} {E1 E2 E3 : Env n} (h1 : FrameD u E1 E2) (h2 : FrameD u E2 E3) : FrameD u E1 E3 :=
  ⟨fun a w ha => (h2.1 a w ha).trans (h1.1 a w ha), h2.2.1.trans h1.2.1, h2.2.2.trans h1.2.2⟩

theorem block_envD (L : AMat Ext n) (hL : ∀ v w q, L.get v w = .fin q → q ≠ 0) (E : Env n) (st : DSt n) (u v : Fin n)
    (h : RowStD L u E st) :
    ∃ E', execs refBodyD { E with node := fun y => if y = "v" then some v else E.node y } = some E' ∧
      RowStD L u E' (relaxFrom L st v) ∧ FrameD u E E' := by
  obtain ⟨⟨Dm, mD, hD⟩, ⟨G1, mG, hG⟩, hS, hu⟩ := h
  have hnz : ∀ w, (G1.get v w).nonzero = some (st.S[w] && (L.get v w).isFin) := by
    intro w
    rw [hG, g1cell]
    cases hs : st.S[w]
    · simp [V.nonzero]
    · cases hl : L.get v w with
      | fin q => simp [V.nonzero, Ext.isFin, hL v w q hl]
      | inf => simp [V.nonzero, Ext.isFin]
  have hadd_inf : ∀ x : Ext, x + Ext.inf = Ext.inf := by
    intro x; cases x <;> rfl
  refine ⟨?E', ?h1, ?h2, ?h3⟩
  case h1 =>
    simp [refBodyD, tmpMin, execs, exec, evalL, mD, mG, hu, hnz]
    rfl
  case h2 =>
    refine ⟨⟨_, by simp; rfl, ?_⟩, ⟨G1, by simp [mG], ?_⟩, by simp [hS, relaxFrom], by simp [hu]⟩
    · intro w
      simp only [AMat.get_ofFn, true_and, relaxFrom, Fin.getElem_fin, Vector.getElem_ofFn, hD, hG, g1cell,
        List.contains_iff_mem, List.mem_filter, List.mem_finRange, hnz]
      cases hs : st.S[w.val]
      · simp
      · cases hl : L.get v w with
        | fin q => simp [Ext.isFin, V.min2, Ext.min]
        | inf => simp [Ext.isFin, hadd_inf, Ext.lt]
    · intro v' w; exact hG v' w
  case h3 =>
    refine ⟨fun a w ha => ?_, by simp, rfl⟩
    simp [cellOf, mD, ha]

theorem forNodesD_spec (L : AMat Ext n) (hL : ∀ v w q, L.get v w = .fin q → q ≠ 0) (u : Fin n) :
    ∀ (Vs : List (Fin n)) (E : Env n) (st : DSt n), RowStD L u E st →
      ∃ E', forNodesRun "v" refBodyD Vs E = some E' ∧ RowStD L u E' (Vs.foldl (relaxFrom L) st) ∧ FrameD u E E' := by
  intro Vs
  induction Vs with
  | nil => intro E st h; exact ⟨E, rfl, h, FrameD.refl u E⟩
  | cons v vs ih =>
    intro E st h
    obtain ⟨E1, e1, s1, f1⟩ := block_envD L hL E st u v h
    obtain ⟨E2, e2, s2, f2⟩ := ih E1 _ s1
    exact ⟨E2, by simp only [forNodesRun, e1, e2], s2, f1.trans f2⟩

theorem settleD_spec (L : AMat Ext n) (u : Fin n) (E : Env n) (st : DSt n) (Vs : List (Fin n)) (h : RowStD L u E st)
    (hV : E.idx "V" = some Vs) :
    ∃ E', wexecs [.clearVec "S" "V", .zeroCols "G1" "V"] E = some (E', false) ∧ RowStD L u E' (settle st Vs) ∧ FrameD u E E' ∧
      E'.idx "V" = some Vs := by
  obtain ⟨⟨Dm, mD, hD⟩, ⟨G1, mG, hG⟩, hS, hu⟩ := h
  refine ⟨?E', ?h1, ?h2, ?h3, ?h4⟩
  case h1 =>
    simp [wexecs, wexec, hS, hV, mG]
    rfl
  case h2 =>
    refine ⟨⟨Dm, by simp [mD], hD⟩, ⟨_, by simp; rfl, ?_⟩, by simp [settle], by simp [hu]⟩
    intro v w
    simp only [AMat.get_ofFn, hG, g1cell, settle, Fin.getElem_fin, Vector.getElem_ofFn]
    by_cases hc : w ∈ Vs
    · cases hs : st.S[w.val] <;> cases hl : L.get v w <;> simp [hc, hs, hl]
    · cases hs : st.S[w.val] <;> cases hl : L.get v w <;> simp [hc, hs, hl]
  case h3 =>
    exact ⟨fun a w _ => by simp [cellOf, mD], by simp, rfl⟩
  case h4 => simp [hV]

theorem tailD_spec (L : AMat Ext n) (u : Fin n) (E : Env n) (st : DSt n) (h : RowStD L u E st) :
    ∃ E', wexecs [.breakIfNoneLeft "D" "u" "S", .minMasked "minD" "D" "u" "S", .breakIfInf "minD", .whereEqRow "V" "D" "u" "minD"] E =
        some (E', ((List.finRange n).filter fun w => st.S[w]).isEmpty ||
                  decide (minOver st.D ((List.finRange n).filter fun w => st.S[w]) = .inf)) ∧
      RowStD L u E' st ∧ FrameD u E E' ∧
      ((((List.finRange n).filter fun w => st.S[w]).isEmpty ||
          decide (minOver st.D ((List.finRange n).filter fun w => st.S[w]) = .inf)) = false →
        E'.idx "V" = some ((List.finRange n).filter fun x => st.D[x] = minOver st.D ((List.finRange n).filter fun w => st.S[w]))) := by
  obtain ⟨⟨Dm, mD, hD⟩, ⟨G1, mG, hG⟩, hS, hu⟩ := h
  generalize htemp : ((List.finRange n).filter fun w => st.S[w]) = temp
  by_cases he : temp.isEmpty = true
  · refine ⟨E, ?_, ⟨⟨Dm, mD, hD⟩, ⟨G1, mG, hG⟩, hS, hu⟩, FrameD.refl u E, ?_⟩
    · simp only [wexecs, wexec, mD, hu, hS, htemp, he, Bool.true_or]
    · intro hb; simp only [he, Bool.true_or] at hb; exact absurd hb (by decide)
  · have he' : temp.isEmpty = false := by simpa using he
    have hmin := minCells_spec Dm u st.D hD temp he'
    by_cases hi : minOver st.D temp = .inf
    · refine ⟨{ E with sc := fun y => if y = "minD" then some (minOver st.D temp) else E.sc y },
        ?_, ⟨⟨Dm, mD, hD⟩, ⟨G1, mG, hG⟩, hS, hu⟩, ⟨fun _ _ _ => rfl, rfl, rfl⟩, ?_⟩
      · simp only [wexecs, wexec, mD, hu, hS, htemp, he', hmin, Option.map_some, if_true, hi, beq_self_eq_true, decide_true, Bool.or_true]
      · intro hb; simp only [hi, decide_true, Bool.or_true] at hb; exact absurd hb (by decide)
    · refine ⟨{ E with sc := fun y => if y = "minD" then some (minOver st.D temp) else E.sc y,
                       idx := fun z => if z = "V" then some ((List.finRange n).filter fun w =>
                         Dm.get u w == V.ext (minOver st.D temp)) else E.idx z },
        ?_, ⟨⟨Dm, mD, hD⟩, ⟨G1, mG, hG⟩, hS, hu⟩, ⟨fun _ _ _ => rfl, rfl, rfl⟩, ?_⟩
      · have hb : (minOver st.D temp == Ext.inf) = false := by simpa using hi
        simp only [wexecs, wexec, mD, hu, hS, htemp, he', hmin, Option.map_some, if_true, hb, hi, decide_false, Bool.or_false]
      · intro _
        simp only [if_true, Option.some.injEq]
        apply List.filter_congr
        intro x _
        rw [hD x]
        exact ext_beq _ _

theorem refWhileD_split : refWhileD = [WStmt.clearVec "S" "V", .zeroCols "G1" "V"] ++ ([.forNodes "v" "V" refBodyD] ++
    [.breakIfNoneLeft "D" "u" "S", .minMasked "minD" "D" "u" "S", .breakIfInf "minD", .whereEqRow "V" "D" "u" "minD"]) := rfl

theorem passD_spec (L : AMat Ext n) (hL : ∀ v w q, L.get v w = .fin q → q ≠ 0) (u : Fin n) (E : Env n) (st : DSt n)
    (Vs : List (Fin n)) (h : RowStD L u E st) (hV : E.idx "V" = some Vs) :
    let st1 := Vs.foldl (relaxFrom L) (settle st Vs)
    let temp := (List.finRange n).filter fun w => st1.S[w]
    ∃ E', wexecs refWhileD E = some (E', temp.isEmpty || decide (minOver st1.D temp = .inf)) ∧ RowStD L u E' st1 ∧ FrameD u E E' ∧
      ((temp.isEmpty || decide (minOver st1.D temp = .inf)) = false →
        E'.idx "V" = some ((List.finRange n).filter fun x => st1.D[x] = minOver st1.D temp)) := by
  intro st1 temp
  obtain ⟨E1, e1, s1, f1, v1⟩ := settleD_spec L u E st Vs h hV
  obtain ⟨E2, e2, s2, f2⟩ := forNodesD_spec L hL u Vs E1 _ s1
  obtain ⟨E3, e3, s3, f3, v3⟩ := tailD_spec L u E2 st1 s2
  refine ⟨E3, ?_, s3, (f1.trans f2).trans f3, v3⟩
  rw [refWhileD_split, wexecs_append, e1]
  simp only [wexecs_append, wexecs, wexec, v1, e2, Option.map_some]
  exact e3

theorem whileD_spec (L : AMat Ext n) (hL : ∀ v w q, L.get v w = .fin q → q ≠ 0) (u : Fin n) :
    ∀ (fuel : ℕ) (E : Env n) (st : DSt n) (Vs : List (Fin n)), RowStD L u E st → E.idx "V" = some Vs →
      match dLoop L fuel st Vs with
      | none => whileTrue refWhileD fuel E = none
      | some st' => ∃ E', whileTrue refWhileD fuel E = some E' ∧ RowStD L u E' st' ∧ FrameD u E E' := by
  intro fuel
  induction fuel with
  | zero => intro E st Vs _ _; simp [dLoop, whileTrue]
  | succ f ih =>
    intro E st Vs h hV
    obtain ⟨E1, e1, s1, f1, v1⟩ := passD_spec L hL u E st Vs h hV
    simp only [dLoop, whileTrue, e1]
    by_cases he : ((List.finRange n).filter fun w => (Vs.foldl (relaxFrom L) (settle st Vs)).S[w]).isEmpty = true
    · simp only [he, Bool.true_or, if_true]
      exact ⟨E1, rfl, s1, f1⟩
    · have he' : ((List.finRange n).filter fun w => (Vs.foldl (relaxFrom L) (settle st Vs)).S[w]).isEmpty = false := by simpa using he
      by_cases hi : minOver (Vs.foldl (relaxFrom L) (settle st Vs)).D
          ((List.finRange n).filter fun w => (Vs.foldl (relaxFrom L) (settle st Vs)).S[w]) = .inf
      · simp only [he', hi, decide_true, Bool.or_true, Bool.false_eq_true, if_false, if_true]
        exact ⟨E1, rfl, s1, f1⟩
      · simp only [he', hi, decide_false, Bool.or_false, Bool.false_eq_true, if_false]
        have hv := v1 (by rw [he', decide_eq_false hi]; rfl)
        have := ih E1 _ _ s1 hv
        cases hd : dLoop L f (Vs.foldl (relaxFrom L) (settle st Vs))
            ((List.finRange n).filter fun x => (Vs.foldl (relaxFrom L) (settle st Vs)).D[x] =
              minOver (Vs.foldl (relaxFrom L) (settle st Vs)).D ((List.finRange n).filter fun w => (Vs.foldl (relaxFrom L) (settle st Vs)).S[w])) with
        | none => rw [hd] at this; exact this
        | some st' =>
          rw [hd] at this
          obtain ⟨E2, e2, s2, f2⟩ := this
          exact ⟨E2, e2, s2, f1.trans f2⟩

/-- between two row passes: `G` and `n` are bound, every finished row of `D` holds the model's result, every other row its initial value -/
def GlobD (A : AMat ℚ n) (E : Env n) (done : Fin n → Bool) : Prop :=
  E.mat "G" = some (embG A) ∧ E.dims "n" = true ∧
  (∃ Dm, E.mat "D" = some Dm ∧ ∀ a, (done a = true → ∃ st, dRow (lenMat .none A) a = some st ∧ ∀ w, Dm.get a w = .ext st.D[w]) ∧
      (done a = false → ∀ w, Dm.get a w = .ext (dInit a).D[w]))

theorem rowPreD_spec (A : AMat ℚ n) (E : Env n) (done : Fin n → Bool) (u : Fin n) (h : GlobD A E done) (hu : done u = false) :
    ∃ E1, rexecs refDinvD.rowPre { E with node := fun y => if y = "u" then some u else E.node y } = some E1 ∧
      RowStD (lenMat .none A) u E1 (dInit u) ∧ E1.idx "V" = some [u] ∧
      E1.mat "D" = E.mat "D" ∧ E1.mat "G" = E.mat "G" ∧ E1.dims = E.dims := by
  obtain ⟨hG, hn, ⟨Dm, mD, hD⟩⟩ := h
  refine ⟨?E1, ?h1, ?h2, ?h3, ?h4, ?h5, ?h6⟩
  case h1 =>
    simp [refDinvD, rexecs, rexec, hn, hG]
    rfl
  case h2 =>
    refine ⟨⟨Dm, by simp [mD], (hD u).2 hu⟩, ⟨embG A, by simp, ?_⟩, by simp [dInit], by simp⟩
    intro v w
    simp only [embG, AMat.map, AMat.get_ofFn, g1cell, dInit, Fin.getElem_fin, Vector.getElem_ofFn, if_true, lenMat, lenOf]
    by_cases h0 : A.get v w = 0 <;> simp [h0]
  all_goals simp

theorem GlobD.step (A : AMat ℚ n) (E E1 E2 : Env n) (done : Fin n → Bool) (u : Fin n) (st' : DSt n)
    (h : GlobD A E done) (hD1 : E1.mat "D" = E.mat "D") (hG1 : E1.mat "G" = E.mat "G")
    (hd1 : E1.dims = E.dims) (hrow : dRow (lenMat .none A) u = some st') (hs : RowStD (lenMat .none A) u E2 st') (hf : FrameD u E1 E2) :
    GlobD A E2 (fun a => done a || a == u) := by
  obtain ⟨hG, hn, ⟨Dm, mD, hD⟩⟩ := h
  obtain ⟨⟨Dm2, mD2, hD2⟩, _, _, _⟩ := hs
  obtain ⟨hcells, hGf, hdf⟩ := hf
  refine ⟨by rw [hGf, hG1, hG], by rw [hdf, hd1, hn], ⟨Dm2, mD2, fun a => ?_⟩⟩
  by_cases hau : a = u
  · subst hau
    exact ⟨fun _ => ⟨st', hrow, hD2⟩, fun hc => by simp at hc⟩
  · have hc := (hcells a · hau)
    have heq : ∀ w, Dm2.get a w = Dm.get a w := by
      intro w
      have := hc w
      simp only [cellOf, mD2, hD1, mD, Option.map_some, Option.some.injEq] at this
      exact this
    have hbeq : (a == u) = false := by simpa using hau
    simp only [hbeq, Bool.or_false]
    exact ⟨fun hd => by obtain ⟨st, e, hw⟩ := (hD a).1 hd; exact ⟨st, e, fun w => (heq w).trans (hw w)⟩,
           fun hd w => (heq w).trans ((hD a).2 hd w)⟩

theorem rowD_spec (A : AMat ℚ n) (E : Env n) (done : Fin n → Bool) (u : Fin n) (h : GlobD A E done) (hu : done u = false) :
    match dRow (lenMat .none A) u with
    | none => forRows refDinvD (n + 1) [u] E = none
    | some _ => ∃ E', forRows refDinvD (n + 1) [u] E = some E' ∧ GlobD A E' (fun a => done a || a == u) := by
  obtain ⟨E1, e1, s1, v1, d1, g1, n1⟩ := rowPreD_spec A E done u h hu
  have hw := whileD_spec (lenMat .none A) (lenMat_ne_zero A) u (n + 1) E1 (dInit u) [u] s1 v1
  have e1' : rexecs refDinvD.rowPre { E with node := fun y => if y = refDinvD.rowVar then some u else E.node y } = some E1 := e1
  cases hd : dRow (lenMat .none A) u with
  | none =>
    have hd' : dLoop (lenMat .none A) (n + 1) (dInit u) [u] = none := hd
    rw [hd'] at hw
    simp only [forRows, e1']
    have hw' : whileTrue refDinvD.whileBody (n + 1) E1 = none := hw
    simp only [hw']
  | some st' =>
    have hd' : dLoop (lenMat .none A) (n + 1) (dInit u) [u] = some st' := hd
    rw [hd'] at hw
    obtain ⟨E2, e2, s2, f2⟩ := hw
    have e2' : whileTrue refDinvD.whileBody (n + 1) E1 = some E2 := e2
    exact ⟨E2, by simp only [forRows, e1', e2'], GlobD.step A E E1 E2 done u st' h d1 g1 n1 hd s2 f2⟩

theorem rowsD_spec (A : AMat ℚ n) :
    ∀ (us : List (Fin n)) (E : Env n) (done : Fin n → Bool), GlobD A E done → (∀ a ∈ us, done a = false) → us.Nodup →
      ((∀ a ∈ us, (dRow (lenMat .none A) a).isSome = true) →
          ∃ E', forRows refDinvD (n + 1) us E = some E' ∧ GlobD A E' (fun a => done a || us.contains a)) ∧
      ((∃ a ∈ us, dRow (lenMat .none A) a = none) → forRows refDinvD (n + 1) us E = none) := by
  intro us
  induction us with
  | nil =>
    intro E done h _ _
    refine ⟨fun _ => ⟨E, rfl, ?_⟩, fun ⟨a, ha, _⟩ => absurd ha List.not_mem_nil⟩
    simpa using h
  | cons u us ih =>
    intro E done h hnd hnodup
    have hu : done u = false := hnd u (by simp)
    have hr := rowD_spec A E done u h hu
    have hnodup' := (List.nodup_cons.mp hnodup)
    constructor
    · intro hall
      have hsu := hall u (by simp)
      cases hd : dRow (lenMat .none A) u with
      | none => rw [hd] at hsu; simp at hsu
      | some st' =>
        rw [hd] at hr
        obtain ⟨E1, e1, g1⟩ := hr
        have hnd' : ∀ a ∈ us, (fun a => done a || a == u) a = false := by
          intro a ha
          have hau : a ≠ u := fun e => hnodup'.1 (e ▸ ha)
          simp [hnd a (by simp [ha]), hau]
        obtain ⟨E2, e2, g2⟩ := (ih E1 _ g1 hnd' hnodup'.2).1 (fun a ha => hall a (by simp [ha]))
        refine ⟨E2, by rw [forRows_cons, e1]; exact e2, ?_⟩
        have : (fun a => (done a || a == u) || us.contains a) = fun a => done a || (u :: us).contains a := by
          funext a
          by_cases hau : a = u
          · subst hau; simp
          · have : (a == u) = false := by simpa using hau
            simp [this, List.contains_cons, hau]
        rw [← this]; exact g2
    · rintro ⟨a, ha, hnone⟩
      rw [forRows_cons]
      cases hd : dRow (lenMat .none A) u with
      | none => rw [hd] at hr; simp only [hr]
      | some st' =>
        rw [hd] at hr
        obtain ⟨E1, e1, g1⟩ := hr
        simp only [e1]
        have hau : a ≠ u := by intro e; subst e; rw [hd] at hnone; cases hnone
        have ha' : a ∈ us := by
          rcases List.mem_cons.mp ha with e | e
          · exact absurd e hau
          · exact e
        have hnd' : ∀ b ∈ us, (fun b => done b || b == u) b = false := by
          intro b hb
          have hbu : b ≠ u := fun e => hnodup'.1 (e ▸ hb)
          simp [hnd b (by simp [hb]), hbu]
        exact (ih E1 _ g1 hnd' hnodup'.2).2 ⟨a, ha', hnone⟩

theorem preD_spec (A : AMat ℚ n) :
    ∃ E1, pexecs refDinvD.pre
        ({ mat := fun y => if y = "G" then some (embG A) else none, node := fun _ => none, idx := fun _ => none, arr := fun _ => none,
           stack := fun _ => none, vec := fun _ => none, sc := fun _ => none, dims := fun _ => false } : Env n) = some E1 ∧
      GlobD A E1 (fun _ => false) := by
  refine ⟨?E1, ?h1, ?h2⟩
  case h1 =>
    simp [refDinvD, pexecs, pexec]
    rfl
  case h2 =>
    refine ⟨by simp, by simp, ⟨_, by simp; rfl, fun a => ⟨fun hc => by simp at hc, fun _ w => ?_⟩⟩⟩
    simp only [AMat.get_ofFn, dInit, Fin.getElem_fin, Vector.getElem_ofFn]
    by_cases haw : a = w
    · subst haw; simp
    · have : ¬ w = a := fun e => haw e.symm
      simp [haw, this]

/-- **The Dijkstra part of `distance_inv_wei`** on the float matrix of lengths (`0` = no connection), with the model's fuel `n + 1` per
`while` loop, returns the distance matrix of `Dist.dijkstra (lenMat .none A)` and runs out of fuel exactly when the model does. -/
theorem link_dinv_dijk (A : AMat ℚ n) :
    runDijk refDinvD (n + 1) (embG A) = (dijkstra (lenMat .none A)).map fun r => [r.1.map V.ext] := by
  obtain ⟨E1, e1, g1⟩ := preD_spec A
  have hdims : E1.dims refDinvD.rowBound = true := g1.2.1
  have hrows := rowsD_spec A (List.finRange n) E1 (fun _ => false) g1 (fun _ _ => rfl) (List.nodup_finRange n)
  have e1' : pexecs refDinvD.pre
      ({ mat := fun y => if y = refDinvD.param then some (embG A) else none, node := fun _ => none, idx := fun _ => none,
         arr := fun _ => none, stack := fun _ => none, vec := fun _ => none, sc := fun _ => none, dims := fun _ => false } : Env n) = some E1 := e1
  simp only [runDijk, e1', hdims, if_true]
  by_cases hall : ∀ i : Fin n, (dRow (lenMat .none A) i).isSome = true
  · obtain ⟨E2, e2, g2⟩ := hrows.1 (fun a _ => hall a)
    obtain ⟨_, _, ⟨Dm, mD, hD⟩⟩ := g2
    simp only [e2, show refDinvD.ret = ["D"] from rfl, List.mapM_cons, List.mapM_nil, mD, Option.pure_def, Option.bind_eq_bind,
      Option.bind_some, dijkstra, allRows, hall, implies_true, dite_true, Option.map_some]
    congr 1
    have hrowD : ∀ a w, Dm.get a w = V.ext ((dRow (lenMat .none A) a).get (hall a)).D[w] := by
      intro a w
      obtain ⟨st, e, hw⟩ := (hD a).1 (by simp [List.mem_finRange])
      rw [hw w]; congr 2; simp [e]
    have eD : Dm = AMat.map V.ext (Vector.ofFn fun u => (Vector.ofFn fun i => (dRow (lenMat .none A) i).get (hall i))[u].D) := by
      apply AMat.ext_get; intro a w
      rw [hrowD a w, AMat.map, AMat.get_ofFn]
      simp [AMat.get]
    rw [eD]
  · have hex : ∃ a ∈ List.finRange n, dRow (lenMat .none A) a = none := by
      by_contra hne
      apply hall
      intro i
      cases hd : dRow (lenMat .none A) i with
      | none => exact absurd ⟨i, List.mem_finRange i, hd⟩ hne
      | some _ => rfl
    simp only [hrows.2 hex, dijkstra, allRows, hall, dite_false, Option.map_none]

end Bct.Cores.Dinv
