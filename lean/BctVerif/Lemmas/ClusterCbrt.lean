import BctVerif.Lemmas.ClusterCore
/-!
# Soundness of the model's exact rational cube root
-/
namespace Bct.Cluster
open Finset Bct

variable {n : ℕ}

theorem cbrtGo_sound (m : ℕ) : ∀ (fuel r s : ℕ), cbrtGo m fuel r = some s → s * s * s = m
  | 0, _, _, h => by simp [cbrtGo] at h
  | fuel + 1, r, s, h => by
    unfold cbrtGo at h
    split_ifs at h with h1 h2
    · simp only [Option.some.injEq] at h; subst h; exact h1
    · exact cbrtGo_sound m fuel (r + 1) s h

theorem icbrt_sound {m s : ℕ} (h : icbrt m = some s) : s * s * s = m := cbrtGo_sound m _ _ _ h

theorem cbrtQ_sound {x r : ℚ} (h : cbrtQ x = some r) : r ^ 3 = x := by
  unfold cbrtQ at h
  cases ha : icbrt x.num.natAbs with
  | none => simp [ha] at h
  | some a =>
    cases hb : icbrt x.den with
    | none => simp [ha, hb] at h
    | some b =>
      simp only [ha, hb] at h
      have ha' : ((a : ℚ)) ^ 3 = (x.num.natAbs : ℚ) := by
        have := icbrt_sound ha; rw [← this]; push_cast; ring
      have hb' : ((b : ℚ)) ^ 3 = (x.den : ℚ) := by
        have := icbrt_sound hb; rw [← this]; push_cast; ring
      have hx : (x.num : ℚ) / (x.den : ℚ) = x := Rat.num_div_den x
      split_ifs at h with hb0 hneg
      · simp only [Option.some.injEq] at h; subst h
        have hn : (x.num.natAbs : ℚ) = -(x.num : ℚ) := by
          rw [Nat.cast_natAbs, abs_of_neg hneg]; push_cast; ring
        rw [Odd.neg_pow (by decide), div_pow, ha', hb', hn, neg_div, neg_neg, hx]
      · simp only [Option.some.injEq] at h; subst h
        have hn : (x.num.natAbs : ℚ) = (x.num : ℚ) := by
          rw [Nat.cast_natAbs, abs_of_nonneg (not_lt.mp hneg)]
        rw [div_pow, ha', hb', hn, hx]

theorem rootMat_sound {W R : AMat ℚ n} (h : rootMat W = some R) : IsCbrt R W := by
  unfold rootMat at h
  split_ifs at h with hall
  simp only [Option.some.injEq] at h
  subst h
  intro i j
  rw [List.all_eq_true] at hall
  have h1 := hall i (List.mem_finRange i)
  rw [List.all_eq_true] at h1
  have h2 := h1 j (List.mem_finRange j)
  rw [map_get]
  obtain ⟨r, hr⟩ := Option.isSome_iff_exists.mp h2
  rw [hr]; exact cbrtQ_sound hr

theorem cbrtQ_zero : cbrtQ 0 = some 0 := by
  simp [cbrtQ, icbrt, cbrtGo]
theorem cbrtQ_one : cbrtQ 1 = some 1 := by
  simp [cbrtQ, icbrt, cbrtGo]

/-- on a 0/1 matrix the executable cube root is the identity: the weighted entry points run on `R = W` -/
theorem rootMat_on01 {W : AMat ℚ n} (hB : Bin W) : rootMat W = some W := by
  have hc : ∀ i j, cbrtQ (W.get i j) = some (W.get i j) := by
    intro i j; rcases hB i j with h | h <;> rw [h]
    · exact cbrtQ_zero
    · exact cbrtQ_one
  unfold rootMat
  rw [if_pos]
  · congr 1
    exact AMat.ext_get fun i j => by rw [map_get, hc i j]; rfl
  · rw [List.all_eq_true]; intro i _
    rw [List.all_eq_true]; intro j _
    rw [hc i j]; rfl

end Bct.Cluster
