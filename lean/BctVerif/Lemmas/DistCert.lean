import BctVerif.Lemmas.DistBin

/-!
# Soundness of the executable certificate check `hopCert`

A matrix that passes `hopCert A D` is, off the diagonal, the hop-distance matrix of the graph `A`:
`IsDist (hopLen A) (zeroDiag' (lenFun D))`.  Lower bound by the hub lemma, witnesses by induction on the entry.
-/
namespace Bct.Dist
variable {n : ℕ}

/-- hop lengths of a rational adjacency matrix: 1 where the entry is non-zero, `⊤` elsewhere -/
def hopLen (A : AMat Rat n) : LMat n := fun i j => if A.get i j = 0 then ⊤ else 1

/-- `D` with its diagonal replaced by 0 -/
def zeroDiag' (D : LMat n) : LMat n := fun i j => if i = j then 0 else D i j

theorem dz_toLen (D : AMat Ext n) (i k : Fin n) : (dz D i k).toLen = zeroDiag' (lenFun D) i k := by
  simp only [dz, zeroDiag', lenFun]
  split_ifs <;> simp

theorem isNatExt_spec (x : Ext) (h : isNatExt x = true) : x.toLen = ⊤ ∨ ∃ m : ℕ, x.toLen = ((m : ℚ) : Len) := by
  cases x with
  | inf => left; rfl
  | fin q =>
    right
    simp only [isNatExt, Bool.and_eq_true, beq_iff_eq, decide_eq_true_eq] at h
    refine ⟨q.num.toNat, ?_⟩
    simp only [Ext.toLen_fin]
    congr 1
    have h1 : ((q.num.toNat : ℤ)) = q.num := Int.toNat_of_nonneg h.2
    have h2 : (q : ℚ) = (q.num : ℚ) := by
      conv_lhs => rw [← Rat.num_div_den q]
      rw [h.1]; simp
    calc (q : ℚ) = (q.num : ℚ) := h2
      _ = ((q.num.toNat : ℤ) : ℚ) := by rw [h1]
      _ = (q.num.toNat : ℚ) := by norm_cast

structure CertFacts (A : AMat Rat n) (D : AMat Ext n) : Prop where
  nat : ∀ i j, i ≠ j → lenFun D i j = ⊤ ∨ ∃ m : ℕ, lenFun D i j = ((m : ℚ) : Len)
  feas : ∀ i j k, i ≠ j → A.get k j ≠ 0 → lenFun D i j ≤ zeroDiag' (lenFun D) i k + 1
  pred : ∀ i j, i ≠ j → lenFun D i j < ⊤ → ∃ k, A.get k j ≠ 0 ∧ lenFun D i j = zeroDiag' (lenFun D) i k + 1

theorem certFacts_of_hopCert (A : AMat Rat n) (D : AMat Ext n) (h : hopCert A D = true) : CertFacts A D := by
  unfold hopCert at h
  rw [List.all_eq_true] at h
  have cell : ∀ i j : Fin n, i ≠ j →
      isNatExt (D.get i j) = true ∧
      ((List.finRange n).all fun k => A.get k j == 0 || !(Ext.lt (dz D i k + .fin 1) (D.get i j))) = true ∧
      (!(D.get i j).isFin || (List.finRange n).any fun k => A.get k j != 0 && D.get i j == dz D i k + .fin 1) = true := by
    intro i j hij
    have := h (i, j) (mem_cells i j)
    rw [Bool.or_eq_true] at this
    rcases this with h0 | h0
    · exact absurd (by simpa using h0) hij
    · rw [Bool.and_eq_true, Bool.and_eq_true] at h0
      exact ⟨h0.1.1, h0.1.2, h0.2⟩
  refine ⟨?_, ?_, ?_⟩
  · intro i j hij
    exact isNatExt_spec _ (cell i j hij).1
  · intro i j k hij hA
    have := (cell i j hij).2.1
    rw [List.all_eq_true] at this
    have hk := this k (List.mem_finRange k)
    simp only [Bool.or_eq_true, beq_iff_eq, hA, false_or, Bool.not_eq_true'] at hk
    have hnlt : ¬ (dz D i k + Ext.fin 1).toLen < (D.get i j).toLen := by
      intro hh; rw [← Ext.lt_iff] at hh; rw [hh] at hk; exact absurd hk (by decide)
    rw [Ext.toLen_add, dz_toLen] at hnlt
    simpa [lenFun] using not_lt.mp hnlt
  · intro i j hij hfin
    have := (cell i j hij).2.2
    have hf : (D.get i j).isFin = true := (Ext.isFin_iff _).mpr hfin
    simp only [hf, Bool.not_true, Bool.false_or, List.any_eq_true, Bool.and_eq_true, bne_iff_ne, beq_iff_eq] at this
    obtain ⟨k, _, hA, he⟩ := this
    refine ⟨k, hA, ?_⟩
    have := congrArg Ext.toLen he
    rw [Ext.toLen_add, dz_toLen] at this
    simpa [lenFun] using this

theorem isDist_of_certFacts (A : AMat Rat n) (D : AMat Ext n) (c : CertFacts A D) :
    IsDist (hopLen A) (zeroDiag' (lenFun D)) := by
  have nonneg : ∀ i k, 0 ≤ zeroDiag' (lenFun D) i k := by
    intro i k
    simp only [zeroDiag']
    split_ifs with hik
    · exact le_refl _
    · rcases c.nat i k hik with e | ⟨m, e⟩
      · rw [e]; exact le_top
      · rw [e]; exact_mod_cast Nat.zero_le m
  constructor
  · apply lower_of_feasible
    · intro i; simp [zeroDiag']
    · intro i k j
      by_cases hA : A.get k j = 0
      · simp [hopLen, hA]
      · simp only [hopLen, if_neg hA]
        by_cases hij : i = j
        · subst hij
          have : zeroDiag' (lenFun D) i i = 0 := by simp [zeroDiag']
          rw [this]
          exact add_nonneg (nonneg i k) zero_le_one
        · have : zeroDiag' (lenFun D) i j = lenFun D i j := by simp [zeroDiag', hij]
          rw [this]
          exact c.feas i j k hij hA
  · -- witnesses by induction on the natural value of the entry
    have key : ∀ (m : ℕ) (i j : Fin n), zeroDiag' (lenFun D) i j = ((m : ℚ) : Len) →
        ∃ p, walkEnd i p = j ∧ walkLen (hopLen A) i p = zeroDiag' (lenFun D) i j := by
      intro m
      induction m with
      | zero =>
        intro i j hm
        by_cases hij : i = j
        · subst hij; exact ⟨[], rfl, by simp [walkLen, zeroDiag']⟩
        · exfalso
          have e : zeroDiag' (lenFun D) i j = lenFun D i j := by simp [zeroDiag', hij]
          rw [e] at hm
          obtain ⟨k, _, hk⟩ := c.pred i j hij (by rw [hm]; exact WithTop.coe_lt_top _)
          rw [hm] at hk
          have h1 := nonneg i k
          have : (1 : Len) ≤ zeroDiag' (lenFun D) i k + 1 := by
            calc (1 : Len) = 0 + 1 := by simp
              _ ≤ zeroDiag' (lenFun D) i k + 1 := by gcongr
          rw [← hk] at this
          have h10 : (1 : Len) ≤ ((0 : ℚ) : Len) := by exact_mod_cast this
          have : (1 : ℚ) ≤ 0 := by exact_mod_cast h10
          norm_num at this
      | succ m ih =>
        intro i j hm
        by_cases hij : i = j
        · subst hij; exact ⟨[], rfl, by simp [walkLen, zeroDiag']⟩
        · have e : zeroDiag' (lenFun D) i j = lenFun D i j := by simp [zeroDiag', hij]
          rw [e] at hm ⊢
          obtain ⟨k, hA, hk⟩ := c.pred i j hij (by rw [hm]; exact WithTop.coe_lt_top _)
          have hkm : zeroDiag' (lenFun D) i k = ((m : ℚ) : Len) := by
            rw [hm] at hk
            have hne : zeroDiag' (lenFun D) i k ≠ ⊤ := by
              intro ht; rw [ht] at hk; simp at hk
            obtain ⟨q, hq⟩ := WithTop.ne_top_iff_exists.mp hne
            rw [← hq] at hk ⊢
            have : ((m + 1 : ℕ) : ℚ) = q + 1 := by exact_mod_cast hk
            have : q = (m : ℚ) := by push_cast at this; linarith
            rw [this]
          obtain ⟨p, hp, hl⟩ := ih i k hkm
          refine ⟨p ++ [j], ?_, ?_⟩
          · rw [walkEnd_append]; rfl
          · rw [walkLen_append, hp, hl, hk]
            simp [walkLen, hopLen, hA]
    intro i j hfin
    by_cases hij : i = j
    · subst hij; exact ⟨[], rfl, by simp [walkLen, zeroDiag']⟩
    · have e : zeroDiag' (lenFun D) i j = lenFun D i j := by simp [zeroDiag', hij]
      rw [e] at hfin
      rcases c.nat i j hij with e' | ⟨m, e'⟩
      · rw [e'] at hfin; exact absurd hfin (lt_irrefl _)
      · exact key m i j (by rw [e, e'])

/-- **soundness of the certificate check** -/
theorem hopCert_sound (A : AMat Rat n) (D : AMat Ext n) (h : hopCert A D = true) :
    IsDist (hopLen A) (zeroDiag' (lenFun D)) :=
  isDist_of_certFacts A D (certFacts_of_hopCert A D h)

theorem flagsOK_spec (R : AMat Bool n) (D : AMat Ext n) (h : flagsOK R D = true) (i j : Fin n) (hij : i ≠ j) :
    R.get i j = true ↔ lenFun D i j < ⊤ := by
  unfold flagsOK at h
  rw [List.all_eq_true] at h
  have hm : (i, j) ∈ offDiag n := by simp [offDiag, mem_cells, hij]
  have := h (i, j) hm
  simp only [beq_iff_eq] at this
  rw [this]; exact Ext.isFin_iff _

end Bct.Dist
