import BctVerif.Lemmas.Cluster
/-!
# The model's routines as `Finset` sums (pure unfolding, no hypotheses)
-/
namespace Bct.Cluster
open Finset Bct

variable {n : ℕ}

/-- `Σ_{j,k} (r+rᵀ)_ij (r+rᵀ)_jk (r+rᵀ)_ki` -/
def triS (R : AMat ℚ n) (i : Fin n) : ℚ :=
  ∑ j, ∑ k, (R.get i j + R.get j i) * (R.get j k + R.get k j) * (R.get k i + R.get i k)
/-- total degree `Σ_j (a_ij + a_ji)` -/
def degS (A : AMat ℚ n) (i : Fin n) : ℚ := ∑ j, (A.get i j + A.get j i)
/-- Fagiolo's denominator `K(K-1) - 2 Σ_j a_ij a_ji` -/
def pairsS (A : AMat ℚ n) (i : Fin n) : ℚ := degS A i * (degS A i - 1) - 2 * ∑ j, A.get i j * A.get j i
/-- `Σ_{j,k} r_ij r_jk r_ki` -/
def tri (R : AMat ℚ n) (i : Fin n) : ℚ := ∑ j, ∑ k, R.get i j * R.get j k * R.get k i
/-- number of neighbours `Σ_j [w_ij ≠ 0]` -/
def deg (W : AMat ℚ n) (i : Fin n) : ℚ := ∑ j, ind (W.get i j)

theorem ccFagiolo_get (A R : AMat ℚ n) (i : Fin n) :
    (ccFagiolo A R)[i] = perNode (triS R i / 2) (pairsS A i) := by
  simp only [ccFagiolo, get_ofFn_vec, Finset.mul_sum, mul_assoc, madd_get, transpose_get, rowSum_eq, mmul_get,
    triS, pairsS, degS]

theorem ccWu_get (W R : AMat ℚ n) (i : Fin n) :
    (ccWu W R)[i] = perNode (tri R i) (deg W i * (deg W i - 1)) := by
  simp only [ccWu, get_ofFn_vec, mmul_get, Finset.mul_sum, mul_assoc, rowSum_eq, adj_get, tri, deg]

theorem transFagiolo_eq (A R : AMat ℚ n) :
    transFagiolo A R = gdiv (∑ i, triS R i / 2) (∑ i, pairsS A i) := by
  simp only [transFagiolo, vsum_eq, Finset.mul_sum, mul_assoc, madd_get, transpose_get, rowSum_eq, mmul_get,
    triS, pairsS, degS]

theorem transWu_eq (W R : AMat ℚ n) :
    transWu W R = gdiv (∑ i, tri R i) (∑ i, deg W i * (deg W i - 1)) := by
  simp only [transWu, vsum_eq, mmul_get, Finset.mul_sum, mul_assoc, rowSum_eq, adj_get, tri, deg]

theorem transBu_eq (A : AMat ℚ n) :
    transBu A = gdiv (∑ i, tri A i)
      ((∑ i, ∑ j, ∑ k, A.get i k * A.get k j) - ∑ i, ∑ k, A.get i k * A.get k i) := by
  simp only [transBu, trace_eq, total_eq, Finset.mul_sum, mul_assoc, mmul_get, tri]

/-! ### the list code of `clustering_coef_bu` -/

theorem sum_map_filter {α} (l : List α) (p : α → Bool) (f : α → ℚ) :
    ((l.filter p).map f).sum = (l.map fun x => if p x then f x else 0).sum := by
  induction l with
  | nil => simp
  | cons x xs ih => by_cases h : p x <;> simp [h, ih]

theorem length_filter_cast {α} (l : List α) (p : α → Bool) :
    ((l.filter p).length : ℚ) = (l.map fun x => if p x then (1:ℚ) else 0).sum := by
  induction l with
  | nil => simp
  | cons x xs ih => by_cases h : p x <;> simp [h, ih]; ring

theorem ind_ite (x y : ℚ) : (if decide (x ≠ 0) = true then y else 0) = ind x * y := by
  unfold ind; by_cases h : x = 0 <;> simp [h]

theorem ccBu_get (G : AMat ℚ n) (u : Fin n) :
    (ccBu G)[u] = some (if (2:ℚ) ≤ deg G u then
        (∑ a, ∑ b, ind (G.get u a) * (ind (G.get u b) * G.get a b)) / (deg G u * deg G u - deg G u)
      else 0) := by
  simp only [ccBu, get_ofFn_vec]
  have hk : (((List.finRange n).filter fun j => decide (G.get u j ≠ 0)).length : ℚ) = deg G u := by
    rw [length_filter_cast, ← Fin.sum_univ_def, deg]
    exact Finset.sum_congr rfl (fun j _ => by simpa using ind_ite (G.get u j) 1)
  have hs : ((((List.finRange n).filter fun j => decide (G.get u j ≠ 0)).map fun a =>
      ((((List.finRange n).filter fun j => decide (G.get u j ≠ 0)).map fun b => G.get a b).sum)).sum)
      = ∑ a, ∑ b, ind (G.get u a) * (ind (G.get u b) * G.get a b) := by
    rw [sum_map_filter, ← Fin.sum_univ_def]
    refine Finset.sum_congr rfl (fun a _ => ?_)
    rw [sum_map_filter, ← Fin.sum_univ_def, ind_ite, Finset.mul_sum]
    exact Finset.sum_congr rfl (fun b _ => by rw [ind_ite])
  rw [hs, hk]
  have hc : (2 ≤ ((List.finRange n).filter fun j => decide (G.get u j ≠ 0)).length) ↔ (2:ℚ) ≤ deg G u := by
    rw [← hk]; exact_mod_cast Iff.rfl
  by_cases h : (2:ℚ) ≤ deg G u
  · rw [if_pos (hc.mpr h), if_pos h]
  · have : ¬ (2 ≤ ((List.finRange n).filter fun j => decide (G.get u j ≠ 0)).length) := fun h' => h (hc.mp h')
    rw [if_neg this, if_neg h]

end Bct.Cluster
