import BctVerif.Lemmas.Cluster
/-!
# The routines as `Finset` sums

* generic (`K` any linearly ordered field): the triangle sums and pair counts, the two division devices, and the
  *specification form* of each routine (`ccFagK`, `ccWuK`, `zhangK`, `costK`, `transFagK`, `transWuK`);
* `ℚ`: each routine of the executable model equals its specification form (pure unfolding, no hypotheses).
-/
namespace Bct.Cluster
open Finset Bct

variable {n : ℕ}

section Generic
variable {K : Type} [Field K] [LinearOrder K] [IsStrictOrderedRing K]

/-- `Σ_{j,k} (r+rᵀ)_ij (r+rᵀ)_jk (r+rᵀ)_ki` -/
def triS (R : AMat K n) (i : Fin n) : K :=
  ∑ j, ∑ k, (R.get i j + R.get j i) * (R.get j k + R.get k j) * (R.get k i + R.get i k)
/-- total degree `Σ_j (a_ij + a_ji)` -/
def degS (A : AMat K n) (i : Fin n) : K := ∑ j, (A.get i j + A.get j i)
/-- Fagiolo's denominator `K(K-1) - 2 Σ_j a_ij a_ji` -/
def pairsS (A : AMat K n) (i : Fin n) : K := degS A i * (degS A i - 1) - 2 * ∑ j, A.get i j * A.get j i
/-- `Σ_{j,k} r_ij r_jk r_ki` -/
def tri (R : AMat K n) (i : Fin n) : K := ∑ j, ∑ k, R.get i j * R.get j k * R.get k i
/-- number of neighbours `Σ_j [w_ij ≠ 0]` -/
def deg (W : AMat K n) (i : Fin n) : K := ∑ j, indK (W.get i j)

/-- per-node ratio after `K[np.where(cyc3 == 0)] = np.inf` (`none` = non-finite float) -/
def perNodeK (cyc3 CYC3 : K) : Option K :=
  if cyc3 = 0 then some 0 else if CYC3 = 0 then none else some (cyc3 / CYC3)
/-- unmasked network-level ratio -/
def gdivK (a b : K) : Option K := if b = 0 then none else some (a / b)

/-- `clustering_coef_bd` (`R = A`) / `clustering_coef_wd` (`A = adjK W`, `R = cuberoot W`) at node `i` -/
def ccFagK (A R : AMat K n) (i : Fin n) : Option K := perNodeK (triS R i / 2) (pairsS A i)
/-- `clustering_coef_wu` at node `i`, `R = cuberoot W` -/
def ccWuK (W R : AMat K n) (i : Fin n) : Option K := perNodeK (tri R i) (deg W i * (deg W i - 1))
/-- Zhang–Horvath triple loop on one sign part -/
def zhangK (P : AMat K n) (i : Fin n) : Option K :=
  perNodeK (∑ j, ∑ q, P.get j i * P.get i q * P.get j q) (∑ j, ∑ q, if j = q then 0 else P.get j i * P.get i q)
/-- Costantini–Perugini triple loop (on the matrix with zeroed diagonal) -/
def costK (Z : AMat K n) (i : Fin n) : Option K :=
  perNodeK (∑ j, ∑ q, Z.get j i * Z.get i q * Z.get j q) (∑ j, ∑ q, if j = q then 0 else |Z.get j i * Z.get i q|)
/-- `transitivity_bd` / `transitivity_wd` -/
def transFagK (A R : AMat K n) : Option K := gdivK (∑ i, triS R i / 2) (∑ i, pairsS A i)
/-- `transitivity_wu` -/
def transWuK (W R : AMat K n) : Option K := gdivK (∑ i, tri R i) (∑ i, deg W i * (deg W i - 1))

end Generic

/-! ### the `ℚ` model -/

theorem perNode_eq (c d : ℚ) : perNode c d = perNodeK c d := by
  unfold perNode perNodeK; split_ifs <;> rfl
theorem gdiv_eq (a b : ℚ) : gdiv a b = gdivK a b := by
  unfold gdiv gdivK; split_ifs <;> rfl

theorem ccFagiolo_get (A R : AMat ℚ n) (i : Fin n) : (ccFagiolo A R)[i] = ccFagK A R i := by
  simp only [ccFagiolo, get_ofFn_vec, Finset.mul_sum, mul_assoc, madd_get, transpose_get, rowSum_eq, mmul_get,
    triS, pairsS, degS, ccFagK, perNode_eq]

theorem ccWd_get (W R : AMat ℚ n) (i : Fin n) : (ccWd W R)[i] = ccFagK (adjK W) R i := by
  rw [ccWd, ccFagiolo_get, adj_eq]

theorem ccBd_get (A : AMat ℚ n) (i : Fin n) : (ccBd A)[i] = ccFagK A A i := ccFagiolo_get A A i

theorem ccWu_get (W R : AMat ℚ n) (i : Fin n) : (ccWu W R)[i] = ccWuK W R i := by
  simp only [ccWu, get_ofFn_vec, mmul_get, Finset.mul_sum, mul_assoc, rowSum_eq, adj_get, tri, deg, ccWuK, perNode_eq]

theorem transFagiolo_eq (A R : AMat ℚ n) : transFagiolo A R = transFagK A R := by
  simp only [transFagiolo, vsum_eq, Finset.mul_sum, mul_assoc, madd_get, transpose_get, rowSum_eq, mmul_get,
    triS, pairsS, degS, transFagK, gdiv_eq]

theorem transWd_eq (W R : AMat ℚ n) : transWd W R = transFagK (adjK W) R := by
  rw [transWd, transFagiolo_eq, adj_eq]

theorem transWu_eq (W R : AMat ℚ n) : transWu W R = transWuK W R := by
  simp only [transWu, vsum_eq, mmul_get, Finset.mul_sum, mul_assoc, rowSum_eq, adj_get, tri, deg, transWuK, gdiv_eq]

theorem transBu_eq (A : AMat ℚ n) :
    transBu A = gdivK (∑ i, tri A i)
      ((∑ i, ∑ j, ∑ k, A.get i k * A.get k j) - ∑ i, ∑ k, A.get i k * A.get k i) := by
  simp only [transBu, trace_eq, total_eq, Finset.mul_sum, mul_assoc, mmul_get, tri, gdiv_eq]

theorem zhangCore_get (P : AMat ℚ n) (i : Fin n) : (zhangCore P)[i] = zhangK P i := by
  simp only [zhangCore, get_ofFn_vec, vsum_eq, zhangK, perNode_eq]

theorem qabs_eq (x : ℚ) : qabs x = |x| := by
  unfold qabs; split_ifs with h
  · exact (abs_of_nonneg h).symm
  · exact (abs_of_neg (not_le.mp h)).symm

theorem ccSignCost_get (W : AMat ℚ n) (i : Fin n) : (ccSignCost W)[i] = costK (zeroDiagK W) i := by
  simp only [ccSignCost, get_ofFn_vec, vsum_eq, qabs_eq, costK, perNode_eq, zeroDiag_eq]

/-! ### the list code of `clustering_coef_bu` -/

theorem sum_map_filter {α} (l : List α) (p : α → Bool) (f : α → ℚ) :
    ((l.filter p).map f).sum = (l.map fun x => if p x then f x else 0).sum := by
  induction l with
  | nil => simp
  | cons x xs ih => by_cases h : p x <;> simp [h, ih]

theorem length_filter_cast {α} (l : List α) (p : α → Bool) :
    ((l.filter p).length : ℚ) = (l.map fun x => if p x then (1:ℚ) else 0).sum := by
  induction l with
  | nil => simp
  | cons x xs ih => by_cases h : p x <;> simp [h, ih]; ring

theorem ind_ite (x y : ℚ) : (if decide (x ≠ 0) = true then y else 0) = indK x * y := by
  unfold indK; by_cases h : x = 0 <;> simp [h]

theorem ccBu_get (G : AMat ℚ n) (u : Fin n) :
    (ccBu G)[u] = some (if (2:ℚ) ≤ deg G u then
        (∑ a, ∑ b, indK (G.get u a) * (indK (G.get u b) * G.get a b)) / (deg G u * deg G u - deg G u)
      else 0) := by
  simp only [ccBu, get_ofFn_vec]
  have hk : (((List.finRange n).filter fun j => decide (G.get u j ≠ 0)).length : ℚ) = deg G u := by
    rw [length_filter_cast, ← Fin.sum_univ_def, deg]
    exact Finset.sum_congr rfl (fun j _ => by simpa using ind_ite (G.get u j) 1)
  have hs : ((((List.finRange n).filter fun j => decide (G.get u j ≠ 0)).map fun a =>
      ((((List.finRange n).filter fun j => decide (G.get u j ≠ 0)).map fun b => G.get a b).sum)).sum)
      = ∑ a, ∑ b, indK (G.get u a) * (indK (G.get u b) * G.get a b) := by
    rw [sum_map_filter, ← Fin.sum_univ_def]
    refine Finset.sum_congr rfl (fun a _ => ?_)
    rw [sum_map_filter, ← Fin.sum_univ_def, ind_ite, Finset.mul_sum]
    exact Finset.sum_congr rfl (fun b _ => by rw [ind_ite])
  rw [hs, hk]
  have hc : (2 ≤ ((List.finRange n).filter fun j => decide (G.get u j ≠ 0)).length) ↔ (2:ℚ) ≤ deg G u := by
    rw [← hk]; exact_mod_cast Iff.rfl
  by_cases h : (2:ℚ) ≤ deg G u
  · rw [if_pos (hc.mpr h), if_pos h]
  · have : ¬ (2 ≤ ((List.finRange n).filter fun j => decide (G.get u j ≠ 0)).length) := fun h' => h (hc.mp h')
    rw [if_neg this, if_neg h]

end Bct.Cluster
