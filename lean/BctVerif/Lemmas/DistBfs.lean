import BctVerif.Lemmas.DistCert

/-!
# Breadth-first search (`breadth`): abstract invariant

`BA` is the abstract view of the model state for a fixed source `s`: colours and `δ w` = recorded distance of `w`
(`δ s = 0` whatever the code later writes into `distance[source]`).  `BInv` is the classical BFS invariant (queue =
gray nodes, sorted by `δ` with spread ≤ 1, black nodes have all out-neighbours discovered within `δ + 1`, witnesses).
At the end (empty queue) it yields edge feasibility, and the hub lemma gives the distances.
-/
namespace Bct.Dist
variable {n : ℕ}

structure BA (n : ℕ) where
  col : Fin n → ℕ
  δ : Fin n → Len

structure BInv (A : AMat Rat n) (s : Fin n) (b : BA n) (Q : List (Fin n)) : Prop where
  a_pos : ∀ w, w ≠ s → 1 ≤ b.δ w
  s0 : b.δ s = 0
  s_col : b.col s ≠ 0
  s_gray : b.col s = 1 → Q.head? = some s
  white : ∀ w, b.col w = 0 → b.δ w = ⊤
  nonwhite : ∀ w, b.col w ≠ 0 → b.δ w < ⊤
  wit : ∀ w, b.δ w < ⊤ → ∃ p, walkEnd s p = w ∧ walkLen (hopLen A) s p = b.δ w
  q_gray : ∀ u ∈ Q, b.col u = 1
  gray_q : ∀ w, b.col w = 1 → w ∈ Q
  nodup : Q.Nodup
  sorted : Q.Pairwise (fun x y => b.δ x ≤ b.δ y)
  q_bound : ∀ u, Q.head? = some u → ∀ x ∈ Q, b.δ x ≤ b.δ u + 1
  black_feas : ∀ x, b.col x = 2 → ∀ w, A.get x w ≠ 0 → b.col w ≠ 0 ∧ b.δ w ≤ b.δ x + 1
  black_le : ∀ x, b.col x = 2 → ∀ u ∈ Q, b.δ x ≤ b.δ u
  nw_bound : ∀ u, Q.head? = some u → ∀ w, b.col w ≠ 0 → b.δ w ≤ b.δ u + 1
  col_range : ∀ w, b.col w ≤ 2

/-- discovering a white out-neighbour `v` of the queue head `u` -/
def discover (b : BA n) (u v : Fin n) : BA n where
  col := fun w => if w = v then 1 else b.col w
  δ := fun w => if w = v then b.δ u + 1 else b.δ w

theorem head_nonneg (A : AMat Rat n) (s : Fin n) (b : BA n) (Q : List (Fin n)) (h : BInv A s b Q) (u : Fin n) :
    0 ≤ b.δ u := by
  by_cases hus : u = s
  · rw [hus, h.s0]
  · exact le_trans zero_le_one (h.a_pos u hus)

theorem binv_discover (A : AMat Rat n) (s : Fin n) (b : BA n) (u v : Fin n) (rest : List (Fin n))
    (h : BInv A s b (u :: rest)) (hv : b.col v = 0) (huv : A.get u v ≠ 0) :
    BInv A s (discover b u v) (u :: (rest ++ [v])) := by
  have hvs : v ≠ s := by intro e; rw [e] at hv; exact h.s_col hv
  have hvQ : v ∉ u :: rest := by intro hm; have := h.q_gray v hm; omega
  have hvu : v ≠ u := by intro e; exact hvQ (by rw [e]; exact List.mem_cons_self)
  have hδold : ∀ x, x ≠ v → (discover b u v).δ x = b.δ x := by intro x hx; simp [discover, hx]
  have hcold : ∀ x, x ≠ v → (discover b u v).col x = b.col x := by intro x hx; simp [discover, hx]
  have hδv : (discover b u v).δ v = b.δ u + 1 := by simp [discover]
  have hcv : (discover b u v).col v = 1 := by simp [discover]
  have hu_nonneg : 0 ≤ b.δ u := head_nonneg A s b _ h u
  have hucol : b.col u = 1 := h.q_gray u List.mem_cons_self
  have hufin : b.δ u < ⊤ := h.nonwhite u (by omega)
  have inQ : ∀ x, x ∈ u :: (rest ++ [v]) ↔ (x ∈ u :: rest ∨ x = v) := by
    intro x; simp [List.mem_append, or_assoc]
  have qb := h.q_bound u rfl
  have nwb := h.nw_bound u rfl
  have δu' : (discover b u v).δ u = b.δ u := hδold u (Ne.symm hvu)
  constructor
  · intro w hw
    by_cases hwv : w = v
    · rw [hwv, hδv]
      calc (1 : Len) = 0 + 1 := by simp
        _ ≤ b.δ u + 1 := by gcongr
    · rw [hδold w hwv]; exact h.a_pos w hw
  · rw [hδold s (Ne.symm hvs)]; exact h.s0
  · rw [hcold s (Ne.symm hvs)]; exact h.s_col
  · intro hs
    rw [hcold s (Ne.symm hvs)] at hs
    have := h.s_gray hs
    simpa using this
  · intro w hw
    by_cases hwv : w = v
    · rw [hwv, hcv] at hw; omega
    · rw [hcold w hwv] at hw; rw [hδold w hwv]; exact h.white w hw
  · intro w hw
    by_cases hwv : w = v
    · rw [hwv, hδv]
      exact WithTop.add_lt_top.mpr ⟨hufin, by exact WithTop.coe_lt_top 1⟩
    · rw [hcold w hwv] at hw; rw [hδold w hwv]; exact h.nonwhite w hw
  · intro w hw
    by_cases hwv : w = v
    · obtain ⟨p, hp, hl⟩ := h.wit u hufin
      refine ⟨p ++ [v], ?_, ?_⟩
      · rw [walkEnd_append, hwv]; rfl
      · rw [walkLen_append, hp, hl, hwv, hδv]
        simp [walkLen, hopLen, huv]
    · rw [hδold w hwv] at hw ⊢; exact h.wit w hw
  · intro x hx
    rcases (inQ x).mp hx with hx | hx
    · have : x ≠ v := fun e => hvQ (e ▸ hx)
      rw [hcold x this]; exact h.q_gray x hx
    · rw [hx, hcv]
  · intro w hw
    by_cases hwv : w = v
    · rw [hwv]; exact (inQ v).mpr (Or.inr rfl)
    · rw [hcold w hwv] at hw; exact (inQ w).mpr (Or.inl (h.gray_q w hw))
  · have : (u :: (rest ++ [v])) = (u :: rest) ++ [v] := by simp
    rw [this]
    exact List.Nodup.append h.nodup (List.nodup_singleton v) (by
      intro x hx hx'
      have : x = v := by simpa using hx'
      exact hvQ (this ▸ hx))
  · have : (u :: (rest ++ [v])) = (u :: rest) ++ [v] := by simp
    rw [this, List.pairwise_append]
    refine ⟨?_, List.pairwise_singleton _ _, ?_⟩
    · apply h.sorted.imp_of_mem
      intro x y hx hy hxy
      have hxv : x ≠ v := fun e => hvQ (e ▸ hx)
      have hyv : y ≠ v := fun e => hvQ (e ▸ hy)
      rw [hδold x hxv, hδold y hyv]; exact hxy
    · intro x hx y hy
      have hyv : y = v := by simpa using hy
      have hxv : x ≠ v := fun e => hvQ (e ▸ hx)
      rw [hyv, hδv, hδold x hxv]
      exact qb x hx
  · intro u' hu' x hx
    have : u' = u := by simpa using hu'.symm
    rw [this, δu']
    rcases (inQ x).mp hx with hx | hx
    · have hxv : x ≠ v := fun e => hvQ (e ▸ hx)
      rw [hδold x hxv]; exact qb x hx
    · rw [hx, hδv]
  · intro x hx w hxw
    have hxv : x ≠ v := by intro e; rw [e, hcv] at hx; omega
    rw [hcold x hxv] at hx
    obtain ⟨h1, h2⟩ := h.black_feas x hx w hxw
    have hwv : w ≠ v := by intro e; rw [e] at h1; exact h1 hv
    rw [hcold w hwv, hδold w hwv, hδold x hxv]
    exact ⟨h1, h2⟩
  · intro x hx y hy
    have hxv : x ≠ v := by intro e; rw [e, hcv] at hx; omega
    rw [hcold x hxv] at hx
    rw [hδold x hxv]
    rcases (inQ y).mp hy with hy | hy
    · have hyv : y ≠ v := fun e => hvQ (e ▸ hy)
      rw [hδold y hyv]; exact h.black_le x hx y hy
    · rw [hy, hδv]
      calc b.δ x ≤ b.δ u := h.black_le x hx u List.mem_cons_self
        _ = b.δ u + 0 := by simp
        _ ≤ b.δ u + 1 := by gcongr; exact zero_le_one
  · intro u' hu' w hw
    have : u' = u := by simpa using hu'.symm
    rw [this, δu']
    by_cases hwv : w = v
    · rw [hwv, hδv]
    · rw [hcold w hwv] at hw; rw [hδold w hwv]; exact nwb w hw
  · intro w
    by_cases hwv : w = v
    · rw [hwv, hcv]; omega
    · rw [hcold w hwv]; exact h.col_range w

/-- after all out-neighbours of the head `u` have been looked at, `u` turns black and leaves the queue -/
def blacken (b : BA n) (u : Fin n) : BA n where
  col := fun w => if w = u then 2 else b.col w
  δ := b.δ

theorem binv_blacken (A : AMat Rat n) (s : Fin n) (b : BA n) (u : Fin n) (rest : List (Fin n))
    (h : BInv A s b (u :: rest))
    (hdone : ∀ v, A.get u v ≠ 0 → b.col v ≠ 0 ∧ b.δ v ≤ b.δ u + 1) :
    BInv A s (blacken b u) rest := by
  have hcold : ∀ x, x ≠ u → (blacken b u).col x = b.col x := by intro x hx; simp [blacken, hx]
  have hcu : (blacken b u).col u = 2 := by simp [blacken]
  have hδ : ∀ x, (blacken b u).δ x = b.δ x := fun _ => rfl
  have hnd := h.nodup
  rw [List.nodup_cons] at hnd
  have hsorted := h.sorted
  rw [List.pairwise_cons] at hsorted
  have qb := h.q_bound u rfl
  have nwb := h.nw_bound u rfl
  have hcne : ∀ w, b.col w ≠ 0 → (blacken b u).col w ≠ 0 := by
    intro w hw
    by_cases hwu : w = u
    · rw [hwu, hcu]; omega
    · rw [hcold w hwu]; exact hw
  have hcne' : ∀ w, (blacken b u).col w ≠ 0 → b.col w ≠ 0 := by
    intro w hw
    by_cases hwu : w = u
    · rw [hwu]; have := h.q_gray u List.mem_cons_self; omega
    · rw [hcold w hwu] at hw; exact hw
  constructor
  · exact h.a_pos
  · exact h.s0
  · exact hcne s h.s_col
  · intro hs
    by_cases hsu : s = u
    · rw [hsu, hcu] at hs; omega
    · rw [hcold s hsu] at hs
      have := h.s_gray hs
      simp only [List.head?_cons, Option.some.injEq] at this
      exact absurd this.symm hsu
  · intro w hw
    by_cases hwu : w = u
    · rw [hwu, hcu] at hw; omega
    · rw [hcold w hwu] at hw; exact h.white w hw
  · intro w hw; exact h.nonwhite w (hcne' w hw)
  · exact h.wit
  · intro x hx
    have hxu : x ≠ u := fun e => hnd.1 (e ▸ hx)
    rw [hcold x hxu]; exact h.q_gray x (List.mem_cons_of_mem _ hx)
  · intro w hw
    by_cases hwu : w = u
    · rw [hwu, hcu] at hw; omega
    · rw [hcold w hwu] at hw
      rcases List.mem_cons.mp (h.gray_q w hw) with e | e
      · exact absurd e hwu
      · exact e
  · exact hnd.2
  · exact hsorted.2
  · intro u2 hu2 x hx
    have hu2mem : u2 ∈ rest := List.mem_of_mem_head? hu2
    calc b.δ x ≤ b.δ u + 1 := qb x (List.mem_cons_of_mem _ hx)
      _ ≤ b.δ u2 + 1 := by gcongr; exact hsorted.1 u2 hu2mem
  · intro x hx w hxw
    by_cases hxu : x = u
    · rw [hxu] at hxw
      obtain ⟨h1, h2⟩ := hdone w hxw
      rw [hxu]; exact ⟨hcne w h1, h2⟩
    · rw [hcold x hxu] at hx
      obtain ⟨h1, h2⟩ := h.black_feas x hx w hxw
      exact ⟨hcne w h1, h2⟩
  · intro x hx y hy
    by_cases hxu : x = u
    · rw [hxu]; exact hsorted.1 y hy
    · rw [hcold x hxu] at hx
      exact h.black_le x hx y (List.mem_cons_of_mem _ hy)
  · intro u2 hu2 w hw
    have hu2mem : u2 ∈ rest := List.mem_of_mem_head? hu2
    calc b.δ w ≤ b.δ u + 1 := nwb w (hcne' w hw)
      _ ≤ b.δ u2 + 1 := by gcongr; exact hsorted.1 u2 hu2mem
  · intro w
    by_cases hwu : w = u
    · rw [hwu, hcu]
    · rw [hcold w hwu]; exact h.col_range w

/-- with an empty queue the recorded distances are feasible for every connection -/
theorem binv_final (A : AMat Rat n) (s : Fin n) (b : BA n) (h : BInv A s b []) :
    (∀ x w, b.δ w ≤ b.δ x + hopLen A x w) ∧ b.δ s = 0 ∧
      ∀ w, b.δ w < ⊤ → ∃ p, walkEnd s p = w ∧ walkLen (hopLen A) s p = b.δ w := by
  refine ⟨?_, h.s0, h.wit⟩
  intro x w
  by_cases hA : A.get x w = 0
  · simp [hopLen, hA]
  · simp only [hopLen, if_neg hA]
    by_cases h0 : b.col x = 0
    · rw [h.white x h0]; simp
    · by_cases h1 : b.col x = 1
      · exact absurd (h.gray_q x h1) List.not_mem_nil
      · by_cases h2 : b.col x = 2
        · exact (h.black_feas x h2 w hA).2
        · have := h.col_range x
          omega

end Bct.Dist
