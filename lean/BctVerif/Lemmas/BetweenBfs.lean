import BctVerif.Lemmas.BetweenFwd5

/-!
# The BFS loop of `edge_betweenness_bin` simulates the weighted loop on binary matrices (C08)
-/
namespace Bct.Between
open Bct

variable {n : ℕ}

/-- the BFS state `b` and the Dijkstra state `w` agree on everything the back-propagation reads
and on which nodes have been discovered -/
def Sim (b w : SrcSt n) : Prop :=
  b.NP = w.NP ∧ b.P = w.P ∧ b.Q = w.Q ∧ b.q = w.q ∧ b.G1 = w.G1 ∧
    ∀ x : Fin n, b.D[x].isSome = w.D[x].isSome

/-- a relaxation target of level `m`: undiscovered (no predecessor yet) or discovered at `m + 1` -/
def Tgt (w : SrcSt n) (m : ℕ) (x : Fin n) : Prop :=
  (w.D[x] = none ∧ ∀ z, w.P.get x z = false) ∨ w.D[x] = some (m + 1)

theorem relax_sim {b w : SrcSt n} {v x : Fin n} {m : ℕ} (hs : Sim b w) (hDv : w.D[v] = some m)
    (hG : w.G1.get v x = 1) (hx : Tgt w m x) :
    Sim (relaxB v b x) (relaxW v w x) ∧ (relaxW v w x).D[x] = some (m + 1) := by
  obtain ⟨e1, e2, e3, e4, e5, e6⟩ := hs
  have hdef : relaxW v w x =
      if olt (some (m + 1)) w.D[x] then
        { w with D := w.D.set x (some (m + 1)), NP := w.NP.set x w.NP[v],
                 P := AMat.ofFn fun i j => if i = x then decide (j = v) else w.P.get i j }
      else if (some (m + 1) == w.D[x]) = true then
        { w with NP := w.NP.set x (w.NP[x] + w.NP[v]), P := w.P.set x v true }
      else w := by
    unfold relaxW
    simp only [hDv, hG]
  rcases hx with ⟨hnone, hrow⟩ | hsome
  · have h1 : olt (some (m + 1)) w.D[x] = true := by rw [hnone]; rfl
    have hb : b.D[x].isSome = false := by rw [e6, hnone]; rfl
    rw [hdef, if_pos h1]
    unfold relaxB
    rw [if_neg (by rw [hb]; simp)]
    refine ⟨⟨by simp only [e1], ?_, e3, e4, e5, ?_⟩, by simp only [vget_set, if_true]⟩
    · apply AMat.ext_get
      intro i j
      simp only [AMat.get_set, AMat.get_ofFn, e2]
      by_cases hi : i = x
      · subst hi
        by_cases hj : j = v
        · simp [hj]
        · simp [hj, hrow j]
      · simp [hi]
    · intro y
      simp only [vget_set]
      by_cases hy : y = x
      · simp [hy]
      · simp only [hy, if_false]; exact e6 y
  · have h1 : ¬ olt (some (m + 1)) w.D[x] = true := by rw [hsome]; simp [olt]
    have h2 : (some (m + 1) == w.D[x]) = true := by rw [hsome]; simp
    have hb : b.D[x].isSome = true := by rw [e6, hsome]; rfl
    rw [hdef, if_neg h1, if_pos h2]
    unfold relaxB
    rw [if_pos hb]
    exact ⟨⟨by simp only [e1], by simp only [e2], e3, e4, e5, e6⟩, hsome⟩

theorem relaxB_globals (v x : Fin n) (b : SrcSt n) :
    (relaxB v b x).Q = b.Q ∧ (relaxB v b x).q = b.q ∧ (relaxB v b x).G1 = b.G1 := by
  unfold relaxB
  split_ifs <;> exact ⟨rfl, rfl, rfl⟩

theorem foldl_relax_sim {v : Fin n} {m : ℕ} (ws : List (Fin n)) (b w : SrcSt n)
    (hnd : ws.Nodup) (hvws : v ∉ ws) (hs : Sim b w) (hDv : w.D[v] = some m)
    (hG : ∀ x ∈ ws, w.G1.get v x = 1) (hT : ∀ x ∈ ws, Tgt w m x) :
    Sim (ws.foldl (relaxB v) b) (ws.foldl (relaxW v) w) ∧
    (∀ x ∈ ws, (ws.foldl (relaxW v) w).D[x] = some (m + 1)) ∧
    (∀ x, x ∉ ws → (ws.foldl (relaxW v) w).D[x] = w.D[x] ∧
      ∀ z, (ws.foldl (relaxW v) w).P.get x z = w.P.get x z) ∧
    (ws.foldl (relaxW v) w).G1 = w.G1 := by
  induction ws generalizing b w with
  | nil => exact ⟨hs, by simp, fun x _ => ⟨rfl, fun _ => rfl⟩, rfl⟩
  | cons x ws ih =>
    obtain ⟨hx, hnd'⟩ := List.nodup_cons.1 hnd
    have hvx : v ≠ x := fun e => hvws (e ▸ List.mem_cons_self)
    obtain ⟨s1, d1⟩ := relax_sim hs hDv (hG x List.mem_cons_self) (hT x List.mem_cons_self)
    obtain ⟨_, _, _, g4⟩ := relaxW_globals v x w
    obtain ⟨ov1, _, _⟩ := relaxW_other v x v w hvx
    obtain ⟨i1, i2, i3, i4⟩ := ih (relaxB v b x) (relaxW v w x) hnd'
      (fun h => hvws (List.mem_cons_of_mem _ h)) s1 (by rw [ov1]; exact hDv)
      (fun y hy => by rw [g4]; exact hG y (List.mem_cons_of_mem _ hy))
      (fun y hy => by
        have hyx : y ≠ x := fun e => hx (e ▸ hy)
        obtain ⟨o1, _, o3⟩ := relaxW_other v x y w hyx
        unfold Tgt
        rw [o1]; simp only [o3]
        exact hT y (List.mem_cons_of_mem _ hy))
    simp only [List.foldl_cons]
    refine ⟨i1, ?_, ?_, by rw [i4, g4]⟩
    · intro y hy
      rcases List.mem_cons.1 hy with rfl | hy
      · rw [(i3 y hx).1]; exact d1
      · exact i2 y hy
    · intro y hy
      have hyx : y ≠ x := fun e => hy (e ▸ List.mem_cons_self)
      have hyws : y ∉ ws := fun h => hy (List.mem_cons_of_mem _ h)
      obtain ⟨o1, _, o3⟩ := relaxW_other v x y w hyx
      obtain ⟨j1, j3⟩ := i3 y hyws
      exact ⟨by rw [j1, o1], fun z => by rw [j3, o3]⟩

theorem push_sim {b w : SrcSt n} (hs : Sim b w) (v : Fin n) {w1 : SrcSt n} (hw : push w v = .ok w1) :
    ∃ b1, push b v = .ok b1 ∧ Sim b1 w1 ∧ w1.D = w.D ∧ w1.P = w.P ∧ w1.G1 = w.G1 := by
  obtain ⟨e1, e2, e3, e4, e5, e6⟩ := hs
  unfold push at hw ⊢
  by_cases hq : 0 < w.q ∧ w.q - 1 < n
  · rw [dif_pos hq] at hw
    have hq' : 0 < b.q ∧ b.q - 1 < n := by rw [e4]; exact hq
    rw [dif_pos hq']
    simp only [Except.ok.injEq] at hw
    subst hw
    refine ⟨_, rfl, ⟨e1, e2, ?_, by simp only [e4], e5, e6⟩, rfl, rfl, rfl⟩
    simp only [e3, e4]
  · rw [dif_neg hq] at hw; exact absurd hw (by simp)

/-- one batch in lockstep -/
theorem settle_sim {m : ℕ} (V : List (Fin n)) (b w : SrcSt n) (hVnd : V.Nodup) (hs : Sim b w)
    (hDV : ∀ v ∈ V, w.D[v] = some m)
    (hG : ∀ v ∈ V, ∀ x, w.G1.get v x ≠ 0 → w.G1.get v x = 1 ∧ x ∉ V ∧ Tgt w m x)
    {w1 : SrcSt n} (hw : settle true V w = .ok w1) :
    ∃ b1, settle false V b = .ok b1 ∧ Sim b1 w1 := by
  induction V generalizing b w with
  | nil =>
    simp only [settle, Except.ok.injEq] at hw
    subst hw
    exact ⟨b, rfl, hs⟩
  | cons v V ih =>
    obtain ⟨hvV, hVnd'⟩ := List.nodup_cons.1 hVnd
    simp only [settle] at hw ⊢
    cases hp : push w v with
    | error e => rw [hp] at hw; exact absurd hw (by simp)
    | ok w0 =>
      rw [hp] at hw
      simp only [if_true] at hw
      obtain ⟨b0, hb0, s0, eD, eP, eG⟩ := push_sim hs v hp
      rw [hb0]
      simp only [Bool.false_eq_true, if_false]
      have hGv := hG v List.mem_cons_self
      have hnb : ∀ x, x ∈ nbrs w0.G1 v ↔ w.G1.get v x ≠ 0 := by
        intro x; rw [mem_nbrs, eG]
      have hbG : b0.G1 = w0.G1 := s0.2.2.2.2.1
      obtain ⟨f1, f2, f3, f4⟩ := foldl_relax_sim (v := v) (m := m) (nbrs w0.G1 v) b0 w0
        ((List.nodup_finRange n).filter _)
        (fun h => (hGv v ((hnb v).1 h)).2.1 List.mem_cons_self)
        s0 (by rw [eD]; exact hDV v List.mem_cons_self)
        (fun x hx => by rw [eG]; exact (hGv x ((hnb x).1 hx)).1)
        (fun x hx => by
          have := (hGv x ((hnb x).1 hx)).2.2
          unfold Tgt at this ⊢
          rw [eD, eP]; exact this)
      rw [hbG]
      refine ih _ _ hVnd' f1 ?_ ?_ hw
      · intro v' hv'
        have hnot : v' ∉ nbrs w0.G1 v := fun h =>
          (hGv v' ((hnb v').1 h)).2.1 (List.mem_cons_of_mem _ hv')
        rw [(f3 v' hnot).1, eD]
        exact hDV v' (List.mem_cons_of_mem _ hv')
      · intro v' hv' x hx
        have hx' : w.G1.get v' x ≠ 0 := by rw [f4, eG] at hx; exact hx
        obtain ⟨g1, g2, g3⟩ := hG v' (List.mem_cons_of_mem _ hv') x hx'
        refine ⟨by rw [f4, eG]; exact g1, fun h => g2 (List.mem_cons_of_mem _ h), ?_⟩
        by_cases hxn : x ∈ nbrs w0.G1 v
        · exact Or.inr (f2 x hxn)
        · obtain ⟨o1, o3⟩ := f3 x hxn
          unfold Tgt at g3 ⊢
          rw [o1, eD]; simp only [o3, eP]
          exact g3

end Bct.Between
