import BctVerif.Lemmas.BetweenSigma

/-!
# Minimum-length walks through a node / along a connection (C08)
-/
namespace Bct.Between
open Bct

variable {n : ℕ} (L : AMat Nat n)

/-- both parts of a minimum-length walk are minimum-length walks -/
theorem IsMin.split {s t : Fin n} {p1 p2 : List (Fin n)} (h : IsMin L s t (p1 ++ p2)) :
    IsMin L s (wend s p1) p1 ∧ IsMin L (wend s p1) t p2 := by
  obtain ⟨hw, he, hm⟩ := h
  rw [isWalk_append] at hw
  rw [wend_append] at he
  refine ⟨⟨hw.1, rfl, ?_⟩, ⟨hw.2, he, ?_⟩⟩
  · intro q hq hqe
    have := hm (q ++ p2) ((isWalk_append L _ _ _).2 ⟨hq, hqe ▸ hw.2⟩) (by rw [wend_append, hqe, he])
    rw [wlen_append, wlen_append, hqe] at this
    omega
  · intro q hq hqe
    have := hm (p1 ++ q) ((isWalk_append L _ _ _).2 ⟨hw.1, hq⟩) (by rw [wend_append, hqe])
    rw [wlen_append, wlen_append] at this
    omega

theorem IsMin.dist_eq {s t : Fin n} {p : List (Fin n)} (h : IsMin L s t p) :
    (dist L).get s t = some (wlen L s p) := ((isMin_iff_dist L s t p).1 h).2.2

theorem IsMin.wlen_eq {s t : Fin n} {p : List (Fin n)} {d : ℕ} (h : IsMin L s t p)
    (hd : (dist L).get s t = some d) : wlen L s p = d := by
  rw [h.dist_eq] at hd; exact (Option.some.inj hd)

/-- concatenating minimum-length walks gives a minimum-length walk when the distances add up -/
theorem IsMin.join {s v t : Fin n} {p1 p2 : List (Fin n)} (h1 : IsMin L s v p1) (h2 : IsMin L v t p2)
    (hd : (dist L).get s t = some (wlen L s p1 + wlen L v p2)) : IsMin L s t (p1 ++ p2) := by
  rw [isMin_iff_dist]
  refine ⟨(isWalk_append L _ _ _).2 ⟨h1.1, h1.2.1 ▸ h2.1⟩, by rw [wend_append, h1.2.1, h2.2.1], ?_⟩
  rw [wlen_append, h1.2.1]; exact hd

theorem exists_split_of_mem {s v : Fin n} {p : List (Fin n)} (h : v ∈ s :: p) :
    ∃ p1 p2, p = p1 ++ p2 ∧ wend s p1 = v := by
  obtain ⟨a, b, hab⟩ := List.append_of_mem h
  cases a with
  | nil =>
    simp only [List.nil_append, List.cons.injEq] at hab
    exact ⟨[], p, rfl, hab.1⟩
  | cons y a =>
    simp only [List.cons_append, List.cons.injEq] at hab
    refine ⟨a ++ [v], b, by rw [hab.2]; simp, ?_⟩
    rw [wend_append]; rfl

/-- a closed sub-walk of length 0 is empty: used for injectivity of concatenation -/
theorem append_inj_of_min {s v : Fin n} {p1 p1' p2 p2' : List (Fin n)}
    (h1 : IsMin L s v p1) (h1' : IsMin L s v p1') (e : p1 ++ p2 = p1' ++ p2') : p1 = p1' ∧ p2 = p2' := by
  have hl : wlen L s p1 = wlen L s p1' := by
    have := h1.dist_eq; rw [h1'.dist_eq] at this; exact (Option.some.inj this).symm
  have key : ∀ {q q' r : List (Fin n)}, IsMin L s v q → IsMin L s v q' → wlen L s q = wlen L s q' →
      q' = q ++ r → r = [] := by
    intro q q' r hq hq' hlen hr
    subst hr
    have hw := hq'.1
    rw [isWalk_append] at hw
    rw [wlen_append] at hlen
    exact eq_nil_of_wlen_eq_zero L hw.2 (by omega)
  rcases List.append_eq_append_iff.1 e with ⟨r, hr, hr2⟩ | ⟨r, hr, hr2⟩
  · have := key h1 h1' hl hr
    subst this
    simp at hr hr2
    exact ⟨hr.symm, hr2⟩
  · have := key h1' h1 hl.symm hr
    subst this
    simp at hr hr2
    exact ⟨hr, hr2.symm⟩

/-- minimum-length walks from `s` to `t` that visit `v` -/
def ThroughV (s t v : Fin n) : Set (List (Fin n)) := {p | IsMin L s t p ∧ v ∈ s :: p}

/-- minimum-length walks from `s` to `t` in which `u` is immediately followed by `w` -/
def ThroughE (s t u w : Fin n) : Set (List (Fin n)) :=
  {p | IsMin L s t p ∧ ∃ p1 p2, p = p1 ++ w :: p2 ∧ wend s p1 = u}

theorem throughV_eq_image {s t v : Fin n} {a b : ℕ} (ha : (dist L).get s v = some a)
    (hb : (dist L).get v t = some b) (hc : (dist L).get s t = some (a + b)) :
    ThroughV L s t v = (fun x : List (Fin n) × List (Fin n) => x.1 ++ x.2) '' (MinW L s v ×ˢ MinW L v t) := by
  ext p
  simp only [ThroughV, Set.mem_ofPred_eq, Set.mem_image, Set.mem_prod, MinW, Prod.exists]
  constructor
  · rintro ⟨hm, hv⟩
    obtain ⟨p1, p2, rfl, hp1⟩ := exists_split_of_mem hv
    have := hm.split L
    rw [hp1] at this
    exact ⟨p1, p2, this, rfl⟩
  · rintro ⟨p1, p2, ⟨h1, h2⟩, rfl⟩
    refine ⟨h1.join L h2 ?_, ?_⟩
    · rw [h1.wlen_eq L ha, h2.wlen_eq L hb]; exact hc
    · have := wend_mem s p1
      rw [h1.2.1] at this
      rcases List.mem_cons.1 this with h | h
      · exact h ▸ List.mem_cons_self
      · exact List.mem_cons_of_mem _ (List.mem_append_left _ h)

theorem injOn_append (s v t : Fin n) :
    Set.InjOn (fun x : List (Fin n) × List (Fin n) => x.1 ++ x.2) (MinW L s v ×ˢ MinW L v t) := by
  rintro ⟨p1, p2⟩ ⟨h1, _⟩ ⟨p1', p2'⟩ ⟨h1', _⟩ e
  simp only at e
  obtain ⟨e1, e2⟩ := append_inj_of_min L h1 h1' e
  simp only at e1
  rw [e1, e2]

/-- **through a node**: the number of minimum-length walks from `s` to `t` visiting `v` is
`σ s v * σ v t` if `d s v + d v t = d s t`, and `0` otherwise -/
theorem ncard_throughV (s t v : Fin n) :
    (ThroughV L s t v).ncard = sigmaV (dist L) (sigma L) s t v := by
  by_cases hC : ∃ a b, (dist L).get s v = some a ∧ (dist L).get v t = some b ∧
      (dist L).get s t = some (a + b)
  · obtain ⟨a, b, ha, hb, hc⟩ := hC
    rw [throughV_eq_image L ha hb hc, (injOn_append L s v t).ncard_image, Set.ncard_prod,
      ← sigma_eq_ncard, ← sigma_eq_ncard]
    simp [sigmaV, ha, hb, hc]
  · have hempty : ThroughV L s t v = ∅ := by
      rw [Set.eq_empty_iff_forall_notMem]
      rintro p ⟨hm, hv⟩
      obtain ⟨p1, p2, rfl, hp1⟩ := exists_split_of_mem hv
      have h12 := hm.split L
      rw [hp1] at h12
      apply hC
      refine ⟨_, _, h12.1.dist_eq L, h12.2.dist_eq L, ?_⟩
      have := hm.dist_eq L
      rwa [wlen_append, hp1] at this
    rw [hempty, Set.ncard_empty]
    unfold sigmaV
    cases ha : (dist L).get s v with
    | none => rfl
    | some a =>
      cases hb : (dist L).get v t with
      | none => rfl
      | some b =>
        cases hc : (dist L).get s t with
        | none => rfl
        | some c =>
          simp only
          by_cases e : a + b = c
          · exact absurd ⟨a, b, ha, hb, e ▸ hc⟩ hC
          · simp [e]

theorem throughE_eq_image {s t u w : Fin n} {a b : ℕ} (hL : L.get u w ≠ 0)
    (ha : (dist L).get s u = some a) (hb : (dist L).get w t = some b)
    (hc : (dist L).get s t = some (a + L.get u w + b)) :
    ThroughE L s t u w =
      (fun x : List (Fin n) × List (Fin n) => x.1 ++ w :: x.2) '' (MinW L s u ×ˢ MinW L w t) := by
  ext p
  simp only [ThroughE, Set.mem_ofPred_eq, Set.mem_image, Set.mem_prod, MinW, Prod.exists]
  constructor
  · rintro ⟨hm, p1, p2, rfl, hp1⟩
    have := hm.split L
    rw [hp1] at this
    exact ⟨p1, p2, ⟨this.1, ((isMin_cons L u t w p2).1 this.2).2⟩, rfl⟩
  · rintro ⟨p1, p2, ⟨h1, h2⟩, rfl⟩
    have hut : IsMin L u t (w :: p2) := by
      rw [isMin_iff_dist]
      refine ⟨⟨hL, h2.1⟩, h2.2.1, ?_⟩
      have hD := (dist_isDist L u t)
      simp only at hD
      cases h : (dist L).get u t with
      | none => exact absurd h2.2.1 (hD.1 h (w :: p2) ⟨hL, h2.1⟩)
      | some e =>
        obtain ⟨⟨q, hq, hqe, hql⟩, hlow⟩ := hD.2 e h
        have h3 := hlow (w :: p2) ⟨hL, h2.1⟩ h2.2.1
        have hDs := (dist_isDist L s t)
        simp only at hDs
        have h4 := (hDs.2 _ hc).2 (p1 ++ q) ((isWalk_append L _ _ _).2 ⟨h1.1, h1.2.1 ▸ hq⟩)
          (by rw [wend_append, h1.2.1, hqe])
        rw [wlen_append, h1.2.1, h1.wlen_eq L ha, hql] at h4
        simp only [wlen_cons, h2.wlen_eq L hb] at h3 ⊢
        congr 1; omega
    refine ⟨h1.join L hut ?_, p1, p2, rfl, h1.2.1⟩
    rw [h1.wlen_eq L ha]
    simp only [wlen_cons, h2.wlen_eq L hb]
    rw [hc]; congr 1; omega

theorem injOn_append_cons (s u w t : Fin n) :
    Set.InjOn (fun x : List (Fin n) × List (Fin n) => x.1 ++ w :: x.2) (MinW L s u ×ˢ MinW L w t) := by
  rintro ⟨p1, p2⟩ ⟨h1, _⟩ ⟨p1', p2'⟩ ⟨h1', _⟩ e
  simp only at e
  obtain ⟨e1, e2⟩ := append_inj_of_min L h1 h1' e
  simp only [List.cons.injEq, true_and] at e2
  simp only at e1
  rw [e1, e2]

/-- **along a connection**: the number of minimum-length walks from `s` to `t` using `u → w` is
`σ s u * σ w t` if `d s u + L u w + d w t = d s t`, and `0` otherwise -/
theorem ncard_throughE (s t u w : Fin n) :
    (ThroughE L s t u w).ncard = sigmaE L (dist L) (sigma L) s t u w := by
  by_cases hC : L.get u w ≠ 0 ∧ ∃ a b, (dist L).get s u = some a ∧ (dist L).get w t = some b ∧
      (dist L).get s t = some (a + L.get u w + b)
  · obtain ⟨hL, a, b, ha, hb, hc⟩ := hC
    rw [throughE_eq_image L hL ha hb hc, (injOn_append_cons L s u w t).ncard_image,
      Set.ncard_prod, ← sigma_eq_ncard, ← sigma_eq_ncard]
    simp [sigmaE, hL, ha, hb, hc]
  · have hempty : ThroughE L s t u w = ∅ := by
      rw [Set.eq_empty_iff_forall_notMem]
      rintro p ⟨hm, p1, p2, rfl, hp1⟩
      have h12 := hm.split L
      rw [hp1] at h12
      have hc := (isMin_cons L u t w p2).1 h12.2
      apply hC
      refine ⟨h12.2.1.1, _, _, h12.1.dist_eq L, hc.2.dist_eq L, ?_⟩
      have := hm.dist_eq L
      rw [wlen_append, hp1] at this
      simp only [wlen_cons] at this
      rw [this]; congr 1; omega
    rw [hempty, Set.ncard_empty]
    unfold sigmaE
    by_cases hL : L.get u w = 0
    · simp [hL]
    · simp only [hL, if_false]
      cases ha : (dist L).get s u with
      | none => rfl
      | some a =>
        cases hb : (dist L).get w t with
        | none => rfl
        | some b =>
          cases hc : (dist L).get s t with
          | none => rfl
          | some c =>
            simp only
            by_cases e : a + L.get u w + b = c
            · exact absurd ⟨hL, a, b, ha, hb, e ▸ hc⟩ hC
            · simp [e]

end Bct.Between
