import BctVerif.Lemmas.SignedCorr
import Mathlib.Algebra.Order.Chebyshev
import Mathlib.Analysis.SpecialFunctions.Sqrt

/-!
# C06 helper lemmas: Pearson's r from the model's integer triple

`covTriple xs ys = (c, vx, vy)` with `c = N·Σxy − Σx·Σy`, `vx = N·Σx² − (Σx)²`, `vy = N·Σy² − (Σy)²`.
Cauchy–Schwarz for the centred sequences gives `c² ≤ vx·vy`, `0 ≤ vx`, `0 ≤ vy`, hence over ℝ the quotient
`r = c / √(vx·vy)` lies in `[-1, 1]`.
-/
namespace Bct.Signed
open Finset

variable {n : ℕ}

/-- the triple of two sequences indexed by the nodes, as finite sums -/
theorem covTriple_fin (x y : Fin n → ℤ) :
    covTriple ((List.finRange n).map x) ((List.finRange n).map y) =
      ((n : ℤ) * (∑ i, x i * y i) - (∑ i, x i) * (∑ i, y i),
       (n : ℤ) * (∑ i, x i * x i) - (∑ i, x i) * (∑ i, x i),
       (n : ℤ) * (∑ i, y i * y i) - (∑ i, y i) * (∑ i, y i)) := by
  have hz : ∀ l : List (Fin n), ((l.map x).zip (l.map y)).map (fun p => p.1 * p.2) = l.map fun i => x i * y i := by
    intro l; induction l with
    | nil => rfl
    | cons a l ih => simp only [List.map_cons, List.zip_cons_cons, ih]
  rw [covTriple_eq, hz]
  simp only [List.length_map, List.length_finRange, List.map_map, Fin.sum_univ_def]
  rfl

/-- Cauchy–Schwarz for the centred sequences, in integers -/
theorem cov_sq_le (x y : Fin n → ℤ) :
    ((n : ℤ) * (∑ i, x i * y i) - (∑ i, x i) * (∑ i, y i)) ^ 2 ≤
      ((n : ℤ) * (∑ i, x i * x i) - (∑ i, x i) * (∑ i, x i)) * ((n : ℤ) * (∑ i, y i * y i) - (∑ i, y i) * (∑ i, y i)) := by
  set Sx := ∑ i, x i with hSx
  set Sy := ∑ i, y i with hSy
  have hcs := Finset.sum_mul_sq_le_sq_mul_sq (Finset.univ : Finset (Fin n)) (fun i => (n : ℤ) * x i - Sx) (fun i => (n : ℤ) * y i - Sy)
  have e1 : ∑ i, ((n : ℤ) * x i - Sx) * ((n : ℤ) * y i - Sy) = (n : ℤ) * ((n : ℤ) * (∑ i, x i * y i) - Sx * Sy) := by
    have : ∀ i, ((n : ℤ) * x i - Sx) * ((n : ℤ) * y i - Sy) = (n : ℤ) ^ 2 * (x i * y i) - (n : ℤ) * Sy * x i - (n : ℤ) * Sx * y i + Sx * Sy := by
      intro i; ring
    simp only [this, Finset.sum_add_distrib, Finset.sum_sub_distrib, ← Finset.mul_sum, Finset.sum_const, Finset.card_univ,
      Fintype.card_fin, nsmul_eq_mul, ← hSx, ← hSy]
    ring
  have e2 : ∀ (z : Fin n → ℤ), ∑ i, ((n : ℤ) * z i - ∑ j, z j) ^ 2 = (n : ℤ) * ((n : ℤ) * (∑ i, z i * z i) - (∑ i, z i) * (∑ i, z i)) := by
    intro z
    have : ∀ i, ((n : ℤ) * z i - ∑ j, z j) ^ 2 = (n : ℤ) ^ 2 * (z i * z i) - 2 * (n : ℤ) * (∑ j, z j) * z i + (∑ j, z j) ^ 2 := by
      intro i; ring
    simp only [this, Finset.sum_add_distrib, Finset.sum_sub_distrib, ← Finset.mul_sum, Finset.sum_const, Finset.card_univ,
      Fintype.card_fin, nsmul_eq_mul]
    ring
  rw [e1, e2 x, e2 y] at hcs
  rcases Nat.eq_zero_or_pos n with h0 | hpos
  · subst h0; simp; exact le_of_eq (by ring)
  · have hn : (0 : ℤ) < n := by exact_mod_cast hpos
    have : (n : ℤ) ^ 2 * ((n : ℤ) * (∑ i, x i * y i) - Sx * Sy) ^ 2 ≤
        (n : ℤ) ^ 2 * (((n : ℤ) * (∑ i, x i * x i) - Sx * Sx) * ((n : ℤ) * (∑ i, y i * y i) - Sy * Sy)) := by
      calc (n : ℤ) ^ 2 * ((n : ℤ) * (∑ i, x i * y i) - Sx * Sy) ^ 2
          = ((n : ℤ) * ((n : ℤ) * (∑ i, x i * y i) - Sx * Sy)) ^ 2 := by ring
        _ ≤ _ := hcs
        _ = _ := by ring
    exact le_of_mul_le_mul_left this (by positivity)

/-- the variance ingredient is non-negative -/
theorem var_nonneg (x : Fin n → ℤ) : 0 ≤ (n : ℤ) * (∑ i, x i * x i) - (∑ i, x i) * (∑ i, x i) := by
  rcases Nat.eq_zero_or_pos n with h0 | hpos
  · subst h0; simp
  · have hn : (0 : ℤ) < n := by exact_mod_cast hpos
    have h : ∑ i, ((n : ℤ) * x i - ∑ j, x j) ^ 2 = (n : ℤ) * ((n : ℤ) * (∑ i, x i * x i) - (∑ i, x i) * (∑ i, x i)) := by
      have : ∀ i, ((n : ℤ) * x i - ∑ j, x j) ^ 2 = (n : ℤ) ^ 2 * (x i * x i) - 2 * (n : ℤ) * (∑ j, x j) * x i + (∑ j, x j) ^ 2 := by
        intro i; ring
      simp only [this, Finset.sum_add_distrib, Finset.sum_sub_distrib, ← Finset.mul_sum, Finset.sum_const, Finset.card_univ,
        Fintype.card_fin, nsmul_eq_mul]
      ring
    have h0 : 0 ≤ ∑ i, ((n : ℤ) * x i - ∑ j, x j) ^ 2 := Finset.sum_nonneg fun i _ => sq_nonneg _
    rw [h] at h0
    exact nonneg_of_mul_nonneg_right h0 hn

/-- Pearson's r from an integer triple `(c, vx, vy)`, over the reals (`x / 0 = 0`: NumPy returns nan there) -/
noncomputable def pearsonR (t : ℤ × ℤ × ℤ) : ℝ := (t.1 : ℝ) / Real.sqrt ((t.2.1 : ℝ) * (t.2.2 : ℝ))

theorem pearsonR_bounds (c vx vy : ℤ) (hx : 0 ≤ vx) (hy : 0 ≤ vy) (h : c ^ 2 ≤ vx * vy) :
    -1 ≤ pearsonR (c, vx, vy) ∧ pearsonR (c, vx, vy) ≤ 1 := by
  unfold pearsonR
  simp only
  have hprod : (0 : ℝ) ≤ (vx : ℝ) * (vy : ℝ) := by exact_mod_cast mul_nonneg hx hy
  have hc : ((c : ℝ)) ^ 2 ≤ (vx : ℝ) * (vy : ℝ) := by exact_mod_cast h
  have habs : |(c : ℝ)| ≤ Real.sqrt ((vx : ℝ) * (vy : ℝ)) := Real.abs_le_sqrt hc
  rcases eq_or_lt_of_le (Real.sqrt_nonneg ((vx : ℝ) * (vy : ℝ))) with h0 | hpos
  · rw [← h0]; simp
  · have := abs_le.1 habs
    constructor
    · rw [le_div_iff₀ hpos]; linarith [this.1]
    · rw [div_le_one hpos]; exact this.2

end Bct.Signed
