import BctVerif.Lemmas.ModularityGain

/-! # The undirected kernel (`Knm`, `Km`): bookkeeping invariant, gain = exact gain -/
namespace Bct.Modularity
open Finset

variable {n : ℕ}

/-- symmetric matrix -/
def Symm (W : RMat n) : Prop := ∀ i j, W.get i j = W.get j i

theorem Symm.colSum_eq_rowSum {W : RMat n} (h : Symm W) (i : Fin n) : colSum W i = rowSum W i := by
  rw [colSum_eq, rowSum_eq]; exact Finset.sum_congr rfl (fun j _ => h j i)

theorem Bund_symm (W : RMat n) (γ : ℚ) (h : Symm W) : Symm (Bund W γ) := by
  intro i j; simp only [Bund_get]; rw [h i j]; ring

theorem Bund_eq_Bmod (W : RMat n) (γ : ℚ) (h : Symm W) : Bund W γ = Bmod W γ := by
  apply AMat.ext_get; intro i j
  simp only [Bund_get, Bmod_get, h.colSum_eq_rowSum]

/-- the bookkeeping invariant of the undirected optimisers:
`Knm[:,m] = Σ_{j∈m} W[:,j]`, `Km[m] = Σ_{j∈m} k_j` -/
def UndInv (W : RMat n) (γ : ℚ) (st : UndSt n) (c : Fin n → Fin n) : Prop :=
  st.W = W ∧ st.s = total W ∧ st.γ = γ ∧ (∀ i : Fin n, st.k[i] = rowSum W i) ∧
  (∀ i t : Fin n, st.Knm.get i t = ∑ j, if c j = t then W.get i j else 0) ∧
  (∀ t : Fin n, st.Km[t] = ∑ j, if c j = t then rowSum W j else 0)

theorem HnmF_Bund (W : RMat n) (γ : ℚ) (c : Fin n → Fin n) (u t : Fin n) :
    HnmF (Bund W γ) c u t = (∑ j, if c j = t then W.get u j else 0)
      - γ * rowSum W u * (∑ j, if c j = t then rowSum W j else 0) / total W := by
  unfold HnmF
  simp only [Bund_get]
  have : ∀ j, (if c j = t then W.get u j - γ * rowSum W u * rowSum W j / total W else 0)
      = (if c j = t then W.get u j else 0) - γ * rowSum W u * (if c j = t then rowSum W j else 0) / total W := by
    intro j; split_ifs <;> ring
  simp only [this, Finset.sum_sub_distrib]
  congr 1
  rw [Finset.mul_sum, Finset.sum_div]

@[simp] theorem colAdd_get (M : RMat n) (col : Fin n → ℚ) (ma mb i t : Fin n) :
    (colAdd M col ma mb).get i t = M.get i t + (if t = mb then col i else 0) - (if t = ma then col i else 0) := by
  simp [colAdd]

@[simp] theorem vecAdd_get (v : RVec n) (x : ℚ) (ma mb t : Fin n) :
    (vecAdd v x ma mb)[t] = v[t] + (if t = mb then x else 0) - (if t = ma then x else 0) := by
  simp [vecAdd]

/-- **bookkeeping_inv + gain_und**: the undirected kernel meets the kernel specification for the
modularity matrix `Bund W γ` with constant `κ = 1`. -/
theorem undKern_spec (W : RMat n) (γ : ℚ) (hW : Symm W) :
    KernSpec (undKern n) (Bund W γ) 1 (UndInv W γ) where
  sym := Bund_symm W γ hW
  pos := one_pos
  gain := by
    rintro st c ⟨hWe, hs, hg, hk, hKnm, hKm⟩ u t _
    simp only [undKern, one_mul, dqF, HnmF_Bund, Bund_get]
    rw [hWe, hs, hg, hk, hKnm, hKnm, hKm, hKm]
    ring
  move := by
    rintro st c ⟨hWe, hs, hg, hk, hKnm, hKm⟩ u t _
    refine ⟨hWe, hs, hg, hk, ?_, ?_⟩
    · intro i t'
      simp only [undKern, colAdd_get]
      rw [sum_update_label (fun j l => if l = t' then W.get i j else 0) c u t, hKnm, hWe]
      simp only [eq_comm (a := t')]
      ring
    · intro t'
      simp only [undKern, vecAdd_get]
      rw [sum_update_label (fun j l => if l = t' then rowSum W j else 0) c u t, hKm, hk]
      simp only [eq_comm (a := t')]
      ring

/-- start of `modularity_finetune_und`: the initial arrays satisfy the invariant -/
theorem undInitFine_inv (W : RMat n) (γ : ℚ) (hW : Symm W) (c : Lab n) :
    UndInv W γ (undInitFine W γ c) (labOf c) := by
  refine ⟨rfl, rfl, rfl, ?_, ?_, ?_⟩
  · intro i
    simp only [undInitFine, Fin.getElem_fin, Vector.getElem_ofFn, AMat.get_ofFn, fsum_eq, rowSum_eq]
    rw [Finset.sum_comm]
    refine Finset.sum_congr rfl (fun j _ => ?_)
    simp
  · intro i t
    simp only [undInitFine, AMat.get_ofFn, fsum_eq, labOf_apply, Fin.getElem_fin]
    refine Finset.sum_congr rfl (fun j _ => ?_)
    congr
  · intro t
    simp only [undInitFine, Fin.getElem_fin, Vector.getElem_ofFn, AMat.get_ofFn, fsum_eq]
    rw [Finset.sum_comm]
    refine Finset.sum_congr rfl (fun j _ => ?_)
    by_cases h : c[(j : ℕ)] = t
    · simp only [labOf_apply, Fin.getElem_fin, h, if_true, ← hW.colSum_eq_rowSum, colSum_eq]
    · simp [labOf, h]

theorem labOf_idLab : labOf (idLab n) = id := by
  funext i; simp [labOf, idLab]

/-- start of every level of `modularity_louvain_und` (singletons) -/
theorem undInitLevel_inv (W : RMat n) (γ : ℚ) (hW : Symm W) :
    UndInv W γ (undInitLevel W (total W) γ) (labOf (idLab n)) := by
  rw [labOf_idLab]
  refine ⟨rfl, rfl, rfl, ?_, ?_, ?_⟩
  · intro i; simp [undInitLevel, hW.colSum_eq_rowSum]
  · intro i t; simp [undInitLevel]
  · intro t; simp [undInitLevel, hW.colSum_eq_rowSum]

end Bct.Modularity
