import BctVerif.Lemmas.BetweenBack

/-!
# From the forward-phase postcondition to `brandes = (ebcSpec, bcSpec)` (C08)
-/
namespace Bct.Between
open Bct

variable {n : ℕ} (L : AMat Nat n)

/-- the forward phase (Dijkstra / BFS loop) of source `u` -/
def fwd (wei : Bool) (u : Fin n) : Except BErr (SrcSt n) :=
  if wei then weiLoop (n + 1) [u] (initSt wei L u) else bfsLoop (n + 2) [u] (initSt wei L u)

/-- postcondition of the forward phase of source `s`: `P` is the predecessor relation, `NP` the
shortest-path counts of reachable nodes, and `Q[:n-1]` lists every node except `s` exactly once,
every node before all its predecessors -/
structure FwdOK (s : Fin n) (st : SrcSt n) : Prop extends FwdPN L s st where
  hQ : ∃ ql : List (Fin n), st.Q.toList.take (n - 1) = ql.map Fin.val ∧ ql.Nodup ∧ s ∉ ql ∧
    (∀ x, x ≠ s → x ∈ ql) ∧ OrdOK L s [] ql

theorem source_eq (wei : Bool) (a : Acc n) (u : Fin n) :
    source wei L a u = (fwd L wei u).bind fun st =>
      backOuter st (st.Q.toList.take (n - 1)) { a with DP := Vector.ofFn fun _ => 0 } := by
  unfold source fwd
  cases wei <;> rfl

theorem pred_source_false (s v : Fin n) : ¬ pred L (dist L) s v s = true := by
  intro hp
  exact (pred_ne L hp).1 rfl

theorem source_spec (wei : Bool) (a : Acc n) (u : Fin n) (st : SrcSt n)
    (hst : fwd L wei u = .ok st) (hok : FwdOK L u st) :
    ∃ a', source wei L a u = .ok a' ∧
      (∀ x, a'.BC[x] = a.BC[x] + depOf (dist L) (sigma L) u x) ∧
      (∀ v w, a'.EBC.get v w = a.EBC.get v w + edgeDep L u v w) := by
  obtain ⟨ql, hq, hnd, hs, hall, hord⟩ := hok.hQ
  rw [source_eq, hst]
  simp only [Except.bind]
  rw [hq]
  obtain ⟨a', h1, h2, h3⟩ := backOuter_spec L u st hok.toFwdPN ql [] { a with DP := Vector.ofFn fun _ => 0 }
    hnd List.nodup_nil (fun _ _ => by simp) hs hord (fun x => by simp)
  refine ⟨a', h1, ?_, ?_⟩
  · intro x
    rw [h2 x]
    by_cases hx : x = u
    · subst hx
      have : depOf (dist L) (sigma L) x x = 0 := by
        unfold depOf; rw [sumFin_eq_sum]
        exact Finset.sum_eq_zero fun t _ => by simp [pairV]
      simp [hs, this]
    · simp [hall x hx]
  · intro v w
    rw [h3 v w]
    by_cases hw : w = u
    · subst hw
      simp [hs, edgeDep_of_not_pred L (pred_source_false L w v)]
    · simp [hall w hw]

theorem sources_spec (wei : Bool) (hf : ∀ u, ∃ st, fwd L wei u = .ok st ∧ FwdOK L u st)
    (us : List (Fin n)) (a : Acc n) :
    ∃ a', sources wei L us a = .ok a' ∧
      (∀ x, a'.BC[x] = a.BC[x] + (us.map fun u => depOf (dist L) (sigma L) u x).sum) ∧
      (∀ v w, a'.EBC.get v w = a.EBC.get v w + (us.map fun u => edgeDep L u v w).sum) := by
  induction us generalizing a with
  | nil => exact ⟨a, rfl, by simp, by simp⟩
  | cons u us ih =>
    obtain ⟨st, hst, hok⟩ := hf u
    obtain ⟨a1, h1, h2, h3⟩ := source_spec L wei a u st hst hok
    obtain ⟨a', g1, g2, g3⟩ := ih a1
    refine ⟨a', ?_, ?_, ?_⟩
    · simp only [sources, h1]; exact g1
    · intro x; rw [g2 x, h2 x]; simp [add_assoc]
    · intro v w; rw [g3 v w, h3 v w]; simp [add_assoc]

/-- **algorithm = definition, given the forward-phase postcondition.**  If for every source the
Dijkstra/BFS loop of the model terminates normally in a state satisfying `FwdOK`, the model of
`edge_betweenness_wei` / `betweenness_wei` (`wei = true`) resp. `edge_betweenness_bin`
(`wei = false`) returns exactly `(ebcSpec L, bcSpec L)`. -/
theorem brandes_of_forward (wei : Bool) (hf : ∀ u, ∃ st, fwd L wei u = .ok st ∧ FwdOK L u st) :
    brandes wei L = .ok (ebcSpec L, bcSpec L) := by
  obtain ⟨a', h1, h2, h3⟩ := sources_spec L wei hf (List.finRange n)
    { BC := Vector.ofFn fun _ => 0, EBC := AMat.ofFn fun _ _ => 0, DP := Vector.ofFn fun _ => 0 }
  unfold brandes
  rw [h1]
  simp only [bind, Except.bind, pure, Except.pure]
  congr 1
  refine Prod.ext ?_ ?_
  · apply AMat.ext_get
    intro v w
    rw [h3 v w, ebcSpec_get]
    simp only [AMat.get_ofFn, zero_add]
    rw [← Fin.sum_univ_def]
    exact Finset.sum_congr rfl fun s _ => (sum_pairE_target L s v w).symm
  · apply Vector.ext
    intro i hi
    have := h2 ⟨i, hi⟩
    simp only [Fin.getElem_fin, Vector.getElem_ofFn, zero_add] at this
    rw [this]
    have hb : (bcSpec L)[i] = (bcSpec L)[(⟨i, hi⟩ : Fin n)] := rfl
    rw [hb]
    simp only [bcSpec, bcOf, Fin.getElem_fin, Vector.getElem_ofFn, sumFin]

end Bct.Between
