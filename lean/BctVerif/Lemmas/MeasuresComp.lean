import BctVerif.Lemmas.MeasuresBasic
import BctVerif.Props.C16
/-!
# `get_components` (executable model of the C16 slice) is equivariant as a partition
-/
namespace Bct.Measures
open Bct Bct.Comp Relation

variable {n : Nat} (σ : Equiv.Perm (Fin n))

theorem comp_isSymm_perm (A : AMat Int n) (h : Comp.isSymm A = true) : Comp.isSymm (permA σ A) = true := by
  rw [isSymm_iff] at h ⊢
  intro i j; simpa using h (σ i) (σ j)

theorem comp_isSymm_perm_eq (A : AMat Int n) : Comp.isSymm (permA σ A) = Comp.isSymm A := by
  rw [Bool.eq_iff_iff]
  constructor
  · intro h
    rw [isSymm_iff] at h ⊢
    intro i j
    have := h (σ.symm i) (σ.symm j)
    simpa using this
  · exact comp_isSymm_perm σ A

theorem reach_perm_iff (A : AMat Int n) (x y : Fin n) :
    ReflTransGen (Adj (permA σ A)) x y ↔ ReflTransGen (Adj A) (σ x) (σ y) := by
  constructor
  · intro h
    have := ReflTransGen.lift (r := Adj (permA σ A)) (p := Adj A) σ (fun a b hab => by simpa [Adj, Function.onFun] using hab) _ _ h
    simpa [Function.onFun] using this
  · intro h
    have := ReflTransGen.lift (r := Adj A) (p := Adj (permA σ A)) σ.symm (fun a b hab => by simpa [Adj, Function.onFun] using hab) _ _ h
    simpa [Function.onFun] using this

/-- two nodes of the renumbered graph carry the same component label iff the nodes they stand for do in the original -/
theorem components_perm (A : AMat Int n) (hsym : Comp.isSymm A = true) (x y : Fin n) :
    C16.labelFn (permA σ A) x = C16.labelFn (permA σ A) y ↔ C16.labelFn A (σ x) = C16.labelFn A (σ y) := by
  rw [C16.components_correct _ (comp_isSymm_perm σ A hsym), C16.components_correct A hsym, reach_perm_iff]

/-- the model rejects the renumbered matrix iff it rejects the original -/
theorem getComponents_error_perm (A : AMat Int n) (h : Comp.isSymm A = false) :
    getComponents (permA σ A) = .error .param ∧ getComponents A = .error .param := by
  have h' : Comp.isSymm (permA σ A) = false := by rw [comp_isSymm_perm_eq]; exact h
  exact ⟨(C16.asymmetric_rejected _ h').1, (C16.asymmetric_rejected _ h).1⟩

end Bct.Measures
