import BctVerif.Lemmas.BetweenBin
import BctVerif.Lemmas.BetweenLast

/-!
# `betweenness_bin`: the `while np.any(NSPd)` loop (C08)
-/
namespace Bct.Between
open Bct

variable {n : ℕ} (L : AMat Nat n)

/-- the distance if it is at most `d`, else 0 (the matrix `L` of the code, off the diagonal) -/
def lvl (d : ℕ) (i j : Fin n) : ℕ :=
  match (dist L).get i j with
  | some k => if k ≤ d then k else 0
  | none => 0

structure BinInv (st : BinSt n) : Prop where
  dpos : 1 ≤ st.d
  nspd : ∀ i j, st.NSPd.get i j =
    if i ≠ j ∧ (dist L).get i j = some st.d then (sigma L).get i j else 0
  nsp : ∀ i j, st.NSP.get i j =
    if i = j then 1 else if lvl L st.d i j ≠ 0 then (sigma L).get i j else 0
  lm : ∀ i j, st.Lm.get i j = if i = j then 1 else lvl L st.d i j

variable {L}

theorem anyNZ_false {A : AMat Nat n} (h : anyNZ A = false) (i j : Fin n) : A.get i j = 0 := by
  unfold anyNZ at h
  by_contra hne
  have : ((List.finRange n).any fun i => (List.finRange n).any fun j => A.get i j != 0) = true := by
    rw [List.any_eq_true]
    refine ⟨i, List.mem_finRange i, ?_⟩
    rw [List.any_eq_true]
    exact ⟨j, List.mem_finRange j, by simpa using hne⟩
  rw [this] at h; exact absurd h (by simp)

theorem anyNZ_true {A : AMat Nat n} (h : anyNZ A = true) : ∃ i j, A.get i j ≠ 0 := by
  unfold anyNZ at h
  rw [List.any_eq_true] at h
  obtain ⟨i, _, hi⟩ := h
  rw [List.any_eq_true] at hi
  obtain ⟨j, _, hj⟩ := hi
  exact ⟨i, j, by simpa using hj⟩

theorem matMul_get (A B : AMat Nat n) (i j : Fin n) :
    (matMul A B).get i j = ∑ k, A.get i k * B.get k j := by
  simp [matMul, sumFin_eq_sum]

/-- **extending only the shortest paths** (`NPd = np.dot(NSPd, G)`): one more step after the
shortest paths of length `d` gives exactly the shortest-path counts of the pairs at distance `d + 1`
and nothing for pairs farther apart or disconnected (binary matrices) -/
theorem nspd_extend (hbin : ∀ i j, L.get i j ≤ 1) (d : ℕ) (hd1 : 1 ≤ d) (i j : Fin n) (hij : i ≠ j) :
    ((dist L).get i j = some (d + 1) →
      (∑ w, (if i ≠ w ∧ (dist L).get i w = some d then (sigma L).get i w else 0) * L.get w j) =
        (sigma L).get i j) ∧
    (((dist L).get i j = none ∨ ∃ k, (dist L).get i j = some k ∧ d + 1 < k) →
      (∑ w, (if i ≠ w ∧ (dist L).get i w = some d then (sigma L).get i w else 0) * L.get w j) = 0) := by
  constructor
  · intro hd
    rw [sigma_rec_last L i j hij]
    refine Finset.sum_congr rfl fun w _ => ?_
    by_cases hp : pred L (dist L) i w j = true
    · obtain ⟨hL, a, ha, he⟩ := (pred_iff L).1 hp
      rw [hd] at he; simp only [Option.some.injEq] at he
      have hb := hbin w j
      have h1 : L.get w j = 1 := by have := Nat.pos_of_ne_zero hL; omega
      have hak : a = d := by omega
      subst hak
      have hiw : i ≠ w := by
        rintro rfl; rw [dist_self] at ha; simp only [Option.some.injEq] at ha
        omega
      rw [if_pos hp, if_pos ⟨hiw, ha⟩, h1, mul_one]
    · rw [if_neg hp]
      by_cases hc : i ≠ w ∧ (dist L).get i w = some d
      · rw [if_pos hc]
        by_cases hL : L.get w j = 0
        · rw [hL, mul_zero]
        · exfalso; apply hp
          rw [pred_iff]
          have hb := hbin w j
          have h1 : L.get w j = 1 := by have := Nat.pos_of_ne_zero hL; omega
          exact ⟨hL, d, hc.2, by rw [hd, h1]⟩
      · rw [if_neg hc, zero_mul]
  · intro hfar
    refine Finset.sum_eq_zero fun w _ => ?_
    by_cases hc : i ≠ w ∧ (dist L).get i w = some d
    · rw [if_pos hc]
      by_cases hL : L.get w j = 0
      · rw [hL, mul_zero]
      · exfalso
        have hb := hbin w j
        obtain ⟨e, he, hel⟩ := dist_edge L hL
        obtain ⟨c, hc', hcl⟩ := dist_triangle L hc.2 he
        rcases hfar with hn | ⟨k, hk, hlt⟩
        · rw [hn] at hc'; exact absurd hc' (by simp)
        · rw [hk] at hc'; simp only [Option.some.injEq] at hc'; omega
    · rw [if_neg hc, zero_mul]

/-- one iteration of the loop keeps the invariant -/
theorem binStep_inv (hbin : ∀ i j, L.get i j ≤ 1) {st : BinSt n} (h : BinInv L st) :
    BinInv L
      { d := st.d + 1
        NPd := matMul st.NSPd L
        NSPd := AMat.ofFn fun i j => if st.Lm.get i j = 0 then (matMul st.NSPd L).get i j else 0
        NSP := AMat.ofFn fun i j => st.NSP.get i j +
          (AMat.ofFn fun i j => if st.Lm.get i j = 0 then (matMul st.NSPd L).get i j else 0 : AMat Nat n).get i j
        Lm := AMat.ofFn fun i j => st.Lm.get i j +
          (if (AMat.ofFn fun i j => if st.Lm.get i j = 0 then (matMul st.NSPd L).get i j else 0 : AMat Nat n).get i j != 0
            then st.d + 1 else 0) } := by
  have hnpd : ∀ i j : Fin n, i ≠ j →
      (((dist L).get i j = some (st.d + 1) → (matMul st.NSPd L).get i j = (sigma L).get i j) ∧
       (((dist L).get i j = none ∨ ∃ k, (dist L).get i j = some k ∧ st.d + 1 < k) →
          (matMul st.NSPd L).get i j = 0)) := by
    intro i j hij
    rw [matMul_get]
    simp only [h.nspd]
    exact nspd_extend hbin st.d h.dpos i j hij
  have hcell : ∀ i j : Fin n,
      (if st.Lm.get i j = 0 then (matMul st.NSPd L).get i j else 0) =
        if i ≠ j ∧ (dist L).get i j = some (st.d + 1) then (sigma L).get i j else 0 := by
    intro i j
    rw [h.lm]
    by_cases hij : i = j
    · simp [hij]
    · simp only [hij, if_false, ne_eq, not_false_eq_true, true_and]
      unfold lvl
      cases hd : (dist L).get i j with
      | none =>
        simp only [if_true]
        rw [(hnpd i j hij).2 (Or.inl hd)]; simp
      | some k =>
        have hk : 0 < k := dist_pos_of_ne L hd hij
        by_cases hkd : k ≤ st.d
        · have : k ≠ 0 := by omega
          have hne : ¬ (k = st.d + 1) := by omega
          simp [hkd, this, hne]
        · simp only [hkd, if_false, if_true, Option.some.injEq]
          by_cases hkd1 : k = st.d + 1
          · subst hkd1
            rw [(hnpd i j hij).1 hd]; simp
          · rw [(hnpd i j hij).2 (Or.inr ⟨k, hd, by omega⟩)]; simp [hkd1]
  constructor
  · simp
  · intro i j; simp only [AMat.get_ofFn]; exact hcell i j
  · intro i j
    simp only [AMat.get_ofFn]
    rw [hcell, h.nsp]
    by_cases hij : i = j
    · simp [hij]
    · simp only [hij, if_false, ne_eq, not_false_eq_true, true_and]
      unfold lvl
      cases hd : (dist L).get i j with
      | none => simp
      | some k =>
        have hk : 0 < k := dist_pos_of_ne L hd hij
        by_cases hkd : k ≤ st.d
        · have h1 : k ≤ st.d + 1 := by omega
          have h2 : k ≠ 0 := by omega
          have h3 : ¬ (k = st.d + 1) := by omega
          simp [hkd, h1, h2, h3]
        · by_cases hkd1 : k = st.d + 1
          · subst hkd1; simp
          · have h1 : ¬ k ≤ st.d + 1 := by omega
            simp [hkd, h1, hkd1]
  · intro i j
    simp only [AMat.get_ofFn]
    rw [hcell, h.lm]
    by_cases hij : i = j
    · simp [hij]
    · simp only [hij, if_false, ne_eq, not_false_eq_true, true_and]
      unfold lvl
      cases hd : (dist L).get i j with
      | none => simp
      | some k =>
        have hk : 0 < k := dist_pos_of_ne L hd hij
        by_cases hkd : k ≤ st.d
        · have h1 : k ≤ st.d + 1 := by omega
          have h3 : ¬ (k = st.d + 1) := by omega
          simp [hkd, h1, h3]
        · by_cases hkd1 : k = st.d + 1
          · subst hkd1
            have := sigma_pos L hd
            have hne : (sigma L).get i j ≠ 0 := by omega
            simp [hne]
          · have h1 : ¬ k ≤ st.d + 1 := by omega
            simp [hkd, h1, hkd1]

/-- postcondition of the loop: the level reached exceeds every finite distance -/
theorem binLoop_spec (hbin : ∀ i j, L.get i j ≤ 1) (fuel : ℕ) {st : BinSt n} (h : BinInv L st)
    (hd : st.d ≤ n + 1) (hfuel : n + 2 ≤ fuel + st.d) :
    ∃ st', binLoop L fuel st = .ok st' ∧ BinInv L st' ∧
      ∀ i j k, (dist L).get i j = some k → k < st'.d := by
  induction fuel generalizing st with
  | zero => omega
  | succ fuel ih =>
    unfold binLoop
    by_cases hany : anyNZ st.NSPd = true
    · simp only [hany, Bool.not_true, Bool.false_eq_true, if_false]
      obtain ⟨i, j, hne⟩ := anyNZ_true hany
      rw [h.nspd] at hne
      have hdist : (dist L).get i j = some st.d := by
        by_contra hc
        rw [if_neg (fun hh => hc hh.2)] at hne; exact hne rfl
      have hlt := dist_lt_n hbin hdist
      exact ih (binStep_inv hbin h) (by simp only; omega) (by simp only; omega)
    · have hfalse : anyNZ st.NSPd = false := by simpa using hany
      simp only [hfalse, Bool.not_false, if_true]
      refine ⟨st, rfl, h, ?_⟩
      intro i j k hk
      by_contra hge
      have hge' : st.d ≤ k := by omega
      obtain ⟨x, hx⟩ := exists_at_level hbin hk hge'
      have hz := anyNZ_false hfalse i x
      rw [h.nspd] at hz
      have hix : i ≠ x := by
        rintro rfl
        rw [dist_self] at hx; simp only [Option.some.injEq] at hx
        have := h.dpos; omega
      rw [if_pos ⟨hix, hx⟩] at hz
      have := sigma_pos L hx
      omega

end Bct.Between
