import BctVerif.Lemmas.MeasuresPermList
import BctVerif.Model.Core
/-!
# k-core / s-core / k-coreness (executable models of the C15 slice) are equivariant
(result matrix, `kn`, coreness vector; `peelorder`/`peellevel` list node indices in ascending order and are not
per-node data, so they are outside the statement)
-/
namespace Bct.Measures
open Bct Bct.Core

variable {n : Nat} (σ : Equiv.Perm (Fin n))

theorem zeroOut_perm {α : Type} (z : α) (M : AMat α n) (dead : Vector Bool n) :
    zeroOut z (permA σ M) (Vector.ofFn fun v => dead[σ v]) = permA σ (zeroOut z M dead) := by
  apply AMat.ext_get; intro i j; simp [zeroOut]

theorem countPos_perm' {α β : Type} (deg : AMat α n → Fin n → β) (hdeg : ∀ M v, deg (permA σ M) v = deg M (σ v))
    (pos : β → Bool) (M : AMat α n) : Core.countPos deg pos (permA σ M) = Core.countPos deg pos M := by
  unfold Core.countPos
  simp only [hdeg]
  exact filter_length_finRange_perm σ (fun v => pos (deg M v))

theorem peelLoop_perm {α β : Type} (z : α) (deg : AMat α n → Fin n → β)
    (hdeg : ∀ M v, deg (permA σ M) v = deg M (σ v)) (small pos : β → Bool) (fuel : Nat) (M : AMat α n)
    (it it' : Nat) (ord ord' : List (List (Fin n))) (lev lev' : List (List Nat)) :
    (peelLoop z deg small pos fuel (permA σ M) it ord lev).M = permA σ (peelLoop z deg small pos fuel M it' ord' lev').M ∧
      (peelLoop z deg small pos fuel (permA σ M) it ord lev).kn = (peelLoop z deg small pos fuel M it' ord' lev').kn := by
  induction fuel generalizing M it it' ord ord' lev lev' with
  | zero => simp [peelLoop, countPos_perm' σ deg hdeg]
  | succ f ih =>
    simp only [peelLoop, hdeg]
    have hz : zeroOut z (permA σ M) (Vector.ofFn fun v => small (deg M (σ v))) =
        permA σ (zeroOut z M (Vector.ofFn fun v => small (deg M v))) := by
      apply AMat.ext_get; intro i j; simp [zeroOut]
    have he : ((List.finRange n).filter fun v => (Vector.ofFn fun v => small (deg M (σ v)) : Vector Bool n)[v]).isEmpty =
        ((List.finRange n).filter fun v => (Vector.ofFn fun v => small (deg M v) : Vector Bool n)[v]).isEmpty := by
      have := filter_isEmpty_finRange_perm σ (fun v => small (deg M v))
      simpa using this
    rw [he]
    split
    · simp [countPos_perm' σ deg hdeg]
    · rw [hz]
      exact ih _ _ _ _ _ _ _

theorem degBu_perm (M : AMat Int n) (v : Fin n) : degBu (permA σ M) v = degBu M (σ v) := by
  unfold degBu; exact fsum_congr_perm σ _ _ (fun _ => by simp)

theorem degBd_perm (M : AMat Int n) (v : Fin n) : degBd (permA σ M) v = degBd M (σ v) := by
  unfold degBd; exact fsum_congr_perm σ _ _ (fun _ => by simp)

theorem strWu_perm (M : AMat Rat n) (v : Fin n) : strWu (permA σ M) v = strWu M (σ v) := by
  unfold strWu; exact fsum_congr_perm σ _ _ (fun _ => by simp)

theorem core_kcoreBu_perm (A : AMat Int n) (k : Nat) :
    (Core.kcoreBu (permA σ A) k).M = permA σ (Core.kcoreBu A k).M ∧ (Core.kcoreBu (permA σ A) k).kn = (Core.kcoreBu A k).kn :=
  peelLoop_perm σ 0 degBu (degBu_perm σ) _ _ n A 0 0 [] [] [] []

theorem core_kcoreBd_perm (A : AMat Int n) (k : Nat) :
    (Core.kcoreBd (permA σ A) k).M = permA σ (Core.kcoreBd A k).M ∧ (Core.kcoreBd (permA σ A) k).kn = (Core.kcoreBd A k).kn :=
  peelLoop_perm σ 0 degBd (degBd_perm σ) _ _ n A 0 0 [] [] [] []

theorem core_scoreWu_perm (A : AMat Rat n) (s : Rat) :
    (Core.scoreWu (permA σ A) s).M = permA σ (Core.scoreWu A s).M ∧ (Core.scoreWu (permA σ A) s).kn = (Core.scoreWu A s).kn :=
  peelLoop_perm σ 0 strWu (strWu_perm σ) _ _ n A 0 0 [] [] [] []

theorem core_colSum_perm (M : AMat Int n) (v : Fin n) : Core.colSum (permA σ M) v = Core.colSum M (σ v) := by
  unfold Core.colSum; exact fsum_congr_perm σ _ _ (fun _ => by simp)

theorem corenessOf_perm (kc kc' : Nat → Out Int n)
    (h : ∀ k, (kc' k).M = permA σ (kc k).M ∧ (kc' k).kn = (kc k).kn) :
    (∀ v, (corenessOf kc').1 v = (corenessOf kc).1 (σ v)) ∧ (corenessOf kc').2 = (corenessOf kc).2 := by
  constructor
  · intro v
    simp only [corenessOf]
    congr 1
    funext k
    split
    · simp [(h k).1, core_colSum_perm]
    · rfl
  · simp only [corenessOf]
    apply List.map_congr_left
    intro k _
    simp [(h k.val).2]

theorem core_rowSum_perm (M : AMat Int n) (v : Fin n) : Core.rowSum (permA σ M) v = Core.rowSum M (σ v) := by
  unfold Core.rowSum; exact fsum_congr_perm σ _ _ (fun _ => by simp)

/-- the repaired `kcoreness_centrality_bd` loop (`2n-1` values of `k`, membership by column sum + row sum) -/
theorem corenessOfBd_perm (kc kc' : Nat → Out Int n)
    (h : ∀ k, (kc' k).M = permA σ (kc k).M ∧ (kc' k).kn = (kc k).kn) :
    (∀ v, (corenessOfBd kc').1 v = (corenessOfBd kc).1 (σ v)) ∧ (corenessOfBd kc').2 = (corenessOfBd kc).2 := by
  constructor
  · intro v
    simp only [corenessOfBd]
    congr 1
    funext k
    split
    · simp [(h k).1, core_colSum_perm, core_rowSum_perm]
    · rfl
  · simp only [corenessOfBd]
    apply List.map_congr_left
    intro k _
    simp [(h k.val).2]

theorem core_kcorenessBd_perm (A : AMat Int n) :
    (∀ v, (Core.kcorenessBd (permA σ A)).1 v = (Core.kcorenessBd A).1 (σ v)) ∧
      (Core.kcorenessBd (permA σ A)).2 = (Core.kcorenessBd A).2 :=
  corenessOfBd_perm σ _ _ (fun k => core_kcoreBd_perm σ A k)

theorem prepBu_perm (A : AMat Int n) : prepBu (permA σ A) = permA σ (prepBu A) := by
  unfold prepBu
  have hc : ((List.finRange n).any fun i => (List.finRange n).any fun j => decide ((permA σ A).get i j + (permA σ A).get j i > 1)) =
      (List.finRange n).any fun i => (List.finRange n).any fun j => decide (A.get i j + A.get j i > 1) :=
    fany2_congr_perm σ _ _ (fun i j => by simp)
  rw [hc]
  split
  · apply AMat.ext_get; intro i j; simp
  · rfl

theorem core_kcorenessBu_perm (A : AMat Int n) :
    (∀ v, (Core.kcorenessBu (permA σ A)).1 v = (Core.kcorenessBu A).1 (σ v)) ∧
      (Core.kcorenessBu (permA σ A)).2 = (Core.kcorenessBu A).2 := by
  unfold Core.kcorenessBu
  rw [prepBu_perm]
  exact corenessOf_perm σ _ _ (fun k => core_kcoreBu_perm σ (prepBu A) k)

end Bct.Measures
