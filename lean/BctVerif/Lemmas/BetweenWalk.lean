import BctVerif.Model.Between
import Mathlib.Tactic
import Mathlib.Data.Fintype.Card
import Mathlib.Data.List.Nodup

/-!
# Walks in a connection-length matrix (C08)

A walk from `s` is the list of the vertices visited *after* `s`.  `L.get u w = 0` means "no
connection", otherwise `L.get u w` is the (positive) length of the connection `u → w`.
-/
namespace Bct.Between
open Bct

variable {n : ℕ} (L : AMat Nat n)

/-- `p` is a walk starting at `s`: every step uses an existing connection -/
def IsWalk : Fin n → List (Fin n) → Prop
  | _, [] => True
  | s, v :: p => L.get s v ≠ 0 ∧ IsWalk v p

/-- total length of the walk -/
def wlen : Fin n → List (Fin n) → ℕ
  | _, [] => 0
  | s, v :: p => L.get s v + wlen v p

/-- last vertex of the walk -/
def wend : Fin n → List (Fin n) → Fin n
  | s, [] => s
  | _, v :: p => wend v p

@[simp] theorem isWalk_nil (s : Fin n) : IsWalk L s [] := trivial
@[simp] theorem isWalk_cons (s v : Fin n) (p) : IsWalk L s (v :: p) ↔ L.get s v ≠ 0 ∧ IsWalk L v p := Iff.rfl
@[simp] theorem wlen_nil (s : Fin n) : wlen L s [] = 0 := rfl
@[simp] theorem wlen_cons (s v : Fin n) (p) : wlen L s (v :: p) = L.get s v + wlen L v p := rfl
@[simp] theorem wend_nil (s : Fin n) : wend s [] = s := rfl
@[simp] theorem wend_cons (s v : Fin n) (p) : wend s (v :: p) = wend v p := rfl

theorem wend_append (s : Fin n) (p q : List (Fin n)) : wend s (p ++ q) = wend (wend s p) q := by
  induction p generalizing s with
  | nil => rfl
  | cons v p ih => simp [ih]

theorem isWalk_append (s : Fin n) (p q : List (Fin n)) :
    IsWalk L s (p ++ q) ↔ IsWalk L s p ∧ IsWalk L (wend s p) q := by
  induction p generalizing s with
  | nil => simp
  | cons v p ih => simp [ih, and_assoc]

theorem wlen_append (s : Fin n) (p q : List (Fin n)) :
    wlen L s (p ++ q) = wlen L s p + wlen L (wend s p) q := by
  induction p generalizing s with
  | nil => simp
  | cons v p ih => simp [ih, Nat.add_assoc]

theorem wend_mem (s : Fin n) (p : List (Fin n)) : wend s p ∈ s :: p := by
  induction p generalizing s with
  | nil => simp
  | cons v p ih => have := ih v; simp only [wend_cons]; exact List.mem_cons_of_mem _ this

theorem wend_mem_of_ne_nil (s : Fin n) (p : List (Fin n)) (h : p ≠ []) : wend s p ∈ p := by
  cases p with
  | nil => exact absurd rfl h
  | cons v p => exact wend_mem v p

theorem length_le_wlen {s : Fin n} {p : List (Fin n)} (h : IsWalk L s p) : p.length ≤ wlen L s p := by
  induction p generalizing s with
  | nil => simp
  | cons v p ih =>
    obtain ⟨h1, h2⟩ := h
    have := ih h2
    simp only [List.length_cons, wlen_cons]
    omega

theorem eq_nil_of_wlen_eq_zero {s : Fin n} {p : List (Fin n)} (h : IsWalk L s p) (h0 : wlen L s p = 0) :
    p = [] := by
  have := length_le_wlen L h
  exact List.eq_nil_of_length_eq_zero (by omega)

/-- splitting a walk at an occurrence of a vertex -/
theorem split_at {v : Fin n} {p : List (Fin n)} {a b : List (Fin n)} {x : Fin n}
    (hw : IsWalk L v p) (h : v :: p = a ++ x :: b) :
    IsWalk L x b ∧ wend x b = wend v p ∧ wlen L x b ≤ wlen L v p := by
  cases a with
  | nil =>
    simp only [List.nil_append, List.cons.injEq] at h
    obtain ⟨rfl, rfl⟩ := h
    exact ⟨hw, rfl, le_refl _⟩
  | cons y a' =>
    simp only [List.cons_append, List.cons.injEq] at h
    obtain ⟨rfl, rfl⟩ := h
    have e : a' ++ x :: b = (a' ++ [x]) ++ b := by simp
    rw [e] at hw ⊢
    have hx : wend v (a' ++ [x]) = x := by rw [wend_append]; rfl
    rw [isWalk_append, hx] at hw
    refine ⟨hw.2, ?_, ?_⟩
    · rw [wend_append, hx]
    · rw [wlen_append, hx]; omega

/-- pigeonhole: every walk can be shortcut to one without repeated vertices, ending at the same
vertex and no longer -/
theorem exists_nodup {s : Fin n} {p : List (Fin n)} (h : IsWalk L s p) :
    ∃ q, IsWalk L s q ∧ wend s q = wend s p ∧ wlen L s q ≤ wlen L s p ∧ (s :: q).Nodup := by
  induction p generalizing s with
  | nil => exact ⟨[], trivial, rfl, le_refl _, by simp⟩
  | cons v p ih =>
    obtain ⟨h1, h2⟩ := h
    obtain ⟨q, hq, he, hl, hn⟩ := ih h2
    by_cases hs : s ∈ v :: q
    · obtain ⟨a, b, hab⟩ := List.append_of_mem hs
      obtain ⟨hb, hbe, hbl⟩ := split_at L hq hab
      refine ⟨b, hb, ?_, ?_, ?_⟩
      · simp only [wend_cons]; rw [hbe, he]
      · simp only [wlen_cons]; omega
      · rw [hab] at hn
        exact (List.nodup_append.1 hn).2.1
    · refine ⟨v :: q, ⟨h1, hq⟩, by simpa using he, by simp only [wlen_cons]; omega, ?_⟩
      exact List.nodup_cons.2 ⟨hs, hn⟩

theorem length_lt_of_nodup {s : Fin n} {q : List (Fin n)} (h : (s :: q).Nodup) : q.length < n := by
  have := h.length_le_card
  simp only [List.length_cons, Fintype.card_fin] at this
  omega

end Bct.Between
