import BctVerif.Lemmas.MeasuresBasic
import Mathlib.Data.List.FinRange
import Mathlib.Data.List.Perm.Basic
/-!
# Folds, counts and filtered sums over `List.finRange n` under a renumbering
(tools for the models of the other slices, which use `foldl` / `filter` / `countP` instead of `fsum`)
-/
namespace Bct.Measures
open Bct

variable {n : Nat} (σ : Equiv.Perm (Fin n))

/-- a fold with an order-insensitive step may be re-indexed by a permutation -/
theorem foldl_finRange_perm {β : Type} (f : β → Fin n → β)
    (comm : ∀ z x y, f (f z x) y = f (f z y) x) (init : β) :
    (List.finRange n).foldl (fun acc w => f acc (σ w)) init = (List.finRange n).foldl f init := by
  have h1 : (List.finRange n).foldl (fun acc w => f acc (σ w)) init = ((List.finRange n).map σ).foldl f init := by
    rw [List.foldl_map]
  rw [h1]
  exact List.Perm.foldl_eq' (Equiv.Perm.map_finRange_perm σ) (fun x _ y _ z => comm z x y) init

theorem countP_finRange_perm (p : Fin n → Bool) :
    (List.finRange n).countP (fun w => p (σ w)) = (List.finRange n).countP p := by
  have h1 : (List.finRange n).countP (fun w => p (σ w)) = ((List.finRange n).map σ).countP p := by
    rw [List.countP_map]; rfl
  rw [h1]
  exact List.Perm.countP_eq p (Equiv.Perm.map_finRange_perm σ)

theorem filter_length_finRange_perm (p : Fin n → Bool) :
    ((List.finRange n).filter fun w => p (σ w)).length = ((List.finRange n).filter p).length := by
  rw [← List.countP_eq_length_filter, ← List.countP_eq_length_filter]
  exact countP_finRange_perm σ p

theorem filter_isEmpty_finRange_perm (p : Fin n → Bool) :
    ((List.finRange n).filter fun w => p (σ w)).isEmpty = ((List.finRange n).filter p).isEmpty := by
  have := filter_length_finRange_perm σ p
  rw [Bool.eq_iff_iff, List.isEmpty_iff_length_eq_zero, List.isEmpty_iff_length_eq_zero, this]

/-- `sum` over a filtered list = sum of the masked function -/
theorem sum_map_filter {α : Type} [AddCommMonoid α] (l : List (Fin n)) (p : Fin n → Bool) (f : Fin n → α) :
    ((l.filter p).map f).sum = (l.map fun x => if p x then f x else 0).sum := by
  induction l with
  | nil => simp
  | cons a l ih =>
    by_cases h : p a = true
    · simp [h, ih]
    · simp [h, ih]

theorem fsum_filter {α : Type} [AddCommMonoid α] (p : Fin n → Bool) (f : Fin n → α) :
    (((List.finRange n).filter p).map f).sum = fsum fun x => if p x then f x else 0 :=
  sum_map_filter _ p f

theorem filter_length_eq_fsum (p : Fin n → Bool) :
    ((List.finRange n).filter p).length = fsum fun x => if p x then 1 else 0 := by
  have h := fsum_filter (α := Nat) p (fun _ => 1)
  rw [← h]
  simp

theorem any_finRange_perm (p : Fin n → Bool) :
    ((List.finRange n).any fun w => p (σ w)) = (List.finRange n).any p := fany_congr_perm σ _ _ (fun _ => rfl)

theorem all_finRange_perm (p : Fin n → Bool) :
    ((List.finRange n).all fun w => p (σ w)) = (List.finRange n).all p := by
  rw [Bool.eq_iff_iff, List.all_eq_true, List.all_eq_true]
  constructor
  · intro h x _
    have := h (σ.symm x) (List.mem_finRange _)
    simpa using this
  · intro h x _; exact h (σ x) (List.mem_finRange _)

end Bct.Measures
