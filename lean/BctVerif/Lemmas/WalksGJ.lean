import BctVerif.Lemmas.Walks
import Mathlib.LinearAlgebra.Matrix.NonsingularInverse
import Mathlib.LinearAlgebra.Matrix.ToLinearEquiv
/-!
# Completeness of the model's Gauss–Jordan elimination

If `det A ≠ 0` then `solveGJ A B` returns some `X` and `A · X = B`.  (Soundness is never needed elsewhere — every use of the
elimination is re-checked by a decidable certificate — but completeness is what makes the routines *total* on their domain.)
-/
open Finset Matrix

namespace Bct.Walks

variable {n m : ℕ}

/-- the augmented matrix as a Mathlib matrix -/
def augMat (M : Aug n m) : Matrix (Fin n) (Fin (n + m)) ℚ := Matrix.of fun r j => M[r][j]

@[simp] theorem augMat_apply (M : Aug n m) (r : Fin n) (j : Fin (n + m)) : augMat M r j = M[r][j] := rfl

/-- what one elimination step does, entrywise -/
theorem elimCol_spec (M M' : Aug n m) (c : Fin n) (h : elimCol M c = some M') :
    ∃ p : Fin n, c.val ≤ p.val ∧ M[p][Fin.castAdd m c] ≠ 0 ∧ ∀ (r : Fin n) (j : Fin (n + m)),
      M'[r][j] = if r = c then M[p][j] / M[p][Fin.castAdd m c]
        else (if r = p then M[c][j] else M[r][j])
          - (if r = p then M[c][Fin.castAdd m c] else M[r][Fin.castAdd m c]) * (M[p][j] / M[p][Fin.castAdd m c]) := by
  unfold elimCol at h
  simp only [Option.bind_eq_bind, Option.bind_eq_some_iff] at h
  obtain ⟨p, hp, hM'⟩ := h
  have hpp := List.find?_some hp
  simp only [Bool.and_eq_true, decide_eq_true_eq, bne_iff_ne, ne_eq] at hpp
  refine ⟨p, hpp.1, hpp.2, fun r j => ?_⟩
  simp only [Option.some.injEq] at hM'
  rw [← hM']
  by_cases hrc : r = c
  · subst hrc; simp
  · have hcr : ¬ (c : ℕ) = (r : ℕ) := fun h => hrc (Fin.ext h.symm)
    by_cases hrp : r = p
    · subst hrp
      simp [hrc, hcr, Vector.getElem_set]
    · have hpr : ¬ (p : ℕ) = (r : ℕ) := fun h => hrp (Fin.ext h.symm)
      simp [hrc, hrp, hcr, hpr, Vector.getElem_set]

theorem elimCol_some (M : Aug n m) (c : Fin n) (h : ∃ r : Fin n, c.val ≤ r.val ∧ M[r][Fin.castAdd m c] ≠ 0) :
    ∃ M', elimCol M c = some M' := by
  obtain ⟨r, hr1, hr2⟩ := h
  cases hf : (List.finRange n).find? fun r => decide (c.val ≤ r.val) && (M[r][Fin.castAdd m c] != 0) with
  | none =>
    rw [List.find?_eq_none] at hf
    have := hf r (List.mem_finRange r)
    simp [hr1] at this
    exact absurd this hr2
  | some p =>
    unfold elimCol
    simp only [Option.bind_eq_bind, hf]
    exact ⟨_, rfl⟩

/-- invariant after the first `c` columns have been eliminated: they are unit columns, and the current augmented matrix
and the initial one are left multiples of each other -/
structure GJInv (A0 : Matrix (Fin n) (Fin (n + m)) ℚ) (M : Aug n m) (c : ℕ) : Prop where
  unitCols : ∀ j : Fin n, j.val < c → ∀ r : Fin n, M[r][Fin.castAdd m j] = if r = j then 1 else 0
  fwd : ∃ T : Matrix (Fin n) (Fin n) ℚ, augMat M = T * A0
  bwd : ∃ T' : Matrix (Fin n) (Fin n) ℚ, A0 = T' * augMat M

theorem gj_step (A0 : Matrix (Fin n) (Fin (n + m)) ℚ) (M M' : Aug n m) (c : Fin n)
    (hinv : GJInv A0 M c.val) (h : elimCol M c = some M') : GJInv A0 M' (c.val + 1) := by
  obtain ⟨p, hcp, hpiv, hM'⟩ := elimCol_spec M M' c h
  obtain ⟨T, hT⟩ := hinv.fwd
  obtain ⟨T', hT'⟩ := hinv.bwd
  refine ⟨?_, ?_, ?_⟩
  · -- unit columns
    intro j hj r
    rw [hM' r]
    rcases Nat.lt_succ_iff_lt_or_eq.mp hj with hlt | heq
    · -- an earlier column: the pivot row and row c have a zero there
      have hpj : M[p][Fin.castAdd m j] = 0 := by
        rw [hinv.unitCols j hlt p, if_neg]; intro hpj; rw [hpj] at hcp; omega
      have hcj : M[c][Fin.castAdd m j] = 0 := by
        rw [hinv.unitCols j hlt c, if_neg]; intro hcj; rw [hcj] at hlt; omega
      by_cases hrc : r = c
      · have hne : ¬ r = j := fun h => by rw [hrc] at h; rw [h] at hlt; omega
        rw [if_pos hrc, hpj, zero_div, if_neg hne]
      · by_cases hrp : r = p
        · have hne : ¬ r = j := fun h => by rw [hrp] at h; rw [h] at hcp; omega
          rw [if_neg hrc, if_pos hrp, if_pos hrp, hcj, hpj, zero_div, mul_zero, sub_zero, if_neg hne]
        · rw [if_neg hrc, if_neg hrp, if_neg hrp, hpj, zero_div, mul_zero, sub_zero, hinv.unitCols j hlt r]
    · -- the column just eliminated
      have hjc : j = c := Fin.ext heq
      rw [hjc]
      by_cases hrc : r = c
      · rw [if_pos hrc, if_pos hrc, div_self hpiv]
      · by_cases hrp : r = p
        · rw [if_neg hrc, if_pos hrp, div_self hpiv, mul_one, sub_self, if_neg hrc]
        · rw [if_neg hrc, if_neg hrp, div_self hpiv, mul_one, sub_self, if_neg hrc]
  · -- forward: M' = E * M
    refine ⟨(Matrix.of fun r s =>
      if r = c then (if s = p then 1 / M[p][Fin.castAdd m c] else 0)
      else (if s = (if r = p then c else r) then 1 else 0)
        - (if r = p then M[c][Fin.castAdd m c] else M[r][Fin.castAdd m c]) / M[p][Fin.castAdd m c] * (if s = p then 1 else 0)) * T, ?_⟩
    rw [Matrix.mul_assoc, ← hT]
    ext r j
    rw [augMat_apply, hM' r j, Matrix.mul_apply]
    by_cases hrc : r = c
    · simp [hrc, div_eq_inv_mul]
    · simp only [Matrix.of_apply, if_neg hrc, augMat_apply, sub_mul, Finset.sum_sub_distrib, ite_mul, one_mul, zero_mul,
        mul_ite, mul_one, mul_zero, Finset.sum_ite_eq', Finset.mem_univ, if_true]
      by_cases hrp : r = p
      · simp [hrp]; ring
      · simp [hrp]; ring
  · -- backward: M = E' * M'
    refine ⟨T' * (Matrix.of fun s t =>
      if s = p then (if t = c then M[p][Fin.castAdd m c] else 0)
      else (if t = (if s = c then p else s) then 1 else 0) + M[s][Fin.castAdd m c] * (if t = c then 1 else 0)), ?_⟩
    rw [Matrix.mul_assoc]
    rw [hT']
    congr 1
    ext s j
    rw [augMat_apply, Matrix.mul_apply]
    simp only [Matrix.of_apply, augMat_apply]
    by_cases hsp : s = p
    · simp only [hsp, if_true, ite_mul, zero_mul, Finset.sum_ite_eq', Finset.mem_univ]
      rw [hM' c j]; simp only [if_true]
      field_simp
    · simp only [if_neg hsp, add_mul, Finset.sum_add_distrib, ite_mul, one_mul, zero_mul, mul_ite, mul_one, mul_zero,
        Finset.sum_ite_eq', Finset.mem_univ, if_true]
      rw [hM' c j]; simp only [if_true]
      by_cases hsc : s = c
      · have hpc : p ≠ c := fun h => hsp (by rw [hsc, h])
        rw [if_pos hsc, hM' p j, if_neg hpc]; simp only [if_true]
        subst hsc; ring
      · rw [if_neg hsc, hM' s j, if_neg hsc, if_neg hsp, if_neg hsp]; ring

/-- left `n × n` block -/
def leftBlock (X : Matrix (Fin n) (Fin (n + m)) ℚ) : Matrix (Fin n) (Fin n) ℚ := fun r k => X r (Fin.castAdd m k)
/-- right `n × m` block -/
def rightBlock (X : Matrix (Fin n) (Fin (n + m)) ℚ) : Matrix (Fin n) (Fin m) ℚ := fun r k => X r (Fin.natAdd n k)

theorem leftBlock_mul (T : Matrix (Fin n) (Fin n) ℚ) (X : Matrix (Fin n) (Fin (n + m)) ℚ) :
    leftBlock (T * X) = T * leftBlock X := by
  ext r k; simp [leftBlock, Matrix.mul_apply]

theorem rightBlock_mul (T : Matrix (Fin n) (Fin n) ℚ) (X : Matrix (Fin n) (Fin (n + m)) ℚ) :
    rightBlock (T * X) = T * rightBlock X := by
  ext r k; simp [rightBlock, Matrix.mul_apply]

/-- with an invertible left block a pivot is always found -/
theorem gj_pivot (A0 : Matrix (Fin n) (Fin (n + m)) ℚ) (hdet : (leftBlock A0).det ≠ 0) (M : Aug n m) (c : Fin n)
    (hinv : GJInv A0 M c.val) : ∃ r : Fin n, c.val ≤ r.val ∧ M[r][Fin.castAdd m c] ≠ 0 := by
  by_contra hno
  push Not at hno
  obtain ⟨T', hT'⟩ := hinv.bwd
  have hL : leftBlock A0 = T' * leftBlock (augMat M) := by rw [hT', leftBlock_mul]
  have hdetM : (leftBlock (augMat M)).det ≠ 0 := by
    intro h0; apply hdet; rw [hL, Matrix.det_mul, h0, mul_zero]
  apply hdetM
  rw [← Matrix.exists_mulVec_eq_zero_iff]
  refine ⟨fun k => if k = c then 1 else if k.val < c.val then - M[k][Fin.castAdd m c] else 0, ?_, ?_⟩
  · intro h0
    have := congrFun h0 c
    simp at this
  · ext r
    simp only [Matrix.mulVec, dotProduct, leftBlock, augMat_apply, Pi.zero_apply]
    have hterm : ∀ k : Fin n, M[r][Fin.castAdd m k] *
        (if k = c then 1 else if k.val < c.val then - M[k][Fin.castAdd m c] else 0)
        = (if k = c then M[r][Fin.castAdd m c] else 0)
          + (if k = r then (if r.val < c.val then - M[r][Fin.castAdd m c] else 0) else 0) := by
      intro k
      by_cases hkc : k = c
      · subst hkc
        by_cases hkr : k = r
        · subst hkr; simp
        · simp [hkr]
      · by_cases hlt : k.val < c.val
        · rw [if_neg hkc, if_pos hlt, if_neg hkc, zero_add, hinv.unitCols k hlt r]
          by_cases hkr : k = r
          · subst hkr; simp [hlt]
          · have : ¬ r = k := fun h => hkr h.symm
            simp [hkr, this]
        · rw [if_neg hkc, if_neg hlt, mul_zero, if_neg hkc, zero_add]
          by_cases hkr : k = r
          · subst hkr; simp [hlt]
          · simp [hkr]
    simp only [hterm, Finset.sum_add_distrib, Finset.sum_ite_eq', Finset.mem_univ, if_true]
    by_cases hlt : r.val < c.val
    · simp [hlt]
    · simp only [hlt, if_false, add_zero]
      exact hno r (not_lt.mp hlt)

/-- the whole elimination succeeds and keeps the invariant -/
theorem gj_fold (A0 : Matrix (Fin n) (Fin (n + m)) ℚ) (hdet : (leftBlock A0).det ≠ 0) :
    ∀ (d k : ℕ) (M : Aug n m), k + d = n → GJInv A0 M k →
      ∃ Mf, ((List.finRange n).drop k).foldlM elimCol M = some Mf ∧ GJInv A0 Mf n := by
  intro d
  induction d with
  | zero =>
    intro k M hk hinv
    have : k = n := by omega
    subst this
    exact ⟨M, by rw [List.drop_of_length_le (by simp)]; rfl, hinv⟩
  | succ d ih =>
    intro k M hk hinv
    have hkn : k < n := by omega
    have hdrop : (List.finRange n).drop k = (⟨k, hkn⟩ : Fin n) :: (List.finRange n).drop (k + 1) := by
      rw [List.drop_eq_getElem_cons (by simpa using hkn)]
      simp
    obtain ⟨M', hM'⟩ := elimCol_some M ⟨k, hkn⟩ (gj_pivot A0 hdet M ⟨k, hkn⟩ hinv)
    have hinv' := gj_step A0 M M' ⟨k, hkn⟩ hinv hM'
    obtain ⟨Mf, h1, h2⟩ := ih (k + 1) M' (by omega) hinv'
    refine ⟨Mf, ?_, h2⟩
    rw [hdrop, List.foldlM_cons, hM']
    exact h1

/-- **completeness**: an invertible system is solved, and the result satisfies it -/
theorem solveGJ_complete (A : QMat n) (B : Vector (Vector Rat m) n) (hdet : (toMat A).det ≠ 0) :
    ∃ X, solveGJ A B = some X ∧ ∀ (i : Fin n) (j : Fin m), ∑ k : Fin n, A.get i k * X[k][j] = B[i][j] := by
  set aug : Aug n m := Vector.ofFn fun i => A[i] ++ B[i] with haug
  have hleft : leftBlock (augMat aug) = toMat A := by
    ext r k
    simp [leftBlock, haug, AMat.get]
  have hright : ∀ (r : Fin n) (j : Fin m), rightBlock (augMat aug) r j = B[r][j] := by
    intro r j
    simp [rightBlock, haug]
  have hinv0 : GJInv (augMat aug) aug 0 :=
    ⟨fun j hj => absurd hj (Nat.not_lt_zero _), ⟨1, by rw [Matrix.one_mul]⟩, ⟨1, by rw [Matrix.one_mul]⟩⟩
  obtain ⟨Mf, hfold, hfin⟩ := gj_fold (augMat aug) (by rw [hleft]; exact hdet) n 0 aug (by omega) hinv0
  rw [List.drop_zero] at hfold
  refine ⟨Vector.ofFn fun i => Vector.ofFn fun j => Mf[i][Fin.natAdd n j], ?_, ?_⟩
  · unfold solveGJ
    simp only [Option.bind_eq_bind, ← haug, hfold, Option.bind_some]
  · obtain ⟨T, hT⟩ := hfin.fwd
    have hL1 : leftBlock (augMat Mf) = 1 := by
      ext r k
      simp only [leftBlock, augMat_apply, Matrix.one_apply]
      exact hfin.unitCols k k.isLt r
    have hTA : T * toMat A = 1 := by rw [← hleft, ← leftBlock_mul, ← hT, hL1]
    have hAT : toMat A * T = 1 := mul_eq_one_comm.mp hTA
    have hR : rightBlock (augMat Mf) = T * rightBlock (augMat aug) := by rw [hT, rightBlock_mul]
    intro i j
    have : (toMat A * rightBlock (augMat Mf)) i j = rightBlock (augMat aug) i j := by
      rw [hR, ← Matrix.mul_assoc, hAT, Matrix.one_mul]
    rw [hright] at this
    rw [← this, Matrix.mul_apply]
    refine Finset.sum_congr rfl (fun k _ => ?_)
    simp [rightBlock]

/-- vector version: the certificate `solves` holds for the returned vector -/
theorem solveVec_complete (A : QMat n) (b : QVec n) (hdet : (toMat A).det ≠ 0) :
    ∃ x, solveVec A b = some x ∧ solves A x b = true := by
  obtain ⟨X, hX, hsol⟩ := solveGJ_complete (m := 1) A (Vector.ofFn fun i => Vector.ofFn fun _ => b[i]) hdet
  refine ⟨Vector.ofFn fun i => X[i][(0 : Fin 1)], ?_, ?_⟩
  · unfold solveVec
    simp only [Option.bind_eq_bind, hX, Option.bind_some]
  · rw [solves_iff]
    intro i
    have := hsol i 0
    simpa using this

end Bct.Walks
