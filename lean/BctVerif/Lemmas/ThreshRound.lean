import Mathlib.Data.Rat.Floor
import Mathlib.Tactic
import BctVerif.Model.Thresh

/-!
# `teachers_round` : round half away from zero (helper lemmas for C17)
-/
namespace Bct.ThreshLemmas
open Bct Bct.Thresh

theorem floor_eq (x : ℚ) : x.floor = ⌊x⌋ := rfl

theorem ceil_eq (x : ℚ) : x.ceil = ⌈x⌉ := by
  rw [Rat.ceil_eq_neg_floor_neg, floor_eq, ← Int.ceil_neg, neg_neg]

/-- the model's rounding written with Mathlib's floor / ceil -/
theorem teachersRound_def (x : ℚ) :
    teachersRound x = if (x > 0 ∧ x - ⌊x⌋ ≥ 1 / 2) ∨ (x < 0 ∧ x - ⌊x⌋ > 1 / 2) then ⌈x⌉ else ⌊x⌋ := by
  simp only [teachersRound, floor_eq, ceil_eq]

theorem ceil_of_frac_pos {x : ℚ} (h : 0 < x - ⌊x⌋) : ⌈x⌉ = ⌊x⌋ + 1 := by
  rw [Int.ceil_eq_iff]
  have := Int.lt_floor_add_one x
  push_cast
  constructor <;> linarith

theorem teachersRound_nonneg {x : ℚ} (hx : 0 ≤ x) : teachersRound x = ⌊x + 1 / 2⌋ := by
  rw [teachersRound_def]
  have h1 := Int.floor_le x
  have h2 := Int.lt_floor_add_one x
  split_ifs with h
  · rcases h with ⟨_, h⟩ | ⟨h, _⟩
    · rw [ceil_of_frac_pos (by linarith)]
      symm; rw [Int.floor_eq_iff]; push_cast; constructor <;> linarith
    · linarith
  · push Not at h
    symm; rw [Int.floor_eq_iff]
    rcases hx.eq_or_lt with h0 | h0
    · subst h0; simp; norm_num
    · have := h.1 h0
      constructor <;> linarith

theorem teachersRound_neg {x : ℚ} (hx : x < 0) : teachersRound x = -⌊-x + 1 / 2⌋ := by
  rw [teachersRound_def]
  have h1 := Int.floor_le x
  have h2 := Int.lt_floor_add_one x
  split_ifs with h
  · rcases h with ⟨h, _⟩ | ⟨_, h⟩
    · linarith
    · rw [ceil_of_frac_pos (by linarith)]
      rw [eq_neg_iff_add_eq_zero, add_comm, ← eq_neg_iff_add_eq_zero, Int.floor_eq_iff]
      push_cast; constructor <;> linarith
  · push Not at h
    have := h.2 hx
    rw [eq_neg_iff_add_eq_zero, add_comm, ← eq_neg_iff_add_eq_zero, Int.floor_eq_iff]
    push_cast; constructor <;> linarith

end Bct.ThreshLemmas
