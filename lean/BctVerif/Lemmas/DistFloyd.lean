import BctVerif.Lemmas.DistBase

/-!
# Floyd–Warshall as vectorised in `distance_wei_floyd`: invariants at the function level

`FS` is the function view of the model state `FSt`; `stageP` the function view of `fStage`
(`toFS_fStage`).  `PInv` = (`FwInv`: non-negativity, `D ≤ L`, triangle inequality through the processed nodes,
witness walks) ∧ `G` (`Pmat i j` is `j` or a processed node) ∧ `E` (`SPL i j = L i p + SPL p j`,
`hops i j = 1 + hops p j` for `p = Pmat i j`) ∧ `Z` (infinite entries have `hops = 0`).
-/
namespace Bct.Dist
variable {n : ℕ}

/-- one vectorised Floyd stage (all updates read the old matrix) -/
def fwStage (D : LMat n) (k : Fin n) : LMat n := fun i j => min (D i j) (D i k + D k j)

/-- triangle inequality through the processed set is preserved, purely algebraically -/
theorem fwStage_triangle (D : LMat n) (S : Fin n → Prop) (m : Fin n)
    (hnn : ∀ i j, 0 ≤ D i j)
    (hS : ∀ k, S k → ∀ i j, D i j ≤ D i k + D k j) :
    ∀ k, (S k ∨ k = m) → ∀ i j, fwStage D m i j ≤ fwStage D m i k + fwStage D m k j := by
  intro k hk i j
  simp only [fwStage]
  rcases hk with hk | rfl
  · -- old processed node k
    have T := hS k hk
    rw [min_le_iff, ]
    by_cases h1 : D i k ≤ D i m + D m k <;> by_cases h2 : D k j ≤ D k m + D m j
    · left; rw [min_eq_left h1, min_eq_left h2]; exact T i j
    · right; rw [min_eq_left h1, min_eq_right (le_of_not_ge h2)]
      calc D i m + D m j ≤ (D i k + D k m) + D m j := by gcongr; exact T i m
        _ = D i k + (D k m + D m j) := by rw [add_assoc]
    · right; rw [min_eq_right (le_of_not_ge h1), min_eq_left h2]
      calc D i m + D m j ≤ D i m + (D m k + D k j) := by gcongr; exact T m j
        _ = D i m + D m k + D k j := by rw [add_assoc]
    · right; rw [min_eq_right (le_of_not_ge h1), min_eq_right (le_of_not_ge h2)]
      calc D i m + D m j ≤ D i m + (D m k + D k m) + D m j := by
              gcongr
              calc D i m = D i m + 0 := by simp
                _ ≤ D i m + (D m k + D k m) := by gcongr; exact add_nonneg (hnn _ _) (hnn _ _)
        _ = D i m + D m k + (D k m + D m j) := by simp only [add_assoc]
  · -- the node being processed
    rw [min_le_iff]; right
    have e1 : min (D i k) (D i k + D k k) = D i k := min_eq_left (by
      calc D i k = D i k + 0 := by simp
        _ ≤ D i k + D k k := by gcongr; exact hnn _ _)
    have e2 : min (D k j) (D k k + D k j) = D k j := min_eq_left (by
      calc D k j = 0 + D k j := by simp
        _ ≤ D k k + D k j := by gcongr; exact hnn _ _)
    rw [e1, e2]


structure FwInv (L D : LMat n) (S : Fin n → Prop) : Prop where
  nonneg : ∀ i j, 0 ≤ D i j
  le_init : ∀ i j, D i j ≤ L i j
  tri : ∀ k, S k → ∀ i j, D i j ≤ D i k + D k j
  wit : ∀ i j, D i j < ⊤ → ∃ p, walkEnd i p = j ∧ walkLen L i p = D i j

theorem fwInv_init (L : LMat n) (hL : ∀ i j, 0 ≤ L i j) : FwInv L L (fun _ => False) where
  nonneg := hL
  le_init := fun _ _ => le_refl _
  tri := fun _ h => h.elim
  wit := fun i j _ => ⟨[j], by simp [walkEnd], by simp [walkLen]⟩

theorem fwInv_step (L D : LMat n) (S : Fin n → Prop) (m : Fin n) (h : FwInv L D S) :
    FwInv L (fwStage D m) (fun k => S k ∨ k = m) where
  nonneg := by
    intro i j; simp only [fwStage]
    exact le_min (h.nonneg i j) (add_nonneg (h.nonneg _ _) (h.nonneg _ _))
  le_init := by
    intro i j; simp only [fwStage]
    exact le_trans (min_le_left _ _) (h.le_init i j)
  tri := fwStage_triangle D S m h.nonneg h.tri
  wit := by
    intro i j hfin
    simp only [fwStage] at hfin ⊢
    by_cases hle : D i j ≤ D i m + D m j
    · rw [min_eq_left hle] at hfin ⊢; exact h.wit i j hfin
    · have hlt := not_le.mp hle
      rw [min_eq_right (le_of_lt hlt)] at hfin ⊢
      have f1 : D i m < ⊤ := by
        by_contra hh; simp only [not_lt, top_le_iff] at hh; rw [hh] at hfin; simp at hfin
      have f2 : D m j < ⊤ := by
        by_contra hh; simp only [not_lt, top_le_iff] at hh; rw [hh] at hfin; simp at hfin
      obtain ⟨p, hp, lp⟩ := h.wit i m f1
      obtain ⟨q, hq, lq⟩ := h.wit m j f2
      refine ⟨p ++ q, ?_, ?_⟩
      · rw [walkEnd_append, hp, hq]
      · rw [walkLen_append, hp, lp, lq]


structure FS (n : ℕ) where
  D : LMat n
  hops : Fin n → Fin n → ℕ
  P : Fin n → Fin n → Fin n

/-- one vectorised stage of distance_wei_floyd: cells with SPL > i2k+k2j are rewritten, all reads old -/
def stageP (s : FS n) (k : Fin n) : FS n where
  D := fun i j => if s.D i k + s.D k j < s.D i j then s.D i k + s.D k j else s.D i j
  hops := fun i j => if s.D i k + s.D k j < s.D i j then s.hops i k + s.hops k j else s.hops i j
  P := fun i j => if s.D i k + s.D k j < s.D i j then s.P i k else s.P i j

theorem stageP_D (s : FS n) (k : Fin n) : (stageP s k).D = fwStage s.D k := by
  funext i j
  simp only [stageP, fwStage]
  by_cases h : s.D i k + s.D k j < s.D i j
  · rw [if_pos h, min_eq_right (le_of_lt h)]
  · rw [if_neg h, min_eq_left (not_lt.mp h)]

/-- reading conventions at the target: SPL j j and hops j j count as 0 -/
def D0 (s : FS n) (p j : Fin n) : Len := if p = j then 0 else s.D p j
def H0 (s : FS n) (p j : Fin n) : ℕ := if p = j then 0 else s.hops p j

structure PInv (L : LMat n) (s : FS n) (S : Fin n → Prop) : Prop where
  fw : FwInv L s.D S
  G : ∀ i j, s.P i j = j ∨ S (s.P i j)
  E : ∀ i j, i ≠ j → s.D i j < ⊤ →
        s.D i j = L i (s.P i j) + D0 s (s.P i j) j ∧ s.hops i j = 1 + H0 s (s.P i j) j ∧ s.P i j ≠ i

theorem pinv_step (L : LMat n) (hLnn : ∀ i j, 0 ≤ L i j) (s : FS n) (S : Fin n → Prop) (k : Fin n)
    (h : PInv L s S) : PInv L (stageP s k) (fun x => S x ∨ x = k) := by
  have hnn := h.fw.nonneg
  -- after processing p, going first to p is never better than the current value
  have viaP : ∀ i p j, S p → s.D i j ≤ L i p + s.D p j := fun i p j hp =>
    le_trans (h.fw.tri p hp i j) (by gcongr; exact h.fw.le_init i p)
  constructor
  · have := fwInv_step L s.D S k h.fw
    rwa [← stageP_D] at this
  · intro i j
    simp only [stageP]
    split_ifs
    · rcases h.G i k with e | e
      · right; right; exact e
      · right; left; exact e
    · rcases h.G i j with e | e
      · left; exact e
      · right; left; exact e
  · intro i j hij hfin
    have rowk : ∀ y, ¬ (s.D k k + s.D k y < s.D k y) := by
      intro y hlt
      have : s.D k y ≤ s.D k k + s.D k y := by
        calc s.D k y = 0 + s.D k y := by simp
          _ ≤ s.D k k + s.D k y := by gcongr; exact hnn k k
      exact absurd hlt (not_lt.mpr this)
    have colk : ∀ x, ¬ (s.D x k + s.D k k < s.D x k) := by
      intro x hlt
      have : s.D x k ≤ s.D x k + s.D k k := by
        calc s.D x k = s.D x k + 0 := by simp
          _ ≤ s.D x k + s.D k k := by gcongr; exact hnn k k
      exact absurd hlt (not_lt.mpr this)
    by_cases hu : s.D i k + s.D k j < s.D i j
    · -- (i,j) rewritten through k
      have hik : i ≠ k := by rintro rfl; exact rowk j hu
      have hjk : j ≠ k := by rintro rfl; exact colk i hu
      have hDfin : s.D i k + s.D k j < ⊤ := by simpa [stageP, hu] using hfin
      have f1 : s.D i k < ⊤ := by
        by_contra hh; simp only [not_lt, top_le_iff] at hh; rw [hh] at hDfin; simp at hDfin
      have f2 : s.D k j < ⊤ := by
        by_contra hh; simp only [not_lt, top_le_iff] at hh; rw [hh] at hDfin; simp at hDfin
      obtain ⟨eD, eH, ePi⟩ := h.E i k hik f1
      have hG := h.G i k
      simp only [stageP, hu, if_true, D0, H0]
      simp only [D0, H0] at eD eH
      generalize s.P i k = p at eD eH ePi hG ⊢
      refine ⟨?_, ?_, ePi⟩
      · by_cases hpk : p = k
        · -- first hop is k itself
          have : ¬ (k = j) := fun e => hjk e.symm
          subst hpk
          simp only [if_true] at eD
          simp only [this, if_false, rowk j]
          rw [eD]; simp
        · have hSp : S p := by
            rcases hG with e | e
            · exact absurd e hpk
            · exact e
          simp only [hpk, if_false] at eD
          have hpj : p ≠ j := by
            intro e
            have : s.D i j ≤ s.D i k + s.D k j := by
              calc s.D i j ≤ L i j := h.fw.le_init i j
                _ = L i j + 0 := by simp
                _ ≤ L i j + (s.D j k + s.D k j) := by gcongr; exact add_nonneg (hnn _ _) (hnn _ _)
                _ = (L i p + s.D p k) + s.D k j := by rw [e, add_assoc]
                _ = s.D i k + s.D k j := by rw [eD]
            exact absurd hu (not_lt.mpr this)
          have hup : s.D p k + s.D k j < s.D p j := by
            by_contra hno
            have hle := not_lt.mp hno
            have : s.D i j ≤ s.D i k + s.D k j := by
              calc s.D i j ≤ L i p + s.D p j := viaP i p j hSp
                _ ≤ L i p + (s.D p k + s.D k j) := by gcongr
                _ = s.D i k + s.D k j := by rw [eD, add_assoc]
            exact absurd hu (not_lt.mpr this)
          simp only [hpj, if_false, hup, if_true]
          rw [eD, add_assoc]
      · by_cases hpk : p = k
        · have : ¬ (k = j) := fun e => hjk e.symm
          subst hpk
          simp only [if_true] at eH
          simp only [this, if_false, rowk j]
          rw [eH]
        · have hSp : S p := by
            rcases hG with e | e
            · exact absurd e hpk
            · exact e
          simp only [hpk, if_false] at eD
          simp only [hpk, if_false] at eH
          have hpj : p ≠ j := by
            intro e
            have : s.D i j ≤ s.D i k + s.D k j := by
              calc s.D i j ≤ L i j := h.fw.le_init i j
                _ = L i j + 0 := by simp
                _ ≤ L i j + (s.D j k + s.D k j) := by gcongr; exact add_nonneg (hnn _ _) (hnn _ _)
                _ = (L i p + s.D p k) + s.D k j := by rw [e, add_assoc]
                _ = s.D i k + s.D k j := by rw [eD]
            exact absurd hu (not_lt.mpr this)
          have hup : s.D p k + s.D k j < s.D p j := by
            by_contra hno
            have hle := not_lt.mp hno
            have : s.D i j ≤ s.D i k + s.D k j := by
              calc s.D i j ≤ L i p + s.D p j := viaP i p j hSp
                _ ≤ L i p + (s.D p k + s.D k j) := by gcongr
                _ = s.D i k + s.D k j := by rw [eD, add_assoc]
            exact absurd hu (not_lt.mpr this)
          simp only [hpj, if_false, hup, if_true]
          rw [eH, add_assoc]
    · -- (i,j) untouched: then (P i j, j) is untouched as well
      have hfin' : s.D i j < ⊤ := by simpa [stageP, hu] using hfin
      obtain ⟨eD, eH, ePi⟩ := h.E i j hij hfin'
      have hG := h.G i j
      simp only [stageP, hu, if_false, D0, H0]
      simp only [D0, H0] at eD eH
      generalize s.P i j = p at eD eH ePi hG ⊢
      have keep : p ≠ j → ¬ (s.D p k + s.D k j < s.D p j) := by
        intro hpj hup
        have hSp : S p := by
          rcases hG with e | e
          · exact absurd e hpj
          · exact e
        simp only [hpj, if_false] at eD
        have hLfin : L i p ≠ ⊤ := by
          intro e; rw [e] at eD; simp at eD; rw [eD] at hfin'; exact lt_irrefl _ hfin'
        have : s.D i k + s.D k j < s.D i j := by
          calc s.D i k + s.D k j ≤ (L i p + s.D p k) + s.D k j := by gcongr; exact viaP i p k hSp
            _ = L i p + (s.D p k + s.D k j) := by rw [add_assoc]
            _ < L i p + s.D p j := WithTop.add_lt_add_left hLfin hup
            _ = s.D i j := eD.symm
        exact hu this
      refine ⟨?_, ?_, ePi⟩
      · by_cases hpj : p = j
        · simpa [hpj] using eD
        · simp only [hpj, if_false, keep hpj]; simpa [hpj] using eD
      · by_cases hpj : p = j
        · simpa [hpj] using eH
        · simp only [hpj, if_false, keep hpj]; simpa [hpj] using eH

end Bct.Dist
