import BctVerif.Lemmas.RewireFun
import BctVerif.Model.RandBin

/-!
# Function-level facts about the work matrix of `randomizer_bin_und`

`WM R` — the work-matrix invariant: entries 0/1, symmetric, zero diagonal (the diagonal of the Python
array holds the `inf` sentinel; the model keeps it at 0 and tests `x ≠ y`).  The eight assignments of an
accepted swap, the complement and the full-node masking are characterised cell by cell, and the number
of connections of every row (`rowCnt`) is tracked through each of them.
-/
open Finset

namespace Bct.RandBinFun
open Bct Bct.RewireFun

variable {n : ℕ}

structure WM (R : Mat n) : Prop where
  bin : ∀ i j, R i j = 0 ∨ R i j = 1
  sym : ∀ i j, R i j = R j i
  zd : ∀ i, R i i = 0

theorem WM.ne_zero_iff {R : Mat n} (h : WM R) (i j : Fin n) : R i j ≠ 0 ↔ R i j = 1 := by
  rcases h.bin i j with h0 | h1
  · simp [h0]
  · simp [h1]

/-! ### the accepted swap -/

def swapBinF (R : Mat n) (a b c d : Fin n) : Mat n :=
  upd (upd (upd (upd (upd (upd (upd (upd R a b 0) c d 0) b a 0) d c 0) a c 1) b d 1) c a 1) d b 1

theorem toFun_swapCells (R : AMat Int n) (a b c d : Fin n) :
    (RandBin.swapCells R a b c d).toFun = swapBinF R.toFun a b c d := by
  simp only [RandBin.swapCells, swapBinF, toFun_set]

/-- row `i` of the result is row `i` of the input with two columns exchanged -/
def sigmaBin (a b c d i : Fin n) : Equiv.Perm (Fin n) :=
  if i = a ∨ i = d then Equiv.swap b c else if i = b ∨ i = c then Equiv.swap a d else Equiv.refl _

theorem swapBinF_apply (R : Mat n) (a b c d : Fin n)
    (hab : a ≠ b) (hac : a ≠ c) (had : a ≠ d) (hbc : b ≠ c) (hbd : b ≠ d) (hcd : c ≠ d) (i j : Fin n) :
    swapBinF R a b c d i j =
      if (i = a ∧ j = b) ∨ (i = b ∧ j = a) ∨ (i = c ∧ j = d) ∨ (i = d ∧ j = c) then 0
      else if (i = a ∧ j = c) ∨ (i = c ∧ j = a) ∨ (i = b ∧ j = d) ∨ (i = d ∧ j = b) then 1 else R i j := by
  simp only [swapBinF, upd]
  by_cases hia : i = a <;> by_cases hib : i = b <;> by_cases hic : i = c <;> by_cases hid : i = d <;>
  by_cases hja : j = a <;> by_cases hjb : j = b <;> by_cases hjc : j = c <;> by_cases hjd : j = d <;>
    simp_all

/-- the guard of an accepted swap on a work matrix: a–b and c–d present, a–c and b–d absent -/
structure Guard (R : Mat n) (a b c d : Fin n) : Prop where
  ab : R a b = 1
  cd : R c d = 1
  ac : R a c = 0
  bd : R b d = 0
  hab : a ≠ b
  hac : a ≠ c
  had : a ≠ d
  hbc : b ≠ c
  hbd : b ≠ d
  hcd : c ≠ d

theorem swapBinF_perm (R : Mat n) (a b c d : Fin n) (hw : WM R) (g : Guard R a b c d) (i j : Fin n) :
    swapBinF R a b c d i j = R i (sigmaBin a b c d i j) := by
  have hba : R b a = 1 := by rw [hw.sym]; exact g.ab
  have hdc : R d c = 1 := by rw [hw.sym]; exact g.cd
  have hca : R c a = 0 := by rw [hw.sym]; exact g.ac
  have hdb : R d b = 0 := by rw [hw.sym]; exact g.bd
  obtain ⟨gab, gcd, gac, gbd, hab, hac, had, hbc, hbd, hcd⟩ := g
  rw [swapBinF_apply R a b c d hab hac had hbc hbd hcd]
  have hab' := hab.symm; have hac' := hac.symm; have had' := had.symm
  have hbc' := hbc.symm; have hbd' := hbd.symm; have hcd' := hcd.symm
  by_cases hia : i = a
  · have hs : sigmaBin a b c d i = Equiv.swap b c := by simp [sigmaBin, hia]
    rw [hs]
    by_cases hja : j = a <;> by_cases hjb : j = b <;> by_cases hjc : j = c <;> by_cases hjd : j = d <;>
      simp_all [Equiv.swap_apply_def]
  · by_cases hid : i = d
    · have hs : sigmaBin a b c d i = Equiv.swap b c := by simp [sigmaBin, hid]
      rw [hs]
      by_cases hja : j = a <;> by_cases hjb : j = b <;> by_cases hjc : j = c <;> by_cases hjd : j = d <;>
        simp_all [Equiv.swap_apply_def]
    · by_cases hib : i = b
      · have hs : sigmaBin a b c d i = Equiv.swap a d := by simp [sigmaBin, hib, hab.symm, hbd]
        rw [hs]
        by_cases hja : j = a <;> by_cases hjb : j = b <;> by_cases hjc : j = c <;> by_cases hjd : j = d <;>
          simp_all [Equiv.swap_apply_def]
      · by_cases hic : i = c
        · have hs : sigmaBin a b c d i = Equiv.swap a d := by simp [sigmaBin, hic, hac.symm, hcd]
          rw [hs]
          by_cases hja : j = a <;> by_cases hjb : j = b <;> by_cases hjc : j = c <;> by_cases hjd : j = d <;>
            simp_all [Equiv.swap_apply_def]
        · have hs : sigmaBin a b c d i = Equiv.refl _ := by simp [sigmaBin, hia, hib, hic, hid]
          rw [hs]
          simp [hia, hib, hic, hid]

/-- an accepted swap keeps every node's number of connections -/
theorem swapBinF_row (R : Mat n) (a b c d : Fin n) (hw : WM R) (g : Guard R a b c d) (r : Fin n) :
    rowCnt (swapBinF R a b c d) r = rowCnt R r := by
  unfold rowCnt
  simp only [swapBinF_perm R a b c d hw g]
  exact Equiv.sum_comp (sigmaBin a b c d r) (fun j => if R r j ≠ 0 then 1 else 0)

/-- an accepted swap keeps the work-matrix invariant -/
theorem swapBinF_wm (R : Mat n) (a b c d : Fin n) (hw : WM R) (g : Guard R a b c d) :
    WM (swapBinF R a b c d) := by
  have app := swapBinF_apply R a b c d g.hab g.hac g.had g.hbc g.hbd g.hcd
  refine ⟨?_, ?_, ?_⟩
  · intro i j
    rw [app]
    split
    · left; rfl
    · split
      · right; rfl
      · exact hw.bin i j
  · intro i j
    rw [app, app, hw.sym i j]
    have e0 : ((i = a ∧ j = b) ∨ (i = b ∧ j = a) ∨ (i = c ∧ j = d) ∨ (i = d ∧ j = c)) ↔
        ((j = a ∧ i = b) ∨ (j = b ∧ i = a) ∨ (j = c ∧ i = d) ∨ (j = d ∧ i = c)) := by
      constructor <;> rintro (⟨h1, h2⟩ | ⟨h1, h2⟩ | ⟨h1, h2⟩ | ⟨h1, h2⟩) <;> simp [h1, h2]
    have e1 : ((i = a ∧ j = c) ∨ (i = c ∧ j = a) ∨ (i = b ∧ j = d) ∨ (i = d ∧ j = b)) ↔
        ((j = a ∧ i = c) ∨ (j = c ∧ i = a) ∨ (j = b ∧ i = d) ∨ (j = d ∧ i = b)) := by
      constructor <;> rintro (⟨h1, h2⟩ | ⟨h1, h2⟩ | ⟨h1, h2⟩ | ⟨h1, h2⟩) <;> simp [h1, h2]
    simp only [e0, e1]
  · intro i
    rw [app]
    have hab := g.hab; have hac := g.hac; have hbd := g.hbd; have hcd := g.hcd
    have n0 : ¬ ((i = a ∧ i = b) ∨ (i = b ∧ i = a) ∨ (i = c ∧ i = d) ∨ (i = d ∧ i = c)) := by
      rintro (⟨h1, h2⟩ | ⟨h1, h2⟩ | ⟨h1, h2⟩ | ⟨h1, h2⟩)
      · exact hab (h1.symm.trans h2)
      · exact hab (h2.symm.trans h1)
      · exact hcd (h1.symm.trans h2)
      · exact hcd (h2.symm.trans h1)
    have n1 : ¬ ((i = a ∧ i = c) ∨ (i = c ∧ i = a) ∨ (i = b ∧ i = d) ∨ (i = d ∧ i = b)) := by
      rintro (⟨h1, h2⟩ | ⟨h1, h2⟩ | ⟨h1, h2⟩ | ⟨h1, h2⟩)
      · exact hac (h1.symm.trans h2)
      · exact hac (h2.symm.trans h1)
      · exact hbd (h1.symm.trans h2)
      · exact hbd (h2.symm.trans h1)
    simp only [n0, n1, if_false]
    exact hw.zd i

/-! ### counting -/

theorem sum_ne (v : Fin n) : (∑ j : Fin n, if j ≠ v then 1 else 0) = n - 1 := by
  rw [Finset.sum_boole]
  simp [Finset.filter_ne', Finset.card_erase_of_mem]

/-- a row of a work matrix has at most `n - 1` connections -/
theorem rowCnt_le (R : Mat n) (hw : WM R) (v : Fin n) : rowCnt R v ≤ n - 1 := by
  rw [← sum_ne v]
  unfold rowCnt
  apply Finset.sum_le_sum
  intro j _
  by_cases hj : j = v
  · subst hj; simp [hw.zd]
  · simp only [hj, ne_eq, not_false_eq_true, if_true]; split <;> omega

/-- a row with `n - 1` connections is connected to everyone else -/
theorem full_row (R : Mat n) (hw : WM R) (v : Fin n) (h : rowCnt R v = n - 1) (u : Fin n) (hu : u ≠ v) :
    R v u = 1 := by
  by_contra hne
  have h0 : R v u = 0 := by rcases hw.bin v u with h | h; exact h; exact absurd h hne
  have : rowCnt R v < ∑ j : Fin n, if j ≠ v then 1 else 0 := by
    unfold rowCnt
    apply Finset.sum_lt_sum
    · intro j _
      by_cases hj : j = v
      · subst hj; simp [hw.zd]
      · simp only [hj, ne_eq, not_false_eq_true, if_true]; split <;> omega
    · exact ⟨u, Finset.mem_univ _, by simp [h0, hu]⟩
  rw [sum_ne] at this
  omega

/-- a row without connections is zero -/
theorem empty_row (R : Mat n) (v : Fin n) (h : rowCnt R v = 0) (u : Fin n) : R v u = 0 := by
  unfold rowCnt at h
  rw [Finset.sum_eq_zero_iff] at h
  have := h u (Finset.mem_univ _)
  by_contra hne
  simp [hne] at this

/-! ### complement -/

def complF (R : Mat n) : Mat n := fun i j => if i = j then 0 else if R i j ≠ 0 then 0 else 1

theorem toFun_compl (R : AMat Int n) : (RandBin.compl R).toFun = complF R.toFun := by
  funext i j
  simp only [AMat.toFun, RandBin.compl, complF, AMat.get_ofFn]
  by_cases h1 : i = j
  · simp [h1]
  · by_cases h2 : R.get i j = 0 <;> simp [h1, h2]

theorem complF_wm (R : Mat n) (hw : WM R) : WM (complF R) := by
  refine ⟨?_, ?_, ?_⟩
  · intro i j; simp only [complF]; split; · left; rfl
    split; · left; rfl
    right; rfl
  · intro i j
    simp only [complF, hw.sym i j]
    by_cases h : i = j
    · subst h; rfl
    · have : ¬ j = i := fun hh => h hh.symm
      simp [h, this]
  · intro i; simp [complF]

theorem complF_row (R : Mat n) (hw : WM R) (v : Fin n) : rowCnt (complF R) v + rowCnt R v = n - 1 := by
  rw [← sum_ne v]
  unfold rowCnt
  rw [← Finset.sum_add_distrib]
  apply Finset.sum_congr rfl
  intro j _
  by_cases hj : j = v
  · subst hj; simp [complF, hw.zd]
  · have : ¬ v = j := fun hh => hj hh.symm
    by_cases h0 : R v j = 0
    · simp [complF, hj, this, h0]
    · simp [complF, hj, this, h0]

theorem complF_complF_row (R : Mat n) (hw : WM R) (X : Mat n) (hx : WM X)
    (h : ∀ v, rowCnt X v = rowCnt (complF R) v) (v : Fin n) : rowCnt (complF X) v = rowCnt R v := by
  have h1 := complF_row R hw v
  have h2 := complF_row X hx v
  have := h v
  omega

/-! ### masking the fully connected nodes -/

def fillF (R : Mat n) (F : Fin n → Bool) (x : ℤ) : Mat n :=
  fun i j => if i = j then 0 else if F i || F j then x else R i j

theorem toFun_fillFull (R : AMat Int n) (F : Vector Bool n) (x : ℤ) :
    (RandBin.fillFull R F x).toFun = fillF R.toFun (fun v => F[v]) x := by
  funext i j
  simp [AMat.toFun, RandBin.fillFull, fillF]

theorem fillF_wm (R : Mat n) (hw : WM R) (F : Fin n → Bool) (x : ℤ) (hx : x = 0 ∨ x = 1) : WM (fillF R F x) := by
  refine ⟨?_, ?_, ?_⟩
  · intro i j; simp only [fillF]; split; · left; rfl
    split; · exact hx
    exact hw.bin i j
  · intro i j
    simp only [fillF, hw.sym i j]
    by_cases h : i = j
    · subst h; rfl
    · have : ¬ j = i := fun hh => h hh.symm
      simp only [h, this, if_false, Bool.or_comm]
  · intro i; simp [fillF]

/-- masked nodes have no connection in the masked matrix -/
theorem fillF_zero_row (R : Mat n) (F : Fin n → Bool) (v : Fin n) (hv : F v = true) : rowCnt (fillF R F 0) v = 0 := by
  unfold rowCnt
  apply Finset.sum_eq_zero
  intro j _
  simp [fillF, hv]

/-- **Restoring the full nodes restores the degrees.**  `R1` the (possibly complemented) work matrix, `F`
exactly its fully connected nodes, `X` any work matrix with the degrees of the masked matrix: then `X` with
the rows and columns of `F` set to 1 has the degrees of `R1`. -/
theorem fill_restore_row (R1 X : Mat n) (h1 : WM R1) (hx : WM X) (F : Fin n → Bool)
    (hF : ∀ v, F v = true ↔ rowCnt R1 v = n - 1)
    (hdeg : ∀ v, rowCnt X v = rowCnt (fillF R1 F 0) v) (v : Fin n) :
    rowCnt (fillF X F 1) v = rowCnt R1 v := by
  by_cases hv : F v = true
  · -- a full node: connected to everyone in both
    rw [(hF v).mp hv, ← sum_ne v]
    unfold rowCnt
    apply Finset.sum_congr rfl
    intro j _
    by_cases hj : j = v
    · subst hj; simp [fillF]
    · have : ¬ v = j := fun hh => hj hh.symm
      simp [fillF, hv, hj, this]
  · -- X has no connection to a masked node
    have hXF : ∀ u, F u = true → X v u = 0 := by
      intro u hu
      have : rowCnt X u = 0 := by rw [hdeg u]; exact fillF_zero_row R1 F u hu
      rw [hx.sym]; exact empty_row X u this v
    have hR1F : ∀ u, F u = true → u ≠ v → R1 v u ≠ 0 := by
      intro u hu huv
      have := full_row R1 h1 u ((hF u).mp hu) v (fun hh => huv hh.symm)
      rw [h1.sym, this]; exact one_ne_zero
    have hvF : F v = false := by simpa using hv
    have e1 : rowCnt (fillF X F 1) v = (∑ j : Fin n, if j ≠ v ∧ F j = true then 1 else 0) + rowCnt X v := by
      unfold rowCnt
      rw [← Finset.sum_add_distrib]
      apply Finset.sum_congr rfl
      intro j _
      by_cases hj : j = v
      · subst hj; simp [fillF, hx.zd]
      · have hvj : ¬ v = j := fun hh => hj hh.symm
        by_cases hFj : F j = true
        · simp [fillF, hvj, hj, hFj, hvF, hXF j hFj]
        · have : F j = false := by simpa using hFj
          simp [fillF, hvj, hj, this, hvF]
    have e2 : rowCnt R1 v = (∑ j : Fin n, if j ≠ v ∧ F j = true then 1 else 0) + rowCnt (fillF R1 F 0) v := by
      unfold rowCnt
      rw [← Finset.sum_add_distrib]
      apply Finset.sum_congr rfl
      intro j _
      by_cases hj : j = v
      · subst hj; simp [fillF, h1.zd]
      · have hvj : ¬ v = j := fun hh => hj hh.symm
        by_cases hFj : F j = true
        · simp [fillF, hvj, hj, hFj, hvF, hR1F j hFj hj]
        · have : F j = false := by simpa using hFj
          simp [fillF, hvj, hj, this, hvF]
    rw [e1, e2, hdeg v]

end Bct.RandBinFun
