import BctVerif.Lemmas.BetweenFwd3

/-!
# Forward phase of the weighted Brandes loop: the `while True` loop (C08)
-/
namespace Bct.Between
open Bct

variable {n : ℕ} (L : AMat Nat n) (u : Fin n)

/-- state at the top of the loop body: `V` is the whole level `m`, the settled nodes are those at
distance `< m` -/
structure LI (st : SrcSt n) (V : List (Fin n)) (m : ℕ) (ord : List (Fin n)) : Prop where
  Vnd : V.Nodup
  Vne : V ≠ []
  Vmem : ∀ x, x ∈ V ↔ (dist L).get u x = some m
  Sset : ∀ x : Fin n, st.S[x] = false ↔ ∃ k, (dist L).get u x = some k ∧ k < m
  rel : ∀ x, Rel L u (settled st) st x
  G1 : ∀ i j : Fin n, st.G1.get i j = if st.S[j] = true then L.get i j else 0
  Q : QInv st ord
  ordnd : ord.Nodup
  ordmem : ∀ x : Fin n, x ∈ ord ↔ st.S[x] = false
  ordpw : ord.Pairwise fun a b => ¬ dLt L u a b
  ordlast : ord ≠ [] → ord.getLast? = some u

theorem dist_eq_zero_iff {x : Fin n} : (dist L).get u x = some 0 ↔ x = u := by
  constructor
  · intro h
    by_contra hne
    have := dist_pos_of_ne L h (fun e => hne e.symm)
    omega
  · rintro rfl; exact dist_self L x

variable {L u}

theorem weiBatch_spec {st : SrcSt n} {V : List (Fin n)} {m : ℕ} {ord : List (Fin n)}
    (h : LI L u st V m ord) :
    ∃ st1, weiBatch V st = .ok st1 ∧ LJ L u st1 m (V.reverse ++ ord) := by
  -- nodes at distance ≤ m already carry their final values
  have hfin : ∀ (x : Fin n) (k : ℕ), (dist L).get u x = some k → k ≤ m →
      st.D[x] = some k ∧ st.NP[x] = (sigma L).get u x := by
    intro x k hk hkm
    have := (h.rel x).final L u hk fun z hp => by
      obtain ⟨ka, kb, h1, h2, h3⟩ := dLt_of_pred L u hp
      rw [hk] at h2; simp only [Option.some.injEq] at h2; subst h2
      exact mem_settled.2 ((h.Sset z).2 ⟨ka, h1, by omega⟩)
    exact ⟨this.1, this.2.1⟩
  have hVS : ∀ v ∈ V, st.S[v] = true := by
    intro v hv
    by_contra hS
    obtain ⟨k, hk, hlt⟩ := (h.Sset v).1 (by simpa using hS)
    rw [(h.Vmem v).1 hv] at hk; simp only [Option.some.injEq] at hk; omega
  set st0 : SrcSt n := { st with S := Vector.ofFn fun i => st.S[i] && !V.contains i, G1 := clearCols st.G1 V } with hst0
  have hS0 : ∀ x : Fin n, st0.S[x] = (st.S[x] && !V.contains x) := by
    intro x; simp [hst0]
  have hS0f : ∀ x : Fin n, st0.S[x] = false ↔ st.S[x] = false ∨ x ∈ V := by
    intro x; rw [hS0]
    by_cases hx : x ∈ V <;> simp [hx]
  have hclr : ∀ x : Fin n, st0.S[x] = false → ∃ k, (dist L).get u x = some k ∧ k ≤ m := by
    intro x hx
    rcases (hS0f x).1 hx with hs | hv
    · obtain ⟨k, hk, hlt⟩ := (h.Sset x).1 hs
      exact ⟨k, hk, by omega⟩
    · exact ⟨m, (h.Vmem x).1 hv, le_refl _⟩
  have hSu : st0.S[u] = false := by
    rw [hS0f]
    rcases Nat.eq_zero_or_pos m with h0 | h0
    · right; rw [h.Vmem, h0]; exact dist_self L u
    · left; exact (h.Sset u).2 ⟨0, dist_self L u, h0⟩
  have hG0 : ∀ i j : Fin n, st0.G1.get i j = if st0.S[j] = true then L.get i j else 0 := by
    intro i j
    have e : st0.G1.get i j = if V.contains j then 0 else st.G1.get i j := by simp [hst0, clearCols]
    rw [e, h.G1, hS0]
    by_cases hj : j ∈ V
    · simp [hj]
    · by_cases hs : st.S[j] = true
      · simp [hj, hs]
      · simp [hj, hs]
  obtain ⟨st1, e1, r1, eS, eG, hQ1, _⟩ := settle_spec L u (m := m) V (settled st) ord st0 h.Vnd
    (fun v hv hmem => by
      have := hVS v hv
      rw [mem_settled.1 hmem] at this; exact absurd this (by simp))
    (fun v hv hmem => by
      have := hVS v hv
      rw [(h.ordmem v).1 hmem] at this; exact absurd this (by simp))
    h.ordnd
    (fun v hv => by
      have hd := (h.Vmem v).1 hv
      obtain ⟨a, b⟩ := hfin v m hd (le_refl _)
      exact ⟨hd, a, b, (hS0f v).2 (Or.inr hv)⟩)
    hG0
    hSu
    (fun x hx => by
      obtain ⟨k, hk, hkm⟩ := hclr x hx
      exact ⟨k, (hfin x k hk hkm).1, hkm⟩)
    (fun x => (h.rel x).congr L u rfl rfl (fun _ => rfl))
    ⟨h.Q.1, h.Q.2⟩
  refine ⟨st1, e1, ?_⟩
  have hS1 : ∀ x : Fin n, st1.S[x] = false ↔ st.S[x] = false ∨ x ∈ V := by
    intro x; rw [eS]; exact hS0f x
  have hset : settled st1 = settled st ∪ V.toFinset := by
    ext x; simp only [mem_settled, Finset.mem_union, List.mem_toFinset]; exact hS1 x
  constructor
  · intro x
    rw [hS1]
    constructor
    · rintro (hs | hv)
      · obtain ⟨k, hk, hlt⟩ := (h.Sset x).1 hs
        exact ⟨k, hk, by omega⟩
      · exact ⟨m, (h.Vmem x).1 hv, le_refl _⟩
    · rintro ⟨k, hk, hkm⟩
      rcases Nat.lt_or_ge k m with hlt | hge
      · exact Or.inl ((h.Sset x).2 ⟨k, hk, hlt⟩)
      · have : k = m := by omega
        subst this; exact Or.inr ((h.Vmem x).2 hk)
  · intro x; rw [hset]; exact r1 x
  · intro i j
    rw [eG, eS]; exact hG0 i j
  · exact hQ1
  · rw [List.nodup_append]
    refine ⟨List.nodup_reverse.2 h.Vnd, h.ordnd, ?_⟩
    intro a ha b hb e
    subst e
    have := hVS a (List.mem_reverse.1 ha)
    rw [(h.ordmem a).1 hb] at this; exact absurd this (by simp)
  · intro x
    rw [hS1, List.mem_append, List.mem_reverse, h.ordmem]
    tauto
  · rw [List.pairwise_append]
    refine ⟨List.pairwise_of_forall_mem_list fun a ha b hb => ?_, h.ordpw, fun a ha b hb => ?_⟩
    · rintro ⟨ka, kb, h1, h2, h3⟩
      rw [(h.Vmem a).1 (List.mem_reverse.1 ha)] at h1
      rw [(h.Vmem b).1 (List.mem_reverse.1 hb)] at h2
      simp only [Option.some.injEq] at h1 h2; omega
    · rintro ⟨ka, kb, h1, h2, h3⟩
      rw [(h.Vmem a).1 (List.mem_reverse.1 ha)] at h1
      obtain ⟨k, hk, hlt⟩ := (h.Sset b).1 ((h.ordmem b).1 hb)
      rw [hk] at h2
      simp only [Option.some.injEq] at h1 h2; omega
  · by_cases hne : ord = []
    · subst hne
      have hm0 : m = 0 := by
        by_contra hm
        have := (h.ordmem u).2 ((h.Sset u).2 ⟨0, dist_self L u, Nat.pos_of_ne_zero hm⟩)
        exact absurd this (by simp)
      subst hm0
      simp only [List.append_nil, List.getLast?_reverse]
      cases hV : V with
      | nil => exact absurd hV h.Vne
      | cons x V' =>
        simp only [List.head?_cons, Option.some.injEq]
        exact (dist_eq_zero_iff L u).1 ((h.Vmem x).1 (hV ▸ List.mem_cons_self))
    · rw [List.getLast?_append_of_ne_nil _ hne]; exact h.ordlast hne

theorem FwdPN.congr {s : Fin n} {st st' : SrcSt n} (h : FwdPN L s st) (eP : st'.P = st.P)
    (eNP : st'.NP = st.NP) : FwdPN L s st' :=
  ⟨fun w v => by rw [eP]; exact h.hP w v, fun x hx => by rw [eNP]; exact h.hNP x hx⟩

theorem weiNext_eq (st : SrcSt n) : weiNext st =
    if ((List.finRange n).filter fun i => st.S[i]).isEmpty = true then Next.done else
    match ominL (((List.finRange n).filter fun i => st.S[i]).map fun i => st.D[i]) with
    | none => Next.fill ((List.finRange n).filter fun i => st.D[i].isNone)
    | some m => Next.batch ((List.finRange n).filter fun i => st.S[i] && st.D[i] == some m) := rfl

/-- the three exits of the loop body -/
theorem weiNext_spec {st : SrcSt n} {m : ℕ} {ord : List (Fin n)} (h : LJ L u st m ord) :
    (weiNext st = .done ∧ (∀ x : Fin n, st.S[x] = false) ∧ FwdOK L u st) ∨
    (∃ idx, weiNext st = .fill idx ∧ idx = ((List.finRange n).filter fun i => st.D[i].isNone) ∧
      idx ≠ [] ∧ (∀ x : Fin n, st.S[x] = true → (dist L).get u x = none) ∧
      ∃ st', fillFront st idx = .ok st' ∧ FwdOK L u st') ∨
    (∃ V' m', weiNext st = .batch V' ∧ V' = ((List.finRange n).filter fun i => st.S[i] && st.D[i] == some m') ∧
      LI L u st V' m' ord) := by
  set uns := (List.finRange n).filter fun i => st.S[i] with huns
  have hmem : ∀ x : Fin n, x ∈ uns ↔ st.S[x] = true := by
    intro x; rw [huns, List.mem_filter]; exact ⟨fun h => h.2, fun h => ⟨List.mem_finRange x, h⟩⟩
  have hwn := weiNext_eq st
  rw [← huns] at hwn
  have hordS : ∀ x : Fin n, st.S[x] = false → ∃ k, (dist L).get u x = some k ∧ st.D[x] = some k := by
    intro x hS
    obtain ⟨k, hk, _⟩ := (h.Sset x).1 hS
    exact ⟨k, hk, (h.settled_final hS hk).1⟩
  by_cases he : uns = []
  · -- everything is settled
    left
    have hall : ∀ x : Fin n, st.S[x] = false := by
      intro x
      by_contra hx
      have := (hmem x).2 (by simpa using hx)
      rw [he] at this; exact absurd this (by simp)
    refine ⟨by rw [hwn, if_pos (by rw [he]; rfl)], hall, ?_⟩
    have hperm : ord.Perm (List.finRange n) :=
      (List.perm_ext_iff_of_nodup h.ordnd (List.nodup_finRange n)).2 fun a =>
        ⟨fun _ => List.mem_finRange a, fun _ => (h.ordmem a).2 (hall a)⟩
    have hlen : ord.length = n := by simpa using hperm.length_eq
    have hq : st.q = 0 := by have := h.Q.length; omega
    refine fwdOK_of_queue L u st (h.fwdPN fun x hx => by rw [hall x] at hx; exact absurd hx (by simp))
      [] ord ?_ h.ordlast (by simpa using h.ordnd) (fun x => by simpa using (h.ordmem x).2 (hall x))
      (by simp) h.ordpw
    have := h.Q.2
    rw [hq, List.drop_zero] at this
    simpa using this
  · right
    have hne' : ¬ uns.isEmpty = true := by rw [List.isEmpty_iff]; exact he
    rw [if_neg hne'] at hwn
    cases ho : ominL (uns.map fun i => st.D[i]) with
    | none =>
      left
      have hDn : ∀ x : Fin n, st.S[x] = true → st.D[x] = none := by
        intro x hx
        exact ominL_none.1 ho _ (List.mem_map_of_mem ((hmem x).2 hx))
      have hun : ∀ x : Fin n, st.S[x] = true → (dist L).get u x = none := by
        intro x hx
        cases hk : (dist L).get u x with
        | none => rfl
        | some k =>
          obtain ⟨y, j, h1, _, _, h4⟩ := h.unsettled_exact hx hk
          rw [hDn y h1] at h4; exact absurd h4 (by simp)
      have hidx : ((List.finRange n).filter fun i => st.D[i].isNone) = uns := by
        apply List.filter_congr
        intro x _
        by_cases hS : st.S[x] = true
        · rw [hDn x hS, hS]; rfl
        · have hS' : st.S[x] = false := by simpa using hS
          obtain ⟨k, _, hD⟩ := hordS x hS'
          rw [hD, hS']; rfl
      refine ⟨uns, by rw [hwn, ho]; simp only []; rw [hidx], hidx.symm, he, hun, ?_⟩
      have hperm : ord.Perm ((List.finRange n).filter fun i => !st.S[i]) :=
        (List.perm_ext_iff_of_nodup h.ordnd ((List.nodup_finRange n).filter _)).2 fun a => by
          rw [h.ordmem]; simp
      have hlen : uns.length = st.q := by
        have h1 := List.length_eq_length_filter_add (l := List.finRange n) (fun i => st.S[i])
        have h2 := hperm.length_eq
        have h3 := h.Q.length
        simp only [List.length_finRange] at h1
        rw [← huns] at h1
        omega
      obtain ⟨st', e1, e2, eD, eNP, eS, eP⟩ := fillFront_spec st uns ord h.Q hlen
      refine ⟨st', e1, fwdOK_of_queue L u st' ((h.fwdPN hun).congr eP eNP) uns ord e2 h.ordlast ?_ ?_ ?_ h.ordpw⟩
      · rw [List.nodup_append]
        refine ⟨(List.nodup_finRange n).filter _, h.ordnd, ?_⟩
        intro a ha b hb e
        subst e
        have := (hmem a).1 ha
        rw [(h.ordmem a).1 hb] at this; exact absurd this (by simp)
      · intro x
        rw [List.mem_append, hmem, h.ordmem]
        cases st.S[x] <;> simp
      · intro a ha; exact hun a ((hmem a).1 ha)
    | some m' =>
      right
      obtain ⟨hin, hmin⟩ := ominL_some ho
      obtain ⟨x0, hx0, hD0⟩ := List.mem_map.1 hin
      have hminD : ∀ (x : Fin n) (c : ℕ), st.S[x] = true → st.D[x] = some c → m' ≤ c := by
        intro x c hx hc
        exact hmin c (List.mem_map.2 ⟨x, (hmem x).2 hx, hc⟩)
      -- (i) no unsettled reachable node is closer than m'
      have hi : ∀ (x : Fin n) (k : ℕ), st.S[x] = true → (dist L).get u x = some k → m' ≤ k := by
        intro x k hx hk
        obtain ⟨y, j, h1, _, h3, h4⟩ := h.unsettled_exact hx hk
        have := hminD y j h1 h4
        omega
      have hS0 := (hmem x0).1 hx0
      obtain ⟨k0, hk0, hk0le⟩ := (h.rel x0).ge_dist L u hD0
      have hk0m : k0 = m' := by have := hi x0 k0 hS0 hk0; omega
      subst hk0m
      have hmlt : m < k0 := h.unsettled_gt hS0 hk0
      have hVmem : ∀ x : Fin n, st.D[x] = some k0 ↔ (dist L).get u x = some k0 := by
        intro x
        constructor
        · intro hD
          by_cases hS : st.S[x] = true
          · obtain ⟨k, hk, hkle⟩ := (h.rel x).ge_dist L u hD
            have := hi x k hS hk
            rw [hk]; congr 1; omega
          · obtain ⟨k, hk, hD'⟩ := hordS x (by simpa using hS)
            obtain ⟨k', hk', hle⟩ := (h.Sset x).1 (by simpa using hS)
            rw [hk] at hk'; simp only [Option.some.injEq] at hk'; subst hk'
            rw [hD] at hD'; simp only [Option.some.injEq] at hD'; omega
        · intro hk
          have hS : st.S[x] = true := by
            by_contra hS
            obtain ⟨k', hk', hle⟩ := (h.Sset x).1 (by simpa using hS)
            rw [hk] at hk'; simp only [Option.some.injEq] at hk'; omega
          have hxu : x ≠ u := by
            rintro rfl
            rw [h.u_settled] at hS; exact absurd hS (by simp)
          obtain ⟨z, hz⟩ := exists_pred L (fun e => hxu e.symm) hk
          obtain ⟨hLz, a, ha, hea⟩ := (pred_iff L).1 hz
          rw [hk] at hea; simp only [Option.some.injEq] at hea
          have hLpos := Nat.pos_of_ne_zero hLz
          have hSz : st.S[z] = false := by
            by_contra hSz
            have := hi z a (by simpa using hSz) ha
            omega
          obtain ⟨c, hc, hcle⟩ := (h.rel x).lower hxu z (mem_settled.2 hSz) hLz a ha _ rfl
          have := hminD x c hS hc
          rw [hc]; congr 1; omega
      have hSV : ∀ x : Fin n, (dist L).get u x = some k0 → st.S[x] = true := by
        intro x hk
        by_contra hS
        obtain ⟨k', hk', hle⟩ := (h.Sset x).1 (by simpa using hS)
        rw [hk] at hk'; simp only [Option.some.injEq] at hk'; omega
      refine ⟨(List.finRange n).filter fun i => st.S[i] && st.D[i] == some k0, k0,
        by rw [hwn, ho], rfl, ?_⟩
      constructor
      · exact (List.nodup_finRange n).filter _
      · intro hnil
        have : x0 ∈ (List.finRange n).filter fun i => st.S[i] && st.D[i] == some k0 :=
          List.mem_filter.2 ⟨List.mem_finRange _, by rw [hS0, hD0]; simp⟩
        rw [hnil] at this; exact absurd this (by simp)
      · intro x
        rw [List.mem_filter, Bool.and_eq_true, beq_iff_eq]
        exact ⟨fun hh => (hVmem x).1 hh.2.2,
          fun hh => ⟨List.mem_finRange x, hSV x hh, (hVmem x).2 hh⟩⟩
      · intro x
        constructor
        · intro hS
          obtain ⟨k, hk, hle⟩ := (h.Sset x).1 hS
          exact ⟨k, hk, by omega⟩
        · rintro ⟨k, hk, hlt⟩
          by_contra hS
          have := hi x k (by simpa using hS) hk
          omega
      · exact h.rel
      · exact h.G1
      · exact h.Q
      · exact h.ordnd
      · exact h.ordmem
      · exact h.ordpw
      · exact fun _ => h.ordlast

end Bct.Between
