import BctVerif.Lemmas.BetweenBfs

/-!
# `edge_betweenness_bin` model = definition on binary matrices (C08)
-/
namespace Bct.Between
open Bct

variable {n : ℕ} {L : AMat Nat n} {u : Fin n}

theorem bfsLoop_succ (fuel : ℕ) (V : List (Fin n)) (st : SrcSt n) :
    bfsLoop (fuel + 1) V st =
      if V.isEmpty then
        (if ((List.finRange n).filter fun i => st.D[i].isNone).isEmpty then .ok st
         else fillFront st ((List.finRange n).filter fun i => st.D[i].isNone))
      else
        match settle false V { st with G1 := clearCols st.G1 V } with
        | .error e => .error e
        | .ok st1 =>
          bfsLoop fuel ((List.finRange n).filter fun j => V.any fun v => st1.G1.get v j != 0) st1 := rfl

theorem FwdOK.congr {s : Fin n} {st st' : SrcSt n} (h : FwdOK L s st) (eP : st'.P = st.P)
    (eNP : st'.NP = st.NP) (eQ : st'.Q = st.Q) : FwdOK L s st' :=
  ⟨h.toFwdPN.congr eP eNP, by rw [eQ]; exact h.hQ⟩

theorem fillFront_sim {b w : SrcSt n} (hs : Sim b w) (idx : List (Fin n)) {w' : SrcSt n}
    (hw : fillFront w idx = .ok w') :
    ∃ b', fillFront b idx = .ok b' ∧ b'.P = w'.P ∧ b'.NP = w'.NP ∧ b'.Q = w'.Q := by
  obtain ⟨e1, e2, e3, e4, e5, e6⟩ := hs
  unfold fillFront at hw ⊢
  by_cases hq : idx.length = w.q
  · rw [if_pos hq] at hw
    rw [if_pos (by rw [e4]; exact hq)]
    simp only [Except.ok.injEq] at hw
    subst hw
    exact ⟨_, rfl, e2, e1, by simp only [e3]⟩
  · rw [if_neg hq] at hw
    rw [if_neg (by rw [e4]; exact hq)]
    match idx, hw with
    | [x], hw =>
      simp only [Except.ok.injEq] at hw
      subst hw
      exact ⟨_, rfl, e2, e1, by simp only [e3, e4]⟩

/-- values of the nodes up to the current level, and emptiness of everything beyond (binary) -/
theorem LI.level_final {st : SrcSt n} {V : List (Fin n)} {m : ℕ} {ord : List (Fin n)}
    (h : LI L u st V m ord) {x : Fin n} {k : ℕ} (hk : (dist L).get u x = some k) (hkm : k ≤ m) :
    st.D[x] = some k := by
  have := (h.rel x).final L u hk fun z hp => by
    obtain ⟨ka, kb, h1, h2, h3⟩ := dLt_of_pred L u hp
    rw [hk] at h2; simp only [Option.some.injEq] at h2; subst h2
    exact mem_settled.2 ((h.Sset z).2 ⟨ka, h1, by omega⟩)
  exact this.1

theorem LI.beyond_empty (hbin : ∀ i j, L.get i j ≤ 1) {st : SrcSt n} {V : List (Fin n)} {m : ℕ}
    {ord : List (Fin n)} (h : LI L u st V m ord) {x : Fin n} (hS : st.S[x] = true) (hxV : x ∉ V) :
    st.D[x] = none ∧ ∀ z, st.P.get x z = false := by
  have hxu : x ≠ u := by
    rintro rfl
    rcases Nat.eq_zero_or_pos m with h0 | h0
    · exact hxV ((h.Vmem x).2 (by rw [h0]; exact dist_self L x))
    · have := (h.Sset x).2 ⟨0, dist_self L x, h0⟩
      rw [hS] at this; exact absurd this (by simp)
  have hD : st.D[x] = none := by
    cases hc : st.D[x] with
    | none => rfl
    | some c =>
      exfalso
      rcases (h.rel x).attained hxu with h0 | ⟨z, hz, ht⟩
      · rw [hc] at h0; exact absurd h0 (by simp)
      · obtain ⟨hLz, a, ha, he⟩ := (tp_iff L u).1 ht
        rw [hc] at he; simp only [Option.some.injEq] at he
        obtain ⟨k', hk', hlt⟩ := (h.Sset z).1 (mem_settled.1 hz)
        rw [ha] at hk'; simp only [Option.some.injEq] at hk'; subst hk'
        obtain ⟨k, hk, hkc⟩ := (h.rel x).ge_dist L u hc
        have hb := hbin z x
        have hkm : k ≤ m := by omega
        rcases Nat.lt_or_ge k m with hlt' | hge
        · have := (h.Sset x).2 ⟨k, hk, hlt'⟩
          rw [hS] at this; exact absurd this (by simp)
        · have : k = m := by omega
          subst this
          exact hxV ((h.Vmem x).2 hk)
  refine ⟨hD, fun z => ?_⟩
  rw [(h.rel x).p hxu z, hD]
  have : tp L u none z x = false := by
    rw [Bool.eq_false_iff, Ne, tp_iff]; rintro ⟨_, a, _, he⟩; exact absurd he (by simp)
  rw [this]; simp

theorem bfsLoop_spec (hbin : ∀ i j, L.get i j ≤ 1) (fuel : ℕ) {b w : SrcSt n} {V : List (Fin n)}
    {m : ℕ} {ord : List (Fin n)} (h : LI L u w V m ord) (hs : Sim b w)
    (hfuel : n + 2 ≤ fuel + ord.length) :
    ∃ b', bfsLoop fuel V b = .ok b' ∧ FwdOK L u b' := by
  induction fuel generalizing b w V m ord with
  | zero =>
    have := h.ordnd.length_le_card
    simp only [Fintype.card_fin] at this
    omega
  | succ fuel ih =>
    have hVne : ¬ V.isEmpty = true := by rw [List.isEmpty_iff]; exact h.Vne
    rw [bfsLoop_succ, if_neg hVne]
    obtain ⟨w1, e1, hJ⟩ := weiBatch_spec h
    unfold weiBatch at e1
    set w0 : SrcSt n := { w with S := Vector.ofFn fun i => w.S[i] && !V.contains i, G1 := clearCols w.G1 V } with hw0
    set b0 : SrcSt n := { b with G1 := clearCols b.G1 V } with hb0
    have hs0 : Sim b0 w0 := by
      obtain ⟨e1, e2, e3, e4, e5, e6⟩ := hs
      exact ⟨e1, e2, e3, e4, by simp only [hb0, hw0, e5], e6⟩
    have hVS : ∀ v ∈ V, w.S[v] = true := by
      intro v hv
      by_contra hS
      obtain ⟨k, hk, hlt⟩ := (h.Sset v).1 (by simpa using hS)
      rw [(h.Vmem v).1 hv] at hk; simp only [Option.some.injEq] at hk; omega
    have hG0 : ∀ i j : Fin n, w0.G1.get i j = if w.S[j] = true ∧ j ∉ V then L.get i j else 0 := by
      intro i j
      have e : w0.G1.get i j = if V.contains j then 0 else w.G1.get i j := by simp [hw0, clearCols]
      rw [e, h.G1]
      by_cases hj : j ∈ V
      · simp [hj]
      · by_cases hs : w.S[j] = true
        · simp [hj, hs]
        · simp [hj, hs]
    obtain ⟨b1, eb1, hs1⟩ := settle_sim (m := m) V b0 w0 h.Vnd hs0
      (fun v hv => h.level_final ((h.Vmem v).1 hv) (le_refl _))
      (fun v hv x hx => by
        rw [hG0] at hx ⊢
        by_cases hc : w.S[x] = true ∧ x ∉ V
        · rw [if_pos hc] at hx ⊢
          have := hbin v x
          exact ⟨by omega, hc.2, Or.inl (h.beyond_empty hbin hc.1 hc.2)⟩
        · rw [if_neg hc] at hx; exact absurd rfl hx)
      e1
    rw [eb1]
    dsimp only
    have hGb : b1.G1 = w1.G1 := hs1.2.2.2.2.1
    have hG1 : ∀ i j : Fin n, w1.G1.get i j ≠ 0 ↔ w1.S[j] = true ∧ L.get i j ≠ 0 := by
      intro i j
      rw [hJ.G1]
      by_cases hS : w1.S[j] = true <;> simp [hS]
    have hfuel2 : 2 ≤ fuel + 1 := by
      have hnd := hJ.ordnd.length_le_card
      simp only [Fintype.card_fin, List.length_append, List.length_reverse] at hnd
      have : 0 < V.length := List.length_pos_of_ne_nil h.Vne
      omega
    have hadj : ∀ j : Fin n, (V.any fun v => b1.G1.get v j != 0) = true →
        ∃ v ∈ V, w1.S[j] = true ∧ L.get v j ≠ 0 := by
      intro j hj
      rw [List.any_eq_true] at hj
      obtain ⟨v, hv, hne⟩ := hj
      rw [hGb] at hne
      have := (hG1 v j).1 (by simpa using hne)
      exact ⟨v, hv, this⟩
    have hreach : ∀ j : Fin n, (∃ v ∈ V, w1.S[j] = true ∧ L.get v j ≠ 0) →
        (dist L).get u j = some (m + 1) := by
      rintro j ⟨v, hv, hS, hL⟩
      obtain ⟨e, he, hel⟩ := dist_edge L hL
      obtain ⟨k, hk, hkl⟩ := dist_triangle L ((h.Vmem v).1 hv) he
      have := hJ.unsettled_gt hS hk
      have := hbin v j
      rw [hk]; congr 1; omega
    rcases weiNext_spec hJ with ⟨_, hall, hok⟩ | ⟨idx, _, hidx, hne, hun, w', e3, hok⟩ |
        ⟨V', m', _, hV', hI⟩
    · -- everything settled: the next frontier is empty and no node is undiscovered
      have hVB : ((List.finRange n).filter fun j => V.any fun v => b1.G1.get v j != 0) = [] := by
        rw [List.filter_eq_nil_iff]
        intro j _ hj
        obtain ⟨v, _, hS, _⟩ := hadj j hj
        rw [hall j] at hS; exact absurd hS (by simp)
      rw [hVB]
      obtain ⟨f, hf⟩ : ∃ f, fuel = f + 1 := ⟨fuel - 1, by omega⟩
      subst hf
      rw [bfsLoop_succ]
      simp only [List.isEmpty_nil, if_true]
      have hun : ((List.finRange n).filter fun i => b1.D[i].isNone) = [] := by
        rw [List.filter_eq_nil_iff]
        intro j _ hj
        obtain ⟨k, hk, _⟩ := (hJ.Sset j).1 (hall j)
        have hD := (hJ.settled_final (hall j) hk).1
        have := hs1.2.2.2.2.2 j
        rw [hD] at this
        cases hb : b1.D[j] with
        | none => rw [hb] at this; exact absurd this (by simp)
        | some c => rw [hb] at hj; exact absurd hj (by simp)
      rw [hun]
      simp only [List.isEmpty_nil, if_true]
      exact ⟨b1, rfl, hok.congr hs1.2.1 hs1.1 hs1.2.2.1⟩
    · -- the rest is unreachable: empty frontier, then the queue front is filled
      have hVB : ((List.finRange n).filter fun j => V.any fun v => b1.G1.get v j != 0) = [] := by
        rw [List.filter_eq_nil_iff]
        intro j _ hj
        obtain ⟨v, hv, hS, hL⟩ := hadj j hj
        have := hreach j ⟨v, hv, hS, hL⟩
        rw [hun j hS] at this; exact absurd this (by simp)
      rw [hVB]
      obtain ⟨f, hf⟩ : ∃ f, fuel = f + 1 := ⟨fuel - 1, by omega⟩
      subst hf
      rw [bfsLoop_succ]
      simp only [List.isEmpty_nil, if_true]
      have hunB : ((List.finRange n).filter fun i => b1.D[i].isNone) = idx := by
        rw [hidx]
        apply List.filter_congr
        intro j _
        have := hs1.2.2.2.2.2 j
        cases hb : b1.D[j] <;> cases hw : w1.D[j] <;> simp_all
      rw [hunB, if_neg (by rw [List.isEmpty_iff]; exact hne)]
      obtain ⟨b', eb', g1, g2, g3⟩ := fillFront_sim hs1 idx e3
      exact ⟨b', eb', hok.congr g1 g2 g3⟩
    · -- next level: the BFS frontier is the set the weighted loop selects
      have hm' : m' = m + 1 := by
        obtain ⟨x0, hx0⟩ := List.exists_mem_of_ne_nil V' hI.Vne
        have hd0 := (hI.Vmem x0).1 hx0
        have hS0 : w1.S[x0] = true := by
          by_contra hS
          obtain ⟨k, hk, hlt⟩ := (hI.Sset x0).1 (by simpa using hS)
          rw [hd0] at hk; simp only [Option.some.injEq] at hk; omega
        have hgt := hJ.unsettled_gt hS0 hd0
        -- a predecessor of x0 lies on level m' - 1, which is settled, hence ≤ m
        have hxu : x0 ≠ u := by
          rintro rfl; rw [hJ.u_settled] at hS0; exact absurd hS0 (by simp)
        obtain ⟨z, hz⟩ := exists_pred L (fun e => hxu e.symm) hd0
        obtain ⟨hLz, a, ha, hea⟩ := (pred_iff L).1 hz
        rw [hd0] at hea; simp only [Option.some.injEq] at hea
        have hb := hbin z x0
        have hSz : w1.S[z] = false := (hI.Sset z).2 ⟨a, ha, by have := Nat.pos_of_ne_zero hLz; omega⟩
        obtain ⟨k, hk, hkm⟩ := (hJ.Sset z).1 hSz
        rw [ha] at hk; simp only [Option.some.injEq] at hk; subst hk
        have := Nat.pos_of_ne_zero hLz
        omega
      subst hm'
      have hVB : ((List.finRange n).filter fun j => V.any fun v => b1.G1.get v j != 0) = V' := by
        rw [hV']
        apply List.filter_congr
        intro j _
        have hiff : (V.any fun v => b1.G1.get v j != 0) = true ↔
            (w1.S[j] && w1.D[j] == some (m + 1)) = true := by
          constructor
          · intro hj
            obtain ⟨v, hv, hS, hL⟩ := hadj j hj
            have hd := hreach j ⟨v, hv, hS, hL⟩
            have hjV : j ∈ V' := (hI.Vmem j).2 hd
            rw [hV', List.mem_filter] at hjV
            exact hjV.2
          · intro hD
            have hjV : j ∈ V' := by
              rw [hV', List.mem_filter]; exact ⟨List.mem_finRange j, hD⟩
            have hd := (hI.Vmem j).1 hjV
            have hS : w1.S[j] = true := by
              by_contra hS
              obtain ⟨k, hk, hlt⟩ := (hI.Sset j).1 (by simpa using hS)
              rw [hd] at hk; simp only [Option.some.injEq] at hk; omega
            have hju : j ≠ u := by
              rintro rfl; rw [hJ.u_settled] at hS; exact absurd hS (by simp)
            obtain ⟨z, hz⟩ := exists_pred L (fun e => hju e.symm) hd
            obtain ⟨hLz, a, ha, hea⟩ := (pred_iff L).1 hz
            rw [hd] at hea; simp only [Option.some.injEq] at hea
            have hb := hbin z j
            have hpos := Nat.pos_of_ne_zero hLz
            have hzV : z ∈ V := (h.Vmem z).2 (by rw [ha]; congr 1; omega)
            rw [List.any_eq_true]
            refine ⟨z, hzV, ?_⟩
            rw [hGb]
            have := (hG1 z j).2 ⟨hS, hLz⟩
            simpa using this
        exact Bool.eq_iff_iff.2 hiff
      rw [hVB]
      apply ih hI hs1
      have : 0 < V.length := List.length_pos_of_ne_nil h.Vne
      simp only [List.length_append, List.length_reverse]
      omega

end Bct.Between

namespace Bct.Between
open Bct

variable {n : ℕ} (L : AMat Nat n) (u : Fin n)

theorem initSt_sim : Sim (initSt false L u) (initSt true L u) := by
  refine ⟨rfl, rfl, rfl, rfl, rfl, fun x => ?_⟩
  simp only [initSt, Fin.getElem_fin, Vector.getElem_ofFn]
  by_cases h : x = u
  · subst h; simp
  · have : ¬ (⟨x.val, x.isLt⟩ : Fin n) = u := h
    simp [this]

/-- the BFS loop of every source ends normally in a state satisfying the forward-phase postcondition -/
theorem bfsFwd_ok (hbin : ∀ i j, L.get i j ≤ 1) : ∃ st, fwd L false u = .ok st ∧ FwdOK L u st := by
  have : fwd L false u = bfsLoop (n + 2) [u] (initSt false L u) := by simp [fwd]
  rw [this]
  exact bfsLoop_spec hbin (n + 2) (initSt_LI L u) (initSt_sim L u) (by simp)

/-- **the model of `edge_betweenness_bin` returns exactly the definition-level betweenness** on
every binary matrix -/
theorem brandes_bin_correct (hbin : ∀ i j, L.get i j ≤ 1) :
    brandes false L = .ok (ebcSpec L, bcSpec L) :=
  brandes_of_forward L false fun u => bfsFwd_ok L u hbin

end Bct.Between
