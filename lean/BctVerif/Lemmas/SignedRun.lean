import BctVerif.Lemmas.SignedSwap

/-!
# C06 helper lemmas: `pickFour`, one guarded step, the attempt / iteration loops
-/
namespace Bct.Signed

variable {n : ℕ}

/-- four pairwise distinct nodes -/
def Distinct4 (a b c d : Fin n) : Prop := a ≠ b ∧ a ≠ c ∧ a ≠ d ∧ b ≠ c ∧ b ≠ d ∧ c ≠ d

/-- whatever the draws, a returned quadruple is pairwise distinct, its nodes are the four base-n
digits of one of the draws, and at least one draw was consumed -/
theorem pickFour_spec : ∀ (ds : List Nat) {a b c d : Fin n} {rest : List Nat},
    pickFour n ds = .ok ((a, b, c, d), rest) →
    Distinct4 a b c d ∧ rest.length < ds.length ∧
    ∃ k ∈ ds, k < n ^ 4 ∧ a.val = k % n ∧ b.val = k / n % n ∧ c.val = k / n ^ 2 % n ∧ d.val = k / n ^ 3 % n
  | [], a, b, c, d, rest, h => by simp [pickFour] at h
  | k :: ds, a, b, c, d, rest, h => by
    unfold pickFour at h
    by_cases hn : 0 < n
    · simp only [hn, dite_true] at h
      by_cases hk : k < n ^ 4
      · simp only [hk, if_true] at h
        split at h
        · rename_i hd
          simp only [Except.ok.injEq, Prod.mk.injEq] at h
          obtain ⟨⟨rfl, rfl, rfl, rfl⟩, rfl⟩ := h
          exact ⟨hd, by simp, k, by simp, hk, rfl, rfl, rfl, rfl⟩
        · obtain ⟨h1, h2, k', hk', h3⟩ := pickFour_spec ds h
          exact ⟨h1, by simp; omega, k', by simp [hk'], h3⟩
      · simp [hk] at h
    · simp [hn] at h

theorem rowOp_apply_of_ne (R : FMat n) (a b c d i j : Fin n) (hia : i ≠ a) (hic : i ≠ c) :
    rowOp R a b c d i j = R i j := by simp [rowOp, hia, hic]

theorem guard_true {R : AMat Int n} {a b c d : Fin n} (h : guard R a b c d = true) :
    Int.sign (R.toFun a b) = Int.sign (R.toFun c d) ∧ Int.sign (R.toFun a d) = Int.sign (R.toFun c b) ∧
    Int.sign (R.toFun a b) ≠ Int.sign (R.toFun a d) := by
  have := h; simp [guard, AMat.toFun] at this ⊢; exact ⟨this.1.1, this.1.2, this.2⟩

/-- one accepted exchange on four distinct nodes keeps every ± row/column count, the multiset of
cells and the diagonal, and (undirected, on symmetric input) symmetry -/
theorem signedStep_preserved (und : Bool) (R R' : AMat Int n) (a b c d : Fin n) (hd : Distinct4 a b c d)
    (hs : und = true → IsSymm R.toFun) (h : signedStep und R a b c d = some R') :
    Preserved R.toFun R'.toFun ∧ (und = true → IsSymm R'.toFun) := by
  obtain ⟨hab, hac, had, hbc, hbd, hcd⟩ := hd
  unfold signedStep at h
  split at h
  · rename_i hg
    obtain ⟨h1, h2, _⟩ := guard_true hg
    simp only [Option.some.injEq] at h
    subst h
    cases und with
    | false =>
      refine ⟨?_, by simp⟩
      simp only [swap, Bool.false_eq_true, if_false]
      rw [swapDir_toFun R a b c d hac hbd]
      exact rowOp_preserved R.toFun a b c d hab hac had hbc hbd hcd h1 h2
    | true =>
      have hsy := hs rfl
      refine ⟨?_, fun _ => ?_⟩
      · simp only [swap, if_true]
        rw [swapUnd_toFun R a b c d hab hac had hbc hbd hcd hsy]
        refine (rowOp_preserved R.toFun a b c d hab hac had hbc hbd hcd h1 h2).trans
          (colOp_preserved _ a b c d hab hac had hbc hbd hcd ?_ ?_)
        · rw [rowOp_apply_of_ne _ _ _ _ _ _ _ hab.symm hbc, rowOp_apply_of_ne _ _ _ _ _ _ _ had.symm hcd.symm,
            hsy b a, hsy d c]; exact h1
        · rw [rowOp_apply_of_ne _ _ _ _ _ _ _ had.symm hcd.symm, rowOp_apply_of_ne _ _ _ _ _ _ _ hab.symm hbc,
            hsy d a, hsy b c]; exact h2
      · simp only [swap, if_true]
        exact swapUnd_symm R a b c d hab hac had hbc hbd hcd hsy
  · simp at h

/-- a rejected step changes nothing (there is no other branch) -/
theorem signedStep_none_or_some (und : Bool) (R : AMat Int n) (a b c d : Fin n) :
    (signedStep und R a b c d = none ∧ guard R a b c d = false) ∨
    (signedStep und R a b c d = some (swap und R a b c d) ∧ guard R a b c d = true) := by
  unfold signedStep; cases guard R a b c d <;> simp

theorem attempts_preserved (und : Bool) : ∀ (budget : Nat) (R : AMat Int n) (ds : List Nat)
    {R' : AMat Int n} {moved : Bool} {rest : List Nat},
    attempts und budget R ds = .ok (R', moved, rest) → (und = true → IsSymm R.toFun) →
    (Preserved R.toFun R'.toFun ∧ (und = true → IsSymm R'.toFun)) ∧ rest.length ≤ ds.length ∧ (moved = false → R' = R)
  | 0, R, ds, R', moved, rest, h, hs => by
    simp only [attempts, Except.ok.injEq, Prod.mk.injEq] at h
    obtain ⟨rfl, rfl, rfl⟩ := h
    exact ⟨⟨Preserved.refl _, hs⟩, le_refl _, fun _ => rfl⟩
  | budget + 1, R, ds, R', moved, rest, h, hs => by
    unfold attempts at h
    cases hp : pickFour n ds with
    | error e => simp [hp] at h
    | ok v =>
      obtain ⟨⟨a, b, c, d⟩, rest1⟩ := v
      obtain ⟨hd, hlen, _⟩ := pickFour_spec ds hp
      simp only [hp] at h
      cases hstep : signedStep und R a b c d with
      | some R1 =>
        simp only [hstep, Except.ok.injEq, Prod.mk.injEq] at h
        obtain ⟨rfl, rfl, rfl⟩ := h
        exact ⟨signedStep_preserved und R R1 a b c d hd hs hstep, by omega, by simp⟩
      | none =>
        simp only [hstep] at h
        obtain ⟨h1, h2, h3⟩ := attempts_preserved und budget R rest1 h hs
        exact ⟨h1, by omega, h3⟩

theorem iters_preserved (und : Bool) (maxAtt : Nat) : ∀ (it : Nat) (R : AMat Int n) (eff : Nat) (ds : List Nat)
    {R' : AMat Int n} {eff' : Nat} {rest : List Nat},
    iters und maxAtt it R eff ds = .ok (R', eff', rest) → (und = true → IsSymm R.toFun) →
    (Preserved R.toFun R'.toFun ∧ (und = true → IsSymm R'.toFun)) ∧ rest.length ≤ ds.length ∧
    (eff' = eff → R' = R)
  | 0, R, eff, ds, R', eff', rest, h, hs => by
    simp only [iters, Except.ok.injEq, Prod.mk.injEq] at h
    obtain ⟨rfl, rfl, rfl⟩ := h
    exact ⟨⟨Preserved.refl _, hs⟩, le_refl _, fun _ => rfl⟩
  | it + 1, R, eff, ds, R', eff', rest, h, hs => by
    unfold iters at h
    cases ha : attempts und (maxAtt + 1) R ds with
    | error e => simp [ha] at h
    | ok v =>
      obtain ⟨R1, moved, rest1⟩ := v
      simp only [ha] at h
      obtain ⟨⟨p1, s1⟩, l1, m1⟩ := attempts_preserved und (maxAtt + 1) R ds ha hs
      obtain ⟨⟨p2, s2⟩, l2, m2⟩ := iters_preserved und maxAtt it R1 _ rest1 h s1
      refine ⟨⟨p1.trans p2, s2⟩, by omega, ?_⟩
      intro he
      have hmono := iters_eff_mono und maxAtt it R1 _ rest1 h
      cases moved with
      | true => simp at hmono; omega
      | false =>
        simp only [Bool.false_eq_true, if_false] at m2 hmono
        rw [m2 he, m1 rfl]
where
  iters_eff_mono (und : Bool) (maxAtt : Nat) : ∀ (it : Nat) (R : AMat Int n) (eff : Nat) (ds : List Nat)
      {R' : AMat Int n} {eff' : Nat} {rest : List Nat},
      iters und maxAtt it R eff ds = .ok (R', eff', rest) → eff ≤ eff'
    | 0, R, eff, ds, R', eff', rest, h => by
      simp only [iters, Except.ok.injEq, Prod.mk.injEq] at h
      omega
    | it + 1, R, eff, ds, R', eff', rest, h => by
      unfold iters at h
      cases ha : attempts und (maxAtt + 1) R ds with
      | error e => simp [ha] at h
      | ok v =>
        obtain ⟨R1, moved, rest1⟩ := v
        simp only [ha] at h
        have := iters_eff_mono und maxAtt it R1 _ rest1 h
        split at this <;> omega

/-- `randmio_dir_signed` / `randmio_und_signed`, any `itr`, any draw list -/
theorem run_preserved (und : Bool) (R : AMat Int n) (itr : Nat) (ds : List Nat)
    {R' : AMat Int n} {eff : Nat} {rest : List Nat}
    (h : run und R itr ds = .ok (R', eff, rest)) (hs : und = true → IsSymm R.toFun) :
    (Preserved R.toFun R'.toFun ∧ (und = true → IsSymm R'.toFun)) ∧ rest.length ≤ ds.length ∧ (eff = 0 → R' = R) := by
  unfold run at h
  split at h
  · simp only [Except.ok.injEq, Prod.mk.injEq] at h
    obtain ⟨rfl, rfl, rfl⟩ := h
    exact ⟨⟨Preserved.refl _, hs⟩, le_refl _, fun _ => rfl⟩
  · cases und with
    | true => simp only [if_true] at h; exact iters_preserved true _ _ R 0 ds h hs
    | false => simp only [Bool.false_eq_true, if_false] at h; exact iters_preserved false _ _ R 0 ds h hs

/-- four pairwise distinct nodes need at least four nodes -/
theorem four_le_of_distinct {a b c d : Fin n} (h : Distinct4 a b c d) : 4 ≤ n := by
  obtain ⟨hab, hac, had, hbc, hbd, hcd⟩ := h
  have hcard : ({a, b, c, d} : Finset (Fin n)).card = 4 := by
    rw [Finset.card_insert_of_notMem, Finset.card_insert_of_notMem, Finset.card_insert_of_notMem, Finset.card_singleton]
    · simpa using hcd
    · simp [hbc, hbd]
    · simp [hab, hac, had]
  have := Finset.card_le_univ ({a, b, c, d} : Finset (Fin n))
  rw [hcard, Fintype.card_fin] at this
  exact this

/-- with fewer than four nodes nothing is drawn and nothing is rewired -/
theorem run_small (und : Bool) (R : AMat Int n) (itr : Nat) (ds : List Nat) (hn : n < 4) :
    run und R itr ds = .ok (R, 0, ds) := by
  unfold run; rw [if_pos hn]

end Bct.Signed
