import BctVerif.Lemmas.DistBase

/-!
# `distance_wei`: Dijkstra with simultaneous settling — function-level lemmas

`DS` is the function view of one source row of the model state `DSt` (tentative distances `d`, edge counts `b`,
temporary flags `S`).  `relaxF` is the body of `for v in V`, `settleF` is `S[V] = 0`.
`Phi` (settled ≤ temporary, edge feasibility out of settled nodes) is preserved by a whole round (`round_phi`);
`Wit` (every finite entry is the length and edge count of an actual walk) by every single relaxation.
-/
namespace Bct.Dist
variable {n : ℕ}

structure DS (n : ℕ) where
  d : Fin n → Len
  b : Fin n → ℕ
  S : Fin n → Bool

def relaxF (L : LMat n) (s : DS n) (v : Fin n) : DS n where
  d := fun w => if s.S w = true ∧ s.d v + L v w < s.d w then s.d v + L v w else s.d w
  b := fun w => if s.S w = true ∧ s.d v + L v w < s.d w then s.b v + 1 else s.b w
  S := s.S

def settleF (s : DS n) (V : List (Fin n)) : DS n where
  d := s.d
  b := s.b
  S := fun w => s.S w && !(V.contains w)

/-- every finite tentative distance is the length of a walk from `u` with `b` edges -/
def Wit (L : LMat n) (u : Fin n) (s : DS n) : Prop :=
  ∀ w, s.d w < ⊤ → ∃ p, walkEnd u p = w ∧ walkLen L u p = s.d w ∧ p.length = s.b w

theorem wit_relax (L : LMat n) (u : Fin n) (s : DS n) (v : Fin n) (h : Wit L u s) : Wit L u (relaxF L s v) := by
  intro w hfin
  simp only [relaxF] at hfin ⊢
  by_cases hc : s.S w = true ∧ s.d v + L v w < s.d w
  · rw [if_pos hc] at hfin ⊢
    rw [if_pos hc]
    have fv : s.d v < ⊤ := by
      by_contra hh; simp only [not_lt, top_le_iff] at hh; rw [hh] at hfin; simp at hfin
    obtain ⟨p, hp, hl, hb⟩ := h v fv
    refine ⟨p ++ [w], ?_, ?_, ?_⟩
    · rw [walkEnd_append]; rfl
    · rw [walkLen_append, hp, hl]; simp [walkLen]
    · simp [hb]
  · rw [if_neg hc] at hfin ⊢
    rw [if_neg hc]
    exact h w hfin

theorem wit_fold (L : LMat n) (u : Fin n) : ∀ (V : List (Fin n)) (s : DS n), Wit L u s → Wit L u (V.foldl (relaxF L) s) := by
  intro V
  induction V with
  | nil => intro s h; exact h
  | cons v V ih => intro s h; exact ih _ (wit_relax L u s v h)

theorem wit_settle (L : LMat n) (u : Fin n) (s : DS n) (V : List (Fin n)) (h : Wit L u s) : Wit L u (settleF s V) := h

/-- the effect of `for v in V` (all `v` already settled) on the row -/
structure RoundEff (L : LMat n) (s s' : DS n) (V : List (Fin n)) : Prop where
  S_eq : s'.S = s.S
  le : ∀ w, s'.d w ≤ s.d w
  keep : ∀ w, s.S w = false → s'.d w = s.d w
  relaxed : ∀ v ∈ V, ∀ w, s.S w = true → s'.d w ≤ s.d v + L v w
  from_ : ∀ w, s'.d w = s.d w ∨ ∃ v ∈ V, s'.d w = s.d v + L v w

theorem roundEff_fold (L : LMat n) : ∀ (V : List (Fin n)) (s : DS n), (∀ v ∈ V, s.S v = false) →
    RoundEff L s (V.foldl (relaxF L) s) V := by
  intro V
  induction V with
  | nil =>
    intro s _
    exact ⟨rfl, fun _ => le_refl _, fun _ _ => rfl, fun v hv => absurd hv (List.not_mem_nil), fun _ => Or.inl rfl⟩
  | cons v V ih =>
    intro s hV
    have hs1 : ∀ x ∈ V, (relaxF L s v).S x = false := fun x hx => hV x (List.mem_cons_of_mem _ hx)
    have r := ih (relaxF L s v) hs1
    simp only [List.foldl_cons]
    -- facts about the single step
    have step_le : ∀ w, (relaxF L s v).d w ≤ s.d w := by
      intro w; simp only [relaxF]; split_ifs with hc
      · exact le_of_lt hc.2
      · exact le_refl _
    have step_keep : ∀ w, s.S w = false → (relaxF L s v).d w = s.d w := by
      intro w hw; simp only [relaxF]; rw [if_neg]; rintro ⟨h1, _⟩; rw [hw] at h1; exact absurd h1 (by decide)
    have step_rel : ∀ w, s.S w = true → (relaxF L s v).d w ≤ s.d v + L v w := by
      intro w hw; simp only [relaxF]
      by_cases hc : s.d v + L v w < s.d w
      · rw [if_pos ⟨hw, hc⟩]
      · rw [if_neg (fun h => hc h.2)]; exact not_lt.mp hc
    refine ⟨r.S_eq, fun w => le_trans (r.le w) (step_le w), ?_, ?_, ?_⟩
    · intro w hw
      rw [r.keep w hw, step_keep w hw]
    · intro x hx w hw
      rcases List.mem_cons.mp hx with rfl | hx
      · exact le_trans (r.le w) (step_rel w hw)
      · have := r.relaxed x hx w hw
        rwa [step_keep x (hV x (List.mem_cons_of_mem _ hx))] at this
    · intro w
      rcases r.from_ w with e | ⟨x, hx, e⟩
      · rw [e]
        simp only [relaxF]
        split_ifs
        · exact Or.inr ⟨v, List.mem_cons_self, rfl⟩
        · exact Or.inl rfl
      · right
        refine ⟨x, List.mem_cons_of_mem _ hx, ?_⟩
        rw [e, step_keep x (hV x (List.mem_cons_of_mem _ hx))]

structure Phi (L : LMat n) (s : DS n) : Prop where
  sett_le : ∀ x y, s.S x = false → s.S y = true → s.d x ≤ s.d y
  feas : ∀ x w, s.S x = false → s.d w ≤ s.d x + L x w

/-- one whole round (`S[V] = 0`, then `for v in V` relaxations) preserves `Phi`, for lengths ≥ 0, when every
node of `V` sits at the current minimum `m` of the temporary nodes and every temporary node at `m` is in `V` -/
theorem round_phi (L : LMat n) (hL : ∀ i j, 0 ≤ L i j) (s : DS n) (V : List (Fin n)) (m : Len)
    (hVm : ∀ v ∈ V, s.d v = m) (hVall : ∀ y, s.S y = true → s.d y = m → y ∈ V)
    (hm : ∀ y, s.S y = true → m ≤ s.d y) (hm2 : ∀ x, s.S x = false → s.d x ≤ m) (h : Phi L s) :
    Phi L (V.foldl (relaxF L) (settleF s V)) ∧ RoundEff L (settleF s V) (V.foldl (relaxF L) (settleF s V)) V := by
  have hsettled : ∀ v ∈ V, (settleF s V).S v = false := by
    intro v hv; simp [settleF, hv]
  have r := roundEff_fold L V (settleF s V) hsettled
  refine ⟨?_, r⟩
  set s1 := V.foldl (relaxF L) (settleF s V) with hs1
  have S1 : ∀ w, s1.S w = (s.S w && !(V.contains w)) := fun w => by rw [r.S_eq]; rfl
  -- a node that is not temporary afterwards was settled before or is in V; either way d ≤ m and unchanged
  have old_le : ∀ x, s1.S x = false → s1.d x = s.d x ∧ s.d x ≤ m := by
    intro x hx
    have hx' : (settleF s V).S x = false := by rw [← r.S_eq]; exact hx
    refine ⟨r.keep x hx', ?_⟩
    rw [S1] at hx
    by_cases hxS : s.S x = true
    · have : x ∈ V := by simpa [hxS] using hx
      exact le_of_eq (hVm x this)
    · exact hm2 x (by simpa using hxS)
  have new_ge : ∀ y, s1.S y = true → m ≤ s1.d y := by
    intro y hy
    rw [S1] at hy
    have hyS : s.S y = true := by
      by_contra hh; simp [Bool.not_eq_true] at hh; simp [hh] at hy
    rcases r.from_ y with e | ⟨v, hv, e⟩
    · rw [e]; exact hm y hyS
    · rw [e]
      show m ≤ s.d v + L v y
      rw [hVm v hv]
      calc m = m + 0 := by simp
        _ ≤ m + L v y := by gcongr; exact hL v y
  constructor
  · intro x y hx hy
    obtain ⟨e, hle⟩ := old_le x hx
    rw [e]; exact le_trans hle (new_ge y hy)
  · intro x w hx
    obtain ⟨e, hle⟩ := old_le x hx
    rw [e]
    by_cases hxV : x ∈ V
    · have hxm : s.d x = m := hVm x hxV
      by_cases hw : s1.S w = true
      · have hw' : (settleF s V).S w = true := by rw [← r.S_eq]; exact hw
        exact r.relaxed x hxV w hw'
      · have hw0 : s1.S w = false := by simpa using hw
        obtain ⟨ew, hwle⟩ := old_le w hw0
        rw [ew]
        calc s.d w ≤ m := hwle
          _ = s.d x := hxm.symm
          _ = s.d x + 0 := by simp
          _ ≤ s.d x + L x w := by gcongr; exact hL x w
    · have hxS : s.S x = false := by
        rw [S1] at hx
        by_contra hh
        have hxt : s.S x = true := by simpa using hh
        have : (V.contains x) = true := by simpa [hxt] using hx
        exact hxV (by simpa using this)
      exact le_trans (r.le w) (h.feas x w hxS)

/-! ## minimum over a list -/

def minOverF (d : Fin n → Len) (ws : List (Fin n)) : Len := ws.foldl (fun m w => min m (d w)) ⊤

theorem foldl_min_le (d : Fin n → Len) : ∀ (ws : List (Fin n)) (a : Len),
    ws.foldl (fun m w => min m (d w)) a ≤ a ∧ ∀ w ∈ ws, ws.foldl (fun m w => min m (d w)) a ≤ d w := by
  intro ws
  induction ws with
  | nil => intro a; exact ⟨le_refl _, fun w hw => absurd hw List.not_mem_nil⟩
  | cons x ws ih =>
    intro a
    simp only [List.foldl_cons]
    obtain ⟨h1, h2⟩ := ih (min a (d x))
    refine ⟨le_trans h1 (min_le_left _ _), ?_⟩
    intro w hw
    rcases List.mem_cons.mp hw with rfl | hw
    · exact le_trans h1 (min_le_right _ _)
    · exact h2 w hw

theorem foldl_min_mem (d : Fin n → Len) : ∀ (ws : List (Fin n)) (a : Len),
    ws.foldl (fun m w => min m (d w)) a = a ∨ ∃ w ∈ ws, ws.foldl (fun m w => min m (d w)) a = d w := by
  intro ws
  induction ws with
  | nil => intro a; exact Or.inl rfl
  | cons x ws ih =>
    intro a
    simp only [List.foldl_cons]
    rcases ih (min a (d x)) with e | ⟨w, hw, e⟩
    · rw [e]
      rcases min_choice a (d x) with e' | e'
      · exact Or.inl e'
      · exact Or.inr ⟨x, List.mem_cons_self, e'⟩
    · exact Or.inr ⟨w, List.mem_cons_of_mem _ hw, e⟩

theorem minOverF_le (d : Fin n → Len) (ws : List (Fin n)) : ∀ w ∈ ws, minOverF d ws ≤ d w :=
  (foldl_min_le d ws ⊤).2

theorem minOverF_mem (d : Fin n → Len) (ws : List (Fin n)) : minOverF d ws = ⊤ ∨ ∃ w ∈ ws, minOverF d ws = d w :=
  foldl_min_mem d ws ⊤

end Bct.Dist
