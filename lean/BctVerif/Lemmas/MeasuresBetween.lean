import BctVerif.Lemmas.MeasuresPermList
import BctVerif.Props.C08
/-!
# Betweenness (models of the C08 slice) is equivariant

`dist`, `sigma`, `bcSpec`, `ebcSpec` of `Model/Between.lean` are renumbered with the graph; with the C08
theorems "algorithm = definition" the executed models `brandes` (edge_betweenness_wei / betweenness_wei /
edge_betweenness_bin) and `betweennessBin` inherit it.
-/
namespace Bct.Measures
open Bct Bct.Between

variable {n : Nat} (σ : Equiv.Perm (Fin n))

theorem sumFin_eq_fsum {α : Type} [Add α] [Zero α] (f : Fin n → α) : sumFin f = fsum f := rfl

theorem omin_right_comm (a x y : Option Nat) : omin (omin a x) y = omin (omin a y) x := by
  cases a <;> cases x <;> cases y <;> simp [omin, Nat.min_comm, Nat.min_left_comm]

theorem dist0_perm : (dist0 : DMat n) = permA σ dist0 := by
  apply AMat.ext_get; intro i j; simp [dist0]

theorem relaxCell_perm (L : AMat Nat n) (D : DMat n) (s t : Fin n) :
    relaxCell (permA σ L) (permA σ D) s t = relaxCell L D (σ s) (σ t) := by
  simp only [relaxCell, permA_get]
  exact foldl_finRange_perm σ
    (fun acc w => if L.get (σ s) w = 0 then acc else omin acc (oadd (L.get (σ s) w) (D.get w (σ t))))
    (fun z x y => by
      by_cases hx : L.get (σ s) x = 0 <;> by_cases hy : L.get (σ s) y = 0 <;> simp [hx, hy, omin_right_comm]) _

theorem relax_perm (L : AMat Nat n) (D : DMat n) : relax (permA σ L) (permA σ D) = permA σ (relax L D) := by
  apply AMat.ext_get; intro s t; simp [relax, relaxCell_perm]

theorem iter_relax_perm (L : AMat Nat n) (k : Nat) (D : DMat n) :
    iter (relax (permA σ L)) k (permA σ D) = permA σ (iter (relax L) k D) := by
  induction k with
  | zero => rfl
  | succ k ih => simp only [iter, ih, relax_perm]

theorem dist_perm (L : AMat Nat n) : Between.dist (permA σ L) = permA σ (dist L) := by
  unfold Between.dist
  have h := iter_relax_perm σ L n dist0
  rw [← dist0_perm σ] at h
  exact h

theorem tight_perm (L : AMat Nat n) (D : DMat n) (s w t : Fin n) :
    tight (permA σ L) (permA σ D) s w t = tight L D (σ s) (σ w) (σ t) := by
  simp [tight]

theorem sigStep_perm (L : AMat Nat n) (D : DMat n) (S : AMat Nat n) :
    sigStep (permA σ L) (permA σ D) (permA σ S) = permA σ (sigStep L D S) := by
  apply AMat.ext_get; intro s t
  simp only [sigStep, AMat.get_ofFn, permA_get, sumFin_eq_fsum, tight_perm]
  congr 1
  · simp
  · exact fsum_congr_perm σ _ _ (fun _ => rfl)

theorem iter_sigStep_perm (L : AMat Nat n) (D : DMat n) (k : Nat) (S : AMat Nat n) :
    iter (sigStep (permA σ L) (permA σ D)) k (permA σ S) = permA σ (iter (sigStep L D) k S) := by
  induction k with
  | zero => rfl
  | succ k ih => simp only [iter, ih, sigStep_perm]

theorem sigma_perm (L : AMat Nat n) : sigma (permA σ L) = permA σ (sigma L) := by
  unfold sigma sigmaOf
  rw [dist_perm]
  have h := iter_sigStep_perm σ L (Between.dist L) n (AMat.ofFn fun _ _ => 0)
  have hz : permA σ (AMat.ofFn fun _ _ => (0 : Nat)) = (AMat.ofFn fun _ _ => 0 : AMat Nat n) := by
    apply AMat.ext_get; intro i j; simp
  rw [hz] at h
  exact h

theorem sigmaV_perm (D : DMat n) (S : AMat Nat n) (s t v : Fin n) :
    sigmaV (permA σ D) (permA σ S) s t v = sigmaV D S (σ s) (σ t) (σ v) := by
  simp [sigmaV]

theorem sigmaE_perm (L : AMat Nat n) (D : DMat n) (S : AMat Nat n) (s t u w : Fin n) :
    sigmaE (permA σ L) (permA σ D) (permA σ S) s t u w = sigmaE L D S (σ s) (σ t) (σ u) (σ w) := by
  simp [sigmaE]

theorem reach_perm (D : DMat n) (s t : Fin n) : reach (permA σ D) s t = reach D (σ s) (σ t) := by
  simp [reach]

theorem pairV_perm (D : DMat n) (S : AMat Nat n) (s t v : Fin n) :
    pairV (permA σ D) (permA σ S) s t v = pairV D S (σ s) (σ t) (σ v) := by
  simp [pairV, sigmaV_perm, reach_perm]

theorem pairE_perm (L : AMat Nat n) (D : DMat n) (S : AMat Nat n) (s t u w : Fin n) :
    pairE (permA σ L) (permA σ D) (permA σ S) s t u w = pairE L D S (σ s) (σ t) (σ u) (σ w) := by
  simp [pairE, sigmaE_perm, reach_perm]

theorem bcOf_perm (D : DMat n) (S : AMat Nat n) : bcOf (permA σ D) (permA σ S) = permVec σ (bcOf D S) := by
  apply vec_ext; intro v
  simp only [bcOf, depOf, vget_ofFn, permVec_get, sumFin_eq_fsum, pairV_perm]
  exact fsum2_congr_perm σ _ _ (fun _ _ => rfl)

theorem ebcOf_perm (L : AMat Nat n) (D : DMat n) (S : AMat Nat n) :
    ebcOf (permA σ L) (permA σ D) (permA σ S) = permA σ (ebcOf L D S) := by
  apply AMat.ext_get; intro u w
  simp only [ebcOf, AMat.get_ofFn, permA_get, sumFin_eq_fsum, pairE_perm]
  exact fsum2_congr_perm σ _ _ (fun _ _ => rfl)

/-- node betweenness from the definition is renumbered with the graph -/
theorem bcSpec_perm (L : AMat Nat n) : bcSpec (permA σ L) = permVec σ (bcSpec L) := by
  unfold bcSpec; rw [dist_perm, sigma_perm, bcOf_perm]

/-- edge betweenness from the definition is renumbered on both axes -/
theorem ebcSpec_perm (L : AMat Nat n) : ebcSpec (permA σ L) = permA σ (ebcSpec L) := by
  unfold ebcSpec; rw [dist_perm, sigma_perm, ebcOf_perm]

/-- executed model of `edge_betweenness_wei` / `betweenness_wei` -/
theorem brandes_wei_perm (L : AMat Nat n) :
    brandes true (permA σ L) = (brandes true L).map fun r => (permA σ r.1, permVec σ r.2) := by
  rw [C08.brandes_wei_correct, C08.brandes_wei_correct, ebcSpec_perm, bcSpec_perm]; rfl

/-- executed model of `edge_betweenness_bin` on binary matrices -/
theorem brandes_bin_perm (L : AMat Nat n) (hbin : ∀ i j, L.get i j ≤ 1) :
    brandes false (permA σ L) = (brandes false L).map fun r => (permA σ r.1, permVec σ r.2) := by
  rw [C08.edge_betweenness_bin_correct L hbin,
    C08.edge_betweenness_bin_correct (permA σ L) (fun i j => by simpa using hbin (σ i) (σ j)), ebcSpec_perm, bcSpec_perm]
  rfl

/-- executed model of `betweenness_bin` on binary matrices with empty diagonal -/
theorem betweennessBin_perm (L : AMat Nat n) (hbin : ∀ i j, L.get i j ≤ 1) (hdiag : ∀ i, L.get i i = 0) :
    betweennessBin (permA σ L) = (betweennessBin L).map (permVec σ) := by
  rw [C08.betweennessBin_correct L hbin hdiag,
    C08.betweennessBin_correct (permA σ L) (fun i j => by simpa using hbin (σ i) (σ j)) (fun i => by simpa using hdiag (σ i)),
    bcSpec_perm]
  rfl

end Bct.Measures
