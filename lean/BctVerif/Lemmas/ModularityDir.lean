import BctVerif.Lemmas.ModularitySign

/-! # The directed kernel (`knm_o/i`, `km_o/i`) of `modularity_finetune_dir`, arbitrary (directed) `W`

The code updates `knm_o[:, mb] += W[u, :]` and `knm_i[:, mb] += W[:, u]` (rows and columns exchanged with
respect to what the two arrays hold), so individually they drift; but only `knm_o + knm_i` enters the gain
`(dq_o + dq_i)/2`, and that sum is kept exactly.  The invariant is therefore stated on the sum. -/
namespace Bct.Modularity
open Finset

variable {n : ℕ}
variable {g0 : GState}

def DirInv (W : RMat n) (γ : ℚ) (st : DirSt n) (c : Fin n → Fin n) : Prop :=
  st.W = W ∧ st.s = total W ∧ st.γ = γ ∧
  (∀ i : Fin n, st.ko[i] = rowSum W i) ∧ (∀ i : Fin n, st.ki[i] = colSum W i) ∧
  (∀ i t : Fin n, st.knmo.get i t + st.knmi.get i t = ∑ j, if c j = t then W.get i j + W.get j i else 0) ∧
  (∀ t : Fin n, st.kmo[t] = ∑ j, if c j = t then rowSum W j else 0) ∧
  (∀ t : Fin n, st.kmi[t] = ∑ j, if c j = t then colSum W j else 0)

theorem HnmF_symmBmod (W : RMat n) (γ : ℚ) (c : Fin n → Fin n) (u t : Fin n) :
    HnmF (symmetrise (Bmod W γ)) c u t = (∑ j, if c j = t then W.get u j + W.get j u else 0) / 2
      - γ * rowSum W u * (∑ j, if c j = t then colSum W j else 0) / (2 * total W)
      - γ * colSum W u * (∑ j, if c j = t then rowSum W j else 0) / (2 * total W) := by
  unfold HnmF
  simp only [symmetrise, AMat.get_ofFn, Bmod_get]
  have : ∀ j, (if c j = t then (W.get u j - γ * rowSum W u * colSum W j / total W
        + (W.get j u - γ * rowSum W j * colSum W u / total W)) / 2 else 0)
      = (if c j = t then W.get u j + W.get j u else 0) / 2
        - γ * rowSum W u * (if c j = t then colSum W j else 0) / (2 * total W)
        - γ * colSum W u * (if c j = t then rowSum W j else 0) / (2 * total W) := by
    intro j
    split_ifs
    · by_cases hs : total W = 0
      · simp [hs]
      · field_simp; ring
    · simp
  simp only [this, Finset.sum_sub_distrib]
  congr 1
  · congr 1
    · rw [Finset.sum_div]
    · rw [Finset.mul_sum, Finset.sum_div]
  · rw [Finset.mul_sum, Finset.sum_div]

/-- **bookkeeping_inv + gain_dir** — for *every* (also asymmetric) `W` the coded `(dq_o + dq_i)/2` is the
exact gain for the symmetrised modularity matrix, and the coded updates keep the invariant. -/
theorem dirKern_spec (W : RMat n) (γ : ℚ) :
    KernSpec (dirKern n) (symmetrise (Bmod W γ)) 1 (DirInv W γ) where
  sym := symmetrise_symm _
  pos := one_pos
  gain := by
    rintro st c ⟨hWe, hs, hg, hko, hki, hS, hMo, hMi⟩ u t _
    have e1 := hS u t
    have e2 := hS u (c u)
    simp only [dirKern, one_mul, dqF, HnmF_symmBmod]
    simp only [symmetrise, AMat.get_ofFn, Bmod_get]
    rw [hWe, hs, hg, hko, hki, hMo, hMo, hMi, hMi]
    by_cases hs0 : total W = 0
    · simp only [hs0, div_zero, mul_zero, sub_zero]
      linear_combination (1 / 2 : ℚ) * e1 - (1 / 2 : ℚ) * e2
    · field_simp
      linear_combination (total W) * e1 - (total W) * e2
  move := by
    rintro st c ⟨hWe, hs, hg, hko, hki, hS, hMo, hMi⟩ u t _
    refine ⟨hWe, hs, hg, hko, hki, ?_, ?_, ?_⟩
    · intro i t'
      simp only [dirKern, colAdd_get]
      rw [sum_update_label (fun j l => if l = t' then W.get i j + W.get j i else 0) c u t, ← hS, hWe]
      simp only [eq_comm (a := t')]
      split_ifs <;> ring
    · intro t'
      simp only [dirKern, vecAdd_get]
      rw [sum_update_label (fun j l => if l = t' then rowSum W j else 0) c u t, hMo, hko]
      simp only [eq_comm (a := t')]; ring
    · intro t'
      simp only [dirKern, vecAdd_get]
      rw [sum_update_label (fun j l => if l = t' then colSum W j else 0) c u t, hMi, hki]
      simp only [eq_comm (a := t')]; ring

theorem dirInitFine_inv (W : RMat n) (γ : ℚ) (c : Lab n) :
    DirInv W γ (dirInitFine W γ c) (labOf c) := by
  refine ⟨rfl, rfl, rfl, ?_, ?_, ?_, ?_, ?_⟩
  · intro i
    simp only [dirInitFine, Fin.getElem_fin, Vector.getElem_ofFn, AMat.get_ofFn, fsum_eq]
    exact sum_nodeToModule_rows W c i
  · intro i
    simp only [dirInitFine, Fin.getElem_fin, Vector.getElem_ofFn, AMat.get_ofFn, fsum_eq, colSum_eq]
    rw [Finset.sum_comm]
    refine Finset.sum_congr rfl (fun j _ => ?_)
    simp
  · intro i t
    simp only [dirInitFine, AMat.get_ofFn, fsum_eq, labOf_apply, Fin.getElem_fin, ← Finset.sum_add_distrib]
    refine Finset.sum_congr rfl (fun j _ => ?_)
    by_cases h : c[(j : ℕ)] = t <;> simp [h]
  · intro t
    simp only [dirInitFine, Fin.getElem_fin, Vector.getElem_ofFn, AMat.get_ofFn, fsum_eq]
    rw [Finset.sum_comm]
    refine Finset.sum_congr rfl (fun j _ => ?_)
    by_cases h : c[(j : ℕ)] = t
    · simp only [labOf_apply, Fin.getElem_fin, h, if_true, rowSum_eq]
    · simp [labOf, h]
  · intro t
    simp only [dirInitFine, Fin.getElem_fin, Vector.getElem_ofFn, AMat.get_ofFn, fsum_eq]
    rw [Finset.sum_comm]
    refine Finset.sum_congr rfl (fun j _ => ?_)
    by_cases h : c[(j : ℕ)] = t
    · simp only [labOf_apply, Fin.getElem_fin, h, if_true, colSum_eq]
    · simp [labOf, h]

/-- **modularity_finetune_dir never returns a partition worse than its start** — every (directed) network
of positive total weight, every start partition, every sequence of visiting orders. -/
theorem finetuneDir_spec (W : RMat n) (γ : ℚ) (c0 : Fin n → ℤ) (ds : List ℕ) (out : Out n)
    (hs : 0 < total W) (h : finetuneDir W γ c0 ds g0 = .ok out) :
    ∀ p ∈ out.levels, Qdir W γ c0 ≤ Qdir W γ (labOf p.1) := by
  unfold finetuneDir at h
  obtain ⟨c, hc, _⟩ := toLab_ok c0
  simp only [bind, Except.bind, pure, Except.pure] at h
  split_ifs at h with hs0
  simp only [hc] at h
  generalize hp : passes (dirKern n) n n (ds.length + 1) _ ds = res at h
  cases res with
  | error e => simp at h
  | ok r =>
    obtain ⟨x, rest⟩ := r
    simp only at h
    obtain ⟨c', hc', _⟩ := toLab_ok (labFn x.m)
    simp only [hc'] at h
    cases h
    obtain ⟨_, hmono⟩ := passes_spec (dirKern_spec W γ) n n _ _ _ _ _
      (by simpa [pst0] using dirInitFine_inv W γ c) hp
    intro p hp'
    simp only [List.mem_singleton] at hp'
    subst hp'
    unfold Qdir
    apply div_le_div_of_nonneg_right _ (le_of_lt hs)
    rw [← Qobj_symmetrise, ← Qobj_symmetrise (Bmod W γ)]
    calc Qobj (symmetrise (Bmod W γ)) c0 = Qobj (symmetrise (Bmod W γ)) (labOf c) :=
          Qobj_congr _ _ _ (labOf_toLab_congr c0 c hc)
      _ ≤ Qobj (symmetrise (Bmod W γ)) (labOf x.m) := by simpa [pst0] using hmono
      _ = Qobj (symmetrise (Bmod W γ)) (labOf c') :=
          Qobj_congr _ _ _ (fun i j => by rw [← labFn_congr, labOf_toLab_congr (labFn x.m) c' hc'])

end Bct.Modularity
