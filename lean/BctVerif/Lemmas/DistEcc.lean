import BctVerif.Lemmas.DistBase

/-!
# `charpath`: eccentricity, radius, diameter (row maxima of the unmasked cells, then min / max)
-/
namespace Bct.Dist
variable {n : ℕ}

theorem Ext.toLen_max (a b : Ext) : (Ext.max a b).toLen = Max.max a.toLen b.toLen := by
  unfold Ext.max
  by_cases h : Ext.lt a b = true
  · rw [if_pos h]; exact (max_eq_right (le_of_lt ((Ext.lt_iff _ _).mp h))).symm
  · rw [if_neg h]
    have : ¬ a.toLen < b.toLen := fun hh => h ((Ext.lt_iff _ _).mpr hh)
    exact (max_eq_left (not_lt.mp this)).symm

theorem Ext.max_choice (a b : Ext) : Ext.max a b = a ∨ Ext.max a b = b := by
  unfold Ext.max; split_ifs <;> simp

theorem Ext.min_choice (a b : Ext) : Ext.min a b = a ∨ Ext.min a b = b := by
  unfold Ext.min; split_ifs <;> simp

theorem foldl_max_spec : ∀ (xs : List Ext) (a : Ext),
    (a.toLen ≤ (xs.foldl Ext.max a).toLen ∧ ∀ x ∈ xs, x.toLen ≤ (xs.foldl Ext.max a).toLen) ∧
      (xs.foldl Ext.max a = a ∨ xs.foldl Ext.max a ∈ xs) := by
  intro xs
  induction xs with
  | nil => intro a; exact ⟨⟨le_refl _, fun x hx => absurd hx List.not_mem_nil⟩, Or.inl rfl⟩
  | cons y xs ih =>
    intro a
    simp only [List.foldl_cons]
    obtain ⟨⟨h1, h2⟩, h3⟩ := ih (Ext.max a y)
    have hm : (Ext.max a y).toLen = Max.max a.toLen y.toLen := Ext.toLen_max a y
    refine ⟨⟨le_trans (by rw [hm]; exact le_max_left _ _) h1, ?_⟩, ?_⟩
    · intro x hx
      rcases List.mem_cons.mp hx with rfl | hx
      · exact le_trans (by rw [hm]; exact le_max_right _ _) h1
      · exact h2 x hx
    · rcases h3 with e | e
      · rw [e]
        rcases Ext.max_choice a y with e' | e'
        · exact Or.inl e'
        · exact Or.inr (by rw [e']; exact List.mem_cons_self)
      · exact Or.inr (List.mem_cons_of_mem _ e)

theorem foldl_min_spec : ∀ (xs : List Ext) (a : Ext),
    ((xs.foldl Ext.min a).toLen ≤ a.toLen ∧ ∀ x ∈ xs, (xs.foldl Ext.min a).toLen ≤ x.toLen) ∧
      (xs.foldl Ext.min a = a ∨ xs.foldl Ext.min a ∈ xs) := by
  intro xs
  induction xs with
  | nil => intro a; exact ⟨⟨le_refl _, fun x hx => absurd hx List.not_mem_nil⟩, Or.inl rfl⟩
  | cons y xs ih =>
    intro a
    simp only [List.foldl_cons]
    obtain ⟨⟨h1, h2⟩, h3⟩ := ih (Ext.min a y)
    have hm : (Ext.min a y).toLen = Min.min a.toLen y.toLen := Ext.toLen_min a y
    refine ⟨⟨le_trans h1 (by rw [hm]; exact min_le_left _ _), ?_⟩, ?_⟩
    · intro x hx
      rcases List.mem_cons.mp hx with rfl | hx
      · exact le_trans h1 (by rw [hm]; exact min_le_right _ _)
      · exact h2 x hx
    · rcases h3 with e | e
      · rw [e]
        rcases Ext.min_choice a y with e' | e'
        · exact Or.inl e'
        · exact Or.inr (by rw [e']; exact List.mem_cons_self)
      · exact Or.inr (List.mem_cons_of_mem _ e)

theorem mem_eccCells (D : AMat Ext n) (incDiag incInf : Bool) (i : Fin n) (x : Ext) :
    x ∈ eccCells D incDiag incInf i ↔
      ∃ j, (incDiag = true ∨ i ≠ j) ∧ x = D.get i j ∧ (incInf = true ∨ x.isFin = true) := by
  simp only [eccCells, List.mem_filter, List.mem_map, List.mem_finRange, true_and, Bool.or_eq_true, decide_eq_true_eq]
  constructor
  · rintro ⟨⟨j, hj, rfl⟩, hx⟩; exact ⟨j, hj, rfl, hx⟩
  · rintro ⟨j, hj, rfl, hx⟩; exact ⟨⟨j, hj, rfl⟩, hx⟩

/-- `ecc[i]` is the largest unmasked cell of row `i`, and NumPy's fill value `1e20` when every cell of the row is masked -/
theorem eccOf_spec (D : AMat Ext n) (incDiag incInf : Bool) (i : Fin n) :
    (eccCells D incDiag incInf i = [] → eccOf D incDiag incInf i = maskedFill) ∧
    (eccCells D incDiag incInf i ≠ [] → eccOf D incDiag incInf i ∈ eccCells D incDiag incInf i ∧
      ∀ x ∈ eccCells D incDiag incInf i, x.toLen ≤ (eccOf D incDiag incInf i).toLen) := by
  unfold eccOf
  cases h : eccCells D incDiag incInf i with
  | nil => exact ⟨fun _ => rfl, fun hne => absurd rfl hne⟩
  | cons x xs =>
    refine ⟨fun hh => absurd hh (by simp), fun _ => ?_⟩
    obtain ⟨⟨h1, h2⟩, h3⟩ := foldl_max_spec xs x
    show List.foldl Ext.max x xs ∈ x :: xs ∧ ∀ y ∈ x :: xs, y.toLen ≤ (List.foldl Ext.max x xs).toLen
    refine ⟨?_, ?_⟩
    · rcases h3 with e | e
      · rw [e]; exact List.mem_cons_self
      · exact List.mem_cons_of_mem _ e
    · intro y hy
      rcases List.mem_cons.mp hy with rfl | hy
      · exact h1
      · exact h2 y hy

/-- `radius` / `diameter` are the smallest / largest `ecc`, both attained -/
theorem radiusDiameter_spec (D : AMat Ext n) (incDiag incInf : Bool) (r d : Ext)
    (h : radiusDiameter D incDiag incInf = some (r, d)) :
    (∀ i, r.toLen ≤ (eccOf D incDiag incInf i).toLen ∧ (eccOf D incDiag incInf i).toLen ≤ d.toLen) ∧
      (∃ i, r = eccOf D incDiag incInf i) ∧ (∃ i, d = eccOf D incDiag incInf i) := by
  unfold radiusDiameter at h
  cases hl : (List.finRange n).map (eccOf D incDiag incInf) with
  | nil => rw [hl] at h; simp at h
  | cons e es =>
    rw [hl] at h
    simp only [Option.some.injEq, Prod.mk.injEq] at h
    obtain ⟨hr, hd⟩ := h
    have hmem : ∀ y, y ∈ e :: es ↔ ∃ i, y = eccOf D incDiag incInf i := by
      intro y; rw [← hl]; simp [eq_comm]
    obtain ⟨⟨a1, a2⟩, a3⟩ := foldl_min_spec es e
    obtain ⟨⟨b1, b2⟩, b3⟩ := foldl_max_spec es e
    rw [hr] at a1 a2 a3; rw [hd] at b1 b2 b3
    refine ⟨?_, ?_, ?_⟩
    · intro i
      have hi : eccOf D incDiag incInf i ∈ e :: es := (hmem _).mpr ⟨i, rfl⟩
      rcases List.mem_cons.mp hi with e' | e'
      · rw [e']; exact ⟨a1, b1⟩
      · exact ⟨a2 _ e', b2 _ e'⟩
    · apply (hmem r).mp
      rcases a3 with e' | e'
      · rw [e']; exact List.mem_cons_self
      · exact List.mem_cons_of_mem _ e'
    · apply (hmem d).mp
      rcases b3 with e' | e'
      · rw [e']; exact List.mem_cons_self
      · exact List.mem_cons_of_mem _ e'

theorem radiusDiameter_isSome (D : AMat Ext n) (incDiag incInf : Bool) (hn : 1 ≤ n) :
    (radiusDiameter D incDiag incInf).isSome = true := by
  unfold radiusDiameter
  cases hl : (List.finRange n).map (eccOf D incDiag incInf) with
  | nil =>
    have := congrArg List.length hl
    simp at this; omega
  | cons e es => rfl

end Bct.Dist
