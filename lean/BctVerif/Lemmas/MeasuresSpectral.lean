import BctVerif.Lemmas.MeasuresDist
/-!
# Exact definitions behind the spectral measures are equivariant
(subgraph centrality as the series Σ A^k/k!, PageRank as the solution of its linear system, eigenvectors)
-/
namespace Bct.Measures
open Bct

variable {n : Nat} (σ : Equiv.Perm (Fin n))

theorem sgLoop_perm (A : AMat Int n) (r k : Nat) (P : AMat Int n) (fact : Nat) (acc : Vector Rat n) :
    sgLoop (permA σ A) r k (permA σ P) fact (permVec σ acc) = permVec σ (sgLoop A r k P fact acc) := by
  induction r generalizing k P fact acc with
  | zero => simp [sgLoop]
  | succ r ih =>
    simp only [sgLoop, mmul_perm]
    have h : (Vector.ofFn fun i => vget (permVec σ acc) i + (((permA σ P).get i i : Int) : Rat) / (fact : Rat)) =
        permVec σ (Vector.ofFn fun i => vget acc i + ((P.get i i : Int) : Rat) / (fact : Rat)) := by
      apply vec_ext; intro i; simp
    rw [h, ih]

theorem subgraphSeries_perm (A : AMat Int n) (K : Nat) : subgraphSeries (permA σ A) K = permVec σ (subgraphSeries A K) := by
  unfold subgraphSeries
  have h := sgLoop_perm σ A K 0 eye 1 (Vector.ofFn fun _ => 0)
  have hz : permVec σ (Vector.ofFn fun _ : Fin n => (0 : Rat)) = Vector.ofFn fun _ => 0 := by
    apply vec_ext; intro i; simp
  rw [← eye_perm σ, hz] at h
  exact h

theorem mulVecQ_perm (M : AMat Rat n) (v : Vector Rat n) :
    mulVecQ (permA σ M) (permVec σ v) = permVec σ (mulVecQ M v) := by
  apply vec_ext; intro i
  simp only [mulVecQ, vget_ofFn, permVec_get, permA_get]
  exact fsum_congr_perm σ _ _ (fun _ => rfl)

theorem prMatrix_perm (A : AMat Int n) (d : Rat) : prMatrix (permA σ A) d = permA σ (prMatrix A d) := by
  apply AMat.ext_get; intro i j
  simp [prMatrix, colSum_perm]

theorem isPagerank_perm (A : AMat Int n) (d : Rat) (f r : Vector Rat n) (h : IsPagerank A d f r) :
    IsPagerank (permA σ A) d (permVec σ f) (permVec σ r) := by
  obtain ⟨r', h1, h2⟩ := h
  refine ⟨permVec σ r', ?_, ?_⟩
  · rw [prMatrix_perm, mulVecQ_perm, h1]
    apply vec_ext; intro i
    simp only [vget_ofFn, permVec_get]
    have : (fsum fun k => vget f (σ k)) = fsum fun k => vget f k := fsum_congr_perm σ _ _ (fun _ => rfl)
    rw [this]
  · rw [h2]
    apply vec_ext; intro i
    simp only [vget_ofFn, permVec_get]
    have : (fsum fun k => vget r' (σ k)) = fsum fun k => vget r' k := fsum_congr_perm σ _ _ (fun _ => rfl)
    rw [this]

theorem isEigvec_perm (A : AMat Int n) (lam : Rat) (v : Vector Rat n) (h : IsEigvec A lam v) :
    IsEigvec (permA σ A) lam (permVec σ v) := by
  unfold IsEigvec at *
  have hc : (AMat.ofFn fun i j => (((permA σ A).get i j : Int) : Rat)) = permA σ (AMat.ofFn fun i j => ((A.get i j : Int) : Rat)) := by
    apply AMat.ext_get; intro i j; simp
  rw [hc, mulVecQ_perm, h]
  apply vec_ext; intro i; simp

end Bct.Measures
