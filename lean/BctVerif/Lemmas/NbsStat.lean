import BctVerif.Model.Nbs
import Mathlib.Algebra.BigOperators.Group.List.Basic
import Mathlib.Algebra.Order.Field.Rat
import Mathlib.Analysis.Real.Sqrt
import Mathlib.Tactic
/-!
# Statistics of the NBS model (C19): symmetries of the thresholded t statistics

* `exceeds_swap_*`   – swapping the groups swaps the tails `left ↔ right`, keeps `both`
* `exceeds2_perm`, `exceedsP_perm` – reordering subjects (pairs, in the paired test) changes nothing
* `adj0_*`           – the same statements for the thresholded adjacency
* `gtSqrt_iff`       – the square-root-free comparison means `thr < num / √V` over the reals
-/
namespace Bct.Nbs
open Bct

/-! ## basic list facts -/

theorem qsum_map_neg (l : List ℚ) : qsum (l.map Neg.neg) = - qsum l := by
  unfold qsum
  induction l with
  | nil => simp
  | cons a l ih => simp only [List.map_cons, List.sum_cons, ih]; ring

theorem qabs_eq_abs (a : ℚ) : qabs a = |a| := by
  unfold qabs
  split_ifs with h
  · exact (abs_of_neg h).symm
  · exact (abs_of_nonneg (not_lt.mp h)).symm

theorem qabs_neg (a : ℚ) : qabs (-a) = qabs a := by
  simp [qabs_eq_abs]

theorem mean_map_neg (l : List ℚ) : mean (l.map Neg.neg) = - mean l := by
  unfold mean
  rw [qsum_map_neg, List.length_map, neg_div]

theorem pairedSS_map_neg (l : List ℚ) : pairedSS (l.map Neg.neg) = pairedSS l := by
  unfold pairedSS
  rw [qsum_map_neg, List.length_map, List.map_map]
  have : ((fun a : ℚ => a * a) ∘ Neg.neg) = fun a : ℚ => a * a := by
    funext a; simp
  rw [this]; ring

theorem diffs_swap (x y : List ℚ) : diffs y x = (diffs x y).map Neg.neg := by
  unfold diffs
  induction x generalizing y with
  | nil => simp
  | cons a x ih =>
    cases y with
    | nil => simp
    | cons b y => simp [ih]

theorem diffs_eq_zip (x y : List ℚ) : diffs x y = (x.zip y).map (fun p => p.1 - p.2) := by
  unfold diffs
  rw [List.zip, List.map_zipWith]

theorem pooledV_comm (x y : List ℚ) : pooledV x y = pooledV y x := by
  unfold pooledV
  rw [add_comm (ssd x), add_comm (x.length : ℚ), add_comm (1 / (x.length : ℚ))]

theorem tnum_left_neg (d : ℚ) : tnum .left (-d) = tnum .right d := by simp [tnum]
theorem tnum_right_neg (d : ℚ) : tnum .right (-d) = tnum .left d := by simp [tnum]
theorem tnum_both_neg (d : ℚ) : tnum .both (-d) = tnum .both d := by simp [tnum, qabs_neg]

/-! ## 1. swapping the groups -/

theorem exceeds2_swap_left (x y : List ℚ) (thr : ℚ) : exceeds2 x y thr .left = exceeds2 y x thr .right := by
  unfold exceeds2
  rw [pooledV_comm y x, ← tnum_left_neg (mean y - mean x), neg_sub]

theorem exceeds2_swap_right (x y : List ℚ) (thr : ℚ) : exceeds2 x y thr .right = exceeds2 y x thr .left := by
  unfold exceeds2
  rw [pooledV_comm y x, ← tnum_right_neg (mean y - mean x), neg_sub]

theorem exceeds2_swap_both (x y : List ℚ) (thr : ℚ) : exceeds2 x y thr .both = exceeds2 y x thr .both := by
  unfold exceeds2
  rw [pooledV_comm y x, ← tnum_both_neg (mean y - mean x), neg_sub]

theorem exceedsP_swap_left (x y : List ℚ) (thr : ℚ) : exceedsP x y thr .left = exceedsP y x thr .right := by
  unfold exceedsP
  simp only [diffs_swap x y, pairedSS_map_neg, mean_map_neg, List.length_map, tnum_right_neg]

theorem exceedsP_swap_right (x y : List ℚ) (thr : ℚ) : exceedsP x y thr .right = exceedsP y x thr .left := by
  unfold exceedsP
  simp only [diffs_swap x y, pairedSS_map_neg, mean_map_neg, List.length_map, tnum_left_neg]

theorem exceedsP_swap_both (x y : List ℚ) (thr : ℚ) : exceedsP x y thr .both = exceedsP y x thr .both := by
  unfold exceedsP
  simp only [diffs_swap x y, pairedSS_map_neg, mean_map_neg, List.length_map, tnum_both_neg]

theorem exceeds_swap_left (p : Bool) (x y : List ℚ) (thr : ℚ) :
    exceeds p x y thr .left = exceeds p y x thr .right := by
  cases p
  · simpa [exceeds] using exceeds2_swap_left x y thr
  · simpa [exceeds] using exceedsP_swap_left x y thr

theorem exceeds_swap_right (p : Bool) (x y : List ℚ) (thr : ℚ) :
    exceeds p x y thr .right = exceeds p y x thr .left := by
  cases p
  · simpa [exceeds] using exceeds2_swap_right x y thr
  · simpa [exceeds] using exceedsP_swap_right x y thr

theorem exceeds_swap_both (p : Bool) (x y : List ℚ) (thr : ℚ) :
    exceeds p x y thr .both = exceeds p y x thr .both := by
  cases p
  · simpa [exceeds] using exceeds2_swap_both x y thr
  · simpa [exceeds] using exceedsP_swap_both x y thr

/-! ## 2. reordering subjects -/

theorem qsum_perm {l l' : List ℚ} (h : l.Perm l') : qsum l = qsum l' := by
  unfold qsum; exact h.sum_eq

theorem mean_perm {l l' : List ℚ} (h : l.Perm l') : mean l = mean l' := by
  unfold mean; rw [qsum_perm h, h.length_eq]

theorem ssd_perm {l l' : List ℚ} (h : l.Perm l') : ssd l = ssd l' := by
  unfold ssd
  rw [mean_perm h]
  exact qsum_perm (h.map _)

theorem pooledV_perm {x x' y y' : List ℚ} (hx : x.Perm x') (hy : y.Perm y') :
    pooledV x y = pooledV x' y' := by
  unfold pooledV
  rw [ssd_perm hx, ssd_perm hy, hx.length_eq, hy.length_eq]

theorem pairedSS_perm {l l' : List ℚ} (h : l.Perm l') : pairedSS l = pairedSS l' := by
  unfold pairedSS
  rw [qsum_perm h, qsum_perm (h.map _), h.length_eq]

theorem diffs_perm {x x' y y' : List ℚ} (h : (x.zip y).Perm (x'.zip y')) :
    (diffs x y).Perm (diffs x' y') := by
  rw [diffs_eq_zip, diffs_eq_zip]
  exact h.map _

theorem exceeds2_perm {x x' y y' : List ℚ} (hx : x.Perm x') (hy : y.Perm y') (thr : ℚ) (t : Tail) :
    exceeds2 x y thr t = exceeds2 x' y' thr t := by
  unfold exceeds2
  rw [pooledV_perm hx hy, mean_perm hx, mean_perm hy]

theorem exceedsP_perm {x x' y y' : List ℚ} (h : (x.zip y).Perm (x'.zip y')) (thr : ℚ) (t : Tail) :
    exceedsP x y thr t = exceedsP x' y' thr t := by
  have hd := diffs_perm h
  unfold exceedsP
  simp only [pairedSS_perm hd, mean_perm hd, hd.length_eq]

/-! ## 3. thresholded adjacency -/

theorem adj0_congr {n} {p p' : Bool} {x y x' y' : Cells n} {thr thr' : ℚ} {t t' : Tail}
    (h : ∀ i j, exceeds p (x.get i j) (y.get i j) thr t = exceeds p' (x'.get i j) (y'.get i j) thr' t') :
    adj0 p x y thr t = adj0 p' x' y' thr' t' := by
  apply AMat.ext_get
  intro i j
  simp only [adj0, AMat.get_ofFn, h]

theorem adj0_swap_left {n} (p : Bool) (x y : Cells n) (thr : ℚ) :
    adj0 p x y thr .left = adj0 p y x thr .right :=
  adj0_congr fun _ _ => exceeds_swap_left p _ _ thr

theorem adj0_swap_right {n} (p : Bool) (x y : Cells n) (thr : ℚ) :
    adj0 p x y thr .right = adj0 p y x thr .left :=
  adj0_congr fun _ _ => exceeds_swap_right p _ _ thr

theorem adj0_swap_both {n} (p : Bool) (x y : Cells n) (thr : ℚ) :
    adj0 p x y thr .both = adj0 p y x thr .both :=
  adj0_congr fun _ _ => exceeds_swap_both p _ _ thr

theorem adj0_reorder_two_sample {n} (x x' y y' : Cells n) (thr : ℚ) (t : Tail)
    (hx : ∀ i j, (x.get i j).Perm (x'.get i j)) (hy : ∀ i j, (y.get i j).Perm (y'.get i j)) :
    adj0 false x y thr t = adj0 false x' y' thr t :=
  adj0_congr fun i j => by
    simpa [exceeds] using exceeds2_perm (hx i j) (hy i j) thr t

theorem adj0_reorder_paired {n} (x x' y y' : Cells n) (thr : ℚ) (t : Tail)
    (h : ∀ i j, ((x.get i j).zip (y.get i j)).Perm ((x'.get i j).zip (y'.get i j))) :
    adj0 true x y thr t = adj0 true x' y' thr t :=
  adj0_congr fun i j => by
    simpa [exceeds] using exceedsP_perm (h i j) thr t

/-! ## 4. meaning of `gtSqrt` -/

theorem gtSqrt_iff (num V thr : ℚ) (hV : 0 < V) :
    gtSqrt num V thr = true ↔ (thr : ℝ) < (num : ℝ) / Real.sqrt (V : ℝ) := by
  have hVr : (0 : ℝ) < (V : ℝ) := by exact_mod_cast hV
  have hs : 0 < Real.sqrt (V : ℝ) := Real.sqrt_pos.mpr hVr
  have hss : Real.sqrt (V : ℝ) * Real.sqrt (V : ℝ) = (V : ℝ) := Real.mul_self_sqrt hVr.le
  rw [lt_div_iff₀ hs]
  set s := Real.sqrt (V : ℝ) with hsdef
  have key : ((thr : ℝ) * s) * ((thr : ℝ) * s) = (thr : ℝ) * (thr : ℝ) * (V : ℝ) := by
    rw [← hss]; ring
  unfold gtSqrt
  split_ifs with ht
  · have htr : (0 : ℝ) ≤ (thr : ℝ) := by exact_mod_cast ht
    have hts : 0 ≤ (thr : ℝ) * s := mul_nonneg htr hs.le
    rw [Bool.and_eq_true, decide_eq_true_eq, decide_eq_true_eq]
    constructor
    · rintro ⟨hn, hsq⟩
      have hnr : (0 : ℝ) < (num : ℝ) := by exact_mod_cast hn
      have hsqr : (thr : ℝ) * (thr : ℝ) * (V : ℝ) < (num : ℝ) * (num : ℝ) := by exact_mod_cast hsq
      rw [← key] at hsqr
      exact lt_of_mul_self_lt_mul_self₀ hnr.le hsqr
    · intro h
      have hnr : (0 : ℝ) < (num : ℝ) := lt_of_le_of_lt hts h
      refine ⟨by exact_mod_cast hnr, ?_⟩
      have : ((thr : ℝ) * s) * ((thr : ℝ) * s) < (num : ℝ) * (num : ℝ) :=
        mul_self_lt_mul_self hts h
      rw [key] at this
      exact_mod_cast this
  · have htr : (thr : ℝ) < 0 := by exact_mod_cast not_le.mp ht
    have hts : (thr : ℝ) * s < 0 := mul_neg_of_neg_of_pos htr hs
    rw [Bool.or_eq_true, decide_eq_true_eq, decide_eq_true_eq]
    constructor
    · rintro (hn | hsq)
      · have hnr : (0 : ℝ) ≤ (num : ℝ) := by exact_mod_cast hn
        exact lt_of_lt_of_le hts hnr
      · have hsqr : (num : ℝ) * (num : ℝ) < (thr : ℝ) * (thr : ℝ) * (V : ℝ) := by exact_mod_cast hsq
        rw [← key] at hsqr
        by_contra hcon
        have hle : (num : ℝ) ≤ (thr : ℝ) * s := not_lt.mp hcon
        have h1 : 0 ≤ -((thr : ℝ) * s) := by linarith
        have h2 : -((thr : ℝ) * s) ≤ -(num : ℝ) := by linarith
        have := mul_self_le_mul_self h1 h2
        nlinarith
    · intro h
      by_cases hn : 0 ≤ num
      · exact Or.inl hn
      · right
        have hnr : (num : ℝ) < 0 := by exact_mod_cast not_le.mp hn
        have h1 : 0 ≤ -(num : ℝ) := by linarith
        have h2 : -(num : ℝ) < -((thr : ℝ) * s) := by linarith
        have := mul_self_lt_mul_self h1 h2
        have h3 : (num : ℝ) * (num : ℝ) < ((thr : ℝ) * s) * ((thr : ℝ) * s) := by nlinarith
        rw [key] at h3
        exact_mod_cast h3

end Bct.Nbs
