import BctVerif.Lemmas.ModularitySums
import Mathlib.Tactic

/-! # Exact gain of a single move, and monotonicity of the generic visiting pass -/
namespace Bct.Modularity
open Finset

variable {n : ℕ}

/-- function view of a label vector -/
def labOf (m : Lab n) : Fin n → Fin n := fun i => m[i]

@[simp] theorem labOf_apply (m : Lab n) (i : Fin n) : labOf m i = m[i] := rfl

theorem labOf_set (m : Lab n) (u mb : Fin n) : labOf (m.set u mb) = Function.update (labOf m) u mb := by
  funext i
  by_cases h : i = u
  · subst h; simp [labOf]
  · have : (u : ℕ) ≠ i := fun e => h (Fin.ext e.symm)
    simp [labOf, Function.update, h, this]

/-- node-to-module sum `Σ_{j : c j = m} B u j` -/
def HnmF {α : Type} [DecidableEq α] (B : RMat n) (c : Fin n → α) (u : Fin n) (m : α) : ℚ :=
  ∑ j, if c j = m then B.get u j else 0

/-- the gain all seven optimisers compute, in objective-matrix form: `Hnm[u,m] − Hnm[u,ma] + B[u,u]` -/
def dqF {α : Type} [DecidableEq α] (B : RMat n) (c : Fin n → α) (u : Fin n) (m : α) : ℚ :=
  HnmF B c u m - HnmF B c u (c u) + B.get u u

/-- **Exact gain.** For a symmetric objective matrix, moving `u` to another module `mb` changes the
objective by exactly twice the coded gain. -/
theorem move_gain_obj {α : Type} [DecidableEq α] (B : RMat n) (hB : ∀ i j, B.get i j = B.get j i)
    (c : Fin n → α) (u : Fin n) (mb : α) (hne : c u ≠ mb) :
    Qobj B (Function.update c u mb) - Qobj B c = 2 * dqF B c u mb := by
  classical
  rw [Qobj_eq, Qobj_eq]
  set c' := Function.update c u mb with hc'
  have hcu : c' u = mb := by simp [hc']
  have hco : ∀ i, i ≠ u → c' i = c i := by intro i hi; simp [hc', hi]
  have split : ∀ (f : Fin n → Fin n → ℚ), (∑ i, ∑ j, f i j)
      = f u u + (∑ j ∈ univ.erase u, f u j) + (∑ i ∈ univ.erase u, f i u)
        + ∑ i ∈ univ.erase u, ∑ j ∈ univ.erase u, f i j := by
    intro f
    rw [← Finset.add_sum_erase univ _ (mem_univ u)]
    rw [← Finset.add_sum_erase univ (fun j => f u j) (mem_univ u)]
    have : ∑ i ∈ univ.erase u, ∑ j, f i j
        = ∑ i ∈ univ.erase u, f i u + ∑ i ∈ univ.erase u, ∑ j ∈ univ.erase u, f i j := by
      rw [← Finset.sum_add_distrib]
      refine Finset.sum_congr rfl (fun i _ => ?_)
      rw [← Finset.add_sum_erase univ (fun j => f i j) (mem_univ u)]
    rw [this]; ring
  rw [split (fun i j => if c' i = c' j then B.get i j else 0), split (fun i j => if c i = c j then B.get i j else 0)]
  have blk : (∑ i ∈ univ.erase u, ∑ j ∈ univ.erase u, if c' i = c' j then B.get i j else 0)
      = ∑ i ∈ univ.erase u, ∑ j ∈ univ.erase u, if c i = c j then B.get i j else 0 := by
    refine Finset.sum_congr rfl (fun i hi => Finset.sum_congr rfl (fun j hj => ?_))
    rw [hco i (ne_of_mem_erase hi), hco j (ne_of_mem_erase hj)]
  have colrow' : (∑ i ∈ univ.erase u, if c' i = c' u then B.get i u else 0)
      = ∑ j ∈ univ.erase u, if c' u = c' j then B.get u j else 0 := by
    refine Finset.sum_congr rfl (fun i _ => ?_); rw [hB i u]; simp [eq_comm]
  have colrow : (∑ i ∈ univ.erase u, if c i = c u then B.get i u else 0)
      = ∑ j ∈ univ.erase u, if c u = c j then B.get u j else 0 := by
    refine Finset.sum_congr rfl (fun i _ => ?_); rw [hB i u]; simp [eq_comm]
  rw [blk, colrow', colrow]
  have rowb' : (∑ j ∈ univ.erase u, if c' u = c' j then B.get u j else 0) = HnmF B c u mb := by
    unfold HnmF
    rw [← Finset.add_sum_erase univ (fun j => if c j = mb then B.get u j else 0) (mem_univ u)]
    simp only [hne, if_false, zero_add]
    refine Finset.sum_congr rfl (fun j hj => ?_)
    rw [hcu, hco j (ne_of_mem_erase hj)]; simp [eq_comm]
  have rowb : (∑ j ∈ univ.erase u, if c u = c j then B.get u j else 0) = HnmF B c u (c u) - B.get u u := by
    unfold HnmF
    rw [← Finset.add_sum_erase univ (fun j => if c j = c u then B.get u j else 0) (mem_univ u)]
    simp only [if_true]
    have : (∑ j ∈ univ.erase u, if c u = c j then B.get u j else 0)
        = ∑ j ∈ univ.erase u, if c j = c u then B.get u j else 0 :=
      Finset.sum_congr rfl (fun j _ => by simp [eq_comm])
    rw [this]; ring
  rw [rowb', rowb]
  unfold dqF
  simp only [if_true]
  ring

/-- sums of a label-dependent quantity after one node changes its label -/
theorem sum_update_label {α : Type} [DecidableEq α] (g : Fin n → α → ℚ) (c : Fin n → α) (u : Fin n) (mb : α) :
    ∑ j, g j (Function.update c u mb j) = ∑ j, g j (c j) - g u (c u) + g u mb := by
  rw [← Finset.add_sum_erase univ _ (mem_univ u), ← Finset.add_sum_erase univ (fun j => g j (c j)) (mem_univ u)]
  have : ∑ j ∈ univ.erase u, g j (Function.update c u mb j) = ∑ j ∈ univ.erase u, g j (c j) :=
    Finset.sum_congr rfl (fun j hj => by simp [Function.update_of_ne (ne_of_mem_erase hj)])
  rw [this]; simp; ring

/-! ## the first-maximum search -/

theorem argmaxFirst_val (f : Fin n → ℚ) (lim : ℕ) (b : Fin n) (v : ℚ)
    (h : argmaxFirst f lim = some (b, v)) : v = f b := by
  unfold argmaxFirst at h
  have key : ∀ (l : List (Fin n)) (init : Option (Fin n × ℚ)),
      (∀ b v, init = some (b, v) → v = f b) →
      ∀ b v, l.foldl (fun best t =>
        if t.val < lim then
          match best with
          | none => some (t, f t)
          | some (b, v) => if v < f t then some (t, f t) else some (b, v)
        else best) init = some (b, v) → v = f b := by
    intro l
    induction l with
    | nil => intro init hi b v h; exact hi b v h
    | cons t l ih =>
      intro init hi b v h
      simp only [List.foldl_cons] at h
      refine ih _ ?_ b v h
      intro b' v' h'
      split_ifs at h' with hl
      · cases hinit : init with
        | none => simp [hinit] at h'; rcases h' with ⟨rfl, rfl⟩; rfl
        | some p =>
          obtain ⟨b0, v0⟩ := p
          simp only [hinit] at h'
          split_ifs at h' with hv
          · simp at h'; rcases h' with ⟨rfl, rfl⟩; rfl
          · simp at h'; rcases h' with ⟨rfl, rfl⟩; exact hi _ _ hinit
      · exact hi _ _ h'
  exact key _ none (by simp) b v h

theorem thr_pos : (0 : ℚ) < thr := by unfold thr; norm_num

/-! ## kernel specification and monotone passes -/

/-- What a kernel must satisfy: under the bookkeeping invariant `Inv st c` the coded gain is a positive
multiple `κ` of the objective-matrix gain for the symmetric matrix `B`, and the coded update
re-establishes the invariant for the moved labelling. -/
structure KernSpec {σ : Type} (K : Kern σ n) (B : RMat n) (κ : ℚ) (Inv : σ → (Fin n → Fin n) → Prop) : Prop where
  sym : ∀ i j, B.get i j = B.get j i
  pos : 0 < κ
  gain : ∀ st c, Inv st c → ∀ u t, t ≠ c u → K.dq st u (c u) t = κ * dqF B c u t
  move : ∀ st c, Inv st c → ∀ u t, t ≠ c u → Inv (K.move st u (c u) t) (Function.update c u t)

variable {σ : Type} {K : Kern σ n} {B : RMat n} {κ : ℚ} {Inv : σ → (Fin n → Fin n) → Prop}

theorem argmaxFirst_lt (f : Fin n → ℚ) (lim : ℕ) (b : Fin n) (v : ℚ)
    (h : argmaxFirst f lim = some (b, v)) : b.val < lim := by
  unfold argmaxFirst at h
  have key : ∀ (l : List (Fin n)) (init : Option (Fin n × ℚ)),
      (∀ b v, init = some (b, v) → b.val < lim) →
      ∀ b v, l.foldl (fun best t =>
        if t.val < lim then
          match best with
          | none => some (t, f t)
          | some (b, v) => if v < f t then some (t, f t) else some (b, v)
        else best) init = some (b, v) → b.val < lim := by
    intro l
    induction l with
    | nil => intro init hi b v h; exact hi b v h
    | cons t l ih =>
      intro init hi b v h
      simp only [List.foldl_cons] at h
      refine ih _ ?_ b v h
      intro b' v' h'
      split_ifs at h' with hl
      · cases hinit : init with
        | none => simp [hinit] at h'; rcases h' with ⟨rfl, rfl⟩; exact hl
        | some p =>
          obtain ⟨b0, v0⟩ := p
          simp only [hinit] at h'
          split_ifs at h' with hv
          · simp at h'; rcases h' with ⟨rfl, rfl⟩; exact hl
          · simp at h'; rcases h' with ⟨rfl, rfl⟩; exact hi _ _ hinit
      · exact hi _ _ h'
  exact key _ none (by simp) b v h

theorem chooseWith_some (f : Fin n → ℚ) (lim : ℕ) (g g' : GState) (u : ℕ) (mb : Fin n)
    (h : chooseWith f lim g u = (some mb, g')) : mb.val < lim ∧ thr < f mb := by
  unfold chooseWith at h
  cases hA : argmaxFirst f lim with
  | none => simp [hA] at h
  | some p =>
    obtain ⟨mb0, mx⟩ := p
    simp only [hA] at h
    have hv := argmaxFirst_val _ _ _ _ hA
    have hl := argmaxFirst_lt _ _ _ _ hA
    cases hg : g.guide with
    | none =>
      simp only [hg] at h
      split_ifs at h with hthr
      · simp only [Prod.mk.injEq, Option.some.injEq] at h
        obtain ⟨rfl, _⟩ := h
        exact ⟨hl, hv ▸ hthr⟩
      · simp at h
    | some l =>
      cases l with
      | nil => simp [hg] at h
      | cons e rest =>
        obtain ⟨p, un, tn⟩ := e
        simp only [hg] at h
        split_ifs at h with h1 h2 h3 h4
        all_goals first
          | (simp only [Prod.mk.injEq, Option.some.injEq] at h
             obtain ⟨rfl, _⟩ := h
             exact ⟨h3.1, h3.2.1⟩)
          | (simp at h)

/-- whichever way the target is chosen — first maximum of the replay, or bct's recorded choice when a run
is validated — a chosen target lies in the searched range, differs from the current module and has a coded
gain above the threshold -/
theorem choose_some (K : Kern σ n) (lim : ℕ) (x : PSt σ n) (u mb : Fin n) (g : GState)
    (h : choose K lim x u = (some mb, g)) :
    mb.val < lim ∧ mb ≠ x.m[u] ∧ thr < K.dq x.st u x.m[u] mb := by
  unfold choose at h
  obtain ⟨h1, h2⟩ := chooseWith_some _ _ _ _ _ _ h
  simp only [Fin.getElem_fin, Vector.getElem_ofFn, Fin.eta] at h2
  unfold gainVec at h2
  by_cases e : mb = x.m[(u : ℕ)]
  · rw [if_pos e] at h2; exact absurd (lt_trans thr_pos h2) (lt_irrefl _)
  · rw [if_neg e] at h2; exact ⟨h1, e, h2⟩

/-- what `visit` does: labels and bookkeeping untouched, or the move to a module in range whose coded gain
exceeds the threshold -/
theorem visit_cases (K : Kern σ n) (lim : ℕ) (x : PSt σ n) (u : Fin n) :
    ((visit K lim x u).1.st = x.st ∧ (visit K lim x u).1.m = x.m ∧ (visit K lim x u).2 = false) ∨
    ∃ mb : Fin n, mb.val < lim ∧ mb ≠ x.m[u] ∧ thr < K.dq x.st u x.m[u] mb ∧
      (visit K lim x u).1.st = K.move x.st u x.m[u] mb ∧ (visit K lim x u).1.m = x.m.set u mb ∧
      (visit K lim x u).2 = true := by
  unfold visit
  cases hc : choose K lim x u with
  | mk tgt g =>
    cases tgt with
    | none => left; exact ⟨rfl, rfl, rfl⟩
    | some mb =>
      right
      obtain ⟨h1, h2, h3⟩ := choose_some K lim x u mb g hc
      exact ⟨mb, h1, h2, h3, rfl, rfl, rfl⟩

/-- one visited node: invariant kept, objective does not decrease, and strictly increases if the node moved -/
theorem visit_spec (hK : KernSpec K B κ Inv) (lim : ℕ) (x : PSt σ n) (u : Fin n)
    (hx : Inv x.st (labOf x.m)) :
    Inv (visit K lim x u).1.st (labOf (visit K lim x u).1.m) ∧
    Qobj B (labOf x.m) ≤ Qobj B (labOf (visit K lim x u).1.m) ∧
    ((visit K lim x u).2 = true → Qobj B (labOf x.m) < Qobj B (labOf (visit K lim x u).1.m)) := by
  rcases visit_cases K lim x u with ⟨hst, hm, hfl⟩ | ⟨mb, _, hne, hthr, hst, hm, _⟩
  · rw [hst, hm, hfl]; exact ⟨hx, le_rfl, by simp⟩
  · rw [hst, hm, labOf_set]
    have hne' : mb ≠ labOf x.m u := by simpa using hne
    have hg := hK.gain x.st (labOf x.m) hx u mb hne'
    have hdq : 0 < dqF B (labOf x.m) u mb := by
      have h0 : 0 < K.dq x.st u (labOf x.m u) mb := lt_trans thr_pos (by simpa using hthr)
      rw [hg] at h0
      exact (mul_pos_iff_of_pos_left hK.pos).mp h0
    have hmove := move_gain_obj B hK.sym (labOf x.m) u mb hne'.symm
    have hQ : Qobj B (labOf x.m) < Qobj B (Function.update (labOf x.m) u mb) := by linarith
    exact ⟨hK.move x.st (labOf x.m) hx u mb hne', le_of_lt hQ, fun _ => hQ⟩

/-- **pass_monotone (generic)** — one sweep over *any* list of nodes (any visiting order, repetitions
allowed) keeps the bookkeeping invariant and never lowers the objective; if the sweep reports a move the
objective has strictly increased. -/
theorem pass_spec (hK : KernSpec K B κ Inv) (lim : ℕ) (us : List (Fin n)) (x : PSt σ n)
    (hx : Inv x.st (labOf x.m)) :
    Inv (pass K lim x us).1.st (labOf (pass K lim x us).1.m) ∧
    Qobj B (labOf x.m) ≤ Qobj B (labOf (pass K lim x us).1.m) ∧
    ((pass K lim x us).2 = true → Qobj B (labOf x.m) < Qobj B (labOf (pass K lim x us).1.m)) := by
  unfold pass
  have key : ∀ (us : List (Fin n)) (y : PSt σ n) (fl : Bool), Inv y.st (labOf y.m) →
      Qobj B (labOf x.m) ≤ Qobj B (labOf y.m) → (fl = true → Qobj B (labOf x.m) < Qobj B (labOf y.m)) →
      let r := us.foldl (fun acc u => ((visit K lim acc.1 u).1, acc.2 || (visit K lim acc.1 u).2)) (y, fl)
      Inv r.1.st (labOf r.1.m) ∧ Qobj B (labOf x.m) ≤ Qobj B (labOf r.1.m) ∧
        (r.2 = true → Qobj B (labOf x.m) < Qobj B (labOf r.1.m)) := by
    intro us
    induction us with
    | nil => intro y fl hy hle hlt; exact ⟨hy, hle, hlt⟩
    | cons u us ih =>
      intro y fl hy hle hlt
      simp only [List.foldl_cons]
      obtain ⟨h1, h2, h3⟩ := visit_spec hK lim y u hy
      refine ih _ _ h1 (le_trans hle h2) ?_
      intro hfl
      rcases Bool.or_eq_true _ _ |>.mp hfl with h | h
      · exact lt_of_lt_of_le (hlt h) h2
      · exact lt_of_le_of_lt hle (h3 h)
  exact key us x false hx le_rfl (by simp)

/-- **run_monotone (generic)** — the `while flag` loop of sweeps, for every draw list. -/
theorem passes_spec (hK : KernSpec K B κ Inv) (lim nh : ℕ) (fuel : ℕ) (x x' : PSt σ n) (ds rest : List ℕ)
    (hx : Inv x.st (labOf x.m)) (h : passes K lim nh fuel x ds = .ok (x', rest)) :
    Inv x'.st (labOf x'.m) ∧ Qobj B (labOf x.m) ≤ Qobj B (labOf x'.m) := by
  induction fuel generalizing x ds with
  | zero =>
    simp only [passes] at h
    cases h
    exact ⟨hx, le_rfl⟩
  | succ fuel ih =>
    simp only [passes] at h
    cases hp : takePerm n nh ds with
    | error e =>
      simp only [hp] at h
      cases h
      exact ⟨hx, le_rfl⟩
    | ok p =>
      obtain ⟨us, rest'⟩ := p
      simp only [hp] at h
      obtain ⟨h1, h2, _⟩ := pass_spec hK lim us { x with g := { x.g with passNo := x.g.passNo + 1 } } hx
      split_ifs at h with hfl
      · obtain ⟨h3, h4⟩ := ih _ _ h1 h
        exact ⟨h3, le_trans h2 h4⟩
      · cases h
        exact ⟨h1, h2⟩

end Bct.Modularity
