import BctVerif.Lemmas.BetweenFwd2

/-!
# Forward phase of the weighted Brandes loop: levels, queue order, postcondition (C08)
-/
namespace Bct.Between
open Bct

variable {n : ℕ} (L : AMat Nat n) (u : Fin n)

/-- `a` is strictly closer to the source than `b` (both reachable) -/
def dLt (a b : Fin n) : Prop :=
  ∃ ka kb, (dist L).get u a = some ka ∧ (dist L).get u b = some kb ∧ ka < kb

theorem dLt_of_pred {v w : Fin n} (h : pred L (dist L) u v w = true) : dLt L u v w := by
  obtain ⟨hL, a, ha, he⟩ := (pred_iff L).1 h
  exact ⟨a, _, ha, he, by have := Nat.pos_of_ne_zero hL; omega⟩

theorem OrdOK_of_pairwise (done ql : List (Fin n)) (hpw : ql.Pairwise fun a b => ¬ dLt L u a b)
    (hcov : ∀ w ∈ ql, ∀ y, pred L (dist L) u w y = true → y ∈ done ∨ y ∈ ql) : OrdOK L u done ql := by
  induction ql generalizing done with
  | nil => trivial
  | cons w rest ih =>
    obtain ⟨hw, hpw'⟩ := List.pairwise_cons.1 hpw
    refine ⟨?_, ih (w :: done) hpw' ?_⟩
    · intro y hp
      rcases hcov w List.mem_cons_self y hp with h | h
      · exact h
      · rcases List.mem_cons.1 h with e | e
        · exact absurd e.symm (pred_ne L hp).2
        · exact absurd (dLt_of_pred L u hp) (hw y e)
    · intro w' hw' y hp
      rcases hcov w' (List.mem_cons_of_mem _ hw') y hp with h | h
      · exact Or.inl (List.mem_cons_of_mem _ h)
      · rcases List.mem_cons.1 h with e | e
        · exact Or.inl (e ▸ List.mem_cons_self)
        · exact Or.inr e

/-- the settled set as a `Finset` -/
def settled (st : SrcSt n) : Finset (Fin n) := Finset.univ.filter fun z : Fin n => st.S[z] = false

theorem mem_settled {st : SrcSt n} {x : Fin n} : x ∈ settled st ↔ st.S[x] = false := by
  simp [settled]

/-- state after the batch of level `m`: the settled nodes are those at distance `≤ m` -/
structure LJ (st : SrcSt n) (m : ℕ) (ord : List (Fin n)) : Prop where
  Sset : ∀ x : Fin n, st.S[x] = false ↔ ∃ k, (dist L).get u x = some k ∧ k ≤ m
  rel : ∀ x, Rel L u (settled st) st x
  G1 : ∀ i j : Fin n, st.G1.get i j = if st.S[j] = true then L.get i j else 0
  Q : QInv st ord
  ordnd : ord.Nodup
  ordmem : ∀ x : Fin n, x ∈ ord ↔ st.S[x] = false
  ordpw : ord.Pairwise fun a b => ¬ dLt L u a b
  ordlast : ord.getLast? = some u

section LJfacts
variable {L u}
variable {st : SrcSt n} {m : ℕ} {ord : List (Fin n)} (h : LJ L u st m ord)
include h

theorem LJ.settled_final {x : Fin n} {k : ℕ} (hS : st.S[x] = false) (hk : (dist L).get u x = some k) :
    st.D[x] = some k ∧ st.NP[x] = (sigma L).get u x ∧ ∀ z, st.P.get x z = pred L (dist L) u z x := by
  refine (h.rel x).final L u hk fun z hp => ?_
  obtain ⟨ka, kb, h1, h2, h3⟩ := dLt_of_pred L u hp
  obtain ⟨k', hk', hle⟩ := (h.Sset x).1 hS
  rw [h2] at hk'; simp only [Option.some.injEq] at hk'; subst hk'
  exact mem_settled.2 ((h.Sset z).2 ⟨ka, h1, by omega⟩)

theorem LJ.u_settled : st.S[u] = false := (h.Sset u).2 ⟨0, dist_self L u, Nat.zero_le _⟩

theorem LJ.unsettled_exact {x : Fin n} {k : ℕ} (hS : st.S[x] = true) (hk : (dist L).get u x = some k) :
    ∃ y j, st.S[y] = true ∧ (dist L).get u y = some j ∧ j ≤ k ∧ st.D[y] = some j :=
  exists_exact_unsettled L u h.rel (fun _ => mem_settled) (mem_settled.2 h.u_settled) k x hS hk

theorem LJ.unsettled_gt {x : Fin n} {k : ℕ} (hS : st.S[x] = true) (hk : (dist L).get u x = some k) : m < k := by
  by_contra hle
  have := (h.Sset x).2 ⟨k, hk, by omega⟩
  rw [hS] at this; exact absurd this (by simp)

/-- if every unsettled node is unreachable, `P` and `NP` are as the back-propagation needs them -/
theorem LJ.fwdPN (hun : ∀ x : Fin n, st.S[x] = true → (dist L).get u x = none) : FwdPN L u st := by
  constructor
  · intro w v
    by_cases hS : st.S[w] = false
    · obtain ⟨k, hk, _⟩ := (h.Sset w).1 hS
      exact (h.settled_final hS hk).2.2 v
    · have hS' : st.S[w] = true := by simpa using hS
      have hnone := hun w hS'
      have hwu : w ≠ u := by
        rintro rfl; rw [dist_self] at hnone; exact absurd hnone (by simp)
      have hD : st.D[w] = none := by
        cases hc : st.D[w] with
        | none => rfl
        | some c =>
          obtain ⟨k, hk, _⟩ := (h.rel w).ge_dist L u hc
          rw [hnone] at hk; exact absurd hk (by simp)
      rw [(h.rel w).p hwu v, hD]
      have h1 : tp L u none v w = false := by
        rw [Bool.eq_false_iff, Ne, tp_iff]; rintro ⟨_, a, _, he⟩; exact absurd he (by simp)
      have h2 : pred L (dist L) u v w = false := by
        rw [Bool.eq_false_iff, Ne, pred_iff]; rintro ⟨_, a, _, he⟩
        rw [hnone] at he; exact absurd he (by simp)
      rw [h1, h2]; simp
  · intro x hr
    obtain ⟨k, hk⟩ := reach_iff.1 hr
    have hS : st.S[x] = false := by
      by_contra hS
      have := hun x (by simpa using hS)
      rw [hk] at this; exact absurd this (by simp)
    exact (h.settled_final hS hk).2.1

end LJfacts

/-! ### the final queue -/

/-- a full queue `pre ++ ord` (unreachable nodes first, then the settled nodes in reverse settle
order, the source last) gives the postcondition of the forward phase -/
theorem fwdOK_of_queue (st : SrcSt n) (hPN : FwdPN L u st) (pre ord : List (Fin n))
    (hQ : st.Q.toList = (pre ++ ord).map Fin.val) (hlast : ord.getLast? = some u)
    (hnd : (pre ++ ord).Nodup) (hall : ∀ x, x ∈ pre ++ ord)
    (hpre : ∀ a ∈ pre, (dist L).get u a = none)
    (hpw : ord.Pairwise fun a b => ¬ dLt L u a b) : FwdOK L u st := by
  have hord : ord.dropLast ++ [u] = ord := List.dropLast_append_getLast? u (by rw [hlast]; rfl)
  have hfull : pre ++ ord = (pre ++ ord.dropLast) ++ [u] := by
    rw [List.append_assoc, hord]
  have hlen : (pre ++ ord).length = n := by
    have := congrArg List.length hQ
    simpa using this.symm
  have hnd' : ((pre ++ ord.dropLast) ++ [u]).Nodup := hfull ▸ hnd
  obtain ⟨hqlnd, _, hdisj⟩ := List.nodup_append.1 hnd'
  have huql : u ∉ pre ++ ord.dropLast := fun h => hdisj u h u (by simp) rfl
  refine ⟨hPN, pre ++ ord.dropLast, ?_, hqlnd, huql, ?_, ?_⟩
  · rw [hQ, ← List.map_take]
    congr 1
    have : n - 1 = (pre ++ ord).length - 1 := by rw [hlen]
    rw [this, ← List.dropLast_eq_take, hfull, List.dropLast_concat]
  · intro x hx
    have := hall x
    rw [hfull] at this
    rcases List.mem_append.1 this with h | h
    · exact h
    · simp only [List.mem_singleton] at h; exact absurd h hx
  · apply OrdOK_of_pairwise
    · rw [List.pairwise_append]
      refine ⟨List.pairwise_of_forall_mem_list fun a ha b _ => ?_,
        hpw.sublist (List.dropLast_sublist _), fun a ha b _ => ?_⟩
      · rintro ⟨ka, _, h1, _⟩; rw [hpre a ha] at h1; exact absurd h1 (by simp)
      · rintro ⟨ka, _, h1, _⟩; rw [hpre a ha] at h1; exact absurd h1 (by simp)
    · intro w _ y hp
      right
      have hyu : y ≠ u := by
        rintro rfl; exact pred_source_false L y w hp
      have := hall y
      rw [hfull] at this
      rcases List.mem_append.1 this with h | h
      · exact h
      · simp only [List.mem_singleton] at h; exact absurd h hyu

theorem fillFront_spec (st : SrcSt n) (idx ord : List (Fin n)) (hQ : QInv st ord)
    (hlen : idx.length = st.q) :
    ∃ st', fillFront st idx = .ok st' ∧ st'.Q.toList = (idx ++ ord).map Fin.val ∧
      st'.D = st.D ∧ st'.NP = st.NP ∧ st'.S = st.S ∧ st'.P = st.P := by
  unfold fillFront
  rw [if_pos hlen]
  refine ⟨_, rfl, ?_, rfl, rfl, rfl, rfl⟩
  have hn := hQ.length
  apply List.ext_getElem
  · simp; omega
  · intro i h1 h2
    simp only [Vector.getElem_toList, Vector.getElem_ofFn, List.getElem_map]
    by_cases hi : i < idx.length
    · rw [dif_pos hi, List.getElem_append_left hi]
    · rw [dif_neg hi, List.getElem_append_right (by omega)]
      have h3 : i - idx.length < (st.Q.toList.drop st.q).length := by
        simp only [List.length_drop, Vector.length_toList]; simp at h1; omega
      have := List.getElem_drop (xs := st.Q.toList) (i := st.q) (j := i - idx.length) (h := h3)
      simp only [hQ.2, List.getElem_map, Vector.getElem_toList] at this
      rw [this]
      have e : st.q + (i - idx.length) = i := by omega
      simp only [e]
      rfl

end Bct.Between
