import BctVerif.Lemmas.RewireFun

/-!
# Lattice cost and mask: what one accepted swap does to `Σ D∘R` and which cells it fills
-/
open Finset

namespace Bct.RewireConn
open Bct Bct.Rewire Bct.RewireFun

variable {n : ℕ}

/-- total of weight × distance-to-diagonal -/
def costF (D R : Mat n) : ℤ := ∑ i, ∑ j, D i j * R i j

def cost (D R : AMat Int n) : ℤ := costF D.toFun R.toFun

theorem costF_upd (D R : Mat n) (i j : Fin n) (v : ℤ) :
    costF D (upd R i j v) = costF D R + D i j * (v - R i j) := by
  unfold costF upd
  have key : ∀ i' j', D i' j' * (if i' = i ∧ j' = j then v else R i' j')
      = D i' j' * R i' j' + (if i' = i then (if j' = j then D i j * (v - R i j) else 0) else 0) := by
    intro i' j'
    by_cases h1 : i' = i <;> by_cases h2 : j' = j <;> simp [h1, h2]
    subst h1; subst h2; ring
  simp only [key, Finset.sum_add_distrib]
  congr 1
  simp

/-- the directed swap changes the cost by `D a d·R a b + D c b·R c d − D a b·R a b − D c d·R c d` -/
theorem costF_swapDir (D R : Mat n) (a b c d : Fin n)
    (hac : a ≠ c) (hbd : b ≠ d) (z1 : R a d = 0) (z2 : R c b = 0) :
    costF D (swapDirF R a b c d)
      = costF D R + (D a d * R a b + D c b * R c d) - (D a b * R a b + D c d * R c d) := by
  have hca : c ≠ a := fun h => hac h.symm
  have hdb : d ≠ b := fun h => hbd h.symm
  simp only [swapDirF, costF_upd]
  simp [upd, hbd, hca, hdb, z1, z2]
  ring

theorem costF_swapUnd (D R : Mat n) (a b c d : Fin n)
    (hab : a ≠ b) (hac : a ≠ c) (had : a ≠ d) (hbc : b ≠ c) (hbd : b ≠ d) (hcd : c ≠ d)
    (z1 : R a d = 0) (z2 : R d a = 0) (z3 : R c b = 0) (z4 : R b c = 0) :
    costF D (swapUndF R a b c d)
      = costF D R + (D a d * R a b + D d a * R b a + D c b * R c d + D b c * R d c)
        - (D a b * R a b + D b a * R b a + D c d * R c d + D d c * R d c) := by
  have hba : b ≠ a := fun h => hab h.symm
  have hca : c ≠ a := fun h => hac h.symm
  have hda : d ≠ a := fun h => had h.symm
  have hcb : c ≠ b := fun h => hbc h.symm
  have hdb : d ≠ b := fun h => hbd h.symm
  have hdc : d ≠ c := fun h => hcd h.symm
  simp only [swapUndF, costF_upd]
  simp [upd, hab, had, hbc, hbd, hcd, hba, hca, hda, hcb, hdb, hdc, z1, z2, z3, z4]
  ring

theorem latOk_iff (D R : AMat Int n) (a b c d : Fin n) :
    latOk D R a b c d = true ↔
      D.toFun a d * R.toFun a b + D.toFun c b * R.toFun c d ≤ D.toFun a b * R.toFun a b + D.toFun c d * R.toFun c d := by
  unfold latOk
  simp only [decide_eq_true_eq, ge_iff_le]
  rfl

/-- **Lattice step, directed**: an accepted swap never increases `Σ D∘R`. -/
theorem latticeStep_dir (D R : AMat Int n) (a b c d : Fin n)
    (hac : a ≠ c) (hbd : b ≠ d) (z1 : R.toFun a d = 0) (z2 : R.toFun c b = 0)
    (h : latOk D R a b c d = true) :
    cost D (swapDir R a b c d) ≤ cost D R := by
  rw [latOk_iff] at h
  unfold cost
  rw [toFun_swapDir, costF_swapDir D.toFun R.toFun a b c d hac hbd z1 z2]
  linarith

/-- **Lattice step, undirected** (symmetric `D`, symmetric `R`). -/
theorem latticeStep_und (D R : AMat Int n) (a b c d : Fin n)
    (hab : a ≠ b) (hac : a ≠ c) (had : a ≠ d) (hbc : b ≠ c) (hbd : b ≠ d) (hcd : c ≠ d)
    (hD : ∀ i j, D.toFun i j = D.toFun j i) (hs : ∀ i j, R.toFun i j = R.toFun j i)
    (z1 : R.toFun a d = 0) (z2 : R.toFun c b = 0)
    (h : latOk D R a b c d = true) :
    cost D (swapUnd R a b c d) ≤ cost D R := by
  rw [latOk_iff] at h
  have z1' : R.toFun d a = 0 := by rw [hs]; exact z1
  have z2' : R.toFun b c = 0 := by rw [hs]; exact z2
  unfold cost
  rw [toFun_swapUnd, costF_swapUnd D.toFun R.toFun a b c d hab hac had hbc hbd hcd z1 z1' z2 z2']
  rw [hD d a, hD b c, hD b a, hD d c, hs b a, hs d c]
  linarith

/-! ### which cells become nonzero -/

theorem swapDir_new_cells (R : Mat n) (a b c d : Fin n)
    (hac : a ≠ c) (hbd : b ≠ d) (z1 : R a d = 0) (z2 : R c b = 0) (i j : Fin n)
    (hnew : swapDirF R a b c d i j ≠ 0) (hold : R i j = 0) :
    (i = a ∧ j = d) ∨ (i = c ∧ j = b) := by
  rw [swapDirF_apply R a b c d hac hbd z1 z2] at hnew
  by_cases hia : i = a <;> by_cases hic : i = c <;> by_cases hjb : j = b <;> by_cases hjd : j = d <;>
    simp_all [Equiv.swap_apply_def]

theorem swapUnd_new_cells (R : Mat n) (a b c d : Fin n)
    (hab : a ≠ b) (hac : a ≠ c) (had : a ≠ d) (hbc : b ≠ c) (hbd : b ≠ d) (hcd : c ≠ d)
    (z1 : R a d = 0) (z2 : R d a = 0) (z3 : R c b = 0) (z4 : R b c = 0) (i j : Fin n)
    (hnew : swapUndF R a b c d i j ≠ 0) (hold : R i j = 0) :
    (i = a ∧ j = d) ∨ (i = d ∧ j = a) ∨ (i = c ∧ j = b) ∨ (i = b ∧ j = c) := by
  rw [swapUndF_apply R a b c d hab hac had hbc hbd hcd z1 z2 z3 z4] at hnew
  simp only [tauUnd, Prod.mk.injEq] at hnew
  by_cases hia : i = a <;> by_cases hib : i = b <;> by_cases hic : i = c <;> by_cases hid : i = d <;>
  by_cases hja : j = a <;> by_cases hjb : j = b <;> by_cases hjc : j = c <;> by_cases hjd : j = d <;>
    simp_all

/-- every cell after the directed swap: unchanged, zeroed, or one of the two filled cells -/
theorem swapDir_cell (R : Mat n) (a b c d : Fin n)
    (hac : a ≠ c) (hbd : b ≠ d) (z1 : R a d = 0) (z2 : R c b = 0) (i j : Fin n) :
    swapDirF R a b c d i j = R i j ∨ swapDirF R a b c d i j = 0 ∨ (i = a ∧ j = d) ∨ (i = c ∧ j = b) := by
  rw [swapDirF_apply R a b c d hac hbd z1 z2]
  by_cases hia : i = a <;> by_cases hic : i = c <;> by_cases hjb : j = b <;> by_cases hjd : j = d <;>
    simp_all [Equiv.swap_apply_def]

/-- every cell after the undirected swap: unchanged, zeroed, or one of the four filled cells -/
theorem swapUnd_cell (R : Mat n) (a b c d : Fin n)
    (hab : a ≠ b) (hac : a ≠ c) (had : a ≠ d) (hbc : b ≠ c) (hbd : b ≠ d) (hcd : c ≠ d)
    (z1 : R a d = 0) (z2 : R d a = 0) (z3 : R c b = 0) (z4 : R b c = 0) (i j : Fin n) :
    swapUndF R a b c d i j = R i j ∨ swapUndF R a b c d i j = 0 ∨
      (i = a ∧ j = d) ∨ (i = d ∧ j = a) ∨ (i = c ∧ j = b) ∨ (i = b ∧ j = c) := by
  rw [swapUndF_apply R a b c d hab hac had hbc hbd hcd z1 z2 z3 z4]
  simp only [tauUnd, Prod.mk.injEq]
  by_cases hia : i = a <;> by_cases hib : i = b <;> by_cases hic : i = c <;> by_cases hid : i = d <;>
  by_cases hja : j = a <;> by_cases hjb : j = b <;> by_cases hjc : j = c <;> by_cases hjd : j = d <;>
    simp_all

end Bct.RewireConn
