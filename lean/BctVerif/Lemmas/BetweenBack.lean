import BctVerif.Lemmas.BetweenDep

/-!
# The dependency accumulation of the Brandes-style routines (back-propagation phase) is correct (C08)

`backOuter` / `backInner` of the model mirror

    for w in Q[:n-1]:
        BC[w] += DP[w]
        for v in np.where(P[w, :])[0]:
            DPvw = (1 + DP[w]) * NP[v] / NP[w];  DP[v] += DPvw;  EBC[v, w] += DPvw

Given a forward-phase state whose `P` is the predecessor relation, whose `NP` are the shortest-path
counts and whose queue prefix lists every node except the source once, successors before
predecessors (`OrdOK`), the loop adds `δ_s(w)` to `BC[w]` and the per-source connection dependency
to `EBC[v,w]`.
-/
namespace Bct.Between
open Bct

variable {n : ℕ} (L : AMat Nat n)

theorem vget_set {α : Type} (xs : Vector α n) (v x : Fin n) (val : α) :
    (xs.set v val)[x] = if x = v then val else xs[x] := by
  by_cases h : x = v
  · subst h; simp
  · have : (v : ℕ) ≠ x := fun e => h (Fin.ext e.symm)
    simp [h, this]

/-- dependency of source `s` carried by the connection `v → w` -/
def edgeDep (s v w : Fin n) : ℚ :=
  if pred L (dist L) s v w = true then
    ((sigma L).get s v : ℚ) / ((sigma L).get s w : ℚ) * (1 + depOf (dist L) (sigma L) s w)
  else 0

theorem depOf_eq_sum_edgeDep (s v : Fin n) (hsv : s ≠ v) :
    depOf (dist L) (sigma L) s v = ∑ w, edgeDep L s v w := depOf_rec L s v hsv

theorem pairE_pred {s v w : Fin n} (t : Fin n) (hp : pred L (dist L) s v w = true) :
    pairE L (dist L) (sigma L) s t v w =
      ((sigma L).get s v : ℚ) / ((sigma L).get s w : ℚ) *
        ((if t = w then 1 else 0) + pairV (dist L) (sigma L) s t w) := by
  obtain ⟨hsw, hvw⟩ := pred_ne L hp
  obtain ⟨hL, a, ha, he⟩ := (pred_iff L).1 hp
  have hσw : ((sigma L).get s w : ℚ) ≠ 0 := sigma_ne_zero_of_reach L (reach_iff.2 ⟨_, he⟩)
  by_cases hst : s = t
  · subst hst
    simp [pairE, pairV, hsw]
  by_cases hr : reach (dist L) s t = true
  · have hσ := sigma_ne_zero_of_reach L hr
    have hl : pairE L (dist L) (sigma L) s t v w =
        (sigmaE L (dist L) (sigma L) s t v w : ℚ) / ((sigma L).get s t : ℚ) := by
      simp [pairE, hst, hr]
    have keyq : (sigmaE L (dist L) (sigma L) s t v w : ℚ) * ((sigma L).get s w : ℚ) =
        ((sigma L).get s v : ℚ) * (sigmaV (dist L) (sigma L) s t w : ℚ) := by
      exact_mod_cast sigmaE_pred L t hp
    have hin : (if t = w then (1 : ℚ) else 0) + pairV (dist L) (sigma L) s t w =
        (sigmaV (dist L) (sigma L) s t w : ℚ) / ((sigma L).get s t : ℚ) := by
      by_cases htw : t = w
      · subst htw
        have h1 : pairV (dist L) (sigma L) s t t = 0 := by simp [pairV]
        have h2 : sigmaV (dist L) (sigma L) s t t = (sigma L).get s t := by
          rw [sigmaV_of he (dist_self L t) (by simpa using he), sigma_self, mul_one]
        rw [h1, h2]; simp [hσ]
      · simp [pairV, hst, hsw, htw, hr]
    rw [hl, hin]
    field_simp
    linarith [keyq]
  · have htw : t ≠ w := by
      rintro rfl
      exact hr (reach_iff.2 ⟨_, he⟩)
    simp [pairE, pairV, hr, htw]

/-- the per-source connection dependency is the sum over targets of the pair fractions -/
theorem sum_pairE_target (s v w : Fin n) :
    ∑ t, pairE L (dist L) (sigma L) s t v w = edgeDep L s v w := by
  unfold edgeDep
  by_cases hp : pred L (dist L) s v w = true
  · simp only [hp, if_true]
    simp_rw [pairE_pred L _ hp]
    rw [← Finset.mul_sum, Finset.sum_add_distrib]
    simp [depOf, sumFin_eq_sum]
  · simp only [hp]
    refine Finset.sum_eq_zero fun t _ => ?_
    simp only [pairE]
    rw [sigmaE_not_pred L t hp]
    simp

theorem edgeDep_of_not_pred {s v w : Fin n} (h : ¬ pred L (dist L) s v w = true) : edgeDep L s v w = 0 := by
  simp [edgeDep, h]

/-! ### inner loop -/

theorem backInner_spec (st : SrcSt n) (w : Fin n) (vs : List (Fin n)) (a : Acc n)
    (hnp : st.NP[w] ≠ 0) (hw : w ∉ vs) (hnd : vs.Nodup) :
    ∃ a', backInner st w vs a = .ok a' ∧ a'.BC = a.BC ∧
      (∀ x, a'.DP[x] = a.DP[x] +
        if x ∈ vs then (1 + a.DP[w]) * (st.NP[x] : ℚ) / (st.NP[w] : ℚ) else 0) ∧
      (∀ x y, a'.EBC.get x y = a.EBC.get x y +
        if x ∈ vs ∧ y = w then (1 + a.DP[w]) * (st.NP[x] : ℚ) / (st.NP[w] : ℚ) else 0) := by
  induction vs generalizing a with
  | nil => exact ⟨a, rfl, rfl, by simp, by simp⟩
  | cons v vs ih =>
    have hvw : w ≠ v := fun e => hw (e ▸ List.mem_cons_self)
    have hw' : w ∉ vs := fun h => hw (List.mem_cons_of_mem _ h)
    obtain ⟨hv, hnd'⟩ := List.nodup_cons.1 hnd
    simp only [backInner, hnp, if_false]
    obtain ⟨a', h1, h2, h3, h4⟩ := ih
      { a with DP := a.DP.set v (a.DP[v] + (1 + a.DP[w]) * (st.NP[v] : ℚ) / (st.NP[w] : ℚ)),
               EBC := a.EBC.set v w (a.EBC.get v w + (1 + a.DP[w]) * (st.NP[v] : ℚ) / (st.NP[w] : ℚ)) }
      hw' hnd'
    refine ⟨a', h1, h2, ?_, ?_⟩
    · intro x
      rw [h3 x]
      simp only [vget_set, hvw, if_false]
      by_cases hx : x = v
      · subst hx; simp [hv]
      · simp [hx]
    · intro x y
      rw [h4 x y]
      simp only [vget_set, hvw, if_false, AMat.get_set]
      by_cases hx : x = v
      · subst hx
        by_cases hy : y = w
        · subst hy; simp [hv]
        · simp [hy]
      · simp [hx]

/-! ### outer loop -/

/-- `ql` lists successors before predecessors, given that `done` has been processed -/
def OrdOK (s : Fin n) : List (Fin n) → List (Fin n) → Prop
  | _, [] => True
  | done, w :: rest => (∀ y, pred L (dist L) s w y = true → y ∈ done) ∧ OrdOK s (w :: done) rest

/-- what the forward phase must deliver about `P` and `NP` -/
structure FwdPN (s : Fin n) (st : SrcSt n) : Prop where
  hP : ∀ w v, st.P.get w v = pred L (dist L) s v w
  hNP : ∀ x, reach (dist L) s x = true → st.NP[x] = (sigma L).get s x

theorem backOuter_spec (s : Fin n) (st : SrcSt n) (hf : FwdPN L s st)
    (ql done : List (Fin n)) (a : Acc n)
    (hnd : ql.Nodup) (hdn : done.Nodup) (hdis : ∀ w ∈ ql, w ∉ done) (hs : s ∉ ql)
    (hord : OrdOK L s done ql)
    (hDP : ∀ x, a.DP[x] = (done.map (edgeDep L s x)).sum) :
    ∃ a', backOuter st (ql.map Fin.val) a = .ok a' ∧
      (∀ x, a'.BC[x] = a.BC[x] + if x ∈ ql then depOf (dist L) (sigma L) s x else 0) ∧
      (∀ v w, a'.EBC.get v w = a.EBC.get v w + if w ∈ ql then edgeDep L s v w else 0) := by
  induction ql generalizing done a with
  | nil => exact ⟨a, rfl, by simp, by simp⟩
  | cons w rest ih =>
    obtain ⟨hwr, hnd'⟩ := List.nodup_cons.1 hnd
    obtain ⟨hsucc, hord'⟩ := hord
    have hsw : s ≠ w := fun e => hs (e ▸ List.mem_cons_self)
    have hwd : w ∉ done := hdis w List.mem_cons_self
    -- DP[w] is the full dependency of w: all its successors have been processed
    have hDPw : a.DP[w] = depOf (dist L) (sigma L) s w := by
      rw [hDP w, depOf_eq_sum_edgeDep L s w hsw, ← List.sum_toFinset _ hdn]
      refine Finset.sum_subset (Finset.subset_univ _) fun y _ hy => ?_
      apply edgeDep_of_not_pred
      intro hp
      exact hy (List.mem_toFinset.2 (hsucc y hp))
    -- the predecessors of w, in the order of `np.where(P[w, :])`
    set vs := (List.finRange n).filter fun v => st.P.get w v with hvs
    have hmem : ∀ v, v ∈ vs ↔ pred L (dist L) s v w = true := by
      intro v; simp [hvs, hf.hP]
    have hwvs : w ∉ vs := by
      intro h
      exact (pred_ne L ((hmem w).1 h)).2 rfl
    have hvsnd : vs.Nodup := (List.nodup_finRange n).filter _
    simp only [List.map_cons, backOuter, Fin.is_lt, dite_true, Fin.eta]
    by_cases hnil : vs = []
    · -- no predecessor: nothing is propagated (this covers unreachable nodes, whose NP is 0)
      have hb : backInner st w vs { a with BC := a.BC.set w (a.BC[w] + a.DP[w]) } =
          .ok { a with BC := a.BC.set w (a.BC[w] + a.DP[w]) } := by rw [hnil]; rfl
      rw [← hvs, hb]
      simp only [bind, Except.bind]
      obtain ⟨a', h1, h2, h3⟩ := ih (w :: done) { a with BC := a.BC.set w (a.BC[w] + a.DP[w]) }
        hnd' (List.nodup_cons.2 ⟨hwd, hdn⟩)
        (fun x hx hx' => by
          rcases List.mem_cons.1 hx' with e | e
          · exact hwr (e ▸ hx)
          · exact hdis x (List.mem_cons_of_mem _ hx) e)
        (fun h => hs (List.mem_cons_of_mem _ h)) hord'
        (fun x => by
          simp only [List.map_cons, List.sum_cons]
          rw [hDP x, edgeDep_of_not_pred L (fun hp => by
            have := (hmem x).2 hp; rw [hnil] at this; exact absurd this (by simp))]
          simp)
      refine ⟨a', h1, ?_, ?_⟩
      · intro x
        rw [h2 x]
        simp only [vget_set, List.mem_cons]
        by_cases hx : x = w
        · subst hx; simp [hwr, hDPw]
        · simp [hx]
      · intro v y
        rw [h3 v y]
        simp only [List.mem_cons]
        by_cases hy : y = w
        · subst hy
          rw [edgeDep_of_not_pred L (fun hp => by
            have := (hmem v).2 hp; rw [hnil] at this; exact absurd this (by simp))]
          simp
        · simp [hy]
    · -- at least one predecessor: w is reachable, NP[w] = σ(s,w) ≠ 0
      obtain ⟨v0, hv0⟩ := List.exists_mem_of_ne_nil vs hnil
      have hp0 := (hmem v0).1 hv0
      obtain ⟨hL0, a0, ha0, he0⟩ := (pred_iff L).1 hp0
      have hrw : reach (dist L) s w = true := reach_iff.2 ⟨_, he0⟩
      have hNPw : st.NP[w] = (sigma L).get s w := hf.hNP w hrw
      have hσw : ((sigma L).get s w : ℚ) ≠ 0 := sigma_ne_zero_of_reach L hrw
      have hnp : st.NP[w] ≠ 0 := by
        rw [hNPw]; exact_mod_cast hσw
      obtain ⟨a1, hb, hb1, hb2, hb3⟩ := backInner_spec st w vs
        { a with BC := a.BC.set w (a.BC[w] + a.DP[w]) } hnp hwvs hvsnd
      rw [← hvs, hb]
      simp only [bind, Except.bind]
      have hval : ∀ x, x ∈ vs → (1 + a.DP[w]) * (st.NP[x] : ℚ) / (st.NP[w] : ℚ) = edgeDep L s x w := by
        intro x hx
        have hp := (hmem x).1 hx
        obtain ⟨_, ax, hax, _⟩ := (pred_iff L).1 hp
        rw [hf.hNP x (reach_iff.2 ⟨_, hax⟩), hNPw, hDPw]
        simp only [edgeDep, hp, if_true]
        field_simp
      obtain ⟨a', h1, h2, h3⟩ := ih (w :: done) a1
        hnd' (List.nodup_cons.2 ⟨hwd, hdn⟩)
        (fun x hx hx' => by
          rcases List.mem_cons.1 hx' with e | e
          · exact hwr (e ▸ hx)
          · exact hdis x (List.mem_cons_of_mem _ hx) e)
        (fun h => hs (List.mem_cons_of_mem _ h)) hord'
        (fun x => by
          simp only [List.map_cons, List.sum_cons]
          rw [hb2 x, hDP x]
          by_cases hx : x ∈ vs
          · simp only [hx, if_true]; rw [hval x hx]; ring
          · simp only [hx, if_false]
            rw [edgeDep_of_not_pred L (fun hp => hx ((hmem x).2 hp))]; ring)
      refine ⟨a', h1, ?_, ?_⟩
      · intro x
        rw [h2 x, hb1]
        simp only [vget_set, List.mem_cons]
        by_cases hx : x = w
        · subst hx; simp [hwr, hDPw]
        · simp [hx]
      · intro v y
        rw [h3 v y, hb3 v y]
        simp only [List.mem_cons]
        by_cases hy : y = w
        · subst hy
          by_cases hv : v ∈ vs
          · simp only [hv, true_and, if_true, hwr, or_false]
            rw [hval v hv]; simp
          · simp only [hv, false_and, if_false, hwr, or_false, if_true]
            rw [edgeDep_of_not_pred L (fun hp => hv ((hmem v).2 hp))]; simp
        · simp [hy]

end Bct.Between
