import BctVerif.Lemmas.Core
import Mathlib.Algebra.Order.Ring.Rat
import Mathlib.Algebra.Order.Ring.Nat

/-!
# The three concrete routines as instances of `Bridge`, and the `coreness` fold
-/
namespace Bct.Core
open Finset

variable {n : ℕ}

theorem sum_restrict {γ : Type} [AddCommMonoid γ] (S : Finset (Fin n)) (g h : Fin n → γ)
    (h1 : ∀ w ∈ S, g w = h w) (h2 : ∀ w, w ∉ S → g w = 0) : ∑ w, g w = ∑ w ∈ S, h w := by
  rw [← Finset.sum_subset (Finset.subset_univ S) (fun w _ hw => h2 w hw)]
  exact Finset.sum_congr rfl h1

/-- contribution of `w` to the degree of `v` -/
def wtBu (A : AMat Int n) (w v : Fin n) : ℕ := if A.get w v ≠ 0 then 1 else 0
def wtBd (A : AMat Int n) (w v : Fin n) : ℕ :=
  (if A.get w v ≠ 0 then 1 else 0) + (if A.get v w ≠ 0 then 1 else 0)
def wtWu (A : AMat Rat n) (w v : Fin n) : ℚ := A.get w v

theorem smallNat_iff (k x : ℕ) : smallNat k x = true ↔ (0 < x ∧ x < k) := by simp [smallNat]
theorem posNat_iff (x : ℕ) : posNat x = true ↔ 0 < x := by simp [posNat]
theorem smallRat_iff (s x : ℚ) : smallRat s x = true ↔ (0 < x ∧ x < s) := by simp [smallRat]
theorem posRat_iff (x : ℚ) : posRat x = true ↔ 0 < x := by simp [posRat]

theorem degBu_restrict (A : AMat Int n) (S : Finset (Fin n)) (v : Fin n) :
    degBu (restrictM 0 A S) v = if v ∈ S then dIn (wtBu A) S v else 0 := by
  unfold degBu dIn
  rw [sum_map_finRange]
  by_cases hv : v ∈ S
  · rw [if_pos hv]
    apply sum_restrict
    · intro w hw; simp [hw, hv, wtBu]
    · intro w hw; simp [hw]
  · rw [if_neg hv]
    apply Finset.sum_eq_zero
    intro w _; simp [hv]

theorem degBd_restrict (A : AMat Int n) (S : Finset (Fin n)) (v : Fin n) :
    degBd (restrictM 0 A S) v = if v ∈ S then dIn (wtBd A) S v else 0 := by
  unfold degBd dIn
  rw [sum_map_finRange]
  by_cases hv : v ∈ S
  · rw [if_pos hv]
    apply sum_restrict
    · intro w hw; simp [hw, hv, wtBd]
    · intro w hw; simp [hw]
  · rw [if_neg hv]
    apply Finset.sum_eq_zero
    intro w _; simp [hv]

theorem strWu_restrict (A : AMat Rat n) (S : Finset (Fin n)) (v : Fin n) :
    strWu (restrictM 0 A S) v = if v ∈ S then dIn (wtWu A) S v else 0 := by
  unfold strWu dIn
  rw [sum_map_finRange]
  by_cases hv : v ∈ S
  · rw [if_pos hv]
    apply sum_restrict
    · intro w hw; simp [hw, hv, wtWu]
    · intro w hw; simp [hw]
  · rw [if_neg hv]
    apply Finset.sum_eq_zero
    intro w _; simp [hv]

theorem bridgeBu (A : AMat Int n) (hsym : ∀ i j, A.get i j = A.get j i) (k : ℕ) :
    Bridge 0 degBu (smallNat k) posNat A (wtBu A) k where
  wt_nonneg := fun _ _ => Nat.zero_le _
  wt_symm0 := by
    intro w v h
    unfold wtBu at *
    rw [hsym v w]; exact h
  wt_zero := by
    intro w v h
    unfold wtBu at h
    by_contra hne
    simp [hne] at h
  deg_restrict := degBu_restrict A
  small_iff := smallNat_iff k
  pos_iff := posNat_iff

theorem bridgeBd (A : AMat Int n) (k : ℕ) :
    Bridge 0 degBd (smallNat k) posNat A (wtBd A) k where
  wt_nonneg := fun _ _ => Nat.zero_le _
  wt_symm0 := by
    intro w v h
    unfold wtBd at *
    omega
  wt_zero := by
    intro w v h
    unfold wtBd at h
    by_contra hne
    simp [hne] at h
  deg_restrict := degBd_restrict A
  small_iff := smallNat_iff k
  pos_iff := posNat_iff

theorem bridgeWu (A : AMat Rat n) (hsym : ∀ i j, A.get i j = A.get j i) (h0 : ∀ i j, 0 ≤ A.get i j)
    (s : ℚ) : Bridge 0 strWu (smallRat s) posRat A (wtWu A) s where
  wt_nonneg := fun w v => h0 w v
  wt_symm0 := by
    intro w v h
    unfold wtWu at *
    rw [hsym v w]; exact h
  wt_zero := fun _ _ h => h
  deg_restrict := strWu_restrict A
  small_iff := smallRat_iff s
  pos_iff := posRat_iff

/-! ### membership in the core, read off the returned matrix -/

section mem
variable {α β : Type} [AddCommMonoid β] [LinearOrder β] [IsOrderedAddMonoid β]
  {z : α} {deg : AMat α n → Fin n → β} {small pos : β → Bool} {A : AMat α n}
  {wt : Fin n → Fin n → β} {k : β}

theorem deg_core_pos_iff (hb : Bridge z deg small pos A wt k) (v : Fin n) :
    0 < deg (restrictM z A (coreSet wt k)) v ↔ v ∈ coreSet wt k := by
  rw [hb.deg_restrict]
  by_cases hv : v ∈ coreSet wt k
  · simp only [hv, if_true, iff_true]
    rw [dIn_core_eq hb (Finset.mem_filter.mp hv).1]
    exact (Finset.mem_filter.mp hv).2
  · simp [hv]

/-- cores shrink as the bound grows -/
theorem coreSet_anti (hb : Bridge z deg small pos A wt k) {k' : β} (hb' : Bridge z deg small pos A wt k')
    (hk : 0 < k) (hkk : k ≤ k') : coreSet wt k' ⊆ coreSet wt k :=
  coreSet_maximal hb hk _ (fun v hv => hkk.trans (coreSet_qualifies hb' v hv))

end mem

/-! ### the `coreness[ss] = k` loop -/

theorem lastHit_append (P : ℕ → Bool) (ks : List ℕ) (k : ℕ) :
    lastHit P (ks ++ [k]) = if P k then k else lastHit P ks := by
  simp [lastHit, List.foldl_append]

/-- the loop's value is 0 or a `k` of the list whose test held -/
theorem lastHit_range_mem (P : ℕ → Bool) (m : ℕ) :
    lastHit P (List.range m) = 0 ∨ (lastHit P (List.range m) < m ∧ P (lastHit P (List.range m)) = true) := by
  induction m with
  | zero => left; rfl
  | succ m ih =>
    rw [List.range_succ, lastHit_append]
    by_cases h : P m = true
    · right; simp [h]
    · rw [if_neg h]
      rcases ih with ih | ⟨h1, h2⟩
      · left; exact ih
      · right; exact ⟨by omega, h2⟩

/-- … and no later `k` of the list passed the test -/
theorem lastHit_range_ge (P : ℕ → Bool) (m : ℕ) : ∀ k, k < m → P k = true → k ≤ lastHit P (List.range m) := by
  induction m with
  | zero => intro k hk; omega
  | succ m ih =>
    intro k hk hP
    rw [List.range_succ, lastHit_append]
    by_cases h : P m = true
    · rw [if_pos h]; omega
    · rw [if_neg h]
      have : k ≠ m := fun e => h (e ▸ hP)
      exact ih k (by omega) hP

theorem corenessOf_fst (kcore : ℕ → Out Int n) (v : Fin n) :
    (corenessOf kcore).1 v =
      lastHit (fun k => decide (k < n) && decide (0 < colSum (kcore k).M v)) (List.range n) := by
  unfold corenessOf
  simp only
  congr 1
  funext k
  by_cases h : k < n
  · simp [h]
  · simp [h]

theorem corenessOf_snd (kcore : ℕ → Out Int n) :
    (corenessOf kcore).2 = (List.finRange n).map fun k => (kcore k.val).kn := by
  unfold corenessOf
  simp

theorem corenessOfBd_fst (kcore : ℕ → Out Int n) (v : Fin n) :
    (corenessOfBd kcore).1 v =
      lastHit (fun k => decide (k < 2 * n - 1) && decide (0 < colSum (kcore k).M v + rowSum (kcore k).M v))
        (List.range (2 * n - 1)) := by
  unfold corenessOfBd
  simp only
  congr 1
  funext k
  by_cases h : k < 2 * n - 1
  · simp [h]
  · simp [h]

theorem corenessOfBd_snd (kcore : ℕ → Out Int n) :
    (corenessOfBd kcore).2 = (List.finRange (2 * n - 1)).map fun k => (kcore k.val).kn := by
  unfold corenessOfBd
  simp

/-- on a 0/1 matrix the plain row sum is the row's number of nonzero cells -/
theorem rowSum_eq_count (M : AMat Int n) (h01 : ∀ i j, M.get i j = 0 ∨ M.get i j = 1) (v : Fin n) :
    rowSum M v = ((Finset.univ.filter fun w => M.get v w ≠ 0).card : ℤ) := by
  unfold rowSum
  rw [sum_map_finRange, Finset.card_filter]
  push_cast
  apply Finset.sum_congr rfl
  intro w _
  rcases h01 v w with h | h <;> simp [h]

/-- on a 0/1 matrix the plain column sum is the column's number of nonzero cells -/
theorem colSum_eq_count (M : AMat Int n) (h01 : ∀ i j, M.get i j = 0 ∨ M.get i j = 1) (v : Fin n) :
    colSum M v = ((Finset.univ.filter fun w => M.get w v ≠ 0).card : ℤ) := by
  unfold colSum
  rw [sum_map_finRange, Finset.card_filter]
  push_cast
  apply Finset.sum_congr rfl
  intro w _
  rcases h01 w v with h | h <;> simp [h]

end Bct.Core
