import BctVerif.Lemmas.BetweenThrough
import Mathlib.Algebra.Order.Field.Rat

/-!
# Algebra of `dist`, `sigma`, `sigmaV`, `sigmaE` (C08): recurrences used by Brandes' algorithm
-/
namespace Bct.Between
open Bct

variable {n : ℕ} (L : AMat Nat n)

theorem dist_self (s : Fin n) : (dist L).get s s = some 0 := by
  obtain ⟨x, hx, h0⟩ := dist_lower L s [] trivial 0 rfl
  have : x = 0 := by omega
  subst this; exact hx

theorem dist_triangle {s v t : Fin n} {a b : ℕ} (ha : (dist L).get s v = some a)
    (hb : (dist L).get v t = some b) : ∃ c, (dist L).get s t = some c ∧ c ≤ a + b := by
  obtain ⟨⟨p1, h1, e1, l1⟩, _⟩ := (dist_isDist L s v).2 a ha
  obtain ⟨⟨p2, h2, e2, l2⟩, _⟩ := (dist_isDist L v t).2 b hb
  have hw : IsWalk L s (p1 ++ p2) := (isWalk_append L _ _ _).2 ⟨h1, e1 ▸ h2⟩
  obtain ⟨c, hc, hle⟩ := dist_lower L s (p1 ++ p2) hw _ rfl
  rw [wend_append, e1, e2] at hc
  rw [wlen_append, e1, l1, l2] at hle
  exact ⟨c, hc, hle⟩

theorem dist_edge {v w : Fin n} (h : L.get v w ≠ 0) : ∃ x, (dist L).get v w = some x ∧ x ≤ L.get v w := by
  obtain ⟨c, hc, hle⟩ := dist_lower L v [w] ⟨h, trivial⟩ _ rfl
  exact ⟨c, hc, by simpa using hle⟩

theorem dist_pos_of_ne {s t : Fin n} {d : ℕ} (h : (dist L).get s t = some d) (hne : s ≠ t) : 0 < d := by
  obtain ⟨⟨p, hp, he, hl⟩, _⟩ := (dist_isDist L s t).2 d h
  rcases Nat.eq_zero_or_pos d with h0 | h0
  · subst h0
    have := eq_nil_of_wlen_eq_zero L hp hl
    subst this
    exact absurd he hne
  · exact h0

theorem sigma_pos {s t : Fin n} {d : ℕ} (h : (dist L).get s t = some d) : 0 < (sigma L).get s t := by
  obtain ⟨⟨p, hp, he, hl⟩, _⟩ := (dist_isDist L s t).2 d h
  rw [sigma_eq_ncard, Set.ncard_pos (minW_finite L s t)]
  exact ⟨p, (isMin_iff_dist L s t p).2 ⟨hp, he, by rw [hl]; exact h⟩⟩

/-- the first-step recurrence of the shortest-path counts -/
theorem sigma_rec (s t : Fin n) :
    (sigma L).get s t = (if s = t then 1 else 0) +
      ∑ w, if tight L (dist L) s w t = true then (sigma L).get w t else 0 := by
  have h1 : (minWF L (n + 1) s t) = minWF L n s t := by
    ext p
    simp only [mem_minWF]
    exact ⟨fun h => ⟨h.1, h.1.length_lt L⟩, fun h => ⟨h.1, by omega⟩⟩
  have h2 := card_minWF L (n + 1) s t
  rw [h1, card_minWF] at h2
  have : (sigma L) = iter (sigStep L (dist L)) n (AMat.ofFn fun _ _ => 0) := rfl
  rw [this]
  rw [h2]
  simp only [iter_succ, sigStep, AMat.get_ofFn, sumFin_eq_sum]

theorem sigma_self (s : Fin n) : (sigma L).get s s = 1 := by
  rw [sigma_rec]
  simp only [if_true]
  have : ∀ w, tight L (dist L) s w s = false := by
    intro w
    rw [Bool.eq_false_iff, Ne, tight_iff]
    rintro ⟨h, d, e, hd, _, hde⟩
    rw [dist_self] at hd
    simp only [Option.some.injEq] at hd
    omega
  simp [this]

/-! ### closed forms of `sigmaV`, `sigmaE` -/

section closed
variable {D : DMat n} {S : AMat Nat n} {s t u v w : Fin n}

theorem sigmaV_of {a b : ℕ} (ha : D.get s v = some a) (hb : D.get v t = some b)
    (hc : D.get s t = some (a + b)) : sigmaV D S s t v = S.get s v * S.get v t := by
  simp [sigmaV, ha, hb, hc]

theorem sigmaV_zero (h : ¬ ∃ a b, D.get s v = some a ∧ D.get v t = some b ∧ D.get s t = some (a + b)) :
    sigmaV D S s t v = 0 := by
  unfold sigmaV
  cases ha : D.get s v with
  | none => rfl
  | some a =>
    cases hb : D.get v t with
    | none => rfl
    | some b =>
      cases hc : D.get s t with
      | none => rfl
      | some c =>
        simp only
        by_cases e : a + b = c
        · exact absurd ⟨a, b, ha, hb, e ▸ hc⟩ h
        · simp [e]

theorem sigmaE_of {a b : ℕ} (hL : L.get u w ≠ 0) (ha : D.get s u = some a) (hb : D.get w t = some b)
    (hc : D.get s t = some (a + L.get u w + b)) : sigmaE L D S s t u w = S.get s u * S.get w t := by
  simp [sigmaE, hL, ha, hb, hc]

theorem sigmaE_zero (h : ¬ (L.get u w ≠ 0 ∧ ∃ a b, D.get s u = some a ∧ D.get w t = some b ∧
    D.get s t = some (a + L.get u w + b))) : sigmaE L D S s t u w = 0 := by
  unfold sigmaE
  by_cases hL : L.get u w = 0
  · simp [hL]
  · simp only [hL, if_false]
    cases ha : D.get s u with
    | none => rfl
    | some a =>
      cases hb : D.get w t with
      | none => rfl
      | some b =>
        cases hc : D.get s t with
        | none => rfl
        | some c =>
          simp only
          by_cases e : a + L.get u w + b = c
          · exact absurd ⟨hL, a, b, ha, hb, e ▸ hc⟩ h
          · simp [e]

theorem pred_iff : pred L D s v w = true ↔
    L.get v w ≠ 0 ∧ ∃ a, D.get s v = some a ∧ D.get s w = some (a + L.get v w) := by
  unfold pred
  cases h1 : D.get s v <;> cases h2 : D.get s w <;> simp
  intro _; exact eq_comm

end closed

/-- every minimum-length walk through `v ≠ t` leaves `v` along exactly one connection -/
theorem sum_sigmaE_out (s t v : Fin n) (htv : t ≠ v) :
    ∑ w, sigmaE L (dist L) (sigma L) s t v w = sigmaV (dist L) (sigma L) s t v := by
  by_cases hC : ∃ a b, (dist L).get s v = some a ∧ (dist L).get v t = some b ∧
      (dist L).get s t = some (a + b)
  · obtain ⟨a, b, ha, hb, hc⟩ := hC
    rw [sigmaV_of ha hb hc, sigma_rec L v t, if_neg (Ne.symm htv), zero_add, Finset.mul_sum]
    refine Finset.sum_congr rfl fun w _ => ?_
    by_cases ht : tight L (dist L) v w t = true
    · simp only [ht, if_true]
      obtain ⟨hL, d, e, hd, he, hde⟩ := (tight_iff L _ _ _ _).1 ht
      rw [hb] at hd; simp only [Option.some.injEq] at hd; subst hd
      exact sigmaE_of L hL ha he (by rw [hc]; congr 1; omega)
    · simp only [ht]
      rw [sigmaE_zero]; · simp
      rintro ⟨hL, a', b', ha', hb', hc'⟩
      apply ht
      rw [tight_iff]
      rw [ha] at ha'; simp only [Option.some.injEq] at ha'; subst ha'
      rw [hc] at hc'; simp only [Option.some.injEq] at hc'
      exact ⟨hL, b, b', hb, hb', by omega⟩
  · rw [sigmaV_zero hC]
    refine Finset.sum_eq_zero fun w _ => ?_
    apply sigmaE_zero
    rintro ⟨hL, a, b, ha, hb, hc⟩
    obtain ⟨x, hx, hxl⟩ := dist_edge L hL
    obtain ⟨y, hy, hyl⟩ := dist_triangle L hx hb
    obtain ⟨c, hc', hcl⟩ := dist_triangle L ha hy
    rw [hc] at hc'; simp only [Option.some.injEq] at hc'
    exact hC ⟨a, y, ha, hy, by rw [hc]; congr 1; omega⟩

/-- no minimum-length walk ending at `v` leaves `v` -/
theorem sigmaE_target (s v w : Fin n) : sigmaE L (dist L) (sigma L) s v v w = 0 := by
  apply sigmaE_zero
  rintro ⟨hL, a, b, ha, _, hc⟩
  rw [ha] at hc; simp only [Option.some.injEq] at hc
  omega

theorem sigmaE_pred {s v w : Fin n} (t : Fin n) (hp : pred L (dist L) s v w = true) :
    sigmaE L (dist L) (sigma L) s t v w * (sigma L).get s w =
      (sigma L).get s v * sigmaV (dist L) (sigma L) s t w := by
  obtain ⟨hL, a, ha, he⟩ := (pred_iff L).1 hp
  by_cases hC : ∃ b, (dist L).get w t = some b ∧ (dist L).get s t = some (a + L.get v w + b)
  · obtain ⟨b, hb, hc⟩ := hC
    rw [sigmaE_of L hL ha hb hc, sigmaV_of he hb hc]
    ring
  · rw [sigmaE_zero, sigmaV_zero]; · simp
    · rintro ⟨a', b', ha', hb', hc'⟩
      rw [he] at ha'; simp only [Option.some.injEq] at ha'; subst ha'
      exact hC ⟨b', hb', hc'⟩
    · rintro ⟨_, a', b', ha', hb', hc'⟩
      rw [ha] at ha'; simp only [Option.some.injEq] at ha'; subst ha'
      exact hC ⟨b', hb', hc'⟩

theorem sigmaE_not_pred {s v w : Fin n} (t : Fin n) (hp : ¬ pred L (dist L) s v w = true) :
    sigmaE L (dist L) (sigma L) s t v w = 0 := by
  apply sigmaE_zero
  rintro ⟨hL, a, b, ha, hb, hc⟩
  apply hp
  rw [pred_iff L]
  refine ⟨hL, a, ha, ?_⟩
  obtain ⟨x, hx, hxl⟩ := dist_edge L hL
  obtain ⟨e, he, hel⟩ := dist_triangle L ha hx
  obtain ⟨c, hc', hcl⟩ := dist_triangle L he hb
  rw [hc] at hc'; simp only [Option.some.injEq] at hc'
  rw [he]; congr 1; omega

theorem pred_ne {s v w : Fin n} (hp : pred L (dist L) s v w = true) : s ≠ w ∧ v ≠ w := by
  obtain ⟨hL, a, ha, he⟩ := (pred_iff L).1 hp
  constructor
  · rintro rfl
    rw [dist_self] at he; simp only [Option.some.injEq] at he; omega
  · rintro rfl
    rw [ha] at he; simp only [Option.some.injEq] at he; omega

end Bct.Between
