import BctVerif.Props.C01

/-!
# Lifting a per-swap fact to whole runs of the executable rewiring model

`SwapStep cfg R R'` : `R'` is `R` after one *accepted* swap of two present edges on four distinct
nodes.  `attempt_cases` : one pass of the attempt body either leaves the matrix alone or performs a
`SwapStep`.  `runBudget_preserves` : a predicate on matrices that survives every `SwapStep` (on
matrices that are symmetric for the undirected routines and keep the input's diagonal) survives
every successful run — any configuration, any budget, any list of draws.
-/

namespace Bct.RewireConn
open Bct Bct.Rewire Bct.RewireFun Bct.RewireInv Bct.C01

variable {n k : ℕ}

def SwapStep (cfg : Cfg n) (R R' : AMat Int n) : Prop :=
  ∃ a b c d : Fin n, a ≠ b ∧ a ≠ c ∧ a ≠ d ∧ b ≠ c ∧ b ≠ d ∧ c ≠ d ∧
    R.toFun a b ≠ 0 ∧ R.toFun c d ≠ 0 ∧ accept cfg R a b c d = true ∧
    R' = (if cfg.und then swapUnd R a b c d else swapDir R a b c d)

/-- the conjuncts of the acceptance test -/
theorem accept_parts (cfg : Cfg n) (R : AMat Int n) (a b c d : Fin n) (h : accept cfg R a b c d = true) :
    (R.toFun a d = 0 ∧ R.toFun c b = 0) ∧
    (∀ B, cfg.mask = some B → B.toFun a d = 0 ∧ B.toFun c b = 0 ∧ B.toFun d a = 0 ∧ B.toFun b c = 0) ∧
    (∀ D, cfg.lat = some D → latOk D R a b c d = true) ∧
    (cfg.conn = true → (if cfg.und then undConnOk R a b c d else dirConnOk R a b c d) = true) := by
  have g := accept_guard cfg R a b c d h
  unfold accept at h
  split at h
  · simp at h
  · simp only [Bool.and_eq_true] at h
    obtain ⟨⟨hm, hl⟩, hc⟩ := h
    refine ⟨g, ?_, ?_, ?_⟩
    · intro B hB
      rw [hB] at hm
      simp only [Bool.and_eq_true, beq_iff_eq] at hm
      exact ⟨hm.1.1.1, hm.1.1.2, hm.1.2, hm.2⟩
    · intro D hD
      rw [hD] at hl
      exact hl
    · intro hconn
      rw [hconn] at hc
      simpa using hc

/-- One pass of the attempt body: the matrix is unchanged, or one accepted swap was applied. -/
theorem attempt_cases (cfg : Cfg n) (R0 : Mat n) (s s' : St n k) (ds rest : List ℕ) (ok : Bool)
    (hrun : attempt cfg s ds = .ok (s', ok, rest)) (h : RwInv cfg.und R0 s) :
    s'.R = s.R ∨ SwapStep cfg s.R s'.R := by
  unfold attempt at hrun
  simp only [bind, Except.bind] at hrun
  cases hp : pickPair s ds.length ds with
  | error e => simp [hp] at hrun
  | ok pr =>
    obtain ⟨⟨e1, e2⟩, rest1⟩ := pr
    have hd := pickPair_spec s _ _ _ _ _ hp
    have hne12 : e1 ≠ e2 := fun hh => hd.1 (by rw [hh])
    simp only [hp] at hrun
    cases hu : cfg.und with
    | true =>
      rw [hu] at h
      simp only [hu, if_true] at hrun
      match rest1, hrun with
      | cn :: rest2, hrun =>
        have key : ∀ s1 : St n k, RwInv true R0 s1 → s1.R = s.R → s1.iv e1 = s.iv e1 → s1.jv e1 = s.jv e1 →
            (s1.iv e2 = s.iv e2 ∧ s1.jv e2 = s.jv e2 ∨ s1.iv e2 = s.jv e2 ∧ s1.jv e2 = s.iv e2) →
            (if accept cfg s1.R (s.iv e1) (s.jv e1) (s1.iv e2) (s1.jv e2) = true then
              (Except.ok ({ R := swapUnd s1.R (s.iv e1) (s.jv e1) (s1.iv e2) (s1.jv e2), i := s1.i,
                            j := (s1.j.set e1 (s1.jv e2)).set e2 (s.jv e1), eff := s1.eff + 1 }, true, rest2) :
                Except Err (St n k × Bool × List ℕ))
             else .ok (s1, false, rest2)) = .ok (s', ok, rest) →
            (s'.R = s.R ∨ SwapStep cfg s.R s'.R) := by
          intro s1 h1 hR ha hb hcd hr
          split at hr
          · rename_i hacc
            simp only [Except.ok.injEq, Prod.mk.injEq] at hr
            obtain ⟨rfl, _, _⟩ := hr
            right
            have p1 := h1.edges.present e1
            have p2 := h1.edges.present e2
            have o1 := h1.edges.offdiag e1
            have o2 := h1.edges.offdiag e2
            rw [ha, hb] at p1 o1
            have hd1 : s.iv e1 ≠ s1.iv e2 ∧ s.iv e1 ≠ s1.jv e2 ∧ s.jv e1 ≠ s1.iv e2 ∧ s.jv e1 ≠ s1.jv e2 := by
              rcases hcd with ⟨hc, hd'⟩ | ⟨hc, hd'⟩
              · rw [hc, hd']; exact hd
              · rw [hc, hd']; exact ⟨hd.2.1, hd.1, hd.2.2.2, hd.2.2.1⟩
            refine ⟨s.iv e1, s.jv e1, s1.iv e2, s1.jv e2, o1, hd1.1, hd1.2.1, hd1.2.2.1, hd1.2.2.2, o2, ?_, ?_, ?_, ?_⟩
            · rw [← hR]; exact p1
            · rw [← hR]; exact p2
            · rw [← hR]; exact hacc
            · simp only [hu, if_true, hR]
          · simp only [Except.ok.injEq, Prod.mk.injEq] at hr
            obtain ⟨rfl, _, _⟩ := hr
            exact Or.inl hR
        by_cases hc : coin cn = true
        · simp only [hc, if_true] at hrun
          refine key (flip s e2) (flip_inv R0 s e2 h) (flip_R s e2) ?_ ?_ ?_ hrun
          · rw [flip_iv]; simp [hne12]
          · rw [flip_jv]; simp [hne12]
          · right; rw [flip_iv, flip_jv]; simp
        · simp only [hc] at hrun
          exact key s h rfl rfl rfl (Or.inl ⟨rfl, rfl⟩) hrun
    | false =>
      rw [hu] at h
      simp only [hu, Bool.false_eq_true, if_false] at hrun
      split at hrun
      · rename_i hacc
        simp only [Except.ok.injEq, Prod.mk.injEq] at hrun
        obtain ⟨rfl, _, _⟩ := hrun
        right
        refine ⟨s.iv e1, s.jv e1, s.iv e2, s.jv e2, h.edges.offdiag e1, hd.1, hd.2.1, hd.2.2.1, hd.2.2.2,
          h.edges.offdiag e2, h.edges.present e1, h.edges.present e2, hacc, ?_⟩
        simp only [hu, Bool.false_eq_true, if_false]
        rfl
      · simp only [Except.ok.injEq, Prod.mk.injEq] at hrun
        obtain ⟨rfl, _, _⟩ := hrun
        exact Or.inl rfl

/-- a predicate on matrices that survives every accepted swap -/
def StepStable (cfg : Cfg n) (R0 : Mat n) (Q : AMat Int n → Prop) : Prop :=
  ∀ R R' : AMat Int n, (cfg.und = true → ∀ i j, R.toFun i j = R.toFun j i) → (∀ v, R.toFun v v = R0 v v) →
    SwapStep cfg R R' → Q R → Q R'

theorem attempt_preserves (cfg : Cfg n) (R0 : Mat n) (Q : AMat Int n → Prop) (hQ : StepStable cfg R0 Q)
    (s s' : St n k) (ds rest : List ℕ) (ok : Bool)
    (hrun : attempt cfg s ds = .ok (s', ok, rest)) (h : RwInv cfg.und R0 s) (q : Q s.R) : Q s'.R := by
  rcases attempt_cases cfg R0 s s' ds rest ok hrun h with he | hs
  · rw [he]; exact q
  · exact hQ s.R s'.R h.symm h.diag hs q

theorem attempts_preserves (cfg : Cfg n) (R0 : Mat n) (Q : AMat Int n → Prop) (hQ : StepStable cfg R0 Q) :
    ∀ (budget : ℕ) (s s' : St n k) (ds rest : List ℕ),
    attempts cfg budget s ds = .ok (s', rest) → RwInv cfg.und R0 s → Q s.R → Q s'.R := by
  intro budget
  induction budget with
  | zero => intro s s' ds rest h _ q; simp only [attempts, Except.ok.injEq, Prod.mk.injEq] at h; rw [← h.1]; exact q
  | succ b ih =>
    intro s s' ds rest h hi q
    simp only [attempts, bind, Except.bind] at h
    cases ha : attempt cfg s ds with
    | error e => simp [ha] at h
    | ok r =>
      obtain ⟨s1, ok, rest1⟩ := r
      have h1 := attempt_inv cfg R0 s s1 ds rest1 ok ha hi
      have q1 := attempt_preserves cfg R0 Q hQ s s1 ds rest1 ok ha hi q
      simp only [ha] at h
      split at h
      · simp only [Except.ok.injEq, Prod.mk.injEq] at h; rw [← h.1]; exact q1
      · exact ih _ _ _ _ h h1 q1

theorem iters_preserves (cfg : Cfg n) (R0 : Mat n) (Q : AMat Int n → Prop) (hQ : StepStable cfg R0 Q) (maxAtt : ℕ) :
    ∀ (it : ℕ) (s s' : St n k) (ds rest : List ℕ),
    iters cfg maxAtt it s ds = .ok (s', rest) → RwInv cfg.und R0 s → Q s.R → Q s'.R := by
  intro it
  induction it with
  | zero => intro s s' ds rest h _ q; simp only [iters, Except.ok.injEq, Prod.mk.injEq] at h; rw [← h.1]; exact q
  | succ b ih =>
    intro s s' ds rest h hi q
    simp only [iters, bind, Except.bind] at h
    cases ha : attempts cfg (maxAtt + 1) s ds with
    | error e => simp [ha] at h
    | ok r =>
      obtain ⟨s1, rest1⟩ := r
      simp only [ha] at h
      exact ih _ _ _ _ h (attempts_inv cfg R0 _ _ _ _ _ ha hi) (attempts_preserves cfg R0 Q hQ _ _ _ _ _ ha hi q)

theorem untilSwaps_preserves (cfg : Cfg n) (R0 : Mat n) (Q : AMat Int n → Prop) (hQ : StepStable cfg R0 Q) :
    ∀ (fuel need : ℕ) (s s' : St n k) (ds rest : List ℕ),
    untilSwaps cfg fuel need s ds = .ok (s', rest) → RwInv cfg.und R0 s → Q s.R → Q s'.R := by
  intro fuel
  induction fuel with
  | zero =>
    intro need s s' ds rest h _ q
    cases need with
    | zero => simp only [untilSwaps, Except.ok.injEq, Prod.mk.injEq] at h; rw [← h.1]; exact q
    | succ m => simp [untilSwaps] at h
  | succ f ih =>
    intro need s s' ds rest h hi q
    cases need with
    | zero => simp only [untilSwaps, Except.ok.injEq, Prod.mk.injEq] at h; rw [← h.1]; exact q
    | succ m =>
      simp only [untilSwaps, bind, Except.bind] at h
      cases ha : attempt cfg s ds with
      | error e => simp [ha] at h
      | ok r =>
        obtain ⟨s1, ok, rest1⟩ := r
        simp only [ha] at h
        exact ih _ _ _ _ _ h (attempt_inv cfg R0 s s1 ds rest1 ok ha hi)
          (attempt_preserves cfg R0 Q hQ s s1 ds rest1 ok ha hi q)

/-- Every successful run of the model preserves a step-stable predicate — any routine
configuration, any budget, any draw list. -/
theorem runBudget_preserves (cfg : Cfg n) (Q : AMat Int n → Prop) (R R' : AMat Int n) (itr eff : ℕ) (ds rest : List ℕ)
    (hd : EmptyDiag R) (hs : cfg.und = true → Symm R) (hsrc : cfg.und = true → cfg.src ≠ .all)
    (hQ : StepStable cfg R.toFun Q) (q : Q R)
    (hrun : runBudget cfg R itr ds = .ok (R', eff, rest)) : Q R' := by
  have h0 := mkState_inv cfg.und cfg.src R hd hs hsrc
  unfold runBudget at hrun
  simp only [bind, Except.bind] at hrun
  split at hrun
  · cases hrun      -- the guard raised: not an `.ok` run
  cases hden : cfg.attDen with
  | some den =>
    simp only [hden] at hrun
    split at hrun
    · cases hrun
    · rename_i v hi
      simp only [Except.ok.injEq, Prod.mk.injEq] at hrun
      rw [← hrun.1]
      exact iters_preserves cfg R.toFun Q hQ _ _ _ _ _ _ hi h0 q
  | none =>
    simp only [hden] at hrun
    split at hrun
    · cases hrun
    · rename_i v hi
      simp only [Except.ok.injEq, Prod.mk.injEq] at hrun
      rw [← hrun.1]
      exact untilSwaps_preserves cfg R.toFun Q hQ _ _ _ _ _ _ hi h0 q

/-! ### lifting without `EmptyDiag`

`loops_state` : any predicate on loop states that one pass of the attempt body preserves survives the
budgeted / swap-counting loops.  Two uses: the directed routines, where one attempt is a no-op or
`swapDir` on `a ≠ c, a ≠ d, b ≠ c, b ≠ d` whatever the matrix (no invariant needed at all), and the
`triu1` edge list of `randomize_graph_partial_und`, which never lists a diagonal cell. -/

theorem attempts_state (cfg : Cfg n) (P : St n k → Prop)
    (hstep : ∀ (s s' : St n k) (ds rest : List ℕ) (ok : Bool), attempt cfg s ds = .ok (s', ok, rest) → P s → P s') :
    ∀ (budget : ℕ) (s s' : St n k) (ds rest : List ℕ), attempts cfg budget s ds = .ok (s', rest) → P s → P s' := by
  intro budget
  induction budget with
  | zero => intro s s' ds rest h q; simp only [attempts, Except.ok.injEq, Prod.mk.injEq] at h; rw [← h.1]; exact q
  | succ b ih =>
    intro s s' ds rest h q
    simp only [attempts, bind, Except.bind] at h
    cases ha : attempt cfg s ds with
    | error e => simp [ha] at h
    | ok r =>
      obtain ⟨s1, ok, rest1⟩ := r
      have q1 := hstep s s1 ds rest1 ok ha q
      simp only [ha] at h
      split at h
      · simp only [Except.ok.injEq, Prod.mk.injEq] at h; rw [← h.1]; exact q1
      · exact ih _ _ _ _ h q1

theorem iters_state (cfg : Cfg n) (P : St n k → Prop)
    (hstep : ∀ (s s' : St n k) (ds rest : List ℕ) (ok : Bool), attempt cfg s ds = .ok (s', ok, rest) → P s → P s')
    (maxAtt : ℕ) :
    ∀ (it : ℕ) (s s' : St n k) (ds rest : List ℕ), iters cfg maxAtt it s ds = .ok (s', rest) → P s → P s' := by
  intro it
  induction it with
  | zero => intro s s' ds rest h q; simp only [iters, Except.ok.injEq, Prod.mk.injEq] at h; rw [← h.1]; exact q
  | succ b ih =>
    intro s s' ds rest h q
    simp only [iters, bind, Except.bind] at h
    cases ha : attempts cfg (maxAtt + 1) s ds with
    | error e => simp [ha] at h
    | ok r =>
      obtain ⟨s1, rest1⟩ := r
      simp only [ha] at h
      exact ih _ _ _ _ h (attempts_state cfg P hstep _ _ _ _ _ ha q)

theorem untilSwaps_state (cfg : Cfg n) (P : St n k → Prop)
    (hstep : ∀ (s s' : St n k) (ds rest : List ℕ) (ok : Bool), attempt cfg s ds = .ok (s', ok, rest) → P s → P s') :
    ∀ (fuel need : ℕ) (s s' : St n k) (ds rest : List ℕ), untilSwaps cfg fuel need s ds = .ok (s', rest) → P s → P s' := by
  intro fuel
  induction fuel with
  | zero =>
    intro need s s' ds rest h q
    cases need with
    | zero => simp only [untilSwaps, Except.ok.injEq, Prod.mk.injEq] at h; rw [← h.1]; exact q
    | succ m => simp [untilSwaps] at h
  | succ f ih =>
    intro need s s' ds rest h q
    cases need with
    | zero => simp only [untilSwaps, Except.ok.injEq, Prod.mk.injEq] at h; rw [← h.1]; exact q
    | succ m =>
      simp only [untilSwaps, bind, Except.bind] at h
      cases ha : attempt cfg s ds with
      | error e => simp [ha] at h
      | ok r =>
        obtain ⟨s1, ok, rest1⟩ := r
        simp only [ha] at h
        exact ih _ _ _ _ _ h (hstep s s1 ds rest1 ok ha q)

/-- a state predicate preserved by every attempt and true of the initial state is true of the final
state of every successful run -/
theorem runBudget_state (cfg : Cfg n) (R R' : AMat Int n) (itr eff : ℕ) (ds rest : List ℕ)
    (P : St n (edgeCells cfg.src R).toArray.size → Prop)
    (hstep : ∀ (s s' : St n (edgeCells cfg.src R).toArray.size) (ds rest : List ℕ) (ok : Bool),
      attempt cfg s ds = .ok (s', ok, rest) → P s → P s')
    (h0 : P (mkState R (edgeCells cfg.src R).toArray))
    (hrun : runBudget cfg R itr ds = .ok (R', eff, rest)) :
    ∃ s : St n (edgeCells cfg.src R).toArray.size, P s ∧ s.R = R' := by
  unfold runBudget at hrun
  simp only [bind, Except.bind] at hrun
  split at hrun
  · cases hrun      -- the guard raised: not an `.ok` run
  cases hden : cfg.attDen with
  | some den =>
    simp only [hden] at hrun
    split at hrun
    · cases hrun
    · rename_i v hi
      simp only [Except.ok.injEq, Prod.mk.injEq] at hrun
      exact ⟨v.1, iters_state cfg P hstep _ _ _ _ _ _ hi h0, hrun.1⟩
  | none =>
    simp only [hden] at hrun
    split at hrun
    · cases hrun
    · rename_i v hi
      simp only [Except.ok.injEq, Prod.mk.injEq] at hrun
      exact ⟨v.1, untilSwaps_state cfg P hstep _ _ _ _ _ _ hi h0, hrun.1⟩

/-- what one attempt of a *directed* routine does to the matrix, with no assumption on the state -/
def WeakStepDir (cfg : Cfg n) (R R' : AMat Int n) : Prop :=
  ∃ a b c d : Fin n, a ≠ c ∧ a ≠ d ∧ b ≠ c ∧ b ≠ d ∧ accept cfg R a b c d = true ∧ R' = swapDir R a b c d

theorem attempt_cases_dir (cfg : Cfg n) (hu : cfg.und = false) (s s' : St n k) (ds rest : List ℕ) (ok : Bool)
    (hrun : attempt cfg s ds = .ok (s', ok, rest)) : s'.R = s.R ∨ WeakStepDir cfg s.R s'.R := by
  unfold attempt at hrun
  simp only [bind, Except.bind] at hrun
  cases hp : pickPair s ds.length ds with
  | error e => simp [hp] at hrun
  | ok pr =>
    obtain ⟨⟨e1, e2⟩, rest1⟩ := pr
    have hd := pickPair_spec s _ _ _ _ _ hp
    simp only [hp, hu, Bool.false_eq_true, if_false] at hrun
    split at hrun
    · rename_i hacc
      simp only [Except.ok.injEq, Prod.mk.injEq] at hrun
      obtain ⟨rfl, _, _⟩ := hrun
      exact Or.inr ⟨s.iv e1, s.jv e1, s.iv e2, s.jv e2, hd.1, hd.2.1, hd.2.2.1, hd.2.2.2, hacc, rfl⟩
    · simp only [Except.ok.injEq, Prod.mk.injEq] at hrun
      obtain ⟨rfl, _, _⟩ := hrun
      exact Or.inl rfl

/-- directed routines: a predicate stable under `WeakStepDir` survives every successful run — no
hypothesis on the input matrix (any diagonal) -/
theorem runBudget_preserves_dir (cfg : Cfg n) (hu : cfg.und = false) (Q : AMat Int n → Prop)
    (R R' : AMat Int n) (itr eff : ℕ) (ds rest : List ℕ)
    (hQ : ∀ X X' : AMat Int n, WeakStepDir cfg X X' → Q X → Q X') (q : Q R)
    (hrun : runBudget cfg R itr ds = .ok (R', eff, rest)) : Q R' := by
  obtain ⟨s, hs, rfl⟩ := runBudget_state cfg R R' itr eff ds rest (fun s => Q s.R) (by
    intro s s' ds rest ok ha q
    rcases attempt_cases_dir cfg hu s s' ds rest ok ha with he | hw
    · rw [he]; exact q
    · exact hQ _ _ hw q) q hrun
  exact hs

/-- the `triu1` edge list never lists a diagonal cell: the C01 invariant holds initially for every
symmetric matrix, whatever its diagonal -/
theorem mkState_inv_triu1 (R : AMat Int n) (hs : Symm R) :
    RwInv true R.toFun (mkState R (edgeCells .triu1 R).toArray) := by
  have hmem : ∀ e : Fin (edgeCells .triu1 R).toArray.size,
      ((edgeCells .triu1 R).toArray[e]) ∈ edgeCells .triu1 R := by
    intro e
    have : (edgeCells .triu1 R).toArray[e] = (edgeCells .triu1 R)[e.val]'(by simpa using e.isLt) := by
      simp
    rw [this]; exact List.getElem_mem _
  have hinj : ∀ e e' : Fin (edgeCells .triu1 R).toArray.size,
      (edgeCells .triu1 R).toArray[e] = (edgeCells .triu1 R).toArray[e'] → e = e' := by
    intro e e' h
    have h1 : (edgeCells .triu1 R).toArray[e] = (edgeCells .triu1 R)[e.val]'(by simpa using e.isLt) := by simp
    have h2 : (edgeCells .triu1 R).toArray[e'] = (edgeCells .triu1 R)[e'.val]'(by simpa using e'.isLt) := by simp
    rw [h1, h2] at h
    exact Fin.ext ((List.Nodup.getElem_inj_iff (nodup_edgeCells .triu1 R)).mp h)
  have iv_eq : ∀ e, (mkState R (edgeCells .triu1 R).toArray).iv e = ((edgeCells .triu1 R).toArray[e]).1 := by
    intro e; simp [St.iv, mkState]
  have jv_eq : ∀ e, (mkState R (edgeCells .triu1 R).toArray).jv e = ((edgeCells .triu1 R).toArray[e]).2 := by
    intro e; simp [St.jv, mkState]
  have lt : ∀ e : Fin (edgeCells .triu1 R).toArray.size,
      ((edgeCells .triu1 R).toArray[e]).1.val < ((edgeCells .triu1 R).toArray[e]).2.val :=
    fun e => (mem_edgeCells .triu1 R _ (hmem e)).2.2 rfl
  refine ⟨fun _ => rfl, fun _ => rfl, rfl, fun _ => rfl, fun _ => hs, (fun h => by cases h), ?_, fun _ => rfl⟩
  refine ⟨?_, ?_, ?_, ?_⟩
  · intro e; rw [iv_eq, jv_eq]; exact (mem_edgeCells .triu1 R _ (hmem e)).1
  · intro e; rw [iv_eq, jv_eq]
    intro hh
    have := lt e
    rw [hh] at this
    exact Nat.lt_irrefl _ this
  · intro e e' hne; rw [iv_eq, jv_eq, iv_eq, jv_eq]
    intro ⟨h1, h2⟩
    exact hne (hinj e e' (Prod.ext h1 h2))
  · intro _ e e' _; rw [iv_eq, jv_eq, iv_eq, jv_eq]
    intro ⟨h1, h2⟩
    have a1 := lt e
    have a2 := lt e'
    rw [h1, h2] at a1
    omega

/-- `randomize_graph_partial_und`-like configurations (undirected, `triu1` edge list): a step-stable
predicate survives every successful run on a symmetric matrix — any diagonal -/
theorem runBudget_preserves_triu1 (cfg : Cfg n) (hu : cfg.und = true) (hsrc : cfg.src = .triu1)
    (Q : AMat Int n → Prop) (R R' : AMat Int n) (itr eff : ℕ) (ds rest : List ℕ) (hs : Symm R)
    (hQ : StepStable cfg R.toFun Q) (q : Q R)
    (hrun : runBudget cfg R itr ds = .ok (R', eff, rest)) : Q R' := by
  have h0 : RwInv cfg.und R.toFun (mkState R (edgeCells cfg.src R).toArray) := by
    rw [hu, hsrc]; exact mkState_inv_triu1 R hs
  obtain ⟨s, hsP, rfl⟩ := runBudget_state cfg R R' itr eff ds rest (fun s => RwInv cfg.und R.toFun s ∧ Q s.R) (by
    intro s s' ds rest ok ha hp
    exact ⟨attempt_inv cfg R.toFun s s' ds rest ok ha hp.1, attempt_preserves cfg R.toFun Q hQ s s' ds rest ok ha hp.1 hp.2⟩)
    ⟨h0, q⟩ hrun
  exact hsP.2

end Bct.RewireConn
