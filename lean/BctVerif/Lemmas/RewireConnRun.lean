import BctVerif.Props.C01

/-!
# Lifting a per-swap fact to whole runs of the executable rewiring model

`SwapStep cfg R R'` : `R'` is `R` after one *accepted* swap of two present edges on four distinct
nodes.  `attempt_cases` : one pass of the attempt body either leaves the matrix alone or performs a
`SwapStep`.  `runBudget_preserves` : a predicate on matrices that survives every `SwapStep` (on
matrices that are symmetric for the undirected routines and keep the input's diagonal) survives
every successful run — any configuration, any budget, any list of draws.
-/

namespace Bct.RewireConn
open Bct Bct.Rewire Bct.RewireFun Bct.RewireInv Bct.C01

variable {n k : ℕ}

def SwapStep (cfg : Cfg n) (R R' : AMat Int n) : Prop :=
  ∃ a b c d : Fin n, a ≠ b ∧ a ≠ c ∧ a ≠ d ∧ b ≠ c ∧ b ≠ d ∧ c ≠ d ∧
    R.toFun a b ≠ 0 ∧ R.toFun c d ≠ 0 ∧ accept cfg R a b c d = true ∧
    R' = (if cfg.und then swapUnd R a b c d else swapDir R a b c d)

/-- the conjuncts of the acceptance test -/
theorem accept_parts (cfg : Cfg n) (R : AMat Int n) (a b c d : Fin n) (h : accept cfg R a b c d = true) :
    (R.toFun a d = 0 ∧ R.toFun c b = 0) ∧
    (∀ B, cfg.mask = some B → B.toFun a d = 0 ∧ B.toFun c b = 0 ∧ B.toFun d a = 0 ∧ B.toFun b c = 0) ∧
    (∀ D, cfg.lat = some D → latOk D R a b c d = true) ∧
    (cfg.conn = true → (if cfg.und then undConnOk R a b c d else dirConnOk R a b c d) = true) := by
  have g := accept_guard cfg R a b c d h
  unfold accept at h
  split at h
  · simp at h
  · simp only [Bool.and_eq_true] at h
    obtain ⟨⟨hm, hl⟩, hc⟩ := h
    refine ⟨g, ?_, ?_, ?_⟩
    · intro B hB
      rw [hB] at hm
      simp only [Bool.and_eq_true, beq_iff_eq] at hm
      exact ⟨hm.1.1.1, hm.1.1.2, hm.1.2, hm.2⟩
    · intro D hD
      rw [hD] at hl
      exact hl
    · intro hconn
      rw [hconn] at hc
      simpa using hc

/-- One pass of the attempt body: the matrix is unchanged, or one accepted swap was applied. -/
theorem attempt_cases (cfg : Cfg n) (R0 : Mat n) (s s' : St n k) (ds rest : List ℕ) (ok : Bool)
    (hrun : attempt cfg s ds = .ok (s', ok, rest)) (h : RwInv cfg.und R0 s) :
    s'.R = s.R ∨ SwapStep cfg s.R s'.R := by
  unfold attempt at hrun
  simp only [bind, Except.bind] at hrun
  cases hp : pickPair s ds.length ds with
  | error e => simp [hp] at hrun
  | ok pr =>
    obtain ⟨⟨e1, e2⟩, rest1⟩ := pr
    have hd := pickPair_spec s _ _ _ _ _ hp
    have hne12 : e1 ≠ e2 := fun hh => hd.1 (by rw [hh])
    simp only [hp] at hrun
    cases hu : cfg.und with
    | true =>
      rw [hu] at h
      simp only [hu, if_true] at hrun
      match rest1, hrun with
      | cn :: rest2, hrun =>
        have key : ∀ s1 : St n k, RwInv true R0 s1 → s1.R = s.R → s1.iv e1 = s.iv e1 → s1.jv e1 = s.jv e1 →
            (s1.iv e2 = s.iv e2 ∧ s1.jv e2 = s.jv e2 ∨ s1.iv e2 = s.jv e2 ∧ s1.jv e2 = s.iv e2) →
            (if accept cfg s1.R (s.iv e1) (s.jv e1) (s1.iv e2) (s1.jv e2) = true then
              (Except.ok ({ R := swapUnd s1.R (s.iv e1) (s.jv e1) (s1.iv e2) (s1.jv e2), i := s1.i,
                            j := (s1.j.set e1 (s1.jv e2)).set e2 (s.jv e1), eff := s1.eff + 1 }, true, rest2) :
                Except Err (St n k × Bool × List ℕ))
             else .ok (s1, false, rest2)) = .ok (s', ok, rest) →
            (s'.R = s.R ∨ SwapStep cfg s.R s'.R) := by
          intro s1 h1 hR ha hb hcd hr
          split at hr
          · rename_i hacc
            simp only [Except.ok.injEq, Prod.mk.injEq] at hr
            obtain ⟨rfl, _, _⟩ := hr
            right
            have p1 := h1.edges.present e1
            have p2 := h1.edges.present e2
            have o1 := h1.edges.offdiag e1
            have o2 := h1.edges.offdiag e2
            rw [ha, hb] at p1 o1
            have hd1 : s.iv e1 ≠ s1.iv e2 ∧ s.iv e1 ≠ s1.jv e2 ∧ s.jv e1 ≠ s1.iv e2 ∧ s.jv e1 ≠ s1.jv e2 := by
              rcases hcd with ⟨hc, hd'⟩ | ⟨hc, hd'⟩
              · rw [hc, hd']; exact hd
              · rw [hc, hd']; exact ⟨hd.2.1, hd.1, hd.2.2.2, hd.2.2.1⟩
            refine ⟨s.iv e1, s.jv e1, s1.iv e2, s1.jv e2, o1, hd1.1, hd1.2.1, hd1.2.2.1, hd1.2.2.2, o2, ?_, ?_, ?_, ?_⟩
            · rw [← hR]; exact p1
            · rw [← hR]; exact p2
            · rw [← hR]; exact hacc
            · simp only [hu, if_true, hR]
          · simp only [Except.ok.injEq, Prod.mk.injEq] at hr
            obtain ⟨rfl, _, _⟩ := hr
            exact Or.inl hR
        by_cases hc : coin cn = true
        · simp only [hc, if_true] at hrun
          refine key (flip s e2) (flip_inv R0 s e2 h) (flip_R s e2) ?_ ?_ ?_ hrun
          · rw [flip_iv]; simp [hne12]
          · rw [flip_jv]; simp [hne12]
          · right; rw [flip_iv, flip_jv]; simp
        · simp only [hc] at hrun
          exact key s h rfl rfl rfl (Or.inl ⟨rfl, rfl⟩) hrun
    | false =>
      rw [hu] at h
      simp only [hu, Bool.false_eq_true, if_false] at hrun
      split at hrun
      · rename_i hacc
        simp only [Except.ok.injEq, Prod.mk.injEq] at hrun
        obtain ⟨rfl, _, _⟩ := hrun
        right
        refine ⟨s.iv e1, s.jv e1, s.iv e2, s.jv e2, h.edges.offdiag e1, hd.1, hd.2.1, hd.2.2.1, hd.2.2.2,
          h.edges.offdiag e2, h.edges.present e1, h.edges.present e2, hacc, ?_⟩
        simp only [hu, Bool.false_eq_true, if_false]
        rfl
      · simp only [Except.ok.injEq, Prod.mk.injEq] at hrun
        obtain ⟨rfl, _, _⟩ := hrun
        exact Or.inl rfl

/-- a predicate on matrices that survives every accepted swap -/
def StepStable (cfg : Cfg n) (R0 : Mat n) (Q : AMat Int n → Prop) : Prop :=
  ∀ R R' : AMat Int n, (cfg.und = true → ∀ i j, R.toFun i j = R.toFun j i) → (∀ v, R.toFun v v = R0 v v) →
    SwapStep cfg R R' → Q R → Q R'

theorem attempt_preserves (cfg : Cfg n) (R0 : Mat n) (Q : AMat Int n → Prop) (hQ : StepStable cfg R0 Q)
    (s s' : St n k) (ds rest : List ℕ) (ok : Bool)
    (hrun : attempt cfg s ds = .ok (s', ok, rest)) (h : RwInv cfg.und R0 s) (q : Q s.R) : Q s'.R := by
  rcases attempt_cases cfg R0 s s' ds rest ok hrun h with he | hs
  · rw [he]; exact q
  · exact hQ s.R s'.R h.symm h.diag hs q

theorem attempts_preserves (cfg : Cfg n) (R0 : Mat n) (Q : AMat Int n → Prop) (hQ : StepStable cfg R0 Q) :
    ∀ (budget : ℕ) (s s' : St n k) (ds rest : List ℕ),
    attempts cfg budget s ds = .ok (s', rest) → RwInv cfg.und R0 s → Q s.R → Q s'.R := by
  intro budget
  induction budget with
  | zero => intro s s' ds rest h _ q; simp only [attempts, Except.ok.injEq, Prod.mk.injEq] at h; rw [← h.1]; exact q
  | succ b ih =>
    intro s s' ds rest h hi q
    simp only [attempts, bind, Except.bind] at h
    cases ha : attempt cfg s ds with
    | error e => simp [ha] at h
    | ok r =>
      obtain ⟨s1, ok, rest1⟩ := r
      have h1 := attempt_inv cfg R0 s s1 ds rest1 ok ha hi
      have q1 := attempt_preserves cfg R0 Q hQ s s1 ds rest1 ok ha hi q
      simp only [ha] at h
      split at h
      · simp only [Except.ok.injEq, Prod.mk.injEq] at h; rw [← h.1]; exact q1
      · exact ih _ _ _ _ h h1 q1

theorem iters_preserves (cfg : Cfg n) (R0 : Mat n) (Q : AMat Int n → Prop) (hQ : StepStable cfg R0 Q) (maxAtt : ℕ) :
    ∀ (it : ℕ) (s s' : St n k) (ds rest : List ℕ),
    iters cfg maxAtt it s ds = .ok (s', rest) → RwInv cfg.und R0 s → Q s.R → Q s'.R := by
  intro it
  induction it with
  | zero => intro s s' ds rest h _ q; simp only [iters, Except.ok.injEq, Prod.mk.injEq] at h; rw [← h.1]; exact q
  | succ b ih =>
    intro s s' ds rest h hi q
    simp only [iters, bind, Except.bind] at h
    cases ha : attempts cfg (maxAtt + 1) s ds with
    | error e => simp [ha] at h
    | ok r =>
      obtain ⟨s1, rest1⟩ := r
      simp only [ha] at h
      exact ih _ _ _ _ h (attempts_inv cfg R0 _ _ _ _ _ ha hi) (attempts_preserves cfg R0 Q hQ _ _ _ _ _ ha hi q)

theorem untilSwaps_preserves (cfg : Cfg n) (R0 : Mat n) (Q : AMat Int n → Prop) (hQ : StepStable cfg R0 Q) :
    ∀ (fuel need : ℕ) (s s' : St n k) (ds rest : List ℕ),
    untilSwaps cfg fuel need s ds = .ok (s', rest) → RwInv cfg.und R0 s → Q s.R → Q s'.R := by
  intro fuel
  induction fuel with
  | zero =>
    intro need s s' ds rest h _ q
    cases need with
    | zero => simp only [untilSwaps, Except.ok.injEq, Prod.mk.injEq] at h; rw [← h.1]; exact q
    | succ m => simp [untilSwaps] at h
  | succ f ih =>
    intro need s s' ds rest h hi q
    cases need with
    | zero => simp only [untilSwaps, Except.ok.injEq, Prod.mk.injEq] at h; rw [← h.1]; exact q
    | succ m =>
      simp only [untilSwaps, bind, Except.bind] at h
      cases ha : attempt cfg s ds with
      | error e => simp [ha] at h
      | ok r =>
        obtain ⟨s1, ok, rest1⟩ := r
        simp only [ha] at h
        exact ih _ _ _ _ _ h (attempt_inv cfg R0 s s1 ds rest1 ok ha hi)
          (attempt_preserves cfg R0 Q hQ s s1 ds rest1 ok ha hi q)

/-- Every successful run of the model preserves a step-stable predicate — any routine
configuration, any budget, any draw list. -/
theorem runBudget_preserves (cfg : Cfg n) (Q : AMat Int n → Prop) (R R' : AMat Int n) (itr eff : ℕ) (ds rest : List ℕ)
    (hd : EmptyDiag R) (hs : cfg.und = true → Symm R) (hsrc : cfg.und = true → cfg.src ≠ .all)
    (hQ : StepStable cfg R.toFun Q) (q : Q R)
    (hrun : runBudget cfg R itr ds = .ok (R', eff, rest)) : Q R' := by
  have h0 := mkState_inv cfg.und cfg.src R hd hs hsrc
  unfold runBudget at hrun
  simp only [bind, Except.bind] at hrun
  cases hden : cfg.attDen with
  | some den =>
    simp only [hden] at hrun
    split at hrun
    · cases hrun
    · rename_i v hi
      simp only [Except.ok.injEq, Prod.mk.injEq] at hrun
      rw [← hrun.1]
      exact iters_preserves cfg R.toFun Q hQ _ _ _ _ _ _ hi h0 q
  | none =>
    simp only [hden] at hrun
    split at hrun
    · cases hrun
    · rename_i v hi
      simp only [Except.ok.injEq, Prod.mk.injEq] at hrun
      rw [← hrun.1]
      exact untilSwaps_preserves cfg R.toFun Q hQ _ _ _ _ _ _ hi h0 q

end Bct.RewireConn
