import BctVerif.Lemmas.SynthEven

/-!
# C20 helper lemmas: the hierarchical template as coded, `makeevenCIJ`, `maketoeplitzCIJ`, `makefractalCIJ`
-/
namespace Bct.Synth
open List

variable {n : ℕ}

/-- after `l` passes of the doubling loop the diagonal of `t` holds `l + 2` -/
theorem tmpl_diag : ∀ (l : Nat) (i : Fin (2 ^ (l + 1))), (tmpl l).get i i = (l : Int) + 2
  | 0, i => by simp [tmpl]
  | l + 1, i => by
    unfold tmpl
    rw [AMat.get_ofFn]
    by_cases h : i.val < 2 ^ (l + 1)
    · rw [dif_pos ⟨h, h⟩, tmpl_diag l]; push_cast; ring
    · have h' : 2 ^ (l + 1) ≤ i.val := Nat.le_of_not_lt h
      rw [dif_neg (fun hh => h hh.1), dif_pos ⟨h', h'⟩, tmpl_diag l]; push_cast; ring

/-- `CIJ -= ones + mx_lvl * eye` leaves 0 on the diagonal -/
theorem hierTemplate_diag {m : Nat} (hn : n = 2 ^ (m + 1)) (i : Fin n) : (hierTemplate hn).get i i = 0 := by
  unfold hierTemplate
  rw [AMat.get_ofFn, tmpl_diag]
  simp only [if_true, Int.ofNat_eq_natCast]
  ring

/-- the template `makeevenCIJ` / `makefractalCIJ` work with (specification-level name for the matrix the
model builds; the fall-back branches are unreachable when the routines return) -/
def hierT (n mx : Nat) : AMat Int n :=
  match mx with
  | 0 => zeroMat n
  | m + 1 => if hn : n = 2 ^ (m + 1) then hierTemplate hn else zeroMat n

theorem hierT_diag (mx : Nat) (i : Fin n) : (hierT n mx).get i i = 0 := by
  unfold hierT
  cases mx with
  | zero => simp [zeroMat]
  | succ m =>
    simp only
    split
    · exact hierTemplate_diag _ i
    · simp [zeroMat]

theorem evenCIJ_core (mx k szcl : Nat) (ds : List Nat) {C : AMat Int n} {rest : List Nat}
    (h : evenCIJ n mx k szcl ds = .ok (C, rest)) (hsz : szcl ≤ mx)
    (hk1 : ((allCells n).countP (inCluster (hierT n mx) mx szcl) : Int) ≤ k) (hk2 : k ≤ n * (n - 1)) :
    n = 2 ^ mx ∧ 1 ≤ mx ∧
    (∀ p, cellVal C p = 0 ∨ cellVal C p = 1) ∧ (∀ i, cellVal C (i, i) = 0) ∧
    (∀ p, inCluster (hierT n mx) mx szcl p = true → cellVal C p = 1) ∧ matSum C = k := by
  unfold evenCIJ at h
  cases mx with
  | zero => simp at h
  | succ m =>
    simp only at h
    split at h
    · rename_i hn
      have hT : hierT n (m + 1) = hierTemplate hn := by simp [hierT, hn]
      rw [hT] at hk1 ⊢
      exact ⟨hn, by omega, evenFill_core _ (hierTemplate_diag hn) (m + 1) k szcl ds h hsz hk1 hk2⟩
    · simp at h

/-- the cluster mask and the free cells `makeevenCIJ` works with -/
def evenMask (T : AMat Int n) (mx szcl : Nat) : AMat Int n :=
  AMat.ofFn fun i j => b2i (decide (T.get i j ≥ Int.ofNat mx - (Int.ofNat szcl - 1)))

def evenFree (T : AMat Int n) (mx szcl : Nat) : List (Cell n) :=
  (List.finRange n).flatMap fun i =>
    ((List.finRange n).filter fun j => ((evenMask T mx szcl).get i j + b2i (decide (i = j))) == 0).map fun j => (i, j)

theorem evenFill_total (T : AMat Int n) (mx k szcl : Nat) :
    ∃ m, ∀ ds : List Nat, m ≤ ds.length → isPermOfRange (ds.take m) m = true →
      ∃ C, evenFill T mx k szcl ds = .ok (C, ds.drop m) := by
  by_cases hk : Int.ofNat k < matSum (evenMask T mx szcl)
  · refine ⟨0, fun ds _ _ => ⟨evenMask T mx szcl, ?_⟩⟩
    unfold evenFill
    simp only
    exact (if_pos hk).trans rfl
  · refine ⟨(evenFree T mx szcl).length, fun ds hlen hperm =>
      ⟨writeOnes (evenMask T mx szcl) (choose (evenFree T mx szcl) (ds.take (evenFree T mx szcl).length)
        (Int.ofNat k - matSum (evenMask T mx szcl)).toNat), ?_⟩⟩
    unfold evenFill
    simp only
    have h1 : ¬ ds.length < (evenFree T mx szcl).length := by omega
    have h2 : ¬ (!isPermOfRange (ds.take (evenFree T mx szcl).length) (evenFree T mx szcl).length) = true := by simp [hperm]
    exact (if_neg hk).trans ((if_neg h1).trans ((if_neg h2).trans rfl))

/-- totality of `makeevenCIJ`: for n = 2^mx, mx ≥ 1, there is a number m of permutation values such that the routine
returns for every draw list starting with a permutation of `0 … m-1` (m = 0 when k is below the cluster count) -/
theorem evenCIJ_total (mx k szcl : Nat) (hmx : 1 ≤ mx) (hn : n = 2 ^ mx) :
    ∃ m, ∀ ds : List Nat, m ≤ ds.length → isPermOfRange (ds.take m) m = true →
      ∃ C, evenCIJ n mx k szcl ds = .ok (C, ds.drop m) := by
  obtain ⟨m, rfl⟩ : ∃ m, mx = m + 1 := ⟨mx - 1, by omega⟩
  subst hn
  unfold evenCIJ
  simp only [dite_true]
  exact evenFill_total _ _ _ _

/-- totality of `makefractalCIJ`: with a consistent probability matrix and n² uniform draws it returns -/
theorem fractalCIJ_total (mx szcl E : Nat) (prob : AMat Thr n) (ds : List Nat) (hmx : 1 ≤ mx) (hn : n = 2 ^ mx) (hE : E ≠ 0)
    (hp : probConsistent (hierT n mx) mx szcl E prob = true) (hds : n * n ≤ ds.length) :
    ∃ C kk, fractalCIJ n mx szcl E prob ds = .ok (C, kk, ds.drop (n * n)) := by
  obtain ⟨m, rfl⟩ : ∃ m, mx = m + 1 := ⟨mx - 1, by omega⟩
  subst hn
  have hT : hierT (2 ^ (m + 1)) (m + 1) = hierTemplate (rfl : 2 ^ (m + 1) = 2 ^ (m + 1)) := by simp [hierT]
  rw [hT] at hp
  unfold fractalCIJ
  simp only [dite_true]
  rw [if_neg hE, if_neg (by simpa using hp), if_neg (by omega)]
  exact ⟨_, _, rfl⟩

/-! ### thresholded uniform matrices -/

theorem sampleLt_val (T : AMat Thr n) (us : Array Nat) (p : Cell n) :
    cellVal (sampleLt T us) p = 0 ∨ cellVal (sampleLt T us) p = 1 := by
  simp only [cellVal, sampleLt, AMat.get_ofFn, b2i]
  split <;> simp

theorem sampleLt_diag (T : AMat Thr n) (hT : ∀ i, (T.get i i).1 = 0) (us : Array Nat) (i : Fin n) :
    cellVal (sampleLt T us) (i, i) = 0 := by
  simp [cellVal, sampleLt, b2i, ltThr, hT i]

/-- `maketoeplitzCIJ`'s rejection loop: whatever it returns has exactly k ones -/
theorem toepLoop_spec (T : AMat Thr n) (hT : ∀ i, (T.get i i).1 = 0) (k : Nat) :
    ∀ (fuel itr : Nat) (C : AMat Int n) (ds : List Nat) {C' : AMat Int n} {rest : List Nat},
      (∀ p, cellVal C p = 0 ∨ cellVal C p = 1) → (∀ i, cellVal C (i, i) = 0) →
      toepLoop T k fuel itr C ds = .ok (C', rest) →
      (∀ p, cellVal C' p = 0 ∨ cellVal C' p = 1) ∧ (∀ i, cellVal C' (i, i) = 0) ∧ matSum C' = k
  | 0, _, _, _, _, _, _, _, h => by simp [toepLoop] at h
  | fuel + 1, itr, C, ds, C', rest, h01, hd, h => by
    unfold toepLoop at h
    split at h
    · rename_i hsum
      simp only [Except.ok.injEq, Prod.mk.injEq] at h
      obtain ⟨rfl, _⟩ := h
      exact ⟨h01, hd, by simpa using hsum⟩
    · split at h
      · simp at h
      · simp only at h
        split at h
        · simp at h
        · exact toepLoop_spec T hT k fuel (itr + 1) _ _ (sampleLt_val T _) (sampleLt_diag T hT _) h

theorem toeplitzOf_diag (prof : Array Thr) (i : Fin n) : ((toeplitzOf n prof).get i i).1 = 0 := by
  simp [toeplitzOf]

theorem toeplitzCIJ_core (k : Nat) (prof : List Thr) (ds : List Nat) {C : AMat Int n} {rest : List Nat}
    (h : toeplitzCIJ n k prof ds = .ok (C, rest)) :
    (∀ p, cellVal C p = 0 ∨ cellVal C p = 1) ∧ (∀ i, cellVal C (i, i) = 0) ∧ matSum C = k := by
  unfold toeplitzCIJ at h
  split at h
  · simp at h
  · exact toepLoop_spec _ (toeplitzOf_diag _) k _ _ _ _ (fun p => Or.inl (cellVal_zero p)) (fun i => cellVal_zero _) h

theorem probConsistent_diag (T : AMat Int n) (mx szcl E : Nat) (prob : AMat Thr n)
    (h : probConsistent T mx szcl E prob = true) (i : Fin n) : (prob.get i i).1 = 0 := by
  unfold probConsistent at h
  simp only [Bool.and_eq_true, List.all_eq_true, List.mem_finRange, forall_const] at h
  have := (h.1 i).1
  simpa using this

theorem fractalCIJ_core (mx szcl E : Nat) (prob : AMat Thr n) (ds : List Nat)
    {C : AMat Int n} {kk : Int} {rest : List Nat} (h : fractalCIJ n mx szcl E prob ds = .ok (C, kk, rest)) :
    kk = matSum C ∧ (∀ p, cellVal C p = 0 ∨ cellVal C p = 1) ∧ (∀ i, cellVal C (i, i) = 0) ∧
    n = 2 ^ mx ∧ rest = ds.drop (n * n) := by
  unfold fractalCIJ at h
  cases mx with
  | zero => simp at h
  | succ m =>
    simp only at h
    split at h
    · rename_i hn
      split at h
      · simp at h
      · split at h
        · simp at h
        · rename_i hcons
          split at h
          · simp at h
          · simp only [Except.ok.injEq, Prod.mk.injEq] at h
            obtain ⟨rfl, rfl, rfl⟩ := h
            have hc : probConsistent (hierTemplate hn) (m + 1) szcl E prob = true := by simpa using hcons
            exact ⟨rfl, sampleLt_val _ _, sampleLt_diag _ (probConsistent_diag _ _ _ _ _ hc) _, hn, rfl⟩
    · simp at h

end Bct.Synth
