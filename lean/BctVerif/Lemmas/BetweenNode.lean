import BctVerif.Lemmas.BetweenFwd5

/-!
# The node routine `betweenness_wei` (own back-propagation loop, no `EBC`) = definition (C08)

Proved by showing that its loops compute the `(BC, DP)` projection of the edge routine's loops.
-/
namespace Bct.Between
open Bct

variable {n : ℕ}

def Acc.proj (a : Acc n) : AccN n := { BC := a.BC, DP := a.DP }

theorem backInner_proj (st : SrcSt n) (w : Fin n) (vs : List (Fin n)) (a : Acc n) :
    backInnerN st w vs a.proj = (backInner st w vs a).map Acc.proj := by
  induction vs generalizing a with
  | nil => rfl
  | cons v vs ih =>
    simp only [backInnerN, backInner]
    by_cases h : st.NP[w] = 0
    · simp only [h, if_true]; rfl
    · simp only [h, if_false]
      exact ih { a with DP := a.DP.set v (a.DP[v] + (1 + a.DP[w]) * (st.NP[v] : Rat) / (st.NP[w] : Rat)),
                        EBC := a.EBC.set v w (a.EBC.get v w + (1 + a.DP[w]) * (st.NP[v] : Rat) / (st.NP[w] : Rat)) }

theorem backOuter_proj (st : SrcSt n) (ws : List Nat) (a : Acc n) :
    backOuterN st ws a.proj = (backOuter st ws a).map Acc.proj := by
  induction ws generalizing a with
  | nil => rfl
  | cons wn ws ih =>
    simp only [backOuterN, backOuter]
    by_cases h : wn < n
    · simp only [h, dite_true]
      have := backInner_proj st ⟨wn, h⟩ ((List.finRange n).filter fun v => st.P.get ⟨wn, h⟩ v)
        { a with BC := a.BC.set (⟨wn, h⟩ : Fin n) (a.BC[(⟨wn, h⟩ : Fin n)] + a.DP[(⟨wn, h⟩ : Fin n)]) }
      simp only [Acc.proj] at this ⊢
      rw [this]
      cases hb : backInner st ⟨wn, h⟩ ((List.finRange n).filter fun v => st.P.get ⟨wn, h⟩ v)
        { a with BC := a.BC.set (⟨wn, h⟩ : Fin n) (a.BC[(⟨wn, h⟩ : Fin n)] + a.DP[(⟨wn, h⟩ : Fin n)]) } with
      | error e => rfl
      | ok a1 =>
        simp only [Except.map, bind, Except.bind]
        exact ih a1
    · simp only [h, dite_false]; rfl

theorem source_proj (G : AMat Nat n) (a : Acc n) (u : Fin n) :
    sourceN G a.BC u = (source true G a u).map fun a' => a'.BC := by
  unfold sourceN source
  simp only [if_true]
  cases hw : weiLoop (n + 1) [u] (initSt true G u) with
  | error e => rfl
  | ok st =>
    simp only [bind, Except.bind]
    have := backOuter_proj st (st.Q.toList.take (n - 1)) { a with DP := Vector.ofFn fun _ => 0 }
    simp only [Acc.proj] at this
    rw [this]
    cases backOuter st (st.Q.toList.take (n - 1)) { a with DP := Vector.ofFn fun _ => 0 } <;> rfl

theorem sources_proj (G : AMat Nat n) (us : List (Fin n)) (a : Acc n) :
    sourcesN G us a.BC = (sources true G us a).map fun a' => a'.BC := by
  induction us generalizing a with
  | nil => rfl
  | cons u us ih =>
    simp only [sourcesN, sources]
    rw [source_proj]
    cases hs : source true G a u with
    | error e => rfl
    | ok a1 =>
      simp only [Except.map, bind, Except.bind]
      exact ih a1

/-- the node routine's own model returns the node component of the edge routine's model -/
theorem betweennessWei_eq (G : AMat Nat n) : betweennessWei G = (brandes true G).map Prod.snd := by
  unfold betweennessWei brandes
  have := sources_proj G (List.finRange n)
    { BC := Vector.ofFn fun _ => 0, EBC := AMat.ofFn fun _ _ => 0, DP := Vector.ofFn fun _ => 0 }
  simp only at this
  rw [this]
  cases sources true G (List.finRange n)
    { BC := Vector.ofFn fun _ => 0, EBC := AMat.ofFn fun _ _ => 0, DP := Vector.ofFn fun _ => 0 } <;> rfl

/-- **the model of `betweenness_wei` returns exactly the definition-level node betweenness** -/
theorem betweennessWei_correct (L : AMat Nat n) : betweennessWei L = .ok (bcSpec L) := by
  rw [betweennessWei_eq, brandes_wei_correct]; rfl

end Bct.Between
