import BctVerif.Lemmas.BetweenLast
import BctVerif.Lemmas.BetweenBrandes

/-!
# Forward phase of the weighted Brandes loop: relaxation step (C08)
-/
namespace Bct.Between
open Bct

variable {n : ℕ} (L : AMat Nat n) (u : Fin n)

/-- `z` is a tentative predecessor of `x` when the tentative distance of `x` is `Dx` -/
def tp (Dx : Option ℕ) (z x : Fin n) : Bool :=
  L.get z x != 0 &&
    (match (dist L).get u z, Dx with
     | some a, some c => a + L.get z x == c
     | _, _ => false)

theorem tp_iff {Dx : Option ℕ} {z x : Fin n} :
    tp L u Dx z x = true ↔ L.get z x ≠ 0 ∧ ∃ a, (dist L).get u z = some a ∧ Dx = some (a + L.get z x) := by
  unfold tp
  cases h1 : (dist L).get u z <;> cases h2 : Dx <;> simp
  intro _; exact eq_comm

theorem pred_eq_tp (z x : Fin n) : pred L (dist L) u z x = tp L u ((dist L).get u x) z x := rfl

/-- node-local invariant of the forward phase: `A` is the set of nodes whose out-connections have
been relaxed -/
structure Rel (A : Finset (Fin n)) (st : SrcSt n) (x : Fin n) : Prop where
  src : x = u → st.D[x] = some 0 ∧ st.NP[x] = 1 ∧ ∀ z, st.P.get x z = false
  lower : x ≠ u → ∀ z ∈ A, L.get z x ≠ 0 → ∀ a, (dist L).get u z = some a →
    OLe st.D[x] (some (a + L.get z x))
  attained : x ≠ u → st.D[x] = none ∨ ∃ z ∈ A, tp L u st.D[x] z x = true
  np : x ≠ u → st.NP[x] = ∑ z ∈ A, if tp L u st.D[x] z x = true then (sigma L).get u z else 0
  p : x ≠ u → ∀ z, st.P.get x z = (decide (z ∈ A) && tp L u st.D[x] z x)

theorem Rel.congr {A : Finset (Fin n)} {st st' : SrcSt n} {x : Fin n} (h : Rel L u A st x)
    (hD : st'.D[x] = st.D[x]) (hNP : st'.NP[x] = st.NP[x]) (hP : ∀ z, st'.P.get x z = st.P.get x z) :
    Rel L u A st' x := by
  constructor
  · intro hx; rw [hD, hNP]; exact ⟨(h.src hx).1, (h.src hx).2.1, fun z => by rw [hP]; exact (h.src hx).2.2 z⟩
  · intro hx; rw [hD]; exact h.lower hx
  · intro hx; rw [hD]; exact h.attained hx
  · intro hx; rw [hD, hNP]; exact h.np hx
  · intro hx z; rw [hD, hP]; exact h.p hx z

/-- relaxing by `v` is irrelevant for `x` when there is no connection `v → x` or `x` is already
closer than any walk through `v` -/
theorem Rel.insert_irrelevant {A : Finset (Fin n)} {st : SrcSt n} {x v : Fin n} {m : ℕ}
    (h : Rel L u A st x) (hv : (dist L).get u v = some m)
    (hirr : L.get v x = 0 ∨ ∃ c, st.D[x] = some c ∧ c < m + L.get v x) : Rel L u (insert v A) st x := by
  have htp : x ≠ u → tp L u st.D[x] v x = false := by
    intro _
    rw [Bool.eq_false_iff, Ne, tp_iff]
    rintro ⟨hL, a, ha, hc⟩
    rcases hirr with h0 | ⟨c, hc', hle⟩
    · exact hL h0
    · rw [hv] at ha; simp only [Option.some.injEq] at ha; subst ha
      rw [hc'] at hc; simp only [Option.some.injEq] at hc
      omega
  constructor
  · exact h.src
  · intro hx z hz hL a ha
    rcases Finset.mem_insert.1 hz with rfl | hz
    · rcases hirr with h0 | ⟨c, hc', hle⟩
      · exact absurd h0 hL
      · rw [hv] at ha; simp only [Option.some.injEq] at ha; subst ha
        intro y hy
        simp only [Option.some.injEq] at hy
        exact ⟨c, hc', by omega⟩
    · exact h.lower hx z hz hL a ha
  · intro hx
    rcases h.attained hx with h0 | ⟨z, hz, ht⟩
    · exact Or.inl h0
    · exact Or.inr ⟨z, Finset.mem_insert_of_mem hz, ht⟩
  · intro hx
    rw [h.np hx]
    by_cases hvA : v ∈ A
    · rw [Finset.insert_eq_of_mem hvA]
    · rw [Finset.sum_insert hvA, htp hx]; simp
  · intro hx z
    rw [h.p hx z]
    by_cases hzv : z = v
    · subst hzv; rw [htp hx]; simp
    · simp [Finset.mem_insert, hzv]

/-! ### one relaxation `relaxW v st w` -/

theorem relaxW_globals (v w : Fin n) (st : SrcSt n) :
    (relaxW v st w).S = st.S ∧ (relaxW v st w).Q = st.Q ∧ (relaxW v st w).q = st.q ∧
      (relaxW v st w).G1 = st.G1 := by
  unfold relaxW
  dsimp only
  split_ifs <;> exact ⟨rfl, rfl, rfl, rfl⟩

theorem relaxW_other (v w x : Fin n) (st : SrcSt n) (hx : x ≠ w) :
    (relaxW v st w).D[x] = st.D[x] ∧ (relaxW v st w).NP[x] = st.NP[x] ∧
      ∀ z, (relaxW v st w).P.get x z = st.P.get x z := by
  unfold relaxW
  dsimp only
  split_ifs
  · exact ⟨by simp only [vget_set, hx, if_false], by simp only [vget_set, hx, if_false],
      fun z => by simp only [AMat.get_ofFn, hx, if_false]⟩
  · exact ⟨rfl, by simp only [vget_set, hx, if_false], fun z => by simp [AMat.get_set, hx]⟩
  · exact ⟨rfl, rfl, fun _ => rfl⟩

theorem olt_iff {a b : Option ℕ} : olt a b = true ↔ ∃ x, a = some x ∧ ∀ y, b = some y → x < y := by
  cases a <;> cases b <;> simp [olt]

/-- the relaxed node satisfies the invariant with `v` added to the relaxers -/
theorem relaxW_rel {A : Finset (Fin n)} {st : SrcSt n} {v w : Fin n} {m : ℕ}
    (h : Rel L u A st w) (hwu : w ≠ u) (hvA : v ∉ A) (hvw : v ≠ w)
    (hv : (dist L).get u v = some m) (hDv : st.D[v] = some m) (hNPv : st.NP[v] = (sigma L).get u v)
    (hG : st.G1.get v w = L.get v w) (hL : L.get v w ≠ 0) :
    Rel L u (insert v A) (relaxW v st w) w := by
  have hnotA : ∀ {c : ℕ}, st.D[w] = some c → m + L.get v w < c → ∀ z ∈ A, tp L u (some (m + L.get v w)) z w = false := by
    intro c hc hlt z hz
    rw [Bool.eq_false_iff, Ne, tp_iff]
    rintro ⟨hLz, a, ha, he⟩
    obtain ⟨x, hx, hxle⟩ := h.lower hwu z hz hLz a ha _ rfl
    rw [hc] at hx; simp only [Option.some.injEq] at hx he
    omega
  have hnotA' : st.D[w] = none → ∀ z ∈ A, ∀ Dx, tp L u Dx z w = false := by
    intro hc z hz Dx
    rw [Bool.eq_false_iff, Ne, tp_iff]
    rintro ⟨hLz, a, ha, _⟩
    obtain ⟨x, hx, _⟩ := h.lower hwu z hz hLz a ha _ rfl
    rw [hc] at hx; exact absurd hx (by simp)
  have htpv : tp L u (some (m + L.get v w)) v w = true := by
    rw [tp_iff]; exact ⟨hL, m, hv, rfl⟩
  have hdef : relaxW v st w =
      if olt (some (m + L.get v w)) st.D[w] then
        { st with D := st.D.set w (some (m + L.get v w)), NP := st.NP.set w st.NP[v],
                  P := AMat.ofFn fun i j => if i = w then decide (j = v) else st.P.get i j }
      else if (some (m + L.get v w) == st.D[w]) = true then
        { st with NP := st.NP.set w (st.NP[w] + st.NP[v]), P := st.P.set w v true }
      else st := by
    unfold relaxW
    simp only [hDv, hG]
  by_cases h1 : olt (some (m + L.get v w)) st.D[w] = true
  · -- strictly shorter: v becomes the only predecessor
    rw [hdef, if_pos h1]
    have hzero : ∀ z ∈ A, tp L u (some (m + L.get v w)) z w = false := by
      intro z hz
      obtain ⟨x, hx, hlt⟩ := olt_iff.1 h1
      simp only [Option.some.injEq] at hx; subst hx
      cases hc : st.D[w] with
      | none => exact hnotA' hc z hz _
      | some c => exact hnotA hc (hlt c hc) z hz
    constructor
    · intro e; exact absurd e hwu
    · intro _ z hz hLz a ha
      simp only [vget_set, if_true]
      rcases Finset.mem_insert.1 hz with rfl | hz
      · rw [hv] at ha; simp only [Option.some.injEq] at ha; subst ha; exact OLe.refl _
      · have := h.lower hwu z hz hLz a ha
        obtain ⟨x, hx, hlt⟩ := olt_iff.1 h1
        simp only [Option.some.injEq] at hx; subst hx
        intro y hy
        obtain ⟨c, hc, hcy⟩ := this y hy
        exact ⟨_, rfl, by have := hlt c hc; omega⟩
    · intro _
      simp only [vget_set, if_true]
      exact Or.inr ⟨v, Finset.mem_insert_self _ _, htpv⟩
    · intro _
      simp only [vget_set, if_true]
      rw [Finset.sum_insert hvA, htpv, if_pos rfl, hNPv]
      rw [Finset.sum_eq_zero (fun z hz => by rw [hzero z hz]; simp)]
      simp
    · intro _ z
      simp only [vget_set, if_true, AMat.get_ofFn]
      by_cases hzv : z = v
      · subst hzv; simp [htpv]
      · have : (decide (z ∈ insert v A) && tp L u (some (m + L.get v w)) z w) = false := by
          by_cases hz : z ∈ A
          · simp [hzero z hz]
          · simp [Finset.mem_insert, hzv, hz]
        rw [this]; simp [hzv]
  · rw [hdef, if_neg h1]
    by_cases h2 : (some (m + L.get v w) == st.D[w]) = true
    · -- tie: v is one more predecessor
      rw [if_pos h2]
      have hDw : st.D[w] = some (m + L.get v w) := by
        have := beq_iff_eq.1 h2; exact this.symm
      have htpv' : tp L u st.D[w] v w = true := by rw [hDw]; exact htpv
      constructor
      · intro e; exact absurd e hwu
      · intro _ z hz hLz a ha
        rcases Finset.mem_insert.1 hz with rfl | hz
        · rw [hv] at ha; simp only [Option.some.injEq] at ha; subst ha
          change OLe st.D[w] _
          rw [hDw]; exact OLe.refl _
        · exact h.lower hwu z hz hLz a ha
      · intro _
        exact Or.inr ⟨v, Finset.mem_insert_self _ _, htpv'⟩
      · intro _
        simp only [vget_set, if_true]
        change _ = ∑ z ∈ insert v A, if tp L u st.D[w] z w = true then _ else 0
        rw [Finset.sum_insert hvA, htpv', if_pos rfl, h.np hwu, hNPv]
        ring
      · intro _ z
        simp only [AMat.get_set, true_and]
        change _ = (decide (z ∈ insert v A) && tp L u st.D[w] z w)
        by_cases hzv : z = v
        · subst hzv; rw [htpv']; simp
        · simp [hzv, h.p hwu z, Finset.mem_insert]
    · -- longer: nothing changes
      rw [if_neg h2]
      apply h.insert_irrelevant L u hv
      right
      cases hc : st.D[w] with
      | none => exact absurd (olt_iff.2 ⟨_, rfl, fun y hy => by rw [hc] at hy; exact absurd hy (by simp)⟩) h1
      | some c =>
        refine ⟨c, rfl, ?_⟩
        by_contra hlt
        have hne : c ≠ m + L.get v w := by
          intro e; apply h2; rw [hc, e]; simp
        exact h1 (olt_iff.2 ⟨_, rfl, fun y hy => by
          rw [hc] at hy; simp only [Option.some.injEq] at hy; omega⟩)

end Bct.Between

namespace Bct.Between
open Bct

variable {n : ℕ} (L : AMat Nat n) (u : Fin n)

/-! ### consequences of the node invariant -/

/-- a tentative distance is the length of an actual walk, hence at least the true distance -/
theorem Rel.ge_dist {A : Finset (Fin n)} {st : SrcSt n} {x : Fin n} {c : ℕ}
    (h : Rel L u A st x) (hc : st.D[x] = some c) : ∃ k, (dist L).get u x = some k ∧ k ≤ c := by
  by_cases hx : x = u
  · have := (h.src hx).1
    rw [hc] at this; simp only [Option.some.injEq] at this
    subst hx
    exact ⟨0, dist_self L x, by omega⟩
  · rcases h.attained hx with h0 | ⟨z, _, ht⟩
    · rw [hc] at h0; exact absurd h0 (by simp)
    · obtain ⟨hL, a, ha, he⟩ := (tp_iff L u).1 ht
      rw [hc] at he; simp only [Option.some.injEq] at he
      obtain ⟨e, he', hle⟩ := dist_edge L hL
      obtain ⟨k, hk, hkl⟩ := dist_triangle L ha he'
      exact ⟨k, hk, by omega⟩

/-- once all predecessors of `x` have been relaxed, `D`, `NP`, `P` of `x` are final -/
theorem Rel.final {A : Finset (Fin n)} {st : SrcSt n} {x : Fin n} {k : ℕ}
    (h : Rel L u A st x) (hk : (dist L).get u x = some k)
    (hA : ∀ z, pred L (dist L) u z x = true → z ∈ A) :
    st.D[x] = some k ∧ st.NP[x] = (sigma L).get u x ∧ ∀ z, st.P.get x z = pred L (dist L) u z x := by
  by_cases hx : x = u
  · obtain ⟨h1, h2, h3⟩ := h.src hx
    subst hx
    rw [dist_self] at hk; simp only [Option.some.injEq] at hk; subst hk
    refine ⟨h1, by rw [h2, sigma_self], fun z => ?_⟩
    rw [h3 z]
    have := pred_source_false L x z
    revert this; cases pred L (dist L) x z x <;> simp
  · obtain ⟨z0, hz0⟩ := exists_pred L (fun e => hx e.symm) hk
    obtain ⟨hL0, a0, ha0, he0⟩ := (pred_iff L).1 hz0
    rw [hk] at he0; simp only [Option.some.injEq] at he0
    obtain ⟨c, hc, hcle⟩ := h.lower hx z0 (hA z0 hz0) hL0 a0 ha0 _ rfl
    obtain ⟨k', hk', hkle⟩ := h.ge_dist L u hc
    rw [hk] at hk'; simp only [Option.some.injEq] at hk'; subst hk'
    have hck : c = k := by omega
    subst hck
    have hD : st.D[x] = (dist L).get u x := by rw [hc, hk]
    refine ⟨hc, ?_, ?_⟩
    · rw [h.np hx, hD, sigma_rec_last L u x (fun e => hx e.symm)]
      simp_rw [← pred_eq_tp]
      refine Finset.sum_subset (Finset.subset_univ _) fun z _ hz => ?_
      exact if_neg fun hp => hz (hA z hp)
    · intro z
      rw [h.p hx z, hD, ← pred_eq_tp]
      by_cases hp : pred L (dist L) u z x = true
      · simp [hp, hA z hp]
      · simp [hp]

/-- among the unsettled nodes there is, below any reachable one, a node whose tentative distance is exact -/
theorem exists_exact_unsettled {A : Finset (Fin n)} {st : SrcSt n}
    (hrel : ∀ x, Rel L u A st x) (hA : ∀ x, x ∈ A ↔ st.S[x] = false) (hu : u ∈ A) :
    ∀ k x, st.S[x] = true → (dist L).get u x = some k →
      ∃ y j, st.S[y] = true ∧ (dist L).get u y = some j ∧ j ≤ k ∧ st.D[y] = some j := by
  intro k
  induction k using Nat.strong_induction_on with
  | _ k ih =>
    intro x hS hk
    have hxu : x ≠ u := by
      rintro rfl
      have := (hA x).1 hu
      rw [hS] at this; exact absurd this (by simp)
    obtain ⟨z, hz⟩ := exists_pred L (fun e => hxu e.symm) hk
    obtain ⟨hLz, a, ha, he⟩ := (pred_iff L).1 hz
    rw [hk] at he; simp only [Option.some.injEq] at he
    have hLpos : 0 < L.get z x := Nat.pos_of_ne_zero hLz
    by_cases hSz : st.S[z] = true
    · obtain ⟨y, j, h1, h2, h3, h4⟩ := ih a (by omega) z hSz ha
      exact ⟨y, j, h1, h2, by omega, h4⟩
    · have hzA : z ∈ A := (hA z).2 (by simpa using hSz)
      obtain ⟨c, hc, hcle⟩ := (hrel x).lower hxu z hzA hLz a ha _ rfl
      obtain ⟨k', hk', hkle⟩ := (hrel x).ge_dist L u hc
      rw [hk] at hk'; simp only [Option.some.injEq] at hk'; subst hk'
      exact ⟨x, k, hS, hk, le_refl _, by rw [hc]; congr 1; omega⟩

/-! ### minimum of a list of extended naturals -/

theorem ominL_none {l : List (Option ℕ)} : ominL l = none ↔ ∀ x ∈ l, x = none := by
  induction l with
  | nil => simp [ominL]
  | cons a l ih =>
    simp only [ominL, List.mem_cons, forall_eq_or_imp]
    cases a with
    | none => simp [omin, ih]
    | some a =>
      cases h : ominL l with
      | none => simp [omin]
      | some b => simp [omin]

theorem ominL_some {l : List (Option ℕ)} {m : ℕ} (h : ominL l = some m) :
    some m ∈ l ∧ ∀ y, some y ∈ l → m ≤ y := by
  induction l generalizing m with
  | nil => simp [ominL] at h
  | cons a l ih =>
    simp only [ominL] at h
    cases a with
    | none =>
      simp only [omin] at h
      obtain ⟨h1, h2⟩ := ih h
      exact ⟨List.mem_cons_of_mem _ h1, fun y hy => by
        rcases List.mem_cons.1 hy with e | e
        · exact absurd e (by simp)
        · exact h2 y e⟩
    | some a =>
      cases hl : ominL l with
      | none =>
        rw [hl] at h; simp only [omin, Option.some.injEq] at h; subst h
        refine ⟨List.mem_cons_self, fun y hy => ?_⟩
        rcases List.mem_cons.1 hy with e | e
        · simp only [Option.some.injEq] at e; omega
        · have := ominL_none.1 hl _ e; exact absurd this (by simp)
      | some b =>
        rw [hl] at h; simp only [omin, Option.some.injEq] at h
        obtain ⟨h1, h2⟩ := ih hl
        refine ⟨?_, fun y hy => ?_⟩
        · rcases le_total a b with hab | hab
          · rw [min_eq_left hab] at h; subst h; exact List.mem_cons_self
          · rw [min_eq_right hab] at h; subst h; exact List.mem_cons_of_mem _ h1
        · rcases List.mem_cons.1 hy with e | e
          · simp only [Option.some.injEq] at e; subst e; omega
          · have := h2 y e; omega

end Bct.Between
