import BctVerif.Model.Signed
import Mathlib.Algebra.BigOperators.Group.Finset.Basic
import Mathlib.Data.Fintype.BigOperators
import Mathlib.Data.Fintype.Prod
import Mathlib.Logic.Equiv.Basic
import Mathlib.Tactic

/-!
# C06 helper lemmas: the sign-guarded exchange on the function view

`rowOp R a b c d` exchanges, in rows `a` and `c`, the entries of columns `b` and `d`.
* the directed exchange `swapDir` is `rowOp`;
* the undirected exchange `swapUnd` on a symmetric matrix is `rowOp` followed by the transposed
  `rowOp` (`colOp`).
`rowOp` permutes cells inside rows (row sums of any `f`, the cell multiset and the diagonal are
kept); under the sign guard it keeps the column sums of every sign-invariant `f`.
-/
namespace Bct.Signed
open Finset

variable {n : ℕ}

abbrev FMat (n : ℕ) := Fin n → Fin n → ℤ

/-- indicator functions counted by the property -/
def posInd (x : ℤ) : ℕ := if 0 < x then 1 else 0
def negInd (x : ℤ) : ℕ := if x < 0 then 1 else 0

/-- number of positive / negative cells in a row (out-degree) or a column (in-degree) -/
def rowPos (R : FMat n) (r : Fin n) : ℕ := ∑ j, posInd (R r j)
def rowNeg (R : FMat n) (r : Fin n) : ℕ := ∑ j, negInd (R r j)
def colPos (R : FMat n) (c : Fin n) : ℕ := ∑ i, posInd (R i c)
def colNeg (R : FMat n) (c : Fin n) : ℕ := ∑ i, negInd (R i c)

/-- multiset of all n² cells -/
def cellsMS (R : FMat n) : Multiset ℤ := (Finset.univ : Finset (Fin n × Fin n)).val.map fun p => R p.1 p.2
/-- multiset of the positive weights / of the negative weights -/
def posMS (R : FMat n) : Multiset ℤ := (cellsMS R).filter (0 < ·)
def negMS (R : FMat n) : Multiset ℤ := (cellsMS R).filter (· < 0)

def IsSymm (R : FMat n) : Prop := ∀ i j, R i j = R j i

def SignInv (f : ℤ → ℕ) : Prop := ∀ u v, Int.sign u = Int.sign v → f u = f v

theorem posInd_signInv : SignInv posInd := by
  intro u v h; unfold posInd
  have : (0 < u ↔ 0 < v) := by rw [← Int.sign_eq_one_iff_pos, ← Int.sign_eq_one_iff_pos, h]
  simp [this]

theorem negInd_signInv : SignInv negInd := by
  intro u v h; unfold negInd
  have : (u < 0 ↔ v < 0) := by rw [← Int.sign_eq_neg_one_iff_neg, ← Int.sign_eq_neg_one_iff_neg, h]
  simp [this]

/-! ### `rowOp` -/

def rowOp (R : FMat n) (a b c d : Fin n) : FMat n :=
  fun i j => R i (if i = a ∨ i = c then Equiv.swap b d j else j)

def tr (R : FMat n) : FMat n := fun i j => R j i

def colOp (R : FMat n) (a b c d : Fin n) : FMat n := tr (rowOp (tr R) a b c d)

theorem rowOp_rowSum (f : ℤ → ℕ) (R : FMat n) (a b c d r : Fin n) :
    ∑ j, f (rowOp R a b c d r j) = ∑ j, f (R r j) := by
  unfold rowOp
  by_cases h : r = a ∨ r = c
  · simp only [h, if_true]; exact Equiv.sum_comp (Equiv.swap b d) (fun j => f (R r j))
  · simp only [h, if_false]

theorem rowOp_colSum (f : ℤ → ℕ) (hf : SignInv f) (R : FMat n) (a b c d x : Fin n) (hac : a ≠ c) (hbd : b ≠ d)
    (h1 : Int.sign (R a b) = Int.sign (R c d)) (h2 : Int.sign (R a d) = Int.sign (R c b)) :
    ∑ i, f (rowOp R a b c d i x) = ∑ i, f (R i x) := by
  have e1 : f (R a b) = f (R c d) := hf _ _ h1
  have e2 : f (R a d) = f (R c b) := hf _ _ h2
  have key : ∀ i, f (rowOp R a b c d i x)
      = (fun i => f (R i x)) (if x = b ∨ x = d then Equiv.swap a c i else i) := by
    intro i
    unfold rowOp
    by_cases hxb : x = b
    · subst hxb
      by_cases hia : i = a
      · subst hia; simp [e2]
      · by_cases hic : i = c
        · subst hic; simp [hac.symm, e1]
        · simp [Equiv.swap_apply_def, hia, hic]
    · by_cases hxd : x = d
      · subst hxd
        by_cases hia : i = a
        · subst hia; simp [hbd.symm, e1]
        · by_cases hic : i = c
          · subst hic; simp [hac.symm, hbd.symm, e2]
          · simp [Equiv.swap_apply_def, hia, hic]
      · simp [Equiv.swap_apply_def, hxb, hxd]
  simp only [key]
  by_cases h : x = b ∨ x = d
  · simp only [h, if_true]; exact Equiv.sum_comp (Equiv.swap a c) (fun i => f (R i x))
  · simp only [h, if_false]

/-- the cell permutation behind `rowOp` -/
def rowPerm (a b c d : Fin n) : Equiv.Perm (Fin n × Fin n) :=
  Function.Involutive.toPerm (fun p => (p.1, if p.1 = a ∨ p.1 = c then Equiv.swap b d p.2 else p.2)) (by
    rintro ⟨i, j⟩
    by_cases h : i = a ∨ i = c <;> simp [h])

theorem cellsMS_comp (R : FMat n) (σ : Equiv.Perm (Fin n × Fin n)) :
    cellsMS (fun i j => R (σ (i, j)).1 (σ (i, j)).2) = cellsMS R := by
  unfold cellsMS
  have : (fun p : Fin n × Fin n => R (σ (p.1, p.2)).1 (σ (p.1, p.2)).2) = (fun p => R p.1 p.2) ∘ σ := by
    funext p; rfl
  rw [this, ← Multiset.map_map, Multiset.map_univ_val_equiv]

theorem rowOp_cells (R : FMat n) (a b c d : Fin n) : cellsMS (rowOp R a b c d) = cellsMS R := by
  have h : rowOp R a b c d = fun i j => R ((rowPerm a b c d) (i, j)).1 ((rowPerm a b c d) (i, j)).2 := by
    funext i j; rfl
  rw [h]; exact cellsMS_comp R (rowPerm a b c d)

theorem tr_cells (R : FMat n) : cellsMS (tr R) = cellsMS R := by
  have h : tr R = fun i j => R ((Equiv.prodComm (Fin n) (Fin n)) (i, j)).1 ((Equiv.prodComm (Fin n) (Fin n)) (i, j)).2 := by
    funext i j; rfl
  rw [h]; exact cellsMS_comp R (Equiv.prodComm (Fin n) (Fin n))

theorem rowOp_diag (R : FMat n) (a b c d : Fin n) (hab : a ≠ b) (had : a ≠ d) (hcb : c ≠ b) (hcd : c ≠ d) (i : Fin n) :
    rowOp R a b c d i i = R i i := by
  unfold rowOp
  by_cases hia : i = a
  · subst hia; simp [Equiv.swap_apply_of_ne_of_ne hab had]
  · by_cases hic : i = c
    · subst hic; simp [Equiv.swap_apply_of_ne_of_ne hcb hcd]
    · simp [hia, hic]

/-! ### the invariant -/

/-- what one accepted exchange (and therefore a whole run) preserves -/
structure Preserved (R R' : FMat n) : Prop where
  rowPos : ∀ r, rowPos R' r = rowPos R r
  rowNeg : ∀ r, rowNeg R' r = rowNeg R r
  colPos : ∀ c, colPos R' c = colPos R c
  colNeg : ∀ c, colNeg R' c = colNeg R c
  cells : cellsMS R' = cellsMS R
  diag : ∀ i, R' i i = R i i

theorem Preserved.refl (R : FMat n) : Preserved R R := ⟨fun _ => rfl, fun _ => rfl, fun _ => rfl, fun _ => rfl, rfl, fun _ => rfl⟩

theorem Preserved.trans {R R' R'' : FMat n} (h : Preserved R R') (h' : Preserved R' R'') : Preserved R R'' :=
  ⟨fun r => (h'.rowPos r).trans (h.rowPos r), fun r => (h'.rowNeg r).trans (h.rowNeg r),
   fun r => (h'.colPos r).trans (h.colPos r), fun r => (h'.colNeg r).trans (h.colNeg r),
   h'.cells.trans h.cells, fun i => (h'.diag i).trans (h.diag i)⟩

theorem Preserved.posMS {R R' : FMat n} (h : Preserved R R') : posMS R' = posMS R := by unfold Signed.posMS; rw [h.cells]
theorem Preserved.negMS {R R' : FMat n} (h : Preserved R R') : negMS R' = negMS R := by unfold Signed.negMS; rw [h.cells]

theorem rowOp_preserved (R : FMat n) (a b c d : Fin n)
    (hab : a ≠ b) (hac : a ≠ c) (had : a ≠ d) (hbc : b ≠ c) (hbd : b ≠ d) (hcd : c ≠ d)
    (h1 : Int.sign (R a b) = Int.sign (R c d)) (h2 : Int.sign (R a d) = Int.sign (R c b)) :
    Preserved R (rowOp R a b c d) where
  rowPos r := rowOp_rowSum posInd R a b c d r
  rowNeg r := rowOp_rowSum negInd R a b c d r
  colPos x := rowOp_colSum posInd posInd_signInv R a b c d x hac hbd h1 h2
  colNeg x := rowOp_colSum negInd negInd_signInv R a b c d x hac hbd h1 h2
  cells := rowOp_cells R a b c d
  diag := rowOp_diag R a b c d hab had hbc.symm hcd

theorem tr_tr (R : FMat n) : tr (tr R) = R := rfl

/-- transposition exchanges the roles of rows and columns -/
theorem Preserved.tr {R R' : FMat n} (h : Preserved R R') : Preserved (tr R) (tr R') where
  rowPos r := h.colPos r
  rowNeg r := h.colNeg r
  colPos r := h.rowPos r
  colNeg r := h.rowNeg r
  cells := by rw [tr_cells, tr_cells, h.cells]
  diag i := h.diag i

theorem colOp_preserved (R : FMat n) (a b c d : Fin n)
    (hab : a ≠ b) (hac : a ≠ c) (had : a ≠ d) (hbc : b ≠ c) (hbd : b ≠ d) (hcd : c ≠ d)
    (h1 : Int.sign (R b a) = Int.sign (R d c)) (h2 : Int.sign (R d a) = Int.sign (R b c)) :
    Preserved R (colOp R a b c d) := by
  have := (rowOp_preserved (tr R) a b c d hab hac had hbc hbd hcd h1 h2).tr
  simpa [colOp, tr_tr] using this

/-! ### the model's exchanges on the function view -/

theorem swapDir_toFun (R : AMat Int n) (a b c d : Fin n) (hac : a ≠ c) (hbd : b ≠ d) :
    (swapDir R a b c d).toFun = rowOp R.toFun a b c d := by
  funext i j
  simp only [swapDir, AMat.toFun, AMat.get_set, rowOp]
  by_cases hia : i = a <;> by_cases hic : i = c <;> by_cases hjb : j = b <;> by_cases hjd : j = d <;>
    simp_all [Equiv.swap_apply_def]

/-- closed form of the undirected exchange on a symmetric matrix -/
theorem swapUnd_toFun (R : AMat Int n) (a b c d : Fin n)
    (hab : a ≠ b) (hac : a ≠ c) (had : a ≠ d) (hbc : b ≠ c) (hbd : b ≠ d) (hcd : c ≠ d)
    (hs : IsSymm R.toFun) :
    (swapUnd R a b c d).toFun = colOp (rowOp R.toFun a b c d) a b c d := by
  funext i j
  have hs' : ∀ x y, R.get x y = R.get y x := hs
  have hba := hab.symm; have hca := hac.symm; have hda := had.symm
  have hcb := hbc.symm; have hdb := hbd.symm; have hdc := hcd.symm
  simp only [swapUnd, AMat.toFun, AMat.get_set, rowOp, colOp, tr]
  by_cases hia : i = a <;> by_cases hib : i = b <;> by_cases hic : i = c <;> by_cases hid : i = d <;>
  by_cases hja : j = a <;> by_cases hjb : j = b <;> by_cases hjc : j = c <;> by_cases hjd : j = d <;>
    simp_all [Equiv.swap_apply_def]

theorem swapUnd_symm (R : AMat Int n) (a b c d : Fin n)
    (hab : a ≠ b) (hac : a ≠ c) (had : a ≠ d) (hbc : b ≠ c) (hbd : b ≠ d) (hcd : c ≠ d)
    (hs : IsSymm R.toFun) : IsSymm (swapUnd R a b c d).toFun := by
  intro i j
  have hs' : ∀ x y, R.get x y = R.get y x := hs
  simp only [swapUnd, AMat.toFun, AMat.get_set]
  by_cases hia : i = a <;> by_cases hib : i = b <;> by_cases hic : i = c <;> by_cases hid : i = d <;>
  by_cases hja : j = a <;> by_cases hjb : j = b <;> by_cases hjc : j = c <;> by_cases hjd : j = d <;>
    simp_all

end Bct.Signed
