import BctVerif.Lemmas.SignedNull

/-!
# C06 helper lemmas: the null models never run out of range

The model's internal `Err.index` (a NumPy index outside its array, or `W0.flat[Lij[Oind]] = s*Wv`
with mismatching lengths) cannot occur: the rewired support always has exactly as many cells as
there are weights of that sign, and every index used by the dealing loop is in range.
-/
namespace Bct.Signed
open List

variable {n : ℕ}

theorem pickFour_no_index : ∀ (ds : List Nat), pickFour n ds ≠ .error .index
  | [] => by simp [pickFour]
  | k :: ds => by
    unfold pickFour
    split
    · split
      · dsimp only
        split
        · simp
        · exact pickFour_no_index ds
      · simp
    · simp

theorem attempts_no_index (und : Bool) : ∀ (budget : Nat) (R : AMat Int n) (ds : List Nat),
    attempts und budget R ds ≠ .error .index
  | 0, R, ds => by simp [attempts]
  | budget + 1, R, ds => by
    unfold attempts
    cases hp : pickFour n ds with
    | error e => simp only; intro h; injection h with he; exact pickFour_no_index ds (he ▸ hp)
    | ok v =>
      obtain ⟨⟨a, b, c, d⟩, rest⟩ := v
      simp only
      cases signedStep und R a b c d with
      | some R1 => simp
      | none => exact attempts_no_index und budget R rest

theorem iters_no_index (und : Bool) (maxAtt : Nat) : ∀ (it : Nat) (R : AMat Int n) (eff : Nat) (ds : List Nat),
    iters und maxAtt it R eff ds ≠ .error .index
  | 0, R, eff, ds => by simp [iters]
  | it + 1, R, eff, ds => by
    unfold iters
    cases ha : attempts und (maxAtt + 1) R ds with
    | error e => simp only; intro h; injection h with he; exact attempts_no_index und _ R ds (he ▸ ha)
    | ok v =>
      obtain ⟨R1, moved, rest1⟩ := v
      exact iters_no_index und maxAtt it R1 _ rest1

theorem run_no_index (und : Bool) (R : AMat Int n) (itr : Nat) (ds : List Nat) : run und R itr ds ≠ .error .index := by
  unfold run
  split
  · simp
  · cases und <;> simp only [if_true, Bool.false_eq_true, if_false] <;> exact iters_no_index _ _ _ _ _ _

/-! ### dealing -/

theorem dealRound_no_index (st : DealSt n) (oind rs : List Nat) (hnd : rs.Nodup)
    (hlt : ∀ r ∈ rs, r < st.wv.length) (hlen : st.cells.length = st.wv.length) :
    dealRound st oind rs ≠ .error .index := by
  unfold dealRound
  split
  · simp
  · rename_i hperm
    have hperm' : isPermOfRange oind st.cells.length = true := by simpa using hperm
    obtain ⟨hol, _, _⟩ := isPermOfRange_spec hperm'
    split
    · rename_i hbad
      exfalso
      have h3 : ∀ r ∈ rs, r < oind.length := fun r hr => by rw [hol, hlen]; exact hlt r hr
      have : ((decide rs.Nodup && rs.all fun x => decide (x < st.wv.length)) && rs.all fun x => decide (x < oind.length)) = true := by
        simp only [Bool.and_eq_true, decide_eq_true_eq, List.all_eq_true]
        exact ⟨⟨hnd, hlt⟩, h3⟩
      rw [this] at hbad
      exact Bool.false_ne_true hbad
    · simp

theorem dealLoop_no_index (period : Nat) : ∀ (fuel m : Nat) (st : DealSt n) (orc : List (List Nat)) (ds : List Nat),
    m = st.wv.length → st.cells.length = st.wv.length → dealLoop period fuel m st orc ds ≠ .error .index
  | 0, m, st, orc, ds, _, _ => by
    unfold dealLoop; split <;> simp
  | fuel + 1, m, st, orc, ds, hm, hlen => by
    unfold dealLoop
    split
    · simp
    · cases orc with
      | nil => simp
      | cons oind orc1 =>
        simp only
        split
        · simp
        · split
          · simp
          · rename_i hperm
            have hperm' : isPermOfRange (ds.take m) m = true := by simpa using hperm
            obtain ⟨hpl, hplt, hpnd⟩ := isPermOfRange_spec hperm'
            have hnd : ((ds.take m).take (min m period)).Nodup := (List.take_sublist _ _).nodup hpnd
            have hlt : ∀ r ∈ (ds.take m).take (min m period), r < st.wv.length :=
              fun r hr => by rw [← hm]; exact hplt r (List.mem_of_mem_take hr)
            cases hr : dealRound st oind ((ds.take m).take (min m period)) with
            | error e => simp only; intro h; injection h with he; exact dealRound_no_index st oind _ hnd hlt hlen (he ▸ hr)
            | ok st1 =>
              simp only
              -- `DealInv` with the current lists as reference only carries the length equation forward
              have hinv0 : DealInv (st.asg.map Prod.fst ++ st.cells) (st.asg.map Prod.snd ++ st.wv) st :=
                ⟨List.Perm.refl _, List.Perm.refl _, hlen⟩
              obtain ⟨hinv1, hlen1⟩ := dealRound_inv _ _ st st1 oind _ hinv0 hr
              apply dealLoop_no_index period fuel (m - period) st1 orc1 (ds.drop m) ?_ hinv1.2.2
              rw [hlen1, List.length_take, hpl, ← hm]
              omega

theorem dealSign_no_index (cells : List (Cell n)) (wv : List Int) (period : Nat) (orc : List (List Nat)) (ds : List Nat)
    (hlen : cells.length = wv.length) : dealSign cells wv period orc ds ≠ .error .index := by
  unfold dealSign
  rw [if_neg (by simpa using hlen)]
  split
  · cases orc with
    | nil => simp
    | cons oind orc1 =>
      simp only
      cases hr : dealRound ({ cells := cells, wv := wv, asg := [] } : DealSt n) oind (List.range wv.length) with
      | error e =>
        simp only; intro h; injection h with he
        exact dealRound_no_index _ oind _ List.nodup_range (fun r hr => List.mem_range.1 hr) hlen (he ▸ hr)
      | ok st => simp
  · cases hr : dealLoop period wv.length wv.length ({ cells := cells, wv := wv, asg := [] } : DealSt n) orc ds with
    | error e =>
      simp only; intro h; injection h with he
      exact dealLoop_no_index period wv.length wv.length ({ cells := cells, wv := wv, asg := [] } : DealSt n) orc ds rfl hlen (he ▸ hr)
    | ok v => obtain ⟨st, o1, d1⟩ := v; simp

/-! ### the supports have the right sizes -/

theorem sortedWeights_length (Wc : AMat Int n) (s : Int) (p : Int → Bool) (triu : Bool) :
    (sortedWeights Wc s p triu).length = (cellsWhere Wc p triu).length := by
  rw [(sortedWeights_perm Wc s p triu).length_eq, List.length_map]

theorem support_length_full {Wc Wr : AMat Int n} (h : Preserved Wc.toFun Wr.toFun) :
    (cellsWhere Wr isPos false).length = (cellsWhere Wc isPos false).length ∧
    (cellsWhere Wr isNeg false).length = (cellsWhere Wc isNeg false).length := by
  have hp := congrArg Multiset.card h.posMS
  have hn := congrArg Multiset.card h.negMS
  rw [posMS_eq, posMS_eq] at hp
  rw [negMS_eq, negMS_eq] at hn
  simpa using And.intro hp hn

theorem support_length (und : Bool) {Wc Wr : AMat Int n} (h : Preserved Wc.toFun Wr.toFun)
    (hd : ∀ i, Wc.toFun i i = 0) (hsc : und = true → IsSymm Wc.toFun) (hsr : und = true → IsSymm Wr.toFun) :
    (cellsWhere Wr isPos und).length = (cellsWhere Wc isPos und).length ∧
    (cellsWhere Wr isNeg und).length = (cellsWhere Wc isNeg und).length := by
  obtain ⟨fp, fn⟩ := support_length_full h
  cases und with
  | false => exact ⟨fp, fn⟩
  | true =>
    have hdr : ∀ i, Wr.toFun i i = 0 := fun i => (h.diag i).trans (hd i)
    have a1 := (cellsWhere_symm_split Wr isPos (by simp [isPos]) (hsr rfl) hdr).length_eq
    have a2 := (cellsWhere_symm_split Wc isPos (by simp [isPos]) (hsc rfl) hd).length_eq
    have b1 := (cellsWhere_symm_split Wr isNeg (by simp [isNeg]) (hsr rfl) hdr).length_eq
    have b2 := (cellsWhere_symm_split Wc isNeg (by simp [isNeg]) (hsc rfl) hd).length_eq
    simp only [List.length_map, List.length_append] at a1 a2 b1 b2
    constructor <;> omega

/-- the null models never index out of range, whatever the input, oracle and draws -/
theorem nullModel_no_index (und : Bool) (W : AMat Int n) (binSwaps period : Nat) (orc : List (List Nat)) (ds : List Nat) :
    nullModel und W binSwaps period orc ds ≠ .error .index := by
  unfold nullModel
  split
  · simp
  · rename_i hsym
    have hsym' : und = true → IsSymm W.toFun := by
      intro hu; subst hu
      exact isSymm_spec (by simpa using hsym)
    have hcs : und = true → IsSymm (clearDiag W).toFun := fun hu => clearDiag_symm (hsym' hu)
    have hd : ∀ i, (clearDiag W).toFun i i = 0 := by intro i; rw [clearDiag_toFun]; simp
    simp only
    -- the rewiring stage: an error is never `.index`; a result is a preserved, symmetric `Wr`
    have hrewE : ∀ {e : Err},
        (if (cellsWhere (clearDiag W) isPos false).length < n * (n - 1) then
          match run und (clearDiag W) binSwaps ds with
          | .error e => (.error e : Except Err (AMat Int n × List Nat))
          | .ok (Wr, _, rest) => .ok (Wr, rest)
        else .ok (clearDiag W, ds)) = .error e → e ≠ .index := by
      intro e hr
      split at hr
      · cases hrun : run und (clearDiag W) binSwaps ds with
        | error e' =>
          rw [hrun] at hr
          injection hr with h1
          subst h1
          exact fun he => run_no_index und _ _ _ (by rw [hrun, he])
        | ok v =>
          obtain ⟨R', eff, rest⟩ := v
          rw [hrun] at hr
          cases hr
      · cases hr
    have hrewO : ∀ {Wr : AMat Int n} {ds1 : List Nat},
        (if (cellsWhere (clearDiag W) isPos false).length < n * (n - 1) then
          match run und (clearDiag W) binSwaps ds with
          | .error e => (.error e : Except Err (AMat Int n × List Nat))
          | .ok (Wr, _, rest) => .ok (Wr, rest)
        else .ok (clearDiag W, ds)) = .ok (Wr, ds1) →
        Preserved (clearDiag W).toFun Wr.toFun ∧ (und = true → IsSymm Wr.toFun) := by
      intro Wr ds1 hr
      split at hr
      · cases hrun : run und (clearDiag W) binSwaps ds with
        | error e => simp [hrun] at hr
        | ok v =>
          obtain ⟨R', eff, rest⟩ := v
          simp only [hrun, Except.ok.injEq, Prod.mk.injEq] at hr
          obtain ⟨rfl, _⟩ := hr
          exact (run_preserved und (clearDiag W) binSwaps ds hrun hcs).1
      · simp only [Except.ok.injEq, Prod.mk.injEq] at hr
        obtain ⟨rfl, _⟩ := hr
        exact ⟨Preserved.refl _, hcs⟩
    split
    · rename_i e heq
      intro h; injection h with h1
      exact hrewE heq h1
    · rename_i Wr ds1 heq
      obtain ⟨hpres, hsr⟩ := hrewO heq
      obtain ⟨lp, ln⟩ := support_length und hpres hd hcs hsr
      cases hP : dealSign (cellsWhere Wr isPos und) (sortedWeights (clearDiag W) 1 isPos und) period orc ds1 with
      | error e =>
        simp only; intro h; injection h with he
        exact dealSign_no_index _ _ period orc ds1 (by rw [sortedWeights_length, lp]) (he ▸ hP)
      | ok v =>
        obtain ⟨asgP, orc2, ds2⟩ := v
        simp only
        cases hN : dealSign (cellsWhere Wr isNeg und) (sortedWeights (clearDiag W) (-1) isNeg und) period orc2 ds2 with
        | error e =>
          simp only; intro h; injection h with he
          exact dealSign_no_index _ _ period orc2 ds2 (by rw [sortedWeights_length, ln]) (he ▸ hN)
        | ok v2 => obtain ⟨asgN, orc3, ds3⟩ := v2; simp

end Bct.Signed

namespace Bct.Signed
variable {n : ℕ}

/-- fewer than four nodes: the binary stage changes nothing, the sign pattern dealt onto is that of the input -/
theorem nullModel_small (und : Bool) (W : AMat Int n) (binSwaps period : Nat) (orc : List (List Nat)) (ds : List Nat)
    (hn : n < 4) {o : NullOut n} (h : nullModel und W binSwaps period orc ds = .ok o) : o.Wr = clearDiag W := by
  unfold nullModel at h
  split at h
  · simp at h
  · simp only [run_small und _ _ _ hn] at h
    have hrew : (if (cellsWhere (clearDiag W) isPos false).length < n * (n - 1) then
        (Except.ok (clearDiag W, ds) : Except Err (AMat Int n × List Nat)) else Except.ok (clearDiag W, ds)) = .ok (clearDiag W, ds) := by
      split <;> rfl
    rw [hrew] at h
    simp only at h
    split at h
    · simp at h
    · split at h
      · simp at h
      · simp only [Except.ok.injEq] at h
        subst h; rfl

end Bct.Signed
