import BctVerif.Lemmas.Partition

/-! `ls2ci (ci2ls c)` : the fold of array writes -/
namespace Bct.Partition
open Finset

variable {n : Nat}

theorem fold_writes (z : Nat) (f : Nat → Nat) : ∀ (ws : List (Nat × Nat)) (a : Array Nat),
    (∀ w ∈ ws, w.2 < a.size ∧ f w.2 = w.1 + z) →
    ∃ a' : Array Nat, ws.foldl (lsStep z) (.ok a) = .ok a' ∧ a'.size = a.size ∧
      ∀ (v : Nat) (hv : v < a.size) (hv' : v < a'.size),
        a'[v] = if (∃ w ∈ ws, w.2 = v) then f v else a[v] := by
  intro ws
  induction ws with
  | nil => intro a _; exact ⟨a, rfl, rfl, fun v hv hv' => by simp⟩
  | cons w ws ih =>
    intro a h
    have hw := h w (List.mem_cons_self)
    have hstep : lsStep z (.ok a) w = .ok (a.set! w.2 (w.1 + z)) := by
      simp [lsStep, hw.1]
    have hsize : (a.set! w.2 (w.1 + z)).size = a.size := by simp
    obtain ⟨a', h1, h2, h3⟩ := ih (a.set! w.2 (w.1 + z)) (fun w' hw' => by
      rw [hsize]; exact h w' (List.mem_cons_of_mem _ hw'))
    refine ⟨a', ?_, h2.trans hsize, ?_⟩
    · rw [List.foldl_cons, hstep, h1]
    · intro v hv hv'
      have := h3 v (by rw [hsize]; exact hv) hv'
      rw [this]
      by_cases hex : ∃ w' ∈ ws, w'.2 = v
      · have : ∃ w' ∈ w :: ws, w'.2 = v := by
          obtain ⟨w', hm, he⟩ := hex; exact ⟨w', List.mem_cons_of_mem _ hm, he⟩
        simp [hex]
      · rw [if_neg hex]
        by_cases hwv : w.2 = v
        · have : ∃ w' ∈ w :: ws, w'.2 = v := ⟨w, List.mem_cons_self, hwv⟩
          rw [if_pos this]
          subst hwv
          simp [Array.set!, hw.2]
        · have : ¬ ∃ w' ∈ w :: ws, w'.2 = v := by
            rintro ⟨w', hm, he⟩
            rcases List.mem_cons.mp hm with rfl | hm
            · exact hwv he
            · exact hex ⟨w', hm, he⟩
          rw [if_neg this]
          simp only [Array.set!]
          exact Array.getElem_setIfInBounds_ne hv hwv

theorem length_filter_eq_sum {α : Type} (p : α → Bool) (l : List α) :
    (l.filter p).length = (l.map fun v => if p v then 1 else 0).sum := by
  induction l with
  | nil => rfl
  | cons x l ih =>
    by_cases h : p x
    · simp [h, ih]; omega
    · simp [h, ih]

theorem members_length (ci : Vector Nat n) (m : Nat) : (members ci m).length = cardIn (inMod ci m) := by
  unfold members cardIn sumFin inMod
  rw [length_filter_eq_sum]

theorem mem_members (ci : Vector Nat n) (m : Nat) (u : Fin n) : u ∈ members ci m ↔ ci[u] = m := by
  unfold members; simp

/-- the module sizes add up to `n` -/
theorem sum_sizes (c : Vector Int n) : sumRange (numMods c) (fun m => cardIn (inMod (relabel c) (m + 1))) = n := by
  have h : sumRange (numMods c) (fun m => cardIn (inMod (relabel c) (m + 1))) = modSum c fun p => cardIn p := rfl
  rw [h, modSum_eq]
  have := Finset.card_eq_sum_card_fiberwise (s := (univ : Finset (Fin n))) (f := fun v : Fin n => c[v])
    (t := labelSet c) (fun v _ => mem_labelSet c v)
  rw [Finset.card_univ, Fintype.card_fin] at this
  refine (Finset.sum_congr rfl ?_).trans this.symm
  intro ℓ _
  unfold cardIn
  rw [sumFin_eq, Finset.card_filter]
  apply Finset.sum_congr rfl
  intro v _
  simp

end Bct.Partition
