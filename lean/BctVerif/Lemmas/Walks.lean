import BctVerif.Model.Walks
import BctVerif.Lemmas.WalksAlg
/-!
# Bridges from the executable `Walks` model (core `List`/`Vector`/`Rat`) to Mathlib `Finset` sums and `Matrix`
-/
open Finset Matrix

namespace Bct.Walks
open Bct

variable {n : ℕ}

/-- function view of a `Vector`-backed matrix as a Mathlib matrix -/
def toMat {α : Type} (A : AMat α n) : Matrix (Fin n) (Fin n) α := Matrix.of fun i j => A.get i j

@[simp] theorem toMat_apply {α : Type} (A : AMat α n) (i j : Fin n) : toMat A i j = A.get i j := rfl

theorem fsum_eq (f : Fin n → ℚ) : fsum f = ∑ i, f i := by
  unfold fsum; rw [Fin.sum_univ_def]

theorem isum_eq (f : Fin n → ℤ) : isum f = ∑ i, f i := by
  unfold isum; rw [Fin.sum_univ_def]

theorem allFin_iff (p : Fin n → Bool) : allFin n p = true ↔ ∀ i, p i = true := by
  simp [allFin]

theorem anyFin_iff (p : Fin n → Bool) : anyFin n p = true ↔ ∃ i, p i = true := by
  simp [anyFin]

theorem delta_eq (i j : Fin n) : delta i j = if i = j then (1 : ℚ) else 0 := rfl

theorem isInvOf_iff (A Z : QMat n) : isInvOf A Z = true ↔ toMat A * toMat Z = 1 := by
  simp only [isInvOf, allFin_iff, beq_iff_eq, fsum_eq, delta_eq]
  constructor
  · intro h; ext i j; simp [Matrix.mul_apply, Matrix.one_apply, h i j]
  · intro h i j
    have := congrFun (congrFun h i) j
    simpa [Matrix.mul_apply, Matrix.one_apply] using this

theorem solves_iff (A : QMat n) (x b : QVec n) :
    solves A x b = true ↔ ∀ i : Fin n, ∑ k : Fin n, A.get i k * x[k] = b[i] := by
  simp only [solves, allFin_iff, beq_iff_eq, fsum_eq]

theorem stationary_iff (P : QMat n) (w : QVec n) :
    stationary P w = true ↔ (∀ j : Fin n, ∑ k : Fin n, w[k] * P.get k j = w[j]) ∧ ∑ k : Fin n, w[k] = 1 := by
  simp only [stationary, Bool.and_eq_true, allFin_iff, beq_iff_eq, fsum_eq]

/-! ## what an `ok` result of each routine certifies -/

theorem mfpt_ok {A : QMat n} {o : MfptOut n} (h : mfpt A = .ok o) :
    (∀ i, rowSum A i ≠ 0) ∧ o.P = transition A ∧ stationary o.P o.w = true ∧
    (∀ j : Fin n, o.w[j] ≠ 0) ∧ isInvOf (fundArg o.P o.w) o.Z = true ∧
    o.M = AMat.ofFn fun i j => (o.Z.get j j - o.Z.get i j) / o.w[j] := by
  unfold mfpt at h
  split_ifs at h with h1
  dsimp only at h
  split at h
  · cases h
  · rename_i w hw
    split_ifs at h with h2 h3
    split at h
    · cases h
    · rename_i Z hZ
      split_ifs at h with h4
      cases h
      simp only [anyFin_iff, not_exists, Bool.not_eq_true, beq_eq_false_iff_ne, ne_eq,
        Bool.not_eq_eq_eq_not, Bool.not_true, Bool.not_eq_false] at h1 h2 h3 h4
      exact ⟨h1, rfl, h2, h3, h4, rfl⟩

theorem diffEff_ok {A : QMat n} {o : DiffOut n} (h : diffEff A = .ok o) :
    (∃ m, mfpt A = .ok m ∧ o.M = m.M) ∧ (∀ i j, i ≠ j → o.M.get i j ≠ 0) ∧ 2 ≤ n ∧
    o.E = (AMat.ofFn fun i j => if i = j then 0 else 1 / o.M.get i j) ∧
    o.g = fsum (fun i => fsum fun j => o.E.get i j) / ((n : ℚ) * n - n) := by
  unfold diffEff at h
  split at h
  · cases h
  · rename_i m hm
    split_ifs at h with h1 h2
    cases h
    simp only [anyFin_iff, not_exists, Bool.and_eq_true, bne_iff_ne, ne_eq, beq_iff_eq, not_and] at h1
    exact ⟨⟨m, hm, rfl⟩, fun i j hij => h1 i j hij, by omega, rfl, rfl⟩

theorem pagerank_ok {A : QMat n} {d : ℚ} {f : Option (Vector Int n)} {o : PrOut n}
    (h : pagerank A d f = .ok o) :
    prior f = .ok o.f ∧
    solves (prMat A d) o.r0 (Vector.ofFn fun i => (1 - d) * o.f[i]) = true ∧
    fsum (fun i : Fin n => o.r0[i]) ≠ 0 ∧
    o.r = Vector.ofFn fun i => o.r0[i] / fsum (fun i : Fin n => o.r0[i]) := by
  unfold pagerank at h
  split at h
  · cases h
  · rename_i nf hnf
    dsimp only at h
    split at h
    · cases h
    · rename_i r0 hr0
      split_ifs at h with h1 h2
      cases h
      exact ⟨hnf, by simpa using h1, h2, rfl⟩

theorem prior_sum {f : Option (Vector Int n)} {nf : QVec n} (h : prior f = .ok nf) :
    ∑ i : Fin n, nf[i] = 1 := by
  unfold prior at h
  split at h
  · split_ifs at h with h0
    cases h
    simp only [Fin.getElem_fin, Vector.getElem_ofFn, Finset.sum_const, Finset.card_univ, Fintype.card_fin,
      nsmul_eq_mul]
    have : (n : ℚ) ≠ 0 := by exact_mod_cast h0
    field_simp
  · rename_i f
    dsimp only at h
    split_ifs at h with h0
    cases h
    simp only [Fin.getElem_fin, Vector.getElem_ofFn]
    rw [← Finset.sum_div, fsum_eq] at *
    exact div_self h0

/-! ## integer matrix powers -/

theorem toMat_mulI (A B : AMat Int n) : toMat (mulI A B) = toMat A * toMat B := by
  ext i j; simp [mulI, isum_eq, Matrix.mul_apply]

theorem toMat_idI : toMat (idI n) = 1 := by
  ext i j; simp [idI, Matrix.one_apply]

theorem toMat_powI (A : AMat Int n) (m : ℕ) : toMat (powI A m) = toMat A ^ m := by
  induction m with
  | zero => simp [powI, toMat_idI]
  | succ m ih => rw [powI, toMat_mulI, ih, pow_succ]

theorem walkLoop_length (C : AMat Int n) (k : ℕ) (P : AMat Int n) : (walkLoop C k P).length = k := by
  induction k generalizing P with
  | zero => rfl
  | succ k ih => simp [walkLoop, ih]

theorem walkLoop_spec (C : AMat Int n) (k : ℕ) (P : AMat Int n) (m : ℕ) (hP : toMat P = toMat C ^ m)
    (t : ℕ) (ht : t < k) :
    ∃ S, (walkLoop C k P)[t]? = some S ∧ toMat S = toMat C ^ (m + 1 + t) := by
  induction k generalizing P m t with
  | zero => omega
  | succ k ih =>
    have hP' : toMat (mulI P C) = toMat C ^ (m + 1) := by rw [toMat_mulI, hP, pow_succ]
    cases t with
    | zero => exact ⟨mulI P C, by simp [walkLoop], by simpa using hP'⟩
    | succ t =>
      obtain ⟨S, h1, h2⟩ := ih (mulI P C) (m + 1) hP' t (by omega)
      refine ⟨S, by simpa [walkLoop] using h1, ?_⟩
      rw [h2]; congr 1; omega

theorem fact_eq (m : ℕ) : fact m = m.factorial := by
  induction m with
  | zero => rfl
  | succ m ih => rw [fact, ih, Nat.factorial_succ]

theorem expDiagLoop_spec (A : AMat Int n) (T m : ℕ) (P : AMat Int n) (acc : QVec n)
    (hP : toMat P = toMat A ^ m) (i : Fin n) :
    (expDiagLoop A T m P acc)[i] =
      acc[i] + ∑ t ∈ range T, (((toMat A ^ (m + t)) i i : ℤ) : ℚ) / ((m + t).factorial : ℚ) := by
  induction T generalizing m P acc with
  | zero => simp [expDiagLoop]
  | succ T ih =>
    have hP' : toMat (mulI P A) = toMat A ^ (m + 1) := by rw [toMat_mulI, hP, pow_succ]
    rw [expDiagLoop, ih (m + 1) _ _ hP', Finset.sum_range_succ']
    simp only [Fin.getElem_fin, Vector.getElem_ofFn, add_zero, fact_eq]
    have e : P.get i i = (toMat A ^ m) i i := by rw [← hP]; rfl
    rw [e]
    have : ∀ t, m + 1 + t = m + (t + 1) := fun t => by omega
    simp only [this]
    ring

theorem expDiag_spec (A : AMat Int n) (T : ℕ) (i : Fin n) :
    (expDiag A T)[i] = ∑ t ∈ range T, (((toMat A ^ t) i i : ℤ) : ℚ) / (t.factorial : ℚ) := by
  unfold expDiag
  rw [expDiagLoop_spec A T 0 (idI n) _ (by simp [toMat_idI]) i]
  simp

theorem toQ_get (A : AMat Int n) (i j : Fin n) : (toQ A).get i j = (A.get i j : ℚ) := by
  simp [toQ, AMat.map]

theorem scaleQ_get (A : AMat Int n) (den : ℕ) (i j : Fin n) :
    (scaleQ A den).get i j = (A.get i j : ℚ) / (den : ℚ) := by
  simp [scaleQ]

theorem toMat_binarize (A : AMat Int n) (i j : Fin n) :
    toMat (binarize A) i j = if (A.get i j != 0) then 1 else 0 := by
  simp [binarize, AMat.map]

theorem listMin_le (l : List ℚ) (x : ℚ) : listMin l x ≤ x ∧ ∀ y ∈ l, listMin l x ≤ y := by
  induction l generalizing x with
  | nil => simp [listMin]
  | cons a l ih =>
    have := ih (if a < x then a else x)
    simp only [listMin, List.foldl_cons] at this ⊢
    refine ⟨le_trans this.1 (by split_ifs <;> linarith), fun y hy => ?_⟩
    rcases List.mem_cons.mp hy with rfl | hy
    · exact le_trans this.1 (by split_ifs <;> linarith)
    · exact this.2 y hy

theorem le_listMax (l : List ℚ) (x : ℚ) : x ≤ listMax l x ∧ ∀ y ∈ l, y ≤ listMax l x := by
  induction l generalizing x with
  | nil => simp [listMax]
  | cons a l ih =>
    have := ih (if x < a then a else x)
    simp only [listMax, List.foldl_cons] at this ⊢
    refine ⟨le_trans (by split_ifs <;> linarith) this.1, fun y hy => ?_⟩
    rcases List.mem_cons.mp hy with rfl | hy
    · exact le_trans (by split_ifs <;> linarith) this.1
    · exact this.2 y hy

end Bct.Walks
