import BctVerif.Lemmas.DistDijkstra

/-!
# From the function-level Dijkstra lemmas to the executable model `Bct.Dist.dijkstra`
-/
namespace Bct.Dist
variable {n : ℕ}

def toDS (st : DSt n) : DS n := ⟨fun w => (st.D[w]).toLen, fun w => st.B[w], fun w => st.S[w]⟩

theorem DS.ext' {a b : DS n} (h1 : a.d = b.d) (h2 : a.b = b.b) (h3 : a.S = b.S) : a = b := by
  cases a; cases b; simp_all

theorem vec_ofFn_get {α : Type} (f : Fin n → α) (w : Fin n) : (Vector.ofFn f)[w] = f w := by
  simp [Fin.getElem_fin]

theorem toDS_relaxFrom (A : AMat Ext n) (st : DSt n) (v : Fin n) :
    toDS (relaxFrom A st v) = relaxF (lenFun A) (toDS st) v := by
  have key : ∀ w, ((st.S[w] && Ext.lt (st.D[v] + A.get v w) st.D[w]) = true) ↔
      ((toDS st).S w = true ∧ (toDS st).d v + lenFun A v w < (toDS st).d w) := by
    intro w
    rw [Bool.and_eq_true, Ext.lt_iff, Ext.toLen_add]; rfl
  apply DS.ext'
  · funext w
    change ((relaxFrom A st v).D[w]).toLen = (relaxF (lenFun A) (toDS st) v).d w
    simp only [relaxFrom, relaxF]
    rw [vec_ofFn_get]
    by_cases h : (toDS st).S w = true ∧ (toDS st).d v + lenFun A v w < (toDS st).d w
    · rw [if_pos ((key w).mpr h), if_pos h, Ext.toLen_add]; rfl
    · rw [if_neg (fun hb => h ((key w).mp hb)), if_neg h]; rfl
  · funext w
    change (relaxFrom A st v).B[w] = (relaxF (lenFun A) (toDS st) v).b w
    simp only [relaxFrom, relaxF]
    rw [vec_ofFn_get]
    by_cases h : (toDS st).S w = true ∧ (toDS st).d v + lenFun A v w < (toDS st).d w
    · rw [if_pos ((key w).mpr h), if_pos h]; rfl
    · rw [if_neg (fun hb => h ((key w).mp hb)), if_neg h]; rfl
  · rfl

theorem toDS_settle (st : DSt n) (V : List (Fin n)) : toDS (settle st V) = settleF (toDS st) V := by
  apply DS.ext'
  · rfl
  · rfl
  · funext w
    change (settle st V).S[w] = (settleF (toDS st) V).S w
    simp only [settle, settleF]
    rw [vec_ofFn_get]; rfl

theorem toDS_foldl (A : AMat Ext n) : ∀ (V : List (Fin n)) (st : DSt n),
    toDS (V.foldl (relaxFrom A) st) = V.foldl (relaxF (lenFun A)) (toDS st) := by
  intro V
  induction V with
  | nil => intro st; rfl
  | cons v V ih => intro st; simp only [List.foldl_cons, ih, toDS_relaxFrom]

theorem minOver_toLen (D : Vector Ext n) : ∀ (ws : List (Fin n)) (a : Ext),
    (ws.foldl (fun m w => Ext.min m D[w]) a).toLen = ws.foldl (fun m w => min m ((D[w]).toLen)) a.toLen := by
  intro ws
  induction ws with
  | nil => intro a; rfl
  | cons x ws ih => intro a; simp only [List.foldl_cons]; rw [ih, Ext.toLen_min]

/-- loop invariant at the head of `while True` -/
def LInv (L : LMat n) (u : Fin n) (s : DS n) (V : List (Fin n)) : Prop :=
  ∃ m : Len, (∀ v ∈ V, s.d v = m) ∧ (∀ y, s.S y = true → s.d y = m → y ∈ V) ∧ (∀ y, s.S y = true → m ≤ s.d y) ∧
    (∀ x, s.S x = false → s.d x ≤ m) ∧ Phi L s ∧ Wit L u s ∧ s.d u = 0 ∧ (s.S u = false ∨ u ∈ V)

/-- what holds of a returned row: feasibility of every connection, witness walks, zero at the source -/
def RowFinal (L : LMat n) (u : Fin n) (s : DS n) : Prop :=
  (∀ x w, s.d w ≤ s.d x + L x w) ∧ Wit L u s ∧ s.d u = 0

theorem dLoop_final (A : AMat Ext n) (hL : ∀ i j, 0 ≤ lenFun A i j) (u : Fin n) :
    ∀ (fuel : ℕ) (st : DSt n) (V : List (Fin n)) (r : DSt n), LInv (lenFun A) u (toDS st) V →
      dLoop A fuel st V = some r → RowFinal (lenFun A) u (toDS r) := by
  intro fuel
  induction fuel with
  | zero => intro st V r _ h; simp [dLoop] at h
  | succ fuel ih =>
    intro st V r hinv h
    obtain ⟨m, hVm, hVall, hm, hm2, hphi, hwit, hu0, huS⟩ := hinv
    rw [dLoop] at h
    -- the state after the round
    have e1 : toDS (V.foldl (relaxFrom A) (settle st V)) = V.foldl (relaxF (lenFun A)) (settleF (toDS st) V) := by
      rw [toDS_foldl, toDS_settle]
    obtain ⟨phi1, eff⟩ := round_phi (lenFun A) hL (toDS st) V m hVm hVall hm hm2 hphi
    have wit1 := wit_fold (lenFun A) u V _ (wit_settle (lenFun A) u (toDS st) V hwit)
    rw [← e1] at phi1 eff wit1
    set st1 := V.foldl (relaxFrom A) (settle st V) with hst1
    have hSu : (toDS st1).S u = false := by
      rw [eff.S_eq]
      rcases huS with h' | h' <;> simp [settleF, h']
    have hu1 : (toDS st1).d u = 0 := by
      have : (settleF (toDS st) V).S u = false := by rw [← eff.S_eq]; exact hSu
      rw [eff.keep u this]; exact hu0
    have temp_mem : ∀ w, w ∈ (List.finRange n).filter (fun w => st1.S[w]) ↔ (toDS st1).S w = true := by
      intro w; simp [toDS]
    dsimp only at h
    split_ifs at h with hemp hinf
    · -- no temporary node left
      have hr : st1 = r := by simpa using h
      subst hr
      have allS : ∀ x, (toDS st1).S x = false := by
        intro x
        by_contra hx
        have : x ∈ (List.finRange n).filter (fun w => st1.S[w]) := (temp_mem x).mpr (by simpa using hx)
        rw [List.isEmpty_iff.mp hemp] at this
        exact absurd this List.not_mem_nil
      exact ⟨fun x w => phi1.feas x w (allS x), wit1, hu1⟩
    · -- the remaining temporary nodes are unreachable
      have hr : st1 = r := by simpa using h
      subst hr
      have hmin : minOverF (toDS st1).d ((List.finRange n).filter (fun w => st1.S[w])) = ⊤ := by
        have := congrArg Ext.toLen hinf
        rw [minOver, minOver_toLen] at this
        exact this
      refine ⟨?_, wit1, hu1⟩
      intro x w
      by_cases hx : (toDS st1).S x = true
      · have := minOverF_le (toDS st1).d _ x ((temp_mem x).mpr hx)
        rw [hmin, top_le_iff] at this
        rw [this]; simp
      · exact phi1.feas x w (by simpa using hx)
    · -- next round
      apply ih st1 _ r _ h
      set temp := (List.finRange n).filter (fun w => st1.S[w]) with htemp
      set m' := minOver st1.D temp with hm'
      have hm'len : m'.toLen = minOverF (toDS st1).d temp := by
        rw [hm', minOver, minOver_toLen]; rfl
      refine ⟨m'.toLen, ?_, ?_, ?_, ?_, phi1, wit1, hu1, Or.inl hSu⟩
      · intro v hv
        have : st1.D[v] = m' := by simpa using (List.mem_filter.mp hv).2
        show (st1.D[v]).toLen = m'.toLen
        rw [this]
      · intro y _ hy
        have : st1.D[y] = m' := Ext.toLen_injective hy
        simpa using this
      · intro y hy
        rw [hm'len]
        exact minOverF_le _ _ y ((temp_mem y).mpr hy)
      · intro x hx
        rcases minOverF_mem (toDS st1).d temp with e | ⟨y, hy, e⟩
        · exfalso
          rw [← hm'len] at e
          exact hinf ((Ext.eq_inf_iff _).mpr e)
        · rw [hm'len, e]
          exact phi1.sett_le x y hx ((temp_mem y).mp hy)

theorem dRow_final (A : AMat Ext n) (hL : ∀ i j, 0 ≤ lenFun A i j) (u : Fin n) (r : DSt n)
    (h : dRow A u = some r) : RowFinal (lenFun A) u (toDS r) := by
  unfold dRow at h
  refine dLoop_final A hL u _ _ _ r ?_ h
  have hd : ∀ w, (toDS (dInit u : DSt n)).d w = if w = u then 0 else ⊤ := by
    intro w
    simp only [toDS, dInit]
    rw [vec_ofFn_get]
    split_ifs <;> simp
  have hS : ∀ w, (toDS (dInit u : DSt n)).S w = true := by
    intro w
    simp only [toDS, dInit]
    rw [vec_ofFn_get]
  have hb : ∀ w, (toDS (dInit u : DSt n)).b w = 0 := by
    intro w
    simp only [toDS, dInit]
    rw [vec_ofFn_get]
  refine ⟨0, ?_, ?_, ?_, ?_, ⟨?_, ?_⟩, ?_, ?_, Or.inr (by simp)⟩
  · intro v hv
    have : v = u := by simpa using hv
    rw [hd, if_pos this]
  · intro y _ hy
    rw [hd] at hy
    by_cases hyu : y = u
    · simp [hyu]
    · rw [if_neg hyu] at hy; simp at hy
  · intro y _
    rw [hd]; split_ifs <;> simp
  · intro x hx
    rw [hS] at hx; exact absurd hx (by decide)
  · intro x y hx
    rw [hS] at hx; exact absurd hx (by decide)
  · intro x w hx
    rw [hS] at hx; exact absurd hx (by decide)
  · intro w hw
    rw [hd] at hw ⊢
    by_cases hwu : w = u
    · refine ⟨[], ?_, ?_, ?_⟩
      · simp [walkEnd, hwu]
      · simp [walkLen, hwu]
      · rw [hb]; rfl
    · rw [if_neg hwu] at hw; simp at hw
  · rw [hd]; simp

theorem allRows_some {α : Type} (f : Fin n → Option α) (rows : Vector α n) (h : allRows f = some rows) :
    ∀ i : Fin n, f i = some rows[i] := by
  unfold allRows at h
  split_ifs at h with hall
  intro i
  have : rows = Vector.ofFn fun i => (f i).get (hall i) := by simpa using h.symm
  rw [this]
  simp

/-- result of the model of `distance_wei` on non-negative lengths -/
theorem dijkstra_spec (A : AMat Ext n) (hL : ∀ i j, 0 ≤ lenFun A i j) (D : AMat Ext n) (B : AMat ℕ n)
    (h : dijkstra A = some (D, B)) :
    IsDist (lenFun A) (lenFun D) ∧ (∀ i, lenFun D i i = 0) ∧
      ∀ i j, lenFun D i j < ⊤ → ∃ p, walkEnd i p = j ∧ walkLen (lenFun A) i p = lenFun D i j ∧ p.length = B.get i j := by
  unfold dijkstra at h
  rcases hrows : allRows (dRow A) with _ | rows
  · rw [hrows] at h; simp at h
  · rw [hrows] at h
    simp only [Option.map_some, Option.some.injEq, Prod.mk.injEq] at h
    obtain ⟨hD, hB⟩ := h
    have hrow := allRows_some (dRow A) rows hrows
    have fin := fun u => dRow_final A hL u rows[u] (hrow u)
    have eD : ∀ u w, lenFun D u w = (toDS rows[u]).d w := by
      intro u w; rw [← hD]; simp [lenFun, AMat.get, toDS]
    have eB : ∀ u w, B.get u w = (toDS rows[u]).b w := by
      intro u w; rw [← hB]; simp [AMat.get, toDS]
    refine ⟨⟨?_, ?_⟩, ?_, ?_⟩
    · intro i p
      rw [eD]
      exact lower_of_feasible_row (lenFun A) (toDS rows[i]).d i (le_of_eq (fin i).2.2)
        (fun k j => (fin i).1 k j) p
    · intro i j hfin
      rw [eD] at hfin ⊢
      obtain ⟨p, hp, hl, _⟩ := (fin i).2.1 j hfin
      exact ⟨p, hp, hl⟩
    · intro i; rw [eD]; exact (fin i).2.2
    · intro i j hfin
      rw [eD] at hfin ⊢
      rw [eB]
      exact (fin i).2.1 j hfin

end Bct.Dist
