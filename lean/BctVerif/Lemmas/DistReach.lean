import BctVerif.Lemmas.DistBin
import Mathlib.Data.Finset.Card
import Mathlib.Data.Fintype.Card

/-!
# A node reachable by some walk of ≥ 1 edges is reachable by one of at most `n` edges

Stabilisation argument on the increasing chain `T t = {x | ∃ d ∈ [1,t], Reach d i x}` of subsets of `Fin n`:
`T (t+1) = T t` implies `T (t+2) = T (t+1)`, and a strictly increasing chain has at most `n` strict steps.
(Needed for the exit of `reachdist2` by its counter `powr > n`.)
-/
namespace Bct.Dist
variable {n : ℕ}

open Classical in
noncomputable def Tset (G : AMat ℕ n) (i : Fin n) (t : ℕ) : Finset (Fin n) :=
  Finset.univ.filter fun x => ∃ d, 1 ≤ d ∧ d ≤ t ∧ Reach G d i x

theorem mem_Tset (G : AMat ℕ n) (i x : Fin n) (t : ℕ) : x ∈ Tset G i t ↔ ∃ d, 1 ≤ d ∧ d ≤ t ∧ Reach G d i x := by
  simp [Tset]

theorem Tset_mono (G : AMat ℕ n) (i : Fin n) {t t' : ℕ} (h : t ≤ t') : Tset G i t ⊆ Tset G i t' := by
  intro x hx
  rw [mem_Tset] at hx ⊢
  obtain ⟨d, h1, h2, h3⟩ := hx
  exact ⟨d, h1, by omega, h3⟩

theorem Tset_stable_step (G : AMat ℕ n) (i : Fin n) (t : ℕ) (h : Tset G i (t + 1) = Tset G i t) :
    Tset G i (t + 2) = Tset G i (t + 1) := by
  apply Finset.Subset.antisymm
  · intro x hx
    rw [mem_Tset] at hx
    obtain ⟨d, h1, h2, h3⟩ := hx
    by_cases hd : d ≤ t + 1
    · rw [mem_Tset]; exact ⟨d, h1, hd, h3⟩
    · have hd' : d = (t + 1) + 1 := by omega
      subst hd'
      obtain ⟨y, hy, hg⟩ := h3
      have : y ∈ Tset G i (t + 1) := by rw [mem_Tset]; exact ⟨t + 1, by omega, le_refl _, hy⟩
      rw [h, mem_Tset] at this
      obtain ⟨d', g1, g2, g3⟩ := this
      rw [mem_Tset]
      exact ⟨d' + 1, by omega, by omega, ⟨y, g3, hg⟩⟩
  · exact Tset_mono G i (by omega)

theorem Tset_stable (G : AMat ℕ n) (i : Fin n) (s : ℕ) (h : Tset G i (s + 1) = Tset G i s) :
    ∀ k, Tset G i (s + k) = Tset G i s := by
  have step : ∀ k, Tset G i (s + k + 1) = Tset G i (s + k) := by
    intro k
    induction k with
    | zero => exact h
    | succ k ih => exact Tset_stable_step G i (s + k) ih
  intro k
  induction k with
  | zero => rfl
  | succ k ih => rw [← ih]; exact step k

theorem Tset_card_ge (G : AMat ℕ n) (i : Fin n) : ∀ t, (∀ s, s < t → Tset G i (s + 1) ≠ Tset G i s) → t ≤ (Tset G i t).card := by
  intro t
  induction t with
  | zero => intro _; exact Nat.zero_le _
  | succ t ih =>
    intro h
    have h1 := ih (fun s hs => h s (by omega))
    have hne := h t (by omega)
    have hss : Tset G i t ⊂ Tset G i (t + 1) := by
      refine ⟨Tset_mono G i (by omega), ?_⟩
      intro hsub
      exact hne (Finset.Subset.antisymm hsub (Tset_mono G i (by omega)))
    have := Finset.card_lt_card hss
    omega

theorem exists_stable (G : AMat ℕ n) (i : Fin n) : ∃ s, s ≤ n ∧ Tset G i (s + 1) = Tset G i s := by
  by_contra hno
  push Not at hno
  have := Tset_card_ge G i (n + 1) (fun s hs => hno s (by omega))
  have h2 : (Tset G i (n + 1)).card ≤ n := by
    have := Finset.card_le_univ (Tset G i (n + 1))
    simpa using this
  omega

/-- pigeonhole in the form needed: reachable by some non-empty walk ⇒ reachable by one of at most `n` edges -/
theorem reach_bound (G : AMat ℕ n) (i x : Fin n) (d : ℕ) (hd : 1 ≤ d) (h : Reach G d i x) :
    ∃ d', 1 ≤ d' ∧ d' ≤ n ∧ Reach G d' i x := by
  obtain ⟨s, hs, hst⟩ := exists_stable G i
  have hx : x ∈ Tset G i d := by rw [mem_Tset]; exact ⟨d, hd, le_refl _, h⟩
  have hx' : x ∈ Tset G i n := by
    by_cases hds : d ≤ s
    · exact Tset_mono G i (by omega) (Tset_mono G i hds hx)
    · have : d = s + (d - s) := by omega
      rw [this, Tset_stable G i s hst] at hx
      exact Tset_mono G i hs hx
  rw [mem_Tset] at hx'
  exact hx'

end Bct.Dist
