import BctVerif.Lemmas.DistBin
import BctVerif.Lemmas.DistDijkstraTerm

/-!
# The model of `distance_bin` never runs out of fuel

After the first pass every cell selected by `L` has `D = 0` and receives `k ≥ 1`, so the number of zero cells of `D`
strictly decreases; `n² + 2` passes suffice.
-/
namespace Bct.Dist
variable {n : ℕ}

def zeroCount (D : AMat ℕ n) : ℕ := ((cells n).filter fun p => D.get p.1 p.2 == 0).length

theorem anyTrue_exists {M : AMat Bool n} (h : anyTrue M = true) : ∃ i j, M.get i j = true := by
  unfold anyTrue at h
  rw [List.any_eq_true] at h
  obtain ⟨p, _, hp⟩ := h
  exact ⟨p.1, p.2, hp⟩

theorem binLoop_isSome (G : AMat ℕ n) : ∀ (fuel k : ℕ) (nP D : AMat ℕ n) (L : AMat Bool n),
    1 ≤ k → (∀ i j, L.get i j = true → D.get i j = 0) → zeroCount D < fuel →
    (binLoop G fuel k nP D L).isSome = true := by
  intro fuel
  induction fuel with
  | zero => intro k nP D L _ _ h; omega
  | succ fuel ih =>
    intro k nP D L hk hL h
    simp only [binLoop]
    by_cases hany : anyTrue L = true
    · rw [if_pos hany]
      apply ih
      · omega
      · intro i j hl
        simp only [AMat.get_ofFn, Bool.and_eq_true, beq_iff_eq] at hl
        simpa using hl.2
      · obtain ⟨i, j, hij⟩ := anyTrue_exists hany
        have hd0 := hL i j hij
        have : zeroCount (AMat.ofFn fun i j => D.get i j + if L.get i j = true then k else 0) < zeroCount D := by
          unfold zeroCount
          apply filter_length_lt _ _ _ _ (i, j) (mem_cells i j)
          · simp [hd0]
          · simp only [AMat.get_ofFn, hij, if_true, hd0, zero_add, beq_eq_false_iff_ne]
            omega
          · intro p hp
            simp only [AMat.get_ofFn, beq_iff_eq] at hp ⊢
            omega
        omega
    · rw [if_neg hany]; rfl

theorem zeroCount_le (D : AMat ℕ n) : zeroCount D ≤ n * n := by
  unfold zeroCount
  have h1 : (cells n).length = n * n := by simp [cells, List.length_flatMap]
  have := List.length_filter_le (fun p : Fin n × Fin n => D.get p.1 p.2 == 0) (cells n)
  omega

theorem filter_length_mono {α : Type} (p q : α → Bool) (hpq : ∀ x, p x = true → q x = true) :
    ∀ l : List α, (l.filter p).length ≤ (l.filter q).length := by
  intro l
  induction l with
  | nil => simp
  | cons z l ih =>
    simp only [List.filter_cons]
    by_cases hpz : p z = true
    · simp only [hpz, hpq z hpz, if_true, List.length_cons]; omega
    · simp only [hpz, Bool.false_eq_true, if_false]
      split_ifs
      · simp only [List.length_cons]; omega
      · exact ih

/-- without the invariant on `L` (first pass, where a self-loop may be selected although `D = 1` there) -/
theorem binLoop_isSome' (G : AMat ℕ n) (fuel k : ℕ) (nP D : AMat ℕ n) (L : AMat Bool n)
    (hk : 1 ≤ k) (h : zeroCount D + 1 < fuel) : (binLoop G fuel k nP D L).isSome = true := by
  cases fuel with
  | zero => omega
  | succ fuel =>
    simp only [binLoop]
    by_cases hany : anyTrue L = true
    · rw [if_pos hany]
      apply binLoop_isSome
      · omega
      · intro i j hl
        simp only [AMat.get_ofFn, Bool.and_eq_true, beq_iff_eq] at hl
        simpa using hl.2
      · have : zeroCount (AMat.ofFn fun i j => D.get i j + if L.get i j = true then k else 0) ≤ zeroCount D := by
          unfold zeroCount
          apply filter_length_mono
          intro p hp
          simp only [AMat.get_ofFn, beq_iff_eq] at hp ⊢
          omega
        omega
    · rw [if_neg hany]; rfl

theorem binRaw_isSome (G : AMat ℕ n) : (binRaw G).isSome = true := by
  unfold binRaw
  apply binLoop_isSome'
  · omega
  · have := zeroCount_le (AMat.ofFn fun i j => if i = j then 1 else 0 : AMat ℕ n)
    omega

/-- the model of `distance_bin` always returns -/
theorem distBin_isSome (A : AMat Rat n) : (distBin A).isSome = true := by
  unfold distBin
  rw [Option.isSome_map]
  exact binRaw_isSome _

end Bct.Dist
