import BctVerif.Lemmas.MeasuresPartition
import BctVerif.Props.C18
/-!
# `pagerank_centrality` (executable model of the C18 slice: exact Gaussian elimination + certificate) is equivariant

By `C18.pagerank_unique` the returned vector is the only solution of `r = d·A·D⁻¹·r + (1-d)·f` (non-negative weights,
no empty column, `0 ≤ d < 1`); the renumbered solution solves the renumbered equation, hence is what the model returns
for the renumbered matrix and prior.
-/
namespace Bct.Measures
open Bct Bct.Walks Finset

variable {n : Nat} (σ : Equiv.Perm (Fin n))

theorem prior_perm_get (f : Option (Vector Int n)) (nf nf' : QVec n)
    (h : prior f = .ok nf) (h' : prior (f.map (permVec σ)) = .ok nf') (i : Fin n) : nf'[i] = nf[σ i] := by
  cases f with
  | none =>
    simp only [Option.map_none, prior] at h h'
    split_ifs at h h'
    rw [← Except.ok.inj h, ← Except.ok.inj h']; simp
  | some g =>
    simp only [Option.map_some, prior] at h h'
    have hs : (Walks.fsum fun i : Fin n => (((permVec σ g)[i] : Int) : Rat)) = Walks.fsum fun i : Fin n => ((g[i] : Int) : Rat) := by
      rw [Walks.fsum_eq, Walks.fsum_eq]
      simp only [permVec_getElem]
      exact Equiv.sum_comp σ (fun i => ((g[i] : Int) : Rat))
    rw [hs] at h'
    split_ifs at h h'
    rw [← Except.ok.inj h, ← Except.ok.inj h']; simp

/-- both runs return, weights non-negative, no empty column, `0 ≤ d < 1`  ⇒  the PageRank vector is renumbered -/
theorem pagerank_perm (A : QMat n) (d : Rat) (f : Option (Vector Int n)) (o o' : PrOut n)
    (h : pagerank A d f = .ok o) (h' : pagerank (permA σ A) d (f.map (permVec σ)) = .ok o')
    (hA : ∀ i j, 0 ≤ A.get i j) (hdeg : ∀ j, ∑ i, A.get i j ≠ 0) (hd0 : 0 ≤ d) (hd1 : d < 1) :
    o'.r = permVec σ o.r := by
  have hcol : ∀ j, ∑ l, (permA σ A).get l j = ∑ l, A.get l (σ j) := by
    intro j
    simp only [permA_get]
    exact Equiv.sum_comp σ (fun l => A.get l (σ j))
  have hdeg' : ∀ j, ∑ i, (permA σ A).get i j ≠ 0 := fun j => by rw [hcol]; exact hdeg (σ j)
  have hA' : ∀ i j, 0 ≤ (permA σ A).get i j := fun i j => by simpa using hA (σ i) (σ j)
  have hf : ∀ i : Fin n, o'.f[i] = o.f[σ i] := prior_perm_get σ f o.f o'.f (pagerank_ok h).1 (pagerank_ok h').1
  have heq := C18.pagerank_eq A d f o h hdeg (ne_of_lt hd1)
  have key := C18.pagerank_unique (permA σ A) d (f.map (permVec σ)) o' h' hA' hdeg' hd0 hd1 (fun i => o.r[σ i]) (by
    intro i
    rw [heq (σ i), hf i]
    congr 2
    rw [← Equiv.sum_comp σ]
    apply Finset.sum_congr rfl
    intro j _
    rw [hcol]; simp)
  apply vec_ext; intro i
  have := key i
  rw [permVec_get]
  simp only [vget]
  exact this.symm

end Bct.Measures

namespace Bct.Measures
open Bct Bct.Walks Finset

variable {n : Nat} (σ : Equiv.Perm (Fin n))

/-! ### PageRank, unconditional on the routine's domain (C18: the model returns, and what it returns is the unique solution) -/

theorem colDeg_perm (A : QMat n) (j : Fin n) : colDeg (permA σ A) j = colDeg A (σ j) := by
  simp only [colDeg, permA_get]
  have : (Walks.fsum fun i => A.get (σ i) (σ j)) = Walks.fsum fun i => A.get i (σ j) := fsum_congr_perm σ _ _ (fun _ => rfl)
  rw [this]

theorem prMat_perm' (A : QMat n) (d : Rat) : prMat (permA σ A) d = permA σ (prMat A d) := by
  apply AMat.ext_get; intro i j
  simp [prMat, colDeg_perm, delta]

/-- non-negative weights, `0 ≤ d < 1`, no prior or a non-negative prior with non-zero sum (renumbered with the graph):
the model returns for both numberings and the PageRank vectors correspond -/
theorem pagerank_perm_total (A : QMat n) (d : Rat) (f : Option (Vector Int n)) (hn : 0 < n)
    (hA : ∀ i j, 0 ≤ A.get i j) (hd0 : 0 ≤ d) (hd1 : d < 1)
    (hf : ∀ g, f = some g → (∀ i : Fin n, 0 ≤ g[i]) ∧ ∑ i : Fin n, (g[i] : ℚ) ≠ 0) :
    ∃ o o', pagerank A d f = .ok o ∧ pagerank (permA σ A) d (f.map (permVec σ)) = .ok o' ∧ o'.r = permVec σ o.r := by
  have hA' : ∀ i j, 0 ≤ (permA σ A).get i j := fun i j => by simpa using hA (σ i) (σ j)
  have hf' : ∀ g, f.map (permVec σ) = some g → (∀ i : Fin n, 0 ≤ g[i]) ∧ ∑ i : Fin n, (g[i] : ℚ) ≠ 0 := by
    intro g hg
    cases f with
    | none => simp at hg
    | some g0 =>
      simp only [Option.map_some, Option.some.injEq] at hg
      subst hg
      obtain ⟨h1, h2⟩ := hf g0 rfl
      refine ⟨fun i => by simpa using h1 (σ i), ?_⟩
      simp only [permVec_getElem]
      rw [Equiv.sum_comp σ (fun i => ((g0[i] : Int) : ℚ))]
      exact h2
  obtain ⟨o, h⟩ := C18.pagerank_total A d f hn hA hd0 hd1 hf
  obtain ⟨o', h'⟩ := C18.pagerank_total (permA σ A) d (f.map (permVec σ)) hn hA' hd0 hd1 hf'
  refine ⟨o, o', h, h', ?_⟩
  have hfp : ∀ i : Fin n, o'.f[i] = o.f[σ i] := prior_perm_get σ f o.f o'.f (pagerank_ok h).1 (pagerank_ok h').1
  -- the renumbered solution of the original system solves the renumbered system
  have hsol := (solves_iff _ _ _).mp (pagerank_ok h).2.1
  have key := C18.pagerank_model_is_solution (permA σ A) d (f.map (permVec σ)) o' h' hA' hd0 hd1 (fun i => o.r0[σ i]) (by
    ext i
    have := hsol (σ i)
    simp only [Matrix.mulVec, dotProduct, toMat_apply, prMat_perm', permA_get, hfp]
    simp only [Fin.getElem_fin, Vector.getElem_ofFn] at this
    have e := Equiv.sum_comp σ (fun x => AMat.get (prMat A d) (σ i) x * o.r0[x])
    rw [e]
    simpa using this)
  have hs : Walks.fsum (fun i : Fin n => o'.r0[i]) = Walks.fsum fun i : Fin n => o.r0[i] := by
    rw [Walks.fsum_eq, Walks.fsum_eq, ← Equiv.sum_comp σ (fun i => o.r0[i])]
    exact Finset.sum_congr rfl (fun i _ => (key i).symm)
  apply vec_ext; intro i
  rw [permVec_get]
  have e1 : vget o'.r i = o'.r0[i] / Walks.fsum fun i : Fin n => o'.r0[i] := by
    rw [(pagerank_ok h').2.2.2]; simp [vget]
  have e2 : vget o.r (σ i) = o.r0[σ i] / Walks.fsum fun i : Fin n => o.r0[i] := by
    rw [(pagerank_ok h).2.2.2]; simp [vget]
  rw [e1, e2, hs, ← key i]

/-! ### subgraph centrality: the series `Σ_{m<T} (A^m)_{ii}/m!` that the C18 slice executes (`expDiag`) -/

theorem wfsum_eq_fsum (f : Fin n → Rat) : Walks.fsum f = Measures.fsum f := rfl
theorem isum_eq_fsum (f : Fin n → Int) : Walks.isum f = Measures.fsum f := rfl

theorem mulI_perm (A B : AMat Int n) : mulI (permA σ A) (permA σ B) = permA σ (mulI A B) := by
  apply AMat.ext_get; intro i j
  simp only [mulI, AMat.get_ofFn, permA_get, isum_eq_fsum]
  exact fsum_congr_perm σ _ _ (fun _ => rfl)

theorem idI_perm : idI n = permA σ (idI n) := by
  apply AMat.ext_get; intro i j; simp [idI]

theorem expDiagLoop_perm (A : AMat Int n) (T m : Nat) (P : AMat Int n) (acc : QVec n) :
    expDiagLoop (permA σ A) T m (permA σ P) (permVec σ acc) = permVec σ (expDiagLoop A T m P acc) := by
  induction T generalizing m P acc with
  | zero => rfl
  | succ T ih =>
    simp only [expDiagLoop, mulI_perm]
    have h : (Vector.ofFn fun i => (permVec σ acc)[i] + (((permA σ P).get i i : Int) : Rat) / (fact m : Rat)) =
        permVec σ (Vector.ofFn fun i => acc[i] + ((P.get i i : Int) : Rat) / (fact m : Rat)) := by
      apply vec_ext; intro i; simp [vget]
    rw [h, ih]

theorem expDiag_perm (A : AMat Int n) (T : Nat) : expDiag (permA σ A) T = permVec σ (expDiag A T) := by
  unfold expDiag
  have h := expDiagLoop_perm σ A T 0 (idI n) (Vector.ofFn fun _ => 0)
  have hz : permVec σ (Vector.ofFn fun _ : Fin n => (0 : Rat)) = Vector.ofFn fun _ => 0 := by
    apply vec_ext; intro i; simp
  rw [← idI_perm σ, hz] at h
  exact h

/-! ### eigenvector centrality: the exact certificate the C18 slice computes for an oracle vector -/

theorem w_mulVecQ_perm (A : AMat Int n) (v : QVec n) (i : Fin n) :
    Walks.mulVecQ (permA σ A) (permVec σ v) i = Walks.mulVecQ A v (σ i) := by
  simp only [Walks.mulVecQ, wfsum_eq_fsum, permA_get, permVec_getElem]
  exact fsum_congr_perm σ _ _ (fun _ => rfl)

/-- an eigenvector of `A` renumbers to an eigenvector of the renumbered matrix (same eigenvalue) -/
theorem eigvec_perm (A : AMat Int n) (lam : Rat) (v : QVec n) (h : ∀ i : Fin n, Walks.mulVecQ A v i = lam * v[i]) :
    ∀ i : Fin n, Walks.mulVecQ (permA σ A) (permVec σ v) i = lam * (permVec σ v)[i] := by
  intro i; rw [w_mulVecQ_perm, h (σ i), permVec_getElem]

theorem listMin_mem (l : List Rat) (x : Rat) : listMin l x = x ∨ listMin l x ∈ l := by
  induction l generalizing x with
  | nil => left; rfl
  | cons a l ih =>
    have := ih (if a < x then a else x)
    simp only [listMin, List.foldl_cons, List.mem_cons] at this ⊢
    rcases this with h | h
    · rw [h]; split_ifs <;> simp
    · right; right; exact h

theorem listMax_mem (l : List Rat) (x : Rat) : listMax l x = x ∨ listMax l x ∈ l := by
  induction l generalizing x with
  | nil => left; rfl
  | cons a l ih =>
    have := ih (if x < a then a else x)
    simp only [listMax, List.foldl_cons, List.mem_cons] at this ⊢
    rcases this with h | h
    · rw [h]; split_ifs <;> simp
    · right; right; exact h

theorem listMin_perm (f : Fin n → Rat) (i0 : Fin n) (rest : List (Fin n)) (hfr : List.finRange n = i0 :: rest) :
    listMin (rest.map fun i => f (σ i)) (f (σ i0)) = listMin (rest.map f) (f i0) := by
  have hmem : ∀ i : Fin n, i = i0 ∨ i ∈ rest := by
    intro i
    have : i ∈ List.finRange n := List.mem_finRange i
    rw [hfr] at this
    exact List.mem_cons.mp this
  have lo : ∀ (g : Fin n → Rat) (i : Fin n), listMin (rest.map g) (g i0) ≤ g i := by
    intro g i
    rcases hmem i with rfl | hi
    · exact (listMin_le _ _).1
    · exact (listMin_le _ _).2 _ (List.mem_map.mpr ⟨i, hi, rfl⟩)
  have att : ∀ g : Fin n → Rat, ∃ i, listMin (rest.map g) (g i0) = g i := by
    intro g
    rcases listMin_mem (rest.map g) (g i0) with h | h
    · exact ⟨i0, h⟩
    · obtain ⟨i, _, hi⟩ := List.mem_map.mp h; exact ⟨i, hi.symm⟩
  apply le_antisymm
  · obtain ⟨i, hi⟩ := att f
    rw [hi]
    have := lo (fun i => f (σ i)) (σ.symm i)
    simpa using this
  · obtain ⟨i, hi⟩ := att (fun i => f (σ i))
    rw [hi]
    exact lo f (σ i)

theorem listMax_perm (f : Fin n → Rat) (i0 : Fin n) (rest : List (Fin n)) (hfr : List.finRange n = i0 :: rest) :
    listMax (rest.map fun i => f (σ i)) (f (σ i0)) = listMax (rest.map f) (f i0) := by
  have hmem : ∀ i : Fin n, i = i0 ∨ i ∈ rest := by
    intro i
    have : i ∈ List.finRange n := List.mem_finRange i
    rw [hfr] at this
    exact List.mem_cons.mp this
  have hi' : ∀ (g : Fin n → Rat) (i : Fin n), g i ≤ listMax (rest.map g) (g i0) := by
    intro g i
    rcases hmem i with rfl | hi
    · exact (le_listMax _ _).1
    · exact (le_listMax _ _).2 _ (List.mem_map.mpr ⟨i, hi, rfl⟩)
  have att : ∀ g : Fin n → Rat, ∃ i, listMax (rest.map g) (g i0) = g i := by
    intro g
    rcases listMax_mem (rest.map g) (g i0) with h | h
    · exact ⟨i0, h⟩
    · obtain ⟨i, _, hi⟩ := List.mem_map.mp h; exact ⟨i, hi.symm⟩
  apply le_antisymm
  · obtain ⟨i, hi⟩ := att (fun i => f (σ i))
    rw [hi]
    exact hi' f (σ i)
  · obtain ⟨i, hi⟩ := att f
    rw [hi]
    have := hi' (fun i => f (σ i)) (σ.symm i)
    simpa using this

/-- every quantity of the certificate (‖v‖², Rayleigh quotient, squared residual, min v, Collatz–Wielandt bounds) is
unchanged when matrix and oracle vector are renumbered together -/
theorem eigCert_perm (A : AMat Int n) (v : QVec n) : eigCert (permA σ A) (permVec σ v) = eigCert A v := by
  unfold eigCert
  cases hfr : List.finRange n with
  | nil => rfl
  | cons i0 rest =>
    simp only [permVec_getElem, w_mulVecQ_perm, wfsum_eq_fsum]
    have h1 : (Measures.fsum fun i : Fin n => v[σ i] * v[σ i]) = Measures.fsum fun i : Fin n => v[i] * v[i] :=
      fsum_congr_perm σ _ _ (fun _ => rfl)
    have h2 : (Measures.fsum fun i : Fin n => v[σ i] * Walks.mulVecQ A v (σ i)) = Measures.fsum fun i : Fin n => v[i] * Walks.mulVecQ A v i :=
      fsum_congr_perm σ _ _ (fun _ => rfl)
    have h3 : ∀ r : Rat, (Measures.fsum fun i : Fin n => (Walks.mulVecQ A v (σ i) - r * v[σ i]) * (Walks.mulVecQ A v (σ i) - r * v[σ i])) =
        Measures.fsum fun i : Fin n => (Walks.mulVecQ A v i - r * v[i]) * (Walks.mulVecQ A v i - r * v[i]) :=
      fun r => fsum_congr_perm σ _ _ (fun _ => rfl)
    have h4 := listMin_perm σ (fun i => v[i]) i0 rest hfr
    have h5 := listMin_perm σ (fun i => Walks.mulVecQ A v i / v[i]) i0 rest hfr
    have h6 := listMax_perm σ (fun i => Walks.mulVecQ A v i / v[i]) i0 rest hfr
    beta_reduce at h4 h5 h6
    rw [h1, h2]
    simp only [h3, h4, h5, h6]

end Bct.Measures
