import BctVerif.Model.Dist
import Mathlib.Order.WithBot
import Mathlib.Algebra.Order.Monoid.WithTop
import Mathlib.Algebra.Order.Field.Rat
import Mathlib.Tactic

/-!
# Distance specification and the certificate ("hub") lemma

`Len = WithTop ℚ` is the proof-side view of the model's `Ext`.  A walk from `i` is the list `p` of the vertices
visited after `i`; `walkLen L i p` is its total length, `walkEnd i p` its last vertex.
`IsDist L D` : `D` is a lower bound for every walk and every finite entry is attained by a walk.
-/
namespace Bct.Dist

abbrev Len := WithTop ℚ
abbrev LMat (n : ℕ) := Fin n → Fin n → Len      -- ⊤ = no connection

def Ext.toLen : Ext → Len
  | .fin q => ((q : ℚ) : Len)
  | .inf => ⊤

@[simp] theorem Ext.toLen_fin (q : ℚ) : (Ext.fin q).toLen = (q : Len) := rfl
@[simp] theorem Ext.toLen_inf : Ext.inf.toLen = ⊤ := rfl

theorem Ext.toLen_add (a b : Ext) : (a + b).toLen = a.toLen + b.toLen := by
  cases a <;> cases b <;> simp [Ext.toLen, HAdd.hAdd, Add.add, Ext.add]

theorem Ext.lt_iff (a b : Ext) : Ext.lt a b = true ↔ a.toLen < b.toLen := by
  cases a <;> cases b <;> simp [Ext.lt, Ext.toLen]

theorem Ext.isFin_iff (a : Ext) : a.isFin = true ↔ a.toLen < ⊤ := by
  cases a <;> simp [Ext.isFin, Ext.toLen]

theorem Ext.toLen_injective : Function.Injective Ext.toLen := by
  intro a b h
  cases a <;> cases b <;> simp_all [Ext.toLen]

theorem Ext.eq_inf_iff (a : Ext) : a = .inf ↔ a.toLen = ⊤ := by
  cases a <;> simp [Ext.toLen]

theorem Ext.toLen_min (a b : Ext) : (Ext.min a b).toLen = Min.min a.toLen b.toLen := by
  unfold Ext.min
  by_cases h : Ext.lt b a = true
  · rw [if_pos h]; exact (min_eq_right (le_of_lt ((Ext.lt_iff _ _).mp h))).symm
  · rw [if_neg h]
    have : ¬ b.toLen < a.toLen := fun hh => h ((Ext.lt_iff _ _).mpr hh)
    exact (min_eq_left (not_lt.mp this)).symm

variable {n : ℕ}

/-- function view of an `Ext` matrix -/
def lenFun (A : AMat Ext n) : LMat n := fun i j => (A.get i j).toLen

/-- length of the walk `i :: p` (vertex list), following consecutive vertices -/
def walkLen (L : LMat n) : Fin n → List (Fin n) → Len
  | _, [] => 0
  | i, j :: p => L i j + walkLen L j p

/-- last vertex of the walk `i :: p` -/
def walkEnd : Fin n → List (Fin n) → Fin n
  | i, [] => i
  | _, j :: p => walkEnd j p

structure IsDist (L : LMat n) (D : LMat n) : Prop where
  lower : ∀ i p, D i (walkEnd i p) ≤ walkLen L i p
  attained : ∀ i j, D i j < ⊤ → ∃ p, walkEnd i p = j ∧ walkLen L i p = D i j

/-- certificate hub for one source `s`: `d s ≤ 0` and edge feasibility ⇒ `d` is a lower bound on every walk from `s` -/
theorem lower_of_feasible_row (L : LMat n) (d : Fin n → Len) (s : Fin n) (h0 : d s ≤ 0)
    (hf : ∀ k j, d j ≤ d k + L k j) :
    ∀ p, d (walkEnd s p) ≤ walkLen L s p := by
  have gen : ∀ (p : List (Fin n)) (i : Fin n), d (walkEnd i p) ≤ d i + walkLen L i p := by
    intro p
    induction p with
    | nil => intro i; simp [walkEnd, walkLen]
    | cons j p ih =>
      intro i
      simp only [walkEnd, walkLen]
      calc d (walkEnd j p) ≤ d j + walkLen L j p := ih j
        _ ≤ (d i + L i j) + walkLen L j p := by gcongr; exact hf i j
        _ = d i + (L i j + walkLen L j p) := by rw [add_assoc]
  intro p
  calc d (walkEnd s p) ≤ d s + walkLen L s p := gen p s
    _ ≤ 0 + walkLen L s p := by gcongr
    _ = walkLen L s p := by simp

/-- certificate hub: zero diagonal + edge feasibility ⇒ `D` is a lower bound on every walk -/
theorem lower_of_feasible (L D : LMat n) (h0 : ∀ i, D i i ≤ 0)
    (hf : ∀ i k j, D i j ≤ D i k + L k j) :
    ∀ i p, D i (walkEnd i p) ≤ walkLen L i p :=
  fun i p => lower_of_feasible_row L (D i) i (h0 i) (hf i) p

theorem isDist_unique (L D D' : LMat n) (h : IsDist L D) (h' : IsDist L D') : D = D' := by
  funext i j
  apply le_antisymm
  · by_cases hj : D' i j < ⊤
    · obtain ⟨p, hp, hl⟩ := h'.attained i j hj
      rw [← hl, ← hp]; exact h.lower i p
    · simp only [not_lt, top_le_iff] at hj; rw [hj]; exact le_top
  · by_cases hj : D i j < ⊤
    · obtain ⟨p, hp, hl⟩ := h.attained i j hj
      rw [← hl, ← hp]; exact h'.lower i p
    · simp only [not_lt, top_le_iff] at hj; rw [hj]; exact le_top

theorem walkLen_append (L : LMat n) : ∀ (p q : List (Fin n)) (i : Fin n),
    walkLen L i (p ++ q) = walkLen L i p + walkLen L (walkEnd i p) q := by
  intro p
  induction p with
  | nil => intro q i; simp [walkLen, walkEnd]
  | cons a p ih => intro q i; simp [walkLen, walkEnd, ih, add_assoc]

theorem walkEnd_append : ∀ (p q : List (Fin n)) (i : Fin n),
    walkEnd i (p ++ q) = walkEnd (walkEnd i p) q := by
  intro p
  induction p with
  | nil => intro q i; simp [walkEnd]
  | cons a p ih => intro q i; simp [walkEnd, ih]

/-- an `IsDist` matrix is infinite exactly on the pairs not joined by a walk along existing connections -/
theorem IsDist.eq_top_iff {L D : LMat n} (h : IsDist L D) (i j : Fin n) :
    D i j = ⊤ ↔ ¬ ∃ p, walkEnd i p = j ∧ walkLen L i p < ⊤ := by
  constructor
  · rintro e ⟨p, hp, hl⟩
    have := h.lower i p
    rw [hp, e] at this
    exact absurd hl (not_lt.mpr this)
  · intro hno
    by_contra hne
    have hfin : D i j < ⊤ := lt_top_iff_ne_top.mpr hne
    obtain ⟨p, hp, hl⟩ := h.attained i j hfin
    exact hno ⟨p, hp, by rw [hl]; exact hfin⟩

end Bct.Dist
