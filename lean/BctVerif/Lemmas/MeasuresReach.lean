import BctVerif.Lemmas.MeasuresDistX
/-!
# `reachdist` (executable model of the C03 slice) is equivariant, diagonal included
(direct induction on the `reachdist2` recursion; the C03 specification covers only the off-diagonal cells)
-/
namespace Bct.Measures
open Bct Bct.Dist

variable {n : Nat} (σ : Equiv.Perm (Fin n))

theorem boolMul_perm (X Y : AMat Nat n) : boolMul (permA σ X) (permA σ Y) = permA σ (boolMul X Y) := by
  apply AMat.ext_get; intro i j
  simp only [boolMul, AMat.get_ofFn, permA_get]
  rw [foldl_finRange_perm σ (fun acc k => acc + X.get (σ i) k * Y.get k (σ j)) (fun z x y => by ring) 0]

theorem binarize_perm (A : AMat Rat n) : Dist.binarize (permA σ A) = permA σ (Dist.binarize A) := by
  apply AMat.ext_get; intro i j; simp [Dist.binarize]

theorem inDeg_perm (C : AMat Nat n) (j : Fin n) : inDeg (permA σ C) j = inDeg C (σ j) := by
  simp only [inDeg, permA_get]
  exact foldl_finRange_perm σ (fun a i => a + C.get i (σ j)) (fun z x y => by ring) 0

theorem outDeg_perm (C : AMat Nat n) (i : Fin n) : outDeg (permA σ C) i = outDeg C (σ i) := by
  simp only [outDeg, permA_get]
  exact foldl_finRange_perm σ (fun a j => a + C.get (σ i) j) (fun z x y => by ring) 0

def permR (s : RSt n) : RSt n := ⟨permA σ s.Cp, permA σ s.R, permA σ s.D⟩

theorem reachStep_perm (C : AMat Nat n) (s : RSt n) : reachStep (permA σ C) (permR σ s) = permR σ (reachStep C s) := by
  simp only [reachStep, permR, boolMul_perm]
  congr 1
  · apply AMat.ext_get; intro i j; simp
  · apply AMat.ext_get; intro i j; simp

theorem reachGo_perm (C : AMat Nat n) (rows cols rows' cols' : List (Fin n))
    (H : ∀ g : Fin n → Fin n → Bool, (rows'.any fun i => cols'.any fun j => g (σ i) (σ j)) = rows.any fun i => cols.any fun j => g i j)
    (rem powr : Nat) (s : RSt n) :
    reachGo (permA σ C) rows' cols' rem powr (permR σ s) = (permR σ (reachGo C rows cols rem powr s).1, (reachGo C rows cols rem powr s).2) := by
  induction rem generalizing powr s with
  | zero => simp [reachGo, reachStep_perm]
  | succ r ih =>
    simp only [reachGo, reachStep_perm]
    have hc : (rows'.any fun i => cols'.any fun j => !((permR σ (reachStep C s)).R.get i j)) =
        rows.any fun i => cols.any fun j => !((reachStep C s).R.get i j) := by
      have := H (fun i j => !((reachStep C s).R.get i j))
      simpa [permR] using this
    rw [hc]
    split
    · exact ih _ _
    · rfl

theorem any_filter_perm (p q : Fin n → Bool) (g : Fin n → Fin n → Bool) :
    (((List.finRange n).filter fun i => p (σ i)).any fun i => ((List.finRange n).filter fun j => q (σ j)).any fun j => g (σ i) (σ j)) =
      ((List.finRange n).filter p).any fun i => ((List.finRange n).filter q).any fun j => g i j := by
  simp only [List.any_filter]
  have inner : ∀ a, ((List.finRange n).any fun b => q (σ b) && g (σ a) (σ b)) = (List.finRange n).any fun b => q b && g (σ a) b :=
    fun a => any_finRange_perm σ (fun b => q b && g (σ a) b)
  simp only [inner]
  exact any_finRange_perm σ (fun a => p a && (List.finRange n).any fun b => q b && g a b)

theorem reachdist_perm_full (A : AMat Rat n) :
    Dist.reachdist (permA σ A) = (permA σ (Dist.reachdist A).1, permA σ (Dist.reachdist A).2) := by
  unfold Dist.reachdist
  simp only [binarize_perm, inDeg_perm, outDeg_perm]
  have hR : (AMat.ofFn fun i j => (permA σ (Dist.binarize A)).get i j != 0 : AMat Bool n) =
      permA σ (AMat.ofFn fun i j => (Dist.binarize A).get i j != 0) := by
    apply AMat.ext_get; intro i j; simp
  rw [hR]
  have key := reachGo_perm σ (Dist.binarize A)
    ((List.finRange n).filter fun i => outDeg (Dist.binarize A) i != 0)
    ((List.finRange n).filter fun j => inDeg (Dist.binarize A) j != 0)
    ((List.finRange n).filter fun i => outDeg (Dist.binarize A) (σ i) != 0)
    ((List.finRange n).filter fun j => inDeg (Dist.binarize A) (σ j) != 0)
    (fun g => any_filter_perm σ (fun i => outDeg (Dist.binarize A) i != 0) (fun j => inDeg (Dist.binarize A) j != 0) g)
    (n - 1) 2 ⟨Dist.binarize A, AMat.ofFn fun i j => (Dist.binarize A).get i j != 0, Dist.binarize A⟩
  simp only [permR] at key
  rw [key]
  simp only [Prod.mk.injEq, true_and]
  apply AMat.ext_get; intro i j; simp

end Bct.Measures
