import BctVerif.Lemmas.BetweenDist
import Mathlib.Data.Set.Card
import Mathlib.Algebra.BigOperators.Group.Finset.Basic
import Mathlib.Algebra.BigOperators.Fin

/-!
# `sigma` counts the minimum-length walks (C08)
-/
namespace Bct.Between
open Bct

variable {n : ℕ} (L : AMat Nat n)

/-- `p` is a minimum-length walk from `s` to `t` -/
def IsMin (s t : Fin n) (p : List (Fin n)) : Prop :=
  IsWalk L s p ∧ wend s p = t ∧ ∀ q, IsWalk L s q → wend s q = t → wlen L s p ≤ wlen L s q

/-- the set of all minimum-length walks from `s` to `t` -/
def MinW (s t : Fin n) : Set (List (Fin n)) := {p | IsMin L s t p}

theorem isMin_iff_dist (s t : Fin n) (p : List (Fin n)) :
    IsMin L s t p ↔ IsWalk L s p ∧ wend s p = t ∧ (dist L).get s t = some (wlen L s p) := by
  have hD := dist_isDist L s t
  simp only at hD
  constructor
  · rintro ⟨hw, he, hm⟩
    refine ⟨hw, he, ?_⟩
    cases h : (dist L).get s t with
    | none => exact absurd he (hD.1 h p hw)
    | some d =>
      obtain ⟨⟨q, hq, hqe, hql⟩, hlow⟩ := hD.2 d h
      have h1 := hlow p hw he
      have h2 := hm q hq hqe
      congr 1; omega
  · rintro ⟨hw, he, hd⟩
    exact ⟨hw, he, fun q hq hqe => (hD.2 _ hd).2 q hq hqe⟩

theorem isMin_nil (s t : Fin n) : IsMin L s t [] ↔ s = t := by
  constructor
  · rintro ⟨_, he, _⟩; exact he
  · rintro rfl; exact ⟨trivial, rfl, fun q _ _ => Nat.zero_le _⟩

theorem tight_iff (D : DMat n) (s w t : Fin n) :
    tight L D s w t = true ↔
      L.get s w ≠ 0 ∧ ∃ d e, D.get s t = some d ∧ D.get w t = some e ∧ L.get s w + e = d := by
  unfold tight
  cases h1 : D.get s t <;> cases h2 : D.get w t <;> simp
  intro _; exact eq_comm

theorem isMin_cons (s t w : Fin n) (p : List (Fin n)) :
    IsMin L s t (w :: p) ↔ tight L (dist L) s w t = true ∧ IsMin L w t p := by
  rw [isMin_iff_dist, isMin_iff_dist, tight_iff]
  simp only [isWalk_cons, wend_cons, wlen_cons]
  constructor
  · rintro ⟨⟨h1, hw⟩, he, hd⟩
    have hDw := dist_isDist L w t
    simp only at hDw
    have hDs := dist_isDist L s t
    simp only at hDs
    cases h : (dist L).get w t with
    | none => exact absurd he (hDw.1 h p hw)
    | some e =>
      obtain ⟨⟨q, hq, hqe, hql⟩, hlow⟩ := hDw.2 e h
      have h2 := hlow p hw he
      have h3 := (hDs.2 _ hd).2 (w :: q) ⟨h1, hq⟩ hqe
      simp only [wlen_cons] at h3
      have : e = wlen L w p := by omega
      subst this
      exact ⟨⟨h1, _, _, hd, rfl, rfl⟩, hw, he, rfl⟩
  · rintro ⟨⟨h1, d, e, hd, he', hde⟩, hw, he, hdw⟩
    rw [hdw] at he'
    simp only [Option.some.injEq] at he'
    subst he'
    subst hde
    exact ⟨⟨h1, hw⟩, he, hd⟩

/-- minimum-length walks do not repeat a vertex -/
theorem IsMin.nodup {s t : Fin n} {p : List (Fin n)} (h : IsMin L s t p) : (s :: p).Nodup := by
  induction p generalizing s with
  | nil => simp
  | cons w p ih =>
    have h' := (isMin_cons L s t w p).1 h
    have hn := ih h'.2
    refine List.nodup_cons.2 ⟨?_, hn⟩
    intro hs
    obtain ⟨a, b, hab⟩ := List.append_of_mem hs
    obtain ⟨hb, hbe, hbl⟩ := split_at L h'.2.1 hab
    have := h.2.2 b hb (by rw [hbe]; exact h'.2.2.1)
    simp only [wlen_cons] at this
    have h0 := h.1.1
    omega

theorem IsMin.length_lt {s t : Fin n} {p : List (Fin n)} (h : IsMin L s t p) : p.length < n :=
  length_lt_of_nodup (h.nodup L)

/-- minimum-length walks with fewer than `k` steps, as an explicit finite set -/
def minWF : ℕ → Fin n → Fin n → Finset (List (Fin n))
  | 0, _, _ => ∅
  | k + 1, s, t =>
    (if s = t then {[]} else ∅) ∪
      (Finset.univ.filter fun w => tight L (dist L) s w t = true).biUnion
        fun w => (minWF k w t).image (List.cons w)

theorem mem_minWF (k : ℕ) (s t : Fin n) (p : List (Fin n)) :
    p ∈ minWF L k s t ↔ IsMin L s t p ∧ p.length < k := by
  induction k generalizing s p with
  | zero => simp [minWF]
  | succ k ih =>
    cases p with
    | nil =>
      simp only [minWF, Finset.mem_union, Finset.mem_biUnion, Finset.mem_image, isMin_nil]
      constructor
      · rintro (h | ⟨w, _, q, _, hq⟩)
        · by_cases e : s = t
          · exact ⟨e, by simp⟩
          · simp [e] at h
        · exact absurd hq (by simp)
      · rintro ⟨e, _⟩; left; simp [e]
    | cons w p =>
      simp only [minWF, Finset.mem_union, Finset.mem_biUnion, Finset.mem_image, isMin_cons,
        Finset.mem_filter, Finset.mem_univ, true_and, List.length_cons]
      constructor
      · rintro (h | ⟨w', hw', q, hq, hqe⟩)
        · by_cases e : s = t <;> simp [e] at h
        · simp only [List.cons.injEq] at hqe
          obtain ⟨rfl, rfl⟩ := hqe
          have := (ih w' q).1 hq
          exact ⟨⟨hw', this.1⟩, by omega⟩
      · rintro ⟨⟨ht, hm⟩, hl⟩
        right
        exact ⟨w, ht, p, (ih w p).2 ⟨hm, by omega⟩, rfl⟩

theorem sumFin_eq_sum {α : Type} [AddCommMonoid α] (f : Fin n → α) : sumFin f = ∑ i, f i := by
  unfold sumFin
  rw [Fin.sum_univ_def]

theorem card_minWF (k : ℕ) (s t : Fin n) :
    (minWF L k s t).card = (iter (sigStep L (dist L)) k (AMat.ofFn fun _ _ => 0)).get s t := by
  induction k generalizing s with
  | zero => simp [minWF]
  | succ k ih =>
    simp only [minWF, iter_succ]
    rw [Finset.card_union_of_disjoint, Finset.card_biUnion]
    · simp only [sigStep, AMat.get_ofFn, sumFin_eq_sum]
      congr 1
      · by_cases e : s = t <;> simp [e]
      · rw [Finset.sum_filter]
        refine Finset.sum_congr rfl fun w _ => ?_
        by_cases ht : tight L (dist L) s w t = true
        · simp only [ht, if_true]
          rw [Finset.card_image_of_injective _ (List.cons_injective), ih]
        · simp [ht]
    · intro a _ b _ hab
      simp only [Function.onFun]
      rw [Finset.disjoint_left]
      intro x hx hx'
      simp only [Finset.mem_image] at hx hx'
      obtain ⟨q, _, rfl⟩ := hx
      obtain ⟨q', _, hq'⟩ := hx'
      simp only [List.cons.injEq] at hq'
      exact hab hq'.1.symm
    · rw [Finset.disjoint_left]
      intro x hx hx'
      simp only [Finset.mem_biUnion, Finset.mem_image] at hx'
      obtain ⟨w, _, q, _, rfl⟩ := hx'
      by_cases e : s = t <;> simp [e] at hx

theorem minW_eq_minWF (s t : Fin n) : MinW L s t = ↑(minWF L n s t) := by
  ext p
  simp only [MinW, Set.mem_ofPred_eq, Finset.mem_coe, mem_minWF]
  exact ⟨fun h => ⟨h, h.length_lt L⟩, fun h => h.1⟩

theorem minW_finite (s t : Fin n) : (MinW L s t).Finite := by
  rw [minW_eq_minWF]; exact Finset.finite_toSet _

/-- `sigma` is the number of minimum-length walks -/
theorem sigma_eq_ncard (s t : Fin n) : (sigma L).get s t = (MinW L s t).ncard := by
  rw [minW_eq_minWF, Set.ncard_coe_finset, card_minWF]
  rfl

end Bct.Between
