import BctVerif.Lemmas.DistFloyd

/-!
# From the function-level Floyd invariants to the executable model `Bct.Dist.floyd`

`toFS` maps the `Vector`-backed state to its function view; `toFS_fStage`, `toFS_fInit`, `toFS_fFinal` are the
refinement lemmas; `floyd_spec` collects everything that is true of the model's output.
-/
namespace Bct.Dist
variable {n : ℕ}

/-! ## invariant Z and the fold over all stages -/

/-- infinite entries carry hop count 0 -/
def ZInv (s : FS n) : Prop := ∀ i j, s.D i j = ⊤ → s.hops i j = 0

theorem zinv_step (s : FS n) (k : Fin n) (h : ZInv s) : ZInv (stageP s k) := by
  intro i j hinf
  simp only [stageP] at hinf ⊢
  by_cases hu : s.D i k + s.D k j < s.D i j
  · rw [if_pos hu] at hinf
    rw [hinf] at hu
    exact absurd hu not_top_lt
  · rw [if_neg hu] at hinf ⊢; exact h i j hinf

theorem zinv_fold : ∀ (ks : List (Fin n)) (s : FS n), ZInv s → ZInv (ks.foldl stageP s) := by
  intro ks
  induction ks with
  | nil => intro s h; simpa using h
  | cons k ks ih => intro s h; simpa using ih _ (zinv_step s k h)

theorem pinv_fold (L : LMat n) (hL : ∀ i j, 0 ≤ L i j) : ∀ (ks : List (Fin n)) (s : FS n) (S : Fin n → Prop),
    PInv L s S → PInv L (ks.foldl stageP s) (fun k => S k ∨ k ∈ ks) := by
  intro ks
  induction ks with
  | nil => intro s S h; simpa using h
  | cons m ks ih =>
    intro s S h
    have := ih (stageP s m) (fun k => S k ∨ k = m) (pinv_step L hL s S m h)
    simp only [List.foldl_cons]
    have e : (fun k => (S k ∨ k = m) ∨ k ∈ ks) = (fun k => S k ∨ k ∈ m :: ks) := by
      funext k; simp only [List.mem_cons, eq_iff_iff]; tauto
    rw [← e]; exact this

/-- initial state: `SPL = L`, `hops = (L finite)`, `Pmat i j = j` -/
def initFS (L : LMat n) : FS n where
  D := L
  hops := fun i j => if L i j < ⊤ then 1 else 0
  P := fun _ j => j

theorem pinv_init (L : LMat n) (hL : ∀ i j, 0 ≤ L i j) : PInv L (initFS L) (fun _ => False) where
  fw := fwInv_init L hL
  G := fun _ _ => Or.inl rfl
  E := by
    intro i j hij hfin
    simp only [initFS] at hfin
    simp [initFS, D0, H0, hfin, Ne.symm hij]

theorem zinv_init (L : LMat n) : ZInv (initFS L) := by
  intro i j h
  simp only [initFS] at h ⊢
  simp [h]

/-- `SPL[I] = 0; hops[I] = 0; Pmat[I] = 0` -/
def finalFS (s : FS n) : FS n where
  D := fun i j => if i = j then 0 else s.D i j
  hops := fun i j => if i = j then 0 else s.hops i j
  P := fun i j => if i = j then ⟨0, i.pos⟩ else s.P i j

/-- what the theorems of C03 / C12 need to know about the output of `distance_wei_floyd` -/
structure FloydSpec (L : LMat n) (r : FS n) : Prop where
  isDist : IsDist L r.D
  diagD : ∀ i, r.D i i = 0
  diagH : ∀ i, r.hops i i = 0
  next : ∀ i j, i ≠ j → r.D i j < ⊤ →
    r.D i j = L i (r.P i j) + r.D (r.P i j) j ∧ r.hops i j = 1 + r.hops (r.P i j) j
  zero : ∀ i j, r.D i j = ⊤ → r.hops i j = 0

/-- final step of distance_wei_floyd: the diagonal is overwritten with 0 -/
def zeroDiag (D : LMat n) : LMat n := fun i j => if i = j then 0 else D i j

theorem isDist_of_fwInv (L D : LMat n) (hL : ∀ i j, 0 ≤ L i j) (inv : FwInv L D (fun _ => True)) :
    IsDist L (zeroDiag D) := by
  have tri : ∀ k i j, D i j ≤ D i k + D k j := fun k => inv.tri k trivial
  constructor
  · apply lower_of_feasible
    · intro i; simp [zeroDiag]
    · intro i k j
      simp only [zeroDiag]
      by_cases hij : i = j
      · simp only [hij, if_true]
        split_ifs
        · exact add_nonneg (le_refl _) (hL _ _)
        · exact add_nonneg (inv.nonneg _ _) (hL _ _)
      · simp only [hij, if_false]
        by_cases hik : i = k
        · subst hik; simp only [if_true]; simpa using inv.le_init i j
        · simp only [hik, if_false]
          calc D i j ≤ D i k + D k j := tri k i j
            _ ≤ D i k + L k j := by gcongr; exact inv.le_init k j
  · intro i j hfin
    simp only [zeroDiag] at hfin ⊢
    by_cases hij : i = j
    · subst hij; exact ⟨[], by simp [walkEnd], by simp [walkLen]⟩
    · simp only [hij, if_false] at hfin ⊢; exact inv.wit i j hfin

theorem floydSpec_of_fold (L : LMat n) (hL : ∀ i j, 0 ≤ L i j) (ks : List (Fin n)) (hall : ∀ k, k ∈ ks) :
    FloydSpec L (finalFS (ks.foldl stageP (initFS L))) := by
  have inv := pinv_fold L hL ks (initFS L) (fun _ => False) (pinv_init L hL)
  have zi := zinv_fold ks (initFS L) (zinv_init L)
  set s := ks.foldl stageP (initFS L) with hs
  have fwall : FwInv L s.D (fun _ => True) :=
    { nonneg := inv.fw.nonneg, le_init := inv.fw.le_init, wit := inv.fw.wit,
      tri := fun k _ => inv.fw.tri k (Or.inr (hall k)) }
  refine ⟨(isDist_of_fwInv L s.D hL fwall : IsDist L (finalFS s).D), ?_, ?_, ?_, ?_⟩
  · intro i; simp [finalFS]
  · intro i; simp [finalFS]
  · intro i j hij hfin
    simp only [finalFS, hij, if_false] at hfin ⊢
    obtain ⟨eD, eH, _⟩ := inv.E i j hij hfin
    simp only [D0, H0] at eD eH
    by_cases hp : s.P i j = j
    · simp only [hp, if_true] at eD eH ⊢
      exact ⟨eD, eH⟩
    · simp only [hp, if_false] at eD eH ⊢
      exact ⟨eD, eH⟩
  · intro i j hinf
    by_cases hij : i = j
    · simp [finalFS, hij]
    · simp only [finalFS, hij, if_false] at hinf ⊢
      exact zi i j hinf

/-! ## refinement: the `Vector` model computes exactly these functions -/

def toFS (s : FSt n) : FS n := ⟨lenFun s.D, fun i j => s.hops.get i j, fun i j => s.P.get i j⟩

theorem ite_bool_prop {α : Sort _} (b : Bool) (p : Prop) [Decidable p] (h : b = true ↔ p) (x y : α) :
    (if b = true then x else y) = (if p then x else y) := by
  by_cases hp : p
  · rw [if_pos hp, if_pos (h.mpr hp)]
  · rw [if_neg hp, if_neg (fun hb => hp (h.mp hb))]

theorem lenFun_ofFn (f : Fin n → Fin n → Ext) (i j : Fin n) : lenFun (AMat.ofFn f) i j = (f i j).toLen := by
  simp [lenFun]

theorem FS.ext' {a b : FS n} (h1 : a.D = b.D) (h2 : a.hops = b.hops) (h3 : a.P = b.P) : a = b := by
  cases a; cases b; simp_all

theorem toFS_fStage (s : FSt n) (k : Fin n) : toFS (fStage s k) = stageP (toFS s) k := by
  have key : ∀ i j, (Ext.lt (s.D.get i k + s.D.get k j) (s.D.get i j) = true) ↔
      ((toFS s).D i k + (toFS s).D k j < (toFS s).D i j) := by
    intro i j; rw [Ext.lt_iff, Ext.toLen_add]; rfl
  apply FS.ext' <;> funext i j
  · change lenFun (fStage s k).D i j = (stageP (toFS s) k).D i j
    simp only [stageP, fStage]
    rw [lenFun_ofFn]
    by_cases h : (toFS s).D i k + (toFS s).D k j < (toFS s).D i j
    · rw [if_pos ((key i j).mpr h), if_pos h, Ext.toLen_add]; rfl
    · rw [if_neg (fun hb => h ((key i j).mp hb)), if_neg h]; rfl
  · change (fStage s k).hops.get i j = (stageP (toFS s) k).hops i j
    simp only [stageP, fStage]
    rw [AMat.get_ofFn]
    by_cases h : (toFS s).D i k + (toFS s).D k j < (toFS s).D i j
    · rw [if_pos ((key i j).mpr h), if_pos h]; rfl
    · rw [if_neg (fun hb => h ((key i j).mp hb)), if_neg h]; rfl
  · change (fStage s k).P.get i j = (stageP (toFS s) k).P i j
    simp only [stageP, fStage]
    rw [AMat.get_ofFn]
    by_cases h : (toFS s).D i k + (toFS s).D k j < (toFS s).D i j
    · rw [if_pos ((key i j).mpr h), if_pos h]; rfl
    · rw [if_neg (fun hb => h ((key i j).mp hb)), if_neg h]; rfl

theorem toFS_fInit (A : AMat Ext n) : toFS (fInit A) = initFS (lenFun A) := by
  apply FS.ext'
  · rfl
  · funext i j
    change (fInit A).hops.get i j = (initFS (lenFun A)).hops i j
    simp only [fInit, initFS]
    rw [AMat.get_ofFn]
    by_cases h : lenFun A i j < ⊤
    · rw [if_pos ((Ext.isFin_iff _).mpr h), if_pos h]
    · rw [if_neg (fun hb => h ((Ext.isFin_iff _).mp hb)), if_neg h]
  · funext i j
    change (fInit A).P.get i j = (initFS (lenFun A)).P i j
    simp only [fInit, initFS]
    rw [AMat.get_ofFn]

theorem toFS_fFinal (s : FSt n) : toFS (fFinal s) = finalFS (toFS s) := by
  apply FS.ext' <;> funext i j
  · change lenFun (fFinal s).D i j = (finalFS (toFS s)).D i j
    simp only [fFinal, finalFS]
    rw [lenFun_ofFn]
    by_cases h : i = j
    · rw [if_pos h, if_pos h]; rfl
    · rw [if_neg h, if_neg h]; rfl
  · change (fFinal s).hops.get i j = (finalFS (toFS s)).hops i j
    simp only [fFinal, finalFS]
    rw [AMat.get_ofFn]; rfl
  · change (fFinal s).P.get i j = (finalFS (toFS s)).P i j
    simp only [fFinal, finalFS]
    rw [AMat.get_ofFn]; rfl

theorem toFS_foldl : ∀ (ks : List (Fin n)) (s : FSt n),
    toFS (ks.foldl fStage s) = ks.foldl stageP (toFS s) := by
  intro ks
  induction ks with
  | nil => intro s; rfl
  | cons k ks ih => intro s; simp only [List.foldl_cons, ih, toFS_fStage]

/-- everything the property needs about the executable `floyd`, for non-negative lengths -/
theorem floyd_spec (A : AMat Ext n) (hnn : ∀ i j, 0 ≤ lenFun A i j) :
    FloydSpec (lenFun A) (toFS (floyd A)) := by
  unfold floyd floydLoop
  rw [toFS_fFinal, toFS_foldl, toFS_fInit]
  exact floydSpec_of_fold (lenFun A) hnn (List.finRange n) (fun k => List.mem_finRange k)

/-! ## reading a path off `Pmat` -/

/-- the node sequence obtained by following `P · t` for `h` steps from `s` (function view of `retrieveGo`) -/
def walkP (P : Fin n → Fin n → Fin n) (t : Fin n) : ℕ → Fin n → List (Fin n)
  | 0, _ => []
  | h + 1, s => P s t :: walkP P t h (P s t)

theorem retrieveGo_eq (P : AMat (Fin n) n) (t : Fin n) : ∀ (h : ℕ) (s : Fin n),
    retrieveGo P t h s = walkP (fun i j => P.get i j) t h s := by
  intro h
  induction h with
  | zero => intro s; rfl
  | succ h ih => intro s; simp only [retrieveGo, walkP, ih]

theorem walkP_length (P : Fin n → Fin n → Fin n) (t : Fin n) : ∀ (h : ℕ) (s : Fin n), (walkP P t h s).length = h := by
  intro h
  induction h with
  | zero => intro s; rfl
  | succ h ih => intro s; simp [walkP, ih]

/-- following `Pmat` for `hops s t` steps is a walk from `s` to `t` of total length `SPL s t` -/
theorem walkP_valid {L : LMat n} {r : FS n} (sp : FloydSpec L r) : ∀ (h : ℕ) (s t : Fin n), s ≠ t → r.D s t < ⊤ →
    r.hops s t = h → walkEnd s (walkP r.P t h s) = t ∧ walkLen L s (walkP r.P t h s) = r.D s t := by
  intro h
  induction h with
  | zero =>
    intro s t hst hfin hh
    obtain ⟨_, eH⟩ := sp.next s t hst hfin
    omega
  | succ h ih =>
    intro s t hst hfin hh
    obtain ⟨eD, eH⟩ := sp.next s t hst hfin
    simp only [walkP, walkEnd, walkLen]
    by_cases hp : r.P s t = t
    · rw [hp] at eD eH ⊢
      rw [sp.diagH] at eH
      have h0 : h = 0 := by omega
      subst h0
      rw [sp.diagD] at eD
      simp only [walkP, walkEnd, walkLen]
      refine ⟨trivial, ?_⟩
      rw [eD]
    · have hfin' : r.D (r.P s t) t < ⊤ := by
        by_contra hh'
        simp only [not_lt, top_le_iff] at hh'
        rw [hh'] at eD; simp at eD; rw [eD] at hfin; exact lt_irrefl _ hfin
      obtain ⟨e1, e2⟩ := ih (r.P s t) t hp hfin' (by omega)
      exact ⟨e1, by rw [e2, eD]⟩

end Bct.Dist
