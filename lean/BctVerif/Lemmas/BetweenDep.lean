import BctVerif.Lemmas.BetweenAlg

/-!
# Brandes' dependency recurrence and node/edge consistency on the definition-level spec (C08)
-/
namespace Bct.Between
open Bct

variable {n : ℕ} (L : AMat Nat n)

theorem reach_iff {D : DMat n} {s t : Fin n} : reach D s t = true ↔ ∃ d, D.get s t = some d := by
  unfold reach; cases D.get s t <;> simp

theorem sigma_ne_zero_of_reach {s t : Fin n} (h : reach (dist L) s t = true) :
    ((sigma L).get s t : ℚ) ≠ 0 := by
  obtain ⟨d, hd⟩ := reach_iff.1 h
  have := sigma_pos L hd
  exact_mod_cast this.ne'

/-- pair-level form of Brandes' recurrence -/
theorem pairV_step (s t v : Fin n) (hsv : s ≠ v) :
    pairV (dist L) (sigma L) s t v =
      ∑ w, if pred L (dist L) s v w = true then
        ((sigma L).get s v : ℚ) / ((sigma L).get s w : ℚ) *
          ((if t = w then 1 else 0) + pairV (dist L) (sigma L) s t w) else 0 := by
  by_cases hst : s = t
  · subst hst
    have h0 : pairV (dist L) (sigma L) s s v = 0 := by simp [pairV]
    rw [h0]; symm
    refine Finset.sum_eq_zero fun w _ => ?_
    by_cases hp : pred L (dist L) s v w = true
    · have := (pred_ne L hp).1
      simp [hp, this, pairV]
    · simp [hp]
  by_cases htv : t = v
  · subst htv
    have h0 : pairV (dist L) (sigma L) s t t = 0 := by simp [pairV]
    rw [h0]; symm
    refine Finset.sum_eq_zero fun w _ => ?_
    by_cases hp : pred L (dist L) s t w = true
    · have hne := (pred_ne L hp).2
      obtain ⟨hL, a, ha, he⟩ := (pred_iff L).1 hp
      have hz : sigmaV (dist L) (sigma L) s t w = 0 := by
        apply sigmaV_zero
        rintro ⟨a', b', ha', _, hc'⟩
        rw [he] at ha'; simp only [Option.some.injEq] at ha'; subst ha'
        rw [ha] at hc'; simp only [Option.some.injEq] at hc'
        omega
      simp [hp, hne, pairV, hz]
    · simp [hp]
  by_cases hr : reach (dist L) s t = true
  · have hσ := sigma_ne_zero_of_reach L hr
    have hl : pairV (dist L) (sigma L) s t v =
        (sigmaV (dist L) (sigma L) s t v : ℚ) / ((sigma L).get s t : ℚ) := by
      simp [pairV, hst, hsv, htv, hr]
    rw [hl, ← sum_sigmaE_out L s t v htv]
    push_cast
    rw [Finset.sum_div]
    refine Finset.sum_congr rfl fun w _ => ?_
    by_cases hp : pred L (dist L) s v w = true
    · simp only [hp, if_true]
      obtain ⟨hsw, hvw⟩ := pred_ne L hp
      obtain ⟨hL, a, ha, he⟩ := (pred_iff L).1 hp
      have hσw : ((sigma L).get s w : ℚ) ≠ 0 := sigma_ne_zero_of_reach L (reach_iff.2 ⟨_, he⟩)
      have key := sigmaE_pred L t hp
      have keyq : (sigmaE L (dist L) (sigma L) s t v w : ℚ) * ((sigma L).get s w : ℚ) =
          ((sigma L).get s v : ℚ) * (sigmaV (dist L) (sigma L) s t w : ℚ) := by exact_mod_cast key
      have hin : (if t = w then (1 : ℚ) else 0) + pairV (dist L) (sigma L) s t w =
          (sigmaV (dist L) (sigma L) s t w : ℚ) / ((sigma L).get s t : ℚ) := by
        by_cases htw : t = w
        · subst htw
          have h1 : pairV (dist L) (sigma L) s t t = 0 := by simp [pairV]
          have h2 : sigmaV (dist L) (sigma L) s t t = (sigma L).get s t := by
            rw [sigmaV_of he (dist_self L t) (by simpa using he), sigma_self, mul_one]
          rw [h1, h2]; simp [hσ]
        · simp [pairV, hst, hsw, htw, hr]
      rw [hin]
      field_simp
      linarith [keyq]
    · simp only [hp]
      rw [sigmaE_not_pred L t hp]; simp
  · have hl : pairV (dist L) (sigma L) s t v = 0 := by simp [pairV, hr]
    rw [hl]; symm
    refine Finset.sum_eq_zero fun w _ => ?_
    by_cases hp : pred L (dist L) s v w = true
    · obtain ⟨hL, a, ha, he⟩ := (pred_iff L).1 hp
      have htw : t ≠ w := by
        rintro rfl
        exact hr (reach_iff.2 ⟨_, he⟩)
      simp [hp, htw, pairV, hr]
    · simp [hp]

/-- **Brandes' recurrence**: `δ_s(v) = Σ_{w : v ∈ P_s(w)} σ(s,v)/σ(s,w) · (1 + δ_s(w))` -/
theorem depOf_rec (s v : Fin n) (hsv : s ≠ v) :
    depOf (dist L) (sigma L) s v =
      ∑ w, if pred L (dist L) s v w = true then
        ((sigma L).get s v : ℚ) / ((sigma L).get s w : ℚ) * (1 + depOf (dist L) (sigma L) s w)
      else 0 := by
  unfold depOf
  rw [sumFin_eq_sum]
  simp_rw [pairV_step L s _ v hsv]
  rw [Finset.sum_comm]
  refine Finset.sum_congr rfl fun w _ => ?_
  by_cases hp : pred L (dist L) s v w = true
  · simp only [hp, if_true, sumFin_eq_sum]
    rw [← Finset.mul_sum, Finset.sum_add_distrib]
    simp
  · simp [hp]

/-- per pair: the connections leaving `v` carry the walks through `v`, plus all walks when `v` is the source -/
theorem sum_pairE_out (s t v : Fin n) :
    ∑ w, pairE L (dist L) (sigma L) s t v w =
      pairV (dist L) (sigma L) s t v +
        (if s = v ∧ t ≠ v ∧ reach (dist L) v t = true then 1 else 0) := by
  by_cases hc : s ≠ t ∧ reach (dist L) s t = true
  · obtain ⟨hst, hr⟩ := hc
    have hσ := sigma_ne_zero_of_reach L hr
    have hl : ∀ w, pairE L (dist L) (sigma L) s t v w =
        (sigmaE L (dist L) (sigma L) s t v w : ℚ) / ((sigma L).get s t : ℚ) := by
      intro w; simp [pairE, hst, hr]
    simp_rw [hl]
    rw [← Finset.sum_div]
    by_cases htv : t = v
    · subst htv
      have : ∀ w, sigmaE L (dist L) (sigma L) s t t w = 0 := fun w => sigmaE_target L s t w
      simp [this, pairV]
    · have := sum_sigmaE_out L s t v htv
      have hq : (∑ w, (sigmaE L (dist L) (sigma L) s t v w : ℚ)) =
          (sigmaV (dist L) (sigma L) s t v : ℚ) := by exact_mod_cast this
      rw [hq]
      by_cases hsv : s = v
      · subst hsv
        obtain ⟨d, hd⟩ := reach_iff.1 hr
        have h2 : sigmaV (dist L) (sigma L) s t s = (sigma L).get s t := by
          rw [sigmaV_of (dist_self L s) hd (by simpa using hd), sigma_self, one_mul]
        rw [h2]
        simp [pairV, htv, hr, hσ]
      · simp [pairV, hst, hsv, htv, hr]
  · have hl : ∀ w, pairE L (dist L) (sigma L) s t v w = 0 := by
      intro w; simp only [pairE, hc, if_false]
    have h2 : pairV (dist L) (sigma L) s t v = 0 := by
      simp only [pairV]
      rw [if_neg]
      rintro ⟨h1, _, _, h4⟩; exact hc ⟨h1, h4⟩
    have h3 : ¬ (s = v ∧ t ≠ v ∧ reach (dist L) v t = true) := by
      rintro ⟨rfl, h, hr⟩
      exact hc ⟨fun e => h e.symm, hr⟩
    simp [hl, h2, h3]

theorem bcSpec_get (v : Fin n) :
    (bcSpec L)[v] = ∑ s, ∑ t, pairV (dist L) (sigma L) s t v := by
  simp [bcSpec, bcOf, depOf, sumFin_eq_sum]

theorem ebcSpec_get (u w : Fin n) :
    (ebcSpec L).get u w = ∑ s, ∑ t, pairE L (dist L) (sigma L) s t u w := by
  simp [ebcSpec, ebcOf, sumFin_eq_sum]

/-- node betweenness = outgoing edge betweenness minus the number of nodes reachable from `v`
(exactly how the edge routines accumulate `BC[w] += DP[w]`, `DP[v] += DPvw`, `EBC[v,w] += DPvw`) -/
theorem bc_eq_ebc_out (v : Fin n) :
    (bcSpec L)[v] = (∑ w, (ebcSpec L).get v w) -
      ((Finset.univ.filter fun t => t ≠ v ∧ reach (dist L) v t = true).card : ℚ) := by
  simp_rw [ebcSpec_get]
  rw [Finset.sum_comm]
  simp_rw [Finset.sum_comm (s := Finset.univ) (t := Finset.univ) (f := fun w t => pairE L (dist L) (sigma L) _ t v w)]
  simp_rw [sum_pairE_out, Finset.sum_add_distrib]
  rw [bcSpec_get]
  have : (∑ s : Fin n, ∑ t : Fin n, (if s = v ∧ t ≠ v ∧ reach (dist L) v t = true then (1 : ℚ) else 0)) =
      ((Finset.univ.filter fun t => t ≠ v ∧ reach (dist L) v t = true).card : ℚ) := by
    rw [Finset.sum_eq_single v]
    · simp
    · intro s _ hs; simp [hs]
    · simp
  rw [this]; ring

end Bct.Between
