import BctVerif.Lemmas.ModularityObj

/-! # The signed kernel (`Knm0/1`, `Km0/1`, `d0`, `d1`): finetune_und_sign, louvain_und_sign -/
namespace Bct.Modularity
open Finset

variable {n : ℕ}
variable {g0 : GState}

/-- the signed objective matrix `d0·(W0 − γ k0 k0ᵀ/s0) − d1·(W1 − γ k1 k1ᵀ/s1)` -/
def Bpair (W0 W1 : RMat n) (s0 s1 d0 d1 γ : ℚ) : RMat n :=
  AMat.ofFn fun i j => d0 * (Bgen W0 s0 γ).get i j - d1 * (Bgen W1 s1 γ).get i j

theorem Qobj_Bpair {α : Type} [DecidableEq α] (W0 W1 : RMat n) (s0 s1 d0 d1 γ : ℚ) (c : Fin n → α) :
    Qobj (Bpair W0 W1 s0 s1 d0 d1 γ) c = d0 * Qobj (Bgen W0 s0 γ) c - d1 * Qobj (Bgen W1 s1 γ) c := by
  simp only [Qobj_eq, Bpair, AMat.get_ofFn, Finset.mul_sum, ← Finset.sum_sub_distrib]
  refine Finset.sum_congr rfl (fun i _ => Finset.sum_congr rfl (fun j _ => ?_))
  split_ifs <;> ring

theorem Bpair_symm (W0 W1 : RMat n) (s0 s1 d0 d1 γ : ℚ) (h0 : Symm W0) (h1 : Symm W1) :
    Symm (Bpair W0 W1 s0 s1 d0 d1 γ) := by
  intro i j
  simp only [Bpair, AMat.get_ofFn, Bgen_get, h0.colSum_eq_rowSum, h1.colSum_eq_rowSum]
  rw [h0 i j, h1 i j]; ring

theorem Qobj_Bpair_agg {α : Type} [DecidableEq α] (W0 W1 : RMat n) (s0 s1 d0 d1 γ : ℚ) (m : Lab n) (c' : Fin n → α) :
    Qobj (Bpair (aggFull W0 m) (aggFull W1 m) s0 s1 d0 d1 γ) c'
      = Qobj (Bpair W0 W1 s0 s1 d0 d1 γ) (fun i => c' (m[i])) := by
  rw [Qobj_Bpair, Qobj_Bpair, Bgen_aggFull, Bgen_aggFull, Qobj_aggFull, Qobj_aggFull]

/-- bookkeeping invariant of the signed optimisers -/
def SignInv (W0 W1 : RMat n) (s0 s1 d0 d1 γ : ℚ) (st : SignSt n) (c : Fin n → Fin n) : Prop :=
  st.W0 = W0 ∧ st.W1 = W1 ∧ st.s0 = s0 ∧ st.s1 = s1 ∧ st.d0 = d0 ∧ st.d1 = d1 ∧ st.γ = γ ∧
  (∀ i : Fin n, st.Kn0[i] = rowSum W0 i) ∧ (∀ i : Fin n, st.Kn1[i] = rowSum W1 i) ∧
  (∀ i t : Fin n, st.Knm0.get i t = ∑ j, if c j = t then W0.get i j else 0) ∧
  (∀ i t : Fin n, st.Knm1.get i t = ∑ j, if c j = t then W1.get i j else 0) ∧
  (∀ t : Fin n, st.Km0[t] = ∑ j, if c j = t then rowSum W0 j else 0) ∧
  (∀ t : Fin n, st.Km1[t] = ∑ j, if c j = t then rowSum W1 j else 0)

theorem HnmF_Bgen (W : RMat n) (s γ : ℚ) (hW : Symm W) (c : Fin n → Fin n) (u t : Fin n) :
    HnmF (Bgen W s γ) c u t = (∑ j, if c j = t then W.get u j else 0)
      - γ * rowSum W u * (∑ j, if c j = t then rowSum W j else 0) / s := by
  unfold HnmF
  simp only [Bgen_get, hW.colSum_eq_rowSum]
  have : ∀ j, (if c j = t then W.get u j - γ * rowSum W u * rowSum W j / s else 0)
      = (if c j = t then W.get u j else 0) - γ * rowSum W u * (if c j = t then rowSum W j else 0) / s := by
    intro j; split_ifs <;> ring
  simp only [this, Finset.sum_sub_distrib]
  congr 1
  rw [Finset.mul_sum, Finset.sum_div]

theorem HnmF_Bpair (W0 W1 : RMat n) (s0 s1 d0 d1 γ : ℚ) (c : Fin n → Fin n) (u t : Fin n) :
    HnmF (Bpair W0 W1 s0 s1 d0 d1 γ) c u t = d0 * HnmF (Bgen W0 s0 γ) c u t - d1 * HnmF (Bgen W1 s1 γ) c u t := by
  unfold HnmF
  simp only [Bpair, AMat.get_ofFn, Finset.mul_sum, ← Finset.sum_sub_distrib]
  refine Finset.sum_congr rfl (fun j _ => ?_)
  split_ifs <;> ring

/-- **bookkeeping_inv + gain_sign** -/
theorem signKern_spec (W0 W1 : RMat n) (s0 s1 d0 d1 γ : ℚ) (h0 : Symm W0) (h1 : Symm W1) :
    KernSpec (signKern n) (Bpair W0 W1 s0 s1 d0 d1 γ) 1 (SignInv W0 W1 s0 s1 d0 d1 γ) where
  sym := Bpair_symm W0 W1 s0 s1 d0 d1 γ h0 h1
  pos := one_pos
  gain := by
    rintro st c ⟨e0, e1, es0, es1, ed0, ed1, eg, hk0, hk1, hK0, hK1, hM0, hM1⟩ u t _
    simp only [signKern, one_mul, dqF, HnmF_Bpair, HnmF_Bgen _ _ _ h0, HnmF_Bgen _ _ _ h1]
    simp only [Bpair, AMat.get_ofFn, Bgen_get, h0.colSum_eq_rowSum, h1.colSum_eq_rowSum]
    rw [e0, e1, es0, es1, ed0, ed1, eg, hk0, hk1, hK0, hK0, hK1, hK1, hM0, hM0, hM1, hM1]
    ring
  move := by
    rintro st c ⟨e0, e1, es0, es1, ed0, ed1, eg, hk0, hk1, hK0, hK1, hM0, hM1⟩ u t _
    refine ⟨e0, e1, es0, es1, ed0, ed1, eg, hk0, hk1, ?_, ?_, ?_, ?_⟩
    · intro i t'
      simp only [signKern, colAdd_get]
      rw [sum_update_label (fun j l => if l = t' then W0.get i j else 0) c u t, hK0, e0]
      simp only [eq_comm (a := t')]; ring
    · intro i t'
      simp only [signKern, colAdd_get]
      rw [sum_update_label (fun j l => if l = t' then W1.get i j else 0) c u t, hK1, e1]
      simp only [eq_comm (a := t')]; ring
    · intro t'
      simp only [signKern, vecAdd_get]
      rw [sum_update_label (fun j l => if l = t' then rowSum W0 j else 0) c u t, hM0, hk0]
      simp only [eq_comm (a := t')]; ring
    · intro t'
      simp only [signKern, vecAdd_get]
      rw [sum_update_label (fun j l => if l = t' then rowSum W1 j else 0) c u t, hM1, hk1]
      simp only [eq_comm (a := t')]; ring

theorem posPart_symm (W : RMat n) (hW : Symm W) : Symm (posPart W) := by
  intro i j; simp only [posPart, AMat.get_ofFn]; rw [hW i j]
theorem negPart_symm (W : RMat n) (hW : Symm W) : Symm (negPart W) := by
  intro i j; simp only [negPart, AMat.get_ofFn]; rw [hW i j]

theorem sum_nodeToModule_rows (W : RMat n) (c : Lab n) (i : Fin n) :
    (∑ t, ∑ j : Fin n, if c[(j : ℕ)] = t then W.get i j else 0) = rowSum W i := by
  rw [rowSum_eq, Finset.sum_comm]
  refine Finset.sum_congr rfl (fun j _ => ?_)
  simp

theorem sum_nodeToModule_cols (W : RMat n) (hW : Symm W) (c : Lab n) (t : Fin n) :
    (∑ i, ∑ j : Fin n, if c[(j : ℕ)] = t then W.get i j else 0) = ∑ j, if labOf c j = t then rowSum W j else 0 := by
  rw [Finset.sum_comm]
  refine Finset.sum_congr rfl (fun j _ => ?_)
  by_cases h : c[(j : ℕ)] = t
  · simp only [labOf_apply, Fin.getElem_fin, h, if_true, ← hW.colSum_eq_rowSum, colSum_eq]
  · simp [labOf, h]

/-- start of the signed fine-tuners -/
theorem signInitFine_inv (t : QType) (W : RMat n) (γ : ℚ) (hW : Symm W) (c : Lab n) :
    SignInv (posPart W) (negPart W) (adj (total (posPart W))) (adj (total (negPart W)))
      (scales t (total (posPart W)) (total (negPart W))).1 (scales t (total (posPart W)) (total (negPart W))).2 γ
      (signInitFine t W γ c) (labOf c) := by
  refine ⟨rfl, rfl, rfl, rfl, rfl, rfl, rfl, ?_, ?_, ?_, ?_, ?_, ?_⟩
  · intro i
    simp only [signInitFine, Fin.getElem_fin, Vector.getElem_ofFn, AMat.get_ofFn, fsum_eq]
    exact sum_nodeToModule_rows _ c i
  · intro i
    simp only [signInitFine, Fin.getElem_fin, Vector.getElem_ofFn, AMat.get_ofFn, fsum_eq]
    exact sum_nodeToModule_rows _ c i
  · intro i t'
    simp only [signInitFine, AMat.get_ofFn, fsum_eq, labOf_apply, Fin.getElem_fin]
    refine Finset.sum_congr rfl (fun j _ => ?_); congr
  · intro i t'
    simp only [signInitFine, AMat.get_ofFn, fsum_eq, labOf_apply, Fin.getElem_fin]
    refine Finset.sum_congr rfl (fun j _ => ?_); congr
  · intro t'
    simp only [signInitFine, Fin.getElem_fin, Vector.getElem_ofFn, AMat.get_ofFn, fsum_eq]
    exact sum_nodeToModule_cols _ (posPart_symm W hW) c t'
  · intro t'
    simp only [signInitFine, Fin.getElem_fin, Vector.getElem_ofFn, AMat.get_ofFn, fsum_eq]
    exact sum_nodeToModule_cols _ (negPart_symm W hW) c t'

/-- start of every level of `modularity_louvain_und_sign` -/
theorem signInitLevel_inv (W0 W1 : RMat n) (s0 s1 d0 d1 γ : ℚ) (h0 : Symm W0) (h1 : Symm W1) :
    SignInv W0 W1 s0 s1 d0 d1 γ (signInitLevel W0 W1 s0 s1 d0 d1 γ) (labOf (idLab n)) := by
  rw [labOf_idLab]
  refine ⟨rfl, rfl, rfl, rfl, rfl, rfl, rfl, ?_, ?_, ?_, ?_, ?_, ?_⟩
  · intro i; simp [signInitLevel, h0.colSum_eq_rowSum]
  · intro i; simp [signInitLevel, h1.colSum_eq_rowSum]
  · intro i t; simp [signInitLevel]
  · intro i t; simp [signInitLevel]
  · intro t; simp [signInitLevel, h0.colSum_eq_rowSum]
  · intro t; simp [signInitLevel, h1.colSum_eq_rowSum]

theorem scales_fst_zero (t : QType) (s0 s1 : ℚ) (h : s0 = 0) : (scales t s0 s1).1 = 0 := by simp [scales, h]
theorem scales_snd_zero (t : QType) (s0 s1 : ℚ) (h : s1 = 0) : (scales t s0 s1).2 = 0 := by simp [scales, h]

/-- the signed objective matrix of a network (as the signed optimisers use it) -/
def Bsign (t : QType) (W : RMat n) (γ : ℚ) : RMat n :=
  Bpair (posPart W) (negPart W) (adj (total (posPart W))) (adj (total (negPart W)))
    (scales t (total (posPart W)) (total (negPart W))).1 (scales t (total (posPart W)) (total (negPart W))).2 γ

/-- the definition `Qsign` is the objective of `Bsign` -/
theorem Qsign_eq {α : Type} [DecidableEq α] (t : QType) (W : RMat n) (γ : ℚ) (c : Fin n → α) :
    Qsign t W γ c = Qobj (Bsign t W γ) c := by
  unfold Qsign Bsign
  simp only
  rw [Qobj_Bpair]
  have part : ∀ (Wp : RMat n) (d : ℚ), (total Wp = 0 → d = 0) →
      d * Qpart Wp γ c = d * Qobj (Bgen Wp (adj (total Wp)) γ) c := by
    intro Wp d hd
    unfold Qpart
    by_cases h : total Wp = 0
    · rw [hd h]; simp
    · rw [if_neg h, Bmod_eq_Bgen]; simp [adj, h]
  rw [part _ _ (scales_fst_zero t _ _), part _ _ (scales_snd_zero t _ _)]

theorem qOuter_eq {α : Type} [DecidableEq α] (Wp : RMat n) (Kn : RVec n) (s γ : ℚ) (c : Fin n → α)
    (hW : Symm Wp) (hK : ∀ i : Fin n, Kn[i] = rowSum Wp i) : qOuter Wp Kn s γ c = Qobj (Bgen Wp s γ) c := by
  unfold qOuter
  rw [Qobj_eq]
  simp only [fsum_eq]
  refine Finset.sum_congr rfl (fun i _ => Finset.sum_congr rfl (fun j _ => ?_))
  rw [hK i, hK j, Bgen_get, hW.colSum_eq_rowSum]
  split_ifs <;> ring

/-- **q_formula_sign (fine-tuners, probtune, modularity_und_sign)** -/
theorem qSignOuter_eq (t : QType) (W : RMat n) (γ : ℚ) (hW : Symm W) (c c' : Lab n) :
    qSignOuter (signInitFine t W γ c) c' = Qsign t W γ (labOf c') := by
  obtain ⟨e0, e1, es0, es1, ed0, ed1, eg, hk0, hk1, _⟩ := signInitFine_inv t W γ hW c
  unfold qSignOuter
  rw [qOuter_eq _ _ _ _ _ (e0 ▸ posPart_symm W hW) (by rw [e0]; exact hk0),
    qOuter_eq _ _ _ _ _ (e1 ▸ negPart_symm W hW) (by rw [e1]; exact hk1),
    Qsign_eq, Bsign, Qobj_Bpair, e0, e1, es0, es1, ed0, ed1, eg]
  rfl

/-- **modularity_finetune_und_sign: C02 + C07 for the model.** -/
theorem finetuneSign_spec (t : QType) (W : RMat n) (γ : ℚ) (c0 : Fin n → ℤ) (ds : List ℕ) (out : Out n)
    (hW : Symm W) (h : finetuneSign t W γ c0 ds g0 = .ok out) :
    ∀ p ∈ out.levels, p.2 = Qsign t W γ (labOf p.1) ∧ Qsign t W γ c0 ≤ Qsign t W γ (labOf p.1) := by
  unfold finetuneSign at h
  obtain ⟨c, hc, _⟩ := toLab_ok c0
  simp only [hc, bind, Except.bind, pure, Except.pure] at h
  generalize hp : passes (signKern n) n n (ds.length + 1) _ ds = res at h
  cases res with
  | error e => simp at h
  | ok r =>
    obtain ⟨x, rest⟩ := r
    simp only at h
    obtain ⟨c', hc', _⟩ := toLab_ok (labFn x.m)
    simp only [hc'] at h
    cases h
    have hinv := signInitFine_inv t W γ hW c
    obtain ⟨_, hmono⟩ := passes_spec (signKern_spec _ _ _ _ _ _ γ (posPart_symm W hW) (negPart_symm W hW)) n n _ _ _ _ _
      (by simpa [pst0] using hinv) hp
    intro p hp'
    simp only [List.mem_singleton] at hp'
    subst hp'
    refine ⟨qSignOuter_eq t W γ hW c c', ?_⟩
    rw [Qsign_eq, Qsign_eq]
    calc Qobj (Bsign t W γ) c0 = Qobj (Bsign t W γ) (labOf c) := Qobj_congr _ _ _ (labOf_toLab_congr c0 c hc)
      _ ≤ Qobj (Bsign t W γ) (labOf x.m) := by simpa [pst0, Bsign] using hmono
      _ = Qobj (Bsign t W γ) (labOf c') :=
          Qobj_congr _ _ _ (fun i j => by rw [← labFn_congr, labOf_toLab_congr (labFn x.m) c' hc'])

/-- **modularity_und_sign_given** -/
theorem modularityUndSignGiven_spec (t : QType) (W : RMat n) (hW : Symm W) (c0 : Fin n → ℤ) :
    ∃ c : Lab n, modularityUndSignGiven t W c0 = .ok (c, Qsign t W 1 c0) ∧ ∀ i : Fin n, (c[i] : ℕ) = rank c0 i := by
  obtain ⟨c, hc, hr⟩ := toLab_ok c0
  refine ⟨c, ?_, hr⟩
  unfold modularityUndSignGiven
  simp only [hc, bind, Except.bind, pure, Except.pure]
  rw [qSignOuter_eq t W 1 hW c c, Qsign_eq, Qsign_eq]
  congr 2
  exact (Qobj_congr _ _ _ (labOf_toLab_congr c0 c hc)).symm

/-- **q_formula_sign (louvain)** — `d0·(tr W0 − γΣW0W0/s0) − d1·(tr W1 − γΣW1W1/s1)` of the aggregated
matrices is the signed objective of the level's partition -/
theorem qSignTraceDot_eq (W0 W1 : RMat n) (s0 s1 d0 d1 γ : ℚ) (h0 : Symm W0) (h1 : Symm W1) (m : Lab n) :
    qSignTraceDot (aggUpper W0 m) (aggUpper W1 m) s0 s1 d0 d1 γ = Qobj (Bpair W0 W1 s0 s1 d0 d1 γ) (labOf m) := by
  unfold qSignTraceDot
  rw [qTraceDotRaw_eq, qTraceDotRaw_eq, aggUpper_eq W0 h0, aggUpper_eq W1 h1, ← Qobj_Bpair, Qobj_Bpair_agg]
  rfl

/-- a level of `modularity_louvain_und_sign`: reported `q` = objective of its partition, at least that of the singletons start -/
def SignLevelOK (B0 : RMat n) (p : Lab n × ℚ) : Prop :=
  p.2 = Qobj B0 (labOf p.1) ∧ Qobj B0 (id : Fin n → Fin n) ≤ p.2

structure SLvInv (W0o W1o : RMat n) (s0 s1 d0 d1 γ : ℚ) (W0 W1 : RMat n) (L : LvSt n) : Prop where
  symm0 : Symm W0
  symm1 : Symm W1
  agg : ∀ c' : Fin n → Fin n, Qobj (Bpair W0 W1 s0 s1 d0 d1 γ) c'
      = Qobj (Bpair W0o W1o s0 s1 d0 d1 γ) (fun v => c' (labOf L.ci v))
  start : Qobj (Bpair W0o W1o s0 s1 d0 d1 γ) (id : Fin n → Fin n) ≤ Qobj (Bpair W0o W1o s0 s1 d0 d1 γ) (labOf L.ci)
  ok : ∀ p ∈ L.acc, SignLevelOK (Bpair W0o W1o s0 s1 d0 d1 γ) p

theorem louvainSignLoop_spec (W0o W1o : RMat n) (s0 s1 d0 d1 γ : ℚ) :
    ∀ (fuel : ℕ) (W0 W1 : RMat n) (L L' : LvSt n) (qcur : ℚ) (ds rest : List ℕ),
      SLvInv W0o W1o s0 s1 d0 d1 γ W0 W1 L →
      louvainSignLoop s0 s1 d0 d1 γ fuel W0 W1 L qcur ds = .ok (L', rest) →
      (∀ p ∈ L'.acc, SignLevelOK (Bpair W0o W1o s0 s1 d0 d1 γ) p) ∧
      ∃ ext, L'.acc = ext ++ L.acc ∧
        (∀ p ∈ ext, p.2 = Qobj (Bpair W0o W1o s0 s1 d0 d1 γ) (labOf p.1) ∧
          Qobj (Bpair W0o W1o s0 s1 d0 d1 γ) (id : Fin n → Fin n) ≤ p.2) ∧
        (L'.starved = none → thr < qcur - L.qprev → ext ≠ []) := by
  intro fuel
  induction fuel with
  | zero => intro W0 W1 L L' qcur ds rest _ h; simp [louvainSignLoop] at h
  | succ fuel ih =>
    intro W0 W1 L L' qcur ds rest hL h
    unfold louvainSignLoop at h
    split_ifs at h with hgo
    · simp only [bind, Except.bind, pure, Except.pure] at h
      generalize hp : passes (signKern n) L.nh L.nh (ds.length + 1) _ ds = res at h
      cases res with
      | error e => simp at h
      | ok r =>
        obtain ⟨x, rest1⟩ := r
        simp only at h
        by_cases hst : x.starved.isSome = true
        · simp only [hst, if_true] at h
          cases h
          refine ⟨hL.ok, [], rfl, by simp, fun hn => ?_⟩
          simp only at hn
          rw [hn] at hst; simp at hst
        · simp only [hst] at h
          obtain ⟨m', hm', _⟩ := toLab_ok (labFn x.m)
          simp only [hm'] at h
          obtain ⟨_, hmono⟩ := passes_spec (signKern_spec W0 W1 s0 s1 d0 d1 γ hL.symm0 hL.symm1) L.nh L.nh _ _ _ _ _
            (by simpa [pst0] using signInitLevel_inv W0 W1 s0 s1 d0 d1 γ hL.symm0 hL.symm1) hp
          have hmono' : Qobj (Bpair W0 W1 s0 s1 d0 d1 γ) (id : Fin n → Fin n)
              ≤ Qobj (Bpair W0 W1 s0 s1 d0 d1 γ) (labOf m') := by
            calc Qobj (Bpair W0 W1 s0 s1 d0 d1 γ) (id : Fin n → Fin n)
                = Qobj (Bpair W0 W1 s0 s1 d0 d1 γ) (labOf (idLab n)) := by rw [labOf_idLab]
              _ ≤ Qobj (Bpair W0 W1 s0 s1 d0 d1 γ) (labOf x.m) := by simpa [pst0] using hmono
              _ = Qobj (Bpair W0 W1 s0 s1 d0 d1 γ) (labOf m') :=
                  Qobj_congr _ _ _ (fun i j => by rw [← labFn_congr, labOf_toLab_congr (labFn x.m) m' hm'])
          have hq : qSignTraceDot (aggUpper W0 m') (aggUpper W1 m') s0 s1 d0 d1 γ
              = Qobj (Bpair W0o W1o s0 s1 d0 d1 γ) (labOf (compose L.ci m')) := by
            rw [qSignTraceDot_eq _ _ _ _ _ _ _ hL.symm0 hL.symm1, hL.agg, labOf_compose]
          have hprev_le : Qobj (Bpair W0o W1o s0 s1 d0 d1 γ) (labOf L.ci)
              ≤ Qobj (Bpair W0o W1o s0 s1 d0 d1 γ) (labOf (compose L.ci m')) := by
            have := hL.agg id
            simp only [id_eq] at this
            rw [← this, labOf_compose, ← hL.agg]; exact hmono'
          have hrec : SLvInv W0o W1o s0 s1 d0 d1 γ (aggUpper W0 m') (aggUpper W1 m')
              { nh := nextSize m' L.nh, ci := compose L.ci m', qprev := qcur,
                acc := (compose L.ci m', qSignTraceDot (aggUpper W0 m') (aggUpper W1 m') s0 s1 d0 d1 γ) :: L.acc,
                moves := L.moves + x.moves, ties := L.ties + x.ties, g := x.g } := ?_
          · obtain ⟨h1, ext, he, hg, _⟩ := ih _ _ _ _ _ _ _ hrec h
            refine ⟨h1, ext ++ [(compose L.ci m', qSignTraceDot (aggUpper W0 m') (aggUpper W1 m') s0 s1 d0 d1 γ)],
              by rw [he]; simp, ?_, fun _ _ => by simp⟩
            intro p hp'
            rcases List.mem_append.mp hp' with h' | h'
            · exact hg p h'
            · simp only [List.mem_singleton] at h'; subst h'
              exact ⟨hq, hq ▸ le_trans hL.start hprev_le⟩
          refine ⟨?_, ?_, ?_, ?_, ?_⟩
          · rw [aggUpper_eq W0 hL.symm0]; exact aggFull_symm W0 hL.symm0 m'
          · rw [aggUpper_eq W1 hL.symm1]; exact aggFull_symm W1 hL.symm1 m'
          · intro c'
            rw [aggUpper_eq W0 hL.symm0, aggUpper_eq W1 hL.symm1, Qobj_Bpair_agg, hL.agg, labOf_compose]
            rfl
          · exact le_trans hL.start hprev_le
          · intro p hp'
            rcases List.mem_cons.mp hp' with rfl | hp'
            · exact ⟨hq, hq ▸ le_trans hL.start hprev_le⟩
            · exact hL.ok p hp'
    · cases h
      exact ⟨hL.ok, [], rfl, by simp, fun _ hgt => absurd hgt hgo⟩

/-- **modularity_louvain_und_sign: C02 + C07 for the model.** For symmetric signed `W`, every `qtype`,
every `γ` and every sequence of visiting orders, every level the routine computes (it returns the last)
reports exactly the signed modularity of its partition, which is at least that of the all-singletons
start; there is at least one level unless the draw list ran out (the placeholders `q = [-1, 0]` only drive the loop). -/
theorem louvainSign_spec (t : QType) (W : RMat n) (γ : ℚ) (ds : List ℕ) (out : Out n)
    (hW : Symm W) (h : louvainSign t W γ ds g0 = .ok out) :
    (∀ p ∈ out.levels,
      p.2 = Qsign t W γ (labOf p.1) ∧ Qsign t W γ (id : Fin n → Fin n) ≤ Qsign t W γ (labOf p.1)) ∧
    (out.starved = none → 1 ≤ out.levels.length) := by
  unfold louvainSign at h
  simp only [bind, Except.bind, pure, Except.pure] at h
  generalize hl : louvainSignLoop _ _ _ _ γ (ds.length + 1) _ _ _ 0 ds = res at h
  cases res with
  | error e => simp at h
  | ok r =>
    obtain ⟨L, rest⟩ := r
    simp only at h
    cases h
    have hI : SLvInv (posPart W) (negPart W) (adj (total (posPart W))) (adj (total (negPart W)))
        (scales t (total (posPart W)) (total (negPart W))).1 (scales t (total (posPart W)) (total (negPart W))).2 γ
        (posPart W) (negPart W)
        { nh := n, ci := idLab n, qprev := -1, acc := [], moves := 0, ties := 0, g := g0 } := by
      refine ⟨posPart_symm W hW, negPart_symm W hW, ?_, ?_, ?_⟩
      · intro c'; simp only [labOf_idLab, id_eq]
      · simp only [labOf_idLab]; exact le_rfl
      · intro p hp; simp at hp
    obtain ⟨_, ext, he, hg, hne⟩ := louvainSignLoop_spec _ _ _ _ _ _ γ _ _ _ _ _ _ _ _ hI hl
    have hlev : L.acc = ext := by rw [he]; simp
    refine ⟨?_, ?_⟩
    · intro p hp
      obtain ⟨h1, h2⟩ := hg p (hlev ▸ List.mem_reverse.mp hp)
      rw [Qsign_eq, Qsign_eq]
      exact ⟨h1, h1 ▸ h2⟩
    · intro hst
      simp only at hst
      have := hne hst (by unfold thr; norm_num)
      simp only [hlev, List.length_reverse]
      exact List.length_pos_of_ne_nil this

theorem rinv_eq (x : ℚ) : rinv x = x⁻¹ := by
  unfold rinv; split_ifs with h
  · rw [h, inv_zero]
  · rw [one_div]

/-- the objective matrices `community_louvain` builds for `'negative_sym'` / `'negative_asym'` (before the
final symmetrisation) are the signed objective matrices of type `gja` / `sta` (positive weights present) -/
theorem objMatrixRaw_neg_eq (W : RMat n) (γ : ℚ) (hs0 : total (posPart W) ≠ 0) :
    objMatrixRaw W γ .negSym = Bsign .gja W γ ∧ objMatrixRaw W γ .negAsym = Bsign .sta W γ := by
  constructor
  · apply AMat.ext_get; intro i j
    simp only [objMatrixRaw, Bsign, Bpair, AMat.get_ofFn, scales, rinv_eq, hs0, if_false, adj, Bmod_eq_Bgen]
    by_cases h1 : total (negPart W) = 0
    · simp [h1]; ring
    · simp [h1]; ring
  · apply AMat.ext_get; intro i j
    simp only [objMatrixRaw, Bsign, Bpair, AMat.get_ofFn, scales, rinv_eq, hs0, if_false, adj, Bmod_eq_Bgen]
    by_cases h1 : total (negPart W) = 0
    · simp [h1]; ring
    · simp [h1]; ring

theorem Bsign_symm (t : QType) (W : RMat n) (γ : ℚ) (hW : Symm W) : Symm (Bsign t W γ) :=
  Bpair_symm _ _ _ _ _ _ γ (posPart_symm W hW) (negPart_symm W hW)

/-- every objective matrix of `community_louvain` is symmetric as built (`B = (B + B.T)/2`) -/
theorem objMatrix_symm' (W : RMat n) (γ : ℚ) (obj : Objective n) : Symm (objMatrix W γ obj) :=
  symmetrise_symm _

/-- the objective of `community_louvain` in terms of the un-symmetrised objective matrix -/
theorem Qobj_objMatrix {α : Type} [DecidableEq α] (W : RMat n) (γ : ℚ) (obj : Objective n) (c : Fin n → α) :
    Qobj (objMatrix W γ obj) c = Qobj (objMatrixRaw W γ obj) c := Qobj_symmetrise _ c

/-- `modularity_probtune_und_sign` reports the signed modularity of the partition it returns (whatever
random moves it made) -/
theorem probtuneSign_spec (t : QType) (W : RMat n) (γ p : ℚ) (c0 : Fin n → ℤ) (ds : List ℕ) (out : Out n)
    (hW : Symm W) (h : probtuneSign t W γ p c0 ds g0 = .ok out) :
    ∀ l ∈ out.levels, l.2 = Qsign t W γ (labOf l.1) := by
  unfold probtuneSign at h
  obtain ⟨c, hc, _⟩ := toLab_ok c0
  simp only [hc, bind, Except.bind, pure, Except.pure] at h
  cases ht : takePerm n n ds with
  | error e => simp [ht] at h
  | ok r =>
    obtain ⟨us, rest⟩ := r
    simp only [ht] at h
    generalize hp : probLoop p us _ rest = res at h
    cases res with
    | error e => simp at h
    | ok r2 =>
      obtain ⟨x, rest2⟩ := r2
      simp only at h
      obtain ⟨c', hc', _⟩ := toLab_ok (labFn x.m)
      simp only [hc'] at h
      cases h
      intro l hl
      simp only [List.mem_singleton] at hl
      subst hl
      exact qSignOuter_eq t W γ hW c c'

/-- `modularity_finetune_dir` reports the directed modularity of the partition it returns (C02 holds for
it although its gains are wrong on directed input, see `Bct.C07.finetune_dir_defect_witness`) -/
theorem finetuneDir_q (W : RMat n) (γ : ℚ) (c0 : Fin n → ℤ) (ds : List ℕ) (out : Out n)
    (h : finetuneDir W γ c0 ds g0 = .ok out) :
    ∀ l ∈ out.levels, l.2 = Qdir W γ (labOf l.1) := by
  unfold finetuneDir at h
  obtain ⟨c, hc, _⟩ := toLab_ok c0
  simp only [bind, Except.bind, pure, Except.pure] at h
  split_ifs at h with hs0
  simp only [hc] at h
  generalize hp : passes (dirKern n) n n (ds.length + 1) _ ds = res at h
  cases res with
  | error e => simp at h
  | ok r =>
    obtain ⟨x, rest⟩ := r
    simp only at h
    obtain ⟨c', hc', _⟩ := toLab_ok (labFn x.m)
    simp only [hc'] at h
    cases h
    intro l hl
    simp only [List.mem_singleton] at hl
    subst hl
    exact qTraceDot_aggFull W γ c'

end Bct.Modularity
