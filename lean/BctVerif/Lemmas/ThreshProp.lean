import BctVerif.Lemmas.ThreshList
import BctVerif.Lemmas.ThreshRound

/-!
# Stage lemmas for `thresholdProportional` (helper lemmas for C17)
-/
namespace Bct.ThreshLemmas
open Bct Bct.Thresh

variable {n : ℕ}

/-- value of a cell -/
abbrev val (W : AMat ℚ n) (c : Fin n × Fin n) : ℚ := W.get c.1 c.2

/-! ### preprocessing -/

theorem zeroDiag_get (W : AMat ℚ n) (i j : Fin n) :
    (zeroDiag W).get i j = if i = j then 0 else W.get i j := by simp [zeroDiag]

theorem pre_cases (W : AMat ℚ n) :
    ((pre W).sym = true ∧ (pre W).W1 = dropLower (zeroDiag W) ∧ arrayEqualT (zeroDiag W) = true) ∨
    ((pre W).sym = false ∧ (pre W).W1 = zeroDiag W ∧ arrayEqualT (zeroDiag W) = false) := by
  unfold pre
  by_cases h : arrayEqualT (zeroDiag W) = true
  · left; simp [h]
  · right; simp [h]

theorem pre_diag (W : AMat ℚ n) (i : Fin n) : (pre W).W1.get i i = 0 := by
  rcases pre_cases W with ⟨_, h, _⟩ | ⟨_, h, _⟩ <;> simp [h, dropLower, zeroDiag]

/-- in the symmetric branch the working matrix is strictly upper triangular -/
theorem pre_upper (W : AMat ℚ n) (hs : (pre W).sym = true) {i j : Fin n} (h : (pre W).W1.get i j ≠ 0) :
    i.val < j.val := by
  rcases pre_cases W with ⟨_, h1, _⟩ | ⟨h0, _, _⟩
  · by_contra hc
    apply h
    simp only [h1, dropLower, AMat.get_ofFn]
    rw [if_pos (by omega)]
  · rw [hs] at h0; cases h0

/-- every cell of the working matrix is zero or the corresponding off-diagonal input cell -/
theorem pre_entries (W : AMat ℚ n) (i j : Fin n) :
    (pre W).W1.get i j = 0 ∨ (i ≠ j ∧ (pre W).W1.get i j = W.get i j) := by
  rcases pre_cases W with ⟨_, h, _⟩ | ⟨_, h, _⟩
  · simp only [h, dropLower, zeroDiag, AMat.get_ofFn]
    by_cases hji : j.val ≤ i.val
    · left; simp [hji]
    · right
      have : i ≠ j := fun e => hji (by rw [e])
      simp [hji, this]
  · simp only [h, zeroDiag, AMat.get_ofFn]
    by_cases hij : i = j
    · left; simp [hij]
    · right; simp [hij]

theorem absR_eq (x : ℚ) : absR x = |x| := by
  unfold absR
  split_ifs with h
  · rw [abs_of_neg h]
  · rw [abs_of_nonneg (not_lt.mp h)]

theorem arrayEqualT_iff (M : AMat ℚ n) : arrayEqualT M = true ↔ ∀ i j, M.get i j = M.get j i := by
  simp [arrayEqualT, List.all_eq_true]

/-- **the `ud = 2` branch is taken exactly for exactly symmetric input** (off the diagonal, which is cleared first) -/
theorem pre_sym_iff (W : AMat ℚ n) : (pre W).sym = true ↔ ∀ i j : Fin n, i ≠ j → W.get i j = W.get j i := by
  have key : arrayEqualT (zeroDiag W) = true ↔ ∀ i j : Fin n, i ≠ j → W.get i j = W.get j i := by
    rw [arrayEqualT_iff]
    constructor
    · intro h i j hij
      have := h i j
      simp only [zeroDiag_get, if_neg hij, if_neg (fun e : j = i => hij e.symm)] at this
      exact this
    · intro h i j
      by_cases e : i = j
      · subst e; rfl
      · simp only [zeroDiag_get, if_neg e, if_neg (fun e' : j = i => e e'.symm)]
        exact h i j e
  rcases pre_cases W with ⟨h1, _, h3⟩ | ⟨h1, _, h3⟩
  · rw [h1]; exact ⟨fun _ => key.mp h3, fun _ => rfl⟩
  · rw [h1]
    constructor
    · intro hf; cases hf
    · intro h; rw [key.mpr h] at h3; cases h3

/-- an exactly symmetric matrix takes the `ud = 2` branch -/
theorem pre_sym_of_symmetric (W : AMat ℚ n) (h : ∀ i j, W.get i j = W.get j i) : (pre W).sym = true :=
  (pre_sym_iff W).mpr fun i j _ => h i j

/-! ### the kept set -/

theorem keepMask_get (W1 : AMat ℚ n) (sel : List (Fin n × Fin n)) (en : ℕ) (i j : Fin n) :
    (keepMask W1 sel en).get i j = if (i, j) ∈ sel.drop en then 0 else W1.get i j := by
  simp [keepMask]

theorem keepMask_ne_zero_iff {W1 : AMat ℚ n} {sel : List (Fin n × Fin n)} (hp : sel.Perm (support W1))
    (en : ℕ) (c : Fin n × Fin n) :
    (keepMask W1 sel en).get c.1 c.2 ≠ 0 ↔ c ∈ sel.take en := by
  have hnd : sel.Nodup := hp.nodup_iff.mpr (support_nodup W1)
  have hmem : ∀ c, c ∈ sel ↔ W1.get c.1 c.2 ≠ 0 := fun c => by rw [hp.mem_iff, mem_support]
  have hdisj := List.disjoint_take_drop hnd (le_refl en)
  rw [keepMask_get]
  constructor
  · intro h
    split_ifs at h with hd
    · exact absurd rfl h
    · have : c ∈ sel := (hmem c).mpr h
      rw [← List.take_append_drop en sel, List.mem_append] at this
      rcases this with h1 | h1
      · exact h1
      · exact absurd h1 hd
  · intro h
    have hd : (c.1, c.2) ∉ sel.drop en := fun hd => hdisj h hd
    rw [if_neg hd]
    exact (hmem c).mp (List.mem_of_mem_take h)

theorem keepMask_eq_zero_iff {W1 : AMat ℚ n} {sel : List (Fin n × Fin n)} (_hp : sel.Perm (support W1))
    (en : ℕ) (c : Fin n × Fin n) (hc : W1.get c.1 c.2 ≠ 0) :
    (keepMask W1 sel en).get c.1 c.2 = 0 ↔ c ∈ sel.drop en := by
  rw [keepMask_get]
  constructor
  · intro h
    by_contra hd
    rw [if_neg hd] at h
    exact hc h
  · intro h; rw [if_pos h]

/-- a kept cell keeps its value -/
theorem keepMask_entries (W1 : AMat ℚ n) (sel : List (Fin n × Fin n)) (en : ℕ) (i j : Fin n) :
    (keepMask W1 sel en).get i j = 0 ∨ (keepMask W1 sel en).get i j = W1.get i j := by
  rw [keepMask_get]; split_ifs <;> simp

/-! ### unpacking a successful run -/

/-- number of links to preserve, as a natural number -/
def enNat (W : AMat ℚ n) (p : ℚ) : ℕ := (enOf n p (pre W).sym).toNat

theorem tp_ok {W : AMat ℚ n} {p : ℚ} {order : List ℕ} {R : AMat ℚ n}
    (h : thresholdProportional W p order = .ok R) :
    0 ≤ p ∧ p ≤ 1 ∧ ∃ sel : List (Fin n × Fin n),
      selection (support (pre W).W1) order = .ok sel ∧
      (sel.map (val (pre W).W1)).Pairwise (· ≥ ·) ∧
      R = (if (pre W).sym then symmetrize (keepMask (pre W).W1 sel (enNat W p))
           else keepMask (pre W).W1 sel (enNat W p)) := by
  unfold thresholdProportional at h
  split_ifs at h with hp
  push Not at hp
  refine ⟨hp.2, hp.1, ?_⟩
  simp only at h
  split at h
  · cases h
  · rename_i sel hsel
    by_cases hs : (sel.map (val (pre W).W1)).Pairwise (· ≥ ·)
    · rw [if_pos hs] at h
      refine ⟨sel, hsel, hs, ?_⟩
      injection h with h
      exact h.symm
    · rw [if_neg hs] at h
      cases h

theorem enOf_nonneg (n : ℕ) {p : ℚ} (hp : 0 ≤ p) (s : Bool) : 0 ≤ enOf n p s := by
  unfold enOf
  have : (0 : ℚ) ≤ (((n * n - n : ℕ) : ℚ) * p) / (if s = true then 2 else 1) := by
    apply div_nonneg
    · exact mul_nonneg (Nat.cast_nonneg _) hp
    · split_ifs <;> norm_num
  rw [teachersRound_nonneg this]
  apply Int.floor_nonneg.mpr
  linarith

end Bct.ThreshLemmas
