import BctVerif.Lemmas.WalksAlg
import Mathlib.Analysis.Matrix.Spectrum
import Mathlib.Analysis.Normed.Algebra.MatrixExponential
import Mathlib.Analysis.SpecialFunctions.Exponential
/-!
# The post-processing of `eigenvector_centrality_und` and `subgraph_centrality`, with the eigen-solver as an oracle

The LAPACK calls (`linalg.eig`, `linalg.eigh`) are oracle inputs constrained by their documented contract
(`EigOracle`, `EighOracle`); everything the Python code does *after* the call is modelled literally over ℝ
(`eigCentrality` = `abs(vecs[:, argmax(vals)])`, `subgraphCentrality` = `dot(vecs*vecs, exp(vals))`) and the property
clauses are proved for every oracle output satisfying the contract.
-/
open Matrix Finset NormedSpace

namespace Bct.WalksAlg

variable {n : ℕ}

/-! ## Rayleigh bound from a diagonalisation -/

theorem qf_eq_dot {K : Type} [Field K] (A : Matrix (Fin n) (Fin n) K) (x y : Fin n → K) :
    qf A x y = x ⬝ᵥ (A *ᵥ y) := by
  simp [qf, dotProduct, mulVec]

theorem rayleigh_of_diag {K : Type} [Field K] [LinearOrder K] [IsStrictOrderedRing K]
    (A U : Matrix (Fin n) (Fin n) K) (d : Fin n → K) (hA : A = U * diagonal d * Uᵀ) (hU : U * Uᵀ = 1)
    (lam : K) (hd : ∀ k, d k ≤ lam) (x : Fin n → K) : qf A x x ≤ lam * ∑ i, x i * x i := by
  set y : Fin n → K := Uᵀ *ᵥ x with hy
  have h1 : qf A x x = ∑ k, d k * (y k * y k) := by
    rw [qf_eq_dot, hA, ← mulVec_mulVec, ← mulVec_mulVec, dotProduct_mulVec, ← mulVec_transpose, ← hy]
    simp only [dotProduct, mulVec_diagonal]
    refine Finset.sum_congr rfl (fun k _ => ?_); ring
  have h2 : ∑ i, x i * x i = ∑ k, y k * y k := by
    have : x = (U * Uᵀ) *ᵥ x := by rw [hU, one_mulVec]
    calc ∑ i, x i * x i = x ⬝ᵥ x := rfl
      _ = x ⬝ᵥ ((U * Uᵀ) *ᵥ x) := by rw [← this]
      _ = y ⬝ᵥ y := by rw [← mulVec_mulVec, dotProduct_mulVec, ← mulVec_transpose]
      _ = ∑ k, y k * y k := rfl
  rw [h1, h2, Finset.mul_sum]
  exact Finset.sum_le_sum (fun k _ => mul_le_mul_of_nonneg_right (hd k) (mul_self_nonneg _))

/-- real symmetric `A`: if no eigenvalue exceeds `lam` then `xᵀAx ≤ lam·xᵀx` for every `x` (spectral theorem) -/
theorem rayleigh_le_of_eigs (A : Matrix (Fin n) (Fin n) ℝ) (hsym : ∀ i j, A i j = A j i) (lam : ℝ)
    (hlam : ∀ (μ : ℝ) (x : Fin n → ℝ), x ≠ 0 → A *ᵥ x = μ • x → μ ≤ lam) (x : Fin n → ℝ) :
    qf A x x ≤ lam * ∑ i, x i * x i := by
  have hH : A.IsHermitian := by
    ext i j; simp [conjTranspose_apply, hsym j i]
  have hsp := hH.spectral_theorem
  rw [Unitary.conjStarAlgAut_apply] at hsp
  set U : Matrix (Fin n) (Fin n) ℝ := (hH.eigenvectorUnitary : Matrix (Fin n) (Fin n) ℝ) with hUdef
  have hstar : star U = Uᵀ := by
    ext i j; simp [star_apply]
  have hUU : U * Uᵀ = 1 := by
    rw [← hstar]; exact Unitary.coe_mul_star_self hH.eigenvectorUnitary
  have hA' : A = U * diagonal hH.eigenvalues * Uᵀ := by
    rw [← hstar]
    have hid : (RCLike.ofReal ∘ hH.eigenvalues : Fin n → ℝ) = hH.eigenvalues := by
      ext k; simp
    rw [hid] at hsp
    exact hsp
  refine rayleigh_of_diag A U hH.eigenvalues hA' hUU lam (fun k => ?_) x
  refine hlam (hH.eigenvalues k) (⇑(hH.eigenvectorBasis k)) ?_ (hH.mulVec_eigenvectorBasis k)
  intro h0
  have hne := hH.eigenvectorBasis.orthonormal.ne_zero k
  apply hne
  ext i
  simpa using congrFun h0 i

/-! ## eigenvector centrality -/

/-- contract of `vals, vecs = linalg.eig(A)` as far as the routine uses it (`i` is the column it selects): column `i` is a real
unit eigenvector for `vals i`, and `vals` lists every (real) eigenvalue of `A`.  Nothing is assumed about the other columns
(for a repeated non-maximal eigenvalue LAPACK may return a complex-conjugate pair of columns). -/
structure EigOracle (A : Matrix (Fin n) (Fin n) ℝ) (vals : Fin n → ℝ) (vecs : Matrix (Fin n) (Fin n) ℝ) (i : Fin n) : Prop where
  eigen : A *ᵥ (fun r => vecs r i) = vals i • fun r => vecs r i
  unit : ∑ r, vecs r i * vecs r i = 1
  complete : ∀ (μ : ℝ) (x : Fin n → ℝ), x ≠ 0 → A *ᵥ x = μ • x → ∃ k, vals k = μ

/-- `i = np.argmax(vals)`: an index of a maximal entry (that numpy returns the first one is irrelevant here) -/
def IsArgmax {K : Type} [LinearOrder K] (vals : Fin n → K) (i : Fin n) : Prop := ∀ k, vals k ≤ vals i

/-- `np.abs(vecs[:, i])` -/
def eigCentrality {K : Type} [Lattice K] [AddGroup K] (vecs : Matrix (Fin n) (Fin n) K) (i : Fin n) : Fin n → K :=
  fun r => |vecs r i|

/-- **eigenvector_centrality_und** (post-processing as coded, eigen-solver an oracle): for a symmetric matrix with
non-negative entries the returned vector is non-negative, has unit 2-norm and satisfies `A v = λ_max v`, where
`λ_max = vals i` is an eigenvalue that no eigenvalue of `A` exceeds.  No connectivity / simplicity assumption. -/
theorem eigenvector_spec (A : Matrix (Fin n) (Fin n) ℝ) (hsym : ∀ i j, A i j = A j i) (hpos : ∀ i j, 0 ≤ A i j)
    (vals : Fin n → ℝ) (vecs : Matrix (Fin n) (Fin n) ℝ) (i : Fin n) (ho : EigOracle A vals vecs i) (hi : IsArgmax vals i) :
    (∀ r, 0 ≤ eigCentrality vecs i r) ∧
    (∑ r, eigCentrality vecs i r * eigCentrality vecs i r = 1) ∧
    (A *ᵥ eigCentrality vecs i = vals i • eigCentrality vecs i) ∧
    (∀ (μ : ℝ) (x : Fin n → ℝ), x ≠ 0 → A *ᵥ x = μ • x → μ ≤ vals i) := by
  have hmaxeig : ∀ (μ : ℝ) (x : Fin n → ℝ), x ≠ 0 → A *ᵥ x = μ • x → μ ≤ vals i := by
    intro μ x hx hAx
    obtain ⟨k, hk⟩ := ho.complete μ x hx hAx
    rw [← hk]; exact hi k
  have hray := rayleigh_le_of_eigs A hsym (vals i) hmaxeig
  have hv : ∀ r, ∑ j, A r j * vecs j i = vals i * vecs r i := by
    intro r
    have := congrFun ho.eigen r
    simpa [mulVec, dotProduct] using this
  have habs := abs_eigvec_of_max A hsym hpos (vals i) hray (fun r => vecs r i) hv
  refine ⟨fun r => abs_nonneg _, ?_, ?_, hmaxeig⟩
  · simp only [eigCentrality, abs_mul_abs_self]; exact ho.unit
  · ext r
    simpa [mulVec, dotProduct, eigCentrality] using habs r

/-! ## subgraph centrality -/

/-- contract of `vals, vecs = linalg.eigh(A)`: orthonormal columns diagonalising `A` -/
structure EighOracle (A : Matrix (Fin n) (Fin n) ℝ) (vals : Fin n → ℝ) (vecs : Matrix (Fin n) (Fin n) ℝ) : Prop where
  eigen : A * vecs = vecs * diagonal vals
  orth : vecs * vecsᵀ = 1

/-- `np.dot(vecs * vecs, np.exp(vals))` -/
noncomputable def subgraphCentrality (vals : Fin n → ℝ) (vecs : Matrix (Fin n) (Fin n) ℝ) : Fin n → ℝ :=
  fun i => ∑ k, vecs i k * vecs i k * Real.exp (vals k)

theorem exp_of_eigh (A V : Matrix (Fin n) (Fin n) ℝ) (lam : Fin n → ℝ)
    (hAV : A * V = V * diagonal lam) (hV : V * Vᵀ = 1) (i j : Fin n) :
    (exp A) i j = ∑ k, V i k * Real.exp (lam k) * V j k := by
  have hinv : V⁻¹ = Vᵀ := Matrix.inv_eq_right_inv hV
  have hunit : IsUnit V := (Matrix.isUnit_iff_isUnit_det _).mpr (Matrix.isUnit_det_of_right_inverse hV)
  have hA : A = V * diagonal lam * V⁻¹ := by
    rw [← hAV, hinv, Matrix.mul_assoc, hV, Matrix.mul_one]
  rw [hA, Matrix.exp_conj V _ hunit, Matrix.exp_diagonal, hinv, Matrix.mul_apply]
  refine Finset.sum_congr rfl (fun k _ => ?_)
  rw [Matrix.mul_diagonal, Matrix.transpose_apply, Pi.exp_def, Real.exp_eq_exp_ℝ]

/-- **subgraph_centrality** (post-processing as coded, `eigh` an oracle): the returned vector is the diagonal of the
matrix exponential `exp A` (Mathlib's `NormedSpace.exp` on real matrices) -/
theorem subgraph_spec (A : Matrix (Fin n) (Fin n) ℝ) (vals : Fin n → ℝ) (vecs : Matrix (Fin n) (Fin n) ℝ)
    (ho : EighOracle A vals vecs) (i : Fin n) :
    subgraphCentrality vals vecs i = (exp A) i i := by
  rw [exp_of_eigh A vecs vals ho.eigen ho.orth i i]
  refine Finset.sum_congr rfl (fun k _ => ?_); ring

end Bct.WalksAlg
