import BctVerif.Model.Cluster
import Mathlib.Algebra.BigOperators.Fin
import Mathlib.Algebra.BigOperators.Ring.Finset
import Mathlib.Algebra.Order.BigOperators.Group.Finset
import Mathlib.Algebra.Order.BigOperators.Ring.Finset
import Mathlib.Algebra.Order.Field.Basic
import Mathlib.Data.Fintype.BigOperators
import Mathlib.Tactic
/-!
# Bridging lemmas for the `Cluster` model

* generic part (any linearly ordered field `K`, used at `K = ℚ` for the executable model and at `K = ℝ`
  for arbitrary real weights): domain predicates, the adjacency indicator `indK`/`adjK`, the sign parts;
* `ℚ` part: from the `Vector`/`List` code of the model to `Finset` sums.
-/
namespace Bct.Cluster
open Finset Bct

variable {n : ℕ}

@[simp] theorem map_get {α β : Type} (f : α → β) (A : AMat α n) (i j : Fin n) :
    (AMat.map f A).get i j = f (A.get i j) := by simp [AMat.map]

theorem get_ofFn_vec {α} (f : Fin n → α) (i : Fin n) : (Vector.ofFn f)[i] = f i := by simp

section Generic
variable {K : Type} [Field K] [LinearOrder K] [IsStrictOrderedRing K]

/-! ### domain predicates used by the property theorems -/

/-- every entry is 0 or 1 -/
def Bin (A : AMat K n) : Prop := ∀ i j, A.get i j = 0 ∨ A.get i j = 1
/-- undirected network -/
def Symm (A : AMat K n) : Prop := ∀ i j, A.get i j = A.get j i
/-- no self-connections -/
def EmptyDiag (A : AMat K n) : Prop := ∀ i, A.get i i = 0
/-- `R` is the entrywise cube root of `W` -/
def IsCbrt (R W : AMat K n) : Prop := ∀ i j, R.get i j ^ 3 = W.get i j
/-- weights in [0,1] -/
def In01 (W : AMat K n) : Prop := ∀ i j, 0 ≤ W.get i j ∧ W.get i j ≤ 1
/-- weights in [-1,1] -/
def InPm1 (W : AMat K n) : Prop := ∀ i j, -1 ≤ W.get i j ∧ W.get i j ≤ 1
/-- `i` and `j` are linked in at least one direction -/
def Nb (W : AMat K n) (i j : Fin n) : Prop := W.get i j ≠ 0 ∨ W.get j i ≠ 0

/-- `np.logical_not(x == 0).astype(float)` on one entry -/
def indK (x : K) : K := if x = 0 then 0 else 1
/-- adjacency matrix / `binarize` -/
def adjK (W : AMat K n) : AMat K n := AMat.map indK W
/-- `W.copy(); np.fill_diagonal(W, 0)` -/
def zeroDiagK (W : AMat K n) : AMat K n := AMat.ofFn fun i j => if i = j then 0 else W.get i j
/-- `W * (W > 0)` -/
def posPartK (W : AMat K n) : AMat K n := AMat.map (fun x => if 0 < x then x else 0) W
/-- `-W * (W < 0)` -/
def negPartK (W : AMat K n) : AMat K n := AMat.map (fun x => if x < 0 then -x else 0) W

@[simp] theorem adjK_get (W : AMat K n) (i j : Fin n) : (adjK W).get i j = indK (W.get i j) := by
  simp [adjK]

theorem ind_bin (x : K) : indK x = 0 ∨ indK x = 1 := by unfold indK; split_ifs <;> simp
theorem ind_eq_zero {x : K} : indK x = 0 ↔ x = 0 := by unfold indK; split_ifs <;> simp [*]
theorem ind_of_bin {x : K} (h : x = 0 ∨ x = 1) : indK x = x := by rcases h with h | h <;> simp [indK, h]
theorem ind_nonneg (x : K) : 0 ≤ indK x := by rcases ind_bin x with h | h <;> simp [h]
theorem ind_le_one (x : K) : indK x ≤ 1 := by rcases ind_bin x with h | h <;> simp [h]
theorem ind_ind (x : K) : indK (indK x) = indK x := ind_of_bin (ind_bin x)

theorem adj_bin (W : AMat K n) : Bin (adjK W) := fun i j => by simpa using ind_bin _
theorem adj_of_bin {W : AMat K n} (h : Bin W) : adjK W = W :=
  AMat.ext_get fun i j => by simpa using ind_of_bin (h i j)
theorem adj_symm {W : AMat K n} (h : Symm W) : Symm (adjK W) := fun i j => by simp [h i j]
theorem adj_emptyDiag {W : AMat K n} (h : EmptyDiag W) : EmptyDiag (adjK W) := fun i => by simp [h i, indK]
theorem adj_adj (W : AMat K n) : adjK (adjK W) = adjK W := adj_of_bin (adj_bin W)

@[simp] theorem zeroDiag_get (W : AMat K n) (i j : Fin n) :
    (zeroDiagK W).get i j = if i = j then 0 else W.get i j := by simp [zeroDiagK]
@[simp] theorem posPart_get (W : AMat K n) (i j : Fin n) :
    (posPartK W).get i j = if 0 < W.get i j then W.get i j else 0 := by simp [posPartK]
@[simp] theorem negPart_get (W : AMat K n) (i j : Fin n) :
    (negPartK W).get i j = if W.get i j < 0 then -W.get i j else 0 := by simp [negPartK]

end Generic

/-! ### the `ℚ` model: sums and cell access -/

theorem vsum_eq (f : Fin n → ℚ) : vsum f = ∑ i, f i := by
  unfold vsum; rw [Fin.sum_univ_def]

@[simp] theorem mmul_get (A B : AMat ℚ n) (i j : Fin n) :
    (mmul A B).get i j = ∑ k, A.get i k * B.get k j := by
  simp [mmul, vsum_eq]

@[simp] theorem madd_get (A B : AMat ℚ n) (i j : Fin n) :
    (madd A B).get i j = A.get i j + B.get i j := by simp [madd]

@[simp] theorem transpose_get (A : AMat ℚ n) (i j : Fin n) : (AMat.transpose A).get i j = A.get j i := by
  simp [AMat.transpose]

theorem ind_eq (x : ℚ) : ind x = indK x := by unfold ind indK; split_ifs <;> rfl
theorem adj_eq (W : AMat ℚ n) : adj W = adjK W :=
  AMat.ext_get fun i j => by simp [adj, ind_eq]
theorem zeroDiag_eq (W : AMat ℚ n) : zeroDiag W = zeroDiagK W :=
  AMat.ext_get fun i j => by simp [zeroDiag]
theorem posPart_eq (W : AMat ℚ n) : posPart W = posPartK W :=
  AMat.ext_get fun i j => by simp [posPart]
theorem negPart_eq (W : AMat ℚ n) : negPart W = negPartK W :=
  AMat.ext_get fun i j => by simp [negPart]

@[simp] theorem adj_get (W : AMat ℚ n) (i j : Fin n) : (adj W).get i j = indK (W.get i j) := by
  simp [adj_eq]

theorem rowSum_eq (A : AMat ℚ n) (i : Fin n) : rowSum A i = ∑ j, A.get i j := by simp [rowSum, vsum_eq]
theorem colSum_eq (A : AMat ℚ n) (j : Fin n) : colSum A j = ∑ i, A.get i j := by simp [colSum, vsum_eq]
theorem trace_eq (A : AMat ℚ n) : trace A = ∑ i, A.get i i := by simp [trace, vsum_eq]
theorem total_eq (A : AMat ℚ n) : total A = ∑ i, ∑ j, A.get i j := by simp [total, vsum_eq]

/-- `diag_cube`: the diagonal of the coded matrix cube is the sum over node triples -/
theorem diag_cube (S : AMat ℚ n) (i : Fin n) :
    (mmul S (mmul S S)).get i i = ∑ j, ∑ k, S.get i j * S.get j k * S.get k i := by
  simp only [mmul_get, Finset.mul_sum, mul_assoc]

end Bct.Cluster
