import BctVerif.Model.Cluster
import Mathlib.Algebra.BigOperators.Fin
import Mathlib.Algebra.BigOperators.Ring.Finset
import Mathlib.Algebra.Order.BigOperators.Group.Finset
import Mathlib.Algebra.Order.BigOperators.Ring.Finset
import Mathlib.Data.Fintype.BigOperators
import Mathlib.Tactic
/-!
# Bridging lemmas for the `Cluster` model: from `Vector`/`List` code to `Finset` sums
-/
namespace Bct.Cluster
open Finset Bct

variable {n : ℕ}

/-! ### domain predicates used by the property theorems -/

/-- every entry is 0 or 1 -/
def Bin (A : AMat ℚ n) : Prop := ∀ i j, A.get i j = 0 ∨ A.get i j = 1
/-- undirected network -/
def Symm (A : AMat ℚ n) : Prop := ∀ i j, A.get i j = A.get j i
/-- no self-connections -/
def EmptyDiag (A : AMat ℚ n) : Prop := ∀ i, A.get i i = 0
/-- `R` is the entrywise (real) cube root of `W` -/
def IsCbrt (R W : AMat ℚ n) : Prop := ∀ i j, R.get i j ^ 3 = W.get i j
/-- weights in [0,1] -/
def In01 (W : AMat ℚ n) : Prop := ∀ i j, 0 ≤ W.get i j ∧ W.get i j ≤ 1
/-- `i` and `j` are linked in at least one direction -/
def Nb (W : AMat ℚ n) (i j : Fin n) : Prop := W.get i j ≠ 0 ∨ W.get j i ≠ 0

/-! ### sums and cell access -/

theorem vsum_eq (f : Fin n → ℚ) : vsum f = ∑ i, f i := by
  unfold vsum; rw [Fin.sum_univ_def]

@[simp] theorem mmul_get (A B : AMat ℚ n) (i j : Fin n) :
    (mmul A B).get i j = ∑ k, A.get i k * B.get k j := by
  simp [mmul, vsum_eq]

@[simp] theorem madd_get (A B : AMat ℚ n) (i j : Fin n) :
    (madd A B).get i j = A.get i j + B.get i j := by simp [madd]

@[simp] theorem transpose_get (A : AMat ℚ n) (i j : Fin n) : (AMat.transpose A).get i j = A.get j i := by
  simp [AMat.transpose]

@[simp] theorem map_get (f : ℚ → ℚ) (A : AMat ℚ n) (i j : Fin n) : (AMat.map f A).get i j = f (A.get i j) := by
  simp [AMat.map]

@[simp] theorem adj_get (W : AMat ℚ n) (i j : Fin n) : (adj W).get i j = ind (W.get i j) := by
  simp [adj]

theorem rowSum_eq (A : AMat ℚ n) (i : Fin n) : rowSum A i = ∑ j, A.get i j := by simp [rowSum, vsum_eq]
theorem colSum_eq (A : AMat ℚ n) (j : Fin n) : colSum A j = ∑ i, A.get i j := by simp [colSum, vsum_eq]
theorem trace_eq (A : AMat ℚ n) : trace A = ∑ i, A.get i i := by simp [trace, vsum_eq]
theorem total_eq (A : AMat ℚ n) : total A = ∑ i, ∑ j, A.get i j := by simp [total, vsum_eq]

/-- `diag_cube`: the diagonal of the coded matrix cube is the sum over node triples -/
theorem diag_cube (S : AMat ℚ n) (i : Fin n) :
    (mmul S (mmul S S)).get i i = ∑ j, ∑ k, S.get i j * S.get j k * S.get k i := by
  simp only [mmul_get, Finset.mul_sum, mul_assoc]

theorem ind_bin (x : ℚ) : ind x = 0 ∨ ind x = 1 := by unfold ind; split_ifs <;> simp
theorem ind_eq_zero {x : ℚ} : ind x = 0 ↔ x = 0 := by unfold ind; split_ifs <;> simp [*]
theorem ind_of_bin {x : ℚ} (h : x = 0 ∨ x = 1) : ind x = x := by rcases h with h | h <;> simp [ind, h]
theorem ind_nonneg (x : ℚ) : 0 ≤ ind x := by rcases ind_bin x with h | h <;> simp [h]
theorem ind_le_one (x : ℚ) : ind x ≤ 1 := by rcases ind_bin x with h | h <;> simp [h]
theorem ind_ind (x : ℚ) : ind (ind x) = ind x := ind_of_bin (ind_bin x)

theorem adj_bin (W : AMat ℚ n) : Bin (adj W) := fun i j => by simpa using ind_bin _
theorem adj_of_bin {W : AMat ℚ n} (h : Bin W) : adj W = W :=
  AMat.ext_get fun i j => by simpa using ind_of_bin (h i j)
theorem adj_symm {W : AMat ℚ n} (h : Symm W) : Symm (adj W) := fun i j => by simp [h i j]
theorem adj_emptyDiag {W : AMat ℚ n} (h : EmptyDiag W) : EmptyDiag (adj W) := fun i => by simp [h i, ind]

theorem get_ofFn_vec {α} (f : Fin n → α) (i : Fin n) : (Vector.ofFn f)[i] = f i := by simp

end Bct.Cluster
