import BctVerif.Lemmas.NbsObs
import BctVerif.Model.Comp
/-!
# The component finder inside the NBS model is the `get_components` model of C16 (`Model/Comp.lean`)
-/
namespace Bct.Nbs

variable {n : ℕ}

theorem scan_eq_comp (ss : List (NSet n)) (item : NSet n) (temp : List (NSet n)) :
    scan ss item temp = Comp.scan ss item temp := by
  induction ss generalizing item temp with
  | nil => rfl
  | cons s ss ih =>
    simp only [scan, Comp.scan]
    have hd : disjointS s item = Comp.NSet.disjoint s item := rfl
    have hu : unionS s item = Comp.NSet.union s item := rfl
    rw [hd, hu]
    split_ifs <;> exact ih _ _

/-- the sets computed inside `nbs` are, in the same order, the `union_sets` of the `get_components` model of C16 -/
theorem components_eq_comp (A : AMat Int n) : components A = Comp.unionSets A := by
  unfold components Comp.unionSets
  have he : edgeMap A = Comp.edgeList A := rfl
  rw [he]
  generalize Comp.edgeList A = es
  suffices h : ∀ acc : List (NSet n), es.foldl (fun sets e => scan sets (pairSet e.1 e.2) []) acc
      = es.foldl (fun sets e => Comp.scan sets (Comp.NSet.pair e.1 e.2) []) acc from h []
  induction es with
  | nil => intro acc; rfl
  | cons e es ih =>
    intro acc
    simp only [List.foldl_cons]
    rw [scan_eq_comp]
    exact ih _

theorem sizeS_eq_comp (s : NSet n) : sizeS s = Comp.NSet.size s := by
  unfold sizeS Comp.NSet.size
  rw [List.countP_eq_length_filter]

end Bct.Nbs
