import BctVerif.Lemmas.MeasuresAlg
/-!
# `flow_coef_bd`: the index test `np.where(nb)[0].size` is harmless, and the measure is equivariant
-/
namespace Bct.Measures
open Bct

variable {n : Nat} (σ : Equiv.Perm (Fin n))

theorem fany_eq_false {f : Fin n → Bool} : fany f = false ↔ ∀ i, f i = false := by
  unfold fany; simp

theorem fsum_zero {α : Type} [AddCommMonoid α] (f : Fin n → α) (h : ∀ i, f i = 0) : fsum f = 0 := by
  rw [fsum_eq_sum]; exact Finset.sum_eq_zero fun i _ => h i

/-- an indicator sum over a property that holds for at most one index is idempotent -/
theorem indicator_sq (p : Fin n → Prop) [DecidablePred p] (h : ∀ u w, p u → p w → u = w) :
    (fsum fun u => if p u then (1 : Int) else 0) * (fsum fun u => if p u then (1 : Int) else 0) =
      fsum fun u => if p u then (1 : Int) else 0 := by
  simp only [fsum_eq_sum]
  rw [Finset.sum_mul_sum]
  refine Finset.sum_congr rfl fun u _ => ?_
  have : (if p u then (1 : Int) else 0) = ∑ w, if u = w then (if p u then (1 : Int) else 0) else 0 := by simp
  rw [this]
  refine Finset.sum_congr rfl fun w _ => ?_
  by_cases hu : p u <;> by_cases hw : p w
  · have := h u w hu hw; subst this; simp [hu]
  · have : u ≠ w := fun e => hw (e ▸ hu)
    simp [hu, hw, this]
  · simp [hu]
  · simp [hu]

theorem flowNodeSpec_perm (A : AMat Int n) (v : Fin n) : flowNodeSpec (permA σ A) v = flowNodeSpec A (σ v) := by
  simp only [flowNodeSpec, permA_get]
  have hm : (fsum fun u => if A.get (σ v) (σ u) + A.get (σ u) (σ v) ≠ 0 then (1 : Int) else 0) =
      fsum fun u => if A.get (σ v) u + A.get u (σ v) ≠ 0 then (1 : Int) else 0 := fsum_congr_perm σ _ _ (fun _ => rfl)
  have ht : (fsum fun i => fsum fun j =>
        if A.get (σ v) (σ i) + A.get (σ i) (σ v) ≠ 0 ∧ A.get (σ v) (σ j) + A.get (σ j) (σ v) ≠ 0 ∧ i ≠ j ∧
          (- A.get (σ i) (σ j) + (if A.get (σ i) (σ v) ≠ 0 ∧ A.get (σ v) (σ j) ≠ 0 then 1 else 0) = 1) then (1 : Int) else 0) =
      fsum fun i => fsum fun j =>
        if A.get (σ v) i + A.get i (σ v) ≠ 0 ∧ A.get (σ v) j + A.get j (σ v) ≠ 0 ∧ i ≠ j ∧
          (- A.get i j + (if A.get i (σ v) ≠ 0 ∧ A.get (σ v) j ≠ 0 then 1 else 0) = 1) then (1 : Int) else 0 :=
    fsum2_congr_perm σ _ _ (fun i j => by simp)
  rw [hm, ht]

/-- the branch taken when no neighbour has a nonzero index returns what the general formula returns
(after `fc[np.isnan(fc)] = 0`) -/
theorem flowNode_eq_spec (A : AMat Int n) (v : Fin n) :
    nanToZero (flowNode A v).1 = nanToZero (flowNodeSpec A v).1 ∧ (flowNode A v).2 = (flowNodeSpec A v).2 := by
  by_cases hidx : (fany fun u : Fin n => decide (A.get v u + A.get u v ≠ 0) && u.val != 0) = true
  · simp only [flowNode, flowNodeSpec, hidx, if_true, and_self]
  · have hf : (fany fun u : Fin n => decide (A.get v u + A.get u v ≠ 0) && u.val != 0) = false := by
      simpa using hidx
    have h0 : ∀ u : Fin n, A.get v u + A.get u v ≠ 0 → u.val = 0 := by
      intro u hu
      have := (fany_eq_false.mp hf) u
      simp only [Bool.and_eq_false_iff, decide_eq_false_iff_not, bne_eq_false_iff_eq] at this
      rcases this with h | h
      · exact absurd hu h
      · exact h
    have huniq : ∀ u w : Fin n, A.get v u + A.get u v ≠ 0 → A.get v w + A.get w v ≠ 0 → u = w :=
      fun u w hu hw => Fin.ext (by rw [h0 u hu, h0 w hw])
    have htot : (fsum fun i => fsum fun j =>
        if A.get v i + A.get i v ≠ 0 ∧ A.get v j + A.get j v ≠ 0 ∧ i ≠ j ∧
          (- A.get i j + (if A.get i v ≠ 0 ∧ A.get v j ≠ 0 then 1 else 0) = 1) then (1 : Int) else 0) = 0 := by
      apply fsum_zero; intro i; apply fsum_zero; intro j
      rw [if_neg]
      rintro ⟨hi, hj, hne, _⟩
      exact hne (huniq i j hi hj)
    have hm := indicator_sq (fun u : Fin n => A.get v u + A.get u v ≠ 0) huniq
    simp only [flowNode, flowNodeSpec, hf, Bool.false_eq_true, if_false]
    rw [htot, hm]
    simp [xdiv, nanToZero]

theorem flowCoef_perm (A : AMat Int n) :
    flowCoef (permA σ A) = (permVec σ (flowCoef A).1, permVec σ (flowCoef A).2) := by
  simp only [flowCoef, Prod.mk.injEq]
  refine ⟨?_, ?_⟩
  · apply vec_ext; intro v
    simp only [vget_ofFn, permVec_get]
    rw [(flowNode_eq_spec (permA σ A) v).1, (flowNode_eq_spec A (σ v)).1, flowNodeSpec_perm]
  · apply vec_ext; intro v
    simp only [vget_ofFn, permVec_get]
    rw [(flowNode_eq_spec (permA σ A) v).2, (flowNode_eq_spec A (σ v)).2, flowNodeSpec_perm]

theorem flowFC_perm (A : AMat Int n) : flowFC (permA σ A) = flowFC A := by
  unfold flowFC
  rw [flowCoef_perm]
  have : (fsum fun v => xval (vget (permVec σ (flowCoef A).1) v)) = fsum fun v => xval (vget (flowCoef A).1 v) :=
    fsum_congr_perm σ _ _ (fun v => by simp)
  rw [this]

end Bct.Measures
