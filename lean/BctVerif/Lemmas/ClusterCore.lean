import BctVerif.Lemmas.ClusterUnfold
import BctVerif.Lemmas.ClusterBound
/-!
# Facts about the triangle sums `tri`, `triS` and the pair counts `deg`, `degS`, `pairsS`
-/
namespace Bct.Cluster
open Finset Bct

variable {n : ℕ} {K : Type} [Field K] [LinearOrder K] [IsStrictOrderedRing K]

theorem perNode_zero (d : K) : perNodeK 0 d = some 0 := by simp [perNodeK]
theorem perNode_of_ne {c d : K} (hc : c ≠ 0) (hd : d ≠ 0) : perNodeK c d = some (c / d) := by
  simp [perNodeK, hc, hd]
/-- whenever a nonzero numerator forces a nonzero denominator, `perNodeK` is a genuine quotient -/
theorem perNode_eq_div {c d : K} (h : c ≠ 0 → d ≠ 0) : perNodeK c d = some (c / d) := by
  by_cases hc : c = 0
  · simp [perNodeK, hc]
  · exact perNode_of_ne hc (h hc)
theorem perNode_scale {c d t : K} (ht : t ≠ 0) : perNodeK (t * c) (t * d) = perNodeK c d := by
  by_cases hc : c = 0
  · simp [perNodeK, hc]
  · by_cases hd : d = 0
    · simp [perNodeK, hc, hd, ht]
    · rw [perNode_of_ne (mul_ne_zero ht hc) (mul_ne_zero ht hd), perNode_of_ne hc hd, mul_div_mul_left _ _ ht]
theorem gdiv_scale {c d t : K} (ht : t ≠ 0) : gdivK (t * c) (t * d) = gdivK c d := by
  by_cases hd : d = 0
  · simp [gdivK, hd]
  · simp [gdivK, hd, ht, mul_div_mul_left _ _ ht]

theorem isCbrt_zero_iff {R W : AMat K n} (h : IsCbrt R W) (i j : Fin n) : R.get i j = 0 ↔ W.get i j = 0 := by
  rw [← h i j]; simp
theorem isCbrt_emptyDiag {R W : AMat K n} (h : IsCbrt R W) (hd : EmptyDiag W) : EmptyDiag R :=
  fun i => (isCbrt_zero_iff h i i).mpr (hd i)
theorem cube_inj {x y : K} (h : x ^ 3 = y ^ 3) : x = y :=
  (Odd.strictMono_pow (by decide : Odd 3)).injective h
theorem isCbrt_symm {R W : AMat K n} (h : IsCbrt R W) (hs : Symm W) : Symm R :=
  fun i j => cube_inj (by rw [h i j, h j i, hs i j])
theorem isCbrt_of_bin {W : AMat K n} (h : Bin W) : IsCbrt W W := fun i j => by
  rcases h i j with h | h <;> simp [h]
theorem isCbrt_nonneg {R W : AMat K n} (h : IsCbrt R W) (i j : Fin n) (hw : 0 ≤ W.get i j) : 0 ≤ R.get i j := by
  by_contra hneg
  have : R.get i j ^ 3 < 0 := Odd.pow_neg (by decide) (not_le.mp hneg)
  rw [h i j] at this; linarith
theorem isCbrt_le_one {R W : AMat K n} (h : IsCbrt R W) (i j : Fin n) (hw : W.get i j ≤ 1) : R.get i j ≤ 1 := by
  by_contra hgt
  have h1 : (1:K) < R.get i j := not_le.mp hgt
  have : (1:K) < R.get i j ^ 3 := one_lt_pow₀ h1 (by norm_num)
  rw [h i j] at this; linarith
/-- a root in [0,1] is dominated by the adjacency indicator -/
theorem isCbrt_le_ind {R W : AMat K n} (h : IsCbrt R W) (hw : In01 W) (i j : Fin n) :
    R.get i j ≤ indK (W.get i j) := by
  by_cases h0 : W.get i j = 0
  · rw [(isCbrt_zero_iff h i j).mpr h0, h0]; simp [indK]
  · simpa [indK, h0] using isCbrt_le_one h i j (hw i j).2

/-! ### a nonzero triangle sum exhibits two distinct neighbours -/

theorem triS_ne_zero {R : AMat K n} (hd : EmptyDiag R) {i : Fin n} (h : triS R i ≠ 0) :
    ∃ j k, j ≠ k ∧ R.get i j + R.get j i ≠ 0 ∧ R.get j k + R.get k j ≠ 0 ∧ R.get k i + R.get i k ≠ 0 := by
  obtain ⟨j, -, hj⟩ := Finset.exists_ne_zero_of_sum_ne_zero h
  obtain ⟨k, -, hk⟩ := Finset.exists_ne_zero_of_sum_ne_zero hj
  have h1 := left_ne_zero_of_mul (left_ne_zero_of_mul hk)
  have h2 := right_ne_zero_of_mul (left_ne_zero_of_mul hk)
  have h3 := right_ne_zero_of_mul hk
  refine ⟨j, k, ?_, h1, h2, h3⟩
  rintro rfl
  exact h2 (by simp [hd j])

theorem tri_ne_zero {R : AMat K n} (hd : EmptyDiag R) {i : Fin n} (h : tri R i ≠ 0) :
    ∃ j k, j ≠ k ∧ R.get i j ≠ 0 ∧ R.get j k ≠ 0 ∧ R.get k i ≠ 0 := by
  obtain ⟨j, -, hj⟩ := Finset.exists_ne_zero_of_sum_ne_zero h
  obtain ⟨k, -, hk⟩ := Finset.exists_ne_zero_of_sum_ne_zero hj
  have h1 := left_ne_zero_of_mul (left_ne_zero_of_mul hk)
  have h2 := right_ne_zero_of_mul (left_ne_zero_of_mul hk)
  have h3 := right_ne_zero_of_mul hk
  refine ⟨j, k, ?_, h1, h2, h3⟩
  rintro rfl
  exact h2 (hd j)

theorem pairsS_eq_pairs {A : AMat K n} (hA : Bin A) (i : Fin n) :
    pairsS A i = ∑ j, ∑ k, (if j = k then 0 else (A.get i j + A.get j i) * (A.get i k + A.get k i)) :=
  pairs_identity (fun x y => A.get x y) hA i

theorem bin_nonneg {A : AMat K n} (hA : Bin A) (i j : Fin n) : 0 ≤ A.get i j := by
  rcases hA i j with h | h <;> simp [h]
theorem bin_le_one {A : AMat K n} (hA : Bin A) (i j : Fin n) : A.get i j ≤ 1 := by
  rcases hA i j with h | h <;> simp [h]
theorem bin_sq {A : AMat K n} (hA : Bin A) (i j : Fin n) : A.get i j * A.get i j = A.get i j := by
  rcases hA i j with h | h <;> simp [h]
theorem bin_one_le {A : AMat K n} (hA : Bin A) {i j : Fin n} (h : A.get i j ≠ 0) : 1 ≤ A.get i j := by
  rcases hA i j with h' | h' <;> simp_all

theorem pairsS_pos {A : AMat K n} (hA : Bin A) {i j k : Fin n} (hjk : j ≠ k)
    (hj : 1 ≤ A.get i j + A.get j i) (hk : 1 ≤ A.get i k + A.get k i) : 0 < pairsS A i := by
  rw [pairsS_eq_pairs hA]
  have hnn : ∀ x y, 0 ≤ (if x = y then (0:K) else (A.get i x + A.get x i) * (A.get i y + A.get y i)) := by
    intro x y; split_ifs
    · exact le_rfl
    · exact mul_nonneg (add_nonneg (bin_nonneg hA _ _) (bin_nonneg hA _ _)) (add_nonneg (bin_nonneg hA _ _) (bin_nonneg hA _ _))
  have h1 : ∑ k', (if j = k' then (0:K) else (A.get i j + A.get j i) * (A.get i k' + A.get k' i))
      ≤ ∑ j', ∑ k', (if j' = k' then (0:K) else (A.get i j' + A.get j' i) * (A.get i k' + A.get k' i)) :=
    Finset.single_le_sum (f := fun j' => ∑ k', (if j' = k' then (0:K) else (A.get i j' + A.get j' i) * (A.get i k' + A.get k' i)))
      (fun x _ => Finset.sum_nonneg (fun y _ => hnn x y)) (Finset.mem_univ j)
  have h2 : (if j = k then (0:K) else (A.get i j + A.get j i) * (A.get i k + A.get k i))
      ≤ ∑ k', (if j = k' then (0:K) else (A.get i j + A.get j i) * (A.get i k' + A.get k' i)) :=
    Finset.single_le_sum (f := fun k' => (if j = k' then (0:K) else (A.get i j + A.get j i) * (A.get i k' + A.get k' i)))
      (fun y _ => hnn j y) (Finset.mem_univ k)
  rw [if_neg hjk] at h2
  have : 1 ≤ (A.get i j + A.get j i) * (A.get i k + A.get k i) := by nlinarith
  linarith

theorem deg_ge_two {W : AMat K n} {i j k : Fin n} (hjk : j ≠ k) (hj : W.get i j ≠ 0) (hk : W.get i k ≠ 0) :
    2 ≤ deg W i :=
  two_le_sum (fun x => indK (W.get i x)) (fun x => ind_nonneg _) hjk (by simp [indK, hj]) (by simp [indK, hk])

theorem deg_pairs_pos {W : AMat K n} {i : Fin n} (h : 2 ≤ deg W i) : 0 < deg W i * (deg W i - 1) := by
  nlinarith

theorem deg_of_bin {A : AMat K n} (hA : Bin A) (i : Fin n) : deg A i = ∑ j, A.get i j :=
  Finset.sum_congr rfl (fun j _ => ind_of_bin (hA i j))

end Bct.Cluster
