import BctVerif.Lemmas.SynthBasic

/-!
# C20 helper lemmas: `makerandCIJ_dir`, `makerandCIJ_und`
-/
namespace Bct.Synth
open List

variable {n : ℕ}

theorem freeCells_eq (n : ℕ) (triu : Bool) :
    freeCells n triu = (allCells n).filter fun c => if triu then decide (c.1.val < c.2.val) else decide (c.1 ≠ c.2) := by
  unfold freeCells allCells List.product
  rw [List.filter_flatMap]
  congr 1; funext i
  rw [List.filter_map]
  rfl

theorem freeCells_nodup (n : ℕ) (triu : Bool) : (freeCells n triu).Nodup := by
  rw [freeCells_eq]; exact allCells_nodup.filter _

theorem mem_freeCells (triu : Bool) (c : Cell n) :
    c ∈ freeCells n triu ↔ if triu then c.1.val < c.2.val else c.1 ≠ c.2 := by
  rw [freeCells_eq]; cases triu <;> simp [mem_allCells]

theorem countP_diag : (allCells n).countP (fun c => decide (c.1 = c.2)) = n := by
  rw [List.countP_eq_length_filter]
  have : ((allCells n).filter fun c => decide (c.1 = c.2)).Perm ((List.finRange n).map fun i => (i, i)) := by
    refine (List.perm_ext_iff_of_nodup (allCells_nodup.filter _) ?_).2 ?_
    · exact (List.nodup_finRange n).map (fun a b h => (Prod.ext_iff.1 h).1)
    · rintro ⟨i, j⟩
      simp only [List.mem_filter, mem_allCells, decide_eq_true_eq, true_and, List.mem_map, List.mem_finRange,
        Prod.mk.injEq]
      constructor
      · rintro rfl; exact ⟨i, rfl, rfl⟩
      · rintro ⟨x, rfl, rfl⟩; rfl
  rw [this.length_eq]; simp

theorem countP_offdiag : (allCells n).countP (fun c => decide (c.1 ≠ c.2)) = n * n - n := by
  have h := List.length_eq_countP_add_countP (fun c : Cell n => decide (c.1 = c.2)) (l := allCells n)
  rw [allCells_length, countP_diag] at h
  have e : (allCells n).countP (fun c => decide (c.1 ≠ c.2))
      = (allCells n).countP (fun a => decide ¬(decide (a.1 = a.2)) = true) := by
    apply List.countP_congr; intro c _; simp
  rw [e]; omega

theorem countP_swap (p : Cell n → Bool) : (allCells n).countP (fun c => p c.swap) = (allCells n).countP p := by
  have hperm : ((allCells n).map Prod.swap).Perm (allCells n) := by
    refine (List.perm_ext_iff_of_nodup (allCells_nodup.map Prod.swap_injective) allCells_nodup).2 ?_
    intro c; simp only [mem_allCells, iff_true, List.mem_map]; exact ⟨c.swap, trivial, by simp⟩
  rw [← hperm.countP_eq, List.countP_map]; rfl

theorem countP_upper : 2 * (allCells n).countP (fun c => decide (c.1.val < c.2.val)) = n * n - n := by
  have h1 := List.length_eq_countP_add_countP (fun c : Cell n => decide (c.1.val < c.2.val)) (l := allCells n)
  have h2 : (allCells n).countP (fun a => decide ¬(decide (a.1.val < a.2.val)) = true)
      = (allCells n).countP (fun c => decide (c.1 = c.2)) + (allCells n).countP (fun c => decide (c.2.val < c.1.val)) := by
    induction (allCells n) with
    | nil => simp
    | cons c l ih =>
      simp only [List.countP_cons, ih]
      have : c.1 = c.2 ↔ c.1.val = c.2.val := Fin.ext_iff
      by_cases ha : c.1.val < c.2.val
      · have hb : ¬ c.2.val < c.1.val := by omega
        have hc : ¬ c.1 = c.2 := by rw [this]; omega
        simp [ha, hb, hc]
      · by_cases hb : c.2.val < c.1.val
        · have hc : ¬ c.1 = c.2 := by rw [this]; omega
          simp [ha, hb, hc]; omega
        · have hc : c.1 = c.2 := by rw [this]; omega
          simp [ha, hb, hc]; omega
  have h3 := countP_swap (n := n) (fun c => decide (c.1.val < c.2.val))
  simp only [Prod.fst_swap, Prod.snd_swap] at h3
  rw [allCells_length, h2, countP_diag, h3] at h1
  omega

theorem freeCells_length_dir : (freeCells n false).length = n * (n - 1) := by
  rw [freeCells_eq, ← List.countP_eq_length_filter]
  simp only [Bool.false_eq_true, if_false]
  rw [countP_offdiag, Nat.mul_sub, Nat.mul_one]

theorem freeCells_length_und : 2 * (freeCells n true).length = n * (n - 1) := by
  rw [freeCells_eq, ← List.countP_eq_length_filter]
  simp only [if_true]
  rw [countP_upper, Nat.mul_sub, Nat.mul_one]

/-- what `randCIJ` computes before the optional symmetrisation -/
theorem randCIJ_unfold (und : Bool) (n k : Nat) (ds : List Nat) {C : AMat Int n} {rest : List Nat}
    (h : randCIJ und n k ds = .ok (C, rest)) :
    ∃ L : List (Cell n), L.Nodup ∧ (∀ c ∈ L, c ∈ freeCells n und) ∧ L.length = min k (freeCells n und).length ∧
      rest = ds.drop (freeCells n und).length ∧
      C = (if und then AMat.ofFn fun i j => (writeOnes (zeroMat n) L).get i j + (writeOnes (zeroMat n) L).get j i
           else writeOnes (zeroMat n) L) := by
  unfold randCIJ at h
  simp only at h
  split at h
  · simp at h
  · split at h
    · simp at h
    · rename_i hlen hperm
      have hperm' : isPermOfRange (ds.take (freeCells n und).length) (freeCells n und).length = true := by
        simpa using hperm
      obtain ⟨hl, hlt, hnd⟩ := isPermOfRange_spec hperm'
      simp only [Except.ok.injEq, Prod.mk.injEq] at h
      obtain ⟨rfl, rfl⟩ := h
      refine ⟨choose (freeCells n und) (ds.take (freeCells n und).length) k,
        choose_nodup _ _ _ (freeCells_nodup n und) hnd, fun c hc => mem_choose _ _ _ _ hc, ?_, rfl, rfl⟩
      rw [choose_length _ _ _ hlt, hl]

/-- the run succeeds exactly when enough draws are supplied and they form a permutation -/
theorem randCIJ_ok (und : Bool) (n k : Nat) (ds : List Nat)
    (hlen : (freeCells n und).length ≤ ds.length)
    (hperm : isPermOfRange (ds.take (freeCells n und).length) (freeCells n und).length = true) :
    ∃ C, randCIJ und n k ds = .ok (C, ds.drop (freeCells n und).length) := by
  unfold randCIJ
  simp only
  rw [if_neg (by omega), if_neg (by simp [hperm])]
  exact ⟨_, rfl⟩

theorem ones_val (L : List (Cell n)) (c : Cell n) :
    cellVal (writeOnes (zeroMat n) L) c = if decide (c ∈ L) then 1 else 0 := by
  rw [writeOnes_val, cellVal_zero]; simp

theorem countP_mem_nodup (L : List (Cell n)) (hL : L.Nodup) : (allCells n).countP (fun c => decide (c ∈ L)) = L.length := by
  rw [List.countP_eq_length_filter]
  have : ((allCells n).filter fun c => decide (c ∈ L)).Perm L := by
    refine (List.perm_ext_iff_of_nodup (allCells_nodup.filter _) hL).2 ?_
    intro c; simp [mem_allCells]
  exact this.length_eq

end Bct.Synth

namespace Bct.Synth
open List
variable {n : ℕ}

/-! ### the two specifications -/

/-- `makerandCIJ_dir` -/
theorem randCIJ_dir_core (n k : Nat) (ds : List Nat) {C : AMat Int n} {rest : List Nat}
    (h : randCIJ false n k ds = .ok (C, rest)) :
    (∀ p, cellVal C p = 0 ∨ cellVal C p = 1) ∧ (∀ i, cellVal C (i, i) = 0) ∧
    matSum C = (min k (n * (n - 1)) : Nat) ∧ rest = ds.drop (n * (n - 1)) := by
  obtain ⟨L, hnd, hsub, hlen, hrest, hC⟩ := randCIJ_unfold false n k ds h
  simp only [Bool.false_eq_true, if_false] at hC
  subst hC
  rw [freeCells_length_dir] at hlen hrest
  refine ⟨fun p => ?_, fun i => ?_, ?_, hrest⟩
  · rw [ones_val]; by_cases hp : p ∈ L <;> simp [hp]
  · rw [ones_val]
    have : (i, i) ∉ L := fun hm => by
      have := (mem_freeCells false (i, i)).1 (hsub _ hm)
      simp at this
    simp [this]
  · rw [matSum_ind _ _ (ones_val L), countP_mem_nodup L hnd, hlen]

/-- `makerandCIJ_und` -/
theorem randCIJ_und_core (n k : Nat) (ds : List Nat) {C : AMat Int n} {rest : List Nat}
    (h : randCIJ true n k ds = .ok (C, rest)) :
    (∀ p, cellVal C p = 0 ∨ cellVal C p = 1) ∧ (∀ i, cellVal C (i, i) = 0) ∧ (∀ p, cellVal C p.swap = cellVal C p) ∧
    matSum C = 2 * (min k (freeCells n true).length : Nat) ∧ rest = ds.drop (freeCells n true).length ∧
    ∃ L : List (Cell n), L.Nodup ∧ (∀ c ∈ L, c.1.val < c.2.val) ∧ L.length = min k (freeCells n true).length ∧
      ∀ p, cellVal C p = if p ∈ L ∨ p.swap ∈ L then 1 else 0 := by
  obtain ⟨L, hnd, hsub, hlen, hrest, hC⟩ := randCIJ_unfold true n k ds h
  simp only [if_true] at hC
  subst hC
  have hup : ∀ c ∈ L, c.1.val < c.2.val := fun c hc => by
    have := (mem_freeCells true c).1 (hsub c hc); simpa using this
  have hval : ∀ p : Cell n, cellVal (AMat.ofFn fun i j => (writeOnes (zeroMat n) L).get i j + (writeOnes (zeroMat n) L).get j i) p
      = (if decide (p ∈ L) then 1 else 0) + (if decide (p.swap ∈ L) then 1 else 0) := by
    intro p
    have h1 := ones_val L p
    have h2 := ones_val L p.swap
    simp only [cellVal, Prod.fst_swap, Prod.snd_swap] at h1 h2
    simp only [cellVal, AMat.get_ofFn, h1, h2]
  have hexcl : ∀ p : Cell n, ¬ (p ∈ L ∧ p.swap ∈ L) := by
    rintro p ⟨h1, h2⟩
    have := hup p h1; have := hup _ h2
    simp only [Prod.fst_swap, Prod.snd_swap] at this
    omega
  refine ⟨fun p => ?_, fun i => ?_, fun p => ?_, ?_, hrest, L, hnd, hup, hlen, fun p => ?_⟩
  · rw [hval]
    by_cases h1 : p ∈ L <;> by_cases h2 : p.swap ∈ L <;> simp [h1, h2]
    exact hexcl p ⟨h1, h2⟩
  · rw [hval]
    have : (i, i) ∉ L := fun hm => by have := hup _ hm; simp at this
    simp [this]
  · rw [hval, hval, Prod.swap_swap, add_comm]
  · rw [matSum_eq_list]
    have : (allCells n).map (cellVal (AMat.ofFn fun i j => (writeOnes (zeroMat n) L).get i j + (writeOnes (zeroMat n) L).get j i))
        = (allCells n).map (fun p => (if decide (p ∈ L) then (1 : Int) else 0) + (if decide (p.swap ∈ L) then 1 else 0)) :=
      List.map_congr_left fun p _ => hval p
    rw [this, List.sum_map_add, sum_ind (fun p => decide (p ∈ L)), sum_ind (fun p => decide (p.swap ∈ L)),
      countP_swap (fun p => decide (p ∈ L)), countP_mem_nodup L hnd, hlen]
    push_cast; ring
  · rw [hval]
    by_cases h1 : p ∈ L <;> by_cases h2 : p.swap ∈ L <;> simp [h1, h2]
    exact hexcl p ⟨h1, h2⟩

end Bct.Synth
