import BctVerif.Lemmas.RewireConnUnd

/-!
# Soundness of the directed connectivity test (`dirConnOk` / `dirLoop` of `Model/Rewire.lean`)

The exploration uses the *old* rows of `R`.  Node `c` may enter row 0 (node `a` row 1), after which
the exploration follows the stale arc `c → d` (`a → b`).  The invariant is therefore a disjunction:
every node of `PN0` is reachable from `a` in the swapped digraph `Gd`, **or** the goal of row 0
(`a` reaches `b` or `c` in `Gd`) already holds; symmetrically for row 1 with source `c` and goal
"`c` reaches `d` or `a`".
-/
open Relation

namespace Bct.RewireConn
open Bct Bct.Rewire Bct.RewireFun

variable {n : ℕ}

/-- invariant of one row of the directed exploration.  `s` = source (a / c), `s'` = the other
source (c / a), whose old out-arc `s' → t'` is stale; `s → t` is the row's own removed arc. -/
structure RowInv (R : AMat Int n) (a b c d : Fin n) (s : Fin n) (goal : Prop) (P PN : BVec n) : Prop where
  reach : ∀ y : Fin n, PN[y] = true → ReflTransGen (Gd (adj R) a b c d) s y ∨ goal
  sub : ∀ y : Fin n, P[y] = true → PN[y] = true ∧ y ≠ s
  src : PN[s] = true

/-- one step for row 0 (source `a`, goal `a ⟶* b ∨ a ⟶* c`) -/
theorem row0_step (R : AMat Int n) (a b c d : Fin n) (P PN : BVec n)
    (inv : RowInv R a b c d a
      (ReflTransGen (Gd (adj R) a b c d) a b ∨ ReflTransGen (Gd (adj R) a b c d) a c) P PN) :
    RowInv R a b c d a
      (ReflTransGen (Gd (adj R) a b c d) a b ∨ ReflTransGen (Gd (adj R) a b c d) a c)
      (bAndNot (expand R P) PN) (bOr PN (bAndNot (expand R P) PN)) := by
  refine ⟨?_, ?_, ?_⟩
  · intro y hy
    rw [bOr_get, Bool.or_eq_true] at hy
    rcases hy with hy | hy
    · exact inv.reach y hy
    · rw [frontier_get] at hy
      obtain ⟨⟨x, hx, hxy⟩, _⟩ := hy
      obtain ⟨hxpn, hxa⟩ := inv.sub x hx
      rcases inv.reach x hxpn with hr | hg
      · by_cases hst : x = c ∧ y = d
        · -- the stale arc c → d: a already reaches c
          obtain ⟨rfl, rfl⟩ := hst
          exact Or.inr (Or.inr hr)
        · refine Or.inl (hr.tail (Or.inl ⟨hxy, ?_, hst⟩))
          rintro ⟨rfl, _⟩; exact hxa rfl
      · exact Or.inr hg
  · intro y hy
    have hy' := hy
    rw [frontier_get] at hy'
    refine ⟨?_, ?_⟩
    · rw [bOr_get, hy]; simp
    · rintro rfl; rw [inv.src] at hy'; exact Bool.noConfusion hy'.2
  · rw [bOr_get, inv.src]; rfl

/-- one step for row 1 (source `c`, goal `c ⟶* d ∨ c ⟶* a`) -/
theorem row1_step (R : AMat Int n) (a b c d : Fin n) (P PN : BVec n)
    (inv : RowInv R a b c d c
      (ReflTransGen (Gd (adj R) a b c d) c d ∨ ReflTransGen (Gd (adj R) a b c d) c a) P PN) :
    RowInv R a b c d c
      (ReflTransGen (Gd (adj R) a b c d) c d ∨ ReflTransGen (Gd (adj R) a b c d) c a)
      (bAndNot (expand R P) PN) (bOr PN (bAndNot (expand R P) PN)) := by
  refine ⟨?_, ?_, ?_⟩
  · intro y hy
    rw [bOr_get, Bool.or_eq_true] at hy
    rcases hy with hy | hy
    · exact inv.reach y hy
    · rw [frontier_get] at hy
      obtain ⟨⟨x, hx, hxy⟩, _⟩ := hy
      obtain ⟨hxpn, hxc⟩ := inv.sub x hx
      rcases inv.reach x hxpn with hr | hg
      · by_cases hst : x = a ∧ y = b
        · -- the stale arc a → b: c already reaches a
          obtain ⟨rfl, rfl⟩ := hst
          exact Or.inr (Or.inr hr)
        · refine Or.inl (hr.tail (Or.inl ⟨hxy, hst, ?_⟩))
          rintro ⟨rfl, _⟩; exact hxc rfl
      · exact Or.inr hg
  · intro y hy
    have hy' := hy
    rw [frontier_get] at hy'
    refine ⟨?_, ?_⟩
    · rw [bOr_get, hy]; simp
    · rintro rfl; rw [inv.src] at hy'; exact Bool.noConfusion hy'.2
  · rw [bOr_get, inv.src]; rfl

theorem dirLoop_sound (R : AMat Int n) (a b c d : Fin n) :
    ∀ (fuel : ℕ) (P0 P1 PN0 PN1 : BVec n),
      RowInv R a b c d a
        (ReflTransGen (Gd (adj R) a b c d) a b ∨ ReflTransGen (Gd (adj R) a b c d) a c) P0 PN0 →
      RowInv R a b c d c
        (ReflTransGen (Gd (adj R) a b c d) c d ∨ ReflTransGen (Gd (adj R) a b c d) c a) P1 PN1 →
      dirLoop R a b c d fuel P0 P1 PN0 PN1 = true →
      (ReflTransGen (Gd (adj R) a b c d) a b ∨ ReflTransGen (Gd (adj R) a b c d) a c) ∧
      (ReflTransGen (Gd (adj R) a b c d) c d ∨ ReflTransGen (Gd (adj R) a b c d) c a) := by
  intro fuel
  induction fuel with
  | zero => intro P0 P1 PN0 PN1 _ _ h; simp [dirLoop] at h
  | succ fuel ih =>
    intro P0 P1 PN0 PN1 i0 i1 h
    unfold dirLoop at h
    simp only at h
    have s0 := row0_step R a b c d P0 PN0 i0
    have s1 := row1_step R a b c d P1 PN1 i1
    split at h
    · cases h
    · split at h
      · rename_i hit
        simp only [Bool.and_eq_true, Bool.or_eq_true] at hit
        obtain ⟨hit0, hit1⟩ := hit
        refine ⟨?_, ?_⟩
        · rcases hit0 with hb | hc
          · rcases s0.reach b hb with hr | hg
            · exact Or.inl hr
            · exact hg
          · rcases s0.reach c hc with hr | hg
            · exact Or.inr hr
            · exact hg
        · rcases hit1 with hd | ha
          · rcases s1.reach d hd with hr | hg
            · exact Or.inl hr
            · exact hg
          · rcases s1.reach a ha with hr | hg
            · exact Or.inr hr
            · exact hg
      · exact ih _ _ _ _ s0 s1 h

/-- **Soundness of the directed connectivity test.**  For a matrix with empty diagonal, two present
arcs `a→b`, `c→d` on four distinct nodes and the rewiring guard `R a d = 0`, `R c b = 0`: if the test
of `randmio_dir_connected` / `latmio_dir_connected` answers "rewire", then in the swapped digraph
`a` reaches `b` or `c`, and `c` reaches `d` or `a`. -/
theorem dirTest_sound (R : AMat Int n) (a b c d : Fin n)
    (hab : a ≠ b) (hac : a ≠ c) (had : a ≠ d) (hbc : b ≠ c) (hbd : b ≠ d) (hcd : c ≠ d)
    (hdiag : ∀ v, R.toFun v v = 0)
    (h : dirConnOk R a b c d = true) :
    (ReflTransGen (Gd (adj R) a b c d) a b ∨ ReflTransGen (Gd (adj R) a b c d) a c) ∧
    (ReflTransGen (Gd (adj R) a b c d) c d ∨ ReflTransGen (Gd (adj R) a b c d) c a) := by
  have ad : ReflTransGen (Gd (adj R) a b c d) a d := ReflTransGen.single (Or.inr (Or.inl ⟨rfl, rfl⟩))
  have cb : ReflTransGen (Gd (adj R) a b c d) c b := ReflTransGen.single (Or.inr (Or.inr ⟨rfl, rfl⟩))
  -- an old arc that is neither a→b nor c→d survives
  have keep : ∀ x y : Fin n, R.toFun x y ≠ 0 → ¬ (x = a ∧ y = b) → ¬ (x = c ∧ y = d) →
      Gd (adj R) a b c d x y := fun x y hxy h1 h2 => Or.inl ⟨hxy, h1, h2⟩
  unfold dirConnOk at h
  split at h
  · rename_i hsc
    simp only [Bool.and_eq_true, Bool.or_eq_true, bne_iff_ne, ne_eq] at hsc
    obtain ⟨h0, h1⟩ := hsc
    refine ⟨?_, ?_⟩
    · rcases h0 with (hx | hx) | hx
      · exact Or.inr (ReflTransGen.single (keep a c hx (by tauto) (by tauto)))
      · exact Or.inl (ad.tail (keep d b hx (by tauto) (by tauto)))
      · exact Or.inr (ad.tail (keep d c hx (by tauto) (by tauto)))
    · rcases h1 with (hx | hx) | hx
      · exact Or.inr (ReflTransGen.single (keep c a hx (by tauto) (by tauto)))
      · exact Or.inl (cb.tail (keep b d hx (by tauto) (by tauto)))
      · exact Or.inr (cb.tail (keep b a hx (by tauto) (by tauto)))
  · simp only at h
    refine dirLoop_sound R a b c d _ _ _ _ _ ⟨?_, ?_, ?_⟩ ⟨?_, ?_, ?_⟩ h
    · intro y hy
      rw [ofFn_get, ofFn_get] at hy
      simp only [Bool.or_eq_true, Bool.and_eq_true, bne_iff_ne, ne_eq, beq_iff_eq] at hy
      rcases hy with (⟨hay, hyb⟩ | rfl) | rfl
      · exact Or.inl (ReflTransGen.single (keep a y hay (by tauto) (by tauto)))
      · exact Or.inl ad
      · exact Or.inl ReflTransGen.refl
    · intro y hy
      refine ⟨?_, ?_⟩
      · rw [ofFn_get, hy]; rfl
      · rw [ofFn_get] at hy
        simp only [Bool.or_eq_true, Bool.and_eq_true, bne_iff_ne, ne_eq, beq_iff_eq] at hy
        rintro rfl
        rcases hy with ⟨hay, _⟩ | hyd
        · exact hay (hdiag _)
        · exact had hyd
    · rw [ofFn_get]; simp
    · intro y hy
      rw [ofFn_get, ofFn_get] at hy
      simp only [Bool.or_eq_true, Bool.and_eq_true, bne_iff_ne, ne_eq, beq_iff_eq] at hy
      rcases hy with (⟨hcy, hyd⟩ | rfl) | rfl
      · exact Or.inl (ReflTransGen.single (keep c y hcy (by tauto) (by tauto)))
      · exact Or.inl cb
      · exact Or.inl ReflTransGen.refl
    · intro y hy
      refine ⟨?_, ?_⟩
      · rw [ofFn_get, hy]; rfl
      · rw [ofFn_get] at hy
        simp only [Bool.or_eq_true, Bool.and_eq_true, bne_iff_ne, ne_eq, beq_iff_eq] at hy
        rintro rfl
        rcases hy with ⟨hcy, _⟩ | hyb
        · exact hcy (hdiag _)
        · exact hbc hyb.symm
    · rw [ofFn_get]; simp

end Bct.RewireConn
