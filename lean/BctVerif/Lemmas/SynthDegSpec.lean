import BctVerif.Lemmas.SynthDeg

/-!
# C20 helper lemmas: the specification of `makerandCIJdegreesfixed` from the loop invariant
-/
namespace Bct.Synth
open Finset

variable {n k : ℕ}

theorem vec_map_toList (v : Vector (Fin n) k) : (List.finRange k).map (fun t => v[t]) = v.toList := by
  apply List.ext_getElem <;> simp

theorem sum_ind_count (l : List (Fin n)) (c : Fin n) : (l.map fun x => ind (x = c)).sum = (l.count c : ℤ) := by
  induction l with
  | nil => simp
  | cons x l ih =>
    simp only [List.map_cons, List.sum_cons, ih, List.count_cons]
    by_cases h : x = c
    · simp [ind, h]; ring
    · simp [ind, h]

/-- `∑ t, [v[t] = c]` is the number of occurrences of c in the list of v -/
theorem sum_ind_vec (v : Vector (Fin n) k) (c : Fin n) : ∑ t : Fin k, ind (v[t] = c) = (v.toList.count c : ℤ) := by
  rw [Fin.sum_univ_def, ← sum_ind_count, ← vec_map_toList, List.map_map]
  rfl

theorem sum_ind_and_eq (P : Prop) [Decidable P] (x : Fin n) : ∑ c : Fin n, ind (P ∧ x = c) = ind P := by
  by_cases h : P
  · simp only [h, true_and, ind, Finset.sum_ite_eq, Finset.mem_univ, if_true]
  · simp [ind, h]

theorem sum_ind_eq_and (P : Prop) [Decidable P] (x : Fin n) : ∑ r : Fin n, ind (x = r ∧ P) = ind P := by
  by_cases h : P
  · simp only [h, and_true, ind, Finset.sum_ite_eq, Finset.mem_univ, if_true]
  · simp [ind, h]

theorem placedCnt_row_sum (e0 e1 : Vector (Fin n) k) (r : Fin n) :
    ∑ c, placedCnt e0 e1 k r c = ∑ t : Fin k, ind (e0[t] = r) := by
  unfold placedCnt
  rw [Finset.sum_comm]
  apply Finset.sum_congr rfl
  intro t _
  have : ∀ c, ind (t.val < k ∧ e0[t] = r ∧ e1[t] = c) = ind (e0[t] = r ∧ e1[t] = c) := by
    intro c; have := t.isLt; simp [ind, this]
  simp only [this]
  exact sum_ind_and_eq _ _

theorem placedCnt_col_sum (e0 e1 : Vector (Fin n) k) (c : Fin n) :
    ∑ r, placedCnt e0 e1 k r c = ∑ t : Fin k, ind (e1[t] = c) := by
  unfold placedCnt
  rw [Finset.sum_comm]
  apply Finset.sum_congr rfl
  intro t _
  have : ∀ r, ind (t.val < k ∧ e0[t] = r ∧ e1[t] = c) = ind (e0[t] = r ∧ e1[t] = c) := by
    intro r; have := t.isLt; simp [ind, this]
  simp only [this]
  exact sum_ind_eq_and _ _

/-! ### stub lists -/

theorem stubs_count (v : Fin n → Nat) (i : Fin n) : (stubs v).count i = v i := by
  unfold stubs
  rw [List.count_flatMap]
  have : (List.map (List.count i ∘ fun j => List.replicate (v j) j) (List.finRange n))
      = (List.finRange n).map fun j => if j = i then v j else 0 := by
    apply List.map_congr_left
    intro j _
    simp [List.count_replicate]
  rw [this]
  have h2 : ((List.finRange n).map fun j => if j = i then v j else 0).sum = ∑ j : Fin n, if j = i then v j else 0 := by
    rw [Fin.sum_univ_def]
  rw [h2, Finset.sum_ite_eq']; simp

theorem stubs_length (v : Fin n → Nat) : (stubs v).length = ((List.finRange n).map v).sum := by
  unfold stubs
  rw [List.length_flatMap]
  congr 1
  apply List.map_congr_left
  intro j _; simp

theorem fitTo_of_length (l : List (Fin n)) (h : l.length = k) : fitTo k l = l := by
  unfold fitTo
  rw [← h, List.take_length, Nat.sub_self]
  split <;> simp

theorem toVec_toList {α} (l : List α) (v : Vector α k) (h : toVec k l = some v) : v.toList = l := by
  unfold toVec at h
  split at h
  · simp only [Option.some.injEq] at h; subst h; simp
  · simp at h

/-- fancy indexing with a permutation of the index range is a permutation -/
theorem pick_perm (l : List (Fin n)) (rp : List Nat) (h : isPermOfRange rp l.length = true) :
    (rp.filterMap (l[·]?)).Perm l := by
  obtain ⟨hl, hlt, hnd⟩ := isPermOfRange_spec h
  have h1 := Signed.pick_drop_perm l rp hnd hlt
  have h2 := Signed.dropIdx_length l rp hnd hlt
  rw [hl, Nat.sub_self] at h2
  rw [List.eq_nil_of_length_eq_zero h2, List.append_nil] at h1
  exact h1

/-! ### the specification -/

theorem degreesFixed_core (inv outv : Fin n → Nat) (ds : List Nat) {M : AMat Int n} {rest : List Nat}
    (hsum : ((List.finRange n).map outv).sum = ((List.finRange n).map inv).sum)
    (h : degreesFixed inv outv ds = .ok (M, rest)) :
    (∀ r c, M.get r c = 0 ∨ M.get r c = 1) ∧ (∀ r, M.get r r = 0) ∧
    (∀ r, ∑ c, M.get r c = outv r) ∧ (∀ c, ∑ r, M.get r c = inv c) := by
  unfold degreesFixed at h
  simp only at h
  split at h
  · simp at h
  · split at h
    · simp at h
    · rename_i hlen hperm
      have hperm' : isPermOfRange (ds.take ((List.finRange n).map inv).sum) ((List.finRange n).map inv).sum = true := by
        simpa using hperm
      split at h
      · rename_i e0 e1 he0 he1
        cases hp : placeAll e0 (List.finRange ((List.finRange n).map inv).sum) { C := eye n, e1 := e1 }
            (ds.drop ((List.finRange n).map inv).sum) with
        | error e => simp [hp] at h
        | ok v =>
          obtain ⟨st, rest1⟩ := v
          simp only [hp, Except.ok.injEq, Prod.mk.injEq] at h
          obtain ⟨hM, _⟩ := h
          -- initial invariant
          have inv0 : DfInv e0 ({ C := eye n, e1 := e1 } : DfSt n _) 0 := by
            constructor
            · intro r c; rw [placedCnt_zero]; simp [eye, ind]
            · intro r c; simp only [eye, AMat.get_ofFn]; split <;> simp
          have hp' : placeAll e0 ((List.finRange ((List.finRange n).map inv).sum).drop 0) { C := eye n, e1 := e1 }
              (ds.drop ((List.finRange n).map inv).sum) = .ok (st, rest1) := by simpa using hp
          obtain ⟨invk, hcol⟩ := placeAll_inv e0 ((List.finRange n).map inv).sum 0 _ _ (by simp) inv0 hp'
          -- the output matrix is the placed-edge count
          have hMval : ∀ r c, M.get r c = placedCnt e0 st.e1 ((List.finRange n).map inv).sum r c := by
            intro r c
            rw [← hM]
            simp only [AMat.get_ofFn]
            have := invk.val r c
            have e : (eye n).get r c = ind (r = c) := by simp [eye, ind]
            rw [e]; omega
          -- the stub lists
          have hin_len : (stubs inv).length = ((List.finRange n).map inv).sum := stubs_length inv
          have hout_len : (stubs outv).length = ((List.finRange n).map inv).sum := by rw [stubs_length, hsum]
          have he0l : e0.toList = stubs outv := by
            rw [toVec_toList _ _ he0, fitTo_of_length _ hout_len]
          have he1l : e1.toList.Perm (stubs inv) := by
            rw [toVec_toList _ _ he1, fitTo_of_length _ hin_len]
            exact pick_perm _ _ (by rw [hin_len]; exact hperm')
          refine ⟨fun r c => ?_, fun r => ?_, fun r => ?_, fun c => ?_⟩
          · have h1 := invk.val r c
            have h2 := invk.le1 r c
            have h3 := ind_nonneg (r = c)
            have h4 := placedCnt_nonneg e0 st.e1 ((List.finRange n).map inv).sum r c
            rw [hMval]; omega
          · have h1 := invk.val r r
            have h2 := invk.le1 r r
            have h3 : ind (r = r) = 1 := ind_true rfl
            have h4 := placedCnt_nonneg e0 st.e1 ((List.finRange n).map inv).sum r r
            rw [hMval]; omega
          · simp only [hMval]
            rw [placedCnt_row_sum, sum_ind_vec, he0l, stubs_count]
          · simp only [hMval]
            rw [placedCnt_col_sum]
            have := hcol c
            unfold colCnt at this
            rw [this, sum_ind_vec, he1l.count_eq, stubs_count]
      · simp at h

end Bct.Synth
