import BctVerif.Lemmas.ClusterReduce
/-!
# The binary sums as cardinalities of sets of node pairs / triples
-/
namespace Bct.Cluster
open Finset Bct

variable {n : ℕ}

/-- ordered pairs `(j,k)` closing a triangle `u → j → k → u` -/
def closedPairs (G : AMat ℚ n) (u : Fin n) : Finset (Fin n × Fin n) :=
  (univ ×ˢ univ).filter fun p => G.get u p.1 = 1 ∧ G.get p.1 p.2 = 1 ∧ G.get p.2 u = 1
/-- ordered pairs of distinct neighbours of `u` -/
def nbrPairs (G : AMat ℚ n) (u : Fin n) : Finset (Fin n × Fin n) :=
  (univ ×ˢ univ).filter fun p => p.1 ≠ p.2 ∧ G.get u p.1 = 1 ∧ G.get u p.2 = 1

theorem tri_eq_card {G : AMat ℚ n} (hB : Bin G) (u : Fin n) : tri G u = ((closedPairs G u).card : ℚ) := by
  unfold closedPairs tri
  rw [Finset.card_filter, Nat.cast_sum, Finset.sum_product]
  refine Finset.sum_congr rfl (fun j _ => Finset.sum_congr rfl (fun k _ => ?_))
  rcases hB u j with h1 | h1 <;> rcases hB j k with h2 | h2 <;> rcases hB k u with h3 | h3 <;> simp [h1, h2, h3]

theorem deg_pairs_eq_card {G : AMat ℚ n} (hB : Bin G) (u : Fin n) :
    deg G u * (deg G u - 1) = ((nbrPairs G u).card : ℚ) := by
  unfold nbrPairs
  rw [Finset.card_filter, Nat.cast_sum, Finset.sum_product]
  have h := sum_offdiag_mul (fun j => G.get u j)
  have hsq : ∑ j, G.get u j * G.get u j = ∑ j, G.get u j :=
    Finset.sum_congr rfl (fun j _ => bin_sq hB u j)
  rw [hsq] at h
  rw [deg_of_bin hB, mul_sub, mul_one, ← h]
  refine Finset.sum_congr rfl (fun j _ => Finset.sum_congr rfl (fun k _ => ?_))
  by_cases hjk : j = k
  · simp [hjk]
  · rcases hB u j with h1 | h1 <;> rcases hB u k with h2 | h2 <;> simp [hjk, h1, h2]

end Bct.Cluster
