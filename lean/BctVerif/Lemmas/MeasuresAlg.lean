import BctVerif.Lemmas.MeasuresBasic
/-!
# Equivariance of the whole-matrix-algebra measures (degree, density, clustering, transitivity)
-/
namespace Bct.Measures
open Bct

variable {n : Nat} (σ : Equiv.Perm (Fin n))

/-! ### degree.py -/

theorem degreesUnd_perm (A : AMat Int n) : degreesUnd (permA σ A) = permVec σ (degreesUnd A) := by
  apply vec_ext; intro i; simp [degreesUnd, bin_perm, colSum_perm]

theorem degreesDir_perm (A : AMat Int n) :
    degreesDir (permA σ A) = (permVec σ (degreesDir A).1, permVec σ (degreesDir A).2.1, permVec σ (degreesDir A).2.2) := by
  simp only [degreesDir, Prod.mk.injEq]
  refine ⟨?_, ?_, ?_⟩ <;> apply vec_ext <;> intro i <;> simp [bin_perm, colSum_perm, rowSum_perm]

theorem degTotal_perm (A : AMat Int n) : degTotal (permA σ A) = permVec σ (degTotal A) := by
  unfold degTotal; rw [degreesDir_perm]

theorem strengthsUnd_perm (A : AMat Int n) : strengthsUnd (permA σ A) = permVec σ (strengthsUnd A) := by
  apply vec_ext; intro i; simp [strengthsUnd, colSum_perm]

theorem strengthsDir_perm (A : AMat Int n) : strengthsDir (permA σ A) = permVec σ (strengthsDir A) := by
  apply vec_ext; intro i; simp [strengthsDir, colSum_perm, rowSum_perm]

theorem strengthsUndSign_perm (A : AMat Int n) :
    strengthsUndSign (permA σ A) =
      (permVec σ (strengthsUndSign A).1, permVec σ (strengthsUndSign A).2.1, (strengthsUndSign A).2.2.1, (strengthsUndSign A).2.2.2) := by
  simp only [strengthsUndSign, Prod.mk.injEq]
  refine ⟨?_, ?_, ?_, ?_⟩
  · apply vec_ext; intro j; simp only [vget_ofFn, permVec_get, colSum]
    exact fsum_congr_perm σ _ _ (fun k => by simp)
  · apply vec_ext; intro j; simp only [vget_ofFn, permVec_get, colSum]
    exact fsum_congr_perm σ _ _ (fun k => by simp)
  · unfold total; exact fsum2_congr_perm σ _ _ (fun i j => by simp)
  · unfold total; exact fsum2_congr_perm σ _ _ (fun i j => by simp)

/-! ### sums over the upper triangle of a symmetric table -/

theorem triuLe_double (g : Fin n → Fin n → Int) (hg : ∀ i j, g i j = g j i) :
    2 * (fsum fun i => fsum fun j => if i ≤ j then g i j else 0) = (fsum fun i => fsum fun j => g i j) + fsum fun i => g i i := by
  simp only [fsum_eq_sum]
  have h1 : (∑ i, ∑ j, if i ≤ j then g i j else 0) = ∑ i, ∑ j, if j ≤ i then g i j else 0 := by
    rw [Finset.sum_comm]
    refine Finset.sum_congr rfl fun i _ => Finset.sum_congr rfl fun j _ => ?_
    rw [hg j i]
  have h2 : (∑ i, ∑ j, if i ≤ j then g i j else 0) + (∑ i, ∑ j, if j ≤ i then g i j else 0) = (∑ i, ∑ j, g i j) + ∑ i, g i i := by
    rw [← Finset.sum_add_distrib, ← Finset.sum_add_distrib]
    refine Finset.sum_congr rfl fun i _ => ?_
    have : g i i = ∑ j, if i = j then g i j else 0 := by simp
    rw [this, ← Finset.sum_add_distrib, ← Finset.sum_add_distrib]
    refine Finset.sum_congr rfl fun j _ => ?_
    rcases lt_trichotomy i j with h | h | h
    · have h1 : i ≤ j := le_of_lt h
      have h2 : ¬ j ≤ i := not_le.mpr h
      have h3 : i ≠ j := ne_of_lt h
      simp [h1, h2, h3]
    · subst h; simp
    · have h1 : ¬ i ≤ j := not_le.mpr h
      have h2 : j ≤ i := le_of_lt h
      have h3 : i ≠ j := (ne_of_lt h).symm
      simp [h1, h2, h3]
  rw [← h1] at h2
  linarith

theorem triuLt_double (g : Fin n → Fin n → Int) (hg : ∀ i j, g i j = g j i) :
    2 * (fsum fun i => fsum fun j => if i < j then g i j else 0) + (fsum fun i => g i i) = fsum fun i => fsum fun j => g i j := by
  have h := triuLe_double g hg
  have hs : (fsum fun i => fsum fun j => if i ≤ j then g i j else 0) =
      (fsum fun i => fsum fun j => if i < j then g i j else 0) + fsum fun i => g i i := by
    simp only [fsum_eq_sum]
    rw [← Finset.sum_add_distrib]
    refine Finset.sum_congr rfl fun i _ => ?_
    have : g i i = ∑ j, if i = j then g i j else 0 := by simp
    rw [this, ← Finset.sum_add_distrib]
    refine Finset.sum_congr rfl fun j _ => ?_
    rcases lt_trichotomy i j with h | h | h
    · have h1 : i ≤ j := le_of_lt h
      have h3 : i ≠ j := ne_of_lt h
      simp [h1, h, h3]
    · subst h; simp
    · have h1 : ¬ i ≤ j := not_le.mpr h
      have h2 : ¬ i < j := not_lt.mpr (le_of_lt h)
      have h3 : i ≠ j := (ne_of_lt h).symm
      simp [h1, h2, h3]
  rw [hs] at h
  linarith

/-- a sum over the pairs `i ≤ j` of a symmetric table does not depend on the numbering -/
theorem triuLe_perm (g : Fin n → Fin n → Int) (hg : ∀ i j, g i j = g j i) :
    (fsum fun i => fsum fun j => if i ≤ j then g (σ i) (σ j) else 0) = fsum fun i => fsum fun j => if i ≤ j then g i j else 0 := by
  have h1 := triuLe_double (fun i j => g (σ i) (σ j)) (fun i j => hg _ _)
  have h2 := triuLe_double g hg
  have e1 : (fsum fun i => fsum fun j => g (σ i) (σ j)) = fsum fun i => fsum fun j => g i j :=
    fsum2_congr_perm σ _ _ (fun _ _ => rfl)
  have e2 : (fsum fun i => g (σ i) (σ i)) = fsum fun i => g i i := fsum_congr_perm σ _ _ (fun _ => rfl)
  beta_reduce at h1
  rw [e1, e2] at h1
  linarith

/-- a sum over the pairs `i < j` of a symmetric table does not depend on the numbering -/
theorem triuLt_perm (g : Fin n → Fin n → Int) (hg : ∀ i j, g i j = g j i) :
    (fsum fun i => fsum fun j => if i < j then g (σ i) (σ j) else 0) = fsum fun i => fsum fun j => if i < j then g i j else 0 := by
  have h1 := triuLt_double (fun i j => g (σ i) (σ j)) (fun i j => hg _ _)
  have h2 := triuLt_double g hg
  have e1 : (fsum fun i => fsum fun j => g (σ i) (σ j)) = fsum fun i => fsum fun j => g i j :=
    fsum2_congr_perm σ _ _ (fun _ _ => rfl)
  have e2 : (fsum fun i => g (σ i) (σ i)) = fsum fun i => g i i := fsum_congr_perm σ _ _ (fun _ => rfl)
  beta_reduce at h1
  rw [e1, e2] at h1
  linarith

/-! ### physical_connectivity.py -/

theorem densityDir_perm (A : AMat Int n) : densityDir (permA σ A) = densityDir A := by
  simp [densityDir, bin_perm, total_perm]

theorem densityUnd_perm (A : AMat Int n) (hA : ∀ i j, A.get i j = A.get j i) : densityUnd (permA σ A) = densityUnd A := by
  have h := triuLe_perm σ (fun i j => nz (A.get i j)) (fun i j => by simp only [hA i j])
  simp only [densityUnd, permA_get]
  rw [h]

/-! ### clustering.py -/

theorem clusteringBu_perm (G : AMat Int n) : clusteringBu (permA σ G) = permVec σ (clusteringBu G) := by
  apply vec_ext; intro u
  simp only [clusteringBu, vget_ofFn, permVec_get, permA_get]
  have hk : (fsum fun v => nz (G.get (σ u) (σ v))) = fsum fun v => nz (G.get (σ u) v) :=
    fsum_congr_perm σ _ _ (fun _ => rfl)
  have hs : (fsum fun v => fsum fun w => if G.get (σ u) (σ v) ≠ 0 ∧ G.get (σ u) (σ w) ≠ 0 then G.get (σ v) (σ w) else 0) =
      fsum fun v => fsum fun w => if G.get (σ u) v ≠ 0 ∧ G.get (σ u) w ≠ 0 then G.get v w else 0 :=
    fsum2_congr_perm σ _ _ (fun _ _ => rfl)
  rw [hk, hs]

theorem cycD_perm (S Ae : AMat Int n) : cycD (permA σ S) (permA σ Ae) = permVec σ (cycD S Ae) := by
  apply vec_ext; intro i
  simp [cycD, mmul_perm, madd_perm, mtr_perm, rowSum_perm]

theorem cycU_perm (R : AMat Int n) : cycU (permA σ R) = permVec σ (cycU R) := by
  apply vec_ext; intro i
  simp [cycU, mmul_perm, bin_perm, rowSum_perm]

theorem clusteringBd_perm (A : AMat Int n) : clusteringBd (permA σ A) = permVec σ (clusteringBd A) := by
  unfold clusteringBd; rw [mtr_perm, madd_perm, cycD_perm, permVec_map]

theorem clusteringWd_perm (R : AMat Int n) : clusteringWd (permA σ R) = permVec σ (clusteringWd R) := by
  unfold clusteringWd; rw [mtr_perm, madd_perm, bin_perm, cycD_perm, permVec_map]

theorem clusteringWu_perm (R : AMat Int n) : clusteringWu (permA σ R) = permVec σ (clusteringWu R) := by
  unfold clusteringWu; rw [cycU_perm, permVec_map]

theorem vsum1_perm (v : Vector (Rat × Rat) n) : vsum1 (permVec σ v) = vsum1 v := by
  unfold vsum1; exact fsum_congr_perm σ _ _ (fun i => by simp)

theorem vsum2_perm (v : Vector (Rat × Rat) n) : vsum2 (permVec σ v) = vsum2 v := by
  unfold vsum2; exact fsum_congr_perm σ _ _ (fun i => by simp)

theorem transitivityBu_perm (A : AMat Int n) : transitivityBu (permA σ A) = transitivityBu A := by
  simp [transitivityBu, mmul_perm, trace_perm, total_perm]

theorem transitivityBd_perm (A : AMat Int n) : transitivityBd (permA σ A) = transitivityBd A := by
  simp only [transitivityBd]; rw [mtr_perm, madd_perm, cycD_perm, vsum1_perm, vsum2_perm]

theorem transitivityWd_perm (R : AMat Int n) : transitivityWd (permA σ R) = transitivityWd R := by
  simp only [transitivityWd]; rw [mtr_perm, madd_perm, bin_perm, cycD_perm, vsum1_perm, vsum2_perm]

theorem transitivityWu_perm (R : AMat Int n) : transitivityWu (permA σ R) = transitivityWu R := by
  simp only [transitivityWu]; rw [cycU_perm, vsum1_perm, vsum2_perm]

end Bct.Measures
