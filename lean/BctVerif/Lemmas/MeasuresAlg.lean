import BctVerif.Lemmas.MeasuresBasic
/-!
# Equivariance of the degree vectors used by rich club / assortativity, of `strengths_und_sign` and of the densities
-/
namespace Bct.Measures
open Bct

variable {n : Nat} (σ : Equiv.Perm (Fin n))

/-! ### degree.py -/

theorem degreesUnd_perm (A : AMat Int n) : degreesUnd (permA σ A) = permVec σ (degreesUnd A) := by
  apply vec_ext; intro i; simp [degreesUnd, bin_perm, colSum_perm]

theorem degreesDir_perm (A : AMat Int n) :
    degreesDir (permA σ A) = (permVec σ (degreesDir A).1, permVec σ (degreesDir A).2.1, permVec σ (degreesDir A).2.2) := by
  simp only [degreesDir, Prod.mk.injEq]
  refine ⟨?_, ?_, ?_⟩ <;> apply vec_ext <;> intro i <;> simp [bin_perm, colSum_perm, rowSum_perm]

theorem degTotal_perm (A : AMat Int n) : degTotal (permA σ A) = permVec σ (degTotal A) := by
  unfold degTotal; rw [degreesDir_perm]

theorem strengthsUnd_perm (A : AMat Int n) : strengthsUnd (permA σ A) = permVec σ (strengthsUnd A) := by
  apply vec_ext; intro i; simp [strengthsUnd, colSum_perm]

theorem strengthsUndSign_perm (A : AMat Int n) :
    strengthsUndSign (permA σ A) =
      (permVec σ (strengthsUndSign A).1, permVec σ (strengthsUndSign A).2.1, (strengthsUndSign A).2.2.1, (strengthsUndSign A).2.2.2) := by
  simp only [strengthsUndSign, Prod.mk.injEq]
  refine ⟨?_, ?_, ?_, ?_⟩
  · apply vec_ext; intro j; simp only [vget_ofFn, permVec_get, colSum]
    exact fsum_congr_perm σ _ _ (fun k => by simp)
  · apply vec_ext; intro j; simp only [vget_ofFn, permVec_get, colSum]
    exact fsum_congr_perm σ _ _ (fun k => by simp)
  · unfold total; exact fsum2_congr_perm σ _ _ (fun i j => by simp)
  · unfold total; exact fsum2_congr_perm σ _ _ (fun i j => by simp)

/-! ### jdegree: the joint degree distribution and its three summaries -/

theorem jdegCell_perm (A : AMat Int n) (a b : Int) : jdegCell (permA σ A) a b = jdegCell A a b := by
  unfold jdegCell
  rw [degreesDir_perm]
  exact fsum_congr_perm σ _ _ (fun i => by simp)

theorem jdegSummary_perm (A : AMat Int n) : jdegSummary (permA σ A) = jdegSummary A := by
  unfold jdegSummary
  rw [degreesDir_perm]
  simp only [Prod.mk.injEq]
  refine ⟨?_, ?_, ?_⟩ <;> exact fsum_congr_perm σ _ _ (fun i => by simp)

/-! ### sums over the upper triangle of a symmetric table -/

theorem triuLe_double (g : Fin n → Fin n → Int) (hg : ∀ i j, g i j = g j i) :
    2 * (fsum fun i => fsum fun j => if i ≤ j then g i j else 0) = (fsum fun i => fsum fun j => g i j) + fsum fun i => g i i := by
  simp only [fsum_eq_sum]
  have h1 : (∑ i, ∑ j, if i ≤ j then g i j else 0) = ∑ i, ∑ j, if j ≤ i then g i j else 0 := by
    rw [Finset.sum_comm]
    refine Finset.sum_congr rfl fun i _ => Finset.sum_congr rfl fun j _ => ?_
    rw [hg j i]
  have h2 : (∑ i, ∑ j, if i ≤ j then g i j else 0) + (∑ i, ∑ j, if j ≤ i then g i j else 0) = (∑ i, ∑ j, g i j) + ∑ i, g i i := by
    rw [← Finset.sum_add_distrib, ← Finset.sum_add_distrib]
    refine Finset.sum_congr rfl fun i _ => ?_
    have : g i i = ∑ j, if i = j then g i j else 0 := by simp
    rw [this, ← Finset.sum_add_distrib, ← Finset.sum_add_distrib]
    refine Finset.sum_congr rfl fun j _ => ?_
    rcases lt_trichotomy i j with h | h | h
    · have h1 : i ≤ j := le_of_lt h
      have h2 : ¬ j ≤ i := not_le.mpr h
      have h3 : i ≠ j := ne_of_lt h
      simp [h1, h2, h3]
    · subst h; simp
    · have h1 : ¬ i ≤ j := not_le.mpr h
      have h2 : j ≤ i := le_of_lt h
      have h3 : i ≠ j := (ne_of_lt h).symm
      simp [h1, h2, h3]
  rw [← h1] at h2
  linarith

theorem triuLt_double (g : Fin n → Fin n → Int) (hg : ∀ i j, g i j = g j i) :
    2 * (fsum fun i => fsum fun j => if i < j then g i j else 0) + (fsum fun i => g i i) = fsum fun i => fsum fun j => g i j := by
  have h := triuLe_double g hg
  have hs : (fsum fun i => fsum fun j => if i ≤ j then g i j else 0) =
      (fsum fun i => fsum fun j => if i < j then g i j else 0) + fsum fun i => g i i := by
    simp only [fsum_eq_sum]
    rw [← Finset.sum_add_distrib]
    refine Finset.sum_congr rfl fun i _ => ?_
    have : g i i = ∑ j, if i = j then g i j else 0 := by simp
    rw [this, ← Finset.sum_add_distrib]
    refine Finset.sum_congr rfl fun j _ => ?_
    rcases lt_trichotomy i j with h | h | h
    · have h1 : i ≤ j := le_of_lt h
      have h3 : i ≠ j := ne_of_lt h
      simp [h1, h, h3]
    · subst h; simp
    · have h1 : ¬ i ≤ j := not_le.mpr h
      have h2 : ¬ i < j := not_lt.mpr (le_of_lt h)
      have h3 : i ≠ j := (ne_of_lt h).symm
      simp [h1, h2, h3]
  rw [hs] at h
  linarith

/-- a sum over the pairs `i ≤ j` of a symmetric table does not depend on the numbering -/
theorem triuLe_perm (g : Fin n → Fin n → Int) (hg : ∀ i j, g i j = g j i) :
    (fsum fun i => fsum fun j => if i ≤ j then g (σ i) (σ j) else 0) = fsum fun i => fsum fun j => if i ≤ j then g i j else 0 := by
  have h1 := triuLe_double (fun i j => g (σ i) (σ j)) (fun i j => hg _ _)
  have h2 := triuLe_double g hg
  have e1 : (fsum fun i => fsum fun j => g (σ i) (σ j)) = fsum fun i => fsum fun j => g i j :=
    fsum2_congr_perm σ _ _ (fun _ _ => rfl)
  have e2 : (fsum fun i => g (σ i) (σ i)) = fsum fun i => g i i := fsum_congr_perm σ _ _ (fun _ => rfl)
  beta_reduce at h1
  rw [e1, e2] at h1
  linarith

/-- a sum over the pairs `i < j` of a symmetric table does not depend on the numbering -/
theorem triuLt_perm (g : Fin n → Fin n → Int) (hg : ∀ i j, g i j = g j i) :
    (fsum fun i => fsum fun j => if i < j then g (σ i) (σ j) else 0) = fsum fun i => fsum fun j => if i < j then g i j else 0 := by
  have h1 := triuLt_double (fun i j => g (σ i) (σ j)) (fun i j => hg _ _)
  have h2 := triuLt_double g hg
  have e1 : (fsum fun i => fsum fun j => g (σ i) (σ j)) = fsum fun i => fsum fun j => g i j :=
    fsum2_congr_perm σ _ _ (fun _ _ => rfl)
  have e2 : (fsum fun i => g (σ i) (σ i)) = fsum fun i => g i i := fsum_congr_perm σ _ _ (fun _ => rfl)
  beta_reduce at h1
  rw [e1, e2] at h1
  linarith

/-! ### physical_connectivity.py -/

theorem densityDir_perm (A : AMat Int n) : densityDir (permA σ A) = densityDir A := by
  simp [densityDir, bin_perm, total_perm]

theorem densityUnd_perm (A : AMat Int n) (hA : ∀ i j, A.get i j = A.get j i) : densityUnd (permA σ A) = densityUnd A := by
  have h := triuLe_perm σ (fun i j => nz (A.get i j)) (fun i j => by simp only [hA i j])
  simp only [densityUnd, permA_get]
  rw [h]

end Bct.Measures
