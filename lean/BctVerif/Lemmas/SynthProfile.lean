import BctVerif.Lemmas.SynthBlock

/-!
# C20 helper lemmas: end-to-end statements for `makefractalCIJ` (modules fully connected, block structure of the cluster
mask) and `maketoeplitzCIJ` (Toeplitz structure of the profile, the output is one thresholded sample)
-/
namespace Bct.Synth
open List

variable {n : ℕ}

/-! ### cluster mask = diagonal blocks of size 2^sz_cl -/

theorem hierTemplate_get {m : Nat} (hn : n = 2 ^ (m + 1)) (i j : Fin n) :
    (hierTemplate hn).get i j = (tmpl m).get ⟨i.val, hn ▸ i.isLt⟩ ⟨j.val, hn ▸ j.isLt⟩ - (1 + (if i = j then (m : Int) + 1 else 0)) := by
  simp [hierTemplate]

/-- the cluster mask `CIJ >= mx_lvl - sz_cl` of `makeevenCIJ` (and the cells with `ee = 0` of `makefractalCIJ`) consists of the
off-diagonal cells of the diagonal blocks of size 2^sz_cl -/
theorem cluster_blocks {m : Nat} (hn : n = 2 ^ (m + 1)) (szcl : Nat) (hsz : szcl ≤ m + 1) (i j : Fin n) :
    inCluster (hierTemplate hn) (m + 1) szcl (i, j) = true ↔ i ≠ j ∧ i.val / 2 ^ szcl = j.val / 2 ^ szcl := by
  simp only [inCluster, decide_eq_true_eq, hierTemplate_get, Int.ofNat_eq_natCast]
  by_cases hij : i = j
  · subst hij
    rw [tmpl_diag]
    simp only [if_true, ne_eq, not_true_eq_false, false_and, iff_false]
    push_cast; omega
  · have hb := tmpl_block m szcl ⟨i.val, hn ▸ i.isLt⟩ ⟨j.val, hn ▸ j.isLt⟩
      (fun h => hij (Fin.ext (by simpa using congrArg Fin.val h)))
    simp only at hb
    simp only [hij, if_false, ne_eq, not_false_eq_true, true_and]
    rw [← hb]; push_cast; omega

/-! ### makefractalCIJ -/

theorem fractalEE_zero_iff (T : AMat Int n) (mx szcl : Nat) (i j : Fin n) :
    fractalEE T mx szcl i j = 0 ↔ inCluster T mx szcl (i, j) = true := by
  simp only [fractalEE, inCluster, decide_eq_true_eq, Int.ofNat_eq_natCast]
  split <;> omega

theorem probConsistent_off (T : AMat Int n) (mx szcl E : Nat) (prob : AMat Thr n)
    (h : probConsistent T mx szcl E prob = true) (i j : Fin n) (hij : i ≠ j) :
    (prob.get i j).2 ≠ 0 ∧ (fractalEE T mx szcl i j = 0 → (prob.get i j).1 = (prob.get i j).2) ∧
    nearInvPow (prob.get i j) E (fractalEE T mx szcl i j).toNat = true := by
  unfold probConsistent at h
  simp only [Bool.and_eq_true, List.all_eq_true] at h
  have hmem : (i, j) ∈ (List.finRange n).flatMap fun a => ((List.finRange n).filter (· ≠ a)).map fun b => (a, b) := by
    simp only [List.mem_flatMap, List.mem_finRange, List.mem_map, List.mem_filter, true_and]
    exact ⟨i, j, by simpa using hij.symm, rfl⟩
  have := h.2 (i, j) hmem
  simp only [bne_iff_ne, ne_eq] at this
  refine ⟨this.1.1.1, fun h0 => ?_, this.1.2⟩
  have h1 := this.1.1.2
  simp only [h0, beq_self_eq_true, if_true, thrEq, beq_iff_eq, Nat.mul_one, Nat.one_mul] at h1
  exact h1

/-- a draw `v·2^-53 < 1` is below probability 1 -/
theorem ltThr_one (v : Nat) (t : Thr) (hv : v < 2 ^ 53) (ht : t.1 = t.2) (hd : t.2 ≠ 0) : ltThr v t = true := by
  simp only [ltThr, decide_eq_true_eq, ht]
  rw [Nat.mul_comm]
  exact Nat.mul_lt_mul_of_pos_left hv (Nat.pos_of_ne_zero hd)

theorem getElem!_lt (us : Array Nat) (k b : Nat) (hb : 0 < b) (h : ∀ v ∈ us.toList, v < b) : us[k]! < b := by
  by_cases hk : k < us.size
  · rw [getElem!_pos us k hk]; exact h _ (by simp)
  · rw [getElem!_neg us k hk]; exact hb

/-- `makefractalCIJ`: every module (diagonal block of size 2^sz_cl) is fully connected -/
theorem fractal_modules_full (mx szcl E : Nat) (prob : AMat Thr n) (ds : List Nat)
    {C : AMat Int n} {kk : Int} {rest : List Nat} (h : fractalCIJ n mx szcl E prob ds = .ok (C, kk, rest))
    (hsz : szcl ≤ mx) (hds : ∀ v ∈ ds, v < 2 ^ 53) (i j : Fin n) (hij : i ≠ j)
    (hblock : i.val / 2 ^ szcl = j.val / 2 ^ szcl) : cellVal C (i, j) = 1 := by
  unfold fractalCIJ at h
  cases mx with
  | zero => simp at h
  | succ m =>
    simp only at h
    split at h
    · rename_i hn
      split at h
      · simp at h
      · split at h
        · simp at h
        · rename_i hcons
          split at h
          · simp at h
          · simp only [Except.ok.injEq, Prod.mk.injEq] at h
            obtain ⟨rfl, _, _⟩ := h
            have hc : probConsistent (hierTemplate hn) (m + 1) szcl E prob = true := by simpa using hcons
            obtain ⟨hden, hone, _⟩ := probConsistent_off _ _ _ _ _ hc i j hij
            have hcl : inCluster (hierTemplate hn) (m + 1) szcl (i, j) = true := (cluster_blocks hn szcl hsz i j).2 ⟨hij, hblock⟩
            have hee := (fractalEE_zero_iff (hierTemplate hn) (m + 1) szcl i j).2 hcl
            have hv := getElem!_lt (ds.take (n * n)).toArray (i.val * n + j.val) (2 ^ 53) (by norm_num)
              (fun v hv => hds v (List.mem_of_mem_take (by simpa using hv)))
            simp only [cellVal, sampleLt, AMat.get_ofFn, b2i, ltThr_one _ _ hv (hone hee) hden, if_true]
    · simp at h

/-- the connection probability of a cell is (within 1e-12) `1 / E^ee` with `ee` the number of hierarchical levels above
the module size that separate the two nodes -/
theorem fractal_prob_profile (mx szcl E : Nat) (prob : AMat Thr n) (ds : List Nat)
    {C : AMat Int n} {kk : Int} {rest : List Nat} (h : fractalCIJ n mx szcl E prob ds = .ok (C, kk, rest))
    (i j : Fin n) (hij : i ≠ j) :
    nearInvPow (prob.get i j) E (fractalEE (hierT n mx) mx szcl i j).toNat = true ∧
    C.get i j = b2i (ltThr (ds.take (n * n)).toArray[i.val * n + j.val]! (prob.get i j)) := by
  unfold fractalCIJ at h
  cases mx with
  | zero => simp at h
  | succ m =>
    simp only at h
    split at h
    · rename_i hn
      have hT : hierT n (m + 1) = hierTemplate hn := by simp [hierT, hn]
      split at h
      · simp at h
      · split at h
        · simp at h
        · rename_i hcons
          split at h
          · simp at h
          · simp only [Except.ok.injEq, Prod.mk.injEq] at h
            obtain ⟨rfl, _, _⟩ := h
            have hc : probConsistent (hierTemplate hn) (m + 1) szcl E prob = true := by simpa using hcons
            rw [hT]
            exact ⟨(probConsistent_off _ _ _ _ _ hc i j hij).2.2, by simp [sampleLt]⟩
    · simp at h

/-! ### maketoeplitzCIJ -/

/-- distance from the diagonal -/
def offset (i j : Fin n) : Nat := if i.val < j.val then j.val - i.val else i.val - j.val

theorem toeplitzOf_get (prof : Array Thr) (i j : Fin n) :
    (toeplitzOf n prof).get i j = if i = j then (0, 1) else prof[offset i j - 1]! := by
  simp [toeplitzOf, offset]

/-- the probability template is a symmetric Toeplitz matrix: an entry depends only on the distance from the diagonal -/
theorem toeplitz_structure (prof : Array Thr) (i j i' j' : Fin n) (h : offset i j = offset i' j') :
    (toeplitzOf n prof).get i j = (toeplitzOf n prof).get i' j' := by
  rw [toeplitzOf_get, toeplitzOf_get, h]
  have e : (i = j) ↔ (i' = j') := by
    have h1 : i = j ↔ offset i j = 0 := by
      unfold offset; constructor
      · rintro rfl; simp
      · intro h0; apply Fin.ext; split at h0 <;> omega
    have h2 : i' = j' ↔ offset i' j' = 0 := by
      unfold offset; constructor
      · rintro rfl; simp
      · intro h0; apply Fin.ext; split at h0 <;> omega
    rw [h1, h2, h]
  by_cases hij : i = j
  · simp [hij, e.1 hij]
  · have hij' : ¬ i' = j' := fun h' => hij (e.2 h')
    simp [hij, hij']

/-- whatever the rejection loop returns is its starting matrix or one thresholded sample of the template -/
theorem toepLoop_sample (T : AMat Thr n) (k : Nat) :
    ∀ (fuel itr : Nat) (C : AMat Int n) (ds : List Nat) {C' : AMat Int n} {rest : List Nat},
      toepLoop T k fuel itr C ds = .ok (C', rest) → C' = C ∨ ∃ us : Array Nat, C' = sampleLt T us
  | 0, _, _, _, _, _, h => by simp [toepLoop] at h
  | fuel + 1, itr, C, ds, C', rest, h => by
    unfold toepLoop at h
    split at h
    · simp only [Except.ok.injEq, Prod.mk.injEq] at h
      exact Or.inl h.1.symm
    · split at h
      · simp at h
      · simp only at h
        split at h
        · simp at h
        · rcases toepLoop_sample T k fuel (itr + 1) _ _ h with h1 | h1
          · exact Or.inr ⟨_, h1⟩
          · exact Or.inr h1

theorem ltThr_pos {v : Nat} {t : Thr} (h : ltThr v t = true) : 0 < t.1 := by
  simp only [ltThr, decide_eq_true_eq] at h
  rcases Nat.eq_zero_or_pos t.1 with h0 | h0
  · rw [h0] at h; simp at h
  · exact h0

end Bct.Synth
