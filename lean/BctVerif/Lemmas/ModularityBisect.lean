import BctVerif.Lemmas.ModularitySign
import Mathlib.Data.List.Perm.Basic

/-! # the spectral path of `modularity_und` / `modularity_dir`: partition, labels, reported q — for every oracle -/
namespace Bct.Modularity

variable {n : ℕ}

theorem splitBy_perm : ∀ (m : List (Fin n)) (sg : List Bool), sg.length = m.length →
    (splitBy m sg true ++ splitBy m sg false).Perm m := by
  intro m
  induction m with
  | nil => intro sg _; simp [splitBy]
  | cons x m ih =>
    intro sg hlen
    cases sg with
    | nil => simp at hlen
    | cons b sg =>
      have hlen' : sg.length = m.length := by simpa using hlen
      have := ih sg hlen'
      simp only [splitBy, beq_iff_eq] at this
      cases b with
      | true =>
        simp only [splitBy, List.zip_cons_cons, List.filterMap_cons, beq_self_eq_true, if_true, List.cons_append,
          Bool.true_eq_false, Bool.false_eq_true, if_false, beq_iff_eq]
        exact List.Perm.cons x this
      | false =>
        simp only [splitBy, List.zip_cons_cons, List.filterMap_cons, beq_self_eq_true, if_true,
          Bool.true_eq_false, Bool.false_eq_true, if_false, beq_iff_eq]
        exact (List.perm_middle).trans (List.Perm.cons x this)

/-- **recur_partition** — for *every* list of recorded decisions, the modules produced by the bisection
list every node of the input module exactly once (their concatenation is a permutation of it) and none of
them is empty. -/
theorem bisectL_partition : ∀ (fuel : ℕ) (m : List (Fin n)) (ds rest : List (Option (List Bool)))
    (ls : List (List (Fin n))), bisectL fuel m ds = .ok (ls, rest) →
    ls.flatten.Perm m ∧ (m ≠ [] → ∀ part ∈ ls, part ≠ []) := by
  intro fuel
  induction fuel with
  | zero => intro m ds rest ls h; simp [bisectL] at h
  | succ fuel ih =>
    intro m ds rest ls h
    cases ds with
    | nil => simp [bisectL] at h
    | cons d ds =>
      cases d with
      | none =>
        simp only [bisectL, Except.ok.injEq, Prod.mk.injEq] at h
        obtain ⟨rfl, _⟩ := h
        simp
      | some sg =>
        simp only [bisectL] at h
        split_ifs at h with hlen hempty
        · simp only [Except.ok.injEq, Prod.mk.injEq] at h
          obtain ⟨rfl, _⟩ := h
          simp
        · simp only [bind, Except.bind] at h
          cases ha : bisectL fuel (splitBy m sg true) ds with
          | error e => simp [ha] at h
          | ok ra =>
            obtain ⟨la, ds1⟩ := ra
            simp only [ha] at h
            cases hb : bisectL fuel (splitBy m sg false) ds1 with
            | error e => simp [hb] at h
            | ok rb =>
              obtain ⟨lb, ds2⟩ := rb
              simp only [hb, Except.ok.injEq, Prod.mk.injEq] at h
              obtain ⟨rfl, _⟩ := h
              simp only [Bool.or_eq_true, List.isEmpty_iff, not_or] at hempty
              obtain ⟨pa, na⟩ := ih _ _ _ _ ha
              obtain ⟨pb, nb⟩ := ih _ _ _ _ hb
              have hl : sg.length = m.length := by
                by_contra hne; exact hlen hne
              refine ⟨?_, fun _ part hpart => ?_⟩
              · rw [List.flatten_append]
                exact (List.Perm.append pa pb).trans (splitBy_perm m sg hl)
              · rcases List.mem_append.mp hpart with h' | h'
                · exact na hempty.1 part h'
                · exact nb hempty.2 part h'

/-- `ls2ci` of a list of non-empty modules that lists every node exactly once gives labels exactly `1..k` -/
theorem ls2ci_range (ls : List (List (Fin n))) (hperm : ls.flatten.Perm (List.finRange n))
    (hne : ∀ part ∈ ls, part ≠ []) :
    (∀ i, 1 ≤ ls2ci ls i ∧ ls2ci ls i ≤ ls.length) ∧ (∀ l, 1 ≤ l → l ≤ ls.length → ∃ i, ls2ci ls i = l) := by
  have hmem : ∀ i : Fin n, ∃ part ∈ ls, (fun l : List (Fin n) => l.contains i) part = true := by
    intro i
    have : i ∈ ls.flatten := hperm.mem_iff.mpr (List.mem_finRange i)
    obtain ⟨part, hp, hi⟩ := List.mem_flatten.mp this
    exact ⟨part, hp, by simpa using hi⟩
  have hnd : ls.flatten.Nodup := hperm.nodup_iff.mpr (List.nodup_finRange n)
  refine ⟨fun i => ⟨by simp [ls2ci], ?_⟩, fun l h1 h2 => ?_⟩
  · have := List.findIdx_lt_length_of_exists (hmem i)
    simp only [ls2ci]; omega
  · have hk : l - 1 < ls.length := by omega
    have hpart : ls[l - 1] ≠ [] := hne _ (List.getElem_mem hk)
    obtain ⟨i, tl, hcons⟩ := List.exists_cons_of_ne_nil hpart
    refine ⟨i, ?_⟩
    have hin : i ∈ ls[l - 1] := by rw [hcons]; exact List.mem_cons_self
    have hlt := List.findIdx_lt_length_of_exists (hmem i)
    have hget := List.findIdx_getElem (w := hlt)
    simp only [List.contains_iff_mem] at hget
    have hle : ls.findIdx (fun l => l.contains i) ≤ l - 1 := by
      by_contra hgt
      have := List.not_of_lt_findIdx (Nat.lt_of_not_le hgt)
      simp [hin] at this
    have heq : ls.findIdx (fun l => l.contains i) = l - 1 := by
      by_contra hne'
      have hlt' : ls.findIdx (fun l => l.contains i) < l - 1 := lt_of_le_of_ne hle hne'
      have hdis := (List.nodup_flatten.mp hnd).2
      have := List.pairwise_iff_getElem.mp hdis _ _ hlt hk hlt'
      exact this hget hin
    simp only [ls2ci, heq]; omega

theorem modularityDirGiven_eq {α : Type} [DecidableEq α] (W : RMat n) (γ : ℚ) (c : Fin n → α) :
    modularityDirGiven W γ c = Qdir W γ c := by
  unfold modularityDirGiven Qdir
  rw [Qobj_eq]
  simp only [fsum_eq]
  have h1 : ∀ i j, (if c i = c j then ((Bmod W γ).get i j + (Bmod W γ).get j i) / (2 * total W) else 0)
      = ((if c i = c j then (Bmod W γ).get i j else 0) + (if c j = c i then (Bmod W γ).get j i else 0)) / (2 * total W) := by
    intro i j
    by_cases h : c i = c j
    · simp [h]
    · have h' : ¬ c j = c i := fun e => h e.symm
      simp [h, h']
  simp only [h1, ← Finset.sum_div, Finset.sum_add_distrib]
  rw [Finset.sum_comm (f := fun i j => if c j = c i then (Bmod W γ).get j i else 0)]
  rw [← two_mul, mul_div_mul_left _ _ (two_ne_zero)]

theorem modularityUndGiven_eq {α : Type} [DecidableEq α] (W : RMat n) (γ : ℚ) (hW : Symm W) (c : Fin n → α) :
    modularityUndGiven W γ c = Qund W γ c := by
  unfold modularityUndGiven Qund
  rw [Qobj_eq]
  simp only [fsum_eq, Finset.sum_div]
  refine Finset.sum_congr rfl (fun i _ => Finset.sum_congr rfl (fun j _ => ?_))
  simp only [Fin.getElem_fin, Vector.getElem_ofFn, Fin.eta, Bund_get, hW.colSum_eq_rowSum]
  split_ifs
  · ring
  · simp

/-- **spectral path, whole run** — for every list of eigen-solver decisions: the returned labels are exactly
`1..k` and the returned `q` is the modularity of the returned partition (`Qdir`; `Qund` on symmetric input). -/
theorem spectralRun_spec (dir : Bool) (W : RMat n) (γ : ℚ) (ds : List (Option (List Bool)))
    (ci : Fin n → ℕ) (q : ℚ) (left : ℕ) (hn : 0 < n) (h : spectralRun dir W γ ds = .ok (ci, q, left)) :
    (∃ k, (∀ i, 1 ≤ ci i ∧ ci i ≤ k) ∧ ∀ l, 1 ≤ l → l ≤ k → ∃ i, ci i = l) ∧
    (dir = true → q = Qdir W γ ci) ∧ (dir = false → Symm W → q = Qund W γ ci) := by
  unfold spectralRun at h
  simp only [bind, Except.bind, pure, Except.pure] at h
  by_cases hs0 : total W = 0
  · simp [hs0, throw, throwThe, MonadExceptOf.throw] at h
  · simp only [hs0, if_false] at h
    cases hb : bisectL (n + 1) (List.finRange n) ds with
    | error e => simp [hb] at h
    | ok r =>
      obtain ⟨ls, rest⟩ := r
      simp only [hb, Except.ok.injEq, Prod.mk.injEq] at h
      obtain ⟨rfl, rfl, _⟩ := h
      obtain ⟨hp, hne⟩ := bisectL_partition _ _ _ _ _ hb
      have hne0 : List.finRange n ≠ [] := by
        intro h'; have := congrArg List.length h'; simp at this; omega
      obtain ⟨h1, h2⟩ := ls2ci_range ls hp (hne hne0)
      refine ⟨⟨ls.length, h1, h2⟩, fun hd => ?_, fun hd hW => ?_⟩
      · simp only [hd, if_true]; exact modularityDirGiven_eq W γ _
      · simp only [hd, Bool.false_eq_true, if_false]; exact modularityUndGiven_eq W γ hW _

end Bct.Modularity
