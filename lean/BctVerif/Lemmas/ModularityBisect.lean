import BctVerif.Model.Modularity
import Mathlib.Data.List.Perm.Basic
import Mathlib.Tactic

/-! # the spectral-bisection skeleton returns a partition of its input -/
namespace Bct.Modularity

variable {n : ℕ}

theorem filter_append_perm (m : List (Fin n)) (p : Fin n → Bool) :
    (m.filter p ++ m.filter (fun i => !p i)).Perm m := by
  induction m with
  | nil => simp
  | cons x m ih =>
    by_cases hx : p x = true
    · simp only [List.filter_cons, hx, if_true, Bool.not_true, Bool.false_eq_true, if_false, List.cons_append]
      exact List.Perm.cons x ih
    · have hx' : p x = false := by simpa using hx
      simp only [List.filter_cons, hx', Bool.false_eq_true, if_false, Bool.not_false, if_true]
      exact (List.perm_middle).trans (List.Perm.cons x ih)

/-- **recur_partition** — for *any* oracle, the modules produced by the bisection list every node of the
input module exactly once (their concatenation is a permutation of it) and none of them is empty. -/
theorem bisect_partition (oracle : List (Fin n) → Option (Fin n → Bool)) (fuel : ℕ) (m : List (Fin n)) :
    (bisect oracle fuel m).flatten.Perm m ∧ (m ≠ [] → ∀ part ∈ bisect oracle fuel m, part ≠ []) := by
  induction fuel generalizing m with
  | zero => simp [bisect]
  | succ fuel ih =>
    unfold bisect
    cases ho : oracle m with
    | none => simp
    | some asg =>
      simp only
      split_ifs with hempty
      · simp
      · simp only [Bool.or_eq_true, List.isEmpty_iff, not_or] at hempty
        obtain ⟨ha, hb⟩ := hempty
        obtain ⟨pa, na⟩ := ih (m.filter asg)
        obtain ⟨pb, nb⟩ := ih (m.filter fun i => !asg i)
        refine ⟨?_, fun _ part hpart => ?_⟩
        · rw [List.flatten_append]
          exact (List.Perm.append pa pb).trans (filter_append_perm m asg)
        · rcases List.mem_append.mp hpart with h | h
          · exact na ha part h
          · exact nb hb part h

/-- `ls2ci` of a list of non-empty modules that lists every node exactly once gives labels exactly `1..k` -/
theorem ls2ci_range (ls : List (List (Fin n))) (hperm : ls.flatten.Perm (List.finRange n))
    (hne : ∀ part ∈ ls, part ≠ []) :
    (∀ i, 1 ≤ ls2ci ls i ∧ ls2ci ls i ≤ ls.length) ∧ (∀ l, 1 ≤ l → l ≤ ls.length → ∃ i, ls2ci ls i = l) := by
  have hmem : ∀ i : Fin n, ∃ part ∈ ls, (fun l : List (Fin n) => l.contains i) part = true := by
    intro i
    have : i ∈ ls.flatten := hperm.mem_iff.mpr (List.mem_finRange i)
    obtain ⟨part, hp, hi⟩ := List.mem_flatten.mp this
    exact ⟨part, hp, by simpa using hi⟩
  have hnd : ls.flatten.Nodup := hperm.nodup_iff.mpr (List.nodup_finRange n)
  refine ⟨fun i => ⟨by simp [ls2ci], ?_⟩, fun l h1 h2 => ?_⟩
  · have := List.findIdx_lt_length_of_exists (hmem i)
    simp only [ls2ci]; omega
  · have hk : l - 1 < ls.length := by omega
    have hpart : ls[l - 1] ≠ [] := hne _ (List.getElem_mem hk)
    obtain ⟨i, tl, hcons⟩ := List.exists_cons_of_ne_nil hpart
    refine ⟨i, ?_⟩
    have hin : i ∈ ls[l - 1] := by rw [hcons]; exact List.mem_cons_self
    have hlt := List.findIdx_lt_length_of_exists (hmem i)
    have hget := List.findIdx_getElem (w := hlt)
    simp only [List.contains_iff_mem] at hget
    have hle : ls.findIdx (fun l => l.contains i) ≤ l - 1 := by
      by_contra hgt
      have := List.not_of_lt_findIdx (Nat.lt_of_not_le hgt)
      simp [hin] at this
    have heq : ls.findIdx (fun l => l.contains i) = l - 1 := by
      by_contra hne'
      have hlt' : ls.findIdx (fun l => l.contains i) < l - 1 := lt_of_le_of_ne hle hne'
      have hdis := (List.nodup_flatten.mp hnd).2
      have := List.pairwise_iff_getElem.mp hdis _ _ hlt hk hlt'
      exact this hget hin
    simp only [ls2ci, heq]; omega

/-- the whole spectral path: labels exactly `1..k` whatever the oracle answers -/
theorem bisect_labels (oracle : List (Fin n) → Option (Fin n → Bool)) (fuel : ℕ) (hn : 0 < n) :
    let ls := bisect oracle fuel (List.finRange n)
    (∀ i, 1 ≤ ls2ci ls i ∧ ls2ci ls i ≤ ls.length) ∧ (∀ l, 1 ≤ l → l ≤ ls.length → ∃ i, ls2ci ls i = l) := by
  obtain ⟨hp, hne⟩ := bisect_partition oracle fuel (List.finRange n)
  have hne0 : List.finRange n ≠ [] := by
    intro h; have := congrArg List.length h; simp at this; omega
  exact ls2ci_range _ hp (hne hne0)

end Bct.Modularity
