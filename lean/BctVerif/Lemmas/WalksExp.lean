import BctVerif.Lemmas.WalksTail
import BctVerif.Lemmas.WalksSpectral
import Mathlib.Topology.Instances.Matrix
import Mathlib.Topology.Algebra.InfiniteSum.Order
import Mathlib.Topology.Order.Basic
/-!
# The truncated series of the model versus Mathlib's matrix exponential

`exp_diag_tail`: `|exp(A)_ii − expDiag A T i| ≤ expTail ‖A‖∞ T` over ℝ — the value the driver prints is within its
printed bound of the diagonal of the true matrix exponential.
-/
open Matrix Finset NormedSpace Filter Topology

namespace Bct.Walks

variable {n : ℕ}

/-- the real matrix of an integer `AMat` -/
def toMatR (A : AMat Int n) : Matrix (Fin n) (Fin n) ℝ := (toMat A).map (Int.cast : ℤ → ℝ)

open scoped Matrix.Norms.Operator in
theorem hasSum_exp_diag (B : Matrix (Fin n) (Fin n) ℝ) (i : Fin n) :
    HasSum (fun m : ℕ => (B ^ m) i i / (m.factorial : ℝ)) ((exp B) i i) := by
  have h := NormedSpace.exp_series_hasSum_exp' (𝕂 := ℝ) B
  have h2 := (Pi.hasSum.mp h.matrix_diag) i
  simp only [Matrix.diag_apply, Matrix.smul_apply, smul_eq_mul] at h2
  simp only [div_eq_inv_mul]
  exact h2

theorem expDiag_cast (A : AMat Int n) (T : ℕ) (i : Fin n) :
    (((expDiag A T)[i] : ℚ) : ℝ) = ∑ m ∈ range T, (toMatR A ^ m) i i / (m.factorial : ℝ) := by
  rw [expDiag_spec, Rat.cast_sum]
  refine Finset.sum_congr rfl (fun m _ => ?_)
  have e2 : toMatR A ^ m = ((toMat A) ^ m).map (Int.cast : ℤ → ℝ) := by
    have := (map_pow (Int.castRingHom ℝ).mapMatrix (toMat A) m).symm
    simpa [RingHom.mapMatrix_apply, toMatR] using this
  rw [e2]
  simp only [Matrix.map_apply, Rat.cast_div, Rat.cast_intCast, Rat.cast_natCast]

theorem exp_diag_tail (A : AMat Int n) (T : ℕ) (b : ℚ) (hb : expTail (infNorm A) T = .ok b) (i : Fin n) :
    |(exp (toMatR A)) i i - (((expDiag A T)[i] : ℚ) : ℝ)| ≤ (b : ℝ) := by
  have hs := (hasSum_exp_diag (toMatR A) i).tendsto_sum_nat
  have hcont : Tendsto (fun N : ℕ => |(∑ m ∈ range N, (toMatR A ^ m) i i / (m.factorial : ℝ))
      - (((expDiag A T)[i] : ℚ) : ℝ)|) atTop (𝓝 |(exp (toMatR A)) i i - (((expDiag A T)[i] : ℚ) : ℝ)|) :=
    (hs.sub_const _).abs
  refine le_of_tendsto hcont ?_
  filter_upwards [eventually_ge_atTop T] with N hN
  rw [← expDiag_cast A N i]
  have := expDiag_tail A T N hN b hb i
  have h2 : ((|(expDiag A N)[i] - (expDiag A T)[i]| : ℚ) : ℝ) ≤ (b : ℝ) := Rat.cast_le.mpr this
  simpa [Rat.cast_abs, Rat.cast_sub] using h2

end Bct.Walks
