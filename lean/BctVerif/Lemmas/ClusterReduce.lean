import BctVerif.Lemmas.ClusterCore
/-!
# Reductions between the variants (weighted → binary on 0/1 input, directed → undirected on symmetric input)

Generic part over any linearly ordered field (used at ℚ and ℝ), then the vector-level equalities of the ℚ model.
-/
namespace Bct.Cluster
open Finset Bct

variable {n : ℕ}

theorem vec_ext {α} {v w : Vector α n} (h : ∀ i : Fin n, v[i] = w[i]) : v = w :=
  Vector.ext fun i hi => h ⟨i, hi⟩

section Generic
variable {K : Type} [Field K] [LinearOrder K] [IsStrictOrderedRing K]

theorem degS_symm {A : AMat K n} (hS : Symm A) (i : Fin n) : degS A i = 2 * ∑ j, A.get i j := by
  unfold degS; rw [Finset.mul_sum]
  exact Finset.sum_congr rfl (fun j _ => by rw [← hS i j]; ring)

theorem triS_symm {R : AMat K n} (hS : Symm R) (i : Fin n) : triS R i = 8 * tri R i := by
  unfold triS tri; rw [Finset.mul_sum]
  refine Finset.sum_congr rfl (fun j _ => ?_)
  rw [Finset.mul_sum]
  refine Finset.sum_congr rfl (fun k _ => ?_)
  rw [← hS i j, ← hS j k, ← hS k i]; ring

theorem pairsS_symm_bin {A : AMat K n} (hB : Bin A) (hS : Symm A) (i : Fin n) :
    pairsS A i = 4 * ((∑ j, A.get i j) * ((∑ j, A.get i j) - 1)) := by
  unfold pairsS
  have h2 : ∑ j, A.get i j * A.get j i = ∑ j, A.get i j :=
    Finset.sum_congr rfl (fun j _ => by rw [← hS i j, bin_sq hB])
  rw [degS_symm hS, h2]; ring

theorem pairsS_adj_symm {W : AMat K n} (hS : Symm W) (i : Fin n) :
    pairsS (adjK W) i = 4 * (deg W i * (deg W i - 1)) := by
  rw [pairsS_symm_bin (adj_bin W) (adj_symm hS)]
  simp only [adjK_get, deg]

/-- directed = undirected on symmetric input, node level: needs only `Symm W` and `Symm R` (no cube-root hypothesis) -/
theorem ccFagK_symm {W R : AMat K n} (hS : Symm W) (hRS : Symm R) (i : Fin n) :
    ccFagK (adjK W) R i = ccWuK W R i := by
  rw [ccFagK, ccWuK, triS_symm hRS, pairsS_adj_symm hS]
  have : 8 * tri R i / 2 = 4 * tri R i := by ring
  rw [this]; exact perNode_scale (by norm_num)

theorem transFagK_symm {W R : AMat K n} (hS : Symm W) (hRS : Symm R) :
    transFagK (adjK W) R = transWuK W R := by
  rw [transFagK, transWuK]
  have h1 : ∑ i, triS R i / 2 = 4 * ∑ i, tri R i := by
    rw [Finset.mul_sum]; exact Finset.sum_congr rfl (fun i _ => by rw [triS_symm hRS]; ring)
  have h2 : ∑ i, pairsS (adjK W) i = 4 * ∑ i, deg W i * (deg W i - 1) := by
    rw [Finset.mul_sum]; exact Finset.sum_congr rfl (fun i _ => pairsS_adj_symm hS i)
  rw [h1, h2]; exact gdiv_scale (by norm_num)

theorem perNode_eq_bu {t d : K} (h : t ≠ 0 → 2 ≤ d) :
    perNodeK t (d * (d - 1)) = some (if (2:K) ≤ d then t / (d * (d - 1)) else 0) := by
  by_cases ht : t = 0
  · subst ht; simp [perNodeK]
  · have hd := h ht
    have : d * (d - 1) ≠ 0 := ne_of_gt (by nlinarith)
    rw [perNode_of_ne ht this, if_pos hd]

theorem tri_ne_zero_deg {W R : AMat K n} (hS : Symm W) (hD : EmptyDiag W) (hR : IsCbrt R W) {i : Fin n}
    (h : tri R i ≠ 0) : 2 ≤ deg W i := by
  obtain ⟨j, k, hjk, h1, -, h3⟩ := tri_ne_zero (isCbrt_emptyDiag hR hD) h
  refine deg_ge_two hjk (fun h0 => h1 ((isCbrt_zero_iff hR i j).mpr h0)) (fun h0 => h3 ?_)
  exact (isCbrt_zero_iff hR k i).mpr (by rw [← hS i k]; exact h0)

/-- `Σ_{i,j} (A²)_ij - tr(A²) = Σ_i k_i (k_i - 1)` for a 0/1 symmetric matrix -/
theorem triples_bin_symm {A : AMat K n} (hB : Bin A) (hS : Symm A) :
    (∑ i, ∑ j, ∑ k, A.get i k * A.get k j) - ∑ i, ∑ k, A.get i k * A.get k i
      = ∑ i, deg A i * (deg A i - 1) := by
  have e1 : ∑ i, ∑ j, ∑ k, A.get i k * A.get k j = ∑ k, deg A k * deg A k := by
    have : ∀ i, ∑ j, ∑ k, A.get i k * A.get k j = ∑ k, A.get i k * deg A k := by
      intro i; rw [Finset.sum_comm]
      exact Finset.sum_congr rfl (fun k _ => by rw [deg_of_bin hB, Finset.mul_sum])
    simp only [this]
    rw [Finset.sum_comm]
    refine Finset.sum_congr rfl (fun k _ => ?_)
    rw [← Finset.sum_mul, deg_of_bin hB]
    congr 1
    exact Finset.sum_congr rfl (fun i _ => hS i k)
  have e2 : ∑ i, ∑ k, A.get i k * A.get k i = ∑ i, deg A i :=
    Finset.sum_congr rfl (fun i _ => by
      rw [deg_of_bin hB]; exact Finset.sum_congr rfl (fun k _ => by rw [← hS i k, bin_sq hB]))
  rw [e1, e2, ← Finset.sum_sub_distrib]
  exact Finset.sum_congr rfl (fun i _ => by ring)

end Generic

/-! ### the ℚ model -/

/-- `wd_eq_wu_symm`: any symmetric `W`, any symmetric `R` -/
theorem wd_eq_wu_symm {W R : AMat ℚ n} (hS : Symm W) (hRS : Symm R) : ccWd W R = ccWu W R :=
  vec_ext fun i => by rw [ccWd_get, ccWu_get, ccFagK_symm hS hRS]

theorem wd_eq_bd_on01 {W : AMat ℚ n} (hB : Bin W) : ccWd W W = ccBd W := by
  rw [ccWd, adj_eq, adj_of_bin hB]; rfl

/-- on a 0/1 symmetric matrix the list code of `clustering_coef_bu` counts closed triples -/
theorem ccBu_bin_symm {G : AMat ℚ n} (hB : Bin G) (hS : Symm G) (u : Fin n) :
    (ccBu G)[u] = some (if (2:ℚ) ≤ deg G u then tri G u / (deg G u * (deg G u - 1)) else 0) := by
  rw [ccBu_get]
  have : (∑ a, ∑ b, indK (G.get u a) * (indK (G.get u b) * G.get a b)) = tri G u := by
    unfold tri
    refine Finset.sum_congr rfl (fun a _ => Finset.sum_congr rfl (fun b _ => ?_))
    rw [ind_of_bin (hB u a), ind_of_bin (hB u b), hS b u]; ring
  rw [this]
  have h2 : deg G u * deg G u - deg G u = deg G u * (deg G u - 1) := by ring
  rw [h2]

/-- `wu_eq_bu_on01` -/
theorem wu_eq_bu_on01 {W : AMat ℚ n} (hB : Bin W) (hS : Symm W) (hD : EmptyDiag W) : ccWu W W = ccBu W := by
  refine vec_ext (fun i => ?_)
  rw [ccWu_get, ccBu_bin_symm hB hS, ccWuK]
  exact perNode_eq_bu (fun h => tri_ne_zero_deg hS hD (isCbrt_of_bin hB) h)

/-- `bd_eq_bu_symm` -/
theorem bd_eq_bu_symm {A : AMat ℚ n} (hB : Bin A) (hS : Symm A) (hD : EmptyDiag A) : ccBd A = ccBu A := by
  rw [← wd_eq_bd_on01 hB, wd_eq_wu_symm hS hS, wu_eq_bu_on01 hB hS hD]

theorem trans_wd_eq_bd_on01 {W : AMat ℚ n} (hB : Bin W) : transWd W W = transBd W := by
  rw [transWd, adj_eq, adj_of_bin hB]; rfl

theorem trans_wd_eq_wu_symm {W R : AMat ℚ n} (hS : Symm W) (hRS : Symm R) : transWd W R = transWu W R := by
  rw [transWd_eq, transWu_eq, transFagK_symm hS hRS]

theorem trans_wu_eq_bu_on01 {W : AMat ℚ n} (hB : Bin W) (hS : Symm W) : transWu W W = transBu W := by
  rw [transWu_eq, transBu_eq, triples_bin_symm hB hS, transWuK]

theorem trans_bd_eq_bu_symm {A : AMat ℚ n} (hB : Bin A) (hS : Symm A) : transBd A = transBu A := by
  rw [← trans_wd_eq_bd_on01 hB, trans_wd_eq_wu_symm hS hS, trans_wu_eq_bu_on01 hB hS]

/-! ### degrees and strengths -/

theorem strengthsUnd_eq_degreesUnd_on01 {W : AMat ℚ n} (hB : Bin W) : strengthsUnd W = degreesUnd W := by
  rw [degreesUnd, adj_eq, adj_of_bin hB]; rfl

theorem strengthsDir_eq_degreesTot_on01 {W : AMat ℚ n} (hB : Bin W) : strengthsDir W = degreesTot W := by
  rw [degreesTot, adj_eq, adj_of_bin hB]; rfl

theorem rowSum_eq_colSum_symm {A : AMat ℚ n} (hS : Symm A) (i : Fin n) : rowSum A i = colSum A i := by
  rw [rowSum_eq, colSum_eq]; exact Finset.sum_congr rfl (fun j _ => hS i j)

theorem degreesIn_eq_und (W : AMat ℚ n) : degreesIn W = degreesUnd W := rfl

theorem degreesOut_eq_und_symm {W : AMat ℚ n} (hS : Symm W) : degreesOut W = degreesUnd W := by
  refine vec_ext (fun i => ?_)
  simp only [degreesOut, degreesUnd, get_ofFn_vec]
  rw [adj_eq]; exact rowSum_eq_colSum_symm (adj_symm hS) i

theorem adj_adj_q (W : AMat ℚ n) : adj (adj W) = adj W := by rw [adj_eq, adj_eq, adj_adj]

theorem degreesUnd_binarize (W : AMat ℚ n) : degreesUnd (adj W) = degreesUnd W := by
  rw [degreesUnd, adj_adj_q]; rfl

end Bct.Cluster
