import BctVerif.Lemmas.WalksAlg
/-!
# `walkCount` counts walks: an explicit duplicate-free enumeration of all node sequences that are walks

`walksFrom adj q i` lists every node sequence `[v₀, …, v_q]` with `v₀ = i` and `adj v_t v_{t+1}` for all `t`
(`mem_walksFrom`), without repetition (`walksFrom_nodup`); `walkCount adj q i j` is the number of those ending in `j`
(`walkCount_eq_length`).
-/
open Finset

namespace Bct.WalksAlg

variable {n : ℕ}

/-- consecutive entries are adjacent -/
def IsWalk (adj : Fin n → Fin n → Bool) : List (Fin n) → Prop
  | [] => True
  | [_] => True
  | a :: b :: l => adj a b = true ∧ IsWalk adj (b :: l)

/-- all walks with `q` steps starting at `i`, as node lists of length `q+1` -/
def walksFrom (adj : Fin n → Fin n → Bool) : ℕ → Fin n → List (List (Fin n))
  | 0, i => [[i]]
  | q + 1, i => ((List.finRange n).filter fun k => adj i k).flatMap fun k => (walksFrom adj q k).map (i :: ·)

theorem mem_walksFrom (adj : Fin n → Fin n → Bool) (q : ℕ) (i : Fin n) (l : List (Fin n)) :
    l ∈ walksFrom adj q i ↔ l.length = q + 1 ∧ l.head? = some i ∧ IsWalk adj l := by
  induction q generalizing i l with
  | zero =>
    simp only [walksFrom, List.mem_singleton, zero_add]
    constructor
    · rintro rfl; simp [IsWalk]
    · rintro ⟨h1, h2, -⟩
      match l, h1, h2 with
      | [a], _, h2 => simp at h2; rw [h2]
  | succ q ih =>
    simp only [walksFrom, List.mem_flatMap, List.mem_filter, List.mem_finRange, true_and, List.mem_map]
    constructor
    · rintro ⟨k, hk, l', hl', rfl⟩
      obtain ⟨h1, h2, h3⟩ := (ih k l').mp hl'
      match l', h1, h2, h3 with
      | b :: rest, h1, h2, h3 =>
        simp at h2; subst h2
        exact ⟨by simp [h1], by simp, hk, h3⟩
    · rintro ⟨h1, h2, h3⟩
      match l, h1, h2, h3 with
      | a :: b :: rest, h1, h2, h3 =>
        simp at h2; subst h2
        exact ⟨b, h3.1, b :: rest, (ih b (b :: rest)).mpr ⟨by simpa using h1, by simp, h3.2⟩, rfl⟩

theorem walksFrom_ne_nil (adj : Fin n → Fin n → Bool) (q : ℕ) (i : Fin n) (l : List (Fin n))
    (h : l ∈ walksFrom adj q i) : l ≠ [] := by
  have := ((mem_walksFrom adj q i l).mp h).1
  intro hl; subst hl; simp at this

theorem walksFrom_nodup (adj : Fin n → Fin n → Bool) (q : ℕ) (i : Fin n) : (walksFrom adj q i).Nodup := by
  induction q generalizing i with
  | zero => simp [walksFrom]
  | succ q ih =>
    simp only [walksFrom]
    rw [List.nodup_flatMap]
    refine ⟨fun k _ => (ih k).map (fun a b h => by simpa using h), ?_⟩
    have hnd : ((List.finRange n).filter fun k => adj i k).Nodup := (List.nodup_finRange n).filter _
    refine (List.nodup_iff_pairwise_ne.mp hnd).imp ?_
    intro a b hab
    simp only [Function.onFun]
    rw [List.disjoint_left]
    intro l hla hlb
    obtain ⟨la, hla', rfl⟩ := List.mem_map.mp hla
    obtain ⟨lb, hlb', hl⟩ := List.mem_map.mp hlb
    have : lb = la := by simpa using hl
    subst this
    have h1 := ((mem_walksFrom adj q a lb).mp hla').2.1
    have h2 := ((mem_walksFrom adj q b lb).mp hlb').2.1
    rw [h1] at h2
    exact hab (by simpa using h2)

theorem sum_map_ite_eq {α : Type} (l : List α) (p : α → Bool) (f : α → ℕ) :
    (l.map fun k => if p k then f k else 0).sum = ((l.filter p).map f).sum := by
  induction l with
  | nil => rfl
  | cons a l ih =>
    by_cases h : p a = true
    · simp [h, ih]
    · simp [h, ih]

theorem length_filter_flatMap {α β : Type} (l : List α) (g : α → List β) (p : β → Bool) :
    ((l.flatMap g).filter p).length = (l.map fun k => ((g k).filter p).length).sum := by
  induction l with
  | nil => rfl
  | cons a l ih => simp [List.flatMap_cons, List.filter_append, ih]

/-- `walkCount` is the number of enumerated walks from `i` that end in `j` -/
theorem walkCount_eq_length (adj : Fin n → Fin n → Bool) (q : ℕ) (i j : Fin n) :
    walkCount adj q i j = ((walksFrom adj q i).filter fun l => l.getLast? == some j).length := by
  induction q generalizing i with
  | zero =>
    simp only [walkCount, walksFrom]
    by_cases h : i = j
    · subst h; simp
    · simp [h]
  | succ q ih =>
    simp only [walkCount, walksFrom]
    rw [length_filter_flatMap, Finset.sum_filter, Fin.sum_univ_def, sum_map_ite_eq]
    congr 1
    refine List.map_congr_left (fun k _ => ?_)
    rw [ih k, List.filter_map, List.length_map]
    congr 1
    refine List.filter_congr (fun l hl => ?_)
    have hne := walksFrom_ne_nil adj q k l hl
    simp only [Function.comp]
    rw [List.getLast?_cons_of_ne_nil hne]

end Bct.WalksAlg
