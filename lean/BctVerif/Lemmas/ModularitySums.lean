import BctVerif.Model.Modularity
import Mathlib.Algebra.BigOperators.Fin
import Mathlib.Algebra.BigOperators.Ring.Finset
import Mathlib.Algebra.Order.Field.Rat
import Mathlib.Tactic.Ring
import Mathlib.Tactic.FieldSimp
import Mathlib.Tactic.Linarith

/-! # `fsum` is `Finset.sum`; function views of the model's matrices -/
namespace Bct.Modularity
open Finset

variable {n : ℕ}

theorem fsum_eq (f : Fin n → ℚ) : fsum f = ∑ i, f i := by
  unfold fsum; exact (Fin.sum_univ_def f).symm

@[simp] theorem Bmod_get (W : RMat n) (γ : ℚ) (i j : Fin n) :
    (Bmod W γ).get i j = W.get i j - γ * rowSum W i * colSum W j / total W := by
  simp [Bmod]

@[simp] theorem Bund_get (W : RMat n) (γ : ℚ) (i j : Fin n) :
    (Bund W γ).get i j = W.get i j - γ * rowSum W i * rowSum W j / total W := by
  simp [Bund]

theorem total_eq (W : RMat n) : total W = ∑ i, ∑ j, W.get i j := by
  simp [total, fsum_eq]
theorem rowSum_eq (W : RMat n) (i : Fin n) : rowSum W i = ∑ j, W.get i j := by simp [rowSum, fsum_eq]
theorem colSum_eq (W : RMat n) (j : Fin n) : colSum W j = ∑ i, W.get i j := by simp [colSum, fsum_eq]
theorem trace_eq (W : RMat n) : trace W = ∑ i, W.get i i := by simp [trace, fsum_eq]

theorem Qobj_eq {α : Type} [DecidableEq α] (B : RMat n) (c : Fin n → α) :
    Qobj B c = ∑ i, ∑ j, if c i = c j then B.get i j else 0 := by
  simp [Qobj, fsum_eq]

theorem total_eq_sum_rowSum (W : RMat n) : total W = ∑ i, rowSum W i := by
  simp [total_eq, rowSum_eq]
theorem total_eq_sum_colSum (W : RMat n) : total W = ∑ j, colSum W j := by
  simp only [total_eq, colSum_eq]; exact Finset.sum_comm

end Bct.Modularity
