import BctVerif.Lemmas.BetweenFwd

/-!
# Forward phase of the weighted Brandes loop: one node, one batch (C08)
-/
namespace Bct.Between
open Bct

variable {n : ℕ} (L : AMat Nat n) (u : Fin n)

theorem foldl_relaxW_spec {A : Finset (Fin n)} {v : Fin n} {m : ℕ} (ws : List (Fin n)) (st : SrcSt n)
    (hnd : ws.Nodup) (hvws : v ∉ ws) (huws : u ∉ ws) (hvA : v ∉ A)
    (hv : (dist L).get u v = some m) (hDv : st.D[v] = some m) (hNPv : st.NP[v] = (sigma L).get u v)
    (hG : ∀ w ∈ ws, st.G1.get v w = L.get v w ∧ L.get v w ≠ 0)
    (hrel : ∀ x ∈ ws, Rel L u A st x) :
    (∀ x ∈ ws, Rel L u (insert v A) (ws.foldl (relaxW v) st) x) ∧
    (∀ x, x ∉ ws → (ws.foldl (relaxW v) st).D[x] = st.D[x] ∧
      (ws.foldl (relaxW v) st).NP[x] = st.NP[x] ∧
      ∀ z, (ws.foldl (relaxW v) st).P.get x z = st.P.get x z) ∧
    (ws.foldl (relaxW v) st).S = st.S ∧ (ws.foldl (relaxW v) st).Q = st.Q ∧
    (ws.foldl (relaxW v) st).q = st.q ∧ (ws.foldl (relaxW v) st).G1 = st.G1 := by
  induction ws generalizing st with
  | nil => exact ⟨by simp, fun x _ => ⟨rfl, rfl, fun _ => rfl⟩, rfl, rfl, rfl, rfl⟩
  | cons w ws ih =>
    obtain ⟨hw, hnd'⟩ := List.nodup_cons.1 hnd
    have hvw : v ≠ w := fun e => hvws (e ▸ List.mem_cons_self)
    have hwu : w ≠ u := fun e => huws (e ▸ List.mem_cons_self)
    obtain ⟨g1, g2, g3, g4⟩ := relaxW_globals v w st
    obtain ⟨ov1, ov2, _⟩ := relaxW_other v w v st hvw
    have hGw := hG w List.mem_cons_self
    have hrelw := relaxW_rel L u (hrel w List.mem_cons_self) hwu hvA hvw hv hDv hNPv hGw.1 hGw.2
    obtain ⟨i1, i2, i3, i4, i5, i6⟩ := ih (relaxW v st w) hnd'
      (fun h => hvws (List.mem_cons_of_mem _ h)) (fun h => huws (List.mem_cons_of_mem _ h))
      (by rw [ov1]; exact hDv) (by rw [ov2]; exact hNPv)
      (fun x hx => by rw [g4]; exact hG x (List.mem_cons_of_mem _ hx))
      (fun x hx => by
        have hxw : x ≠ w := fun e => hw (e ▸ hx)
        obtain ⟨o1, o2, o3⟩ := relaxW_other v w x st hxw
        exact (hrel x (List.mem_cons_of_mem _ hx)).congr L u o1 o2 o3)
    simp only [List.foldl_cons]
    refine ⟨?_, ?_, by rw [i3, g1], by rw [i4, g2], by rw [i5, g3], by rw [i6, g4]⟩
    · intro x hx
      rcases List.mem_cons.1 hx with rfl | hx
      · obtain ⟨o1, o2, o3⟩ := i2 x hw
        exact hrelw.congr L u o1 o2 o3
      · exact i1 x hx
    · intro x hx
      have hxw : x ≠ w := fun e => hx (e ▸ List.mem_cons_self)
      have hxws : x ∉ ws := fun h => hx (List.mem_cons_of_mem _ h)
      obtain ⟨o1, o2, o3⟩ := relaxW_other v w x st hxw
      obtain ⟨j1, j2, j3⟩ := i2 x hxws
      exact ⟨by rw [j1, o1], by rw [j2, o2], fun z => by rw [j3, o3]⟩

theorem mem_nbrs {G : AMat Nat n} {v w : Fin n} : w ∈ nbrs G v ↔ G.get v w ≠ 0 := by
  simp [nbrs]

/-- `for w in W:` for one settled node `v` -/
theorem relaxAll_spec {A : Finset (Fin n)} {v : Fin n} {m : ℕ} (st : SrcSt n) (hvA : v ∉ A)
    (hv : (dist L).get u v = some m) (hDv : st.D[v] = some m) (hNPv : st.NP[v] = (sigma L).get u v)
    (hG1 : ∀ j, st.G1.get v j = if st.S[j] = true then L.get v j else 0)
    (hSv : st.S[v] = false) (hSu : st.S[u] = false)
    (hclr : ∀ x : Fin n, st.S[x] = false → ∃ c, st.D[x] = some c ∧ c ≤ m)
    (hrel : ∀ x, Rel L u A st x) :
    (∀ x, Rel L u (insert v A) ((nbrs st.G1 v).foldl (relaxW v) st) x) ∧
    (∀ x : Fin n, st.S[x] = false → ((nbrs st.G1 v).foldl (relaxW v) st).D[x] = st.D[x] ∧
      ((nbrs st.G1 v).foldl (relaxW v) st).NP[x] = st.NP[x]) ∧
    ((nbrs st.G1 v).foldl (relaxW v) st).S = st.S ∧ ((nbrs st.G1 v).foldl (relaxW v) st).Q = st.Q ∧
    ((nbrs st.G1 v).foldl (relaxW v) st).q = st.q ∧ ((nbrs st.G1 v).foldl (relaxW v) st).G1 = st.G1 := by
  have hmem : ∀ w, w ∈ nbrs st.G1 v ↔ st.S[w] = true ∧ L.get v w ≠ 0 := by
    intro w
    rw [mem_nbrs, hG1 w]
    by_cases h : st.S[w] = true <;> simp [h]
  have hnd : (nbrs st.G1 v).Nodup := (List.nodup_finRange n).filter _
  have hvn : v ∉ nbrs st.G1 v := fun h => by
    have := ((hmem v).1 h).1; rw [hSv] at this; exact absurd this (by simp)
  have hun : u ∉ nbrs st.G1 v := fun h => by
    have := ((hmem u).1 h).1; rw [hSu] at this; exact absurd this (by simp)
  obtain ⟨f1, f2, f3, f4, f5, f6⟩ := foldl_relaxW_spec L u (nbrs st.G1 v) st hnd hvn hun hvA hv hDv hNPv
    (fun w hw => by
      obtain ⟨h1, h2⟩ := (hmem w).1 hw
      exact ⟨by rw [hG1 w, if_pos h1], h2⟩)
    (fun x _ => hrel x)
  refine ⟨?_, ?_, f3, f4, f5, f6⟩
  · intro x
    by_cases hx : x ∈ nbrs st.G1 v
    · exact f1 x hx
    · obtain ⟨o1, o2, o3⟩ := f2 x hx
      have hirr : L.get v x = 0 ∨ ∃ c, st.D[x] = some c ∧ c < m + L.get v x := by
        by_cases hL : L.get v x = 0
        · exact Or.inl hL
        · right
          have hS : st.S[x] = false := by
            by_contra hS
            exact hx ((hmem x).2 ⟨by simpa using hS, hL⟩)
          obtain ⟨c, hc, hle⟩ := hclr x hS
          exact ⟨c, hc, by have := Nat.pos_of_ne_zero hL; omega⟩
      exact ((hrel x).insert_irrelevant L u hv hirr).congr L u o1 o2 o3
  · intro x hS
    have hx : x ∉ nbrs st.G1 v := fun h => by
      have := ((hmem x).1 h).1; rw [hS] at this; exact absurd this (by simp)
    obtain ⟨o1, o2, _⟩ := f2 x hx
    exact ⟨o1, o2⟩

/-! ### the queue -/

/-- `Q[q+1:]` (Python's `q`) holds the settled nodes, most recent first -/
def QInv (st : SrcSt n) (ord : List (Fin n)) : Prop :=
  st.q ≤ n ∧ st.Q.toList.drop st.q = ord.map Fin.val

theorem QInv.length {st : SrcSt n} {ord : List (Fin n)} (h : QInv st ord) : st.q + ord.length = n := by
  have := congrArg List.length h.2
  simp only [List.length_drop, Vector.length_toList, List.length_map] at this
  have := h.1
  omega

theorem drop_set_pred {α : Type} (l : List α) (q : ℕ) (hq : 0 < q) (hql : q ≤ l.length) (a : α) :
    (l.set (q - 1) a).drop (q - 1) = a :: l.drop q := by
  have hlt : q - 1 < l.length := by omega
  rw [List.set_eq_take_append_cons_drop, if_pos hlt]
  have hlen : (List.take (q - 1) l).length = q - 1 := by simp; omega
  rw [List.drop_append_of_le_length (by omega), List.drop_of_length_le (by omega)]
  simp only [List.nil_append]
  try simp only [hlen, Nat.sub_self, List.drop_zero]
  rw [show q - 1 + 1 = q by omega]

theorem push_spec (st : SrcSt n) (v : Fin n) (ord : List (Fin n)) (hQ : QInv st ord)
    (hnd : (v :: ord).Nodup) :
    ∃ st1, push st v = .ok st1 ∧ QInv st1 (v :: ord) ∧ st1.D = st.D ∧ st1.NP = st.NP ∧
      st1.S = st.S ∧ st1.P = st.P ∧ st1.G1 = st.G1 := by
  have hlen := hQ.length
  have hcard := hnd.length_le_card
  simp only [List.length_cons, Fintype.card_fin] at hcard
  have hq : 0 < st.q ∧ st.q - 1 < n := by omega
  unfold push
  rw [dif_pos hq]
  refine ⟨_, rfl, ⟨by simp only; omega, ?_⟩, rfl, rfl, rfl, rfl, rfl⟩
  simp only [Vector.toList_set, List.map_cons]
  rw [drop_set_pred _ _ hq.1 (by simp; omega), hQ.2]

/-! ### one batch: `for v in V:` -/

theorem settle_spec {m : ℕ} (V : List (Fin n)) (A : Finset (Fin n)) (ord : List (Fin n)) (st : SrcSt n)
    (hVnd : V.Nodup) (hVA : ∀ v ∈ V, v ∉ A) (hVord : ∀ v ∈ V, v ∉ ord) (hordnd : ord.Nodup)
    (hVd : ∀ v ∈ V, (dist L).get u v = some m ∧ st.D[v] = some m ∧
      st.NP[v] = (sigma L).get u v ∧ st.S[v] = false)
    (hG1 : ∀ i j : Fin n, st.G1.get i j = if st.S[j] = true then L.get i j else 0)
    (hSu : st.S[u] = false)
    (hclr : ∀ x : Fin n, st.S[x] = false → ∃ c, st.D[x] = some c ∧ c ≤ m)
    (hrel : ∀ x, Rel L u A st x) (hQ : QInv st ord) :
    ∃ st', settle true V st = .ok st' ∧ (∀ x, Rel L u (A ∪ V.toFinset) st' x) ∧
      st'.S = st.S ∧ st'.G1 = st.G1 ∧ QInv st' (V.reverse ++ ord) ∧
      (∀ x : Fin n, st.S[x] = false → st'.D[x] = st.D[x] ∧ st'.NP[x] = st.NP[x]) := by
  induction V generalizing A ord st with
  | nil =>
    refine ⟨st, rfl, ?_, rfl, rfl, by simpa using hQ, fun _ _ => ⟨rfl, rfl⟩⟩
    intro x; simpa using hrel x
  | cons v V ih =>
    obtain ⟨hvV, hVnd'⟩ := List.nodup_cons.1 hVnd
    obtain ⟨hdv, hDv, hNPv, hSv⟩ := hVd v List.mem_cons_self
    have hvA := hVA v List.mem_cons_self
    have hvord := hVord v List.mem_cons_self
    obtain ⟨st1, hp, hQ1, eD, eNP, eS, eP, eG⟩ := push_spec st v ord hQ (List.nodup_cons.2 ⟨hvord, hordnd⟩)
    have hrel1 : ∀ x, Rel L u A st1 x := fun x =>
      (hrel x).congr L u (by rw [eD]) (by rw [eNP]) (fun z => by rw [eP])
    obtain ⟨r1, r2, r3, r4, r5, r6⟩ := relaxAll_spec L u st1 hvA hdv (by rw [eD]; exact hDv)
      (by rw [eNP]; exact hNPv) (fun j => by rw [eG, eS]; exact hG1 v j) (by rw [eS]; exact hSv)
      (by rw [eS]; exact hSu) (fun x hx => by rw [eS] at hx; rw [eD]; exact hclr x hx) hrel1
    simp only [settle, hp, if_true]
    obtain ⟨st', g1, g2, g3, g4, g5, g6⟩ := ih (insert v A) (v :: ord)
      ((nbrs st1.G1 v).foldl (relaxW v) st1) hVnd'
      (fun v' hv' h => by
        rcases Finset.mem_insert.1 h with e | e
        · exact hvV (e ▸ hv')
        · exact hVA v' (List.mem_cons_of_mem _ hv') e)
      (fun v' hv' h => by
        rcases List.mem_cons.1 h with e | e
        · exact hvV (e ▸ hv')
        · exact hVord v' (List.mem_cons_of_mem _ hv') e)
      (List.nodup_cons.2 ⟨hvord, hordnd⟩)
      (fun v' hv' => by
        obtain ⟨a1, a2, a3, a4⟩ := hVd v' (List.mem_cons_of_mem _ hv')
        obtain ⟨b1, b2⟩ := r2 v' (by rw [eS]; exact a4)
        exact ⟨a1, by rw [b1, eD]; exact a2, by rw [b2, eNP]; exact a3, by rw [r3, eS]; exact a4⟩)
      (fun i j => by rw [r6, r3, eG, eS]; exact hG1 i j)
      (by rw [r3, eS]; exact hSu)
      (fun x hx => by
        rw [r3, eS] at hx
        obtain ⟨b1, _⟩ := r2 x (by rw [eS]; exact hx)
        rw [b1, eD]; exact hclr x hx)
      r1
      ⟨by rw [r5]; exact hQ1.1, by rw [r4, r5]; exact hQ1.2⟩
    refine ⟨st', g1, ?_, by rw [g3, r3, eS], by rw [g4, r6, eG], ?_, ?_⟩
    · intro x
      have : A ∪ (v :: V).toFinset = insert v A ∪ V.toFinset := by
        ext y; simp only [Finset.mem_union, List.mem_toFinset, List.mem_cons, Finset.mem_insert]; tauto
      rw [this]; exact g2 x
    · have : (v :: V).reverse ++ ord = V.reverse ++ v :: ord := by simp
      rw [this]; exact g5
    · intro x hx
      obtain ⟨b1, b2⟩ := r2 x (by rw [eS]; exact hx)
      obtain ⟨c1, c2⟩ := g6 x (by rw [r3, eS]; exact hx)
      exact ⟨by rw [c1, b1, eD], by rw [c2, b2, eNP]⟩

end Bct.Between
