import BctVerif.Lemmas.WalksAlg
import Mathlib.LinearAlgebra.Matrix.NonsingularInverse
import Mathlib.LinearAlgebra.Matrix.ToLinearEquiv
import Mathlib.Logic.Relation
/-!
# Existence and uniqueness of mean first passage times for an irreducible stochastic matrix

`hit_unique`: the homogeneous first-passage equations have only the zero solution (maximum principle along a path to the target);
`mfpt_exists_unique`: exactly one matrix `M` has zero diagonal and `M i j = 1 + Σ_{k≠j} P i k · M k j`; `mfpt_ge_one`: its
off-diagonal entries are ≥ 1.
-/
open Finset Matrix

namespace Bct.WalksAlg

variable {n : ℕ} {K : Type} [Field K] [LinearOrder K] [IsStrictOrderedRing K]

/-- every state reaches every state through positive transition probabilities -/
def Irreducible (P : Matrix (Fin n) (Fin n) K) : Prop :=
  ∀ i j, Relation.ReflTransGen (fun a b => 0 < P a b) i j

theorem hit_unique (P : Matrix (Fin n) (Fin n) K) (hP0 : ∀ i k, 0 ≤ P i k) (hP1 : ∀ i, ∑ k, P i k = 1)
    (hirr : Irreducible P) (j : Fin n) (x : Fin n → K) (hxj : x j = 0)
    (hx : ∀ i, i ≠ j → x i = ∑ k, P i k * x k) : ∀ i, x i = 0 := by
  classical
  obtain ⟨i0, -, hmax⟩ := Finset.exists_max_image univ (fun i => |x i|) ⟨j, mem_univ _⟩
  set m := |x i0| with hm
  by_contra hne
  push Not at hne
  obtain ⟨i1, hi1⟩ := hne
  have hmpos : 0 < m := lt_of_lt_of_le (abs_pos.mpr hi1) (hmax i1 (mem_univ _))
  -- the set of maximisers is closed under positive transitions
  have hstep : ∀ i, |x i| = m → ∀ k, 0 < P i k → |x k| = m := by
    intro i hi k hik
    have hij : i ≠ j := by
      rintro rfl; rw [hxj, abs_zero] at hi; linarith
    have h1 : m ≤ ∑ k, P i k * |x k| := by
      rw [← hi, hx i hij]
      refine le_trans (Finset.abs_sum_le_sum_abs _ _) (le_of_eq ?_)
      exact Finset.sum_congr rfl (fun k _ => by rw [abs_mul, abs_of_nonneg (hP0 i k)])
    have h2 : ∑ k, P i k * (m - |x k|) ≤ 0 := by
      have : ∑ k, P i k * (m - |x k|) = m - ∑ k, P i k * |x k| := by
        simp only [mul_sub, Finset.sum_sub_distrib]
        rw [← Finset.sum_mul, hP1 i, one_mul]
      rw [this]; linarith
    have hnn : ∀ k ∈ univ, 0 ≤ P i k * (m - |x k|) := fun k _ =>
      mul_nonneg (hP0 i k) (sub_nonneg.mpr (hmax k (mem_univ _)))
    have hz := (Finset.sum_eq_zero_iff_of_nonneg hnn).mp (le_antisymm h2 (Finset.sum_nonneg hnn)) k (mem_univ _)
    rcases mul_eq_zero.mp hz with h | h
    · exact absurd h (ne_of_gt hik)
    · exact (sub_eq_zero.mp h).symm
  have hall : ∀ k, Relation.ReflTransGen (fun a b => 0 < P a b) i0 k → |x k| = m := by
    intro k hk
    induction hk with
    | refl => rfl
    | tail _ hab ih => exact hstep _ ih _ hab
  have := hall j (hirr i0 j)
  rw [hxj, abs_zero] at this
  linarith

/-- the first-passage system for target `j`: `x_j = 0`, `x_i = 1 + Σ_{k≠j} P i k x_k` -/
def hitMat (P : Matrix (Fin n) (Fin n) K) (j : Fin n) : Matrix (Fin n) (Fin n) K :=
  fun i k => (if i = k then 1 else 0) - (if i = j ∨ k = j then 0 else P i k)

omit [LinearOrder K] [IsStrictOrderedRing K] in
theorem hitMat_mulVec (P : Matrix (Fin n) (Fin n) K) (j : Fin n) (x : Fin n → K) (i : Fin n) :
    (hitMat P j *ᵥ x) i = x i - (if i = j then 0 else ∑ k ∈ univ.erase j, P i k * x k) := by
  simp only [hitMat, Matrix.mulVec, dotProduct, sub_mul, Finset.sum_sub_distrib, ite_mul, one_mul, zero_mul,
    Finset.sum_ite_eq, mem_univ, if_true]
  congr 1
  by_cases hij : i = j
  · simp [hij]
  · simp only [hij, false_or, if_false]
    rw [← Finset.sum_erase_add univ _ (mem_univ j)]
    simp only [if_true, add_zero]
    refine Finset.sum_congr rfl (fun k hk => ?_)
    rw [if_neg (Finset.ne_of_mem_erase hk)]

theorem hitMat_det_ne_zero (P : Matrix (Fin n) (Fin n) K) (hP0 : ∀ i k, 0 ≤ P i k) (hP1 : ∀ i, ∑ k, P i k = 1)
    (hirr : Irreducible P) (j : Fin n) : (hitMat P j).det ≠ 0 := by
  intro hdet
  obtain ⟨x, hx0, hx⟩ := Matrix.exists_mulVec_eq_zero_iff.mpr hdet
  apply hx0
  have hxj : x j = 0 := by
    have := congrFun hx j
    rw [hitMat_mulVec] at this
    simpa using this
  have hrec : ∀ i, i ≠ j → x i = ∑ k, P i k * x k := by
    intro i hij
    have := congrFun hx i
    rw [hitMat_mulVec, if_neg hij] at this
    rw [← Finset.sum_erase_add univ _ (mem_univ j), hxj, mul_zero, add_zero]
    have h0 : (0 : Fin n → K) i = 0 := rfl
    rw [h0] at this
    linarith
  funext i
  exact hit_unique P hP0 hP1 hirr j x hxj hrec i

/-- **existence and uniqueness of the mean first passage times** of an irreducible stochastic matrix -/
theorem mfpt_exists_unique (P : Matrix (Fin n) (Fin n) K) (hP0 : ∀ i k, 0 ≤ P i k) (hP1 : ∀ i, ∑ k, P i k = 1)
    (hirr : Irreducible P) :
    ∃! M : Matrix (Fin n) (Fin n) K, (∀ j, M j j = 0) ∧
      ∀ i j, i ≠ j → M i j = 1 + ∑ k ∈ univ.erase j, P i k * M k j := by
  classical
  have hu : ∀ j, IsUnit (hitMat P j).det := fun j => isUnit_iff_ne_zero.mpr (hitMat_det_ne_zero P hP0 hP1 hirr j)
  let b : Fin n → Fin n → K := fun j i => if i = j then 0 else 1
  let M : Matrix (Fin n) (Fin n) K := fun i j => ((hitMat P j)⁻¹ *ᵥ b j) i
  have hsol : ∀ j, hitMat P j *ᵥ (fun i => M i j) = b j := by
    intro j
    show hitMat P j *ᵥ ((hitMat P j)⁻¹ *ᵥ b j) = b j
    rw [Matrix.mulVec_mulVec, Matrix.mul_nonsing_inv _ (hu j), Matrix.one_mulVec]
  have hMprop : (∀ j, M j j = 0) ∧ ∀ i j, i ≠ j → M i j = 1 + ∑ k ∈ univ.erase j, P i k * M k j := by
    constructor
    · intro j
      have := congrFun (hsol j) j
      rw [hitMat_mulVec] at this
      simpa [b] using this
    · intro i j hij
      have := congrFun (hsol j) i
      rw [hitMat_mulVec, if_neg hij] at this
      simp only [b, if_neg hij] at this
      linarith
  refine ⟨M, hMprop, ?_⟩
  rintro M' ⟨hd', hr'⟩
  ext i j
  -- the difference solves the homogeneous system
  have hx := hit_unique P hP0 hP1 hirr j (fun i => M' i j - M i j) (by simp [hd' j, hMprop.1 j])
    (fun i hij => by
      rw [hr' i j hij, hMprop.2 i j hij]
      have e : ∑ k, P i k * (M' k j - M k j) = ∑ k ∈ univ.erase j, P i k * (M' k j - M k j) := by
        rw [← Finset.sum_erase_add univ _ (mem_univ j)]; simp [hd' j, hMprop.1 j]
      rw [e]
      simp only [mul_sub, Finset.sum_sub_distrib]
      ring) i
  exact sub_eq_zero.mp hx

/-- every solution of the first-passage equations is ≥ 1 off the diagonal -/
theorem mfpt_ge_one (P : Matrix (Fin n) (Fin n) K) (hP0 : ∀ i k, 0 ≤ P i k) (hP1 : ∀ i, ∑ k, P i k = 1)
    (M : Matrix (Fin n) (Fin n) K) (hd : ∀ j, M j j = 0)
    (hr : ∀ i j, i ≠ j → M i j = 1 + ∑ k ∈ univ.erase j, P i k * M k j) (i j : Fin n) (hij : i ≠ j) : 1 ≤ M i j := by
  classical
  obtain ⟨i0, -, hmin⟩ := Finset.exists_min_image univ (fun i => M i j) ⟨j, mem_univ _⟩
  have hmin0 : 0 ≤ M i0 j := by
    by_contra hneg
    push Not at hneg
    have hi0 : i0 ≠ j := by rintro rfl; rw [hd] at hneg; exact lt_irrefl _ hneg
    have h1 := hr i0 j hi0
    have hsumle : ∑ k ∈ univ.erase j, P i0 k ≤ 1 := by
      rw [← hP1 i0]
      exact Finset.sum_le_sum_of_subset_of_nonneg (Finset.erase_subset _ _) (fun k _ _ => hP0 i0 k)
    have h2 : (∑ k ∈ univ.erase j, P i0 k) * M i0 j ≤ ∑ k ∈ univ.erase j, P i0 k * M k j := by
      rw [Finset.sum_mul]
      exact Finset.sum_le_sum (fun k _ => mul_le_mul_of_nonneg_left (hmin k (mem_univ _)) (hP0 i0 k))
    have h3 : M i0 j ≤ (∑ k ∈ univ.erase j, P i0 k) * M i0 j := by
      have hs0 : 0 ≤ ∑ k ∈ univ.erase j, P i0 k := Finset.sum_nonneg (fun k _ => hP0 i0 k)
      nlinarith
    linarith
  rw [hr i j hij]
  have : 0 ≤ ∑ k ∈ univ.erase j, P i k * M k j :=
    Finset.sum_nonneg (fun k _ => mul_nonneg (hP0 i k) (le_trans hmin0 (hmin k (mem_univ _))))
  linarith

end Bct.WalksAlg

namespace Bct.WalksAlg

variable {n : ℕ} {K : Type} [Field K] [LinearOrder K] [IsStrictOrderedRing K]

/-- a harmonic vector of an irreducible stochastic matrix is constant -/
theorem harmonic_const (P : Matrix (Fin n) (Fin n) K) (hP0 : ∀ i k, 0 ≤ P i k) (hP1 : ∀ i, ∑ k, P i k = 1)
    (hirr : Irreducible P) (x : Fin n → K) (hx : ∀ i, x i = ∑ k, P i k * x k) (a b : Fin n) : x a = x b := by
  classical
  obtain ⟨i0, -, hmax⟩ := Finset.exists_max_image univ x ⟨a, mem_univ _⟩
  have hstep : ∀ i, x i = x i0 → ∀ k, 0 < P i k → x k = x i0 := by
    intro i hi k hik
    have h2 : ∑ k, P i k * (x i0 - x k) = 0 := by
      simp only [mul_sub, Finset.sum_sub_distrib]
      rw [← Finset.sum_mul, hP1 i, one_mul, ← hx i, hi, sub_self]
    have hnn : ∀ k ∈ univ, 0 ≤ P i k * (x i0 - x k) := fun k _ =>
      mul_nonneg (hP0 i k) (sub_nonneg.mpr (hmax k (mem_univ _)))
    have hz := (Finset.sum_eq_zero_iff_of_nonneg hnn).mp h2 k (mem_univ _)
    rcases mul_eq_zero.mp hz with h | h
    · exact absurd h (ne_of_gt hik)
    · exact (sub_eq_zero.mp h).symm
  have hall : ∀ k, Relation.ReflTransGen (fun a b => 0 < P a b) i0 k → x k = x i0 := by
    intro k hk
    induction hk with
    | refl => rfl
    | tail _ hab ih => exact hstep _ ih _ hab
  rw [hall a (hirr i0 a), hall b (hirr i0 b)]

/-- `I − P + 11ᵀ` is invertible for an irreducible stochastic `P` -/
theorem det_IPE_ne_zero (P : Matrix (Fin n) (Fin n) K) (hP0 : ∀ i k, 0 ≤ P i k) (hP1 : ∀ i, ∑ k, P i k = 1)
    (hirr : Irreducible P) (C : Matrix (Fin n) (Fin n) K) (hC : ∀ i k, C i k = (if i = k then 1 else 0) - P i k + 1) :
    C.det ≠ 0 := by
  classical
  intro hdet
  obtain ⟨x, hx0, hx⟩ := Matrix.exists_mulVec_eq_zero_iff.mpr hdet
  apply hx0
  have hrow : ∀ i, x i - ∑ k, P i k * x k + ∑ k, x k = 0 := by
    intro i
    have := congrFun hx i
    simp only [Matrix.mulVec, dotProduct, hC, add_mul, sub_mul, Finset.sum_add_distrib, Finset.sum_sub_distrib, ite_mul,
      one_mul, zero_mul, Finset.sum_ite_eq, mem_univ, if_true, Pi.zero_apply] at this
    exact this
  -- the constant c = Σ x vanishes (compare a maximiser and a minimiser)
  rcases Nat.eq_zero_or_pos n with hn | hn
  · subst hn; funext i; exact i.elim0
  have hne : (univ : Finset (Fin n)).Nonempty := ⟨⟨0, hn⟩, mem_univ _⟩
  obtain ⟨imax, -, hmax⟩ := Finset.exists_max_image univ x hne
  obtain ⟨imin, -, hmin⟩ := Finset.exists_min_image univ x hne
  have hPle : ∀ i, ∑ k, P i k * x k ≤ x imax := fun i => by
    calc ∑ k, P i k * x k ≤ ∑ k, P i k * x imax :=
          Finset.sum_le_sum (fun k _ => mul_le_mul_of_nonneg_left (hmax k (mem_univ _)) (hP0 i k))
      _ = x imax := by rw [← Finset.sum_mul, hP1 i, one_mul]
  have hPge : ∀ i, x imin ≤ ∑ k, P i k * x k := fun i => by
    calc x imin = ∑ k, P i k * x imin := by rw [← Finset.sum_mul, hP1 i, one_mul]
      _ ≤ ∑ k, P i k * x k := Finset.sum_le_sum (fun k _ => mul_le_mul_of_nonneg_left (hmin k (mem_univ _)) (hP0 i k))
  have hc0 : ∑ k, x k = 0 := by
    have h1 := hrow imax; have h2 := hrow imin
    have := hPle imax; have := hPge imin
    linarith
  have hharm : ∀ i, x i = ∑ k, P i k * x k := fun i => by have := hrow i; rw [hc0] at this; linarith
  have hconst := harmonic_const P hP0 hP1 hirr x hharm
  funext i
  have : ∑ k : Fin n, x k = n * x i := by
    rw [Finset.sum_congr rfl (fun k _ => hconst k i)]; simp
  rw [hc0] at this
  have hn' : (n : K) ≠ 0 := by exact_mod_cast (Nat.pos_iff_ne_zero.mp hn)
  exact (mul_eq_zero.mp this.symm).resolve_left hn'

/-- a solution of `(I − P + 11ᵀ)ᵀ w = 1` is a stationary distribution -/
theorem stationary_of_solve (P : Matrix (Fin n) (Fin n) K) (hP1 : ∀ i, ∑ k, P i k = 1) (hn : 0 < n) (w : Fin n → K)
    (hw : ∀ i, ∑ k, ((if i = k then 1 else 0) - P k i + 1) * w k = 1) :
    (∀ j, ∑ k, w k * P k j = w j) ∧ ∑ k, w k = 1 := by
  have hw' : ∀ i, w i - ∑ k, w k * P k i + ∑ k, w k = 1 := by
    intro i
    have := hw i
    simp only [add_mul, sub_mul, Finset.sum_add_distrib, Finset.sum_sub_distrib, ite_mul, one_mul, zero_mul,
      Finset.sum_ite_eq, mem_univ, if_true] at this
    rw [← this]; congr 2
    exact Finset.sum_congr rfl (fun k _ => mul_comm _ _)
  have hsum : ∑ k, w k = 1 := by
    have h := Finset.sum_congr rfl (fun i (_ : i ∈ (univ : Finset (Fin n))) => hw' i)
    simp only [Finset.sum_add_distrib, Finset.sum_sub_distrib, Finset.sum_const, Finset.card_univ, Fintype.card_fin,
      nsmul_eq_mul, mul_one] at h
    have hswap : ∑ i, ∑ k, w k * P k i = ∑ k, w k := by
      rw [Finset.sum_comm]
      exact Finset.sum_congr rfl (fun k _ => by rw [← Finset.mul_sum, hP1 k, mul_one])
    rw [hswap] at h
    have hn' : (n : K) ≠ 0 := by exact_mod_cast (Nat.pos_iff_ne_zero.mp hn)
    have : (n : K) * (∑ k, w k) = n := by linarith
    exact mul_left_cancel₀ hn' (by rw [this, mul_one])
  refine ⟨fun j => ?_, hsum⟩
  have := hw' j
  rw [hsum] at this
  linarith

/-- the stationary probability of `j` times its mean return time is one; in particular it is not zero -/
theorem stationary_ne_zero (P : Matrix (Fin n) (Fin n) K) (hP0 : ∀ i k, 0 ≤ P i k) (hP1 : ∀ i, ∑ k, P i k = 1)
    (hirr : Irreducible P) (w : Fin n → K) (hst : ∀ j, ∑ k, w k * P k j = w j) (hw1 : ∑ k, w k = 1) (j : Fin n) :
    w j ≠ 0 := by
  classical
  obtain ⟨M, ⟨hd, hr⟩, -⟩ := mfpt_exists_unique P hP0 hP1 hirr
  -- Σ_{i≠j} w_i M_ij computed in two ways
  have key : w j * (1 + ∑ k ∈ univ.erase j, P j k * M k j) = 1 := by
    have e1 : ∑ i ∈ univ.erase j, w i * M i j
        = ∑ i ∈ univ.erase j, w i + ∑ k ∈ univ.erase j, (∑ i ∈ univ.erase j, w i * P i k) * M k j := by
      calc ∑ i ∈ univ.erase j, w i * M i j
          = ∑ i ∈ univ.erase j, (w i + ∑ k ∈ univ.erase j, w i * P i k * M k j) := by
            refine Finset.sum_congr rfl (fun i hi => ?_)
            rw [hr i j (Finset.ne_of_mem_erase hi), mul_add, mul_one, Finset.mul_sum]
            congr 1
            exact Finset.sum_congr rfl (fun k _ => by ring)
        _ = ∑ i ∈ univ.erase j, w i + ∑ k ∈ univ.erase j, (∑ i ∈ univ.erase j, w i * P i k) * M k j := by
            rw [Finset.sum_add_distrib, Finset.sum_comm]
            congr 1
            exact Finset.sum_congr rfl (fun k _ => by rw [Finset.sum_mul])
    have e2 : ∀ k, ∑ i ∈ univ.erase j, w i * P i k = w k - w j * P j k := by
      intro k
      have := hst k
      rw [← Finset.sum_erase_add univ _ (mem_univ j)] at this
      linarith
    have e3 : ∑ i ∈ univ.erase j, w i = 1 - w j := by
      rw [← Finset.sum_erase_add univ _ (mem_univ j)] at hw1; linarith
    simp only [e2, e3, sub_mul, Finset.sum_sub_distrib] at e1
    have e4 : ∑ k ∈ univ.erase j, w j * P j k * M k j = w j * ∑ k ∈ univ.erase j, P j k * M k j := by
      rw [Finset.mul_sum]; exact Finset.sum_congr rfl (fun k _ => by ring)
    rw [e4] at e1
    linarith
  intro h0
  rw [h0, zero_mul] at key
  exact zero_ne_one key

/-- `I − P + 1wᵀ` is invertible for an irreducible stochastic `P` and a stationary distribution `w` -/
theorem det_fund_ne_zero (P : Matrix (Fin n) (Fin n) K) (hP0 : ∀ i k, 0 ≤ P i k) (hP1 : ∀ i, ∑ k, P i k = 1)
    (hirr : Irreducible P) (w : Fin n → K) (hst : ∀ j, ∑ k, w k * P k j = w j) (hw1 : ∑ k, w k = 1)
    (B : Matrix (Fin n) (Fin n) K) (hB : ∀ i k, B i k = (if i = k then 1 else 0) - P i k + w k) : B.det ≠ 0 := by
  classical
  intro hdet
  obtain ⟨x, hx0, hx⟩ := Matrix.exists_mulVec_eq_zero_iff.mpr hdet
  apply hx0
  have hrow : ∀ i, x i - ∑ k, P i k * x k + ∑ k, w k * x k = 0 := by
    intro i
    have := congrFun hx i
    simp only [Matrix.mulVec, dotProduct, hB, add_mul, sub_mul, Finset.sum_add_distrib, Finset.sum_sub_distrib, ite_mul,
      one_mul, zero_mul, Finset.sum_ite_eq, mem_univ, if_true, Pi.zero_apply] at this
    exact this
  -- multiply by wᵀ: wᵀx = 0
  have hwx : ∑ k, w k * x k = 0 := by
    have h := Finset.sum_congr rfl (fun i (_ : i ∈ (univ : Finset (Fin n))) => congrArg (fun t => w i * t) (hrow i))
    simp only [mul_add, mul_sub, mul_zero, Finset.sum_add_distrib, Finset.sum_sub_distrib, Finset.sum_const_zero] at h
    have hsw : ∑ i, w i * ∑ k, P i k * x k = ∑ k, w k * x k := by
      simp only [Finset.mul_sum]
      rw [Finset.sum_comm]
      refine Finset.sum_congr rfl (fun k _ => ?_)
      rw [← hst k, Finset.sum_mul]
      exact Finset.sum_congr rfl (fun i _ => by ring)
    rw [hsw, ← Finset.sum_mul, hw1, one_mul] at h
    linarith
  have hharm : ∀ i, x i = ∑ k, P i k * x k := fun i => by have := hrow i; rw [hwx] at this; linarith
  have hconst := harmonic_const P hP0 hP1 hirr x hharm
  funext i
  have : ∑ k, w k * x k = x i := by
    rw [Finset.sum_congr rfl (fun k _ => by rw [hconst k i]), ← Finset.sum_mul, hw1, one_mul]
  rw [hwx] at this
  exact this.symm

end Bct.WalksAlg
