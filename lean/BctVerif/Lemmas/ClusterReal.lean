import BctVerif.Lemmas.ClusterRange
import BctVerif.Lemmas.ClusterCbrt
import Mathlib.Analysis.SpecialFunctions.Pow.Real
import Mathlib.Data.Real.Sign
/-!
# The weighted routines over ℝ, with the real cube root, and the ℚ model as an instance

`cbrtR x = sign(x)·|x|^(1/3)` is `bct.utils.cuberoot` over the reals (`Real.rpow`).  The weighted routines over ℝ are the
specification forms of `Lemmas/ClusterUnfold.lean` evaluated at `R = cuberoot(W)`; they are defined for **every** real
weight matrix.  `…_real_of_rat`: whenever the weights are rational and `R` is a rational cube-root matrix (the only
inputs on which the executable ℚ model runs), the model's output cast to ℝ is the real routine's value.
-/
namespace Bct.Cluster
open Finset Bct

variable {n : ℕ}

noncomputable section

/-- `cuberoot(x) = np.sign(x) * np.abs(x)**(1/3)` -/
def cbrtR (x : ℝ) : ℝ := Real.sign x * |x| ^ ((1:ℝ)/3)

theorem cbrtR_cube (x : ℝ) : cbrtR x ^ 3 = x := by
  have key : ∀ y : ℝ, 0 ≤ y → (y ^ ((1:ℝ)/3)) ^ 3 = y := by
    intro y hy
    have e : ((1:ℝ)/3) = ((3:ℕ):ℝ)⁻¹ := by norm_num
    rw [e]; exact Real.rpow_inv_natCast_pow hy (by norm_num)
  unfold cbrtR
  rcases lt_trichotomy x 0 with h | h | h
  · rw [Real.sign_of_neg h, abs_of_neg h]
    have := key (-x) (by linarith)
    calc (-1 * (-x) ^ ((1:ℝ)/3)) ^ 3 = -(((-x) ^ ((1:ℝ)/3)) ^ 3) := by ring
      _ = x := by rw [this]; ring
  · subst h; simp [Real.sign_zero]
  · rw [Real.sign_of_pos h, abs_of_pos h, one_mul]; exact key x h.le

/-- `cuberoot(W)` entrywise -/
def rootR (W : AMat ℝ n) : AMat ℝ n := AMat.map cbrtR W

theorem rootR_isCbrt (W : AMat ℝ n) : IsCbrt (rootR W) W := fun i j => by
  simp only [rootR, map_get]; exact cbrtR_cube _

/-- the real cube-root matrix is the only one -/
theorem isCbrt_unique {K : Type} [Field K] [LinearOrder K] [IsStrictOrderedRing K] {W R R' : AMat K n}
    (h : IsCbrt R W) (h' : IsCbrt R' W) : R = R' :=
  AMat.ext_get fun i j => cube_inj (by rw [h i j, h' i j])

/-! ### the routines over ℝ -/

/-- `clustering_coef_wd(W)[i]` over ℝ -/
def ccWdR (W : AMat ℝ n) (i : Fin n) : Option ℝ := ccFagK (adjK W) (rootR W) i
/-- `clustering_coef_wu(W)[i]` over ℝ -/
def ccWuR (W : AMat ℝ n) (i : Fin n) : Option ℝ := ccWuK W (rootR W) i
/-- `transitivity_wd(W)` over ℝ -/
def transWdR (W : AMat ℝ n) : Option ℝ := transFagK (adjK W) (rootR W)
/-- `transitivity_wu(W)` over ℝ -/
def transWuR (W : AMat ℝ n) : Option ℝ := transWuK W (rootR W)
/-- `clustering_coef_wu_sign(W, 'default')[·][i]` over ℝ -/
def ccSignDefaultR (W : AMat ℝ n) (i : Fin n) : Option ℝ × Option ℝ :=
  (ccWuR (posPartK (zeroDiagK W)) i, ccWuR (negPartK (zeroDiagK W)) i)
/-- `clustering_coef_wu_sign(W, 'zhang')[·][i]` over ℝ -/
def ccSignZhangR (W : AMat ℝ n) (i : Fin n) : Option ℝ × Option ℝ :=
  (zhangK (posPartK (zeroDiagK W)) i, zhangK (negPartK (zeroDiagK W)) i)
/-- `clustering_coef_wu_sign(W, 'costantini')[i]` over ℝ -/
def ccSignCostR (W : AMat ℝ n) (i : Fin n) : Option ℝ := costK (zeroDiagK W) i

/-! ### casting the ℚ model to ℝ -/

/-- a rational matrix read as a real one -/
def castM (W : AMat ℚ n) : AMat ℝ n := AMat.map (fun x : ℚ => (x : ℝ)) W
/-- a rational result read as a real one -/
def castO (o : Option ℚ) : Option ℝ := o.map fun x : ℚ => (x : ℝ)

@[simp] theorem castM_get (W : AMat ℚ n) (i j : Fin n) : (castM W).get i j = ((W.get i j : ℚ) : ℝ) := by
  simp [castM]

theorem rootR_cast {R W : AMat ℚ n} (h : IsCbrt R W) : rootR (castM W) = castM R :=
  isCbrt_unique (rootR_isCbrt _) (fun i j => by simp only [castM_get]; rw [← h i j]; push_cast; ring)

theorem indK_cast (x : ℚ) : indK ((x : ℚ) : ℝ) = ((indK x : ℚ) : ℝ) := by
  unfold indK; by_cases h : x = 0 <;> simp [h]

theorem adjK_cast (W : AMat ℚ n) : adjK (castM W) = castM (adjK W) :=
  AMat.ext_get fun i j => by simp [indK_cast]

theorem zeroDiagK_cast (W : AMat ℚ n) : zeroDiagK (castM W) = castM (zeroDiagK W) :=
  AMat.ext_get fun i j => by simp only [zeroDiag_get, castM_get]; split_ifs <;> simp

theorem posPartK_cast (W : AMat ℚ n) : posPartK (castM W) = castM (posPartK W) :=
  AMat.ext_get fun i j => by
    simp only [posPart_get, castM_get]
    by_cases h : 0 < W.get i j
    · have : (0:ℝ) < ((W.get i j : ℚ) : ℝ) := by exact_mod_cast h
      rw [if_pos h, if_pos this]
    · have : ¬ (0:ℝ) < ((W.get i j : ℚ) : ℝ) := by exact_mod_cast h
      rw [if_neg h, if_neg this]; simp

theorem negPartK_cast (W : AMat ℚ n) : negPartK (castM W) = castM (negPartK W) :=
  AMat.ext_get fun i j => by
    simp only [negPart_get, castM_get]
    by_cases h : W.get i j < 0
    · have : ((W.get i j : ℚ) : ℝ) < 0 := by exact_mod_cast h
      rw [if_pos h, if_pos this]; simp
    · have : ¬ ((W.get i j : ℚ) : ℝ) < 0 := by exact_mod_cast h
      rw [if_neg h, if_neg this]; simp

theorem tri_cast (R : AMat ℚ n) (i : Fin n) : tri (castM R) i = ((tri R i : ℚ) : ℝ) := by
  simp only [tri, castM_get]; push_cast; rfl
theorem triS_cast (R : AMat ℚ n) (i : Fin n) : triS (castM R) i = ((triS R i : ℚ) : ℝ) := by
  simp only [triS, castM_get]; push_cast; rfl
theorem deg_cast (W : AMat ℚ n) (i : Fin n) : deg (castM W) i = ((deg W i : ℚ) : ℝ) := by
  simp only [deg, castM_get, indK_cast]; push_cast; rfl
theorem pairsS_cast (A : AMat ℚ n) (i : Fin n) : pairsS (castM A) i = ((pairsS A i : ℚ) : ℝ) := by
  simp only [pairsS, degS, castM_get]; push_cast; rfl

theorem perNodeK_cast (c d : ℚ) : perNodeK ((c : ℚ) : ℝ) ((d : ℚ) : ℝ) = castO (perNodeK c d) := by
  unfold perNodeK castO
  by_cases hc : c = 0
  · simp [hc]
  · by_cases hd : d = 0
    · simp [hc, hd]
    · simp [hc, hd]

theorem gdivK_cast (a b : ℚ) : gdivK ((a : ℚ) : ℝ) ((b : ℚ) : ℝ) = castO (gdivK a b) := by
  unfold gdivK castO
  by_cases hb : b = 0 <;> simp [hb]

theorem ccFagK_cast (A R : AMat ℚ n) (i : Fin n) : ccFagK (castM A) (castM R) i = castO (ccFagK A R i) := by
  unfold ccFagK; rw [triS_cast, pairsS_cast, ← perNodeK_cast]; push_cast; rfl

theorem ccWuK_cast (W R : AMat ℚ n) (i : Fin n) : ccWuK (castM W) (castM R) i = castO (ccWuK W R i) := by
  unfold ccWuK; rw [tri_cast, deg_cast, ← perNodeK_cast]; push_cast; rfl

theorem transFagK_cast (A R : AMat ℚ n) : transFagK (castM A) (castM R) = castO (transFagK A R) := by
  unfold transFagK; rw [← gdivK_cast]; simp only [triS_cast, pairsS_cast]; push_cast; rfl

theorem transWuK_cast (W R : AMat ℚ n) : transWuK (castM W) (castM R) = castO (transWuK W R) := by
  unfold transWuK; rw [← gdivK_cast]; simp only [tri_cast, deg_cast]; push_cast; rfl

theorem zhangK_cast (P : AMat ℚ n) (i : Fin n) : zhangK (castM P) i = castO (zhangK P i) := by
  unfold zhangK; rw [← perNodeK_cast]; simp only [castM_get]; push_cast
  congr 1
  exact Finset.sum_congr rfl fun j _ => Finset.sum_congr rfl fun q _ => by split_ifs <;> simp

theorem costK_cast (Z : AMat ℚ n) (i : Fin n) : costK (castM Z) i = castO (costK Z i) := by
  unfold costK; rw [← perNodeK_cast]; simp only [castM_get]; push_cast
  congr 1
  exact Finset.sum_congr rfl fun j _ => Finset.sum_congr rfl fun q _ => by split_ifs <;> simp

/-! ### the executable ℚ model is an instance of the real routines -/

theorem ccWd_real_of_rat {W R : AMat ℚ n} (hR : IsCbrt R W) (i : Fin n) :
    castO (ccWd W R)[i] = ccWdR (castM W) i := by
  rw [ccWd_get, ccWdR, rootR_cast hR, adjK_cast, ccFagK_cast]

theorem ccWu_real_of_rat {W R : AMat ℚ n} (hR : IsCbrt R W) (i : Fin n) :
    castO (ccWu W R)[i] = ccWuR (castM W) i := by
  rw [ccWu_get, ccWuR, rootR_cast hR, ccWuK_cast]

theorem transWd_real_of_rat {W R : AMat ℚ n} (hR : IsCbrt R W) : castO (transWd W R) = transWdR (castM W) := by
  rw [transWd_eq, transWdR, rootR_cast hR, adjK_cast, transFagK_cast]

theorem transWu_real_of_rat {W R : AMat ℚ n} (hR : IsCbrt R W) : castO (transWu W R) = transWuR (castM W) := by
  rw [transWu_eq, transWuR, rootR_cast hR, transWuK_cast]

theorem ccSignDefault_real_of_rat {W Rp Rn : AMat ℚ n}
    (hp : IsCbrt Rp (posPart (zeroDiag W))) (hn : IsCbrt Rn (negPart (zeroDiag W))) (i : Fin n) :
    (castO (ccSignDefault W Rp Rn).1[i], castO (ccSignDefault W Rp Rn).2[i]) = ccSignDefaultR (castM W) i := by
  simp only [ccSignDefault, ccSignDefaultR]
  rw [ccWu_real_of_rat hp, ccWu_real_of_rat hn, posPart_eq, negPart_eq, zeroDiag_eq,
    ← posPartK_cast, ← negPartK_cast, ← zeroDiagK_cast]

theorem ccSignZhang_real_of_rat (W : AMat ℚ n) (i : Fin n) :
    (castO (ccSignZhang W).1[i], castO (ccSignZhang W).2[i]) = ccSignZhangR (castM W) i := by
  simp only [ccSignZhang, ccSignZhangR, zhangCore_get]
  rw [posPart_eq, negPart_eq, zeroDiag_eq, zeroDiagK_cast, posPartK_cast, negPartK_cast, zhangK_cast, zhangK_cast]

theorem ccSignCost_real_of_rat (W : AMat ℚ n) (i : Fin n) :
    castO (ccSignCost W)[i] = ccSignCostR (castM W) i := by
  rw [ccSignCost_get, ccSignCostR, zeroDiagK_cast, costK_cast]

end

end Bct.Cluster
