import BctVerif.Lemmas.SignedSwap
import Mathlib.Algebra.BigOperators.Group.List.Basic

/-!
# C06 helper lemmas: what the model's correlation ingredients are
-/
namespace Bct.Signed
open List

variable {n : ℕ}

theorem foldl_add_eq_sum (f : α → Int) (l : List α) (a : Int) :
    l.foldl (fun acc x => acc + f x) a = a + (l.map f).sum := by
  induction l generalizing a with
  | nil => simp
  | cons x l ih => simp only [List.foldl_cons, ih, List.map_cons, List.sum_cons]; ring

theorem colSum_eq (W : AMat Int n) (f : Int → Int) (j : Fin n) : colSum W f j = ∑ i, f (W.toFun i j) := by
  unfold colSum
  rw [foldl_add_eq_sum, zero_add, Fin.sum_univ_def]; rfl

theorem rowSum_eq (W : AMat Int n) (f : Int → Int) (i : Fin n) : rowSum W f i = ∑ j, f (W.toFun i j) := by
  unfold rowSum
  rw [foldl_add_eq_sum, zero_add, Fin.sum_univ_def]; rfl

/-- `covTriple xs ys = (N·Σxy − Σx·Σy, N·Σx² − (Σx)², N·Σy² − (Σy)²)` with N = len xs -/
theorem covTriple_eq (xs ys : List Int) :
    covTriple xs ys =
      ((xs.length : Int) * ((xs.zip ys).map fun p => p.1 * p.2).sum - xs.sum * ys.sum,
       (xs.length : Int) * (xs.map fun x => x * x).sum - xs.sum * xs.sum,
       (xs.length : Int) * (ys.map fun y => y * y).sum - ys.sum * ys.sum) := by
  unfold covTriple
  have h1 : ∀ l : List Int, l.foldl (· + ·) 0 = l.sum := fun l => by
    have := foldl_add_eq_sum (fun x : Int => x) l 0; simpa using this
  have h2 : ∀ (l : List Int), l.foldl (fun acc x => acc + x * x) 0 = (l.map fun x => x * x).sum := fun l => by
    have := foldl_add_eq_sum (fun x : Int => x * x) l 0; simpa using this
  have h3 : (xs.zip ys).foldl (fun acc p => acc + p.1 * p.2) 0 = ((xs.zip ys).map fun p => p.1 * p.2).sum := by
    have := foldl_add_eq_sum (fun p : Int × Int => p.1 * p.2) (xs.zip ys) 0; simpa using this
  simp only [h1, h2, h3]

end Bct.Signed
