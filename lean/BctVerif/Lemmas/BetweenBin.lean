import BctVerif.Lemmas.BetweenFwd4

/-!
# `betweenness_bin`: matrix powers count walks; first non-zero power = shortest-path count (C08)
-/
namespace Bct.Between
open Bct

variable {n : ℕ} (L : AMat Nat n)

/-- number of walks with exactly `k` steps, by the last-step recurrence (`NPd = NPd · G`) -/
def wc : ℕ → Fin n → Fin n → ℕ
  | 0, s, t => if s = t then 1 else 0
  | k + 1, s, t => ∑ w, wc k s w * L.get w t

variable {L}

/-- on a binary matrix the `k`-th power counts the shortest paths of the pairs at distance `k`
and vanishes on the pairs that are farther apart or disconnected -/
theorem wc_spec (hbin : ∀ i j, L.get i j ≤ 1) (k : ℕ) (s t : Fin n) :
    ((dist L).get s t = some k → wc L k s t = (sigma L).get s t) ∧
    (((dist L).get s t = none ∨ ∃ j, (dist L).get s t = some j ∧ k < j) → wc L k s t = 0) := by
  induction k generalizing t with
  | zero =>
    constructor
    · intro h
      have := (dist_eq_zero_iff L s).1 h
      subst this
      simp [wc, sigma_self]
    · intro h
      have hne : s ≠ t := by
        rintro rfl
        rw [dist_self] at h
        rcases h with h | ⟨j, h, hj⟩
        · exact absurd h (by simp)
        · simp only [Option.some.injEq] at h; omega
      simp [wc, hne]
  | succ k ih =>
    constructor
    · intro h
      have hst : s ≠ t := by
        rintro rfl; rw [dist_self] at h; simp at h
      rw [sigma_rec_last L s t hst]
      simp only [wc]
      refine Finset.sum_congr rfl fun w _ => ?_
      by_cases hp : pred L (dist L) s w t = true
      · obtain ⟨hL, a, ha, he⟩ := (pred_iff L).1 hp
        rw [h] at he; simp only [Option.some.injEq] at he
        have hb := hbin w t
        have h1 : L.get w t = 1 := by have := Nat.pos_of_ne_zero hL; omega
        have hak : a = k := by omega
        subst hak
        rw [if_pos hp, (ih w).1 ha, h1, mul_one]
      · rw [if_neg hp]
        by_cases hL : L.get w t = 0
        · rw [hL, mul_zero]
        · have hb := hbin w t
          have h1 : L.get w t = 1 := by have := Nat.pos_of_ne_zero hL; omega
          have : wc L k s w = 0 := by
            apply (ih w).2
            cases ha : (dist L).get s w with
            | none => exact Or.inl rfl
            | some a =>
              right
              refine ⟨a, rfl, ?_⟩
              obtain ⟨e, he, hel⟩ := dist_edge L hL
              obtain ⟨c, hc, hcl⟩ := dist_triangle L ha he
              rw [h] at hc; simp only [Option.some.injEq] at hc
              have hne : a ≠ k := by
                intro hak
                apply hp
                rw [pred_iff]
                exact ⟨hL, a, ha, by rw [h]; congr 1; omega⟩
              omega
          rw [this, zero_mul]
    · intro h
      simp only [wc]
      refine Finset.sum_eq_zero fun w _ => ?_
      by_cases hL : L.get w t = 0
      · rw [hL, mul_zero]
      · have hb := hbin w t
        have : wc L k s w = 0 := by
          apply (ih w).2
          cases ha : (dist L).get s w with
          | none => exact Or.inl rfl
          | some a =>
            right
            refine ⟨a, rfl, ?_⟩
            obtain ⟨e, he, hel⟩ := dist_edge L hL
            obtain ⟨c, hc, hcl⟩ := dist_triangle L ha he
            rcases h with h | ⟨j, hj, hlt⟩
            · rw [h] at hc; exact absurd hc (by simp)
            · rw [hj] at hc; simp only [Option.some.injEq] at hc; omega
        rw [this, zero_mul]

/-- distances from a source fill every level below a reachable one (binary) -/
theorem exists_at_level (hbin : ∀ i j, L.get i j ≤ 1) {s t : Fin n} {k : ℕ}
    (hk : (dist L).get s t = some k) {j : ℕ} (hj : j ≤ k) : ∃ x, (dist L).get s x = some j := by
  induction k generalizing t with
  | zero => exact ⟨t, by rw [hk]; congr 1; omega⟩
  | succ k ih =>
    rcases Nat.lt_or_ge j (k + 1) with hlt | hge
    · have hst : s ≠ t := by
        rintro rfl; rw [dist_self] at hk; simp at hk
      obtain ⟨z, hz⟩ := exists_pred L hst hk
      obtain ⟨hL, a, ha, he⟩ := (pred_iff L).1 hz
      rw [hk] at he; simp only [Option.some.injEq] at he
      have hb := hbin z t
      have := Nat.pos_of_ne_zero hL
      exact ih (t := z) (by rw [ha]; congr 1; omega) (by omega)
    · exact ⟨t, by rw [hk]; congr 1; omega⟩

/-- finite distances are smaller than the number of nodes (binary) -/
theorem dist_lt_n (hbin : ∀ i j, L.get i j ≤ 1) {s t : Fin n} {k : ℕ} (hk : (dist L).get s t = some k) :
    k < n := by
  obtain ⟨⟨p, hp, he, hl⟩, _⟩ := (dist_isDist L s t).2 k hk
  have hm : IsMin L s t p := (isMin_iff_dist L s t p).2 ⟨hp, he, by rw [hl]; exact hk⟩
  have := hm.length_lt L
  rw [wlen_eq_length L hbin hp] at hl
  omega

end Bct.Between
