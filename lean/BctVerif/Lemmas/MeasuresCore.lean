import BctVerif.Lemmas.MeasuresAlg
import BctVerif.Lemmas.MeasuresPermList
import Mathlib.Data.List.Sort
/-!
# Equivariance of rich club (binary) and assortativity
-/
namespace Bct.Measures
open Bct

variable {n : Nat} (σ : Equiv.Perm (Fin n))

/-! ### rich club -/

theorem richLevel_perm (A : AMat Int n) (deg : Vector Int n) (k : Nat) :
    richLevel (permA σ A) (permVec σ deg) k = richLevel A deg k := by
  simp only [richLevel, Prod.mk.injEq]
  refine ⟨fsum_congr_perm σ _ _ (fun i => by simp), fsum2_congr_perm σ _ _ (fun i j => by simp)⟩

theorem richClub_perm (A : AMat Int n) (deg : Vector Int n) :
    richClub (permA σ A) (permVec σ deg) = richClub A deg := by
  simp only [richClub, richLevel_perm]
  have hm : (fmax fun i => (vget (permVec σ deg) i).toNat) = fmax fun i => (vget deg i).toNat :=
    fmax_congr_perm σ _ _ (fun i => by simp)
  rw [hm]

theorem richClubBu_perm (A : AMat Int n) : richClubBu (permA σ A) = richClubBu A := by
  unfold richClubBu; rw [degreesUnd_perm, richClub_perm]

theorem richClubBd_perm (A : AMat Int n) : richClubBd (permA σ A) = richClubBd A := by
  unfold richClubBd; rw [degTotal_perm, richClub_perm]

/-! ### weighted rich club: the ranking of all weights is a sorted list, the same for every numbering -/

theorem flatEntries_perm (A : AMat Int n) : (flatEntries (permA σ A)).Perm (flatEntries A) := by
  unfold flatEntries
  have h1 : ((List.finRange n).flatMap fun i => (List.finRange n).map fun j => (permA σ A).get i j) =
      ((List.finRange n).map σ).flatMap fun i => ((List.finRange n).map σ).map fun j => A.get i j := by
    rw [List.flatMap_map]
    apply List.flatMap_congr; intro i _
    rw [List.map_map]; apply List.map_congr_left; intro j _; simp
  rw [h1]
  have hp := Equiv.Perm.map_finRange_perm σ
  refine (List.Perm.flatMap_left _ (fun i _ => hp.map _)).trans ?_
  exact hp.flatMap_right _

theorem sortDesc_perm {l l' : List Int} (p : l.Perm l') : sortDesc l = sortDesc l' := by
  unfold sortDesc
  have tr : ∀ a b c : Int, decide (b ≤ a) = true → decide (c ≤ b) = true → decide (c ≤ a) = true := by
    intro a b c h1 h2; simp only [decide_eq_true_eq] at *; omega
  have tot : ∀ a b : Int, (decide (b ≤ a) || decide (a ≤ b)) = true := by
    intro a b; simp only [Bool.or_eq_true, decide_eq_true_eq]; omega
  have s1 := List.pairwise_mergeSort tr tot l
  have s2 := List.pairwise_mergeSort tr tot l'
  have pp : (l.mergeSort fun a b => decide (b ≤ a)).Perm (l'.mergeSort fun a b => decide (b ≤ a)) :=
    ((List.mergeSort_perm l _).trans p).trans (List.mergeSort_perm l' _).symm
  exact List.Perm.eq_of_pairwise (fun a b _ _ h1 h2 => by simp only [decide_eq_true_eq] at h1 h2; omega) s1 s2 pp

theorem richLevelW_perm (A : AMat Int n) (deg : Vector Int n) (wr : List Int) (k : Nat) :
    richLevelW (permA σ A) (permVec σ deg) wr k = richLevelW A deg wr k := by
  simp only [richLevelW, permVec_get, permA_get]
  have h1 : (fany fun i => decide (vget deg (σ i) < (k : Int) + 1)) = fany fun i => decide (vget deg i < (k : Int) + 1) :=
    fany_congr_perm σ _ _ (fun _ => rfl)
  have h2 : (fsum fun i => fsum fun j => if vget deg (σ i) ≥ (k : Int) + 1 ∧ vget deg (σ j) ≥ (k : Int) + 1 then A.get (σ i) (σ j) else 0) =
      fsum fun i => fsum fun j => if vget deg i ≥ (k : Int) + 1 ∧ vget deg j ≥ (k : Int) + 1 then A.get i j else 0 :=
    fsum2_congr_perm σ _ _ (fun _ _ => rfl)
  have h3 : (fsum fun i => fsum fun j => if vget deg (σ i) ≥ (k : Int) + 1 ∧ vget deg (σ j) ≥ (k : Int) + 1 ∧ A.get (σ i) (σ j) ≠ 0 then (1 : Nat) else 0) =
      fsum fun i => fsum fun j => if vget deg i ≥ (k : Int) + 1 ∧ vget deg j ≥ (k : Int) + 1 ∧ A.get i j ≠ 0 then (1 : Nat) else 0 :=
    fsum2_congr_perm σ _ _ (fun _ _ => rfl)
  rw [h1, h2, h3]

theorem richClubW_perm (A : AMat Int n) (deg : Vector Int n) :
    richClubW (permA σ A) (permVec σ deg) = richClubW A deg := by
  unfold richClubW
  rw [sortDesc_perm (flatEntries_perm σ A)]
  have hm : (fmax fun i => (vget (permVec σ deg) i).toNat) = fmax fun i => (vget deg i).toNat :=
    fmax_congr_perm σ _ _ (fun i => by simp)
  rw [hm]
  apply List.map_congr_left
  intro k _
  exact richLevelW_perm σ A deg _ k

theorem richClubWu_perm (A : AMat Int n) : richClubWu (permA σ A) = richClubWu A := by
  unfold richClubWu; rw [degreesUnd_perm, richClubW_perm]

theorem richClubWd_perm (A : AMat Int n) : richClubWd (permA σ A) = richClubWd A := by
  unfold richClubWd; rw [degTotal_perm, richClubW_perm]

/-! ### assortativity -/

theorem assortSums_perm (edge : Fin n → Fin n → Bool) (x y : Vector Int n) :
    assortSums (fun i j => edge (σ i) (σ j)) (permVec σ x) (permVec σ y) = assortSums edge x y := by
  simp only [assortSums, Prod.mk.injEq]
  refine ⟨?_, ?_, ?_, ?_⟩ <;> exact fsum2_congr_perm σ _ _ (fun i j => by simp)

/-- the undirected variant lists each edge once (`i < j`); for a symmetric matrix the sums do not depend on which end is listed first -/
theorem assortSums_triu_perm (A : AMat Int n) (hA : ∀ i j, A.get i j = A.get j i) (x : Vector Int n) :
    assortSums (fun i j => decide (i < j) && decide ((permA σ A).get i j > 0)) (permVec σ x) (permVec σ x) =
      assortSums (fun i j => decide (i < j) && decide (A.get i j > 0)) x x := by
  simp only [assortSums, Prod.mk.injEq, permA_get, permVec_get, Bool.and_eq_true, decide_eq_true_eq]
  have key : ∀ g : Fin n → Fin n → Int, (∀ i j, g i j = g j i) →
      (fsum fun i => fsum fun j => if i < j ∧ A.get (σ i) (σ j) > 0 then g (σ i) (σ j) else 0) =
        fsum fun i => fsum fun j => if i < j ∧ A.get i j > 0 then g i j else 0 := by
    intro g hg
    have h := triuLt_perm σ (fun i j => if A.get i j > 0 then g i j else 0) (fun i j => by simp only [hA i j, hg i j])
    have e1 : ∀ (B : Fin n → Fin n → Int) (G : Fin n → Fin n → Int),
        (fsum fun i => fsum fun j => if i < j ∧ B i j > 0 then G i j else 0) =
          fsum fun i => fsum fun j => if i < j then (if B i j > 0 then G i j else 0) else 0 := by
      intro B G
      apply fsum_congr; intro i; apply fsum_congr; intro j
      by_cases h1 : i < j <;> by_cases h2 : B i j > 0 <;> simp [h1, h2]
    rw [e1 (fun i j => A.get (σ i) (σ j)) (fun i j => g (σ i) (σ j)), e1 (fun i j => A.get i j) g]
    exact h
  refine ⟨key (fun _ _ => 1) (fun _ _ => rfl), key (fun i j => vget x i * vget x j) (fun i j => mul_comm _ _),
    key (fun i j => vget x i + vget x j) (fun i j => add_comm _ _),
    key (fun i j => vget x i * vget x i + vget x j * vget x j) (fun i j => add_comm _ _)⟩

theorem assortativityBin_perm_dir (A : AMat Int n) (flag : Nat) (hf : flag ≠ 0) :
    assortativityBin (permA σ A) flag = assortativityBin A flag := by
  have hd := degreesDir_perm σ A
  have he : (fun i j => decide ((permA σ A).get i j > 0)) = fun i j => (fun i j => decide (A.get i j > 0)) (σ i) (σ j) := by
    funext i j; simp
  match flag, hf with
  | 1, _ =>
    simp only [assortativityBin]; rw [hd, he]
    exact congrArg (fun s => Except.ok (assortOf s)) (assortSums_perm σ (fun i j => decide (A.get i j > 0)) _ _)
  | 2, _ =>
    simp only [assortativityBin]; rw [hd, he]
    exact congrArg (fun s => Except.ok (assortOf s)) (assortSums_perm σ (fun i j => decide (A.get i j > 0)) _ _)
  | 3, _ =>
    simp only [assortativityBin]; rw [hd, he]
    exact congrArg (fun s => Except.ok (assortOf s)) (assortSums_perm σ (fun i j => decide (A.get i j > 0)) _ _)
  | 4, _ =>
    simp only [assortativityBin]; rw [hd, he]
    exact congrArg (fun s => Except.ok (assortOf s)) (assortSums_perm σ (fun i j => decide (A.get i j > 0)) _ _)
  | (k + 5), _ => simp [assortativityBin]

theorem assortativityBin_perm_und (A : AMat Int n) (hA : ∀ i j, A.get i j = A.get j i) :
    assortativityBin (permA σ A) 0 = assortativityBin A 0 := by
  simp only [assortativityBin]
  rw [degreesUnd_perm, assortSums_triu_perm σ A hA]

theorem assortativityWei0_perm (A : AMat Int n) (hA : ∀ i j, A.get i j = A.get j i) :
    assortativityWei0 (permA σ A) = assortativityWei0 A := by
  simp only [assortativityWei0]
  rw [strengthsUnd_perm, assortSums_triu_perm σ A hA]

end Bct.Measures
