import BctVerif.Lemmas.MeasuresAlg
/-!
# Equivariance of participation coefficient, k-core / s-core peeling, k-coreness, rich club, assortativity
-/
namespace Bct.Measures
open Bct

variable {n : Nat} (σ : Equiv.Perm (Fin n))

/-! ### participation_coef -/

theorem rankLabels_perm (ci : Vector Nat n) : rankLabels (permVec σ ci) = permVec σ (rankLabels ci) := by
  apply vec_ext; intro i
  simp only [rankLabels, vget_ofFn, permVec_get]
  have h : (fun c => fany fun k => vget ci (σ k) == c) = fun c => fany fun k => vget ci k == c :=
    funext fun c => fany_congr_perm σ _ _ (fun _ => rfl)
  rw [h]

theorem participation_perm (W : AMat Int n) (ci : Vector Nat n) :
    participation (permA σ W) (permVec σ ci) = permVec σ (participation W ci) := by
  apply vec_ext; intro i
  simp only [participation, vget_ofFn, permVec_get, rankLabels_perm, rowSum_perm, permA_get]
  have hm : (fmax fun i => vget (rankLabels ci) (σ i)) = fmax fun i => vget (rankLabels ci) i :=
    fmax_congr_perm σ _ _ (fun _ => rfl)
  have hs : (fun c => (fsum fun j => if W.get (σ i) (σ j) ≠ 0 ∧ vget (rankLabels ci) (σ j) = c + 1 then W.get (σ i) (σ j) else 0) *
        (fsum fun j => if W.get (σ i) (σ j) ≠ 0 ∧ vget (rankLabels ci) (σ j) = c + 1 then W.get (σ i) (σ j) else 0)) =
      fun c => (fsum fun j => if W.get (σ i) j ≠ 0 ∧ vget (rankLabels ci) j = c + 1 then W.get (σ i) j else 0) *
        (fsum fun j => if W.get (σ i) j ≠ 0 ∧ vget (rankLabels ci) j = c + 1 then W.get (σ i) j else 0) := by
    funext c
    have : (fsum fun j => if W.get (σ i) (σ j) ≠ 0 ∧ vget (rankLabels ci) (σ j) = c + 1 then W.get (σ i) (σ j) else 0) =
        fsum fun j => if W.get (σ i) j ≠ 0 ∧ vget (rankLabels ci) j = c + 1 then W.get (σ i) j else 0 :=
      fsum_congr_perm σ _ _ (fun _ => rfl)
    rw [this]
  rw [hm, hs]

/-! ### peeling (`kcore_bu`, `kcore_bd`, `score_wu`) -/

theorem zeroNodes_perm (C : AMat Int n) (ff : Vector Bool n) :
    zeroNodes (permA σ C) (permVec σ ff) = permA σ (zeroNodes C ff) := by
  apply AMat.ext_get; intro i j; simp [zeroNodes]

theorem peel_perm (deg : AMat Int n → Vector Int n) (hdeg : ∀ C, deg (permA σ C) = permVec σ (deg C))
    (k : Int) (fuel : Nat) (C : AMat Int n) :
    peel deg k fuel (permA σ C) = (peel deg k fuel C).map fun r => (permA σ r.1, permVec σ r.2) := by
  induction fuel generalizing C with
  | zero => simp [peel, Except.map]
  | succ f ih =>
    simp only [peel, hdeg]
    have hff : (Vector.ofFn fun i => decide (vget (permVec σ (deg C)) i < k) && decide (vget (permVec σ (deg C)) i > 0)) =
        permVec σ (Vector.ofFn fun i => decide (vget (deg C) i < k) && decide (vget (deg C) i > 0)) := by
      apply vec_ext; intro i; simp
    rw [hff]
    have hany : (fany fun i => vget (permVec σ (Vector.ofFn fun i => decide (vget (deg C) i < k) && decide (vget (deg C) i > 0))) i) =
        fany fun i => vget (Vector.ofFn fun i => decide (vget (deg C) i < k) && decide (vget (deg C) i > 0)) i :=
      fany_congr_perm σ _ _ (fun i => by simp)
    rw [hany, zeroNodes_perm, ih]
    split <;> simp [Except.map]

theorem countPos_perm (d : Vector Int n) : countPos (permVec σ d) = countPos d := by
  unfold countPos; exact fsum_congr_perm σ _ _ (fun i => by simp)

theorem kcoreOf_perm (deg : AMat Int n → Vector Int n) (hdeg : ∀ C, deg (permA σ C) = permVec σ (deg C))
    (k : Int) (fuel : Nat) (A : AMat Int n) :
    ((peel deg k fuel (permA σ A)).map fun r => (r.1, countPos r.2)) =
      ((peel deg k fuel A).map fun r => (r.1, countPos r.2)).map fun r => (permA σ r.1, r.2) := by
  rw [peel_perm σ deg hdeg]
  cases peel deg k fuel A with
  | error e => simp [Except.map]
  | ok r => simp [Except.map, countPos_perm]

theorem kcoreBu_perm (A : AMat Int n) (k : Int) : kcoreBu (permA σ A) k = (kcoreBu A k).map fun r => (permA σ r.1, r.2) :=
  kcoreOf_perm σ degreesUnd (degreesUnd_perm σ) k _ A

theorem kcoreBd_perm (A : AMat Int n) (k : Int) : kcoreBd (permA σ A) k = (kcoreBd A k).map fun r => (permA σ r.1, r.2) :=
  kcoreOf_perm σ degTotal (degTotal_perm σ) k _ A

theorem scoreWu_perm (A : AMat Int n) (s : Int) : scoreWu (permA σ A) s = (scoreWu A s).map fun r => (permA σ r.1, r.2) :=
  kcoreOf_perm σ strengthsUnd (strengthsUnd_perm σ) s _ A

/-! ### k-coreness centrality -/

theorem corenessLoop_perm (kc : AMat Int n → Int → Except MErr (AMat Int n × Int))
    (hkc : ∀ A k, kc (permA σ A) k = (kc A k).map fun r => (permA σ r.1, r.2))
    (A : AMat Int n) (ks : List Nat) (cor : Vector Int n) (kn : List Int) :
    corenessLoop kc (permA σ A) ks (permVec σ cor) kn = (corenessLoop kc A ks cor kn).map fun r => (permVec σ r.1, r.2) := by
  induction ks generalizing cor kn with
  | nil => simp [corenessLoop, Except.map]
  | cons k ks ih =>
    simp only [corenessLoop, hkc]
    cases kc A k with
    | error e => simp [Except.map]
    | ok r =>
      obtain ⟨C, knk⟩ := r
      simp only [Except.map]
      have hv : (Vector.ofFn fun i => if colSum (permA σ C) i > 0 then (k : Int) else vget (permVec σ cor) i) =
          permVec σ (Vector.ofFn fun i => if colSum C i > 0 then (k : Int) else vget cor i) := by
        apply vec_ext; intro i; simp [colSum_perm]
      rw [hv, ih]
      rfl

theorem const_perm (c : Int) : (Vector.ofFn fun _ : Fin n => c) = permVec σ (Vector.ofFn fun _ : Fin n => c) := by
  apply vec_ext; intro i; simp

theorem kcorenessBd_perm (A : AMat Int n) :
    kcorenessBd (permA σ A) = (kcorenessBd A).map fun r => (permVec σ r.1, r.2) := by
  unfold kcorenessBd
  have h := corenessLoop_perm σ kcoreBd (kcoreBd_perm σ) A (List.range n) (Vector.ofFn fun _ => 0) []
  rw [← const_perm σ 0] at h
  exact h

theorem kcorenessBu_perm (A : AMat Int n) :
    kcorenessBu (permA σ A) = (kcorenessBu A).map fun r => (permVec σ r.1, r.2) := by
  simp only [kcorenessBu, mtr_perm, madd_perm]
  have hc : (fany fun i => fany fun j => decide ((permA σ (madd A (mtr A))).get i j > 1)) =
      fany fun i => fany fun j => decide ((madd A (mtr A)).get i j > 1) :=
    fany2_congr_perm σ _ _ (fun i j => by simp)
  have hA : (AMat.ofFn fun i j => if (permA σ (madd A (mtr A))).get i j > 0 then (1 : Int) else 0) =
      permA σ (AMat.ofFn fun i j => if (madd A (mtr A)).get i j > 0 then (1 : Int) else 0) := by
    apply AMat.ext_get; intro i j; simp
  rw [hc, hA]
  split
  · have h := corenessLoop_perm σ kcoreBu (kcoreBu_perm σ) (AMat.ofFn fun i j => if (madd A (mtr A)).get i j > 0 then (1 : Int) else 0)
      (List.range n) (Vector.ofFn fun _ => 0) []
    rw [← const_perm σ 0] at h
    exact h
  · have h := corenessLoop_perm σ kcoreBu (kcoreBu_perm σ) A (List.range n) (Vector.ofFn fun _ => 0) []
    rw [← const_perm σ 0] at h
    exact h

/-! ### rich club -/

theorem richLevel_perm (A : AMat Int n) (deg : Vector Int n) (k : Nat) :
    richLevel (permA σ A) (permVec σ deg) k = richLevel A deg k := by
  simp only [richLevel, Prod.mk.injEq]
  refine ⟨fsum_congr_perm σ _ _ (fun i => by simp), fsum2_congr_perm σ _ _ (fun i j => by simp)⟩

theorem richClub_perm (A : AMat Int n) (deg : Vector Int n) :
    richClub (permA σ A) (permVec σ deg) = richClub A deg := by
  simp only [richClub, richLevel_perm]
  have hm : (fmax fun i => (vget (permVec σ deg) i).toNat) = fmax fun i => (vget deg i).toNat :=
    fmax_congr_perm σ _ _ (fun i => by simp)
  rw [hm]

theorem richClubBu_perm (A : AMat Int n) : richClubBu (permA σ A) = richClubBu A := by
  unfold richClubBu; rw [degreesUnd_perm, richClub_perm]

theorem richClubBd_perm (A : AMat Int n) : richClubBd (permA σ A) = richClubBd A := by
  unfold richClubBd; rw [degTotal_perm, richClub_perm]

/-! ### assortativity -/

theorem assortSums_perm (edge : Fin n → Fin n → Bool) (x y : Vector Int n) :
    assortSums (fun i j => edge (σ i) (σ j)) (permVec σ x) (permVec σ y) = assortSums edge x y := by
  simp only [assortSums, Prod.mk.injEq]
  refine ⟨?_, ?_, ?_, ?_⟩ <;> exact fsum2_congr_perm σ _ _ (fun i j => by simp)

/-- the undirected variant lists each edge once (`i < j`); for a symmetric matrix the sums do not depend on which end is listed first -/
theorem assortSums_triu_perm (A : AMat Int n) (hA : ∀ i j, A.get i j = A.get j i) (x : Vector Int n) :
    assortSums (fun i j => decide (i < j) && decide ((permA σ A).get i j > 0)) (permVec σ x) (permVec σ x) =
      assortSums (fun i j => decide (i < j) && decide (A.get i j > 0)) x x := by
  simp only [assortSums, Prod.mk.injEq, permA_get, permVec_get, Bool.and_eq_true, decide_eq_true_eq]
  have key : ∀ g : Fin n → Fin n → Int, (∀ i j, g i j = g j i) →
      (fsum fun i => fsum fun j => if i < j ∧ A.get (σ i) (σ j) > 0 then g (σ i) (σ j) else 0) =
        fsum fun i => fsum fun j => if i < j ∧ A.get i j > 0 then g i j else 0 := by
    intro g hg
    have h := triuLt_perm σ (fun i j => if A.get i j > 0 then g i j else 0) (fun i j => by simp only [hA i j, hg i j])
    have e1 : ∀ (B : Fin n → Fin n → Int) (G : Fin n → Fin n → Int),
        (fsum fun i => fsum fun j => if i < j ∧ B i j > 0 then G i j else 0) =
          fsum fun i => fsum fun j => if i < j then (if B i j > 0 then G i j else 0) else 0 := by
      intro B G
      apply fsum_congr; intro i; apply fsum_congr; intro j
      by_cases h1 : i < j <;> by_cases h2 : B i j > 0 <;> simp [h1, h2]
    rw [e1 (fun i j => A.get (σ i) (σ j)) (fun i j => g (σ i) (σ j)), e1 (fun i j => A.get i j) g]
    exact h
  refine ⟨key (fun _ _ => 1) (fun _ _ => rfl), key (fun i j => vget x i * vget x j) (fun i j => mul_comm _ _),
    key (fun i j => vget x i + vget x j) (fun i j => add_comm _ _),
    key (fun i j => vget x i * vget x i + vget x j * vget x j) (fun i j => add_comm _ _)⟩

theorem assortativityBin_perm_dir (A : AMat Int n) (flag : Nat) (hf : flag ≠ 0) :
    assortativityBin (permA σ A) flag = assortativityBin A flag := by
  have hd := degreesDir_perm σ A
  have he : (fun i j => decide ((permA σ A).get i j > 0)) = fun i j => (fun i j => decide (A.get i j > 0)) (σ i) (σ j) := by
    funext i j; simp
  match flag, hf with
  | 1, _ =>
    simp only [assortativityBin]; rw [hd, he]
    exact congrArg (fun s => Except.ok (assortOf s)) (assortSums_perm σ (fun i j => decide (A.get i j > 0)) _ _)
  | 2, _ =>
    simp only [assortativityBin]; rw [hd, he]
    exact congrArg (fun s => Except.ok (assortOf s)) (assortSums_perm σ (fun i j => decide (A.get i j > 0)) _ _)
  | 3, _ =>
    simp only [assortativityBin]; rw [hd, he]
    exact congrArg (fun s => Except.ok (assortOf s)) (assortSums_perm σ (fun i j => decide (A.get i j > 0)) _ _)
  | 4, _ =>
    simp only [assortativityBin]; rw [hd, he]
    exact congrArg (fun s => Except.ok (assortOf s)) (assortSums_perm σ (fun i j => decide (A.get i j > 0)) _ _)
  | (k + 5), _ => simp [assortativityBin]

theorem assortativityBin_perm_und (A : AMat Int n) (hA : ∀ i j, A.get i j = A.get j i) :
    assortativityBin (permA σ A) 0 = assortativityBin A 0 := by
  simp only [assortativityBin]
  rw [degreesUnd_perm, assortSums_triu_perm σ A hA]

theorem assortativityWei0_perm (A : AMat Int n) (hA : ∀ i j, A.get i j = A.get j i) :
    assortativityWei0 (permA σ A) = assortativityWei0 A := by
  simp only [assortativityWei0]
  rw [strengthsUnd_perm, assortSums_triu_perm σ A hA]

end Bct.Measures
