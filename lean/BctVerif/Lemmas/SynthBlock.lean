import BctVerif.Lemmas.SynthHier

/-!
# C20 helper lemmas: the hierarchical block structure of the template of `makeevenCIJ` / `makefractalCIJ`

`tmpl l` (after l passes of the doubling loop, size 2^(l+1)) is large exactly on the diagonal blocks:
for i ≠ j, `tmpl l i j ≥ l + 3 − s` iff i and j lie in the same block of size 2^s (`i / 2^s = j / 2^s`).
-/
namespace Bct.Synth

theorem div_pow_eq_zero {a s : Nat} (h : a < 2 ^ s) : a / 2 ^ s = 0 := Nat.div_eq_of_lt h

/-- same block of size 2^s, shifted by a multiple of 2^s -/
theorem shift_block {a b h s : Nat} (hs : 2 ^ s ∣ h) (ha : h ≤ a) (hb : h ≤ b) :
    ((a - h) / 2 ^ s = (b - h) / 2 ^ s ↔ a / 2 ^ s = b / 2 ^ s) := by
  obtain ⟨q, rfl⟩ := hs
  have hp : 0 < 2 ^ s := Nat.pow_pos (by norm_num)
  rw [Nat.sub_mul_div, Nat.sub_mul_div]
  have h1 : q ≤ a / 2 ^ s := (Nat.le_div_iff_mul_le hp).2 (by rw [Nat.mul_comm]; exact ha)
  have h2 : q ≤ b / 2 ^ s := (Nat.le_div_iff_mul_le hp).2 (by rw [Nat.mul_comm]; exact hb)
  omega

theorem tmpl_block : ∀ (l s : Nat) (i j : Fin (2 ^ (l + 1))), i ≠ j →
    ((tmpl l).get i j ≥ (l : Int) + 3 - s ↔ i.val / 2 ^ s = j.val / 2 ^ s)
  | 0, s, i, j, hij => by
    have hi := i.isLt; have hj := j.isLt
    have hne : i.val ≠ j.val := fun h => hij (Fin.ext h)
    simp only [tmpl, AMat.get_ofFn]
    rcases Nat.eq_zero_or_pos s with rfl | hs
    · simp only [Nat.pow_zero, Nat.div_one]
      constructor
      · intro h; omega
      · intro h; exact absurd h hne
    · have h2 : 2 ^ (0 + 1) ≤ 2 ^ s := Nat.pow_le_pow_right (by norm_num) hs
      rw [div_pow_eq_zero (by omega), div_pow_eq_zero (by omega)]
      constructor
      · intro _; rfl
      · intro _; push_cast; omega
  | l + 1, s, i, j, hij => by
    have hi := i.isLt; have hj := j.isLt
    have hpow : 2 ^ (l + 1 + 1) = 2 ^ (l + 1) * 2 := Nat.pow_succ 2 (l + 1)
    have hne : i.val ≠ j.val := fun h => hij (Fin.ext h)
    unfold tmpl
    simp only [AMat.get_ofFn]
    by_cases hA : i.val < 2 ^ (l + 1) ∧ j.val < 2 ^ (l + 1)
    · -- both in the first half
      rw [dif_pos hA]
      have ih := tmpl_block l s ⟨i.val, hA.1⟩ ⟨j.val, hA.2⟩ (fun h => hne (by simpa using congrArg Fin.val h))
      simp only at ih
      rw [← ih]; push_cast; omega
    · rw [dif_neg hA]
      by_cases hB : 2 ^ (l + 1) ≤ i.val ∧ 2 ^ (l + 1) ≤ j.val
      · -- both in the second half
        rw [dif_pos hB]
        have hi' : i.val - 2 ^ (l + 1) < 2 ^ (l + 1) := by omega
        have hj' : j.val - 2 ^ (l + 1) < 2 ^ (l + 1) := by omega
        have ih := tmpl_block l s ⟨i.val - 2 ^ (l + 1), hi'⟩ ⟨j.val - 2 ^ (l + 1), hj'⟩
          (fun h => hne (by have := congrArg Fin.val h; simp only at this; omega))
        simp only at ih
        have key : ((i.val - 2 ^ (l + 1)) / 2 ^ s = (j.val - 2 ^ (l + 1)) / 2 ^ s ↔ i.val / 2 ^ s = j.val / 2 ^ s) := by
          rcases Nat.lt_or_ge (l + 1) s with hs | hs
          · have hbig : 2 ^ (l + 1 + 1) ≤ 2 ^ s := Nat.pow_le_pow_right (by norm_num) hs
            rw [div_pow_eq_zero (by omega), div_pow_eq_zero (by omega), div_pow_eq_zero (by omega), div_pow_eq_zero (by omega)]
          · exact shift_block (Nat.pow_dvd_pow 2 hs) hB.1 hB.2
        rw [← key, ← ih]; push_cast; omega
      · -- different halves: the entry is 1 + 1
        rw [dif_neg hB]
        rcases Nat.lt_or_ge (l + 1) s with hs | hs
        · have hbig : 2 ^ (l + 1 + 1) ≤ 2 ^ s := Nat.pow_le_pow_right (by norm_num) hs
          rw [div_pow_eq_zero (by omega), div_pow_eq_zero (by omega)]
          constructor
          · intro _; rfl
          · intro _; push_cast; omega
        · obtain ⟨q, hq⟩ := Nat.pow_dvd_pow 2 hs
          have hp : 0 < 2 ^ s := Nat.pow_pos (by norm_num)
          constructor
          · intro h; push_cast at h; omega
          · intro h
            exfalso
            -- one of i, j is below 2^(l+1) = 2^s·q, the other not
            rcases Nat.lt_or_ge i.val (2 ^ (l + 1)) with hil | hil
            · have hjl : 2 ^ (l + 1) ≤ j.val := by
                by_contra hc; exact hA ⟨hil, by omega⟩
              have h1 : i.val / 2 ^ s < q := (Nat.div_lt_iff_lt_mul hp).2 (by rw [Nat.mul_comm, ← hq]; exact hil)
              have h2 : q ≤ j.val / 2 ^ s := (Nat.le_div_iff_mul_le hp).2 (by rw [Nat.mul_comm, ← hq]; exact hjl)
              omega
            · have hjl : j.val < 2 ^ (l + 1) := by
                by_contra hc; exact hB ⟨hil, by omega⟩
              have h1 : j.val / 2 ^ s < q := (Nat.div_lt_iff_lt_mul hp).2 (by rw [Nat.mul_comm, ← hq]; exact hjl)
              have h2 : q ≤ i.val / 2 ^ s := (Nat.le_div_iff_mul_le hp).2 (by rw [Nat.mul_comm, ← hq]; exact hil)
              omega

end Bct.Synth
