import BctVerif.Model.Dist
import Mathlib.Tactic

/-!
# `navigation_wu`: the greedy walk is a walk along existing connections and its accumulators are what they claim
-/
namespace Bct.Dist
variable {n : ℕ}

/-- every step of the walk `a :: p` follows an existing connection (`L[a,b] != 0`) -/
def stepsOK (L : AMat Rat n) : Fin n → List (Fin n) → Prop
  | _, [] => True
  | a, b :: p => L.get a b ≠ 0 ∧ stepsOK L b p

/-- sum of `M[a,b]` over the consecutive pairs of the walk `a :: p` -/
def sumAlong (M : AMat Rat n) : Fin n → List (Fin n) → Rat
  | _, [] => 0
  | a, b :: p => M.get a b + sumAlong M b p

/-- last node of the walk `a :: p` -/
def lastOf : Fin n → List (Fin n) → Fin n
  | a, [] => a
  | _, b :: p => lastOf b p

theorem stepsOK_snoc (L : AMat Rat n) : ∀ (p : List (Fin n)) (a x : Fin n),
    stepsOK L a (p ++ [x]) ↔ stepsOK L a p ∧ L.get (lastOf a p) x ≠ 0 := by
  intro p
  induction p with
  | nil => intro a x; simp [stepsOK, lastOf]
  | cons b p ih => intro a x; simp [stepsOK, lastOf, ih, and_assoc]

theorem sumAlong_snoc (M : AMat Rat n) : ∀ (p : List (Fin n)) (a x : Fin n),
    sumAlong M a (p ++ [x]) = sumAlong M a p + M.get (lastOf a p) x := by
  intro p
  induction p with
  | nil => intro a x; simp [sumAlong, lastOf]
  | cons b p ih => intro a x; simp [sumAlong, lastOf, ih, add_assoc]

theorem lastOf_snoc : ∀ (p : List (Fin n)) (a x : Fin n), lastOf a (p ++ [x]) = x := by
  intro p
  induction p with
  | nil => intro a x; rfl
  | cons b p ih => intro a x; simp [lastOf, ih]

theorem foldl_pick_mem (f : Fin n → Rat) : ∀ (xs : List (Fin n)) (b : Fin n),
    xs.foldl (fun b y => if f y < f b then y else b) b = b ∨ xs.foldl (fun b y => if f y < f b then y else b) b ∈ xs := by
  intro xs
  induction xs with
  | nil => intro b; exact Or.inl rfl
  | cons x xs ih =>
    intro b
    simp only [List.foldl_cons]
    rcases ih (if f x < f b then x else b) with e | e
    · rw [e]
      split_ifs
      · exact Or.inr List.mem_cons_self
      · exact Or.inl rfl
    · exact Or.inr (List.mem_cons_of_mem _ e)

theorem argminFirst_mem (f : Fin n → Rat) (xs : List (Fin n)) (y : Fin n) (h : argminFirst f xs = some y) : y ∈ xs := by
  cases xs with
  | nil => simp [argminFirst] at h
  | cons x xs =>
    simp only [argminFirst, Option.some.injEq] at h
    rcases foldl_pick_mem f xs x with e | e
    · rw [e] at h; rw [← h]; exact List.mem_cons_self
    · rw [h] at e; exact List.mem_cons_of_mem _ e

/-- outcome of one pair of `navigation_wu`: the recorded node list is `i :: q`, a walk along existing connections;
either it arrived (`lastOf i q = target`) and the three reported lengths are its hop count, `Σ L` and `Σ D`,
or it failed, did not arrive, and all three are infinite -/
def NavOK (L Dm : AMat Rat n) (i target : Fin n) (r : NavRes n) : Prop :=
  ∃ q, r.path = i :: q ∧ stepsOK L i q ∧
    ((lastOf i q = target ∧ r.bin = .fin (q.length : ℕ) ∧ r.wei = .fin (sumAlong L i q) ∧ r.dis = .fin (sumAlong Dm i q)) ∨
     (lastOf i q ≠ target ∧ r.bin = .inf ∧ r.wei = .inf ∧ r.dis = .inf))

theorem navGo_ok (L Dm : AMat Rat n) (mh : Option ℕ) (target i : Fin n) :
    ∀ (fuel : ℕ) (curr last : Fin n) (plb : ℕ) (plw pld : Rat) (path q : List (Fin n)) (r : NavRes n),
      path = (i :: q).reverse → lastOf i q = curr → stepsOK L i q → plb = q.length → plw = sumAlong L i q →
      pld = sumAlong Dm i q → navGo L Dm mh target fuel curr last plb plw pld path = some r → NavOK L Dm i target r := by
  intro fuel
  induction fuel with
  | zero => intro curr last plb plw pld path q r _ _ _ _ _ _ h; simp [navGo] at h
  | succ fuel ih =>
    intro curr last plb plw pld path q r hpath hlast hsteps hb hw hd h
    simp only [navGo] at h
    by_cases hct : curr = target
    · rw [if_pos hct] at h
      simp only [Option.some.injEq] at h
      subst h
      refine ⟨q, by simp [hpath], hsteps, Or.inl ⟨by rw [hlast, hct], by simp [hb], by simp [hw], by simp [hd]⟩⟩
    · rw [if_neg hct] at h
      have fail : ∀ r', (⟨.inf, .inf, .inf, path.reverse⟩ : NavRes n) = r' → NavOK L Dm i target r' := by
        intro r' e
        subst e
        exact ⟨q, by simp [hpath], hsteps, Or.inr ⟨by rw [hlast]; exact hct, rfl, rfl, rfl⟩⟩
      rcases harg : argminFirst (fun x => Dm.get target x) ((List.finRange n).filter fun x => L.get curr x ≠ 0) with _ | next
      · rw [harg] at h
        simp only [Option.some.injEq] at h
        exact fail r h
      · rw [harg] at h
        dsimp only at h
        split_ifs at h with hstop
        · simp only [Option.some.injEq] at h
          exact fail r h
        · have hmem := argminFirst_mem _ _ _ harg
          have hconn : L.get curr next ≠ 0 := by simpa using (List.mem_filter.mp hmem).2
          refine ih next curr (plb + 1) _ _ (next :: path) (q ++ [next]) r ?_ ?_ ?_ ?_ ?_ ?_ h
          · rw [hpath]; simp
          · exact lastOf_snoc q i next
          · rw [stepsOK_snoc, hlast]; exact ⟨hsteps, hconn⟩
          · simp [hb]
          · rw [sumAlong_snoc, hlast, hw]
          · rw [sumAlong_snoc, hlast, hd]

theorem navPair_ok (L Dm : AMat Rat n) (mh : Option ℕ) (fuel : ℕ) (i j : Fin n) (r : NavRes n)
    (h : navPair L Dm mh fuel i j = some r) : NavOK L Dm i j r :=
  navGo_ok L Dm mh j i fuel i i 0 0 0 [i] [] r rfl rfl trivial rfl rfl rfl h


/-! ## the greedy choice and the stopping conditions, exactly as coded -/

/-- `neighbors, = np.where(L[curr_node, :] != 0)` in index order -/
def nbrs (L : AMat Rat n) (c : Fin n) : List (Fin n) := (List.finRange n).filter fun x => L.get c x ≠ 0

/-- `y` is what `neighbors[np.argmin(D[target, neighbors])]` returns at node `c`: a neighbour of `c`, strictly closer to the
target (in `D`) than every neighbour listed before it and at least as close as every neighbour listed after it
(first minimum on ties) -/
def GreedyChoice (L Dm : AMat Rat n) (target c y : Fin n) : Prop :=
  ∃ pre post, nbrs L c = pre ++ y :: post ∧ (∀ x ∈ pre, Dm.get target y < Dm.get target x) ∧
    (∀ x ∈ post, Dm.get target y ≤ Dm.get target x)

theorem foldl_pick_spec (f : Fin n → Rat) : ∀ (xs pre : List (Fin n)) (b : Fin n) (post0 : List (Fin n)),
    (∀ x ∈ pre, f b < f x) → (∀ x ∈ post0, f b ≤ f x) →
    ∃ pre' post', pre ++ b :: post0 ++ xs = pre' ++ (xs.foldl (fun b y => if f y < f b then y else b) b) :: post' ∧
      (∀ x ∈ pre', f (xs.foldl (fun b y => if f y < f b then y else b) b) < f x) ∧
      (∀ x ∈ post', f (xs.foldl (fun b y => if f y < f b then y else b) b) ≤ f x) := by
  intro xs
  induction xs with
  | nil => intro pre b post0 h1 h2; exact ⟨pre, post0, by simp, h1, h2⟩
  | cons y xs ih =>
    intro pre b post0 h1 h2
    simp only [List.foldl_cons]
    by_cases hy : f y < f b
    · rw [if_pos hy]
      obtain ⟨pre', post', e, g1, g2⟩ := ih (pre ++ b :: post0) y [] (by
        intro x hx
        rcases List.mem_append.mp hx with hx | hx
        · exact lt_trans hy (h1 x hx)
        · rcases List.mem_cons.mp hx with rfl | hx
          · exact hy
          · exact lt_of_lt_of_le hy (h2 x hx)) (by intro x hx; exact absurd hx List.not_mem_nil)
      exact ⟨pre', post', by rw [← e]; simp, g1, g2⟩
    · rw [if_neg hy]
      obtain ⟨pre', post', e, g1, g2⟩ := ih pre b (post0 ++ [y]) h1 (by
        intro x hx
        rcases List.mem_append.mp hx with hx | hx
        · exact h2 x hx
        · have : x = y := by simpa using hx
          rw [this]; exact not_lt.mp hy)
      exact ⟨pre', post', by rw [← e]; simp, g1, g2⟩

theorem argminFirst_spec (f : Fin n → Rat) (xs : List (Fin n)) (y : Fin n) (h : argminFirst f xs = some y) :
    ∃ pre post, xs = pre ++ y :: post ∧ (∀ x ∈ pre, f y < f x) ∧ (∀ x ∈ post, f y ≤ f x) := by
  cases xs with
  | nil => simp [argminFirst] at h
  | cons x xs =>
    simp only [argminFirst, Option.some.injEq] at h
    obtain ⟨pre', post', e, g1, g2⟩ := foldl_pick_spec f xs [] x []
      (by intro z hz; exact absurd hz List.not_mem_nil) (by intro z hz; exact absurd hz List.not_mem_nil)
    rw [h] at e g1 g2
    exact ⟨pre', post', by simpa using e, g1, g2⟩

/-- **`navigation_step_greedy`**: the node chosen by the model's step at `c` is the greedy choice -/
theorem navigation_step_greedy (L Dm : AMat Rat n) (target c y : Fin n)
    (h : argminFirst (fun x => Dm.get target x) (nbrs L c) = some y) : GreedyChoice L Dm target c y :=
  argminFirst_spec _ _ y h

/-- every recorded step `a → b` (with previous node `prev` and `k` hops so far) was taken as coded: `a` is not the target,
`b` is the greedy choice at `a`, it is not the previous node, and the hop budget was not yet exceeded (`pl_bin > max_hops`
is tested before the step) -/
def stepsCoded (L Dm : AMat Rat n) (mh : Option ℕ) (target : Fin n) : Fin n → ℕ → Fin n → List (Fin n) → Prop
  | _, _, _, [] => True
  | prev, k, a, b :: p => a ≠ target ∧ GreedyChoice L Dm target a b ∧ b ≠ prev ∧ (∀ h, mh = some h → k ≤ h) ∧
      stepsCoded L Dm mh target a (k + 1) b p

/-- (previous node, hop count, current node) after walking `p` -/
def endState : Fin n → ℕ → Fin n → List (Fin n) → Fin n × ℕ × Fin n
  | prev, k, a, [] => (prev, k, a)
  | _, k, a, b :: p => endState a (k + 1) b p

/-- the three coded reasons for giving up at node `c`: no neighbours; the greedy choice is the previous node; the greedy
choice exists but `pl_bin > max_hops` -/
def StopReason (L Dm : AMat Rat n) (mh : Option ℕ) (target prev : Fin n) (k : ℕ) (c : Fin n) : Prop :=
  nbrs L c = [] ∨ ∃ y, argminFirst (fun x => Dm.get target x) (nbrs L c) = some y ∧ (y = prev ∨ ∃ h, mh = some h ∧ h < k)

theorem argminFirst_none (f : Fin n → Rat) (xs : List (Fin n)) (h : argminFirst f xs = none) : xs = [] := by
  cases xs with
  | nil => rfl
  | cons x xs => simp [argminFirst] at h

/-- trace of the `while curr_node != target` loop from an arbitrary state: the returned list extends the recorded one by
`q`, every step of `q` was taken as coded, and the loop stopped either at the target (success, the hop counter is the
reported `PL_bin`) or, elsewhere, for one of the three coded reasons (all three lengths infinite) -/
theorem navGo_trace (L Dm : AMat Rat n) (mh : Option ℕ) (target : Fin n) :
    ∀ (fuel : ℕ) (curr last : Fin n) (plb : ℕ) (plw pld : Rat) (path : List (Fin n)) (r : NavRes n),
      navGo L Dm mh target fuel curr last plb plw pld path = some r →
      ∃ q, r.path = path.reverse ++ q ∧ stepsCoded L Dm mh target last plb curr q ∧
        (((endState last plb curr q).2.2 = target ∧ r.bin = .fin (((endState last plb curr q).2.1 : ℕ) : Rat)) ∨
         ((endState last plb curr q).2.2 ≠ target ∧ r.bin = .inf ∧ r.wei = .inf ∧ r.dis = .inf ∧
            StopReason L Dm mh target (endState last plb curr q).1 (endState last plb curr q).2.1 (endState last plb curr q).2.2)) := by
  intro fuel
  induction fuel with
  | zero => intro curr last plb plw pld path r h; simp [navGo] at h
  | succ fuel ih =>
    intro curr last plb plw pld path r h
    simp only [navGo] at h
    by_cases hct : curr = target
    · rw [if_pos hct] at h
      simp only [Option.some.injEq] at h
      subst h
      exact ⟨[], by simp, trivial, Or.inl ⟨hct, rfl⟩⟩
    · rw [if_neg hct] at h
      rw [show List.filter (fun x => decide (L.get curr x ≠ 0)) (List.finRange n) = nbrs L curr from rfl] at h
      rcases harg : argminFirst (fun x => Dm.get target x) (nbrs L curr) with _ | next
      · rw [harg] at h
        simp only [Option.some.injEq] at h
        subst h
        exact ⟨[], by simp, trivial, Or.inr ⟨hct, rfl, rfl, rfl, Or.inl (argminFirst_none _ _ harg)⟩⟩
      · rw [harg] at h
        dsimp only at h
        split_ifs at h with hstop
        · simp only [Option.some.injEq] at h
          subst h
          refine ⟨[], by simp, trivial, Or.inr ⟨hct, rfl, rfl, rfl, Or.inr ⟨next, harg, ?_⟩⟩⟩
          rw [Bool.or_eq_true] at hstop
          rcases hstop with e | e
          · exact Or.inl (by simpa [endState] using e)
          · right
            cases mh with
            | none => simp at e
            | some h0 => exact ⟨h0, rfl, by simpa [endState] using e⟩
        · obtain ⟨q, hq, hsteps, hend⟩ := ih next curr (plb + 1) _ _ (next :: path) r h
          rw [Bool.or_eq_true, not_or] at hstop
          refine ⟨next :: q, by rw [hq]; simp, ⟨hct, navigation_step_greedy L Dm target curr next harg, ?_, ?_, hsteps⟩, hend⟩
          · intro e; exact hstop.1 (by simpa using e)
          · intro h0 hm
            subst hm
            have := hstop.2
            simp only [decide_eq_true_eq, not_lt] at this
            exact this

/-- the trace of one ordered pair `(i,j)` of `navigation_wu` -/
theorem navPair_trace (L Dm : AMat Rat n) (mh : Option ℕ) (fuel : ℕ) (i j : Fin n) (r : NavRes n)
    (h : navPair L Dm mh fuel i j = some r) :
    ∃ q, r.path = i :: q ∧ stepsCoded L Dm mh j i 0 i q ∧
      (((endState i 0 i q).2.2 = j ∧ r.bin = .fin (((endState i 0 i q).2.1 : ℕ) : Rat)) ∨
       ((endState i 0 i q).2.2 ≠ j ∧ r.bin = .inf ∧ r.wei = .inf ∧ r.dis = .inf ∧
          StopReason L Dm mh j (endState i 0 i q).1 (endState i 0 i q).2.1 (endState i 0 i q).2.2)) := by
  obtain ⟨q, hq, h1, h2⟩ := navGo_trace L Dm mh j fuel i i 0 0 0 [i] r h
  exact ⟨q, by simpa using hq, h1, h2⟩


theorem endState_spec : ∀ (p : List (Fin n)) (prev : Fin n) (k : ℕ) (a : Fin n),
    (endState prev k a p).2.2 = lastOf a p ∧ (endState prev k a p).2.1 = k + p.length := by
  intro p
  induction p with
  | nil => intro prev k a; exact ⟨rfl, rfl⟩
  | cons b p ih =>
    intro prev k a
    simp only [endState, lastOf, List.length_cons]
    obtain ⟨h1, h2⟩ := ih a (k + 1) b
    exact ⟨h1, by rw [h2]; omega⟩

/-- with `max_hops = h` the loop returns within `h + 3` evaluations of its condition -/
theorem navGo_isSome (L Dm : AMat Rat n) (h : ℕ) (target : Fin n) :
    ∀ (fuel : ℕ) (curr last : Fin n) (plb : ℕ) (plw pld : Rat) (path : List (Fin n)),
      plb ≤ h + 1 → h + 3 ≤ fuel + plb → (navGo L Dm (some h) target fuel curr last plb plw pld path).isSome = true := by
  intro fuel
  induction fuel with
  | zero => intro curr last plb plw pld path h1 h2; omega
  | succ fuel ih =>
    intro curr last plb plw pld path h1 h2
    simp only [navGo]
    by_cases hct : curr = target
    · rw [if_pos hct]; rfl
    · rw [if_neg hct]
      rcases harg : argminFirst (fun x => Dm.get target x) (List.filter (fun x => decide (L.get curr x ≠ 0)) (List.finRange n)) with _ | next
      · rfl
      · dsimp only
        split_ifs with hstop
        · rfl
        · rw [Bool.or_eq_true, not_or] at hstop
          have hle : plb ≤ h := by
            have := hstop.2
            simp only [decide_eq_true_eq, not_lt] at this
            exact this
          exact ih next curr (plb + 1) _ _ _ (by omega) (by omega)

theorem navPair_isSome (L Dm : AMat Rat n) (h fuel : ℕ) (hf : h + 3 ≤ fuel) (i j : Fin n) :
    (navPair L Dm (some h) fuel i j).isSome = true :=
  navGo_isSome L Dm h j fuel i i 0 0 0 [i] (by omega) (by omega)

end Bct.Dist
