import BctVerif.Model.Dist
import Mathlib.Tactic

/-!
# `navigation_wu`: the greedy walk is a walk along existing connections and its accumulators are what they claim
-/
namespace Bct.Dist
variable {n : ℕ}

/-- every step of the walk `a :: p` follows an existing connection (`L[a,b] != 0`) -/
def stepsOK (L : AMat Rat n) : Fin n → List (Fin n) → Prop
  | _, [] => True
  | a, b :: p => L.get a b ≠ 0 ∧ stepsOK L b p

/-- sum of `M[a,b]` over the consecutive pairs of the walk `a :: p` -/
def sumAlong (M : AMat Rat n) : Fin n → List (Fin n) → Rat
  | _, [] => 0
  | a, b :: p => M.get a b + sumAlong M b p

/-- last node of the walk `a :: p` -/
def lastOf : Fin n → List (Fin n) → Fin n
  | a, [] => a
  | _, b :: p => lastOf b p

theorem stepsOK_snoc (L : AMat Rat n) : ∀ (p : List (Fin n)) (a x : Fin n),
    stepsOK L a (p ++ [x]) ↔ stepsOK L a p ∧ L.get (lastOf a p) x ≠ 0 := by
  intro p
  induction p with
  | nil => intro a x; simp [stepsOK, lastOf]
  | cons b p ih => intro a x; simp [stepsOK, lastOf, ih, and_assoc]

theorem sumAlong_snoc (M : AMat Rat n) : ∀ (p : List (Fin n)) (a x : Fin n),
    sumAlong M a (p ++ [x]) = sumAlong M a p + M.get (lastOf a p) x := by
  intro p
  induction p with
  | nil => intro a x; simp [sumAlong, lastOf]
  | cons b p ih => intro a x; simp [sumAlong, lastOf, ih, add_assoc]

theorem lastOf_snoc : ∀ (p : List (Fin n)) (a x : Fin n), lastOf a (p ++ [x]) = x := by
  intro p
  induction p with
  | nil => intro a x; rfl
  | cons b p ih => intro a x; simp [lastOf, ih]

theorem foldl_pick_mem (f : Fin n → Rat) : ∀ (xs : List (Fin n)) (b : Fin n),
    xs.foldl (fun b y => if f y < f b then y else b) b = b ∨ xs.foldl (fun b y => if f y < f b then y else b) b ∈ xs := by
  intro xs
  induction xs with
  | nil => intro b; exact Or.inl rfl
  | cons x xs ih =>
    intro b
    simp only [List.foldl_cons]
    rcases ih (if f x < f b then x else b) with e | e
    · rw [e]
      split_ifs
      · exact Or.inr List.mem_cons_self
      · exact Or.inl rfl
    · exact Or.inr (List.mem_cons_of_mem _ e)

theorem argminFirst_mem (f : Fin n → Rat) (xs : List (Fin n)) (y : Fin n) (h : argminFirst f xs = some y) : y ∈ xs := by
  cases xs with
  | nil => simp [argminFirst] at h
  | cons x xs =>
    simp only [argminFirst, Option.some.injEq] at h
    rcases foldl_pick_mem f xs x with e | e
    · rw [e] at h; rw [← h]; exact List.mem_cons_self
    · rw [h] at e; exact List.mem_cons_of_mem _ e

/-- outcome of one pair of `navigation_wu`: the recorded node list is `i :: q`, a walk along existing connections;
either it arrived (`lastOf i q = target`) and the three reported lengths are its hop count, `Σ L` and `Σ D`,
or it failed, did not arrive, and all three are infinite -/
def NavOK (L Dm : AMat Rat n) (i target : Fin n) (r : NavRes n) : Prop :=
  ∃ q, r.path = i :: q ∧ stepsOK L i q ∧
    ((lastOf i q = target ∧ r.bin = .fin (q.length : ℕ) ∧ r.wei = .fin (sumAlong L i q) ∧ r.dis = .fin (sumAlong Dm i q)) ∨
     (lastOf i q ≠ target ∧ r.bin = .inf ∧ r.wei = .inf ∧ r.dis = .inf))

theorem navGo_ok (L Dm : AMat Rat n) (mh : Option ℕ) (target i : Fin n) :
    ∀ (fuel : ℕ) (curr last : Fin n) (plb : ℕ) (plw pld : Rat) (path q : List (Fin n)) (r : NavRes n),
      path = (i :: q).reverse → lastOf i q = curr → stepsOK L i q → plb = q.length → plw = sumAlong L i q →
      pld = sumAlong Dm i q → navGo L Dm mh target fuel curr last plb plw pld path = some r → NavOK L Dm i target r := by
  intro fuel
  induction fuel with
  | zero => intro curr last plb plw pld path q r _ _ _ _ _ _ h; simp [navGo] at h
  | succ fuel ih =>
    intro curr last plb plw pld path q r hpath hlast hsteps hb hw hd h
    simp only [navGo] at h
    by_cases hct : curr = target
    · rw [if_pos hct] at h
      simp only [Option.some.injEq] at h
      subst h
      refine ⟨q, by simp [hpath], hsteps, Or.inl ⟨by rw [hlast, hct], by simp [hb], by simp [hw], by simp [hd]⟩⟩
    · rw [if_neg hct] at h
      have fail : ∀ r', (⟨.inf, .inf, .inf, path.reverse⟩ : NavRes n) = r' → NavOK L Dm i target r' := by
        intro r' e
        subst e
        exact ⟨q, by simp [hpath], hsteps, Or.inr ⟨by rw [hlast]; exact hct, rfl, rfl, rfl⟩⟩
      rcases harg : argminFirst (fun x => Dm.get target x) ((List.finRange n).filter fun x => L.get curr x ≠ 0) with _ | next
      · rw [harg] at h
        simp only [Option.some.injEq] at h
        exact fail r h
      · rw [harg] at h
        dsimp only at h
        split_ifs at h with hstop
        · simp only [Option.some.injEq] at h
          exact fail r h
        · have hmem := argminFirst_mem _ _ _ harg
          have hconn : L.get curr next ≠ 0 := by simpa using (List.mem_filter.mp hmem).2
          refine ih next curr (plb + 1) _ _ (next :: path) (q ++ [next]) r ?_ ?_ ?_ ?_ ?_ ?_ h
          · rw [hpath]; simp
          · exact lastOf_snoc q i next
          · rw [stepsOK_snoc, hlast]; exact ⟨hsteps, hconn⟩
          · simp [hb]
          · rw [sumAlong_snoc, hlast, hw]
          · rw [sumAlong_snoc, hlast, hd]

theorem navPair_ok (L Dm : AMat Rat n) (mh : Option ℕ) (fuel : ℕ) (i j : Fin n) (r : NavRes n)
    (h : navPair L Dm mh fuel i j = some r) : NavOK L Dm i j r :=
  navGo_ok L Dm mh j i fuel i i 0 0 0 [i] [] r rfl rfl trivial rfl rfl rfl h

end Bct.Dist
