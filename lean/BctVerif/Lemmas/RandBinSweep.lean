import BctVerif.Lemmas.RewireInv
import BctVerif.Lemmas.RandBinFun

/-!
# The edge sweep of `randomizer_bin_und` keeps the work-matrix invariant and every degree

The sweep visits the edge list front to back.  Its edge-index update loop is peculiar (after a swap
found through the entry `(d,c)` the visited entry becomes the non-edge `(c,b)`, and the new edge a–c is
then not listed at all), so the usual "the list mirrors the matrix" invariant is false.  What does hold,
and suffices, is an invariant about the *not yet visited* entries only (`SwInv … t`): every entry with
index `≥ t` is a present edge, and no two of them name the same undirected edge.
-/
open Finset

namespace Bct.RandBinSweep
open Bct Bct.RewireFun Bct.RandBinFun Bct.RandBin Bct.RewireInv

variable {n k : ℕ}

def _root_.Bct.RandBin.St.iv (s : RandBin.St n k) (e : Fin k) : Fin n := s.i[e]
def _root_.Bct.RandBin.St.jv (s : RandBin.St n k) (e : Fin k) : Fin n := s.j[e]

structure SwInv (R0 : Mat n) (s : RandBin.St n k) (t : ℕ) : Prop where
  wm : WM s.R.toFun
  deg : ∀ v, rowCnt s.R.toFun v = rowCnt R0 v
  present : ∀ m : Fin k, t ≤ m.val → s.R.toFun (s.iv m) (s.jv m) = 1
  distinct : ∀ m m' : Fin k, t ≤ m.val → t ≤ m'.val → m ≠ m' →
    ¬ (s.iv m = s.iv m' ∧ s.jv m = s.jv m') ∧ ¬ (s.iv m = s.jv m' ∧ s.jv m = s.iv m')

theorem SwInv.mono {R0 : Mat n} {s : RandBin.St n k} {t t' : ℕ} (h : SwInv R0 s t) (ht : t ≤ t') : SwInv R0 s t' :=
  ⟨h.wm, h.deg, fun m hm => h.present m (by omega), fun m m' hm hm' => h.distinct m m' (by omega) (by omega)⟩

/-! ### the edge-index update loop -/

theorem updStep_other (it : Fin k) (b c d : Fin n) (ij : EVec n k) (m x : Fin k) (hx1 : x ≠ it) (hx2 : x ≠ m) :
    (updStep it b c d ij m).1[x] = ij.1[x] ∧ (updStep it b c d ij m).2[x] = ij.2[x] := by
  by_cases h1 : ij.1[m] = d ∧ ij.2[m] = c
  · have : updStep it b c d ij m = (ij.1.set it c, ij.2.set m b) := by rw [updStep, if_pos h1]
    rw [this]
    exact ⟨by show (ij.1.set it c)[x] = _; rw [getElem_set_fin, if_neg hx1],
           by show (ij.2.set m b)[x] = _; rw [getElem_set_fin, if_neg hx2]⟩
  · by_cases h2 : ij.1[m] = c ∧ ij.2[m] = d
    · have : updStep it b c d ij m = (ij.1.set m b, ij.2.set it c) := by rw [updStep, if_neg h1, if_pos h2]
      rw [this]
      exact ⟨by show (ij.1.set m b)[x] = _; rw [getElem_set_fin, if_neg hx2],
             by show (ij.2.set it c)[x] = _; rw [getElem_set_fin, if_neg hx1]⟩
    · have : updStep it b c d ij m = ij := by rw [updStep, if_neg h1, if_neg h2]
      rw [this]; exact ⟨rfl, rfl⟩

theorem updStep_self (it : Fin k) (b c d : Fin n) (hcd : c ≠ d) (ij : EVec n k) (m : Fin k) (hm : m ≠ it) :
    (updStep it b c d ij m).1[m] = (if ij.1[m] = c ∧ ij.2[m] = d then b else ij.1[m]) ∧
    (updStep it b c d ij m).2[m] = (if ij.1[m] = d ∧ ij.2[m] = c then b else ij.2[m]) := by
  by_cases h1 : ij.1[m] = d ∧ ij.2[m] = c
  · have hn : ¬ (ij.1[m] = c ∧ ij.2[m] = d) := fun hh => hcd (hh.1.symm.trans h1.1)
    have : updStep it b c d ij m = (ij.1.set it c, ij.2.set m b) := by rw [updStep, if_pos h1]
    rw [this, if_neg hn, if_pos h1]
    exact ⟨by show (ij.1.set it c)[m] = _; rw [getElem_set_fin, if_neg hm],
           by show (ij.2.set m b)[m] = _; rw [getElem_set_fin, if_pos rfl]⟩
  · by_cases h2 : ij.1[m] = c ∧ ij.2[m] = d
    · have : updStep it b c d ij m = (ij.1.set m b, ij.2.set it c) := by rw [updStep, if_neg h1, if_pos h2]
      rw [this, if_pos h2, if_neg h1]
      exact ⟨by show (ij.1.set m b)[m] = _; rw [getElem_set_fin, if_pos rfl],
             by show (ij.2.set it c)[m] = _; rw [getElem_set_fin, if_neg hm]⟩
    · have : updStep it b c d ij m = ij := by rw [updStep, if_neg h1, if_neg h2]
      rw [this, if_neg h2, if_neg h1]; exact ⟨rfl, rfl⟩

theorem upd_foldl (it : Fin k) (b c d : Fin n) (hcd : c ≠ d) (i0 j0 : Vector (Fin n) k) :
    ∀ (ms : List (Fin k)) (ij : EVec n k), ms.Nodup →
      (∀ x, x ≠ it → x ∈ ms → ij.1[x] = i0[x] ∧ ij.2[x] = j0[x]) →
      ∀ x, x ≠ it →
        (ms.foldl (updStep it b c d) ij).1[x] =
          (if x ∈ ms then (if i0[x] = c ∧ j0[x] = d then b else i0[x]) else ij.1[x]) ∧
        (ms.foldl (updStep it b c d) ij).2[x] =
          (if x ∈ ms then (if i0[x] = d ∧ j0[x] = c then b else j0[x]) else ij.2[x]) := by
  intro ms
  induction ms with
  | nil => intro ij _ _ x _; simp
  | cons m ms ih =>
    intro ij hnd horig x hx
    rw [List.nodup_cons] at hnd
    simp only [List.foldl_cons]
    have horig' : ∀ y, y ≠ it → y ∈ ms → (updStep it b c d ij m).1[y] = i0[y] ∧ (updStep it b c d ij m).2[y] = j0[y] := by
      intro y hy hmem
      have hym : y ≠ m := fun hh => hnd.1 (hh ▸ hmem)
      have := updStep_other it b c d ij m y hy hym
      have ho := horig y hy (List.mem_cons_of_mem _ hmem)
      exact ⟨this.1.trans ho.1, this.2.trans ho.2⟩
    have IH := ih (updStep it b c d ij m) hnd.2 horig' x hx
    by_cases hxm : x = m
    · subst hxm
      have hnot : x ∉ ms := hnd.1
      have hs := updStep_self it b c d hcd ij x hx
      have ho := horig x hx (List.mem_cons_self)
      simp only [hnot, if_false] at IH
      simp only [List.mem_cons, true_or, if_true]
      rw [IH.1, IH.2, hs.1, hs.2, ho.1, ho.2]
      exact ⟨rfl, rfl⟩
    · have hoth := updStep_other it b c d ij m x hx hxm
      by_cases hmem : x ∈ ms
      · simp only [hmem, if_true] at IH
        simp only [List.mem_cons, hmem, or_true, if_true]
        exact IH
      · simp only [hmem, if_false] at IH
        simp only [List.mem_cons, hxm, hmem, or_self, if_false]
        exact ⟨IH.1.trans hoth.1, IH.2.trans hoth.2⟩

/-- entries other than the visited one after the update loop: an entry naming c–d now names b–d,
everything else is unchanged -/
theorem updEdges_get (it : Fin k) (b c d : Fin n) (hcd : c ≠ d) (i0 j0 : Vector (Fin n) k) (x : Fin k) (hx : x ≠ it) :
    (updEdges it b c d (i0, j0)).1[x] = (if i0[x] = c ∧ j0[x] = d then b else i0[x]) ∧
    (updEdges it b c d (i0, j0)).2[x] = (if i0[x] = d ∧ j0[x] = c then b else j0[x]) := by
  have := upd_foldl it b c d hcd i0 j0 (List.finRange k) (i0, j0) (List.nodup_finRange k)
    (fun _ _ _ => ⟨rfl, rfl⟩) x hx
  simpa [updEdges] using this

/-! ### one accepted swap -/

theorem applySwap_R (s : RandBin.St n k) (it : Fin k) (c d : Fin n) :
    (applySwap s it c d).R.toFun = swapBinF s.R.toFun (s.iv it) (s.jv it) c d :=
  toFun_swapCells _ _ _ _ _

theorem applySwap_iv (s : RandBin.St n k) (it : Fin k) (c d : Fin n) (hcd : c ≠ d) (x : Fin k) (hx : x ≠ it) :
    (applySwap s it c d).iv x = (if s.iv x = c ∧ s.jv x = d then s.jv it else s.iv x) :=
  (updEdges_get it (s.jv it) c d hcd s.i s.j x hx).1

theorem applySwap_jv (s : RandBin.St n k) (it : Fin k) (c d : Fin n) (hcd : c ≠ d) (x : Fin k) (hx : x ≠ it) :
    (applySwap s it c d).jv x = (if s.iv x = d ∧ s.jv x = c then s.jv it else s.jv x) :=
  (updEdges_get it (s.jv it) c d hcd s.i s.j x hx).2

/-- **One accepted swap preserves the sweep invariant** (for the entries after the visited one). -/
theorem applySwap_inv (R0 : Mat n) (s : RandBin.St n k) (it : Fin k) (c d : Fin n)
    (h : SwInv R0 s it.val) (g : Guard s.R.toFun (s.iv it) (s.jv it) c d) :
    SwInv R0 (applySwap s it c d) (it.val + 1) := by
  have hw := h.wm
  have hR := applySwap_R s it c d
  have app := swapBinF_apply s.R.toFun (s.iv it) (s.jv it) c d g.hab g.hac g.had g.hbc g.hbd g.hcd
  have hne : ∀ m : Fin k, it.val + 1 ≤ m.val → m ≠ it := fun m hm hh => by rw [hh] at hm; omega
  have gdb : s.R.toFun d (s.jv it) = 0 := by rw [hw.sym]; exact g.bd
  have gbd := g.bd
  have hab := g.hab; have hac := g.hac; have had := g.had; have hbc := g.hbc; have hbd := g.hbd; have hcd := g.hcd
  have hab' := hab.symm; have hac' := hac.symm; have had' := had.symm
  have hbc' := hbc.symm; have hbd' := hbd.symm; have hcd' := hcd.symm
  -- the new cells
  have newbd : swapBinF s.R.toFun (s.iv it) (s.jv it) c d (s.jv it) d = 1 := by
    rw [app]; simp [hbc, hbd, hab', had', hbd', hcd']
  have newdb : swapBinF s.R.toFun (s.iv it) (s.jv it) c d d (s.jv it) = 1 := by
    rw [app]; simp [hbc, hbd, hab', had', hbd', hcd']
  -- an unvisited entry that is not c–d keeps its (present) cell
  have keep : ∀ m : Fin k, it.val + 1 ≤ m.val → ¬ (s.iv m = c ∧ s.jv m = d) → ¬ (s.iv m = d ∧ s.jv m = c) →
      swapBinF s.R.toFun (s.iv it) (s.jv it) c d (s.iv m) (s.jv m) = 1 := by
    intro m hm n1 n2
    have hp := h.present m (by omega)
    have hd := h.distinct m it (by omega) (le_refl _) (hne m hm)
    rw [app]
    have z : ¬ ((s.iv m = s.iv it ∧ s.jv m = s.jv it) ∨ (s.iv m = s.jv it ∧ s.jv m = s.iv it) ∨
        (s.iv m = c ∧ s.jv m = d) ∨ (s.iv m = d ∧ s.jv m = c)) := by
      rintro (hh | hh | hh | hh)
      · exact hd.1 hh
      · exact hd.2 hh
      · exact n1 hh
      · exact n2 hh
    rw [if_neg z]
    split
    · rfl
    · exact hp
  -- classification of the unvisited entries after the update loop
  have cls : ∀ x : Fin k, x ≠ it →
      ((s.iv x = c ∧ s.jv x = d) ∧ (applySwap s it c d).iv x = s.jv it ∧ (applySwap s it c d).jv x = d) ∨
      ((s.iv x = d ∧ s.jv x = c) ∧ (applySwap s it c d).iv x = d ∧ (applySwap s it c d).jv x = s.jv it) ∨
      (¬ (s.iv x = c ∧ s.jv x = d) ∧ ¬ (s.iv x = d ∧ s.jv x = c) ∧
        (applySwap s it c d).iv x = s.iv x ∧ (applySwap s it c d).jv x = s.jv x) := by
    intro x hx
    rw [applySwap_iv s it c d hcd x hx, applySwap_jv s it c d hcd x hx]
    by_cases h1 : s.iv x = c ∧ s.jv x = d
    · have h2 : ¬ (s.iv x = d ∧ s.jv x = c) := fun hh => hcd (h1.1.symm.trans hh.1)
      left; rw [if_pos h1, if_neg h2]; exact ⟨h1, rfl, h1.2⟩
    · by_cases h2 : s.iv x = d ∧ s.jv x = c
      · right; left; rw [if_neg h1, if_pos h2]; exact ⟨h2, h2.1, rfl⟩
      · right; right; rw [if_neg h1, if_neg h2]; exact ⟨h1, h2, rfl, rfl⟩
  -- b–d was absent, so no present cell of the old matrix is b–d
  have absent : ∀ x y : Fin n, s.R.toFun x y = 1 → ¬ (x = s.jv it ∧ y = d) ∧ ¬ (x = d ∧ y = s.jv it) := by
    intro x y hxy
    refine ⟨fun hh => ?_, fun hh => ?_⟩
    · rw [hh.1, hh.2, gbd] at hxy; exact absurd hxy (by decide)
    · rw [hh.1, hh.2, gdb] at hxy; exact absurd hxy (by decide)
  refine ⟨?_, ?_, ?_, ?_⟩
  · rw [hR]; exact swapBinF_wm _ _ _ _ _ hw g
  · intro v; rw [hR, swapBinF_row _ _ _ _ _ hw g]; exact h.deg v
  · intro m hm
    rw [hR]
    rcases cls m (hne m hm) with ⟨_, ei, ej⟩ | ⟨_, ei, ej⟩ | ⟨n1, n2, ei, ej⟩
    · rw [ei, ej]; exact newbd
    · rw [ei, ej]; exact newdb
    · rw [ei, ej]; exact keep m hm n1 n2
  · intro m m' hm hm' hmm
    have hd := h.distinct m m' (by omega) (by omega) hmm
    have hp := absent _ _ (h.present m (by omega))
    have hp' := absent _ _ (h.present m' (by omega))
    rcases cls m (hne m hm) with ⟨p, ei, ej⟩ | ⟨p, ei, ej⟩ | ⟨n1, n2, ei, ej⟩ <;>
    rcases cls m' (hne m' hm') with ⟨p', ei', ej'⟩ | ⟨p', ei', ej'⟩ | ⟨n1', n2', ei', ej'⟩ <;>
    rw [ei, ej, ei', ej']
    · exact absurd ⟨p.1.trans p'.1.symm, p.2.trans p'.2.symm⟩ hd.1
    · exact absurd ⟨p.1.trans p'.2.symm, p.2.trans p'.1.symm⟩ hd.2
    · exact ⟨fun hh => hp'.1 ⟨hh.1.symm, hh.2.symm⟩, fun hh => hp'.2 ⟨hh.2.symm, hh.1.symm⟩⟩
    · exact absurd ⟨p.1.trans p'.2.symm, p.2.trans p'.1.symm⟩ hd.2
    · exact absurd ⟨p.1.trans p'.1.symm, p.2.trans p'.2.symm⟩ hd.1
    · exact ⟨fun hh => hp'.2 ⟨hh.1.symm, hh.2.symm⟩, fun hh => hp'.1 ⟨hh.2.symm, hh.1.symm⟩⟩
    · exact ⟨fun hh => hp.1 hh, fun hh => hp.2 hh⟩
    · exact ⟨fun hh => hp.2 hh, fun hh => hp.1 hh⟩
    · exact hd

/-! ### the candidate search yields a valid guard -/

theorem mem_holes (R : AMat Int n) (a b x : Fin n) (h : x ∈ holes R a b) :
    x ≠ a ∧ R.toFun x a = 0 ∧ x ≠ b ∧ R.toFun x b = 0 := by
  simp only [holes, List.mem_filter, List.mem_finRange, true_and, Bool.and_eq_true, is0, bne_iff_ne, ne_eq,
    beq_iff_eq] at h
  exact ⟨h.1.1, h.1.2, h.2.1, h.2.2⟩

theorem mem_mates (R : AMat Int n) (H : List (Fin n)) (p : Fin n × Fin n) (h : p ∈ mates R H) :
    p.1 ∈ H ∧ p.2 ∈ H ∧ p.1 ≠ p.2 ∧ R.toFun p.1 p.2 = 1 := by
  simp only [mates, List.mem_flatMap, List.mem_map, List.mem_filter, is1, Bool.and_eq_true, bne_iff_ne, ne_eq,
    beq_iff_eq] at h
  obtain ⟨x, hx, y, ⟨hy, hne, h1⟩, rfl⟩ := h
  exact ⟨hx, hy, hne, h1⟩

theorem guard_of_mate (R : AMat Int n) (hw : WM R.toFun) (a b : Fin n) (hab : R.toFun a b = 1)
    (p : Fin n × Fin n) (hp : p ∈ mates R (holes R a b)) :
    Guard R.toFun a b p.1 p.2 ∧ Guard R.toFun a b p.2 p.1 := by
  obtain ⟨h1, h2, hne, hone⟩ := mem_mates R _ p hp
  obtain ⟨c1, c2, c3, c4⟩ := mem_holes R a b p.1 h1
  obtain ⟨d1, d2, d3, d4⟩ := mem_holes R a b p.2 h2
  have hab' : a ≠ b := by
    intro hh; rw [hh, hw.zd] at hab; exact absurd hab (by decide)
  refine ⟨⟨hab, hone, ?_, ?_, hab', c1.symm, d1.symm, c3.symm, d3.symm, hne⟩,
          ⟨hab, ?_, ?_, ?_, hab', d1.symm, c1.symm, d3.symm, c3.symm, hne.symm⟩⟩
  · rw [hw.sym]; exact c2
  · rw [hw.sym]; exact d4
  · rw [hw.sym]; exact hone
  · rw [hw.sym]; exact d2
  · rw [hw.sym]; exact c4

/-! ### one iteration and the whole sweep -/

theorem sweepStep_inv (R0 : Mat n) (num den : ℕ) (s s' : RandBin.St n k) (it : Fin k) (ds ds' : List ℕ)
    (hrun : sweepStep num den s it ds = .ok (s', ds')) (h : SwInv R0 s it.val) :
    SwInv R0 s' (it.val + 1) := by
  unfold sweepStep at hrun
  match ds, hrun with
  | u :: ds1, hrun =>
    simp only at hrun
    split at hrun
    · simp only [Except.ok.injEq, Prod.mk.injEq] at hrun
      rw [← hrun.1]; exact h.mono (by omega)
    · split at hrun
      · simp only [Except.ok.injEq, Prod.mk.injEq] at hrun
        rw [← hrun.1]; exact h.mono (by omega)
      · match ds1, hrun with
        | x :: cn :: ds2, hrun =>
          simp only at hrun
          split at hrun
          · rename_i hx
            simp only [Except.ok.injEq, Prod.mk.injEq] at hrun
            rw [← hrun.1]
            have hmem : (mates s.R (holes s.R s.i[it] s.j[it]))[x] ∈ mates s.R (holes s.R s.i[it] s.j[it]) :=
              List.getElem_mem _
            have g := guard_of_mate s.R h.wm (s.iv it) (s.jv it) (h.present it (le_refl _)) _ hmem
            by_cases hc : coin cn = true
            · simp only [hc, if_true]
              exact applySwap_inv R0 s it _ _ h g.1
            · simp only [hc]
              exact applySwap_inv R0 s it _ _ h g.2
          · cases hrun

theorem sweep_inv (R0 : Mat n) (num den : ℕ) : ∀ (its : List (Fin k)) (t : ℕ) (s s' : RandBin.St n k) (ds ds' : List ℕ),
    its.Pairwise (· < ·) → (∀ x ∈ its, t ≤ x.val) →
    sweep num den its s ds = .ok (s', ds') → SwInv R0 s t → ∃ t', SwInv R0 s' t' := by
  intro its
  induction its with
  | nil =>
    intro t s s' ds ds' _ _ hrun h
    simp only [sweep, Except.ok.injEq, Prod.mk.injEq] at hrun
    rw [← hrun.1]; exact ⟨t, h⟩
  | cons it its ih =>
    intro t s s' ds ds' hpw hge hrun h
    rw [List.pairwise_cons] at hpw
    simp only [sweep, bind, Except.bind] at hrun
    cases hst : sweepStep num den s it ds with
    | error e => simp [hst] at hrun
    | ok r =>
      obtain ⟨s1, ds1⟩ := r
      simp only [hst] at hrun
      have h1 := sweepStep_inv R0 num den s s1 it ds ds1 hst (h.mono (hge it List.mem_cons_self))
      exact ih (it.val + 1) s1 s' ds1 ds' hpw.2
        (fun x hx => by have := hpw.1 x hx; exact Nat.succ_le_of_lt this) hrun h1

/-! ### the initial state -/

theorem mem_edgeCells (R : AMat Int n) (p : Fin n × Fin n) (hp : p ∈ RandBin.edgeCells R) :
    R.toFun p.1 p.2 ≠ 0 ∧ p.1.val < p.2.val := by
  simp only [RandBin.edgeCells, List.mem_flatMap, List.mem_map, List.mem_filter, List.mem_finRange, true_and] at hp
  obtain ⟨i, j, hj, rfl⟩ := hp
  simp only [Bool.and_eq_true, bne_iff_ne, ne_eq, decide_eq_true_eq] at hj
  exact ⟨hj.2, hj.1⟩

theorem nodup_edgeCells (R : AMat Int n) : (RandBin.edgeCells R).Nodup := by
  unfold RandBin.edgeCells
  rw [List.nodup_flatMap]
  refine ⟨?_, ?_⟩
  · intro i _
    refine List.Nodup.map ?_ ((List.nodup_finRange n).filter _)
    intro x y h; simpa using h
  · refine List.Pairwise.imp_of_mem ?_ (List.nodup_finRange n)
    intro i i' _ _ hne
    simp only [Function.onFun]
    rw [List.disjoint_left]
    intro p hp hp'
    simp only [List.mem_map] at hp hp'
    obtain ⟨_, _, rfl⟩ := hp
    obtain ⟨_, _, h⟩ := hp'
    exact hne (by simpa using (congrArg Prod.fst h).symm)

theorem mkState_inv (R : AMat Int n) (hw : WM R.toFun) :
    SwInv R.toFun (RandBin.mkState R (RandBin.edgeCells R).toArray) 0 := by
  have hmem : ∀ e : Fin (RandBin.edgeCells R).toArray.size,
      ((RandBin.edgeCells R).toArray[e]) ∈ RandBin.edgeCells R := by
    intro e
    have : (RandBin.edgeCells R).toArray[e] = (RandBin.edgeCells R)[e.val]'(by simpa using e.isLt) := by simp
    rw [this]; exact List.getElem_mem _
  have hinj : ∀ e e' : Fin (RandBin.edgeCells R).toArray.size,
      (RandBin.edgeCells R).toArray[e] = (RandBin.edgeCells R).toArray[e'] → e = e' := by
    intro e e' h
    have h1 : (RandBin.edgeCells R).toArray[e] = (RandBin.edgeCells R)[e.val]'(by simpa using e.isLt) := by simp
    have h2 : (RandBin.edgeCells R).toArray[e'] = (RandBin.edgeCells R)[e'.val]'(by simpa using e'.isLt) := by simp
    rw [h1, h2] at h
    exact Fin.ext ((List.Nodup.getElem_inj_iff (nodup_edgeCells R)).mp h)
  have iv_eq : ∀ e, (RandBin.mkState R (RandBin.edgeCells R).toArray).iv e = ((RandBin.edgeCells R).toArray[e]).1 := by
    intro e; simp [RandBin.St.iv, RandBin.mkState]
  have jv_eq : ∀ e, (RandBin.mkState R (RandBin.edgeCells R).toArray).jv e = ((RandBin.edgeCells R).toArray[e]).2 := by
    intro e; simp [RandBin.St.jv, RandBin.mkState]
  refine ⟨hw, fun _ => rfl, ?_, ?_⟩
  · intro m _
    rw [iv_eq, jv_eq]
    exact (hw.ne_zero_iff _ _).mp (mem_edgeCells R _ (hmem m)).1
  · intro m m' _ _ hne
    rw [iv_eq, jv_eq, iv_eq, jv_eq]
    refine ⟨fun hh => hne (hinj m m' (Prod.ext hh.1 hh.2)), fun hh => ?_⟩
    have a1 := (mem_edgeCells R _ (hmem m)).2
    have a2 := (mem_edgeCells R _ (hmem m')).2
    rw [hh.1, hh.2] at a1
    omega

end Bct.RandBinSweep
