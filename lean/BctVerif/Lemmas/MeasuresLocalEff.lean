import BctVerif.Lemmas.MeasuresDistX
import BctVerif.Lemmas.MeasuresCluster
import BctVerif.Model.LocalEff
import Mathlib.Data.List.NodupEquivFin
/-!
# Local efficiency (`efficiency_bin/efficiency_wei(local=True)`, executable model `Model/LocalEff.lean`) is equivariant

The neighbourhood of `u` in the renumbered graph is listed in another order; `nbrEquiv` is the bijection between the positions
of the two lists, the sub-graph distance matrices correspond along it (uniqueness of `IsDist`), and `LocalEff.core` is a sum
over positions.
-/
namespace Bct.Measures
open Bct Bct.Dist Bct.LocalEff

variable {n k k' : Nat}

/-! ### transport of the distance specification along a bijection of the index sets -/

def pullM {α : Type} (τ : Fin k' ≃ Fin k) (L : Fin k → Fin k → α) : Fin k' → Fin k' → α := fun a b => L (τ a) (τ b)

theorem walkEnd_mapE (τ : Fin k' ≃ Fin k) (i : Fin k') (p : List (Fin k')) : walkEnd (τ i) (p.map τ) = τ (walkEnd i p) := by
  induction p generalizing i with
  | nil => rfl
  | cons a p ih => simp [walkEnd, ih]

theorem walkLen_mapE (τ : Fin k' ≃ Fin k) (L : LMat k) (i : Fin k') (p : List (Fin k')) :
    walkLen L (τ i) (p.map τ) = walkLen (pullM τ L) i p := by
  induction p generalizing i with
  | nil => rfl
  | cons a p ih => simp [walkLen, ih, pullM]

theorem isDist_equiv (τ : Fin k' ≃ Fin k) {L D : LMat k} (h : IsDist L D) : IsDist (pullM τ L) (pullM τ D) := by
  constructor
  · intro i p
    have := h.lower (τ i) (p.map τ)
    rw [walkEnd_mapE, walkLen_mapE] at this
    exact this
  · intro i j hfin
    obtain ⟨q, hq, hl⟩ := h.attained (τ i) (τ j) hfin
    refine ⟨q.map τ.symm, ?_, ?_⟩
    · have := walkEnd_mapE τ.symm (τ i) q
      simp only [Equiv.symm_apply_apply] at this
      rw [this, hq]; simp
    · have := walkLen_mapE τ L i (q.map τ.symm)
      simp only [List.map_map, Equiv.self_comp_symm, List.map_id] at this
      rw [← this, hl]; rfl

/-! ### `LocalEff.core` is a sum over positions -/

theorem ksum_equiv (τ : Fin k' ≃ Fin k) (f : Fin k → Rat) : ksum (fun a => f (τ a)) = ksum f := by
  unfold ksum
  rw [← Fin.sum_univ_def, ← Fin.sum_univ_def]
  exact Equiv.sum_comp τ f

theorem invCell_equiv (τ : Fin k' ≃ Fin k) (D : AMat Ext k) (D' : AMat Ext k') (hD : ∀ a b, D'.get a b = D.get (τ a) (τ b))
    (a b : Fin k') : invCell D' a b = invCell D (τ a) (τ b) := by
  simp only [invCell, hD, τ.apply_eq_iff_eq]

theorem finiteInv_equiv (τ : Fin k' ≃ Fin k) (D : AMat Ext k) (D' : AMat Ext k') (hD : ∀ a b, D'.get a b = D.get (τ a) (τ b)) :
    finiteInv D' = finiteInv D := by
  rw [Bool.eq_iff_iff]
  simp only [finiteInv, List.all_eq_true, List.mem_finRange, true_implies, Bool.or_eq_true, decide_eq_true_eq]
  constructor
  · intro h a b
    have := h (τ.symm a) (τ.symm b)
    simpa [hD] using this
  · intro h a b
    have := h (τ a) (τ b)
    simpa [hD] using this

theorem core_equiv (τ : Fin k' ≃ Fin k) (s w : Fin k → Rat) (D : AMat Ext k) (D' : AMat Ext k')
    (hD : ∀ a b, D'.get a b = D.get (τ a) (τ b)) :
    core (fun a => s (τ a)) (fun a => w (τ a)) D' = core s w D := by
  simp only [core, finiteInv_equiv τ D D' hD, invCell_equiv τ D D' hD]
  have h1 : (ksum fun a => ksum fun b => s (τ a) * s (τ b) * (invCell D (τ a) (τ b) + invCell D (τ b) (τ a))) =
      ksum fun a => ksum fun b => s a * s b * (invCell D a b + invCell D b a) := by
    rw [← ksum_equiv τ (fun a => ksum fun b => s a * s b * (invCell D a b + invCell D b a))]
    congr 1; funext a
    exact ksum_equiv τ (fun b => s (τ a) * s b * (invCell D (τ a) b + invCell D b (τ a)))
  have h2 : ksum (fun a => w (τ a)) = ksum w := ksum_equiv τ w
  have h3 : (ksum fun a => w (τ a) * w (τ a)) = ksum fun a => w a * w a := ksum_equiv τ (fun a => w a * w a)
  rw [h1, h2, h3]

/-! ### the bijection between the two neighbour lists -/

variable (σ : Equiv.Perm (Fin n))

/-- position `a` of the neighbour list of the renumbered graph ↦ position of the node it stands for in the original list -/
def nbrEquiv (V' V : List (Fin n)) (hV' : V'.Nodup) (hV : V.Nodup) (h : ∀ j, j ∈ V' ↔ σ j ∈ V) : Fin V'.length ≃ Fin V.length :=
  (hV'.getEquiv V').trans ((σ.subtypeEquiv h).trans (hV.getEquiv V).symm)

theorem nbrEquiv_get (V' V : List (Fin n)) (hV' : V'.Nodup) (hV : V.Nodup) (h : ∀ j, j ∈ V' ↔ σ j ∈ V) (a : Fin V'.length) :
    V.get (nbrEquiv σ V' V hV' hV h a) = σ (V'.get a) := by
  have e := (hV.getEquiv V).apply_symm_apply ((σ.subtypeEquiv h) ((hV'.getEquiv V') a))
  have e2 := congrArg Subtype.val e
  simpa [nbrEquiv] using e2

theorem nbrs_nodup (G : AMat Rat n) (u : Fin n) : (nbrs G u).Nodup := (List.nodup_finRange n).filter _

theorem nbrs_perm_mem (G : AMat Rat n) (u j : Fin n) : j ∈ nbrs (permA σ G) u ↔ σ j ∈ nbrs G (σ u) := by
  simp [nbrs]

/-- sub-matrix, link vector of the renumbered graph in terms of the original ones -/
theorem subMat_perm (G X : AMat Rat n) (u : Fin n) (a b : Fin (nbrs (permA σ G) u).length) :
    (subMat (permA σ X) (nbrs (permA σ G) u)).get a b =
      (subMat X (nbrs G (σ u))).get
        (nbrEquiv σ _ _ (nbrs_nodup _ u) (nbrs_nodup G (σ u)) (nbrs_perm_mem σ G u) a)
        (nbrEquiv σ _ _ (nbrs_nodup _ u) (nbrs_nodup G (σ u)) (nbrs_perm_mem σ G u) b) := by
  simp only [subMat, AMat.get_ofFn, permA_get, nbrEquiv_get]

theorem links_perm (G X : AMat Rat n) (u : Fin n) :
    links (permA σ X) u (nbrs (permA σ G) u) =
      fun a => links X (σ u) (nbrs G (σ u)) (nbrEquiv σ _ _ (nbrs_nodup _ u) (nbrs_nodup G (σ u)) (nbrs_perm_mem σ G u) a) := by
  funext a
  simp only [links, permA_get, nbrEquiv_get]

/-- two distance matrices of corresponding sub-graphs correspond -/
theorem subDist_perm {kk kk' : Nat} (τ : Fin kk' ≃ Fin kk) {L : LMat kk} {L' : LMat kk'} (hL : L' = pullM τ L)
    (D : AMat Ext kk) (D' : AMat Ext kk') (h : IsDist L (lenFun D)) (h' : IsDist L' (lenFun D')) (a b : Fin kk') :
    D'.get a b = D.get (τ a) (τ b) := by
  subst hL
  have e := isDist_unique _ _ _ h' (isDist_equiv τ h)
  exact Ext.toLen_injective (congrFun (congrFun e a) b)

/-! ### the two routines -/

theorem effBinOn_perm (B : AMat Rat n) (u : Fin n) : effBinOn (permA σ B) u = effBinOn B (σ u) := by
  obtain ⟨D, hD⟩ := C03.distBin_total (subMat B (nbrs B (σ u)))
  obtain ⟨D', hD'⟩ := C03.distBin_total (subMat (permA σ B) (nbrs (permA σ B) u))
  have hcell := subDist_perm (nbrEquiv σ _ _ (nbrs_nodup _ u) (nbrs_nodup B (σ u)) (nbrs_perm_mem σ B u))
    (L := hopLen (subMat B (nbrs B (σ u)))) (L' := hopLen (subMat (permA σ B) (nbrs (permA σ B) u)))
    (by funext a b; simp only [hopLen, pullM, subMat_perm σ B B u]) D D'
    (C03.distBin_isDist _ D hD) (C03.distBin_isDist _ D' hD')
  unfold effBinOn
  simp only [hD, hD', links_perm σ B B u]
  exact core_equiv (nbrEquiv σ _ _ (nbrs_nodup _ u) (nbrs_nodup B (σ u)) (nbrs_perm_mem σ B u))
    (links B (σ u) (nbrs B (σ u))) (links B (σ u) (nbrs B (σ u))) D D' hcell

theorem localEffBin_perm (G : AMat Rat n) : localEffBin (permA σ G) = permVec σ (localEffBin G) := by
  apply vec_ext; intro u
  simp only [localEffBin, effBinNode, vget_ofFn, permVec_get, adj_perm]
  exact effBinOn_perm σ (Cluster.adj G) u

theorem effWeiNode_perm (W R : AMat Rat n) (hR : C03.NonNeg R) (u : Fin n) :
    effWeiNode (permA σ W) (permA σ R) u = effWeiNode W R (σ u) := by
  obtain ⟨D, B, hD⟩ := C03.dijkstra_total (lenMat .inv (subMat R (nbrs W (σ u))))
  obtain ⟨D', B', hD'⟩ := C03.dijkstra_total (lenMat .inv (subMat (permA σ R) (nbrs (permA σ W) u)))
  have hsub : C03.NonNeg (subMat R (nbrs W (σ u))) := by
    intro a b; simp only [subMat, AMat.get_ofFn]; exact hR _ _
  have hsub' : C03.NonNeg (subMat (permA σ R) (nbrs (permA σ W) u)) := by
    intro a b; simp only [subMat, AMat.get_ofFn, permA_get]; exact hR _ _
  have hcell := subDist_perm (nbrEquiv σ _ _ (nbrs_nodup _ u) (nbrs_nodup W (σ u)) (nbrs_perm_mem σ W u))
    (L := lenFun (lenMat .inv (subMat R (nbrs W (σ u))))) (L' := lenFun (lenMat .inv (subMat (permA σ R) (nbrs (permA σ W) u))))
    (by funext a b; simp only [lenFun, lenMat, AMat.get_ofFn, pullM, subMat_perm σ W R u]) D D'
    (C03.dijkstra_isDist .inv _ hsub D B hD) (C03.dijkstra_isDist .inv _ hsub' D' B' hD')
  unfold effWeiNode
  simp only [hD, hD', adj_perm, links_perm σ W R u, links_perm σ W (Cluster.adj W) u]
  exact core_equiv (nbrEquiv σ _ _ (nbrs_nodup _ u) (nbrs_nodup W (σ u)) (nbrs_perm_mem σ W u))
    (links R (σ u) (nbrs W (σ u))) (links (Cluster.adj W) (σ u) (nbrs W (σ u))) D D' hcell

theorem localEffWei_perm (W R : AMat Rat n) (hR : C03.NonNeg R) :
    localEffWei (permA σ W) (permA σ R) = permVec σ (localEffWei W R) := by
  apply vec_ext; intro u
  simp only [localEffWei, vget_ofFn, permVec_get]
  exact effWeiNode_perm σ W R hR u

end Bct.Measures
