import BctVerif.Lemmas.BetweenDep
import Mathlib.Data.Fintype.BigOperators

/-!
# Double counting: node / connection counts of minimum-length walks (C08)
-/
namespace Bct.Between
open Bct

variable {n : ℕ} (L : AMat Nat n)

/-- the connections used by a walk, in order -/
def edgesOf : Fin n → List (Fin n) → List (Fin n × Fin n)
  | _, [] => []
  | s, v :: p => (s, v) :: edgesOf v p

theorem edgesOf_map_snd (s : Fin n) (p : List (Fin n)) : (edgesOf s p).map Prod.snd = p := by
  induction p generalizing s with
  | nil => rfl
  | cons v p ih => simp [edgesOf, ih]

theorem edgesOf_length (s : Fin n) (p : List (Fin n)) : (edgesOf s p).length = p.length := by
  have := congrArg List.length (edgesOf_map_snd s p)
  simpa using this

theorem edgesOf_nodup (s : Fin n) {p : List (Fin n)} (h : p.Nodup) : (edgesOf s p).Nodup :=
  List.Nodup.of_map Prod.snd (by rw [edgesOf_map_snd]; exact h)

theorem mem_edgesOf (s u w : Fin n) (p : List (Fin n)) :
    (u, w) ∈ edgesOf s p ↔ ∃ p1 p2, p = p1 ++ w :: p2 ∧ wend s p1 = u := by
  induction p generalizing s with
  | nil => simp [edgesOf]
  | cons v p ih =>
    simp only [edgesOf, List.mem_cons, Prod.mk.injEq, ih]
    constructor
    · rintro (⟨rfl, rfl⟩ | ⟨p1, p2, rfl, h⟩)
      · exact ⟨[], p, rfl, rfl⟩
      · exact ⟨v :: p1, p2, rfl, h⟩
    · rintro ⟨p1, p2, h, hu⟩
      cases p1 with
      | nil =>
        simp only [List.nil_append, List.cons.injEq] at h
        left; exact ⟨hu.symm, h.1.symm⟩
      | cons y p1 =>
        simp only [List.cons_append, List.cons.injEq] at h
        right; exact ⟨p1, p2, h.2, by rw [h.1]; exact hu⟩

theorem sigmaV_eq_card_filter (s t v : Fin n) :
    sigmaV (dist L) (sigma L) s t v = ((minWF L n s t).filter fun p => v ∈ s :: p).card := by
  rw [← ncard_throughV, ← Set.ncard_coe_finset]
  congr 1
  ext p
  simp only [ThroughV, Set.mem_ofPred_eq, Finset.coe_filter, mem_minWF]
  exact ⟨fun h => ⟨⟨h.1, h.1.length_lt L⟩, h.2⟩, fun h => ⟨h.1.1, h.2⟩⟩

theorem sigmaE_eq_card_filter (s t u w : Fin n) :
    sigmaE L (dist L) (sigma L) s t u w =
      ((minWF L n s t).filter fun p => (u, w) ∈ edgesOf s p).card := by
  rw [← ncard_throughE, ← Set.ncard_coe_finset]
  congr 1
  ext p
  simp only [ThroughE, Set.mem_ofPred_eq, Finset.coe_filter, mem_minWF, mem_edgesOf]
  exact ⟨fun h => ⟨⟨h.1, h.1.length_lt L⟩, h.2⟩, fun h => ⟨h.1.1, h.2⟩⟩

/-- total number of steps of all minimum-length walks from `s` to `t` -/
def hops (s t : Fin n) : ℕ := ∑ p ∈ minWF L n s t, p.length

/-- interior vertices: each minimum-length walk from `s` to `t ≠ s` has `length - 1` of them -/
theorem node_count (s t : Fin n) (hst : s ≠ t) :
    (∑ v, if s ≠ v ∧ t ≠ v then sigmaV (dist L) (sigma L) s t v else 0) + (sigma L).get s t =
      hops L s t := by
  have hσ : (sigma L).get s t = ∑ p ∈ minWF L n s t, 1 := by
    rw [sigma_eq_ncard, minW_eq_minWF, Set.ncard_coe_finset]; simp
  simp_rw [sigmaV_eq_card_filter, Finset.card_filter]
  have : (∑ v : Fin n, if s ≠ v ∧ t ≠ v then ∑ p ∈ minWF L n s t, (if v ∈ s :: p then 1 else 0) else 0) =
      ∑ p ∈ minWF L n s t, ∑ v : Fin n, if s ≠ v ∧ t ≠ v ∧ v ∈ s :: p then 1 else 0 := by
    rw [Finset.sum_comm]
    refine Finset.sum_congr rfl fun v _ => ?_
    by_cases h : s ≠ v ∧ t ≠ v
    · rw [if_pos h]
      refine Finset.sum_congr rfl fun p _ => ?_
      by_cases hv : v ∈ s :: p
      · rw [if_pos hv, if_pos ⟨h.1, h.2, hv⟩]
      · rw [if_neg hv, if_neg (fun h' => hv h'.2.2)]
    · rw [if_neg h]
      symm
      refine Finset.sum_eq_zero fun p _ => ?_
      rw [if_neg]
      rintro ⟨h1, h2, _⟩; exact h ⟨h1, h2⟩
  rw [this, hσ, ← Finset.sum_add_distrib, hops]
  refine Finset.sum_congr rfl fun p hp => ?_
  have hm := ((mem_minWF L n s t p).1 hp).1
  have hnd := hm.nodup L
  have hsp : s ∉ p := (List.nodup_cons.1 hnd).1
  have hpn : p.Nodup := (List.nodup_cons.1 hnd).2
  have hpne : p ≠ [] := by
    rintro rfl
    exact hst hm.2.1
  have htp : t ∈ p := by
    have := wend_mem_of_ne_nil s p hpne
    rwa [hm.2.1] at this
  have hset : (Finset.univ.filter fun v : Fin n => s ≠ v ∧ t ≠ v ∧ v ∈ s :: p) = p.toFinset.erase t := by
    ext v
    simp only [Finset.mem_filter, Finset.mem_univ, true_and, List.mem_cons, Finset.mem_erase,
      List.mem_toFinset]
    constructor
    · rintro ⟨h1, h2, h3 | h3⟩
      · exact absurd h3.symm h1
      · exact ⟨fun e => h2 e.symm, h3⟩
    · rintro ⟨h1, h2⟩
      exact ⟨fun e => hsp (e ▸ h2), fun e => h1 e.symm, Or.inr h2⟩
  rw [← Finset.card_filter, hset, Finset.card_erase_of_mem (List.mem_toFinset.2 htp),
    List.toFinset_card_of_nodup hpn]
  have : 0 < p.length := List.length_pos_of_ne_nil hpne
  omega

/-- connections: each minimum-length walk uses `length` distinct connections -/
theorem edge_count (s t : Fin n) :
    ∑ u, ∑ w, sigmaE L (dist L) (sigma L) s t u w = hops L s t := by
  simp_rw [sigmaE_eq_card_filter, Finset.card_filter]
  rw [← Fintype.sum_prod_type' (f := fun u w => ∑ p ∈ minWF L n s t, if (u, w) ∈ edgesOf s p then 1 else 0)]
  rw [Finset.sum_comm, hops]
  refine Finset.sum_congr rfl fun p hp => ?_
  have hm := ((mem_minWF L n s t p).1 hp).1
  have hpn : p.Nodup := (List.nodup_cons.1 (hm.nodup L)).2
  rw [← Finset.card_filter]
  have : (Finset.univ.filter fun x : Fin n × Fin n => (x.1, x.2) ∈ edgesOf s p) = (edgesOf s p).toFinset := by
    ext x; simp
  rw [this, List.toFinset_card_of_nodup (edgesOf_nodup s hpn), edgesOf_length]

theorem wlen_eq_length (hbin : ∀ i j, L.get i j ≤ 1) {s : Fin n} {p : List (Fin n)} (h : IsWalk L s p) :
    wlen L s p = p.length := by
  induction p generalizing s with
  | nil => rfl
  | cons v p ih =>
    obtain ⟨h1, h2⟩ := h
    have := hbin s v
    simp only [wlen_cons, List.length_cons, ih h2]
    omega

/-- on a binary graph every minimum-length walk has exactly `d s t` steps -/
theorem hops_bin (hbin : ∀ i j, L.get i j ≤ 1) {s t : Fin n} {d : ℕ} (hd : (dist L).get s t = some d) :
    hops L s t = (sigma L).get s t * d := by
  have hσ : (sigma L).get s t = (minWF L n s t).card := by
    rw [sigma_eq_ncard, minW_eq_minWF, Set.ncard_coe_finset]
  rw [hops, hσ, ← smul_eq_mul, ← Finset.sum_const]
  refine Finset.sum_congr rfl fun p hp => ?_
  have hm := ((mem_minWF L n s t p).1 hp).1
  rw [← wlen_eq_length L hbin hm.1]
  exact hm.wlen_eq L hd

end Bct.Between

namespace Bct.Between
open Bct

variable {n : ℕ} (L : AMat Nat n)

theorem pair_node_sum_bin (hbin : ∀ i j, L.get i j ≤ 1) {s t : Fin n} {d : ℕ} (hst : s ≠ t)
    (hd : (dist L).get s t = some d) : ∑ v, pairV (dist L) (sigma L) s t v = (d : ℚ) - 1 := by
  have hr : reach (dist L) s t = true := reach_iff.2 ⟨d, hd⟩
  have hσ := sigma_ne_zero_of_reach L hr
  have h1 : ∀ v, pairV (dist L) (sigma L) s t v =
      ((if s ≠ v ∧ t ≠ v then sigmaV (dist L) (sigma L) s t v else 0 : ℕ) : ℚ) / ((sigma L).get s t : ℚ) := by
    intro v
    by_cases h : s ≠ v ∧ t ≠ v
    · simp [pairV, hst, h.1, h.2, hr]
    · have : ¬ (s ≠ t ∧ s ≠ v ∧ t ≠ v ∧ reach (dist L) s t = true) := fun h' => h ⟨h'.2.1, h'.2.2.1⟩
      simp only [pairV, this, if_false, h]
      simp
  simp_rw [h1]
  rw [← Finset.sum_div]
  have h2 := node_count L s t hst
  rw [hops_bin L hbin hd] at h2
  have h3 : ((∑ v, if s ≠ v ∧ t ≠ v then sigmaV (dist L) (sigma L) s t v else 0 : ℕ) : ℚ) +
      ((sigma L).get s t : ℚ) = ((sigma L).get s t : ℚ) * (d : ℚ) := by exact_mod_cast h2
  push_cast at h3 ⊢
  field_simp
  linarith [h3]

theorem pair_edge_sum_bin (hbin : ∀ i j, L.get i j ≤ 1) {s t : Fin n} {d : ℕ} (hst : s ≠ t)
    (hd : (dist L).get s t = some d) :
    ∑ u, ∑ w, pairE L (dist L) (sigma L) s t u w = (d : ℚ) := by
  have hr : reach (dist L) s t = true := reach_iff.2 ⟨d, hd⟩
  have hσ := sigma_ne_zero_of_reach L hr
  have h1 : ∀ u w, pairE L (dist L) (sigma L) s t u w =
      (sigmaE L (dist L) (sigma L) s t u w : ℚ) / ((sigma L).get s t : ℚ) := by
    intro u w; simp [pairE, hst, hr]
  simp_rw [h1]
  simp_rw [← Finset.sum_div]
  have h2 := edge_count L s t
  rw [hops_bin L hbin hd] at h2
  have h3 : ((∑ u, ∑ w, sigmaE L (dist L) (sigma L) s t u w : ℕ) : ℚ) =
      ((sigma L).get s t : ℚ) * (d : ℚ) := by exact_mod_cast h2
  push_cast at h3
  rw [h3]
  field_simp

theorem pairV_eq_zero_of_not {s t : Fin n} (h : ¬ (s ≠ t ∧ reach (dist L) s t = true)) (v : Fin n) :
    pairV (dist L) (sigma L) s t v = 0 := by
  simp only [pairV]
  rw [if_neg]
  rintro ⟨h1, _, _, h4⟩; exact h ⟨h1, h4⟩

theorem pairE_eq_zero_of_not {s t : Fin n} (h : ¬ (s ≠ t ∧ reach (dist L) s t = true)) (u w : Fin n) :
    pairE L (dist L) (sigma L) s t u w = 0 := by
  simp only [pairE]
  rw [if_neg h]

end Bct.Between
