import BctVerif.Lemmas.MeasuresPermList
import BctVerif.Props.C03
/-!
# The distance routines (executable models of the C03 slice) are equivariant

The specification `IsDist L D` (minimum walk length, `⊤` iff unreachable) is transported by a renumbering
(`isDist_perm`); since it determines `D` (`isDist_unique`), the outputs of `floyd`, `dijkstra`, `distBin`,
`breadthdist` and `reachdist` for the renumbered graph are the renumbered outputs.  The global efficiencies and
`charpath` are means over a list of cells that is permuted.
-/
namespace Bct.Measures
open Bct Bct.Dist

variable {n : Nat} (σ : Equiv.Perm (Fin n))

/-- renumbering of a function-valued matrix -/
def permM {α : Type} (σ : Equiv.Perm (Fin n)) (L : Fin n → Fin n → α) : Fin n → Fin n → α := fun i j => L (σ i) (σ j)

theorem walkEnd_map (i : Fin n) (p : List (Fin n)) : walkEnd (σ i) (p.map σ) = σ (walkEnd i p) := by
  induction p generalizing i with
  | nil => rfl
  | cons a p ih => simp [walkEnd, ih]

theorem walkLen_map (L : LMat n) (i : Fin n) (p : List (Fin n)) :
    walkLen L (σ i) (p.map σ) = walkLen (permM σ L) i p := by
  induction p generalizing i with
  | nil => rfl
  | cons a p ih => simp [walkLen, ih, permM]

/-- the distance specification is transported by a renumbering -/
theorem isDist_perm {L D : LMat n} (h : IsDist L D) : IsDist (permM σ L) (permM σ D) := by
  constructor
  · intro i p
    have := h.lower (σ i) (p.map σ)
    rw [walkEnd_map, walkLen_map] at this
    exact this
  · intro i j hfin
    obtain ⟨q, hq, hl⟩ := h.attained (σ i) (σ j) hfin
    refine ⟨q.map σ.symm, ?_, ?_⟩
    · have := walkEnd_map σ.symm (σ i) q
      simp only [Equiv.symm_apply_apply] at this
      rw [this, hq]; simp
    · have := walkLen_map σ L i (q.map σ.symm)
      simp only [List.map_map, Equiv.self_comp_symm, List.map_id] at this
      rw [← this, hl]; rfl

theorem lenFun_perm (A : AMat Ext n) : lenFun (permA σ A) = permM σ (lenFun A) := by
  funext i j; simp [lenFun, permM]

theorem lenMat_perm (tr : Transform) (A : AMat Rat n) : lenMat tr (permA σ A) = permA σ (lenMat tr A) := by
  apply AMat.ext_get; intro i j; simp [lenMat]

theorem hopLen_perm (A : AMat Rat n) : hopLen (permA σ A) = permM σ (hopLen A) := by
  funext i j; simp [hopLen, permM]

theorem nonNeg_perm {A : AMat Rat n} (h : C03.NonNeg A) : C03.NonNeg (permA σ A) := by
  intro i j; simpa using h (σ i) (σ j)

/-- two `Ext` matrices with the same function view are equal -/
theorem ext_of_lenFun {X Y : AMat Ext n} (h : lenFun X = lenFun Y) : X = Y := by
  apply AMat.ext_get; intro i j
  exact Ext.toLen_injective (congrFun (congrFun h i) j)

/-- generic step: if `D'` is the distance matrix of the renumbered lengths and `D` of the original ones, `D' = permA σ D` -/
theorem dist_unique_perm {L : LMat n} {D D' : AMat Ext n} (h' : IsDist (permM σ L) (lenFun D')) (h : IsDist L (lenFun D)) :
    D' = permA σ D := by
  apply ext_of_lenFun
  rw [lenFun_perm]
  exact isDist_unique _ _ _ h' (isDist_perm σ h)

/-! ### distance_wei_floyd, distance_wei, distance_bin -/

theorem floyd_perm (tr : Transform) (A : AMat Rat n) (hA : C03.NonNeg A) :
    (floyd (lenMat tr (permA σ A))).D = permA σ (floyd (lenMat tr A)).D := by
  have h' := C03.floyd_isDist tr (permA σ A) (nonNeg_perm σ hA)
  have e : lenFun (lenMat tr (permA σ A)) = permM σ (lenFun (lenMat tr A)) := by rw [lenMat_perm, lenFun_perm]
  rw [e] at h'
  exact dist_unique_perm σ h' (C03.floyd_isDist tr A hA)

theorem dijkstra_perm (tr : Transform) (A : AMat Rat n) (hA : C03.NonNeg A) :
    (dijkstra (lenMat tr (permA σ A))).map Prod.fst = (dijkstra (lenMat tr A)).map fun r => permA σ r.1 := by
  obtain ⟨D, B, h⟩ := C03.dijkstra_total (lenMat tr A)
  obtain ⟨D', B', h'⟩ := C03.dijkstra_total (lenMat tr (permA σ A))
  have s := (dijkstra_spec _ (C03.lenMat_nonneg tr A hA) D B h).1
  have s' := (dijkstra_spec _ (C03.lenMat_nonneg tr _ (nonNeg_perm σ hA)) D' B' h').1
  have e : lenFun (lenMat tr (permA σ A)) = permM σ (lenFun (lenMat tr A)) := by rw [lenMat_perm, lenFun_perm]
  rw [e] at s'
  rw [h, h']
  simp only [Option.map_some, Option.some.injEq]
  exact dist_unique_perm σ s' s

theorem distBin_perm (A : AMat Rat n) : distBin (permA σ A) = (distBin A).map (permA σ) := by
  obtain ⟨D, h⟩ := C03.distBin_total A
  obtain ⟨D', h'⟩ := C03.distBin_total (permA σ A)
  have s' := C03.distBin_isDist _ D' h'
  rw [hopLen_perm] at s'
  rw [h, h']
  simp only [Option.map_some, Option.some.injEq]
  exact dist_unique_perm σ s' (C03.distBin_isDist A D h)

/-! ### breadthdist (off the diagonal: the diagonal holds the code's cycle-length quirk, which the C03 specification
does not cover) -/

theorem zeroDiag'_perm (D : LMat n) : zeroDiag' (permM σ D) = permM σ (zeroDiag' D) := by
  funext i j; simp [zeroDiag', permM]

theorem breadthdist_perm_offdiag (A : AMat Rat n) (hdiag : ∀ i, A.get i i = 0)
    (R R' : AMat Bool n) (D D' : AMat Ext n) (h : breadthdist A = some (R, D)) (h' : breadthdist (permA σ A) = some (R', D'))
    (i j : Fin n) (hij : i ≠ j) : D'.get i j = D.get (σ i) (σ j) ∧ R'.get i j = R.get (σ i) (σ j) := by
  have s := (C03.breadthdist_correct A hdiag R D h).1
  have s' := (C03.breadthdist_correct (permA σ A) (fun i => by simpa using hdiag (σ i)) R' D' h').1
  rw [hopLen_perm] at s'
  have e := isDist_unique _ _ _ s' (isDist_perm σ s)
  have e1 := congrFun (congrFun e i) j
  have hne : σ i ≠ σ j := fun hh => hij (σ.injective hh)
  simp only [zeroDiag', permM, hij, hne, if_false] at e1
  have hD : D'.get i j = D.get (σ i) (σ j) := Ext.toLen_injective e1
  refine ⟨hD, ?_⟩
  rw [Bool.eq_iff_iff, C03.breadthdist_flag A R D h, C03.breadthdist_flag _ R' D' h']
  simp only [lenFun, hD]

/-! ### means over the cells: `charpath`, `efficiency_bin`, `efficiency_wei` -/

theorem ext_add_right_comm (z x y : Ext) : z + x + y = z + y + x := by
  cases z <;> cases x <;> cases y <;> simp only [HAdd.hAdd, Add.add, Ext.add]
  congr 1
  exact add_right_comm _ _ _

theorem sumExt_perm {l l' : List Ext} (p : l.Perm l') : sumExt l = sumExt l' := by
  unfold sumExt
  exact List.Perm.foldl_eq' p (fun x _ y _ z => ext_add_right_comm z x y) _

theorem meanExt_perm {l l' : List Ext} (p : l.Perm l') : meanExt l = meanExt l' := by
  unfold meanExt
  rw [sumExt_perm p, p.length_eq]
  have : l.isEmpty = l'.isEmpty := by
    rw [Bool.eq_iff_iff, List.isEmpty_iff_length_eq_zero, List.isEmpty_iff_length_eq_zero, p.length_eq]
  rw [this]

theorem offDiag_map_perm : ((offDiag n).map fun p => (σ p.1, σ p.2)).Perm (offDiag n) := by
  have hinj : Function.Injective (fun p : Fin n × Fin n => (σ p.1, σ p.2)) := by
    intro a b h
    simp only [Prod.mk.injEq] at h
    exact Prod.ext (σ.injective h.1) (σ.injective h.2)
  rw [List.perm_ext_iff_of_nodup (offDiag_nodup.map hinj) offDiag_nodup]
  intro p
  simp only [List.mem_map, mem_offDiag]
  constructor
  · rintro ⟨q, hq, rfl⟩; exact fun hh => hq (σ.injective hh)
  · intro hp
    exact ⟨(σ.symm p.1, σ.symm p.2), fun hh => hp (σ.symm.injective hh), by simp⟩

theorem cells_map_perm : ((cells n).map fun p => (σ p.1, σ p.2)).Perm (cells n) := by
  have hinj : Function.Injective (fun p : Fin n × Fin n => (σ p.1, σ p.2)) := by
    intro a b h
    simp only [Prod.mk.injEq] at h
    exact Prod.ext (σ.injective h.1) (σ.injective h.2)
  rw [List.perm_ext_iff_of_nodup (cells_nodup.map hinj) cells_nodup]
  intro p
  simp only [List.mem_map]
  constructor
  · intro _; exact mem_cells p.1 p.2
  · intro _; exact ⟨(σ.symm p.1, σ.symm p.2), mem_cells _ _, by simp⟩

theorem map_cells_perm {β : Type} (cs : List (Fin n × Fin n)) (hcs : (cs.map fun p => (σ p.1, σ p.2)).Perm cs)
    (D : AMat β n) : (cs.map fun p => (permA σ D).get p.1 p.2).Perm (cs.map fun p => D.get p.1 p.2) := by
  have h1 : (cs.map fun p => (permA σ D).get p.1 p.2) = (cs.map fun p => (σ p.1, σ p.2)).map fun p => D.get p.1 p.2 := by
    rw [List.map_map]; apply List.map_congr_left; intro p _; simp
  rw [h1]
  exact hcs.map _

theorem meanInvOff_perm (D : AMat Ext n) : meanInvOff (permA σ D) = meanInvOff D := by
  unfold meanInvOff
  have h : ((offDiag n).map fun p => ((permA σ D).get p.1 p.2).inv).Perm ((offDiag n).map fun p => (D.get p.1 p.2).inv) := by
    have := (map_cells_perm σ (offDiag n) (offDiag_map_perm σ) D).map Ext.inv
    rw [List.map_map, List.map_map] at this
    exact this
  rw [sumExt_perm h]

theorem charpath_perm (D : AMat Ext n) (incDiag incInf : Bool) :
    charpath (permA σ D) incDiag incInf = charpath D incDiag incInf := by
  unfold charpath
  have hcs : ((if incDiag then cells n else offDiag n).map fun p => (σ p.1, σ p.2)).Perm (if incDiag then cells n else offDiag n) := by
    split
    · exact cells_map_perm σ
    · exact offDiag_map_perm σ
  have h := (map_cells_perm σ _ hcs D).filter fun x => incInf || x.isFin
  simp only []
  rw [meanExt_perm h, meanExt_perm (h.map Ext.inv)]

theorem efficiencyBin_perm (A : AMat Rat n) : Dist.efficiencyBin (permA σ A) = Dist.efficiencyBin A := by
  unfold Dist.efficiencyBin
  rw [distBin_perm]
  cases distBin A with
  | none => rfl
  | some D => simp [meanInvOff_perm]

theorem efficiencyWei_perm (W : AMat Rat n) (hW : C03.NonNeg W) : efficiencyWei (permA σ W) = efficiencyWei W := by
  unfold efficiencyWei
  have h := dijkstra_perm σ .inv W hW
  cases h1 : dijkstra (lenMat .inv W) with
  | none =>
    rw [h1] at h
    cases h2 : dijkstra (lenMat .inv (permA σ W)) with
    | none => rfl
    | some r => rw [h2] at h; simp at h
  | some r =>
    rw [h1] at h
    cases h2 : dijkstra (lenMat .inv (permA σ W)) with
    | none => rw [h2] at h; simp at h
    | some r' =>
      rw [h2] at h
      simp only [Option.map_some, Option.some.injEq] at h
      simp only [Option.map_some, h, meanInvOff_perm]

end Bct.Measures
