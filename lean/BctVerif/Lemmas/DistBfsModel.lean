import BctVerif.Lemmas.DistBfs
import BctVerif.Lemmas.DistDijkstraModel
import BctVerif.Lemmas.DistDijkstraTerm

/-!
# From the abstract BFS invariant to the executable model `Bct.Dist.breadth` / `breadthdist`

`absB s st` forgets `branch` and reads `distance[s]` as 0 (the code overwrites it with the length of a cycle through
the source once it meets a connection back to it — only after the source has been processed, which is what `R2` records).
Hypothesis throughout: empty diagonal (a self-loop at the source makes `breadth` report its neighbours at distance 2).
-/
namespace Bct.Dist
variable {n : ℕ}

def absB (s : Fin n) (st : BSt n) : BA n := ⟨fun w => st.color[w], fun w => if w = s then 0 else (st.dist[w]).toLen⟩

/-- while the source is gray its recorded distance is still 0 -/
def R2 (s : Fin n) (st : BSt n) : Prop := st.color[s] = 1 → st.dist[s] = .fin 0

theorem vset_get {α : Type} (v : Vector α n) (i j : Fin n) (a : α) : (v.set i a)[j] = if j = i then a else v[j] := by
  simp only [Fin.getElem_fin, Vector.getElem_set]
  by_cases h : j = i
  · subst h; simp
  · have : (i : ℕ) ≠ j := fun e => h (Fin.ext e.symm)
    simp [h, this]

theorem BA.ext' {a b : BA n} (h1 : a.col = b.col) (h2 : a.δ = b.δ) : a = b := by
  cases a; cases b; simp_all

theorem len_one_le_zero_false (h : (1 : Len) ≤ 0) : False := by
  have h' : ((1 : ℚ) : Len) ≤ ((0 : ℚ) : Len) := h
  rw [WithTop.coe_le_coe] at h'
  norm_num at h'

/-- the quirk never changes the abstract state (it can only fire on the source, after it turned black) -/
theorem quirk_spec (A : AMat Rat n) (s u v : Fin n) (st : BSt n) (rest : List (Fin n))
    (h : BInv A s (absB s st) (u :: rest)) (hr : R2 s st) (hvu : v ≠ u) :
    absB s (quirk u st v) = absB s st ∧ R2 s (quirk u st v) ∧ (quirk u st v).color = st.color ∧
      (quirk u st v).dist[u] = st.dist[u] ∧ ((quirk u st v).color[v] = 0 → quirk u st v = st) := by
  unfold quirk
  by_cases hq : st.dist[v] = .fin 0
  · rw [if_pos hq]
    have hvs : v = s := by
      by_contra hvs
      have := h.a_pos v hvs
      simp only [absB, hvs, if_false, hq, Ext.toLen_fin] at this
      exact len_one_le_zero_false this
    subst hvs
    have hsc : st.color[v] ≠ 0 := h.s_col
    have hsc1 : st.color[v] ≠ 1 := by
      intro e
      have := h.s_gray e
      simp only [List.head?_cons, Option.some.injEq] at this
      exact hvu this.symm
    refine ⟨?_, ?_, rfl, ?_, ?_⟩
    · apply BA.ext'
      · rfl
      · funext w
        simp only [absB]
        by_cases hws : w = v
        · simp [hws]
        · rw [if_neg hws, if_neg hws, vset_get, if_neg hws]
    · intro hc; exact absurd hc hsc1
    · simp only; rw [vset_get, if_neg (Ne.symm hvu)]
    · intro hc; exact absurd hc hsc
  · rw [if_neg hq]
    exact ⟨rfl, hr, rfl, rfl, fun _ => rfl⟩

/-- effect of the body of `for v in ns` on the abstract state -/
theorem visit_spec (A : AMat Rat n) (s u v : Fin n) (st : BSt n) (rest : List (Fin n))
    (h : BInv A s (absB s st) (u :: rest)) (hr : R2 s st) (hvu : v ≠ u) :
    ((absB s st).col v = 0 → (visit u st v).2 = true ∧ absB s (visit u st v).1 = discover (absB s st) u v ∧
        R2 s (visit u st v).1) ∧
    ((absB s st).col v ≠ 0 → (visit u st v).2 = false ∧ absB s (visit u st v).1 = absB s st ∧ R2 s (visit u st v).1) := by
  obtain ⟨qa, qr, qc, qd, qid⟩ := quirk_spec A s u v st rest h hr hvu
  have hucol : st.color[u] = 1 := h.q_gray u List.mem_cons_self
  have hcv : (quirk u st v).color[v] = st.color[v] := by rw [qc]
  -- the value read as `distance[u]` is `δ u`
  have hdu : (st.dist[u]).toLen = (absB s st).δ u := by
    by_cases hus : u = s
    · subst hus
      have := hr hucol
      simp [absB, this]
    · simp [absB, hus]
  unfold visit
  by_cases hc : st.color[v] = 0
  · have hq0 : (quirk u st v).color[v] = 0 := by rw [hcv]; exact hc
    have hqs : quirk u st v = st := qid hq0
    rw [if_pos hq0, hqs]
    have hvs : v ≠ s := by intro e; rw [e] at hc; exact h.s_col hc
    refine ⟨fun _ => ⟨rfl, ?_, ?_⟩, fun hne => absurd hc hne⟩
    · apply BA.ext'
      · funext w
        simp only [absB, discover, paint]
        rw [vset_get]
      · funext w
        simp only [absB, discover, paint]
        by_cases hwv : w = v
        · rw [if_pos hwv, hwv, if_neg hvs, vset_get, if_pos rfl, Ext.toLen_add, hdu]
          simp [absB]
          intro a b; exact absurd a b
        · rw [if_neg hwv, vset_get, if_neg hwv]
    · intro hcs
      simp only [paint] at hcs ⊢
      rw [vset_get, if_neg (Ne.symm hvs)] at hcs
      rw [vset_get, if_neg (Ne.symm hvs)]
      exact hr hcs
  · have hq0 : ¬ (quirk u st v).color[v] = 0 := by rw [hcv]; exact hc
    rw [if_neg hq0]
    exact ⟨fun h0 => absurd h0 hc, fun _ => ⟨rfl, qa, qr⟩⟩

/-- the accumulating fold of `for v in ns` -/
def visitAll (u : Fin n) (ns : List (Fin n)) (acc : BSt n × List (Fin n)) : BSt n × List (Fin n) :=
  ns.foldl (fun (acc : BSt n × List (Fin n)) v =>
    ((visit u acc.1 v).1, if (visit u acc.1 v).2 then acc.2 ++ [v] else acc.2)) acc

theorem visitAll_spec (A : AMat Rat n) (s u : Fin n) (rest : List (Fin n)) :
    ∀ (ns : List (Fin n)) (acc : BSt n × List (Fin n)) (done : List (Fin n)),
      (∀ v ∈ ns, v ≠ u ∧ A.get u v ≠ 0) →
      BInv A s (absB s acc.1) (u :: (rest ++ acc.2)) → R2 s acc.1 →
      (∀ v ∈ done, (absB s acc.1).col v ≠ 0 ∧ (absB s acc.1).δ v ≤ (absB s acc.1).δ u + 1) →
      BInv A s (absB s (visitAll u ns acc).1) (u :: (rest ++ (visitAll u ns acc).2)) ∧ R2 s (visitAll u ns acc).1 ∧
        (∀ v ∈ done ++ ns, (absB s (visitAll u ns acc).1).col v ≠ 0 ∧
          (absB s (visitAll u ns acc).1).δ v ≤ (absB s (visitAll u ns acc).1).δ u + 1) := by
  intro ns
  induction ns with
  | nil => intro acc done _ h hr hd; simpa [visitAll] using ⟨h, hr, hd⟩
  | cons v ns ih =>
    intro acc done hns h hr hd
    obtain ⟨hvu, huv⟩ := hns v List.mem_cons_self
    have hns' : ∀ x ∈ ns, x ≠ u ∧ A.get u x ≠ 0 := fun x hx => hns x (List.mem_cons_of_mem _ hx)
    obtain ⟨spW, spN⟩ := visit_spec A s u v acc.1 (rest ++ acc.2) h hr hvu
    have hunfold : visitAll u (v :: ns) acc =
        visitAll u ns ((visit u acc.1 v).1, if (visit u acc.1 v).2 then acc.2 ++ [v] else acc.2) := by
      simp only [visitAll, List.foldl_cons]
    rw [hunfold]
    have happ : done ++ v :: ns = (done ++ [v]) ++ ns := by simp
    rw [happ]
    by_cases hc : (absB s acc.1).col v = 0
    · obtain ⟨e1, e2, e3⟩ := spW hc
      rw [e1]
      simp only [if_true]
      have hinv := binv_discover A s (absB s acc.1) u v (rest ++ acc.2) h hc huv
      rw [← e2] at hinv
      have hq : u :: (rest ++ acc.2 ++ [v]) = u :: (rest ++ (acc.2 ++ [v])) := by simp
      rw [hq] at hinv
      apply ih (( visit u acc.1 v).1, acc.2 ++ [v]) (done ++ [v]) hns' hinv e3
      intro x hx
      simp only
      rw [e2]
      have hvuu : u ≠ v := Ne.symm hvu
      rcases List.mem_append.mp hx with hx | hx
      · obtain ⟨d1, d2⟩ := hd x hx
        have hxv : x ≠ v := by intro e; rw [e] at d1; exact d1 hc
        simp only [discover, hxv, hvuu, if_false]
        exact ⟨d1, d2⟩
      · have hxv : x = v := by simpa using hx
        simp only [discover, hxv, hvuu, if_true, if_false]
        exact ⟨by omega, le_refl _⟩
    · obtain ⟨e1, e2, e3⟩ := spN hc
      rw [e1]
      simp only [Bool.false_eq_true, if_false]
      have hinv : BInv A s (absB s (visit u acc.1 v).1) (u :: (rest ++ acc.2)) := by rw [e2]; exact h
      apply ih ((visit u acc.1 v).1, acc.2) (done ++ [v]) hns' hinv e3
      intro x hx
      simp only
      rw [e2]
      rcases List.mem_append.mp hx with hx | hx
      · exact hd x hx
      · have hxv : x = v := by simpa using hx
        rw [hxv]
        exact ⟨hc, h.nw_bound u rfl v hc⟩

/-- colours: `visit` never creates or removes black -/
theorem visit_black_iff (u v : Fin n) (st : BSt n) (w : Fin n) : (visit u st v).1.color[w] = 2 ↔ st.color[w] = 2 := by
  have hq : (quirk u st v).color = st.color := by
    unfold quirk; split_ifs <;> rfl
  unfold visit
  by_cases hc : (quirk u st v).color[v] = 0
  · rw [if_pos hc]
    simp only [paint]
    rw [vset_get]
    by_cases hwv : w = v
    · rw [if_pos hwv, hwv, ← hq, hc]; omega
    · rw [if_neg hwv, hq]
  · rw [if_neg hc]; simp only; rw [hq]

theorem visitAll_black_iff (u : Fin n) : ∀ (ns : List (Fin n)) (acc : BSt n × List (Fin n)) (w : Fin n),
    (visitAll u ns acc).1.color[w] = 2 ↔ acc.1.color[w] = 2 := by
  intro ns
  induction ns with
  | nil => intro acc w; rfl
  | cons v ns ih =>
    intro acc w
    have hunfold : visitAll u (v :: ns) acc =
        visitAll u ns ((visit u acc.1 v).1, if (visit u acc.1 v).2 then acc.2 ++ [v] else acc.2) := by
      simp only [visitAll, List.foldl_cons]
    rw [hunfold, ih]
    exact visit_black_iff u v acc.1 w

/-- one pass of `while Q`: the head is processed, turns black and leaves the queue -/
theorem bfs_step (A : AMat Rat n) (hdiag : ∀ i, A.get i i = 0) (s u : Fin n) (st : BSt n) (rest : List (Fin n))
    (h : BInv A s (absB s st) (u :: rest)) (hr : R2 s st) :
    let r := visitAll u ((List.finRange n).filter fun v => A.get u v ≠ 0) (st, [])
    BInv A s (absB s (blackenSt r.1 u)) (rest ++ r.2) ∧ R2 s (blackenSt r.1 u) ∧
      ∀ w, (blackenSt r.1 u).color[w] = 2 ↔ (st.color[w] = 2 ∨ w = u) := by
  intro r
  set ns := (List.finRange n).filter fun v => A.get u v ≠ 0 with hns
  have hnsmem : ∀ v ∈ ns, v ≠ u ∧ A.get u v ≠ 0 := by
    intro v hv
    have : A.get u v ≠ 0 := by simpa [hns] using (List.mem_filter.mp hv).2
    exact ⟨fun e => this (e ▸ hdiag u), this⟩
  have h0 : BInv A s (absB s (st, ([] : List (Fin n))).1) (u :: (rest ++ (st, ([] : List (Fin n))).2)) := by
    simpa using h
  obtain ⟨i1, i2, i3⟩ := visitAll_spec A s u rest ns (st, []) [] hnsmem h0 hr
    (by intro v hv; exact absurd hv List.not_mem_nil)
  have hdone : ∀ v, A.get u v ≠ 0 → (absB s r.1).col v ≠ 0 ∧ (absB s r.1).δ v ≤ (absB s r.1).δ u + 1 := by
    intro v hv
    apply i3 v
    simp only [List.nil_append, hns, List.mem_filter, List.mem_finRange, true_and]
    simpa using hv
  have hb := binv_blacken A s (absB s r.1) u (rest ++ r.2) i1 hdone
  have habs : absB s (blackenSt r.1 u) = blacken (absB s r.1) u := by
    apply BA.ext'
    · funext w; simp only [absB, blacken, blackenSt]; rw [vset_get]
    · rfl
  refine ⟨by rw [habs]; exact hb, ?_, ?_⟩
  · intro hc
    simp only [blackenSt] at hc ⊢
    rw [vset_get] at hc
    by_cases hsu : s = u
    · rw [if_pos hsu] at hc; omega
    · rw [if_neg hsu] at hc; exact i2 hc
  · intro w
    simp only [blackenSt]
    rw [vset_get]
    by_cases hwu : w = u
    · simp [hwu]
    · rw [if_neg hwu]
      have := visitAll_black_iff u ns (st, []) w
      simp only at this
      rw [this]
      simp [hwu]

theorem bfsLoop_step_eq (A : AMat Rat n) (fuel : ℕ) (st : BSt n) (u : Fin n) (rest : List (Fin n)) :
    bfsLoop A (fuel + 1) st (u :: rest) =
      bfsLoop A fuel (blackenSt (visitAll u ((List.finRange n).filter fun v => A.get u v ≠ 0) (st, [])).1 u)
        (rest ++ (visitAll u ((List.finRange n).filter fun v => A.get u v ≠ 0) (st, [])).2) := by
  simp only [bfsLoop]; rfl

theorem bfsLoop_inv (A : AMat Rat n) (hdiag : ∀ i, A.get i i = 0) (s : Fin n) :
    ∀ (fuel : ℕ) (st : BSt n) (Q : List (Fin n)) (r : BSt n), BInv A s (absB s st) Q → R2 s st →
      bfsLoop A fuel st Q = some r → BInv A s (absB s r) [] := by
  intro fuel
  induction fuel with
  | zero =>
    intro st Q r h _ hres
    cases Q with
    | nil => simp only [bfsLoop, Option.some.injEq] at hres; rw [← hres]; exact h
    | cons u Q => simp [bfsLoop] at hres
  | succ fuel ih =>
    intro st Q r h hr hres
    cases Q with
    | nil => simp only [bfsLoop, Option.some.injEq] at hres; rw [← hres]; exact h
    | cons u rest =>
      rw [bfsLoop_step_eq] at hres
      obtain ⟨j1, j2, _⟩ := bfs_step A hdiag s u st rest h hr
      exact ih _ _ r j1 j2 hres

/-- number of nodes that are not black -/
def nonBlack (st : BSt n) : ℕ := ((List.finRange n).filter fun w => st.color[w] != 2).length

/-- the model of `breadth` never runs out of fuel: every pass turns one more node black -/
theorem bfsLoop_isSome (A : AMat Rat n) (hdiag : ∀ i, A.get i i = 0) (s : Fin n) :
    ∀ (fuel : ℕ) (st : BSt n) (Q : List (Fin n)), BInv A s (absB s st) Q → R2 s st → nonBlack st < fuel →
      (bfsLoop A fuel st Q).isSome = true := by
  intro fuel
  induction fuel with
  | zero => intro st Q _ _ h; omega
  | succ fuel ih =>
    intro st Q h hr hlt
    cases Q with
    | nil => simp [bfsLoop]
    | cons u rest =>
      rw [bfsLoop_step_eq]
      obtain ⟨j1, j2, j3⟩ := bfs_step A hdiag s u st rest h hr
      apply ih _ _ j1 j2
      have hu : st.color[u] = 1 := h.q_gray u List.mem_cons_self
      have : nonBlack (blackenSt (visitAll u ((List.finRange n).filter fun v => A.get u v ≠ 0) (st, [])).1 u) < nonBlack st := by
        unfold nonBlack
        apply filter_length_lt _ _ _ _ u (List.mem_finRange u)
        · simp [hu]
        · have := (j3 u).mpr (Or.inr rfl)
          show (_ != 2) = false
          rw [this]; rfl
        · intro w hw
          simp only [bne_iff_ne, ne_eq] at hw ⊢
          intro hc
          exact hw ((j3 w).mpr (Or.inl hc))
      omega

theorem binv_init (A : AMat Rat n) (s : Fin n) : BInv A s (absB s (bInit s)) [s] := by
  have hc : ∀ w, (absB s (bInit s)).col w = if w = s then 1 else 0 := by
    intro w; simp only [absB, bInit]; rw [vec_ofFn_get]
  have hd : ∀ w, (absB s (bInit s)).δ w = if w = s then 0 else ⊤ := by
    intro w; simp only [absB, bInit]; rw [vec_ofFn_get]
    by_cases h : w = s <;> simp [h]
  constructor
  · intro w hw; rw [hd, if_neg hw]; exact le_top
  · rw [hd, if_pos rfl]
  · rw [hc, if_pos rfl]; omega
  · intro _; rfl
  · intro w hw
    rw [hc] at hw; rw [hd]
    by_cases h : w = s
    · rw [if_pos h] at hw; omega
    · rw [if_neg h]
  · intro w hw
    rw [hc] at hw; rw [hd]
    by_cases h : w = s
    · rw [if_pos h]; exact WithTop.coe_lt_top 0
    · rw [if_neg h] at hw; omega
  · intro w hw
    rw [hd] at hw ⊢
    by_cases h : w = s
    · rw [if_pos h]; exact ⟨[], by simp [walkEnd, h], by simp [walkLen]⟩
    · rw [if_neg h] at hw; exact absurd hw (lt_irrefl _)
  · intro u hu
    have : u = s := by simpa using hu
    rw [hc, if_pos this]
  · intro w hw
    rw [hc] at hw
    by_cases h : w = s
    · simp [h]
    · rw [if_neg h] at hw; omega
  · simp
  · simp
  · intro u hu x hx
    have hxs : x = s := by simpa using hx
    have hus : u = s := by simpa using hu.symm
    rw [hd, hd, if_pos hxs, if_pos hus]; simp
  · intro x hx
    rw [hc] at hx
    by_cases h : x = s
    · rw [if_pos h] at hx; omega
    · rw [if_neg h] at hx; omega
  · intro x hx
    rw [hc] at hx
    by_cases h : x = s
    · rw [if_pos h] at hx; omega
    · rw [if_neg h] at hx; omega
  · intro u hu w hw
    have hus : u = s := by simpa using hu.symm
    rw [hc] at hw
    by_cases h : w = s
    · rw [hd, hd, if_pos h, if_pos hus]; simp
    · rw [if_neg h] at hw; omega
  · intro w; rw [hc]; split_ifs <;> omega

/-- result of `breadth(CIJ, source)` on a matrix with empty diagonal: reading `distance[source]` as 0, the returned
distances are feasible for every connection and attained by walks -/
theorem breadth_final (A : AMat Rat n) (hdiag : ∀ i, A.get i i = 0) (s : Fin n) (r : BSt n) (h : breadth A s = some r) :
    BInv A s (absB s r) [] := by
  unfold breadth at h
  refine bfsLoop_inv A hdiag s _ _ _ r (binv_init A s) ?_ h
  intro _
  simp only [bInit]
  rw [vec_ofFn_get, if_pos rfl]

/-! ## the predecessor vector `branch` -/

/-- `branch[source] = -1`; every discovered node `v ≠ source` records a node `u` with a connection `u → v` that was
discovered one level earlier -/
def BrInv (A : AMat Rat n) (s : Fin n) (st : BSt n) : Prop :=
  st.branch[s] = -1 ∧ ∀ v, v ≠ s → st.color[v] ≠ 0 →
    ∃ u : Fin n, st.branch[v] = (u.val : ℤ) ∧ A.get u v ≠ 0 ∧ (absB s st).δ v = (absB s st).δ u + 1

theorem quirk_branch (u v : Fin n) (st : BSt n) : (quirk u st v).branch = st.branch ∧ (quirk u st v).color = st.color := by
  unfold quirk; split_ifs <;> exact ⟨rfl, rfl⟩

theorem visit_br (A : AMat Rat n) (s u v : Fin n) (st : BSt n) (rest : List (Fin n))
    (h : BInv A s (absB s st) (u :: rest)) (hr : R2 s st) (hvu : v ≠ u) (huv : A.get u v ≠ 0) (hb : BrInv A s st) :
    BrInv A s (visit u st v).1 := by
  obtain ⟨spW, spN⟩ := visit_spec A s u v st rest h hr hvu
  obtain ⟨qb, qc⟩ := quirk_branch u v st
  by_cases hc : st.color[v] = 0
  · obtain ⟨_, habs, _⟩ := spW hc
    have hvs : v ≠ s := by intro e; rw [e] at hc; exact h.s_col hc
    have hq0 : (quirk u st v).color[v] = 0 := by rw [qc]; exact hc
    have hv1 : (visit u st v).1 = paint u (quirk u st v) v := by unfold visit; rw [if_pos hq0]
    have hbr : ∀ w, (visit u st v).1.branch[w] = if w = v then (u.val : ℤ) else st.branch[w] := by
      intro w; rw [hv1]; simp only [paint]; rw [vset_get, qb]
    have hcol : ∀ w, (visit u st v).1.color[w] = if w = v then 1 else st.color[w] := by
      intro w; rw [hv1]; simp only [paint]; rw [vset_get, qc]
    refine ⟨by rw [hbr, if_neg (Ne.symm hvs)]; exact hb.1, ?_⟩
    intro w hws hwc
    rw [habs]
    by_cases hwv : w = v
    · subst hwv
      refine ⟨u, by rw [hbr, if_pos rfl], huv, ?_⟩
      simp only [discover, if_true, if_neg (Ne.symm hvu)]
    · rw [hcol, if_neg hwv] at hwc
      obtain ⟨uw, e1, e2, e3⟩ := hb.2 w hws hwc
      have hwfin : (absB s st).δ w < ⊤ := h.nonwhite w hwc
      have huw : uw ≠ v := by
        intro e
        have : (absB s st).δ uw = ⊤ := h.white uw (by rw [e]; exact hc)
        rw [e3, this] at hwfin
        simp at hwfin
      refine ⟨uw, by rw [hbr, if_neg hwv]; exact e1, e2, ?_⟩
      simp only [discover, if_neg hwv, if_neg huw]
      exact e3
  · obtain ⟨_, habs, _⟩ := spN hc
    have hq0 : ¬ (quirk u st v).color[v] = 0 := by rw [qc]; exact hc
    have hv1 : (visit u st v).1 = quirk u st v := by unfold visit; rw [if_neg hq0]
    refine ⟨by rw [hv1, qb]; exact hb.1, ?_⟩
    intro w hws hwc
    rw [hv1, qc] at hwc
    obtain ⟨uw, e1, e2, e3⟩ := hb.2 w hws hwc
    exact ⟨uw, by rw [hv1, qb]; exact e1, e2, by rw [habs]; exact e3⟩

theorem visitAll_br (A : AMat Rat n) (s u : Fin n) (rest : List (Fin n)) :
    ∀ (ns : List (Fin n)) (acc : BSt n × List (Fin n)),
      (∀ v ∈ ns, v ≠ u ∧ A.get u v ≠ 0) →
      BInv A s (absB s acc.1) (u :: (rest ++ acc.2)) → R2 s acc.1 → BrInv A s acc.1 →
      BrInv A s (visitAll u ns acc).1 := by
  intro ns
  induction ns with
  | nil => intro acc _ _ _ hb; simpa [visitAll] using hb
  | cons v ns ih =>
    intro acc hns h hr hb
    obtain ⟨hvu, huv⟩ := hns v List.mem_cons_self
    have hns' : ∀ x ∈ ns, x ≠ u ∧ A.get u x ≠ 0 := fun x hx => hns x (List.mem_cons_of_mem _ hx)
    obtain ⟨spW, spN⟩ := visit_spec A s u v acc.1 (rest ++ acc.2) h hr hvu
    have hb' := visit_br A s u v acc.1 (rest ++ acc.2) h hr hvu huv hb
    have hunfold : visitAll u (v :: ns) acc =
        visitAll u ns ((visit u acc.1 v).1, if (visit u acc.1 v).2 then acc.2 ++ [v] else acc.2) := by
      simp only [visitAll, List.foldl_cons]
    rw [hunfold]
    by_cases hc : (absB s acc.1).col v = 0
    · obtain ⟨e1, e2, e3⟩ := spW hc
      rw [e1]
      simp only [if_true]
      have hinv := binv_discover A s (absB s acc.1) u v (rest ++ acc.2) h hc huv
      rw [← e2] at hinv
      have hq : u :: (rest ++ acc.2 ++ [v]) = u :: (rest ++ (acc.2 ++ [v])) := by simp
      rw [hq] at hinv
      exact ih ((visit u acc.1 v).1, acc.2 ++ [v]) hns' hinv e3 hb'
    · obtain ⟨e1, e2, e3⟩ := spN hc
      rw [e1]
      simp only [Bool.false_eq_true, if_false]
      have hinv : BInv A s (absB s (visit u acc.1 v).1) (u :: (rest ++ acc.2)) := by rw [e2]; exact h
      exact ih ((visit u acc.1 v).1, acc.2) hns' hinv e3 hb'

theorem bfs_step_br (A : AMat Rat n) (hdiag : ∀ i, A.get i i = 0) (s u : Fin n) (st : BSt n) (rest : List (Fin n))
    (h : BInv A s (absB s st) (u :: rest)) (hr : R2 s st) (hb : BrInv A s st) :
    BrInv A s (blackenSt (visitAll u ((List.finRange n).filter fun v => A.get u v ≠ 0) (st, [])).1 u) := by
  set ns := (List.finRange n).filter fun v => A.get u v ≠ 0 with hns
  have hnsmem : ∀ v ∈ ns, v ≠ u ∧ A.get u v ≠ 0 := by
    intro v hv
    have : A.get u v ≠ 0 := by simpa [hns] using (List.mem_filter.mp hv).2
    exact ⟨fun e => this (e ▸ hdiag u), this⟩
  have h0 : BInv A s (absB s (st, ([] : List (Fin n))).1) (u :: (rest ++ (st, ([] : List (Fin n))).2)) := by
    simpa using h
  have hb1 := visitAll_br A s u rest ns (st, []) hnsmem h0 hr hb
  set st' := (visitAll u ns (st, [])).1
  refine ⟨hb1.1, ?_⟩
  intro w hws hwc
  have hwc' : st'.color[w] ≠ 0 := by
    simp only [blackenSt] at hwc
    rw [vset_get] at hwc
    by_cases hwu : w = u
    · -- u was gray before the pass and colours never go back to white
      obtain ⟨i1, _, _⟩ := visitAll_spec A s u rest ns (st, []) [] hnsmem h0 hr (by intro v hv; exact absurd hv List.not_mem_nil)
      have := i1.q_gray u List.mem_cons_self
      rw [hwu]
      change st'.color[u] = 1 at this
      omega
    · rw [if_neg hwu] at hwc; exact hwc
  obtain ⟨uw, e1, e2, e3⟩ := hb1.2 w hws hwc'
  exact ⟨uw, e1, e2, e3⟩

theorem bfsLoop_br (A : AMat Rat n) (hdiag : ∀ i, A.get i i = 0) (s : Fin n) :
    ∀ (fuel : ℕ) (st : BSt n) (Q : List (Fin n)) (r : BSt n), BInv A s (absB s st) Q → R2 s st → BrInv A s st →
      bfsLoop A fuel st Q = some r → BrInv A s r := by
  intro fuel
  induction fuel with
  | zero =>
    intro st Q r _ _ hb hres
    cases Q with
    | nil => simp only [bfsLoop, Option.some.injEq] at hres; rw [← hres]; exact hb
    | cons u Q => simp [bfsLoop] at hres
  | succ fuel ih =>
    intro st Q r h hr hb hres
    cases Q with
    | nil => simp only [bfsLoop, Option.some.injEq] at hres; rw [← hres]; exact hb
    | cons u rest =>
      rw [bfsLoop_step_eq] at hres
      obtain ⟨j1, j2, _⟩ := bfs_step A hdiag s u st rest h hr
      exact ih _ _ r j1 j2 (bfs_step_br A hdiag s u st rest h hr hb) hres

/-- `breadth(CIJ, source)` on a matrix with empty diagonal: `branch[source] = -1` and, for every reached `v ≠ source`,
`branch[v]` is a node with a connection to `v` whose recorded distance is one less (reading `distance[source]` as 0) -/
theorem breadth_branch (A : AMat Rat n) (hdiag : ∀ i, A.get i i = 0) (s : Fin n) (r : BSt n) (h : breadth A s = some r) :
    BrInv A s r := by
  unfold breadth at h
  refine bfsLoop_br A hdiag s _ _ _ r (binv_init A s) ?_ ?_ h
  · intro _
    simp only [bInit]
    rw [vec_ofFn_get, if_pos rfl]
  · refine ⟨by simp only [bInit]; rw [vec_ofFn_get, if_pos rfl], ?_⟩
    intro v hvs hc
    simp only [bInit] at hc
    rw [vec_ofFn_get, if_neg hvs] at hc
    exact absurd rfl hc

/-- the model of `breadth` always returns on a matrix with empty diagonal -/
theorem breadth_isSome (A : AMat Rat n) (hdiag : ∀ i, A.get i i = 0) (s : Fin n) : (breadth A s).isSome = true := by
  unfold breadth
  apply bfsLoop_isSome A hdiag s _ _ _ (binv_init A s)
  · intro _
    simp only [bInit]
    rw [vec_ofFn_get, if_pos rfl]
  · unfold nonBlack
    have := List.length_filter_le (fun w : Fin n => (bInit s : BSt n).color[w] != 2) (List.finRange n)
    simp only [List.length_finRange] at this
    omega

end Bct.Dist
