import BctVerif.Lemmas.ClusterReduce
/-!
# Ranges, zero cases and the signed variants
-/
namespace Bct.Cluster
open Finset Bct

variable {n : ℕ}

theorem perNode_range {c d : ℚ} (h0 : 0 ≤ c) (hcd : c ≤ d) : ∃ x, perNode c d = some x ∧ 0 ≤ x ∧ x ≤ 1 := by
  by_cases hc : c = 0
  · exact ⟨0, by simp [perNode, hc], le_rfl, by norm_num⟩
  · have hc' : 0 < c := lt_of_le_of_ne h0 (Ne.symm hc)
    have hd : 0 < d := lt_of_lt_of_le hc' hcd
    exact ⟨c / d, perNode_of_ne hc (ne_of_gt hd), div_nonneg h0 hd.le, (div_le_one hd).mpr hcd⟩

theorem perNode_range_abs {c d : ℚ} (hcd : |c| ≤ d) : ∃ x, perNode c d = some x ∧ -1 ≤ x ∧ x ≤ 1 := by
  by_cases hc : c = 0
  · exact ⟨0, by simp [perNode, hc], by norm_num, by norm_num⟩
  · have hd : 0 < d := lt_of_lt_of_le (abs_pos.mpr hc) hcd
    refine ⟨c / d, perNode_of_ne hc (ne_of_gt hd), ?_, ?_⟩
    · rw [le_div_iff₀ hd]; linarith [neg_abs_le c]
    · rw [div_le_one hd]; exact le_trans (le_abs_self c) hcd

theorem gdiv_range {c d t : ℚ} (h0 : 0 ≤ c) (hcd : c ≤ d) (h : gdiv c d = some t) : 0 ≤ t ∧ t ≤ 1 := by
  unfold gdiv at h
  split_ifs at h with hd
  have hd' : 0 < d := lt_of_le_of_ne (le_trans h0 hcd) (Ne.symm hd)
  simp only [Option.some.injEq] at h
  subst h
  exact ⟨div_nonneg h0 hd'.le, (div_le_one hd').mpr hcd⟩

theorem triS_nonneg {R : AMat ℚ n} (h : ∀ i j, 0 ≤ R.get i j) (i : Fin n) : 0 ≤ triS R i :=
  Finset.sum_nonneg fun j _ => Finset.sum_nonneg fun k _ =>
    mul_nonneg (mul_nonneg (add_nonneg (h _ _) (h _ _)) (add_nonneg (h _ _) (h _ _))) (add_nonneg (h _ _) (h _ _))

/-- the weighted Fagiolo bound on the model's sums -/
theorem triS_le_pairsS {W R : AMat ℚ n} (hD : EmptyDiag W) (h01 : In01 W) (hR : IsCbrt R W) (i : Fin n) :
    triS R i / 2 ≤ pairsS (adj W) i := by
  have h := fagiolo_bound_weighted (fun x y => (adj W).get x y) (fun x y => R.get x y) (adj_bin W)
    (adj_emptyDiag hD) (fun x y => isCbrt_nonneg hR x y (h01 x y).1)
    (fun x y => by simpa using isCbrt_le_ind hR h01 x y) i
  have : triS R i ≤ 2 * pairsS (adj W) i := h
  linarith

theorem in01_of_bin {A : AMat ℚ n} (hB : Bin A) : In01 A := fun i j => ⟨bin_nonneg hB i j, bin_le_one hB i j⟩

theorem range_wd {W R : AMat ℚ n} (hD : EmptyDiag W) (h01 : In01 W) (hR : IsCbrt R W) (i : Fin n) :
    ∃ c, (ccWd W R)[i] = some c ∧ 0 ≤ c ∧ c ≤ 1 := by
  rw [ccWd, ccFagiolo_get]
  exact perNode_range (div_nonneg (triS_nonneg (fun x y => isCbrt_nonneg hR x y (h01 x y).1) i) (by norm_num))
    (triS_le_pairsS hD h01 hR i)

theorem range_bd {A : AMat ℚ n} (hB : Bin A) (hD : EmptyDiag A) (i : Fin n) :
    ∃ c, (ccBd A)[i] = some c ∧ 0 ≤ c ∧ c ≤ 1 := by
  rw [← wd_eq_bd_on01 hB]; exact range_wd hD (in01_of_bin hB) (isCbrt_of_bin hB) i

theorem range_wu {W R : AMat ℚ n} (hS : Symm W) (hD : EmptyDiag W) (h01 : In01 W) (hR : IsCbrt R W) (i : Fin n) :
    ∃ c, (ccWu W R)[i] = some c ∧ 0 ≤ c ∧ c ≤ 1 := by
  rw [← wd_eq_wu_symm hS (isCbrt_symm hR hS)]; exact range_wd hD h01 hR i

theorem range_bu {G : AMat ℚ n} (hB : Bin G) (hS : Symm G) (hD : EmptyDiag G) (u : Fin n) :
    ∃ c, (ccBu G)[u] = some c ∧ 0 ≤ c ∧ c ≤ 1 := by
  rw [← bd_eq_bu_symm hB hS hD]; exact range_bd hB hD u

theorem range_trans_wd {W R : AMat ℚ n} (hD : EmptyDiag W) (h01 : In01 W) (hR : IsCbrt R W) {t : ℚ}
    (h : transWd W R = some t) : 0 ≤ t ∧ t ≤ 1 := by
  rw [transWd, transFagiolo_eq] at h
  exact gdiv_range
    (Finset.sum_nonneg fun i _ => div_nonneg (triS_nonneg (fun x y => isCbrt_nonneg hR x y (h01 x y).1) i) (by norm_num))
    (Finset.sum_le_sum fun i _ => triS_le_pairsS hD h01 hR i) h

theorem range_trans_bd {A : AMat ℚ n} (hB : Bin A) (hD : EmptyDiag A) {t : ℚ} (h : transBd A = some t) :
    0 ≤ t ∧ t ≤ 1 := by
  rw [← trans_wd_eq_bd_on01 hB] at h; exact range_trans_wd hD (in01_of_bin hB) (isCbrt_of_bin hB) h

theorem range_trans_wu {W R : AMat ℚ n} (hS : Symm W) (hD : EmptyDiag W) (h01 : In01 W) (hR : IsCbrt R W) {t : ℚ}
    (h : transWu W R = some t) : 0 ≤ t ∧ t ≤ 1 := by
  rw [← trans_wd_eq_wu_symm hS (isCbrt_symm hR hS)] at h; exact range_trans_wd hD h01 hR h

theorem range_trans_bu {A : AMat ℚ n} (hB : Bin A) (hS : Symm A) (hD : EmptyDiag A) {t : ℚ} (h : transBu A = some t) :
    0 ≤ t ∧ t ≤ 1 := by
  rw [← trans_bd_eq_bu_symm hB hS] at h; exact range_trans_bd hB hD h

/-! ### zero cases -/

theorem triS_zero_of_notri {R : AMat ℚ n} {i : Fin n}
    (h : ∀ j k, ¬ (Nb R i j ∧ Nb R j k ∧ Nb R k i)) : triS R i = 0 := by
  refine Finset.sum_eq_zero (fun j _ => Finset.sum_eq_zero (fun k _ => ?_))
  by_contra hne
  have h1 := left_ne_zero_of_mul (left_ne_zero_of_mul hne)
  have h2 := right_ne_zero_of_mul (left_ne_zero_of_mul hne)
  have h3 := right_ne_zero_of_mul hne
  have nb : ∀ x y, R.get x y + R.get y x ≠ 0 → Nb R x y := by
    intro x y hxy; unfold Nb; by_contra hc; push Not at hc; exact hxy (by rw [hc.1, hc.2]; ring)
  exact h j k ⟨nb _ _ h1, nb _ _ h2, nb _ _ h3⟩

theorem nb_root_iff {R W : AMat ℚ n} (hR : IsCbrt R W) (i j : Fin n) : Nb R i j ↔ Nb W i j := by
  unfold Nb; simp only [ne_eq, isCbrt_zero_iff hR i j, isCbrt_zero_iff hR j i]

/-- fewer than two neighbours (with an empty diagonal) ⇒ no triangle -/
theorem notri_of_lt2 {W : AMat ℚ n} (hD : EmptyDiag W) {i : Fin n}
    (h : ∀ j k, Nb W i j → Nb W i k → j = k) : ∀ j k, ¬ (Nb W i j ∧ Nb W j k ∧ Nb W k i) := by
  rintro j k ⟨h1, h2, h3⟩
  have h3' : Nb W i k := by unfold Nb at h3 ⊢; tauto
  have := h j k h1 h3'
  subst this
  unfold Nb at h2; rw [hD j] at h2; tauto

theorem tri_zero_of_notri {R : AMat ℚ n} {i : Fin n}
    (h : ∀ j k, ¬ (R.get i j ≠ 0 ∧ R.get j k ≠ 0 ∧ R.get k i ≠ 0)) : tri R i = 0 := by
  refine Finset.sum_eq_zero (fun j _ => Finset.sum_eq_zero (fun k _ => ?_))
  by_contra hne
  exact h j k ⟨left_ne_zero_of_mul (left_ne_zero_of_mul hne), right_ne_zero_of_mul (left_ne_zero_of_mul hne),
    right_ne_zero_of_mul hne⟩

/-! ### signed variants -/

/-- weights in [-1,1] -/
def InPm1 (W : AMat ℚ n) : Prop := ∀ i j, -1 ≤ W.get i j ∧ W.get i j ≤ 1

@[simp] theorem zeroDiag_get (W : AMat ℚ n) (i j : Fin n) :
    (zeroDiag W).get i j = if i = j then 0 else W.get i j := by simp [zeroDiag]
@[simp] theorem posPart_get (W : AMat ℚ n) (i j : Fin n) :
    (posPart W).get i j = if 0 < W.get i j then W.get i j else 0 := by simp [posPart]
@[simp] theorem negPart_get (W : AMat ℚ n) (i j : Fin n) :
    (negPart W).get i j = if W.get i j < 0 then -W.get i j else 0 := by simp [negPart]

theorem zeroDiag_emptyDiag (W : AMat ℚ n) : EmptyDiag (zeroDiag W) := fun i => by simp
theorem zeroDiag_symm {W : AMat ℚ n} (h : Symm W) : Symm (zeroDiag W) := fun i j => by
  simp only [zeroDiag_get, h i j, eq_comm]
theorem posPart_emptyDiag {W : AMat ℚ n} (h : EmptyDiag W) : EmptyDiag (posPart W) := fun i => by simp [h i]
theorem negPart_emptyDiag {W : AMat ℚ n} (h : EmptyDiag W) : EmptyDiag (negPart W) := fun i => by simp [h i]
theorem posPart_symm {W : AMat ℚ n} (h : Symm W) : Symm (posPart W) := fun i j => by simp [h i j]
theorem negPart_symm {W : AMat ℚ n} (h : Symm W) : Symm (negPart W) := fun i j => by simp [h i j]
theorem zeroDiag_pm1 {W : AMat ℚ n} (h : InPm1 W) : InPm1 (zeroDiag W) := fun i j => by
  by_cases hij : i = j
  · simp [hij]
  · simpa [hij] using h i j
theorem posPart_in01 {W : AMat ℚ n} (h : InPm1 W) : In01 (posPart W) := fun i j => by
  simp only [posPart_get]; split_ifs with hp
  · exact ⟨hp.le, (h i j).2⟩
  · exact ⟨le_rfl, by norm_num⟩
theorem negPart_in01 {W : AMat ℚ n} (h : InPm1 W) : In01 (negPart W) := fun i j => by
  simp only [negPart_get]; split_ifs with hp
  · exact ⟨by linarith, by linarith [(h i j).1]⟩
  · exact ⟨le_rfl, by norm_num⟩

theorem zhangCore_get (P : AMat ℚ n) (i : Fin n) :
    (zhangCore P)[i] = perNode (∑ j, ∑ q, P.get j i * P.get i q * P.get j q)
      (∑ j, ∑ q, if j = q then 0 else P.get j i * P.get i q) := by
  simp only [zhangCore, get_ofFn_vec, vsum_eq]

theorem zhang_num_nonneg {P : AMat ℚ n} (h01 : In01 P) (i : Fin n) :
    0 ≤ ∑ j, ∑ q, P.get j i * P.get i q * P.get j q :=
  Finset.sum_nonneg fun j _ => Finset.sum_nonneg fun q _ =>
    mul_nonneg (mul_nonneg (h01 _ _).1 (h01 _ _).1) (h01 _ _).1

theorem zhang_num_le {P : AMat ℚ n} (h01 : In01 P) (hD : EmptyDiag P) (i : Fin n) :
    ∑ j, ∑ q, P.get j i * P.get i q * P.get j q ≤ ∑ j, ∑ q, if j = q then 0 else P.get j i * P.get i q := by
  refine Finset.sum_le_sum (fun j _ => Finset.sum_le_sum (fun q _ => ?_))
  by_cases hjq : j = q
  · subst hjq; simp [hD j]
  · rw [if_neg hjq]
    exact mul_le_of_le_one_right (mul_nonneg (h01 _ _).1 (h01 _ _).1) (h01 _ _).2

theorem range_zhang {P : AMat ℚ n} (h01 : In01 P) (hD : EmptyDiag P) (i : Fin n) :
    ∃ c, (zhangCore P)[i] = some c ∧ 0 ≤ c ∧ c ≤ 1 := by
  rw [zhangCore_get]; exact perNode_range (zhang_num_nonneg h01 i) (zhang_num_le h01 hD i)

theorem qabs_eq (x : ℚ) : qabs x = |x| := by
  unfold qabs; split_ifs with h
  · exact (abs_of_nonneg h).symm
  · exact (abs_of_neg (not_le.mp h)).symm

theorem ccSignCost_get (W : AMat ℚ n) (i : Fin n) :
    (ccSignCost W)[i] = perNode
      (∑ j, ∑ q, (zeroDiag W).get j i * (zeroDiag W).get i q * (zeroDiag W).get j q)
      (∑ j, ∑ q, if j = q then 0 else |(zeroDiag W).get j i * (zeroDiag W).get i q|) := by
  simp only [ccSignCost, get_ofFn_vec, vsum_eq, qabs_eq]

theorem cost_abs_le {Z : AMat ℚ n} (h : InPm1 Z) (hD : EmptyDiag Z) (i : Fin n) :
    |∑ j, ∑ q, Z.get j i * Z.get i q * Z.get j q| ≤ ∑ j, ∑ q, if j = q then 0 else |Z.get j i * Z.get i q| := by
  refine le_trans (Finset.abs_sum_le_sum_abs _ _) (Finset.sum_le_sum (fun j _ => ?_))
  refine le_trans (Finset.abs_sum_le_sum_abs _ _) (Finset.sum_le_sum (fun q _ => ?_))
  by_cases hjq : j = q
  · subst hjq; simp [hD j]
  · rw [if_neg hjq, abs_mul (Z.get j i * Z.get i q)]
    exact mul_le_of_le_one_right (abs_nonneg _) (abs_le.mpr (h j q))

theorem range_cost {W : AMat ℚ n} (h : InPm1 W) (i : Fin n) :
    ∃ c, (ccSignCost W)[i] = some c ∧ -1 ≤ c ∧ c ≤ 1 := by
  rw [ccSignCost_get]; exact perNode_range_abs (cost_abs_le (zeroDiag_pm1 h) (zeroDiag_emptyDiag W) i)

end Bct.Cluster
