import BctVerif.Lemmas.ClusterReduce
/-!
# Ranges, zero cases and the signed variants — generic over a linearly ordered field, then for the ℚ model
-/
namespace Bct.Cluster
open Finset Bct

variable {n : ℕ}

section Generic
variable {K : Type} [Field K] [LinearOrder K] [IsStrictOrderedRing K]

theorem perNode_range {c d : K} (h0 : 0 ≤ c) (hcd : c ≤ d) : ∃ x, perNodeK c d = some x ∧ 0 ≤ x ∧ x ≤ 1 := by
  by_cases hc : c = 0
  · exact ⟨0, by simp [perNodeK, hc], le_rfl, by norm_num⟩
  · have hc' : 0 < c := lt_of_le_of_ne h0 (Ne.symm hc)
    have hd : 0 < d := lt_of_lt_of_le hc' hcd
    exact ⟨c / d, perNode_of_ne hc (ne_of_gt hd), div_nonneg h0 hd.le, (div_le_one hd).mpr hcd⟩

theorem perNode_range_abs {c d : K} (hcd : |c| ≤ d) : ∃ x, perNodeK c d = some x ∧ -1 ≤ x ∧ x ≤ 1 := by
  by_cases hc : c = 0
  · exact ⟨0, by simp [perNodeK, hc], by norm_num, by norm_num⟩
  · have hd : 0 < d := lt_of_lt_of_le (abs_pos.mpr hc) hcd
    refine ⟨c / d, perNode_of_ne hc (ne_of_gt hd), ?_, ?_⟩
    · rw [le_div_iff₀ hd]; linarith [neg_abs_le c]
    · rw [div_le_one hd]; exact le_trans (le_abs_self c) hcd

theorem gdiv_range {c d t : K} (h0 : 0 ≤ c) (hcd : c ≤ d) (h : gdivK c d = some t) : 0 ≤ t ∧ t ≤ 1 := by
  unfold gdivK at h
  split_ifs at h with hd
  have hd' : 0 < d := lt_of_le_of_ne (le_trans h0 hcd) (Ne.symm hd)
  simp only [Option.some.injEq] at h
  subst h
  exact ⟨div_nonneg h0 hd'.le, (div_le_one hd').mpr hcd⟩

theorem triS_nonneg {R : AMat K n} (h : ∀ i j, 0 ≤ R.get i j) (i : Fin n) : 0 ≤ triS R i :=
  Finset.sum_nonneg fun j _ => Finset.sum_nonneg fun k _ =>
    mul_nonneg (mul_nonneg (add_nonneg (h _ _) (h _ _)) (add_nonneg (h _ _) (h _ _))) (add_nonneg (h _ _) (h _ _))

/-- the weighted Fagiolo bound on the sums of the routines -/
theorem triS_le_pairsS {W R : AMat K n} (hD : EmptyDiag W) (h01 : In01 W) (hR : IsCbrt R W) (i : Fin n) :
    triS R i / 2 ≤ pairsS (adjK W) i := by
  have h := fagiolo_bound_weighted (fun x y => (adjK W).get x y) (fun x y => R.get x y) (adj_bin W)
    (adj_emptyDiag hD) (fun x y => isCbrt_nonneg hR x y (h01 x y).1)
    (fun x y => by simpa using isCbrt_le_ind hR h01 x y) i
  have : triS R i ≤ 2 * pairsS (adjK W) i := h
  linarith

theorem in01_of_bin {A : AMat K n} (hB : Bin A) : In01 A := fun i j => ⟨bin_nonneg hB i j, bin_le_one hB i j⟩

/-- `clustering_coef_wd` in [0,1] for weights in [0,1] -/
theorem range_fagK {W R : AMat K n} (hD : EmptyDiag W) (h01 : In01 W) (hR : IsCbrt R W) (i : Fin n) :
    ∃ c, ccFagK (adjK W) R i = some c ∧ 0 ≤ c ∧ c ≤ 1 :=
  perNode_range (div_nonneg (triS_nonneg (fun x y => isCbrt_nonneg hR x y (h01 x y).1) i) (by norm_num))
    (triS_le_pairsS hD h01 hR i)

/-- `clustering_coef_wu` in [0,1] for weights in [0,1] -/
theorem range_wuK {W R : AMat K n} (hS : Symm W) (hD : EmptyDiag W) (h01 : In01 W) (hR : IsCbrt R W) (i : Fin n) :
    ∃ c, ccWuK W R i = some c ∧ 0 ≤ c ∧ c ≤ 1 := by
  rw [← ccFagK_symm hS (isCbrt_symm hR hS)]; exact range_fagK hD h01 hR i

theorem range_transFagK {W R : AMat K n} (hD : EmptyDiag W) (h01 : In01 W) (hR : IsCbrt R W) {t : K}
    (h : transFagK (adjK W) R = some t) : 0 ≤ t ∧ t ≤ 1 :=
  gdiv_range
    (Finset.sum_nonneg fun i _ => div_nonneg (triS_nonneg (fun x y => isCbrt_nonneg hR x y (h01 x y).1) i) (by norm_num))
    (Finset.sum_le_sum fun i _ => triS_le_pairsS hD h01 hR i) h

theorem range_transWuK {W R : AMat K n} (hS : Symm W) (hD : EmptyDiag W) (h01 : In01 W) (hR : IsCbrt R W) {t : K}
    (h : transWuK W R = some t) : 0 ≤ t ∧ t ≤ 1 := by
  rw [← transFagK_symm hS (isCbrt_symm hR hS)] at h; exact range_transFagK hD h01 hR h

/-! ### zero cases -/

theorem triS_zero_of_notri {R : AMat K n} {i : Fin n}
    (h : ∀ j k, ¬ (Nb R i j ∧ Nb R j k ∧ Nb R k i)) : triS R i = 0 := by
  refine Finset.sum_eq_zero (fun j _ => Finset.sum_eq_zero (fun k _ => ?_))
  by_contra hne
  have h1 := left_ne_zero_of_mul (left_ne_zero_of_mul hne)
  have h2 := right_ne_zero_of_mul (left_ne_zero_of_mul hne)
  have h3 := right_ne_zero_of_mul hne
  have nb : ∀ x y, R.get x y + R.get y x ≠ 0 → Nb R x y := by
    intro x y hxy; unfold Nb; by_contra hc; push Not at hc; exact hxy (by rw [hc.1, hc.2]; ring)
  exact h j k ⟨nb _ _ h1, nb _ _ h2, nb _ _ h3⟩

theorem nb_root_iff {R W : AMat K n} (hR : IsCbrt R W) (i j : Fin n) : Nb R i j ↔ Nb W i j := by
  unfold Nb; simp only [ne_eq, isCbrt_zero_iff hR i j, isCbrt_zero_iff hR j i]

/-- fewer than two neighbours (with an empty diagonal) ⇒ no triangle -/
theorem notri_of_lt2 {W : AMat K n} (hD : EmptyDiag W) {i : Fin n}
    (h : ∀ j k, Nb W i j → Nb W i k → j = k) : ∀ j k, ¬ (Nb W i j ∧ Nb W j k ∧ Nb W k i) := by
  rintro j k ⟨h1, h2, h3⟩
  have h3' : Nb W i k := by unfold Nb at h3 ⊢; tauto
  have := h j k h1 h3'
  subst this
  unfold Nb at h2; rw [hD j] at h2; tauto

theorem tri_zero_of_notri {R : AMat K n} {i : Fin n}
    (h : ∀ j k, ¬ (R.get i j ≠ 0 ∧ R.get j k ≠ 0 ∧ R.get k i ≠ 0)) : tri R i = 0 := by
  refine Finset.sum_eq_zero (fun j _ => Finset.sum_eq_zero (fun k _ => ?_))
  by_contra hne
  exact h j k ⟨left_ne_zero_of_mul (left_ne_zero_of_mul hne), right_ne_zero_of_mul (left_ne_zero_of_mul hne),
    right_ne_zero_of_mul hne⟩

theorem fagK_zero_notri {A R W : AMat K n} (hR : IsCbrt R W) (i : Fin n)
    (h : ∀ j k, ¬ (Nb W i j ∧ Nb W j k ∧ Nb W k i)) : ccFagK A R i = some 0 := by
  have h' : ∀ j k, ¬ (Nb R i j ∧ Nb R j k ∧ Nb R k i) := fun j k => by
    rw [nb_root_iff hR, nb_root_iff hR, nb_root_iff hR]; exact h j k
  rw [ccFagK, triS_zero_of_notri h']; simp [perNodeK]

theorem wuK_zero_notri {W R : AMat K n} (hR : IsCbrt R W) (i : Fin n)
    (h : ∀ j k, ¬ (W.get i j ≠ 0 ∧ W.get j k ≠ 0 ∧ W.get k i ≠ 0)) : ccWuK W R i = some 0 := by
  have h' : ∀ j k, ¬ (R.get i j ≠ 0 ∧ R.get j k ≠ 0 ∧ R.get k i ≠ 0) := fun j k => by
    simp only [ne_eq, isCbrt_zero_iff hR]; exact h j k
  rw [ccWuK, tri_zero_of_notri h']; simp [perNodeK]

theorem wuK_zero_lt2 {W R : AMat K n} (hS : Symm W) (hD : EmptyDiag W) (hR : IsCbrt R W) (i : Fin n)
    (h : deg W i < 2) : ccWuK W R i = some 0 := by
  rw [ccWuK]
  by_cases ht : tri R i = 0
  · rw [ht]; simp [perNodeK]
  · exact absurd (tri_ne_zero_deg hS hD hR ht) (not_le.mpr h)

/-- a nonzero Fagiolo numerator forces a positive denominator (any signed weights, empty diagonal) -/
theorem pairsS_pos_of_triS {W R : AMat K n} (hD : EmptyDiag W) (hR : IsCbrt R W) {i : Fin n}
    (h : triS R i ≠ 0) : 0 < pairsS (adjK W) i := by
  obtain ⟨j, k, hjk, h1, -, h3⟩ := triS_ne_zero (isCbrt_emptyDiag hR hD) h
  have one_le : ∀ x y, R.get x y + R.get y x ≠ 0 → 1 ≤ (adjK W).get x y + (adjK W).get y x := by
    intro x y hxy
    have : W.get x y ≠ 0 ∨ W.get y x ≠ 0 := by
      by_contra hc; push Not at hc
      exact hxy (by rw [(isCbrt_zero_iff hR x y).mpr hc.1, (isCbrt_zero_iff hR y x).mpr hc.2]; ring)
    rcases this with h | h
    · have e : indK (W.get x y) = 1 := by simp [indK, h]
      simp only [adjK_get, e]; linarith [ind_nonneg (W.get y x)]
    · have e : indK (W.get y x) = 1 := by simp [indK, h]
      simp only [adjK_get, e]; linarith [ind_nonneg (W.get x y)]
  refine pairsS_pos (adj_bin W) hjk (one_le _ _ h1) ?_
  rw [add_comm]; exact one_le _ _ h3

theorem fagK_def {W R : AMat K n} (hD : EmptyDiag W) (hR : IsCbrt R W) (i : Fin n) :
    ccFagK (adjK W) R i = some (triS R i / 2 / pairsS (adjK W) i) :=
  perNode_eq_div (fun h => ne_of_gt (pairsS_pos_of_triS hD hR (fun h0 => h (by rw [h0]; norm_num))))

theorem wuK_def {W R : AMat K n} (hS : Symm W) (hD : EmptyDiag W) (hR : IsCbrt R W) (i : Fin n) :
    ccWuK W R i = some (tri R i / (deg W i * (deg W i - 1))) :=
  perNode_eq_div (fun h => ne_of_gt (deg_pairs_pos (tri_ne_zero_deg hS hD hR h)))

/-! ### signed variants -/

theorem zeroDiag_emptyDiag (W : AMat K n) : EmptyDiag (zeroDiagK W) := fun i => by simp
theorem zeroDiag_symm {W : AMat K n} (h : Symm W) : Symm (zeroDiagK W) := fun i j => by
  simp only [zeroDiag_get, h i j, eq_comm]
theorem posPart_emptyDiag {W : AMat K n} (h : EmptyDiag W) : EmptyDiag (posPartK W) := fun i => by simp [h i]
theorem negPart_emptyDiag {W : AMat K n} (h : EmptyDiag W) : EmptyDiag (negPartK W) := fun i => by simp [h i]
theorem posPart_symm {W : AMat K n} (h : Symm W) : Symm (posPartK W) := fun i j => by simp [h i j]
theorem negPart_symm {W : AMat K n} (h : Symm W) : Symm (negPartK W) := fun i j => by simp [h i j]
theorem zeroDiag_pm1 {W : AMat K n} (h : InPm1 W) : InPm1 (zeroDiagK W) := fun i j => by
  by_cases hij : i = j
  · simp [hij]
  · simpa [hij] using h i j
theorem posPart_in01 {W : AMat K n} (h : InPm1 W) : In01 (posPartK W) := fun i j => by
  simp only [posPart_get]; split_ifs with hp
  · exact ⟨hp.le, (h i j).2⟩
  · exact ⟨le_rfl, by norm_num⟩
theorem negPart_in01 {W : AMat K n} (h : InPm1 W) : In01 (negPartK W) := fun i j => by
  simp only [negPart_get]; split_ifs with hp
  · exact ⟨by linarith, by linarith [(h i j).1]⟩
  · exact ⟨le_rfl, by norm_num⟩

theorem zhang_num_nonneg {P : AMat K n} (h01 : In01 P) (i : Fin n) :
    0 ≤ ∑ j, ∑ q, P.get j i * P.get i q * P.get j q :=
  Finset.sum_nonneg fun j _ => Finset.sum_nonneg fun q _ =>
    mul_nonneg (mul_nonneg (h01 _ _).1 (h01 _ _).1) (h01 _ _).1

theorem zhang_num_le {P : AMat K n} (h01 : In01 P) (hD : EmptyDiag P) (i : Fin n) :
    ∑ j, ∑ q, P.get j i * P.get i q * P.get j q ≤ ∑ j, ∑ q, if j = q then 0 else P.get j i * P.get i q := by
  refine Finset.sum_le_sum (fun j _ => Finset.sum_le_sum (fun q _ => ?_))
  by_cases hjq : j = q
  · subst hjq; simp [hD j]
  · rw [if_neg hjq]
    exact mul_le_of_le_one_right (mul_nonneg (h01 _ _).1 (h01 _ _).1) (h01 _ _).2

theorem range_zhang {P : AMat K n} (h01 : In01 P) (hD : EmptyDiag P) (i : Fin n) :
    ∃ c, zhangK P i = some c ∧ 0 ≤ c ∧ c ≤ 1 :=
  perNode_range (zhang_num_nonneg h01 i) (zhang_num_le h01 hD i)

theorem zhang_def {P : AMat K n} (h01 : In01 P) (hD : EmptyDiag P) (i : Fin n) :
    zhangK P i = some ((∑ j, ∑ q, P.get j i * P.get i q * P.get j q) /
      (∑ j, ∑ q, if j = q then 0 else P.get j i * P.get i q)) :=
  perNode_eq_div fun h => ne_of_gt
    (lt_of_lt_of_le (lt_of_le_of_ne (zhang_num_nonneg h01 i) (Ne.symm h)) (zhang_num_le h01 hD i))

/-- no pair of distinct nodes `j ≠ q` both linked to `i` and to each other in `P` ⇒ exactly 0 -/
theorem zhang_zero {P : AMat K n} (i : Fin n)
    (h : ∀ j q, ¬ (P.get j i ≠ 0 ∧ P.get i q ≠ 0 ∧ P.get j q ≠ 0)) : zhangK P i = some 0 := by
  have : (∑ j, ∑ q, P.get j i * P.get i q * P.get j q) = 0 := by
    refine Finset.sum_eq_zero (fun j _ => Finset.sum_eq_zero (fun q _ => ?_))
    by_contra hne
    exact h j q ⟨left_ne_zero_of_mul (left_ne_zero_of_mul hne), right_ne_zero_of_mul (left_ne_zero_of_mul hne),
      right_ne_zero_of_mul hne⟩
  rw [zhangK, this]; simp [perNodeK]

theorem cost_abs_le {Z : AMat K n} (h : InPm1 Z) (hD : EmptyDiag Z) (i : Fin n) :
    |∑ j, ∑ q, Z.get j i * Z.get i q * Z.get j q| ≤ ∑ j, ∑ q, if j = q then 0 else |Z.get j i * Z.get i q| := by
  refine le_trans (Finset.abs_sum_le_sum_abs _ _) (Finset.sum_le_sum (fun j _ => ?_))
  refine le_trans (Finset.abs_sum_le_sum_abs _ _) (Finset.sum_le_sum (fun q _ => ?_))
  by_cases hjq : j = q
  · subst hjq; simp [hD j]
  · rw [if_neg hjq, abs_mul (Z.get j i * Z.get i q)]
    exact mul_le_of_le_one_right (abs_nonneg _) (abs_le.mpr (h j q))

theorem range_costK {W : AMat K n} (h : InPm1 W) (i : Fin n) :
    ∃ c, costK (zeroDiagK W) i = some c ∧ -1 ≤ c ∧ c ≤ 1 :=
  perNode_range_abs (cost_abs_le (zeroDiag_pm1 h) (zeroDiag_emptyDiag W) i)

theorem cost_zero {Z : AMat K n} (i : Fin n)
    (h : ∀ j q, ¬ (Z.get j i ≠ 0 ∧ Z.get i q ≠ 0 ∧ Z.get j q ≠ 0)) : costK Z i = some 0 := by
  have : (∑ j, ∑ q, Z.get j i * Z.get i q * Z.get j q) = 0 := by
    refine Finset.sum_eq_zero (fun j _ => Finset.sum_eq_zero (fun q _ => ?_))
    by_contra hne
    exact h j q ⟨left_ne_zero_of_mul (left_ne_zero_of_mul hne), right_ne_zero_of_mul (left_ne_zero_of_mul hne),
      right_ne_zero_of_mul hne⟩
  rw [costK, this]; simp [perNodeK]

/-! ### with an empty diagonal the sums over all pairs `(j,k)` range over *distinct node triples* only -/

theorem tri_distinct {R : AMat K n} (hD : EmptyDiag R) (i : Fin n) :
    tri R i = ∑ j, ∑ k, if j ≠ i ∧ k ≠ i ∧ j ≠ k then R.get i j * R.get j k * R.get k i else 0 := by
  unfold tri
  refine Finset.sum_congr rfl (fun j _ => Finset.sum_congr rfl (fun k _ => ?_))
  split_ifs with h
  · rfl
  · by_cases h1 : j = i
    · subst h1; simp [hD j]
    · by_cases h2 : k = i
      · subst h2; simp [hD k]
      · have h3 : j = k := by by_contra h3; exact h ⟨h1, h2, h3⟩
        subst h3; simp [hD j]

theorem triS_distinct {R : AMat K n} (hD : EmptyDiag R) (i : Fin n) :
    triS R i = ∑ j, ∑ k, if j ≠ i ∧ k ≠ i ∧ j ≠ k then
      (R.get i j + R.get j i) * (R.get j k + R.get k j) * (R.get k i + R.get i k) else 0 := by
  unfold triS
  refine Finset.sum_congr rfl (fun j _ => Finset.sum_congr rfl (fun k _ => ?_))
  split_ifs with h
  · rfl
  · by_cases h1 : j = i
    · subst h1; simp [hD j]
    · by_cases h2 : k = i
      · subst h2; simp [hD k]
      · have h3 : j = k := by by_contra h3; exact h ⟨h1, h2, h3⟩
        subst h3; simp [hD j]

end Generic

/-! ### the ℚ model -/

theorem range_wd {W R : AMat ℚ n} (hD : EmptyDiag W) (h01 : In01 W) (hR : IsCbrt R W) (i : Fin n) :
    ∃ c, (ccWd W R)[i] = some c ∧ 0 ≤ c ∧ c ≤ 1 := by
  rw [ccWd_get]; exact range_fagK hD h01 hR i

theorem range_bd {A : AMat ℚ n} (hB : Bin A) (hD : EmptyDiag A) (i : Fin n) :
    ∃ c, (ccBd A)[i] = some c ∧ 0 ≤ c ∧ c ≤ 1 := by
  rw [← wd_eq_bd_on01 hB]; exact range_wd hD (in01_of_bin hB) (isCbrt_of_bin hB) i

theorem range_wu {W R : AMat ℚ n} (hS : Symm W) (hD : EmptyDiag W) (h01 : In01 W) (hR : IsCbrt R W) (i : Fin n) :
    ∃ c, (ccWu W R)[i] = some c ∧ 0 ≤ c ∧ c ≤ 1 := by
  rw [ccWu_get]; exact range_wuK hS hD h01 hR i

theorem range_bu {G : AMat ℚ n} (hB : Bin G) (hS : Symm G) (hD : EmptyDiag G) (u : Fin n) :
    ∃ c, (ccBu G)[u] = some c ∧ 0 ≤ c ∧ c ≤ 1 := by
  rw [← bd_eq_bu_symm hB hS hD]; exact range_bd hB hD u

theorem range_trans_wd {W R : AMat ℚ n} (hD : EmptyDiag W) (h01 : In01 W) (hR : IsCbrt R W) {t : ℚ}
    (h : transWd W R = some t) : 0 ≤ t ∧ t ≤ 1 := by
  rw [transWd_eq] at h; exact range_transFagK hD h01 hR h

theorem range_trans_bd {A : AMat ℚ n} (hB : Bin A) (hD : EmptyDiag A) {t : ℚ} (h : transBd A = some t) :
    0 ≤ t ∧ t ≤ 1 := by
  rw [← trans_wd_eq_bd_on01 hB] at h; exact range_trans_wd hD (in01_of_bin hB) (isCbrt_of_bin hB) h

theorem range_trans_wu {W R : AMat ℚ n} (hS : Symm W) (hD : EmptyDiag W) (h01 : In01 W) (hR : IsCbrt R W) {t : ℚ}
    (h : transWu W R = some t) : 0 ≤ t ∧ t ≤ 1 := by
  rw [transWu_eq] at h; exact range_transWuK hS hD h01 hR h

theorem range_trans_bu {A : AMat ℚ n} (hB : Bin A) (hS : Symm A) (hD : EmptyDiag A) {t : ℚ} (h : transBu A = some t) :
    0 ≤ t ∧ t ≤ 1 := by
  rw [← trans_bd_eq_bu_symm hB hS] at h; exact range_trans_bd hB hD h

end Bct.Cluster
