import Mathlib.Algebra.BigOperators.Group.Finset.Basic
import Mathlib.Data.Fintype.BigOperators
import Mathlib.Data.Fintype.Basic
import Mathlib.Logic.Equiv.Basic
import Mathlib.Tactic
import BctVerif.Model.Rewire

/-!
# Function-level algebra of the rewiring cell assignments

`Mat n = Fin n → Fin n → ℤ`; `upd`; `swapDirF`/`swapUndF` are the four / eight assignments of the
rewiring routines in program order.  The refinement lemmas at the end identify them with the
executable `Bct.Rewire.swapDir` / `swapUnd` through `AMat.toFun`.
-/
open Finset

namespace Bct.RewireFun

variable {n : ℕ}

abbrev Mat (n : ℕ) := Fin n → Fin n → ℤ

def upd (R : Mat n) (i j : Fin n) (v : ℤ) : Mat n :=
  fun i' j' => if i' = i ∧ j' = j then v else R i' j'

def swapDirF (R : Mat n) (a b c d : Fin n) : Mat n :=
  let R1 := upd R a d (R a b)
  let R2 := upd R1 a b 0
  let R3 := upd R2 c b (R2 c d)
  upd R3 c d 0

def swapUndF (R : Mat n) (a b c d : Fin n) : Mat n :=
  let R1 := upd R a d (R a b)
  let R2 := upd R1 a b 0
  let R3 := upd R2 d a (R2 b a)
  let R4 := upd R3 b a 0
  let R5 := upd R4 c b (R4 c d)
  let R6 := upd R5 c d 0
  let R7 := upd R6 b c (R6 d c)
  upd R7 d c 0

def rowCnt (R : Mat n) (r : Fin n) : ℕ := ∑ j, if R r j ≠ 0 then 1 else 0
def colCnt (R : Mat n) (c : Fin n) : ℕ := ∑ i, if R i c ≠ 0 then 1 else 0
def rowSum (R : Mat n) (r : Fin n) : ℤ := ∑ j, R r j

/-- the multiset of all `n²` cell values -/
def cellValues (R : Mat n) : Multiset ℤ := (Finset.univ : Finset (Fin n × Fin n)).val.map fun p => R p.1 p.2

theorem cellValues_comp (R : Mat n) (σ : Equiv.Perm (Fin n × Fin n)) :
    cellValues (fun i j => R (σ (i, j)).1 (σ (i, j)).2) = cellValues R := by
  unfold cellValues
  have h : (Finset.univ : Finset (Fin n × Fin n)).val.map (fun p => R (σ p).1 (σ p).2)
      = ((Finset.univ : Finset (Fin n × Fin n)).val.map σ).map (fun p => R p.1 p.2) := by
    rw [Multiset.map_map]; rfl
  rw [h, Multiset.map_univ_val_equiv]

/-! ### directed swap -/

theorem swapDirF_apply (R : Mat n) (a b c d : Fin n)
    (hac : a ≠ c) (hbd : b ≠ d) (had : R a d = 0) (hcb : R c b = 0) (i j : Fin n) :
    swapDirF R a b c d i j = R i (if i = a ∨ i = c then Equiv.swap b d j else j) := by
  simp only [swapDirF, upd]
  by_cases hia : i = a <;> by_cases hic : i = c <;> by_cases hjb : j = b <;> by_cases hjd : j = d <;>
    simp_all [Equiv.swap_apply_def]

/-- the cell involution of the directed swap -/
def tauDir (a b c d : Fin n) (p : Fin n × Fin n) : Fin n × Fin n :=
  (p.1, if p.1 = a ∨ p.1 = c then Equiv.swap b d p.2 else p.2)

theorem tauDir_invol (a b c d : Fin n) : Function.Involutive (tauDir a b c d) := by
  intro p
  obtain ⟨i, j⟩ := p
  simp only [tauDir]
  by_cases h : i = a ∨ i = c <;> simp [h]

theorem swapDirF_cellValues (R : Mat n) (a b c d : Fin n)
    (hac : a ≠ c) (hbd : b ≠ d) (had : R a d = 0) (hcb : R c b = 0) :
    cellValues (swapDirF R a b c d) = cellValues R := by
  have : swapDirF R a b c d = fun i j => R ((tauDir_invol a b c d).toPerm _ (i, j)).1 ((tauDir_invol a b c d).toPerm _ (i, j)).2 := by
    funext i j
    rw [swapDirF_apply R a b c d hac hbd had hcb]
    simp [Function.Involutive.toPerm, tauDir]
  rw [this, cellValues_comp]

theorem swapDirF_row (R : Mat n) (a b c d r : Fin n)
    (hac : a ≠ c) (hbd : b ≠ d) (had : R a d = 0) (hcb : R c b = 0) :
    rowCnt (swapDirF R a b c d) r = rowCnt R r := by
  unfold rowCnt
  simp only [swapDirF_apply R a b c d hac hbd had hcb]
  by_cases h : r = a ∨ r = c
  · simp only [h, if_true]
    exact Equiv.sum_comp (Equiv.swap b d) (fun j => if R r j ≠ 0 then 1 else 0)
  · simp only [h, if_false]

theorem swapDirF_rsum (R : Mat n) (a b c d r : Fin n)
    (hac : a ≠ c) (hbd : b ≠ d) (had : R a d = 0) (hcb : R c b = 0) :
    rowSum (swapDirF R a b c d) r = rowSum R r := by
  unfold rowSum
  simp only [swapDirF_apply R a b c d hac hbd had hcb]
  by_cases h : r = a ∨ r = c
  · simp only [h, if_true]
    exact Equiv.sum_comp (Equiv.swap b d) (fun j => R r j)
  · simp only [h, if_false]

/-- support of column `x` after the swap = support before, with rows a and c exchanged -/
theorem swapDirF_col (R : Mat n) (a b c d x : Fin n)
    (hac : a ≠ c) (hbd : b ≠ d) (had : R a d = 0) (hcb : R c b = 0)
    (hab : R a b ≠ 0) (hcd : R c d ≠ 0) :
    colCnt (swapDirF R a b c d) x = colCnt R x := by
  unfold colCnt
  have key : ∀ i, (if swapDirF R a b c d i x ≠ 0 then 1 else 0 : ℕ)
      = (fun i => if R i x ≠ 0 then 1 else 0) (if x = b ∨ x = d then Equiv.swap a c i else i) := by
    intro i
    rw [swapDirF_apply R a b c d hac hbd had hcb]
    by_cases hia : i = a <;> by_cases hic : i = c <;> by_cases hxb : x = b <;> by_cases hxd : x = d <;>
      simp_all [Equiv.swap_apply_def]
  simp only [key]
  by_cases h : x = b ∨ x = d
  · simp only [h, if_true]
    exact Equiv.sum_comp (Equiv.swap a c) (fun i => if R i x ≠ 0 then 1 else 0)
  · simp only [h, if_false]

/-! ### undirected swap -/

/-- source cell of each cell after the undirected swap: an involution on cells -/
def tauUnd (a b c d : Fin n) (p : Fin n × Fin n) : Fin n × Fin n :=
  if p = (a, d) then (a, b) else if p = (a, b) then (a, d)
  else if p = (d, a) then (b, a) else if p = (b, a) then (d, a)
  else if p = (c, b) then (c, d) else if p = (c, d) then (c, b)
  else if p = (b, c) then (d, c) else if p = (d, c) then (b, c) else p

theorem swapUndF_apply (R : Mat n) (a b c d : Fin n)
    (hab : a ≠ b) (hac : a ≠ c) (had : a ≠ d) (hbc : b ≠ c) (hbd : b ≠ d) (hcd : c ≠ d)
    (h1 : R a d = 0) (h2 : R d a = 0) (h3 : R c b = 0) (h4 : R b c = 0) (i j : Fin n) :
    swapUndF R a b c d i j = R (tauUnd a b c d (i, j)).1 (tauUnd a b c d (i, j)).2 := by
  simp only [swapUndF, upd, tauUnd, Prod.mk.injEq]
  by_cases hia : i = a <;> by_cases hib : i = b <;> by_cases hic : i = c <;> by_cases hid : i = d <;>
  by_cases hja : j = a <;> by_cases hjb : j = b <;> by_cases hjc : j = c <;> by_cases hjd : j = d <;>
    simp_all

theorem tauUnd_invol (a b c d : Fin n)
    (hab : a ≠ b) (hac : a ≠ c) (had : a ≠ d) (hbc : b ≠ c) (hbd : b ≠ d) (hcd : c ≠ d) :
    Function.Involutive (tauUnd a b c d) := by
  intro p
  obtain ⟨i, j⟩ := p
  simp only [tauUnd, Prod.mk.injEq]
  by_cases hia : i = a <;> by_cases hib : i = b <;> by_cases hic : i = c <;> by_cases hid : i = d <;>
  by_cases hja : j = a <;> by_cases hjb : j = b <;> by_cases hjc : j = c <;> by_cases hjd : j = d <;>
    simp_all

theorem swapUndF_cellValues (R : Mat n) (a b c d : Fin n)
    (hab : a ≠ b) (hac : a ≠ c) (had : a ≠ d) (hbc : b ≠ c) (hbd : b ≠ d) (hcd : c ≠ d)
    (h1 : R a d = 0) (h2 : R d a = 0) (h3 : R c b = 0) (h4 : R b c = 0) :
    cellValues (swapUndF R a b c d) = cellValues R := by
  have inv := tauUnd_invol a b c d hab hac had hbc hbd hcd
  have : swapUndF R a b c d = fun i j => R (inv.toPerm _ (i, j)).1 (inv.toPerm _ (i, j)).2 := by
    funext i j
    rw [swapUndF_apply R a b c d hab hac had hbc hbd hcd h1 h2 h3 h4]
    simp [Function.Involutive.toPerm]
  rw [this, cellValues_comp]

/-- support of row r after the swap = old support with two columns exchanged -/
def sigmaUnd (a b c d i : Fin n) : Equiv.Perm (Fin n) :=
  if i = a ∨ i = c then Equiv.swap b d else if i = b ∨ i = d then Equiv.swap a c else Equiv.refl _

theorem swapUndF_row (R : Mat n) (a b c d r : Fin n)
    (hab : a ≠ b) (hac : a ≠ c) (had : a ≠ d) (hbc : b ≠ c) (hbd : b ≠ d) (hcd : c ≠ d)
    (h1 : R a d = 0) (h2 : R d a = 0) (h3 : R c b = 0) (h4 : R b c = 0)
    (e1 : R a b ≠ 0) (e2 : R b a ≠ 0) (e3 : R c d ≠ 0) (e4 : R d c ≠ 0) :
    rowCnt (swapUndF R a b c d) r = rowCnt R r := by
  unfold rowCnt
  have key : ∀ j, (if swapUndF R a b c d r j ≠ 0 then 1 else 0 : ℕ)
      = (fun j => if R r j ≠ 0 then 1 else 0) (sigmaUnd a b c d r j) := by
    intro j
    rw [swapUndF_apply R a b c d hab hac had hbc hbd hcd h1 h2 h3 h4]
    simp only [tauUnd, sigmaUnd, Prod.mk.injEq]
    by_cases hia : r = a <;> by_cases hib : r = b <;> by_cases hic : r = c <;> by_cases hid : r = d <;>
    by_cases hja : j = a <;> by_cases hjb : j = b <;> by_cases hjc : j = c <;> by_cases hjd : j = d <;>
      simp_all [Equiv.swap_apply_def]
  simp only [key]
  exact Equiv.sum_comp (sigmaUnd a b c d r) (fun j => if R r j ≠ 0 then 1 else 0)

theorem swapUndF_symm (R : Mat n) (a b c d : Fin n)
    (hab : a ≠ b) (hac : a ≠ c) (had : a ≠ d) (hbc : b ≠ c) (hbd : b ≠ d) (hcd : c ≠ d)
    (h1 : R a d = 0) (h3 : R c b = 0) (hs : ∀ i j, R i j = R j i) (i j : Fin n) :
    swapUndF R a b c d i j = swapUndF R a b c d j i := by
  have h2 : R d a = 0 := by rw [hs]; exact h1
  have h4 : R b c = 0 := by rw [hs]; exact h3
  rw [swapUndF_apply R a b c d hab hac had hbc hbd hcd h1 h2 h3 h4,
      swapUndF_apply R a b c d hab hac had hbc hbd hcd h1 h2 h3 h4]
  simp only [tauUnd, Prod.mk.injEq]
  by_cases hia : i = a <;> by_cases hib : i = b <;> by_cases hic : i = c <;> by_cases hid : i = d <;>
  by_cases hja : j = a <;> by_cases hjb : j = b <;> by_cases hjc : j = c <;> by_cases hjd : j = d <;>
    simp_all

theorem colCnt_eq_rowCnt_of_symm (R : Mat n) (hs : ∀ i j, R i j = R j i) (x : Fin n) :
    colCnt R x = rowCnt R x := by
  unfold colCnt rowCnt
  apply Finset.sum_congr rfl
  intro i _
  rw [hs i x]

/-! ### refinement: the executable `Vector` code computes these functions -/

open Bct Bct.Rewire

theorem toFun_set (A : AMat Int n) (i j : Fin n) (v : Int) :
    (A.set i j v).toFun = upd A.toFun i j v := by
  funext i' j'
  simp only [AMat.toFun, upd, AMat.get_set]

theorem get_eq_toFun (A : AMat Int n) (i j : Fin n) : A.get i j = A.toFun i j := rfl

theorem toFun_swapDir (R : AMat Int n) (a b c d : Fin n) :
    (swapDir R a b c d).toFun = swapDirF R.toFun a b c d := by
  simp only [swapDir, swapDirF, get_eq_toFun, toFun_set]

theorem toFun_swapUnd (R : AMat Int n) (a b c d : Fin n) :
    (swapUnd R a b c d).toFun = swapUndF R.toFun a b c d := by
  simp only [swapUnd, swapUndF, get_eq_toFun, toFun_set]

end Bct.RewireFun
