import BctVerif.Lemmas.NbsObs
/-!
# Totality of the NBS model on its domain
-/
namespace Bct.Nbs

variable {n : ℕ}

/-- the recorded draws have the right shape for `k` relabellings: enough of them, and (two-sample) every block of `nx+ny`
draws is a list of indices below `nx+ny` (what `rng.permutation(nx+ny)` records) -/
def GoodDraws (paired : Bool) (nx ny : ℕ) : ℕ → List ℕ → Prop
  | 0, _ => True
  | k + 1, ds =>
    let need := if paired then nx else nx + ny
    need ≤ ds.length ∧ (paired = true ∨ validPerm (nx + ny) (ds.take need) = true) ∧ GoodDraws paired nx ny k (ds.drop need)

theorem nullOne_total (paired : Bool) (nx ny : ℕ) (x y : Cells n) (thr : ℚ) (tail : Tail) (ds : List ℕ)
    (hlen : (if paired then nx else nx + ny) ≤ ds.length)
    (hperm : paired = true ∨ validPerm (nx + ny) (ds.take (if paired then nx else nx + ny)) = true) :
    ∃ v, nullOne paired nx ny x y thr tail ds = .ok (v, ds.drop (if paired then nx else nx + ny)) := by
  cases paired with
  | true =>
    simp only [if_true] at hlen
    simp only [nullOne, if_true]
    rw [if_neg (by omega)]
    exact ⟨_, rfl⟩
  | false =>
    simp only [Bool.false_eq_true, if_false, false_or] at hlen hperm
    simp only [nullOne, Bool.false_eq_true, if_false]
    rw [if_neg (by omega)]
    simp only [hperm, Bool.not_true, Bool.false_eq_true, if_false]
    exact ⟨_, rfl⟩

theorem nullVals_total (paired : Bool) (nx ny : ℕ) (x y : Cells n) (thr : ℚ) (tail : Tail) :
    ∀ (k : ℕ) (ds : List ℕ), GoodDraws paired nx ny k ds →
      ∃ vs, nullVals paired nx ny x y thr tail k ds = .ok (vs, ds.drop (k * (if paired then nx else nx + ny))) := by
  intro k
  induction k with
  | zero => intro ds _; exact ⟨[], by simp [nullVals]⟩
  | succ k ih =>
    intro ds hg
    obtain ⟨hlen, hperm, hrest⟩ := hg
    obtain ⟨v, hv⟩ := nullOne_total paired nx ny x y thr tail ds hlen hperm
    obtain ⟨vs, hvs⟩ := ih _ hrest
    refine ⟨v :: vs, ?_⟩
    rw [nullVals, hv]
    simp only [hvs, List.drop_drop]
    congr 3
    ring

/-- **totality**: well-shaped stacks with at least two subjects per group (equal groups when paired), at least one
suprathreshold connection, `k ≠ 0` and recorded draws of the right shape ⇒ the model returns -/
theorem nbs_total (paired : Bool) (nx ny : ℕ) (x y : Cells n) (thr : ℚ) (tail : Tail) (k : ℕ) (ds : List ℕ)
    (hx : wellShaped nx x = true) (hy : wellShaped ny y = true) (hnx : 2 ≤ nx) (hny : 2 ≤ ny)
    (hpair : paired = true → nx = ny) (hedge : anyEdge (adj0 paired x y thr tail) = true) (hk : k ≠ 0)
    (hd : GoodDraws paired nx ny k ds) :
    ∃ o, nbs paired nx ny x y thr tail k ds = .ok (o, ds.drop (k * (if paired then nx else nx + ny))) := by
  obtain ⟨vs, hvs⟩ := nullVals_total paired nx ny x y thr tail k ds hd
  unfold nbs
  rw [if_neg (by simp [hx, hy])]
  rw [if_neg (by
    cases paired with
    | false => simp
    | true => simp [hpair rfl])]
  rw [if_neg (by simp; omega)]
  simp only [hedge, Bool.not_true, Bool.false_eq_true, if_false, hvs, if_neg hk]
  exact ⟨_, rfl⟩

end Bct.Nbs
