import BctVerif.Model.Core
import Mathlib.Algebra.BigOperators.Group.Finset.Basic
import Mathlib.Algebra.Order.BigOperators.Group.Finset
import Mathlib.Algebra.BigOperators.Fin
import Mathlib.Data.Fintype.BigOperators
import Mathlib.Data.Fintype.Card
import Mathlib.Tactic

/-!
# Set-level peeling and its refinement by `Bct.Core.peelLoop`

* `dIn wt S v = ∑ w ∈ S, wt w v` — degree / strength of `v` inside the node set `S`;
* `peelRound`, `peel` — one / `fuel` simultaneous peeling rounds on node sets
  (ported from `design-proto/C15_kcore_maximal.lean`, generalised from `ℕ`-valued degrees of a Boolean
  adjacency to any non-negative weight function with values in an ordered additive monoid);
* `peel_keeps`, `peel_fix`, `peel_core` — the three prototype lemmas;
* `Bridge` — what ties a concrete degree function on `AMat` to `dIn`;
* `peelLoop_spec` — the executable loop run on `A` restricted to `S` returns `A` restricted to
  `peel fuel S`, and its peel order lists exactly `S \ peel fuel S`, each node once;
* `core_spec` — the package used by `Props/C15.lean`.
-/
namespace Bct.Core
open Finset

variable {n : ℕ} {β : Type} [AddCommMonoid β] [LinearOrder β] [IsOrderedAddMonoid β]

/-- degree (strength) of `v` inside the node set `S` -/
def dIn (wt : Fin n → Fin n → β) (S : Finset (Fin n)) (v : Fin n) : β := ∑ w ∈ S, wt w v

theorem dIn_mono {wt : Fin n → Fin n → β} (h0 : ∀ w v, 0 ≤ wt w v) {S T : Finset (Fin n)} (h : T ⊆ S)
    (v : Fin n) : dIn wt T v ≤ dIn wt S v :=
  Finset.sum_le_sum_of_subset_of_nonneg h (fun w _ _ => h0 w v)

theorem dIn_nonneg {wt : Fin n → Fin n → β} (h0 : ∀ w v, 0 ≤ wt w v) (S : Finset (Fin n)) (v : Fin n) :
    0 ≤ dIn wt S v := Finset.sum_nonneg (fun w _ => h0 w v)

/-- one peeling round: drop every node whose degree inside the current set is positive but below `k` -/
def peelRound (d : Finset (Fin n) → Fin n → β) (k : β) (S : Finset (Fin n)) : Finset (Fin n) :=
  S.filter (fun v => ¬ (0 < d S v ∧ d S v < k))

def peel (d : Finset (Fin n) → Fin n → β) (k : β) : ℕ → Finset (Fin n) → Finset (Fin n)
  | 0, S => S
  | fuel + 1, S => peel d k fuel (peelRound d k S)

section setlevel
variable (d : Finset (Fin n) → Fin n → β) (k : β)

theorem peelRound_subset (S : Finset (Fin n)) : peelRound d k S ⊆ S := Finset.filter_subset _ _

/-- maximality invariant: a set whose every node has degree ≥ k inside it is never touched -/
theorem peelRound_keeps (hmono : ∀ {S T : Finset (Fin n)}, T ⊆ S → ∀ v, d T v ≤ d S v)
    (S T : Finset (Fin n)) (hT : ∀ v ∈ T, k ≤ d T v) (hTS : T ⊆ S) : T ⊆ peelRound d k S := by
  intro v hv
  unfold peelRound
  rw [Finset.mem_filter]
  refine ⟨hTS hv, ?_⟩
  rintro ⟨_, hlt⟩
  exact absurd (lt_of_le_of_lt ((hT v hv).trans (hmono hTS v)) hlt) (lt_irrefl _)

theorem peel_keeps (hmono : ∀ {S T : Finset (Fin n)}, T ⊆ S → ∀ v, d T v ≤ d S v)
    (T : Finset (Fin n)) (hT : ∀ v ∈ T, k ≤ d T v) : ∀ fuel S, T ⊆ S → T ⊆ peel d k fuel S := by
  intro fuel
  induction fuel with
  | zero => intro S h; exact h
  | succ f ih => intro S h; exact ih _ (peelRound_keeps d k hmono S T hT h)

theorem peel_subset : ∀ fuel S, peel d k fuel S ⊆ S := by
  intro fuel
  induction fuel with
  | zero => intro S; exact Finset.Subset.refl _
  | succ f ih => intro S; exact (ih _).trans (peelRound_subset d k S)

theorem peel_of_fix {S : Finset (Fin n)} (hfix : peelRound d k S = S) : ∀ g, peel d k g S = S := by
  intro g
  induction g with
  | zero => rfl
  | succ g ihg => simp only [peel, hfix, ihg]

/-- a round that removes nothing is a fixpoint; every other round removes ≥ 1 node, so |S| rounds suffice -/
theorem peel_fix : ∀ fuel S, S.card ≤ fuel → peelRound d k (peel d k fuel S) = peel d k fuel S := by
  intro fuel
  induction fuel with
  | zero =>
    intro S h
    have : S = ∅ := Finset.card_eq_zero.mp (Nat.le_zero.mp h)
    subst this; simp [peel, peelRound]
  | succ f ih =>
    intro S h
    simp only [peel]
    by_cases hfix : peelRound d k S = S
    · rw [hfix, peel_of_fix d k hfix f, hfix]
    · have hlt : (peelRound d k S).card < S.card :=
        Finset.card_lt_card (Finset.ssubset_iff_subset_ne.mpr ⟨peelRound_subset d k S, hfix⟩)
      exact ih _ (by omega)

/-- at a fixpoint every node of positive degree has degree ≥ k -/
theorem fix_core {C : Finset (Fin n)} (hfix : peelRound d k C = C) :
    ∀ v ∈ C, 0 < d C v → k ≤ d C v := by
  intro v hv hpos
  have : v ∈ peelRound d k C := by rw [hfix]; exact hv
  unfold peelRound at this
  rw [Finset.mem_filter] at this
  by_contra hlt
  exact this.2 ⟨hpos, not_le.mp hlt⟩

/-- after |S| rounds every surviving node of positive degree has degree ≥ k among the survivors -/
theorem peel_core (S : Finset (Fin n)) :
    ∀ v ∈ peel d k S.card S, 0 < d (peel d k S.card S) v → k ≤ d (peel d k S.card S) v :=
  fix_core d k (peel_fix d k S.card S (le_refl _))

end setlevel

/-! ### from `List.finRange` to `Finset.univ` -/

theorem length_filter_finRange (p : Fin n → Bool) :
    ((List.finRange n).filter p).length = (Finset.univ.filter fun v => p v = true).card := by
  have hnd : ((List.finRange n).filter p).Nodup := (List.nodup_finRange n).filter _
  rw [← List.toFinset_card_of_nodup hnd]
  congr 1
  ext v
  simp

theorem sum_map_finRange {γ : Type} [AddCommMonoid γ] (f : Fin n → γ) :
    ((List.finRange n).map f).sum = ∑ w, f w := (Fin.sum_univ_def f).symm

/-! ### the bridge between the matrix loop and the set-level rounds -/

variable {α : Type}

/-- `A` with every row and column outside `S` replaced by `z` -/
def restrictM (z : α) (A : AMat α n) (S : Finset (Fin n)) : AMat α n :=
  AMat.ofFn fun i j => if i ∈ S ∧ j ∈ S then A.get i j else z

@[simp] theorem restrictM_get (z : α) (A : AMat α n) (S : Finset (Fin n)) (i j : Fin n) :
    (restrictM z A S).get i j = if i ∈ S ∧ j ∈ S then A.get i j else z := by
  simp [restrictM]

theorem restrictM_univ (z : α) (A : AMat α n) : restrictM z A Finset.univ = A := by
  apply AMat.ext_get; intro i j; simp

/-- what the generic argument needs to know about a concrete routine -/
structure Bridge (z : α) (deg : AMat α n → Fin n → β) (small pos : β → Bool) (A : AMat α n)
    (wt : Fin n → Fin n → β) (k : β) : Prop where
  wt_nonneg : ∀ w v, 0 ≤ wt w v
  wt_symm0 : ∀ w v, wt w v = 0 → wt v w = 0
  wt_zero : ∀ w v, wt w v = 0 → A.get w v = z
  deg_restrict : ∀ S v, deg (restrictM z A S) v = if v ∈ S then dIn wt S v else 0
  small_iff : ∀ x, small x = true ↔ (0 < x ∧ x < k)
  pos_iff : ∀ x, pos x = true ↔ 0 < x

/-- expected `peellevel` for a given `peelorder`, rounds numbered from `s + 1` -/
def levelsFrom : ℕ → List (List (Fin n)) → List (List ℕ)
  | _, [] => []
  | s, g :: gs => (g.map fun _ => s + 1) :: levelsFrom (s + 1) gs

theorem levelsFrom_append (s : ℕ) (ord : List (List (Fin n))) (g : List (Fin n)) :
    levelsFrom s (ord ++ [g]) = levelsFrom s ord ++ [g.map fun _ => s + ord.length + 1] := by
  induction ord generalizing s with
  | nil => simp [levelsFrom]
  | cons a as ih =>
    have e : s + 1 + as.length + 1 = s + (as.length + 1) + 1 := by omega
    simp only [List.cons_append, levelsFrom, ih, List.length_cons, e]

theorem levelsFrom_eq_zipIdx (s : ℕ) (ord : List (List (Fin n))) :
    levelsFrom s ord = (ord.zipIdx s).map fun p => p.1.map fun _ => p.2 + 1 := by
  induction ord generalizing s with
  | nil => simp [levelsFrom]
  | cons a as ih => simp [levelsFrom, List.zipIdx_cons, ih]

section loop
variable {z : α} {deg : AMat α n → Fin n → β} {small pos : β → Bool} {A : AMat α n}
  {wt : Fin n → Fin n → β} {k : β}

theorem dead_iff (hb : Bridge z deg small pos A wt k) (S : Finset (Fin n)) (v : Fin n) :
    small (deg (restrictM z A S) v) = true ↔ v ∈ S ∧ v ∉ peelRound (dIn wt) k S := by
  rw [hb.small_iff, hb.deg_restrict]
  unfold peelRound
  rw [Finset.mem_filter]
  by_cases hv : v ∈ S
  · simp [hv]
  · simp [hv]

theorem zeroOut_restrict (hb : Bridge z deg small pos A wt k) (S : Finset (Fin n)) :
    zeroOut z (restrictM z A S) (Vector.ofFn fun v => small (deg (restrictM z A S) v)) =
      restrictM z A (peelRound (dIn wt) k S) := by
  apply AMat.ext_get
  intro i j
  have hsub := peelRound_subset (dIn wt) k S
  have hmem : ∀ v, v ∈ peelRound (dIn wt) k S ↔ (v ∈ S ∧ ¬ small (deg (restrictM z A S) v) = true) := by
    intro v
    constructor
    · intro h; exact ⟨hsub h, fun hd => ((dead_iff hb S v).mp hd).2 h⟩
    · rintro ⟨h1, h2⟩
      by_contra h
      exact h2 ((dead_iff hb S v).mpr ⟨h1, h⟩)
  simp only [zeroOut, AMat.get_ofFn, restrictM_get, Fin.getElem_fin, Vector.getElem_ofFn, Fin.eta,
    Bool.or_eq_true, hmem]
  by_cases a : small (deg (restrictM z A S) i) = true <;>
    by_cases b : small (deg (restrictM z A S) j) = true <;>
    by_cases c : i ∈ S <;> by_cases d : j ∈ S <;> simp [a, b, c, d]

theorem countPos_restrict (hb : Bridge z deg small pos A wt k) (S : Finset (Fin n)) :
    countPos deg pos (restrictM z A S) = (S.filter fun v => 0 < dIn wt S v).card := by
  unfold countPos
  rw [length_filter_finRange]
  congr 1
  ext v
  simp only [Finset.mem_filter, Finset.mem_univ, true_and, hb.pos_iff, hb.deg_restrict]
  by_cases hv : v ∈ S <;> simp [hv]

/-- invariant bundle of the order / level bookkeeping -/
structure OrdInv (wt : Fin n → Fin n → β) (S : Finset (Fin n)) (it : ℕ) (ord : List (List (Fin n)))
    (lev : List (List ℕ)) : Prop where
  mem : ∀ v, v ∈ S ↔ v ∉ ord.flatten
  pos_listed : ∀ v ∈ ord.flatten, 0 < dIn wt Finset.univ v
  nodup : ord.flatten.Nodup
  it_eq : it = ord.length
  lev_eq : lev = levelsFrom 0 ord
  nonempty : ∀ g ∈ ord, g ≠ []
  sorted : ∀ g ∈ ord, g.Pairwise (· < ·)

/-- the loop run on `A` restricted to `S` computes `A` restricted to `peel fuel S`; the groups appended
to the peel order are pairwise disjoint, disjoint from what was listed before, and together they are
exactly the nodes removed from `S`. -/
theorem peelLoop_spec (hb : Bridge z deg small pos A wt k) :
    ∀ (fuel : ℕ) (S : Finset (Fin n)) (it : ℕ) (ord : List (List (Fin n))) (lev : List (List ℕ)),
      OrdInv wt S it ord lev →
      let o := peelLoop z deg small pos fuel (restrictM z A S) it ord lev
      o.M = restrictM z A (peel (dIn wt) k fuel S) ∧
      o.kn = ((peel (dIn wt) k fuel S).filter fun v => 0 < dIn wt (peel (dIn wt) k fuel S) v).card ∧
      OrdInv wt (peel (dIn wt) k fuel S) o.order.length o.order o.level := by
  intro fuel
  induction fuel with
  | zero =>
    intro S it ord lev hinv
    simp only [peelLoop, peel]
    exact ⟨trivial, countPos_restrict hb S, { hinv with it_eq := rfl }⟩
  | succ f ih =>
    intro S it ord lev hinv
    simp only [peelLoop]
    have hmemff : ∀ v, v ∈ (List.finRange n).filter
        (fun v => (Vector.ofFn fun v => small (deg (restrictM z A S) v))[v]) ↔
        v ∈ S ∧ v ∉ peelRound (dIn wt) k S := by
      intro v
      simp only [List.mem_filter, List.mem_finRange, true_and, Fin.getElem_fin, Vector.getElem_ofFn, Fin.eta]
      exact dead_iff hb S v
    split
    · -- no node to peel: `S` is a fixpoint
      rename_i hemp
      have hfix : peelRound (dIn wt) k S = S := by
        apply Finset.Subset.antisymm (peelRound_subset _ _ _)
        intro v hv
        by_contra hnot
        have := (hmemff v).mpr ⟨hv, hnot⟩
        rw [List.isEmpty_iff] at hemp
        rw [hemp] at this
        exact absurd this List.not_mem_nil
      have e : peel (dIn wt) k (f + 1) S = S := by
        simp only [peel]; rw [hfix, peel_of_fix _ _ hfix f]
      rw [e]
      exact ⟨rfl, countPos_restrict hb S, { hinv with it_eq := rfl }⟩
    · rename_i hne
      rw [zeroOut_restrict hb S]
      have e : peel (dIn wt) k (f + 1) S = peel (dIn wt) k f (peelRound (dIn wt) k S) := rfl
      rw [e]
      apply ih
      constructor
      · intro v
        rw [List.flatten_append, List.mem_append, List.flatten_singleton, hmemff]
        have hm := hinv.mem v
        constructor
        · intro hv h
          rcases h with h | h
          · exact (hm.mp (peelRound_subset _ _ _ hv)) h
          · exact h.2 hv
        · intro h
          by_contra hv
          by_cases hS : v ∈ S
          · exact h (Or.inr ⟨hS, hv⟩)
          · exact h (Or.inl (by_contra fun h' => hS (hm.mpr h')))
      · intro v hv
        rw [List.flatten_append, List.flatten_singleton, List.mem_append] at hv
        rcases hv with hv | hv
        · exact hinv.pos_listed v hv
        · obtain ⟨hvS, hvn⟩ := (hmemff v).mp hv
          have hp : 0 < dIn wt S v := by
            by_contra hnp
            exact hvn (Finset.mem_filter.mpr ⟨hvS, fun h => hnp h.1⟩)
          exact lt_of_lt_of_le hp (dIn_mono hb.wt_nonneg (Finset.subset_univ S) v)
      · rw [List.flatten_append, List.flatten_singleton, List.nodup_append]
        refine ⟨hinv.nodup, (List.nodup_finRange n).filter _, ?_⟩
        intro a ha b hb' hab
        subst hab
        exact ((hinv.mem a).mp ((hmemff a).mp hb').1) ha
      · simp [hinv.it_eq]
      · rw [levelsFrom_append, hinv.lev_eq, hinv.it_eq]; simp
      · intro g hg
        rcases List.mem_append.mp hg with hg | hg
        · exact hinv.nonempty g hg
        · rw [List.mem_singleton] at hg
          subst hg
          intro h
          exact hne (by rw [h]; rfl)
      · intro g hg
        rcases List.mem_append.mp hg with hg | hg
        · exact hinv.sorted g hg
        · rw [List.mem_singleton] at hg
          subst hg
          exact (List.pairwise_lt_finRange n).filter _

end loop

/-! ### the package used by the property theorems -/

section spec
variable {z : α} {deg : AMat α n → Fin n → β} {small pos : β → Bool} {A : AMat α n}
  {wt : Fin n → Fin n → β} {k : β}

/-- the surviving set of the routine: `n` rounds from the full node set -/
def alive (wt : Fin n → Fin n → β) (k : β) : Finset (Fin n) := peel (dIn wt) k n Finset.univ

/-- the core: survivors that still have positive degree -/
def coreSet (wt : Fin n → Fin n → β) (k : β) : Finset (Fin n) :=
  (alive wt k).filter fun v => 0 < dIn wt (alive wt k) v

theorem alive_fix (wt : Fin n → Fin n → β) (k : β) : peelRound (dIn wt) k (alive wt k) = alive wt k := by
  unfold alive
  exact peel_fix (dIn wt) k n Finset.univ (by simp)

/-- nodes of the surviving set outside the core contribute nothing to anybody's degree -/
theorem wt_zero_of_not_core (hb : Bridge z deg small pos A wt k) {w v : Fin n}
    (hw : w ∈ alive wt k) (hwc : w ∉ coreSet wt k) (hv : v ∈ alive wt k) : wt w v = 0 ∧ wt v w = 0 := by
  have h0 : dIn wt (alive wt k) w = 0 := by
    have h1 : ¬ 0 < dIn wt (alive wt k) w := fun h => hwc (Finset.mem_filter.mpr ⟨hw, h⟩)
    exact le_antisymm (not_lt.mp h1) (dIn_nonneg hb.wt_nonneg _ _)
  have h2 : wt v w = 0 := by
    unfold dIn at h0
    exact (Finset.sum_eq_zero_iff_of_nonneg (fun u _ => hb.wt_nonneg u w)).mp h0 v hv
  exact ⟨hb.wt_symm0 _ _ h2, h2⟩

theorem dIn_core_eq (hb : Bridge z deg small pos A wt k) {v : Fin n} (hv : v ∈ alive wt k) :
    dIn wt (coreSet wt k) v = dIn wt (alive wt k) v := by
  unfold dIn
  apply Finset.sum_subset (Finset.filter_subset _ _)
  intro w hw hwc
  exact (wt_zero_of_not_core hb hw hwc hv).1

/-- the core qualifies: every member has degree ≥ k inside it -/
theorem coreSet_qualifies (hb : Bridge z deg small pos A wt k) :
    ∀ v ∈ coreSet wt k, k ≤ dIn wt (coreSet wt k) v := by
  intro v hv
  have hva : v ∈ alive wt k := (Finset.mem_filter.mp hv).1
  rw [dIn_core_eq hb hva]
  exact fix_core (dIn wt) k (alive_fix wt k) v hva (Finset.mem_filter.mp hv).2

/-- the core is the largest qualifying set -/
theorem coreSet_maximal (hb : Bridge z deg small pos A wt k) (hk : 0 < k) (T : Finset (Fin n))
    (hT : ∀ v ∈ T, k ≤ dIn wt T v) : T ⊆ coreSet wt k := by
  have hTa : T ⊆ alive wt k :=
    peel_keeps (dIn wt) k (fun h v => dIn_mono hb.wt_nonneg h v) T hT n Finset.univ (Finset.subset_univ _)
  intro v hv
  refine Finset.mem_filter.mpr ⟨hTa hv, ?_⟩
  exact lt_of_lt_of_le hk ((hT v hv).trans (dIn_mono hb.wt_nonneg hTa v))

theorem restrict_alive_eq_core (hb : Bridge z deg small pos A wt k) :
    restrictM z A (alive wt k) = restrictM z A (coreSet wt k) := by
  apply AMat.ext_get
  intro i j
  simp only [restrictM_get]
  by_cases hi : i ∈ alive wt k <;> by_cases hj : j ∈ alive wt k
  · by_cases hic : i ∈ coreSet wt k <;> by_cases hjc : j ∈ coreSet wt k
    · simp [hi, hj, hic, hjc]
    · simp [hi, hj, hjc, hb.wt_zero _ _ (wt_zero_of_not_core hb hj hjc hi).2]
    · simp [hi, hj, hic, hb.wt_zero _ _ (wt_zero_of_not_core hb hi hic hj).1]
    · simp [hi, hj, hic, hb.wt_zero _ _ (wt_zero_of_not_core hb hi hic hj).1]
  · have : j ∉ coreSet wt k := fun h => hj (Finset.mem_filter.mp h).1
    simp [hj, this]
  · have : i ∉ coreSet wt k := fun h => hi (Finset.mem_filter.mp h).1
    simp [hi, this]
  · have : i ∉ coreSet wt k := fun h => hi (Finset.mem_filter.mp h).1
    simp [hi, this]

theorem ordInv_init (wt : Fin n → Fin n → β) : OrdInv wt (Finset.univ : Finset (Fin n)) 0 [] [] :=
  ⟨by simp, by simp, by simp, rfl, rfl, by simp, by simp⟩

/-- everything `Props/C15.lean` needs about one run of the loop from the full matrix with fuel `n` -/
theorem core_spec (hb : Bridge z deg small pos A wt k) :
    let o := peelLoop z deg small pos n A 0 [] []
    o.M = restrictM z A (coreSet wt k) ∧ o.kn = (coreSet wt k).card ∧
      OrdInv wt (alive wt k) o.order.length o.order o.level := by
  have h := peelLoop_spec hb n Finset.univ 0 [] [] (ordInv_init wt)
  rw [restrictM_univ] at h
  obtain ⟨h1, h2, h3⟩ := h
  refine ⟨?_, h2, h3⟩
  rw [h1]
  exact restrict_alive_eq_core hb

end spec

/-- if no degree value counts as "small" (k = 0, s ≤ 0) the loop exits at its first test -/
theorem peelLoop_no_small {α β : Type} {n : ℕ} (z : α) (deg : AMat α n → Fin n → β) (small pos : β → Bool)
    (hs : ∀ x, small x = false) (fuel : ℕ) (M : AMat α n) (it : ℕ) (ord : List (List (Fin n)))
    (lev : List (List ℕ)) :
    peelLoop z deg small pos fuel M it ord lev = ⟨M, countPos deg pos M, ord, lev⟩ := by
  cases fuel with
  | zero => rfl
  | succ f => simp [peelLoop, hs]

end Bct.Core
