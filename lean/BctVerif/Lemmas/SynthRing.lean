import BctVerif.Lemmas.SynthRand

/-!
# C20 helper lemmas: `makeringlatticeCIJ`

`cdist n i j` is the wrap-around distance of columns i and j on a ring of n nodes.  While
`2·c ≤ n` the (clipped) band added at step `c` is exactly the indicator of `cdist = c`; for an even
ring the last band `c = n/2` is where the two offsets `c` and `n - c` coincide and the clip matters.
-/
namespace Bct.Synth
open List

variable {n : ℕ}

/-- wrap-around distance `min(|i-j|, n-|i-j|)` (truncated subtractions: `|i-j| = (i-j)+(j-i)`) -/
def cdist (n i j : Nat) : Nat := min (i - j + (j - i)) (n - (i - j + (j - i)))

/-- the cell lies on one of the bands `1 … c` -/
def near (n c : Nat) (p : Cell n) : Bool := decide (1 ≤ cdist n p.1 p.2 ∧ cdist n p.1 p.2 ≤ c)
/-- the cell lies on band `c` -/
def onBand (n c : Nat) (p : Cell n) : Bool := decide (cdist n p.1 p.2 = c)
/-- number of cells on the bands `1 … c` -/
def nearCnt (n c : Nat) : Nat := (allCells n).countP (near n c)

theorem band_val (c : Nat) (h1 : 1 ≤ c) (h2 : 2 * c ≤ n) (p : Cell n) :
    cellVal (band n c) p = if onBand n c p then 1 else 0 := by
  obtain ⟨i, j⟩ := p
  have hi := i.isLt; have hj := j.isLt
  by_cases hb : cdist n i j = c
  · have hb' : onBand n c (i, j) = true := by simp [onBand, hb]
    rw [hb']
    simp only [cellVal, band, superDiag, AMat.get_ofFn, b2i, beq_iff_eq, if_true]
    unfold cdist at hb
    split_ifs <;> omega
  · have hb' : onBand n c (i, j) = false := by simp [onBand, hb]
    rw [hb']
    simp only [cellVal, band, superDiag, AMat.get_ofFn, b2i, beq_iff_eq, Bool.false_eq_true, if_false]
    unfold cdist at hb
    split_ifs <;> omega

theorem nonzeroCells_eq (M : AMat Int n) : nonzeroCells M = (allCells n).filter fun c => cellVal M c != 0 := by
  unfold nonzeroCells allCells List.product
  rw [List.filter_flatMap]
  congr 1; funext i
  rw [List.filter_map]
  rfl

theorem near_zero (p : Cell n) : near n 0 p = false := by
  simp only [near, decide_eq_false_iff_not]; omega

theorem near_succ_val (c : Nat) (p : Cell n) :
    (if near n c p then (1 : Int) else 0) + (if onBand n (c + 1) p then 1 else 0) = if near n (c + 1) p then 1 else 0 := by
  generalize hx : cdist n p.1 p.2 = x
  have e1 : near n c p = decide (1 ≤ x ∧ x ≤ c) := by simp [near, hx]
  have e2 : onBand n (c + 1) p = decide (x = c + 1) := by simp [onBand, hx]
  have e3 : near n (c + 1) p = decide (1 ≤ x ∧ x ≤ c + 1) := by simp [near, hx]
  rw [e1, e2, e3]
  by_cases h1 : (1 ≤ x ∧ x ≤ c) <;> by_cases h2 : x = c + 1 <;> by_cases h3 : (1 ≤ x ∧ x ≤ c + 1) <;>
    simp [h1, h2, h3] <;> omega

theorem nearCnt_succ (c : Nat) : nearCnt n (c + 1) = nearCnt n c + (allCells n).countP (onBand n (c + 1)) := by
  unfold nearCnt
  induction (allCells n) with
  | nil => simp
  | cons p l ih =>
    simp only [List.countP_cons, ih]
    have := near_succ_val (n := n) c p
    by_cases h1 : near n c p = true <;> by_cases h2 : onBand n (c + 1) p = true <;>
      by_cases h3 : near n (c + 1) p = true <;> simp [h1, h2, h3] at this ⊢ <;> omega

theorem nearCnt_mono {c c' : Nat} (h : c ≤ c') : nearCnt n c ≤ nearCnt n c' := by
  unfold nearCnt
  apply List.countP_mono_left
  intro p _ hp
  simp only [near, decide_eq_true_eq] at hp ⊢
  omega

theorem nearCnt_zero : nearCnt n 0 = 0 := by
  unfold nearCnt
  rw [List.countP_eq_zero]
  intro p _; simp [near_zero]

/-! ### the fill loop -/

structure FillInv (n k : Nat) (st : RingSt n) : Prop where
  dom : st.count ≤ n / 2
  cij : ∀ p, cellVal st.CIJ p = if near n st.count p then 1 else 0
  dcij : 1 ≤ st.count → ∀ p, cellVal st.dCIJ p = if onBand n st.count p then 1 else 0
  kk : st.kk = nearCnt n st.count
  needed : st.count = 0 ∨ (nearCnt n (st.count - 1) : Int) < k

theorem cellVal_matAdd (A B : AMat Int n) (p : Cell n) : cellVal (matAdd A B) p = cellVal A p + cellVal B p := by
  simp [cellVal, matAdd]

theorem ringFill_spec (k : Nat) (hk : (k : Int) ≤ nearCnt n (n / 2)) :
    ∀ (fuel : Nat) (st : RingSt n), FillInv n k st → n ≤ fuel + st.count →
      ∃ st', ringFill k fuel st = .ok st' ∧ FillInv n k st' ∧ (k : Int) ≤ st'.kk
  | 0, st, inv, hf => by
    unfold ringFill
    by_cases hlt : st.kk < k
    · exfalso
      have h1 : nearCnt n st.count < nearCnt n (n / 2) := by
        have := inv.kk; omega
      have h2 : st.count < n / 2 := by
        by_contra hc
        have := nearCnt_mono (n := n) (Nat.le_of_not_lt hc); omega
      omega
    · exact ⟨st, by simp [hlt], inv, by omega⟩
  | fuel + 1, st, inv, hf => by
    unfold ringFill
    by_cases hlt : st.kk < k
    · simp only [hlt, if_true]
      have h1 : nearCnt n st.count < nearCnt n (n / 2) := by
        have := inv.kk; omega
      have h2 : st.count < n / 2 := by
        by_contra hc
        have := nearCnt_mono (n := n) (Nat.le_of_not_lt hc); omega
      have hidx : ¬ (st.count + 1 - 1 ≥ n - 1) := by omega
      rw [if_neg hidx]
      have hb1 : 1 ≤ st.count + 1 := by omega
      have hb2 : 2 * (st.count + 1) ≤ n := by omega
      have hcij : ∀ p, cellVal (matAdd st.CIJ (band n (st.count + 1))) p = if near n (st.count + 1) p then 1 else 0 := by
        intro p
        rw [cellVal_matAdd, inv.cij p, band_val _ hb1 hb2 p, near_succ_val]
      apply ringFill_spec k hk fuel
      · refine ⟨by simp only; omega, hcij, fun _ p => band_val _ hb1 hb2 p, ?_, ?_⟩
        · simp only; exact matSum_ind _ _ hcij
        · right; simp only [Nat.add_sub_cancel]; have := inv.kk; omega
      · simp only; omega
    · exact ⟨st, by simp [hlt], inv, by omega⟩

theorem fillInv_init (k : Nat) : FillInv n k { CIJ := zeroMat n, dCIJ := zeroMat n, count := 0, kk := 0 } where
  dom := Nat.zero_le _
  cij p := by simp [cellVal_zero, near_zero]
  dcij h := by simp at h
  kk := by simp [nearCnt_zero]
  needed := Or.inl rfl

/-! ### removing the excess -/

theorem removeExcess_spec (cells : List (Cell n)) (rp : List Nat) (hlt : ∀ r ∈ rp, r < cells.length) :
    ∀ (ob ii : Nat) (C : AMat Int n), ii + ob ≤ rp.length →
      ∃ C', removeExcess C cells rp ob ii = .ok C' ∧
        ∀ p, cellVal C' p = if p ∈ ((rp.drop ii).take ob).filterMap (cells[·]?) then 0 else cellVal C p
  | 0, ii, C, _ => ⟨C, rfl, fun p => by simp⟩
  | ob + 1, ii, C, h => by
    have hii : ii < rp.length := by omega
    have hr : rp[ii]? = some rp[ii] := List.getElem?_eq_getElem hii
    have hrl : rp[ii] < cells.length := hlt _ (List.getElem_mem hii)
    have hc : cells[rp[ii]]? = some cells[rp[ii]] := List.getElem?_eq_getElem hrl
    obtain ⟨C', h1, h2⟩ := removeExcess_spec cells rp hlt ob (ii + 1) (C.set cells[rp[ii]].1 cells[rp[ii]].2 0) (by omega)
    refine ⟨C', ?_, ?_⟩
    · unfold removeExcess
      simp only [hr, hc]
      exact h1
    · intro p
      rw [h2 p, List.drop_eq_getElem_cons hii, List.take_succ_cons, List.filterMap_cons, hc, cellVal_set]
      simp only [List.mem_cons]
      by_cases hp : p ∈ List.filterMap (fun x => cells[x]?) (List.take ob (List.drop (ii + 1) rp))
      · simp [hp]
      · by_cases hpc : p = cells[rp[ii]]
        · simp [hpc]
        · simp [hp, hpc]

end Bct.Synth

namespace Bct.Synth
open List
variable {n : ℕ}

/-! ### the whole routine -/

/-- the contract of `makeringlatticeCIJ`: `c` bands were used, `removed` is the excess taken out -/
structure RingSpec (n k : Nat) (C : AMat Int n) (c : Nat) (removed : List (Cell n)) : Prop where
  dom : c = 0 ∨ 2 * c ≤ n
  vals : ∀ p, cellVal C p = if near n c p && !decide (p ∈ removed) then 1 else 0
  removed_band : ∀ p ∈ removed, onBand n c p = true
  removed_nodup : removed.Nodup
  removed_len : (removed.length : Int) = nearCnt n c - k
  needed : c = 0 ∨ (nearCnt n (c - 1) : Int) < k
  count : matSum C = k

theorem countP_split (p q : Cell n → Bool) (l : List (Cell n)) :
    l.countP p = l.countP (fun c => p c && q c) + l.countP (fun c => p c && !q c) := by
  induction l with
  | nil => simp
  | cons c l ih =>
    simp only [List.countP_cons, ih]
    cases p c <;> cases q c <;> simp <;> omega

theorem onBand_near {c : Nat} (hc : 1 ≤ c) (p : Cell n) (h : onBand n c p = true) : near n c p = true := by
  simp only [onBand, near, decide_eq_true_eq] at h ⊢; omega

theorem ringLattice_spec (k : Nat) (hk : (k : Int) ≤ nearCnt n (n / 2)) (ds : List Nat)
    {C : AMat Int n} {rest : List Nat} (h : ringLattice n k ds = .ok (C, rest)) :
    ∃ c removed, RingSpec n k C c removed := by
  unfold ringLattice at h
  obtain ⟨st, hfill, inv, hkk⟩ := ringFill_spec k hk n _ (fillInv_init k) (by simp)
  rw [hfill] at h
  simp only at h
  have hdom : st.count = 0 ∨ 2 * st.count ≤ n := by
    have := inv.dom
    rcases Nat.eq_zero_or_pos st.count with h0 | h0
    · exact Or.inl h0
    · right; omega
  by_cases hob : (st.kk - (k : Int)).toNat = 0
  · -- no excess
    rw [if_pos hob] at h
    simp only [Except.ok.injEq, Prod.mk.injEq] at h
    obtain ⟨rfl, _⟩ := h
    have hkeq : st.kk = k := by omega
    refine ⟨st.count, [], hdom, fun p => by simp [inv.cij p], by simp, List.nodup_nil, ?_, inv.needed, ?_⟩
    · have := inv.kk; simp; omega
    · rw [matSum_ind _ _ inv.cij]; have := inv.kk; unfold nearCnt at this; omega
  · rw [if_neg hob] at h
    split at h
    · simp at h
    · split at h
      · simp at h
      · rename_i hlen hperm
        have hperm' : isPermOfRange (ds.take (nonzeroCells st.dCIJ).length) (nonzeroCells st.dCIJ).length = true := by
          simpa using hperm
        obtain ⟨hpl, hplt, hpnd⟩ := isPermOfRange_spec hperm'
        -- at least one band was added
        have hc1 : 1 ≤ st.count := by
          by_contra h0
          have h0' : st.count = 0 := by omega
          have := inv.kk; rw [h0', nearCnt_zero] at this
          omega
        have hneeded : (nearCnt n (st.count - 1) : Int) < k := by
          rcases inv.needed with h0 | h0
          · omega
          · exact h0
        -- the cells of the last band
        have hcells : nonzeroCells st.dCIJ = (allCells n).filter (onBand n st.count) := by
          rw [nonzeroCells_eq]; apply List.filter_congr; intro p _
          rw [inv.dcij hc1 p]; cases onBand n st.count p <;> simp
        have hm : (nonzeroCells st.dCIJ).length = (allCells n).countP (onBand n st.count) := by
          rw [hcells, List.countP_eq_length_filter]
        have hsucc := nearCnt_succ (n := n) (st.count - 1)
        rw [Nat.sub_add_cancel hc1] at hsucc
        have hob_le : (st.kk - (k : Int)).toNat ≤ (ds.take (nonzeroCells st.dCIJ).length).length := by
          rw [hpl, hm]; have := inv.kk; omega
        obtain ⟨C', hC', hval⟩ := removeExcess_spec (nonzeroCells st.dCIJ) (ds.take (nonzeroCells st.dCIJ).length)
          (fun r hr => hplt r hr) (st.kk - (k : Int)).toNat 0 st.CIJ (by omega)
        rw [hC'] at h
        simp only [Except.ok.injEq, Prod.mk.injEq] at h
        obtain ⟨hCC, _⟩ := h
        rw [← hCC]
        simp only [List.drop_zero] at hval
        -- the removed cells
        have hrem_eq : ((ds.take (nonzeroCells st.dCIJ).length).take (st.kk - (k : Int)).toNat).filterMap
            ((nonzeroCells st.dCIJ)[·]?) = choose (nonzeroCells st.dCIJ) (ds.take (nonzeroCells st.dCIJ).length)
              (st.kk - (k : Int)).toNat := rfl
        rw [hrem_eq] at hval
        set removed := choose (nonzeroCells st.dCIJ) (ds.take (nonzeroCells st.dCIJ).length) (st.kk - (k : Int)).toNat
          with hremoved
        have hcells_nd : (nonzeroCells st.dCIJ).Nodup := by rw [hcells]; exact allCells_nodup.filter _
        have hrnd : removed.Nodup := choose_nodup _ _ _ hcells_nd hpnd
        have hrband : ∀ p ∈ removed, onBand n st.count p = true := by
          intro p hp
          have := mem_choose _ _ _ _ hp
          rw [hcells, List.mem_filter] at this
          exact this.2
        have hrlen : removed.length = (st.kk - (k : Int)).toNat := by
          rw [hremoved, choose_length _ _ _ (fun r hr => hplt r hr)]; omega
        have hvals : ∀ p, cellVal C' p = if near n st.count p && !decide (p ∈ removed) then 1 else 0 := by
          intro p
          rw [hval p, inv.cij p]
          by_cases hp : p ∈ removed <;> simp [hp]
        refine ⟨st.count, removed, hdom, hvals, hrband, hrnd, ?_, Or.inr hneeded, ?_⟩
        · rw [hrlen]; have := inv.kk; omega
        · rw [matSum_ind _ _ hvals]
          have hsplit := countP_split (near n st.count) (fun p => decide (p ∈ removed)) (allCells n)
          have hin : (allCells n).countP (fun c => near n st.count c && decide (c ∈ removed)) = removed.length := by
            rw [← countP_mem_nodup removed hrnd]
            apply List.countP_congr
            intro p _
            by_cases hp : p ∈ removed
            · simp [hp, onBand_near hc1 p (hrband p hp)]
            · simp [hp]
          have := inv.kk
          unfold nearCnt at this
          rw [hin] at hsplit
          omega

/-- on the stated domain the routine never raises IndexError, whatever the draws -/
theorem ringLattice_no_index_error (k : Nat) (hk : (k : Int) ≤ nearCnt n (n / 2)) (ds : List Nat) :
    ringLattice n k ds ≠ .error .index := by
  unfold ringLattice
  obtain ⟨st, hfill, inv, hkk⟩ := ringFill_spec k hk n _ (fillInv_init k) (by simp)
  rw [hfill]
  simp only
  by_cases hob : (st.kk - (k : Int)).toNat = 0
  · rw [if_pos hob]; simp
  · rw [if_neg hob]
    split
    · simp
    · split
      · simp
      · rename_i hlen hperm
        have hperm' : isPermOfRange (ds.take (nonzeroCells st.dCIJ).length) (nonzeroCells st.dCIJ).length = true := by
          simpa using hperm
        obtain ⟨hpl, hplt, hpnd⟩ := isPermOfRange_spec hperm'
        have hc1 : 1 ≤ st.count := by
          by_contra h0
          have h0' : st.count = 0 := by omega
          have := inv.kk; rw [h0', nearCnt_zero] at this
          omega
        have hneeded : (nearCnt n (st.count - 1) : Int) < k := by
          rcases inv.needed with h0 | h0
          · omega
          · exact h0
        have hcells : nonzeroCells st.dCIJ = (allCells n).filter (onBand n st.count) := by
          rw [nonzeroCells_eq]; apply List.filter_congr; intro p _
          rw [inv.dcij hc1 p]; cases onBand n st.count p <;> simp
        have hm : (nonzeroCells st.dCIJ).length = (allCells n).countP (onBand n st.count) := by
          rw [hcells, List.countP_eq_length_filter]
        have hsucc := nearCnt_succ (n := n) (st.count - 1)
        rw [Nat.sub_add_cancel hc1] at hsucc
        have hob_le : (st.kk - (k : Int)).toNat ≤ (ds.take (nonzeroCells st.dCIJ).length).length := by
          rw [hpl, hm]; have := inv.kk; omega
        obtain ⟨C', hC', _⟩ := removeExcess_spec (nonzeroCells st.dCIJ) (ds.take (nonzeroCells st.dCIJ).length)
          (fun r hr => hplt r hr) (st.kk - (k : Int)).toNat 0 st.CIJ (by omega)
        rw [hC']; simp

end Bct.Synth

namespace Bct.Synth
open List
variable {n : ℕ}

/-- totality: for feasible k there is a number m of permutation values such that the routine returns for every draw
list that starts with a permutation of `0 … m-1` (m = 0 when nothing has to be removed), consuming exactly those -/
theorem ringLattice_total (k : Nat) (hk : (k : Int) ≤ nearCnt n (n / 2)) :
    ∃ m, ∀ ds : List Nat, m ≤ ds.length → isPermOfRange (ds.take m) m = true →
      ∃ C, ringLattice n k ds = .ok (C, ds.drop m) := by
  obtain ⟨st, hfill, inv, hkk⟩ := ringFill_spec k hk n _ (fillInv_init k) (by simp)
  by_cases hob : (st.kk - (k : Int)).toNat = 0
  · refine ⟨0, fun ds _ _ => ⟨st.CIJ, ?_⟩⟩
    unfold ringLattice
    rw [hfill]
    simp only
    rw [if_pos hob]; simp
  · refine ⟨(nonzeroCells st.dCIJ).length, fun ds hlen hperm => ?_⟩
    obtain ⟨hpl, hplt, hpnd⟩ := isPermOfRange_spec hperm
    have hc1 : 1 ≤ st.count := by
      by_contra h0
      have h0' : st.count = 0 := by omega
      have := inv.kk; rw [h0', nearCnt_zero] at this
      omega
    have hneeded : (nearCnt n (st.count - 1) : Int) < k := by
      rcases inv.needed with h0 | h0
      · omega
      · exact h0
    have hcells : nonzeroCells st.dCIJ = (allCells n).filter (onBand n st.count) := by
      rw [nonzeroCells_eq]; apply List.filter_congr; intro p _
      rw [inv.dcij hc1 p]; cases onBand n st.count p <;> simp
    have hm : (nonzeroCells st.dCIJ).length = (allCells n).countP (onBand n st.count) := by
      rw [hcells, List.countP_eq_length_filter]
    have hsucc := nearCnt_succ (n := n) (st.count - 1)
    rw [Nat.sub_add_cancel hc1] at hsucc
    have hob_le : (st.kk - (k : Int)).toNat ≤ (ds.take (nonzeroCells st.dCIJ).length).length := by
      rw [hpl, hm]; have := inv.kk; omega
    obtain ⟨C', hC', _⟩ := removeExcess_spec (nonzeroCells st.dCIJ) (ds.take (nonzeroCells st.dCIJ).length)
      (fun r hr => hplt r hr) (st.kk - (k : Int)).toNat 0 st.CIJ (by omega)
    refine ⟨C', ?_⟩
    unfold ringLattice
    rw [hfill]
    simp only
    rw [if_neg hob, if_neg (by omega), if_neg (by simp [hperm]), hC']

/-! ### the bands `1 … n/2` are all off-diagonal cells -/

theorem nearCnt_full : nearCnt n (n / 2) = n * (n - 1) := by
  unfold nearCnt
  have : (allCells n).countP (near n (n / 2)) = (allCells n).countP (fun c => decide (c.1 ≠ c.2)) := by
    apply List.countP_congr
    intro p _
    have h1 := p.1.isLt; have h2 := p.2.isLt
    have hne : p.1 ≠ p.2 ↔ p.1.val ≠ p.2.val := by rw [Ne, Fin.ext_iff]
    have key : (1 ≤ cdist n p.1 p.2 ∧ cdist n p.1 p.2 ≤ n / 2) ↔ p.1.val ≠ p.2.val := by
      unfold cdist; omega
    rw [near, decide_eq_true_eq, decide_eq_true_eq, hne]; exact key
  rw [this, countP_offdiag, Nat.mul_sub, Nat.mul_one]

end Bct.Synth
