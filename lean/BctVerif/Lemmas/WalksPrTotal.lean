import BctVerif.Lemmas.WalksGJ
import BctVerif.Lemmas.WalksPrExist
/-!
# `pagerank` (the executable model) is total on its domain
-/
open Finset Matrix

namespace Bct.Walks
open Bct.WalksAlg

variable {n : ℕ}

/-- the normalised prior exists, is non-negative and sums to one -/
theorem prior_total (f : Option (Vector Int n)) (hn : 0 < n)
    (hf : ∀ g, f = some g → (∀ i : Fin n, 0 ≤ g[i]) ∧ ∑ i : Fin n, (g[i] : ℚ) ≠ 0) :
    ∃ nf : QVec n, prior f = .ok nf ∧ (∀ i : Fin n, 0 ≤ nf[i]) ∧ ∑ i : Fin n, nf[i] = 1 := by
  cases f with
  | none =>
    refine ⟨Vector.ofFn fun _ => 1 / (n : ℚ), ?_, ?_, ?_⟩
    · simp [prior, Nat.ne_of_gt hn]
    · intro i; simp
    · exact prior_sum (f := none) (by simp [prior, Nat.ne_of_gt hn])
  | some g =>
    obtain ⟨hg0, hgs⟩ := hf g rfl
    have hpos : 0 < ∑ i : Fin n, (g[i] : ℚ) :=
      lt_of_le_of_ne (Finset.sum_nonneg (fun i _ => by exact_mod_cast hg0 i)) (Ne.symm hgs)
    have hp : prior (some g) = .ok (Vector.ofFn fun i : Fin n => (g[i] : ℚ) / fsum fun i : Fin n => (g[i] : ℚ)) := by
      simp only [prior, fsum_eq]
      rw [if_neg (by simpa using hgs)]
    refine ⟨_, hp, ?_, prior_sum hp⟩
    intro i
    simp only [Fin.getElem_fin, Vector.getElem_ofFn, fsum_eq]
    exact div_nonneg (by exact_mod_cast hg0 i) hpos.le

/-- **totality of the PageRank model**: non-negative weights, `0 ≤ d < 1`, a non-negative prior with positive sum (or
none) ⇒ the model returns: the system matrix is invertible (strict column dominance), the elimination therefore finds every
pivot and its result passes the certificate, and the solution has a positive sum -/
theorem pagerank_total (A : QMat n) (d : ℚ) (f : Option (Vector Int n)) (hn : 0 < n)
    (hA : ∀ i j, 0 ≤ A.get i j) (hd0 : 0 ≤ d) (hd1 : d < 1)
    (hf : ∀ g, f = some g → (∀ i : Fin n, 0 ≤ g[i]) ∧ ∑ i : Fin n, (g[i] : ℚ) ≠ 0) :
    ∃ o, pagerank A d f = .ok o := by
  obtain ⟨nf, hp, hnf0, hnf1⟩ := prior_total f hn hf
  have hdet := prMat_det_ne_zero A d hA hd0 hd1
  obtain ⟨r0, hsolve, hcert⟩ := solveVec_complete (prMat A d) (Vector.ofFn fun i => (1 - d) * nf[i]) hdet
  -- the solution has a positive sum
  have hsys := (solves_iff _ _ _).mp hcert
  have hr : ∀ i : Fin n, r0[i] = d * ∑ j : Fin n, A.get i j / colDeg A j * r0[j] + (1 - d) * nf[i] := by
    intro i
    have := hsys i
    simp only [prMat, AMat.get_ofFn, delta_eq, Fin.getElem_fin, Vector.getElem_ofFn] at this
    have e : ∑ k : Fin n, ((if i = k then (1 : ℚ) else 0) - d * (A.get i k / colDeg A k)) * r0[k.val]
        = r0[i.val] - d * ∑ k : Fin n, A.get i k / colDeg A k * r0[k.val] := by
      simp only [sub_mul, Finset.sum_sub_distrib, ite_mul, one_mul, zero_mul, Finset.sum_ite_eq,
        Finset.mem_univ, if_true, Finset.mul_sum]
      congr 1
      refine Finset.sum_congr rfl (fun k _ => ?_); ring
    rw [e] at this
    simp only [Fin.getElem_fin]
    linarith
  have hsub := substoch_nonneg (fun i j => A.get i j / colDeg A j)
    (fun i j => (colDeg_frac A hA j).1 i) (fun j => (colDeg_frac A hA j).2) d hd0 hd1
    (fun i => (1 - d) * nf[i]) (fun i => r0[i]) (fun i => mul_nonneg (by linarith) (hnf0 i)) hr
  have hspos : 0 < ∑ i : Fin n, r0[i] := by
    have h1 : ∑ i : Fin n, (1 - d) * nf[i] = 1 - d := by rw [← Finset.mul_sum, hnf1, mul_one]
    have := hsub.2
    rw [h1] at this
    linarith
  have hs : (fsum fun i : Fin n => r0[i]) ≠ 0 := by rw [fsum_eq]; exact ne_of_gt hspos
  refine ⟨{ f := nf, r0 := r0, r := Vector.ofFn fun i => r0[i] / fsum fun i : Fin n => r0[i] }, ?_⟩
  unfold pagerank
  simp only [hp, hsolve, hcert, Bool.not_true, Bool.false_eq_true, if_false, hs]

end Bct.Walks
