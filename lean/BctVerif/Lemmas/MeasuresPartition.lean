import BctVerif.Lemmas.MeasuresBasic
import BctVerif.Lemmas.Partition
/-!
# participation coefficient and module-degree z-score (executable models of the C14 slice) are equivariant
(the community vector is node data and is renumbered together with the matrix)
-/
namespace Bct.Measures
open Bct Bct.Partition Finset

variable {n : Nat} (σ : Equiv.Perm (Fin n))

@[simp] theorem permVec_getElem {α : Type} (c : Vector α n) (v : Fin n) : (permVec σ c)[v] = c[σ v] := by
  simp [permVec, vget]

@[simp] theorem permVec_getElem_nat {α : Type} (c : Vector α n) (i : Nat) (h : i < n) :
    (permVec σ c)[i] = c[(σ ⟨i, h⟩).val] := by
  simp [permVec, vget]

theorem labelSet_perm (c : Vector Int n) : labelSet (permVec σ c) = labelSet c := by
  ext x
  simp only [labelSet, mem_image, mem_univ, true_and, permVec_getElem]
  constructor
  · rintro ⟨v, rfl⟩; exact ⟨σ v, rfl⟩
  · rintro ⟨v, rfl⟩; exact ⟨σ.symm v, by simp⟩

theorem pt_sumFin_eq_fsum {α : Type} [Add α] [Zero α] (f : Fin n → α) : Partition.sumFin f = fsum f := rfl

theorem sumIn_perm {α : Type} [AddCommMonoid α] (p : Fin n → Bool) (f : Fin n → α) :
    sumIn (fun v => p (σ v)) (fun v => f (σ v)) = sumIn p f := by
  unfold sumIn
  exact fsum_congr_perm σ _ _ (fun _ => rfl)

theorem cardIn_perm (p : Fin n → Bool) : cardIn (fun v => p (σ v)) = cardIn p := by
  unfold cardIn
  exact fsum_congr_perm σ _ _ (fun _ => rfl)

theorem kc2_perm (W : AMat Rat n) (c : Vector Int n) (u : Fin n) :
    kc2 (permA σ W) (permVec σ c) u = kc2 W c (σ u) := by
  unfold kc2
  rw [modSum_eq, modSum_eq, labelSet_perm]
  apply Finset.sum_congr rfl
  intro ℓ _
  simp only [permVec_getElem, permA_get]
  rw [sumIn_perm σ (fun v => decide (c[v] = ℓ)) (fun v => W.get (σ u) v)]

theorem partCoef_perm (W : AMat Rat n) (c : Vector Int n) :
    partCoef (permA σ W) (permVec σ c) = permVec σ (partCoef W c) := by
  apply vec_ext; intro u
  simp only [partCoef, vget_ofFn, permVec_get, kc2_perm, permA_get, pt_sumFin_eq_fsum]
  have h : (fsum fun v => W.get (σ u) (σ v)) = fsum fun v => W.get (σ u) v := fsum_congr_perm σ _ _ (fun _ => rfl)
  rw [h]
  split <;> simp_all

theorem pt_map_perm {α β : Type} (f : α → β) (A : AMat α n) : AMat.map f (permA σ A) = permA σ (AMat.map f A) := by
  apply AMat.ext_get; intro i j; simp [AMat.map]

/-- `degree='in'`: the driver (like the routine) transposes the matrix first -/
theorem partCoef_in_perm (W : AMat Rat n) (c : Vector Int n) :
    partCoef (AMat.transpose (permA σ W)) (permVec σ c) = permVec σ (partCoef (AMat.transpose W) c) := by
  have h : AMat.transpose (permA σ W) = permA σ (AMat.transpose W) := by
    apply AMat.ext_get; intro i j; simp [AMat.transpose]
  rw [h, partCoef_perm]

theorem partCoefSign_perm (W : AMat Rat n) (c : Vector Int n) :
    partCoefSign (permA σ W) (permVec σ c) = (permVec σ (partCoefSign W c).1, permVec σ (partCoefSign W c).2) := by
  simp only [partCoefSign, Partition.posPart, Partition.negPart, pt_map_perm, partCoef_perm]

theorem zOf_perm (W : AMat Rat n) (p : Fin n → Bool) (u : Fin n) :
    zOf (permA σ W) (fun v => p (σ v)) u = zOf W p (σ u) := by
  simp only [zOf, cardIn_perm, permA_get]
  have hk : ∀ x, (sumIn (fun v => p (σ v)) fun v => W.get (σ x) (σ v)) = sumIn p fun v => W.get (σ x) v :=
    fun x => sumIn_perm σ p (fun v => W.get (σ x) v)
  simp only [hk]
  have hm : (sumIn (fun v => p (σ v)) fun x => sumIn p fun v => W.get (σ x) v) = sumIn p fun x => sumIn p fun v => W.get x v :=
    sumIn_perm σ p (fun x => sumIn p fun v => W.get x v)
  rw [hm]
  have hv : ∀ m : Rat, (sumIn (fun v => p (σ v)) fun x => ((sumIn p fun v => W.get (σ x) v) - m) * ((sumIn p fun v => W.get (σ x) v) - m)) =
      sumIn p fun x => ((sumIn p fun v => W.get x v) - m) * ((sumIn p fun v => W.get x v) - m) :=
    fun m => sumIn_perm σ p (fun x => ((sumIn p fun v => W.get x v) - m) * ((sumIn p fun v => W.get x v) - m))
  simp only [hv]

theorem zFlag_perm (W : AMat Rat n) (flag : Nat) : zFlag (permA σ W) flag = permA σ (zFlag W flag) := by
  unfold zFlag
  split
  · apply AMat.ext_get; intro i j; simp [AMat.transpose]
  · split
    · apply AMat.ext_get; intro i j; simp
    · rfl

/-- `module_degree_zscore`: the pair (deviation from the module mean, module variance) of every node, from which the
routine forms `Z = dev / sqrt var`, is renumbered with the graph -/
theorem zIngr_perm (W : AMat Rat n) (c : Vector Int n) (flag : Nat) :
    zIngr (permA σ W) (permVec σ c) flag = permVec σ (zIngr W c flag) := by
  apply vec_ext; intro u
  simp only [zIngr, vget_ofFn, permVec_get, inMod_self, zFlag_perm, permVec_getElem]
  exact zOf_perm σ (zFlag W flag) (fun v => decide (c[v] = c[σ u])) u

/-! ### diversity coefficient: `Σ_m φ(pnm[u, m])` for every summand `φ` (the routine uses `-p log p`), and the module count -/

theorem numMods_perm (c : Vector Int n) : numMods (permVec σ c) = numMods c := by
  rw [numMods_eq, numMods_eq, labelSet_perm]

theorem pnmOf_perm (W : AMat Rat n) (p : Fin n → Bool) (u : Fin n) :
    pnmOf (permA σ W) (fun v => p (σ v)) u = pnmOf W p (σ u) := by
  simp only [pnmOf, permA_get, pt_sumFin_eq_fsum]
  have h1 : (fsum fun v => W.get (σ u) (σ v)) = fsum fun v => W.get (σ u) v := fsum_congr_perm σ _ _ (fun _ => rfl)
  have h2 : (sumIn (fun v => p (σ v)) fun v => W.get (σ u) (σ v)) = sumIn p fun v => W.get (σ u) v :=
    sumIn_perm σ p (fun v => W.get (σ u) v)
  rw [h1, h2]
  split <;> simp_all

theorem divSum_perm {α : Type} [AddCommMonoid α] (φ : Rat → α) (W : AMat Rat n) (c : Vector Int n) (u : Fin n) :
    divSum φ (permA σ W) (permVec σ c) u = divSum φ W c (σ u) := by
  unfold divSum
  rw [modSum_eq, modSum_eq, labelSet_perm]
  apply Finset.sum_congr rfl
  intro ℓ _
  simp only [permVec_getElem]
  rw [pnmOf_perm σ W (fun v => decide (c[v] = ℓ)) u]

end Bct.Measures
