import BctVerif.Lemmas.SignedRun
import BctVerif.Lemmas.SignedDeal
import Mathlib.Data.List.ProdSigma
import Mathlib.Data.Fintype.Basic

/-!
# C06 helper lemmas: from the assignment lists to the output matrix of the null models
-/
namespace Bct.Signed
open List

variable {n : ℕ}

def allCells (n : ℕ) : List (Cell n) := List.product (List.finRange n) (List.finRange n)

def cellVal (X : AMat Int n) (c : Cell n) : Int := X.get c.1 c.2

/-- the triangle restriction of `cellsWhere` -/
def inTri (triu : Bool) (c : Cell n) : Bool := !triu || decide (c.1.val ≤ c.2.val)

theorem cellsWhere_eq (W : AMat Int n) (p : Int → Bool) (triu : Bool) :
    cellsWhere W p triu = (allCells n).filter fun c => p (cellVal W c) && inTri triu c := by
  unfold cellsWhere allCells List.product
  rw [List.filter_flatMap]
  congr 1; funext i
  rw [List.filter_map]
  rfl

theorem allCells_nodup : (allCells n).Nodup := List.Nodup.product (List.nodup_finRange n) (List.nodup_finRange n)

theorem mem_allCells (c : Cell n) : c ∈ allCells n := by
  obtain ⟨i, j⟩ := c; exact List.pair_mem_product.2 ⟨List.mem_finRange i, List.mem_finRange j⟩

theorem allCells_coe : ((allCells n : List (Cell n)) : Multiset (Cell n)) = Finset.univ.val := by
  have h1 : ((allCells n : List (Cell n)) : Multiset (Cell n)).Nodup := allCells_nodup
  have h2 : (Finset.univ : Finset (Cell n)).val.Nodup := Finset.univ.nodup
  exact (Multiset.Nodup.ext h1 h2).2 (fun a => by simp [mem_allCells])

theorem cellsWhere_nodup (W : AMat Int n) (p : Int → Bool) (triu : Bool) : (cellsWhere W p triu).Nodup := by
  rw [cellsWhere_eq]; exact allCells_nodup.filter _

theorem mem_cellsWhere (W : AMat Int n) (p : Int → Bool) (triu : Bool) (c : Cell n) :
    c ∈ cellsWhere W p triu ↔ p (cellVal W c) = true ∧ inTri triu c = true := by
  rw [cellsWhere_eq]; simp [mem_allCells]

theorem cellsMS_eq (X : AMat Int n) : cellsMS X.toFun = ↑((allCells n).map (cellVal X)) := by
  unfold cellsMS
  rw [← allCells_coe, Multiset.map_coe]
  rfl

theorem posMS_eq (X : AMat Int n) : posMS X.toFun = ↑((cellsWhere X isPos false).map (cellVal X)) := by
  unfold posMS
  rw [cellsMS_eq, Multiset.filter_coe, cellsWhere_eq, List.filter_map]
  congr 2
  apply List.filter_congr
  intro c _
  simp [isPos, inTri]

theorem negMS_eq (X : AMat Int n) : negMS X.toFun = ↑((cellsWhere X isNeg false).map (cellVal X)) := by
  unfold negMS
  rw [cellsMS_eq, Multiset.filter_coe, cellsWhere_eq, List.filter_map]
  congr 2
  apply List.filter_congr
  intro c _
  simp [isNeg, inTri]

/-! ### writing assignments -/

theorem cellVal_set (M : AMat Int n) (i j : Fin n) (v : Int) (c : Cell n) :
    cellVal (M.set i j v) c = if c = (i, j) then v else cellVal M c := by
  obtain ⟨x, y⟩ := c
  simp [cellVal, AMat.get_set, Prod.ext_iff]

theorem writeAsg_cons (s : Int) (M : AMat Int n) (p : Cell n × Int) (asg : List (Cell n × Int)) :
    writeAsg s M (p :: asg) = writeAsg s (M.set p.1.1 p.1.2 (s * p.2)) asg := rfl

theorem writeAsg_not_mem (s : Int) : ∀ (asg : List (Cell n × Int)) (M : AMat Int n) (c : Cell n),
    c ∉ asg.map Prod.fst → cellVal (writeAsg s M asg) c = cellVal M c
  | [], M, c, _ => rfl
  | p :: asg, M, c, h => by
    rw [writeAsg_cons, writeAsg_not_mem s asg _ c (fun hc => h (by simp [hc])), cellVal_set]
    have : c ≠ p.1 := fun hc => h (by simp [hc])
    simp [this]

theorem writeAsg_mem (s : Int) : ∀ (asg : List (Cell n × Int)) (M : AMat Int n) (c : Cell n) (w : Int),
    (asg.map Prod.fst).Nodup → (c, w) ∈ asg → cellVal (writeAsg s M asg) c = s * w
  | [], _, _, _, _, h => by simp at h
  | p :: asg, M, c, w, hnd, h => by
    rw [writeAsg_cons]
    simp only [List.map_cons, List.nodup_cons] at hnd
    rcases List.mem_cons.1 h with h | h
    · subst h
      rw [writeAsg_not_mem s asg _ _ hnd.1, cellVal_set]; simp
    · exact writeAsg_mem s asg _ c w hnd.2 h

/-! ### the matrix produced by the two dealing passes -/

structure DealtSpec (cellsP cellsN : List (Cell n)) (wvP wvN : List Int) (U : AMat Int n) : Prop where
  pos : ∀ c ∈ cellsP, 0 < cellVal U c
  neg : ∀ c ∈ cellsN, cellVal U c < 0
  zero : ∀ c, c ∉ cellsP → c ∉ cellsN → cellVal U c = 0
  posPerm : (cellsP.map (cellVal U)).Perm wvP
  negPerm : (cellsN.map (cellVal U)).Perm (wvN.map fun w => -w)

theorem dealt_spec (cellsP cellsN : List (Cell n)) (wvP wvN : List Int) (asgP asgN : List (Cell n × Int))
    (hPnd : cellsP.Nodup) (hNnd : cellsN.Nodup) (hdisj : ∀ c ∈ cellsP, c ∉ cellsN)
    (hPc : (asgP.map Prod.fst).Perm cellsP) (hPw : (asgP.map Prod.snd).Perm wvP)
    (hNc : (asgN.map Prod.fst).Perm cellsN) (hNw : (asgN.map Prod.snd).Perm wvN)
    (hwP : ∀ w ∈ wvP, 0 < w) (hwN : ∀ w ∈ wvN, 0 < w) :
    DealtSpec cellsP cellsN wvP wvN (writeAsg (-1) (writeAsg 1 (zeroMat n) asgP) asgN) := by
  have ndP : (asgP.map Prod.fst).Nodup := hPc.nodup_iff.2 hPnd
  have ndN : (asgN.map Prod.fst).Nodup := hNc.nodup_iff.2 hNnd
  -- value at an assigned positive cell
  have valP : ∀ p ∈ asgP, cellVal (writeAsg (-1) (writeAsg 1 (zeroMat n) asgP) asgN) p.1 = p.2 := by
    intro p hp
    have hc : p.1 ∈ cellsP := hPc.subset (List.mem_map_of_mem hp)
    have hnot : p.1 ∉ asgN.map Prod.fst := fun h => hdisj _ hc (hNc.subset h)
    rw [writeAsg_not_mem _ _ _ _ hnot, writeAsg_mem 1 asgP _ p.1 p.2 ndP (by simpa using hp)]; simp
  have valN : ∀ p ∈ asgN, cellVal (writeAsg (-1) (writeAsg 1 (zeroMat n) asgP) asgN) p.1 = -p.2 := by
    intro p hp
    rw [writeAsg_mem (-1) asgN _ p.1 p.2 ndN (by simpa using hp)]; simp
  have mapP : (asgP.map Prod.fst).map (cellVal (writeAsg (-1) (writeAsg 1 (zeroMat n) asgP) asgN)) = asgP.map Prod.snd := by
    rw [List.map_map]; exact List.map_congr_left (fun p hp => valP p hp)
  have mapN : (asgN.map Prod.fst).map (cellVal (writeAsg (-1) (writeAsg 1 (zeroMat n) asgP) asgN))
      = (asgN.map Prod.snd).map fun w => -w := by
    rw [List.map_map, List.map_map]; exact List.map_congr_left (fun p hp => valN p hp)
  refine ⟨?_, ?_, ?_, ?_, ?_⟩
  · intro c hc
    obtain ⟨p, hp, rfl⟩ := List.mem_map.1 (hPc.symm.subset hc)
    rw [valP p hp]
    exact hwP _ (hPw.subset (List.mem_map_of_mem hp))
  · intro c hc
    obtain ⟨p, hp, rfl⟩ := List.mem_map.1 (hNc.symm.subset hc)
    rw [valN p hp]
    have := hwN _ (hNw.subset (List.mem_map_of_mem hp))
    omega
  · intro c hP hN
    rw [writeAsg_not_mem _ _ _ _ (fun h => hN (hNc.subset h)), writeAsg_not_mem _ _ _ _ (fun h => hP (hPc.subset h))]
    simp [cellVal, zeroMat]
  · exact ((hPc.symm.map _).trans (mapP ▸ List.Perm.refl _)).trans hPw
  · exact ((hNc.symm.map _).trans (mapN ▸ List.Perm.refl _)).trans (hNw.map _)

end Bct.Signed

namespace Bct.Signed
open List
variable {n : ℕ}

/-! ### unfolding `nullModel` -/

theorem isSymm_spec {W : AMat Int n} (h : isSymm W = true) : IsSymm W.toFun := by
  intro i j
  simp only [isSymm, List.all_eq_true, List.mem_finRange, forall_const, beq_iff_eq] at h
  exact h i j

theorem clearDiag_toFun (W : AMat Int n) (i j : Fin n) :
    (clearDiag W).toFun i j = if i = j then 0 else W.toFun i j := by
  simp [clearDiag, AMat.toFun]

theorem clearDiag_symm {W : AMat Int n} (h : IsSymm W.toFun) : IsSymm (clearDiag W).toFun := by
  intro i j
  rw [clearDiag_toFun, clearDiag_toFun, h i j]
  by_cases hij : i = j
  · simp [hij]
  · simp [hij, Ne.symm hij]

/-- the matrix `U` written by the two dealing passes, and the final `W0` -/
def dealtU (asgP asgN : List (Cell n × Int)) : AMat Int n :=
  writeAsg (-1) (writeAsg 1 (zeroMat n) asgP) asgN

def finalW0 (und : Bool) (U : AMat Int n) : AMat Int n :=
  if und then AMat.ofFn fun i j => U.get i j + U.get j i else U

theorem nullModel_unfold (und : Bool) (W : AMat Int n) (binSwaps period : Nat) (orc : List (List Nat)) (ds : List Nat)
    {o : NullOut n} (h : nullModel und W binSwaps period orc ds = .ok o) :
    (und = true → IsSymm W.toFun) ∧ o.Wc = clearDiag W ∧
    Preserved o.Wc.toFun o.Wr.toFun ∧ (und = true → IsSymm o.Wr.toFun) ∧
    ∃ asgP asgN : List (Cell n × Int),
      (asgP.map Prod.fst).Perm (cellsWhere o.Wr isPos und) ∧
      (asgP.map Prod.snd).Perm (sortedWeights o.Wc 1 isPos und) ∧
      (asgN.map Prod.fst).Perm (cellsWhere o.Wr isNeg und) ∧
      (asgN.map Prod.snd).Perm (sortedWeights o.Wc (-1) isNeg und) ∧
      o.W0 = finalW0 und (dealtU asgP asgN) := by
  unfold nullModel at h
  split at h
  · simp at h
  · rename_i hsym
    have hsym' : und = true → IsSymm W.toFun := by
      intro hu
      subst hu
      simp only [Bool.true_and, Bool.not_eq_true', Bool.not_eq_false] at hsym
      exact isSymm_spec (by simpa using hsym)
    have hcs : und = true → IsSymm (clearDiag W).toFun := fun hu => clearDiag_symm (hsym' hu)
    simp only at h
    -- the rewiring stage
    have hrew : ∀ {Wr : AMat Int n} {ds1 : List Nat},
        (if (cellsWhere (clearDiag W) isPos false).length < n * (n - 1) then
          match run und (clearDiag W) binSwaps ds with
          | .error e => (.error e : Except Err (AMat Int n × List Nat))
          | .ok (Wr, _, rest) => .ok (Wr, rest)
        else .ok (clearDiag W, ds)) = .ok (Wr, ds1) →
        Preserved (clearDiag W).toFun Wr.toFun ∧ (und = true → IsSymm Wr.toFun) := by
      intro Wr ds1 hr
      split at hr
      · cases hrun : run und (clearDiag W) binSwaps ds with
        | error e => simp [hrun] at hr
        | ok v =>
          obtain ⟨R', eff, rest⟩ := v
          simp only [hrun, Except.ok.injEq, Prod.mk.injEq] at hr
          obtain ⟨rfl, _⟩ := hr
          exact (run_preserved und (clearDiag W) binSwaps ds hrun hcs).1
      · simp only [Except.ok.injEq, Prod.mk.injEq] at hr
        obtain ⟨rfl, _⟩ := hr
        exact ⟨Preserved.refl _, hcs⟩
    split at h
    · simp at h
    · rename_i Wr ds1 hr
      have hR := hrew hr
      split at h
      · simp at h
      · rename_i asgP orc2 ds2 hP
        split at h
        · simp at h
        · rename_i asgN orc3 ds3 hN
          simp only [Except.ok.injEq] at h
          subst h
          obtain ⟨pc, pw⟩ := dealSign_bijective _ _ _ _ _ hP
          obtain ⟨nc, nw⟩ := dealSign_bijective _ _ _ _ _ hN
          exact ⟨hsym', rfl, hR.1, hR.2, asgP, asgN, pc, pw, nc, nw, rfl⟩

end Bct.Signed

namespace Bct.Signed
open List
variable {n : ℕ}

/-! ### the specification of the null models' output -/

/-- same sign pattern -/
def SameSigns (X Y : FMat n) : Prop := ∀ i j, (0 < X i j ↔ 0 < Y i j) ∧ (X i j < 0 ↔ Y i j < 0)

theorem SameSigns.counts {X Y : FMat n} (h : SameSigns X Y) :
    (∀ r, rowPos X r = rowPos Y r) ∧ (∀ r, rowNeg X r = rowNeg Y r) ∧
    (∀ c, colPos X c = colPos Y c) ∧ (∀ c, colNeg X c = colNeg Y c) := by
  refine ⟨fun r => ?_, fun r => ?_, fun c => ?_, fun c => ?_⟩
  · unfold rowPos posInd; exact Finset.sum_congr rfl fun j _ => by simp [(h r j).1]
  · unfold rowNeg negInd; exact Finset.sum_congr rfl fun j _ => by simp [(h r j).2]
  · unfold colPos posInd; exact Finset.sum_congr rfl fun i _ => by simp [(h i c).1]
  · unfold colNeg negInd; exact Finset.sum_congr rfl fun i _ => by simp [(h i c).2]

/-- what the property demands of a null model's output `W0` for the (diagonal-cleared) input `Wc` -/
structure NullSpec (Wc W0 : FMat n) : Prop where
  rowPos : ∀ r, rowPos W0 r = rowPos Wc r
  rowNeg : ∀ r, rowNeg W0 r = rowNeg Wc r
  colPos : ∀ c, colPos W0 c = colPos Wc c
  colNeg : ∀ c, colNeg W0 c = colNeg Wc c
  posMS : posMS W0 = posMS Wc
  negMS : negMS W0 = negMS Wc
  diag : ∀ i, W0 i i = 0

theorem insertSorted_perm (x : Int) : ∀ l : List Int, (insertSorted x l).Perm (x :: l)
  | [] => List.Perm.refl _
  | y :: l => by
    unfold insertSorted
    split
    · exact List.Perm.refl _
    · exact ((insertSorted_perm x l).cons y).trans (List.Perm.swap x y l)

theorem sortInts_perm : ∀ l : List Int, (sortInts l).Perm l
  | [] => List.Perm.refl _
  | x :: l => (insertSorted_perm x _).trans ((sortInts_perm l).cons x)

theorem insertSorted_sorted (x : Int) : ∀ l : List Int, l.Pairwise (· ≤ ·) → (insertSorted x l).Pairwise (· ≤ ·)
  | [], _ => by simp [insertSorted]
  | y :: l, h => by
    unfold insertSorted
    split
    · rename_i hxy
      refine List.pairwise_cons.2 ⟨?_, h⟩
      intro z hz
      rcases List.mem_cons.1 hz with rfl | hz
      · exact hxy
      · exact le_trans hxy ((List.pairwise_cons.1 h).1 z hz)
    · rename_i hxy
      obtain ⟨h1, h2⟩ := List.pairwise_cons.1 h
      refine List.pairwise_cons.2 ⟨?_, insertSorted_sorted x l h2⟩
      intro z hz
      rcases List.mem_cons.1 ((insertSorted_perm x l).subset hz) with rfl | hz
      · omega
      · exact h1 z hz

/-- the model's sort really sorts (ascending, as `np.sort`) -/
theorem sortInts_sorted : ∀ l : List Int, (sortInts l).Pairwise (· ≤ ·)
  | [] => List.Pairwise.nil
  | x :: l => insertSorted_sorted x _ (sortInts_sorted l)

theorem sortedWeights_perm (Wc : AMat Int n) (s : Int) (p : Int → Bool) (triu : Bool) :
    (sortedWeights Wc s p triu).Perm ((cellsWhere Wc p triu).map fun c => s * cellVal Wc c) := by
  unfold sortedWeights; exact sortInts_perm _

/-- the two dealing passes, both variants: sign pattern of `U` on the triangle = that of `Wr`,
zero elsewhere, and the dealt values are the input's weights -/
theorem dealtU_spec (und : Bool) (Wc Wr : AMat Int n) (asgP asgN : List (Cell n × Int))
    (hPc : (asgP.map Prod.fst).Perm (cellsWhere Wr isPos und))
    (hPw : (asgP.map Prod.snd).Perm (sortedWeights Wc 1 isPos und))
    (hNc : (asgN.map Prod.fst).Perm (cellsWhere Wr isNeg und))
    (hNw : (asgN.map Prod.snd).Perm (sortedWeights Wc (-1) isNeg und)) :
    (∀ c, inTri und c = true → ((0 < cellVal (dealtU asgP asgN) c ↔ 0 < cellVal Wr c) ∧
                                (cellVal (dealtU asgP asgN) c < 0 ↔ cellVal Wr c < 0))) ∧
    (∀ c, inTri und c = false → cellVal (dealtU asgP asgN) c = 0) ∧
    ((cellsWhere Wr isPos und).map (cellVal (dealtU asgP asgN))).Perm ((cellsWhere Wc isPos und).map (cellVal Wc)) ∧
    ((cellsWhere Wr isNeg und).map (cellVal (dealtU asgP asgN))).Perm ((cellsWhere Wc isNeg und).map (cellVal Wc)) := by
  have hwP : ∀ w ∈ sortedWeights Wc 1 isPos und, 0 < w := by
    intro w hw
    obtain ⟨c, hc, rfl⟩ := List.mem_map.1 ((sortedWeights_perm Wc 1 isPos und).subset hw)
    have := ((mem_cellsWhere Wc isPos und c).1 hc).1
    simp only [isPos, decide_eq_true_eq] at this
    omega
  have hwN : ∀ w ∈ sortedWeights Wc (-1) isNeg und, 0 < w := by
    intro w hw
    obtain ⟨c, hc, rfl⟩ := List.mem_map.1 ((sortedWeights_perm Wc (-1) isNeg und).subset hw)
    have := ((mem_cellsWhere Wc isNeg und c).1 hc).1
    simp only [isNeg, decide_eq_true_eq] at this
    omega
  have hdisj : ∀ c ∈ cellsWhere Wr isPos und, c ∉ cellsWhere Wr isNeg und := by
    intro c hc hc'
    have h1 := ((mem_cellsWhere Wr isPos und c).1 hc).1
    have h2 := ((mem_cellsWhere Wr isNeg und c).1 hc').1
    simp only [isPos, isNeg, decide_eq_true_eq] at h1 h2
    omega
  have S : DealtSpec _ _ _ _ (dealtU asgP asgN) := dealt_spec _ _ _ _ asgP asgN (cellsWhere_nodup Wr isPos und) (cellsWhere_nodup Wr isNeg und) hdisj
    hPc hPw hNc hNw hwP hwN
  refine ⟨?_, ?_, ?_, ?_⟩
  · intro c htri
    have mP : c ∈ cellsWhere Wr isPos und ↔ 0 < cellVal Wr c := by
      rw [mem_cellsWhere]; simp [isPos, htri]
    have mN : c ∈ cellsWhere Wr isNeg und ↔ cellVal Wr c < 0 := by
      rw [mem_cellsWhere]; simp [isNeg, htri]
    rcases lt_trichotomy (cellVal Wr c) 0 with hlt | heq | hgt
    · have := S.neg c (mN.2 hlt)
      exact ⟨⟨fun h => by omega, fun h => by omega⟩, ⟨fun _ => hlt, fun _ => this⟩⟩
    · have := S.zero c (fun h => by have := mP.1 h; omega) (fun h => by have := mN.1 h; omega)
      exact ⟨⟨fun h => by omega, fun h => by omega⟩, ⟨fun h => by omega, fun h => by omega⟩⟩
    · have := S.pos c (mP.2 hgt)
      exact ⟨⟨fun _ => hgt, fun _ => this⟩, ⟨fun h => by omega, fun h => by omega⟩⟩
  · intro c htri
    apply S.zero c
    · rw [mem_cellsWhere]; simp [htri]
    · rw [mem_cellsWhere]; simp [htri]
  · refine (S.posPerm.trans (sortedWeights_perm Wc 1 isPos und)).trans ?_
    simp
  · have := S.negPerm.trans ((sortedWeights_perm Wc (-1) isNeg und).map fun w => -w)
    refine this.trans ?_
    simp [List.map_map, Function.comp_def]

theorem dealtU_toFun (X : AMat Int n) (i j : Fin n) : X.toFun i j = cellVal X (i, j) := rfl

/-- directed null model: `W0 = U` -/
theorem nullSpec_dir (Wc Wr : AMat Int n) (asgP asgN : List (Cell n × Int))
    (hpres : Preserved Wc.toFun Wr.toFun) (hdiag : ∀ i, Wc.toFun i i = 0)
    (hPc : (asgP.map Prod.fst).Perm (cellsWhere Wr isPos false))
    (hPw : (asgP.map Prod.snd).Perm (sortedWeights Wc 1 isPos false))
    (hNc : (asgN.map Prod.fst).Perm (cellsWhere Wr isNeg false))
    (hNw : (asgN.map Prod.snd).Perm (sortedWeights Wc (-1) isNeg false)) :
    NullSpec Wc.toFun (dealtU asgP asgN).toFun ∧ SameSigns (dealtU asgP asgN).toFun Wr.toFun := by
  obtain ⟨hsig, _, hp, hn⟩ := dealtU_spec false Wc Wr asgP asgN hPc hPw hNc hNw
  have hss : SameSigns (dealtU asgP asgN).toFun Wr.toFun := fun i j => hsig (i, j) (by simp [inTri])
  obtain ⟨c1, c2, c3, c4⟩ := hss.counts
  have eP : cellsWhere (dealtU asgP asgN) isPos false = cellsWhere Wr isPos false := by
    rw [cellsWhere_eq, cellsWhere_eq]; apply List.filter_congr; intro c _
    have := (hss c.1 c.2).1
    simp only [dealtU_toFun] at this
    simp [isPos, this]
  have eN : cellsWhere (dealtU asgP asgN) isNeg false = cellsWhere Wr isNeg false := by
    rw [cellsWhere_eq, cellsWhere_eq]; apply List.filter_congr; intro c _
    have := (hss c.1 c.2).2
    simp only [dealtU_toFun] at this
    simp [isNeg, this]
  refine ⟨⟨fun r => (c1 r).trans (hpres.rowPos r), fun r => (c2 r).trans (hpres.rowNeg r),
    fun c => (c3 c).trans (hpres.colPos c), fun c => (c4 c).trans (hpres.colNeg c), ?_, ?_, ?_⟩, hss⟩
  · rw [posMS_eq, posMS_eq, eP]; exact Multiset.coe_eq_coe.2 hp
  · rw [negMS_eq, negMS_eq, eN]; exact Multiset.coe_eq_coe.2 hn
  · intro i
    have h0 : Wr.toFun i i = 0 := (hpres.diag i).trans (hdiag i)
    have := hss i i
    rw [h0] at this
    omega

end Bct.Signed

namespace Bct.Signed
open List
variable {n : ℕ}

/-! ### undirected: a symmetric matrix with empty diagonal is its upper triangle taken twice -/

theorem cellsWhere_symm_split (X : AMat Int n) (p : Int → Bool) (hp0 : p 0 = false)
    (hs : IsSymm X.toFun) (hd : ∀ i, X.toFun i i = 0) :
    ((cellsWhere X p false).map (cellVal X)).Perm
      ((cellsWhere X p true).map (cellVal X) ++ (cellsWhere X p true).map (cellVal X)) := by
  have hsw : ∀ c : Cell n, cellVal X c.swap = cellVal X c := fun c => hs c.2 c.1
  have hsplit := (List.filter_append_perm (fun c : Cell n => decide (c.1.val ≤ c.2.val)) (cellsWhere X p false)).symm
  have e1 : (cellsWhere X p false).filter (fun c : Cell n => decide (c.1.val ≤ c.2.val)) = cellsWhere X p true := by
    rw [cellsWhere_eq, cellsWhere_eq, List.filter_filter]
    apply List.filter_congr; intro c _; simp [inTri, Bool.and_comm]
  have e2 : ((cellsWhere X p false).filter (fun c : Cell n => !decide (c.1.val ≤ c.2.val))).Perm
      ((cellsWhere X p true).map Prod.swap) := by
    refine (List.perm_ext_iff_of_nodup ((cellsWhere_nodup X p false).filter _)
      ((cellsWhere_nodup X p true).map Prod.swap_injective)).2 ?_
    intro c
    simp only [List.mem_filter, mem_cellsWhere, List.mem_map, inTri, Bool.not_false, Bool.true_or, and_true,
      Bool.not_true, Bool.false_or, decide_eq_true_eq, Bool.not_eq_true', decide_eq_false_iff_not, not_le]
    constructor
    · rintro ⟨hpc, hlt⟩
      exact ⟨c.swap, ⟨by rw [hsw]; exact hpc, by simp; omega⟩, by simp⟩
    · rintro ⟨c', ⟨hpc, hle⟩, rfl⟩
      refine ⟨by rw [hsw]; exact hpc, ?_⟩
      rcases Nat.lt_or_ge c'.1.val c'.2.val with h | h
      · simpa using h
      · exfalso
        have he : c'.1 = c'.2 := Fin.ext (by omega)
        have : cellVal X c' = 0 := by
          obtain ⟨x, y⟩ := c'
          simp only at he; subst he; exact hd x
        rw [this, hp0] at hpc
        exact Bool.false_ne_true hpc
  have := (hsplit.map (cellVal X))
  rw [List.map_append, e1] at this
  refine this.trans (List.Perm.append_left _ ?_)
  refine (e2.map (cellVal X)).trans ?_
  rw [List.map_map]
  exact (List.map_congr_left (fun c _ => hsw c)) ▸ List.Perm.refl _

theorem posMS_symm (X : AMat Int n) (hs : IsSymm X.toFun) (hd : ∀ i, X.toFun i i = 0) :
    posMS X.toFun = ↑((cellsWhere X isPos true).map (cellVal X)) + ↑((cellsWhere X isPos true).map (cellVal X)) := by
  rw [posMS_eq, Multiset.coe_add]
  exact Multiset.coe_eq_coe.2 (cellsWhere_symm_split X isPos (by simp [isPos]) hs hd)

theorem negMS_symm (X : AMat Int n) (hs : IsSymm X.toFun) (hd : ∀ i, X.toFun i i = 0) :
    negMS X.toFun = ↑((cellsWhere X isNeg true).map (cellVal X)) + ↑((cellsWhere X isNeg true).map (cellVal X)) := by
  rw [negMS_eq, Multiset.coe_add]
  exact Multiset.coe_eq_coe.2 (cellsWhere_symm_split X isNeg (by simp [isNeg]) hs hd)

/-- undirected null model: `W0 = U + Uᵀ` -/
theorem nullSpec_und (Wc Wr : AMat Int n) (asgP asgN : List (Cell n × Int))
    (hpres : Preserved Wc.toFun Wr.toFun) (hdiag : ∀ i, Wc.toFun i i = 0)
    (hsc : IsSymm Wc.toFun) (hsr : IsSymm Wr.toFun)
    (hPc : (asgP.map Prod.fst).Perm (cellsWhere Wr isPos true))
    (hPw : (asgP.map Prod.snd).Perm (sortedWeights Wc 1 isPos true))
    (hNc : (asgN.map Prod.fst).Perm (cellsWhere Wr isNeg true))
    (hNw : (asgN.map Prod.snd).Perm (sortedWeights Wc (-1) isNeg true)) :
    NullSpec Wc.toFun (finalW0 true (dealtU asgP asgN)).toFun ∧
    SameSigns (finalW0 true (dealtU asgP asgN)).toFun Wr.toFun ∧
    IsSymm (finalW0 true (dealtU asgP asgN)).toFun := by
  obtain ⟨hsig, hzero, hp, hn⟩ := dealtU_spec true Wc Wr asgP asgN hPc hPw hNc hNw
  set U := dealtU asgP asgN with hU
  have hW0 : ∀ i j, (finalW0 true U).toFun i j = cellVal U (i, j) + cellVal U (j, i) := by
    intro i j; simp [finalW0, AMat.toFun, cellVal]
  have hr0 : ∀ i, Wr.toFun i i = 0 := fun i => (hpres.diag i).trans (hdiag i)
  have tri_le : ∀ i j : Fin n, i.val ≤ j.val → inTri true ((i, j) : Cell n) = true := by
    intro i j h; simp [inTri, h]
  have tri_gt : ∀ i j : Fin n, j.val < i.val → inTri true ((i, j) : Cell n) = false := by
    intro i j h; simp [inTri]; omega
  have hUd : ∀ i, cellVal U (i, i) = 0 := by
    intro i
    have := hsig (i, i) (tri_le i i (le_refl _))
    have h0 : cellVal Wr (i, i) = 0 := hr0 i
    rw [h0] at this
    omega
  -- on the (weak) upper triangle W0 agrees with U
  have hup : ∀ i j : Fin n, i.val ≤ j.val → (finalW0 true U).toFun i j = cellVal U (i, j) := by
    intro i j hij
    rw [hW0]
    rcases Nat.lt_or_ge i.val j.val with h | h
    · rw [hzero (j, i) (tri_gt j i h)]; simp
    · have : i = j := Fin.ext (by omega)
      subst this; rw [hUd]; simp
  have hsym : IsSymm (finalW0 true U).toFun := by
    intro i j; rw [hW0, hW0, add_comm]
  have hss : SameSigns (finalW0 true U).toFun Wr.toFun := by
    intro i j
    rcases Nat.le_total i.val j.val with h | h
    · rw [hup i j h]; exact hsig (i, j) (tri_le i j h)
    · rw [hsym i j, hup j i h, hsr i j]; exact hsig (j, i) (tri_le j i h)
  obtain ⟨c1, c2, c3, c4⟩ := hss.counts
  have hd0 : ∀ i, (finalW0 true U).toFun i i = 0 := by
    intro i; rw [hup i i (le_refl _)]; exact hUd i
  have eP : (cellsWhere (finalW0 true U) isPos true).map (cellVal (finalW0 true U))
      = (cellsWhere Wr isPos true).map (cellVal U) := by
    have : cellsWhere (finalW0 true U) isPos true = cellsWhere Wr isPos true := by
      rw [cellsWhere_eq, cellsWhere_eq]; apply List.filter_congr; intro c _
      have := (hss c.1 c.2).1
      simp only [dealtU_toFun] at this
      simp [isPos, this]
    rw [this]
    apply List.map_congr_left
    intro c hc
    have := ((mem_cellsWhere Wr isPos true c).1 hc).2
    simp only [inTri, Bool.not_true, Bool.false_or, decide_eq_true_eq] at this
    exact hup c.1 c.2 this
  have eN : (cellsWhere (finalW0 true U) isNeg true).map (cellVal (finalW0 true U))
      = (cellsWhere Wr isNeg true).map (cellVal U) := by
    have : cellsWhere (finalW0 true U) isNeg true = cellsWhere Wr isNeg true := by
      rw [cellsWhere_eq, cellsWhere_eq]; apply List.filter_congr; intro c _
      have := (hss c.1 c.2).2
      simp only [dealtU_toFun] at this
      simp [isNeg, this]
    rw [this]
    apply List.map_congr_left
    intro c hc
    have := ((mem_cellsWhere Wr isNeg true c).1 hc).2
    simp only [inTri, Bool.not_true, Bool.false_or, decide_eq_true_eq] at this
    exact hup c.1 c.2 this
  refine ⟨⟨fun r => (c1 r).trans (hpres.rowPos r), fun r => (c2 r).trans (hpres.rowNeg r),
    fun c => (c3 c).trans (hpres.colPos c), fun c => (c4 c).trans (hpres.colNeg c), ?_, ?_, hd0⟩, hss, hsym⟩
  · rw [posMS_symm _ hsym hd0, posMS_symm Wc hsc hdiag, eP, Multiset.coe_eq_coe.2 hp]
  · rw [negMS_symm _ hsym hd0, negMS_symm Wc hsc hdiag, eN, Multiset.coe_eq_coe.2 hn]

end Bct.Signed
