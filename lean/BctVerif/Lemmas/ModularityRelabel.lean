import BctVerif.Model.Modularity
import Mathlib.Data.Finset.Card
import Mathlib.Data.Finset.Image
import Mathlib.Data.Fintype.Card
import Mathlib.Data.Fintype.Fin
import Mathlib.Order.Interval.Finset.Nat
import Mathlib.Tactic

/-! # `rank` / `relabel` = `np.unique(·, return_inverse=True)` : ranks of the distinct labels -/
namespace Bct.Modularity
open Finset

variable {n : ℕ}

theorem isFirst_iff (c : Fin n → ℤ) (j : Fin n) :
    isFirst c j = true ↔ ∀ j' : Fin n, j'.val < j.val → c j' ≠ c j := by
  unfold isFirst
  simp only [List.all_eq_true, List.mem_finRange, true_implies, Bool.not_eq_true', Bool.and_eq_false_imp,
    decide_eq_true_eq, beq_eq_false_iff_ne, ne_eq]

theorem length_filter_finRange (p : Fin n → Bool) :
    ((List.finRange n).filter p).length = (univ.filter (fun j => p j = true)).card := by
  rw [Fin.univ_def]
  simp [Finset.filter, Finset.card]

/-- the distinct labels -/
def labelSet (c : Fin n → ℤ) : Finset ℤ := univ.image c

/-- every label has a first carrier -/
theorem exists_first (c : Fin n → ℤ) (i : Fin n) : ∃ j : Fin n, isFirst c j = true ∧ c j = c i := by
  classical
  have hne : (univ.filter (fun j : Fin n => c j = c i)).Nonempty := ⟨i, by simp⟩
  refine ⟨(univ.filter (fun j : Fin n => c j = c i)).min' hne, ?_, ?_⟩
  · rw [isFirst_iff]
    intro j' hlt heq
    have hmem : j' ∈ univ.filter (fun j : Fin n => c j = c i) := by
      have := Finset.min'_mem _ hne
      simp only [mem_filter, mem_univ, true_and] at this ⊢
      rw [heq, this]
    have := Finset.min'_le _ j' hmem
    exact absurd (Fin.lt_def.mpr hlt) (not_lt.mpr this)
  · have := Finset.min'_mem _ hne
    simpa using this

theorem first_inj (c : Fin n → ℤ) (a b : Fin n) (ha : isFirst c a = true) (hb : isFirst c b = true)
    (h : c a = c b) : a = b := by
  rw [isFirst_iff] at ha hb
  rcases lt_trichotomy a.val b.val with hlt | heq | hgt
  · exact absurd h (hb a hlt)
  · exact Fin.ext heq
  · exact absurd h.symm (ha b hgt)

theorem rank_eq_card (c : Fin n → ℤ) (i : Fin n) :
    rank c i = ((labelSet c).filter (· < c i)).card := by
  classical
  unfold rank
  rw [length_filter_finRange]
  have himg : (univ.filter (fun j => (isFirst c j && decide (c j < c i)) = true)).image c
      = (labelSet c).filter (· < c i) := by
    ext v
    simp only [mem_image, mem_filter, mem_univ, true_and, Bool.and_eq_true, decide_eq_true_eq, labelSet]
    constructor
    · rintro ⟨j, ⟨_, hlt⟩, rfl⟩; exact ⟨⟨j, rfl⟩, hlt⟩
    · rintro ⟨⟨j, rfl⟩, hlt⟩
      obtain ⟨j0, hf, he⟩ := exists_first c j
      exact ⟨j0, ⟨hf, he ▸ hlt⟩, he⟩
  rw [← himg, Finset.card_image_of_injOn]
  intro a ha b hb hab
  simp only [coe_filter, mem_univ, true_and, Bool.and_eq_true, Set.mem_ofPred_eq] at ha hb
  exact first_inj c a b ha.1 hb.1 hab

theorem numLabels_eq_card (c : Fin n → ℤ) : numLabels c = (labelSet c).card := by
  classical
  unfold numLabels
  rw [length_filter_finRange]
  have himg : (univ.filter (fun j => isFirst c j = true)).image c = labelSet c := by
    ext v
    simp only [mem_image, mem_filter, mem_univ, true_and, labelSet]
    constructor
    · rintro ⟨j, _, rfl⟩; exact ⟨j, rfl⟩
    · rintro ⟨j, rfl⟩
      obtain ⟨j0, hf, he⟩ := exists_first c j
      exact ⟨j0, hf, he⟩
  rw [← himg, Finset.card_image_of_injOn]
  intro a ha b hb hab
  simp only [coe_filter, mem_univ, true_and, Set.mem_ofPred_eq] at ha hb
  exact first_inj c a b ha hb hab

theorem rank_lt_of_lt (c : Fin n → ℤ) (i j : Fin n) (h : c i < c j) : rank c i < rank c j := by
  rw [rank_eq_card, rank_eq_card]
  apply Finset.card_lt_card
  rw [Finset.ssubset_iff_of_subset]
  · refine ⟨c i, ?_, ?_⟩
    · simp [labelSet, h]
    · simp
  · intro v hv
    simp only [mem_filter] at hv ⊢
    exact ⟨hv.1, lt_trans hv.2 h⟩

/-- `relabel` preserves co-membership -/
theorem rank_eq_iff (c : Fin n → ℤ) (i j : Fin n) : rank c i = rank c j ↔ c i = c j := by
  constructor
  · intro h
    rcases lt_trichotomy (c i) (c j) with hlt | heq | hgt
    · exact absurd h (ne_of_lt (rank_lt_of_lt c i j hlt))
    · exact heq
    · exact absurd h.symm (ne_of_lt (rank_lt_of_lt c j i hgt))
  · intro h; unfold rank; rw [h]

theorem rank_lt_numLabels (c : Fin n → ℤ) (i : Fin n) : rank c i < numLabels c := by
  rw [rank_eq_card, numLabels_eq_card]
  apply Finset.card_lt_card
  rw [Finset.ssubset_iff_of_subset (Finset.filter_subset _ _)]
  exact ⟨c i, by simp [labelSet], by simp⟩

theorem numLabels_le (c : Fin n → ℤ) : numLabels c ≤ n := by
  rw [numLabels_eq_card]
  calc (labelSet c).card ≤ (univ : Finset (Fin n)).card := Finset.card_image_le
    _ = n := by simp

theorem rank_lt (c : Fin n → ℤ) (i : Fin n) : rank c i < n :=
  lt_of_lt_of_le (rank_lt_numLabels c i) (numLabels_le c)

/-- every rank below the number of distinct labels is attained -/
theorem rank_surj (c : Fin n → ℤ) (r : ℕ) (hr : r < numLabels c) : ∃ i, rank c i = r := by
  classical
  set S := labelSet c with hS
  let f : ℤ → ℕ := fun v => (S.filter (· < v)).card
  have hinj : Set.InjOn f S := by
    intro a ha b hb hab
    by_contra hne
    rcases lt_or_gt_of_ne hne with hlt | hgt
    · obtain ⟨i, _, rfl⟩ := Finset.mem_image.mp ha
      obtain ⟨j, _, rfl⟩ := Finset.mem_image.mp hb
      have := rank_lt_of_lt c i j hlt
      rw [rank_eq_card, rank_eq_card] at this
      exact absurd hab (ne_of_lt this)
    · obtain ⟨i, _, rfl⟩ := Finset.mem_image.mp ha
      obtain ⟨j, _, rfl⟩ := Finset.mem_image.mp hb
      have := rank_lt_of_lt c j i hgt
      rw [rank_eq_card, rank_eq_card] at this
      exact absurd hab.symm (ne_of_lt this)
  have hsub : S.image f ⊆ Finset.range S.card := by
    intro x hx
    obtain ⟨v, hv, rfl⟩ := Finset.mem_image.mp hx
    obtain ⟨i, _, rfl⟩ := Finset.mem_image.mp hv
    have := rank_lt_numLabels c i
    rw [rank_eq_card, numLabels_eq_card] at this
    exact Finset.mem_range.mpr this
  have hcard : (S.image f).card = (Finset.range S.card).card := by
    rw [Finset.card_image_of_injOn hinj, Finset.card_range]
  have heq := Finset.eq_of_subset_of_card_le hsub (le_of_eq hcard.symm)
  have hr' : r ∈ S.image f := by
    rw [heq, Finset.mem_range, ← numLabels_eq_card]; exact hr
  obtain ⟨v, hv, hfv⟩ := Finset.mem_image.mp hr'
  obtain ⟨i, _, rfl⟩ := Finset.mem_image.mp hv
  exact ⟨i, by rw [rank_eq_card]; exact hfv⟩

/-- `toLab` never takes its error branch, and yields the ranks -/
theorem toLab_ok (c : Fin n → ℤ) : ∃ l : Lab n, toLab c = .ok l ∧ ∀ i : Fin n, (l[i] : ℕ) = rank c i := by
  unfold toLab
  have h : ∀ i : Fin n, rank c i < n := rank_lt c
  rw [dif_pos h]
  exact ⟨_, rfl, fun i => by simp⟩

theorem toLab_eq (c : Fin n → ℤ) (l : Lab n) (h : toLab c = .ok l) (i : Fin n) : (l[i] : ℕ) = rank c i := by
  obtain ⟨l', h', hl'⟩ := toLab_ok c
  rw [h'] at h
  cases h
  exact hl' i

end Bct.Modularity
