import BctVerif.Lemmas.MeasuresAlg
/-!
# Equivariance of `distance_bin`, `efficiency_bin` (global) and `reachdist` (loops: induction on the fuel)
-/
namespace Bct.Measures
open Bct

variable {n : Nat} (σ : Equiv.Perm (Fin n))

theorem anyNz_perm (L : AMat Int n) : anyNz (permA σ L) = anyNz L := by
  unfold anyNz; exact fany2_congr_perm σ _ _ (fun i j => by simp)

theorem dbStepD_perm (D L : AMat Int n) (c : Int) : dbStepD (permA σ D) (permA σ L) c = permA σ (dbStepD D L c) := by
  apply AMat.ext_get; intro i j; simp [dbStepD]

theorem dbStepL_perm (P D : AMat Int n) : dbStepL (permA σ P) (permA σ D) = permA σ (dbStepL P D) := by
  apply AMat.ext_get; intro i j; simp [dbStepL]

theorem eye_perm : (eye : AMat Int n) = permA σ eye := by
  apply AMat.ext_get; intro i j; simp [eye]

theorem dbLoop_perm (G : AMat Int n) (fuel : Nat) (D P L : AMat Int n) (c : Int) :
    dbLoop (permA σ G) fuel (permA σ D) (permA σ P) (permA σ L) c = (dbLoop G fuel D P L c).map (permA σ) := by
  induction fuel generalizing D P L c with
  | zero => simp [dbLoop, Except.map]
  | succ f ih =>
    simp only [dbLoop, anyNz_perm, dbStepD_perm, mmul_perm, dbStepL_perm, ih]
    split <;> simp [Except.map]

theorem distRaw_perm (G : AMat Int n) : distRaw (permA σ G) = (distRaw G).map (permA σ) := by
  unfold distRaw
  have h := dbLoop_perm σ G (n + 2) eye G (bin G) 1
  rw [← eye_perm σ, ← bin_perm] at h
  exact h

theorem distanceBin_perm (A : AMat Int n) : distanceBin (permA σ A) = (distanceBin A).map (permA σ) := by
  unfold distanceBin
  rw [bin_perm, distRaw_perm]
  cases distRaw (bin A) with
  | error e => simp [Except.map]
  | ok D =>
    simp only [Except.map]
    congr 1
    apply AMat.ext_get; intro i j; simp

theorem efficiencyBin_perm (A : AMat Int n) : efficiencyBin (permA σ A) = efficiencyBin A := by
  unfold efficiencyBin
  rw [bin_perm, distRaw_perm]
  cases distRaw (bin A) with
  | error e => simp [Except.map]
  | ok D =>
    simp only [Except.map]
    congr 2
    exact fsum2_congr_perm σ _ _ (fun i j => by simp)

/-! ### reachdist -/

theorem rdStepR_perm (R Cp : AMat Int n) : rdStepR (permA σ R) (permA σ Cp) = permA σ (rdStepR R Cp) := by
  apply AMat.ext_get; intro i j; simp [rdStepR]

theorem rdOpen_perm (row col : Vector Bool n) (R : AMat Int n) :
    rdOpen (permVec σ row) (permVec σ col) (permA σ R) = rdOpen row col R := by
  unfold rdOpen; exact fany2_congr_perm σ _ _ (fun i j => by simp)

theorem rdLoop_perm (C : AMat Int n) (row col : Vector Bool n) (fuel : Nat) (Cp R D : AMat Int n) (powr : Nat) :
    rdLoop (permA σ C) (permVec σ row) (permVec σ col) fuel (permA σ Cp) (permA σ R) (permA σ D) powr =
      (rdLoop C row col fuel Cp R D powr).map fun r => (permA σ r.1, permA σ r.2.1, r.2.2) := by
  induction fuel generalizing Cp R D powr with
  | zero => simp [rdLoop, Except.map]
  | succ f ih =>
    simp only [rdLoop, mmul_perm, rdStepR_perm, madd_perm, rdOpen_perm, ih]
    split <;> simp [Except.map]

theorem nzRows_perm (C : AMat Int n) : nzRows (permA σ C) = permVec σ (nzRows C) := by
  apply vec_ext; intro i; simp [nzRows, rowSum_perm]

theorem nzCols_perm (C : AMat Int n) : nzCols (permA σ C) = permVec σ (nzCols C) := by
  apply vec_ext; intro i; simp [nzCols, colSum_perm]

theorem rdFinish_perm (row col : Vector Bool n) (D : AMat Int n) (powr : Nat) :
    rdFinish (permVec σ row) (permVec σ col) (permA σ D) powr = permA σ (rdFinish row col D powr) := by
  apply AMat.ext_get; intro i j; simp [rdFinish]

theorem reachdist_perm (A : AMat Int n) :
    reachdist (permA σ A) = (reachdist A).map fun r => (permA σ r.1, permA σ r.2) := by
  simp only [reachdist, bin_perm, nzRows_perm, nzCols_perm, rdLoop_perm]
  cases rdLoop (bin A) (nzRows (bin A)) (nzCols (bin A)) (n + 2) (bin A) (bin A) (bin A) 2 with
  | error e => simp [Except.map]
  | ok r => simp [Except.map, rdFinish_perm]

end Bct.Measures
