import BctVerif.Lemmas.WalksGJ
import BctVerif.Lemmas.WalksMfptExist
/-!
# `mfpt` (the executable model) is total on networks in which every node reaches every node
-/
open Finset Matrix

namespace Bct.Walks
open Bct.WalksAlg

variable {n : ℕ}

theorem transition_props (A : QMat n) (hA : ∀ i j, 0 ≤ A.get i j) (hrow : ∀ i, ∑ k, A.get i k ≠ 0)
    (hconn : ∀ i j, Relation.ReflTransGen (fun a b : Fin n => 0 < A.get a b) i j) :
    (∀ i k, 0 ≤ toMat (transition A) i k) ∧ (∀ i, ∑ k, toMat (transition A) i k = 1) ∧
    WalksAlg.Irreducible (toMat (transition A)) := by
  have hpos : ∀ i, 0 < ∑ k, A.get i k := fun i =>
    lt_of_le_of_ne (Finset.sum_nonneg (fun k _ => hA i k)) (Ne.symm (hrow i))
  have hget : ∀ i k, toMat (transition A) i k = A.get i k / ∑ l, A.get i l := by
    intro i k; simp [transition, rowSum, fsum_eq]
  refine ⟨fun i k => by rw [hget]; exact div_nonneg (hA i k) (hpos i).le,
    fun i => by simp only [hget, ← Finset.sum_div]; exact div_self (hrow i), fun i j => ?_⟩
  have hmono : ∀ a b : Fin n, 0 < A.get a b → 0 < toMat (transition A) a b := fun a b hab => by
    rw [hget]; exact div_pos hab (hpos a)
  exact (Relation.ReflTransGen.mono hmono) i j (hconn i j)

/-- **totality of the MFPT model**: non-negative weights, at least one node, every node reaches every node ⇒ the model returns
(no `singular`, no `cert`): `I − P + 11ᵀ` and `I − P + 1wᵀ` are invertible, the elimination is complete on invertible systems, the
solution of the first system is the stationary distribution, and every stationary probability is non-zero -/
theorem mfpt_total (A : QMat n) (hn : 0 < n) (hA : ∀ i j, 0 ≤ A.get i j)
    (hconn : ∀ i j, Relation.ReflTransGen (fun a b : Fin n => 0 < A.get a b) i j)
    (hrow : ∀ i, ∑ k, A.get i k ≠ 0) : ∃ o, mfpt A = .ok o := by
  obtain ⟨h0, h1, hirr⟩ := transition_props A hA hrow hconn
  set P := transition A with hPdef
  -- first system
  set C : QMat n := AMat.ofFn fun i j => delta i j - P.get j i + 1 with hCdef
  have hCdet : (toMat C).det ≠ 0 := by
    have ht : toMat C = (Matrix.of fun i k => (if i = k then (1 : ℚ) else 0) - toMat P i k + 1)ᵀ := by
      ext i j
      simp only [hCdef, toMat_apply, AMat.get_ofFn, delta_eq, Matrix.transpose_apply, Matrix.of_apply]
      by_cases hij : i = j
      · subst hij; simp
      · have : ¬ j = i := fun h => hij h.symm
        simp [hij, this]
    rw [ht, Matrix.det_transpose]
    exact det_IPE_ne_zero (toMat P) h0 h1 hirr _ (fun i k => rfl)
  obtain ⟨w, hwsolve, hwcert⟩ := solveVec_complete C (Vector.ofFn fun _ => 1) hCdet
  have hwsys := (solves_iff _ _ _).mp hwcert
  have hst := stationary_of_solve (toMat P) h1 hn (fun k => w[k]) (fun i => by
    have := hwsys i
    simp only [hCdef, AMat.get_ofFn, delta_eq, Fin.getElem_fin, Vector.getElem_ofFn] at this
    simpa using this)
  have hstat : stationary P w = true := (stationary_iff P w).mpr ⟨fun j => hst.1 j, hst.2⟩
  have hwne : ∀ j : Fin n, w[j] ≠ 0 := fun j => stationary_ne_zero (toMat P) h0 h1 hirr (fun k => w[k]) hst.1 hst.2 j
  -- second system
  have hBdet : (toMat (fundArg P w)).det ≠ 0 :=
    det_fund_ne_zero (toMat P) h0 h1 hirr (fun k => w[k]) hst.1 hst.2 _ (fun i k => by simp [fundArg, delta_eq])
  obtain ⟨Z, hZsolve, hZ⟩ := solveGJ_complete (fundArg P w) (idMat n) hBdet
  have hinv : isInvOf (fundArg P w) Z = true := by
    simp only [isInvOf, allFin_iff, beq_iff_eq, fsum_eq]
    intro i j
    have e : (idMat n)[i][j] = delta i j := AMat.get_ofFn (fun i j : Fin n => delta i j) i j
    rw [← e]
    exact hZ i j
  refine ⟨{ P := P, w := w, Z := Z, M := AMat.ofFn fun i j => (AMat.get Z j j - AMat.get Z i j) / w[j] }, ?_⟩
  unfold mfpt
  have hrs : (anyFin n fun i => rowSum A i == 0) = false := by
    rw [Bool.eq_false_iff]; intro h
    obtain ⟨i, hi⟩ := (anyFin_iff _).mp h
    exact hrow i (by simpa [rowSum, fsum_eq] using hi)
  have hw0 : (anyFin n fun j => w[j] == 0) = false := by
    rw [Bool.eq_false_iff]; intro h
    obtain ⟨j, hj⟩ := (anyFin_iff _).mp h
    exact hwne j (by simpa using hj)
  simp only [hrs, Bool.false_eq_true, if_false, ← hPdef, ← hCdef, hwsolve, hstat, Bool.not_true, hw0, inverseGJ, hZsolve, hinv]

end Bct.Walks
