import BctVerif.Model.Partition
import Mathlib.Algebra.BigOperators.Fin
import Mathlib.Data.Finset.Card
import Mathlib.Data.Finset.Image
import Mathlib.Data.Fintype.Basic
import Mathlib.Algebra.Order.Field.Rat
import Mathlib.Tactic.Ring
import Mathlib.Tactic.Linarith

/-! Helper lemmas for the partition model: list sums as `Finset.sum`, the rank map as a bijection
from the set of labels onto `0..k-1`, and the resulting label-free form of every "loop over modules". -/
namespace Bct.Partition
open Finset

variable {n : Nat}

/-! ### sums -/
theorem sumFin_eq {α : Type} [AddCommMonoid α] (f : Fin n → α) : sumFin f = ∑ i, f i := by
  unfold sumFin; rw [Fin.sum_univ_def]

theorem sumRange_eq {α : Type} [AddCommMonoid α] (k : Nat) (f : Nat → α) :
    sumRange k f = ∑ m ∈ range k, f m := by
  unfold sumRange
  induction k with
  | zero => simp
  | succ k ih => rw [List.range_succ, List.map_append, List.sum_append, ih, Finset.sum_range_succ]; simp

theorem sumIn_eq {α : Type} [AddCommMonoid α] (p : Fin n → Bool) (f : Fin n → α) :
    sumIn p f = ∑ v, if p v then f v else 0 := by
  unfold sumIn; rw [sumFin_eq]

/-! ### distinct / rank -/
theorem mem_distinct {x : Int} {l : List Int} : x ∈ distinct l ↔ x ∈ l := by
  induction l with
  | nil => simp [distinct]
  | cons a l ih =>
    unfold distinct
    by_cases h : a ∈ distinct l
    · simp only [h, if_true, List.mem_cons]
      constructor
      · intro hx; exact Or.inr (ih.mp hx)
      · rintro (rfl | hx)
        · exact h
        · exact ih.mpr hx
    · simp only [h, if_false, List.mem_cons, ih]

theorem nodup_distinct (l : List Int) : (distinct l).Nodup := by
  induction l with
  | nil => simp [distinct]
  | cons a l ih =>
    unfold distinct
    by_cases h : a ∈ distinct l
    · simpa [h] using ih
    · simp only [h, if_false]; exact List.nodup_cons.mpr ⟨h, ih⟩

/-- the set of labels used by `c` -/
def labelSet (c : Vector Int n) : Finset Int := univ.image fun v : Fin n => c[v]

theorem distinct_toFinset (c : Vector Int n) : (distinct c.toList).toFinset = labelSet c := by
  ext x
  simp only [List.mem_toFinset, mem_distinct, labelSet, mem_image, mem_univ, true_and]
  constructor
  · intro hx
    obtain ⟨i, hi, rfl⟩ := List.mem_iff_getElem.mp hx
    have hi' : i < n := by simpa using hi
    exact ⟨⟨i, hi'⟩, by simp⟩
  · rintro ⟨v, rfl⟩
    exact List.mem_iff_getElem.mpr ⟨v.val, by simp, by simp⟩

theorem numMods_eq (c : Vector Int n) : numMods c = (labelSet c).card := by
  unfold numMods
  rw [← distinct_toFinset, List.toFinset_card_of_nodup (nodup_distinct _)]

theorem rank_eq (c : Vector Int n) (x : Int) : rank c.toList x = ((labelSet c).filter (· < x)).card := by
  unfold rank
  rw [← distinct_toFinset, ← List.toFinset_card_of_nodup ((nodup_distinct c.toList).filter _)]
  congr 1
  ext y
  simp

theorem mem_labelSet (c : Vector Int n) (v : Fin n) : c[v] ∈ labelSet c :=
  mem_image.mpr ⟨v, mem_univ _, rfl⟩

theorem rank_lt_of_lt (c : Vector Int n) {x y : Int} (hx : x ∈ labelSet c) (h : x < y) :
    rank c.toList x < rank c.toList y := by
  rw [rank_eq, rank_eq]
  apply Finset.card_lt_card
  constructor
  · intro z hz
    simp only [mem_filter] at hz ⊢
    exact ⟨hz.1, lt_trans hz.2 h⟩
  · intro hsub
    have : x ∈ (labelSet c).filter (· < x) := hsub (by simp [hx, h])
    simp at this

theorem rank_inj (c : Vector Int n) {x y : Int} (hx : x ∈ labelSet c) (hy : y ∈ labelSet c)
    (h : rank c.toList x = rank c.toList y) : x = y := by
  rcases lt_trichotomy x y with hlt | heq | hgt
  · exact absurd h (Nat.ne_of_lt (rank_lt_of_lt c hx hlt))
  · exact heq
  · exact absurd h.symm (Nat.ne_of_lt (rank_lt_of_lt c hy hgt))

theorem rank_lt_numMods (c : Vector Int n) {x : Int} (hx : x ∈ labelSet c) : rank c.toList x < numMods c := by
  rw [rank_eq, numMods_eq]
  apply Finset.card_lt_card
  constructor
  · exact filter_subset _ _
  · intro hsub
    have : x ∈ (labelSet c).filter (· < x) := hsub hx
    simp at this

theorem image_rank (c : Vector Int n) : (labelSet c).image (rank c.toList) = range (numMods c) := by
  apply Finset.eq_of_subset_of_card_le
  · intro m hm
    obtain ⟨x, hx, rfl⟩ := mem_image.mp hm
    exact mem_range.mpr (rank_lt_numMods c hx)
  · rw [card_range, Finset.card_image_of_injOn, numMods_eq]
    intro x hx y hy h
    exact rank_inj c hx hy h

@[simp] theorem relabel_get (c : Vector Int n) (v : Fin n) : (relabel c)[v] = rank c.toList c[v] + 1 := by
  simp [relabel]

@[simp] theorem map_get (c : Vector Int n) (g : Int → Int) (v : Fin n) : (c.map g)[v] = g c[v] := by simp

theorem labelSet_map (c : Vector Int n) (g : Int → Int) : labelSet (c.map g) = (labelSet c).image g := by
  ext x; simp [labelSet]

theorem numMods_map (c : Vector Int n) {g : Int → Int} (hg : Function.Injective g) :
    numMods (c.map g) = numMods c := by
  rw [numMods_eq, numMods_eq, labelSet_map, Finset.card_image_of_injective _ hg]

/-- the members of the module with canonical number `rank ℓ + 1` are the nodes labelled `ℓ` -/
theorem inMod_rank (c : Vector Int n) {ℓ : Int} (hℓ : ℓ ∈ labelSet c) :
    inMod (relabel c) (rank c.toList ℓ + 1) = fun v => decide (c[v] = ℓ) := by
  funext v
  unfold inMod
  rw [relabel_get]
  by_cases h : c[v] = ℓ
  · simp [h]
  · have : rank c.toList c[v] ≠ rank c.toList ℓ := fun e => h (rank_inj c (mem_labelSet c v) hℓ e)
    simp only [Fin.getElem_fin] at h this ⊢
    simp [h, this]

/-- **label-free form of a loop over the modules** -/
theorem modSum_eq {α : Type} [AddCommMonoid α] (c : Vector Int n) (F : (Fin n → Bool) → α) :
    modSum c F = ∑ ℓ ∈ labelSet c, F (fun v => decide (c[v] = ℓ)) := by
  unfold modSum
  rw [sumRange_eq, ← image_rank, Finset.sum_image]
  · apply Finset.sum_congr rfl
    intro ℓ hℓ
    rw [inMod_rank c hℓ]
  · intro x hx y hy h
    exact rank_inj c hx hy h

theorem modSum_map {α : Type} [AddCommMonoid α] (c : Vector Int n) {g : Int → Int} (hg : Function.Injective g)
    (F : (Fin n → Bool) → α) : modSum (c.map g) F = modSum c F := by
  rw [modSum_eq, modSum_eq, labelSet_map, Finset.sum_image (fun x _ y _ h => hg h)]
  apply Finset.sum_congr rfl
  intro ℓ _
  congr 1
  funext v
  simp [hg.eq_iff]

/-- the module of node `u` -/
theorem inMod_self (c : Vector Int n) (u : Fin n) :
    inMod (relabel c) (relabel c)[u] = fun v => decide (c[v] = c[u]) := by
  rw [relabel_get, inMod_rank c (mem_labelSet c u)]

theorem relabel_eq_iff' (c : Vector Int n) (u v : Fin n) : (relabel c)[u] = (relabel c)[v] ↔ c[u] = c[v] := by
  rw [relabel_get, relabel_get]
  constructor
  · intro h; exact rank_inj c (mem_labelSet c u) (mem_labelSet c v) (Nat.succ_injective h)
  · intro h; rw [h]

end Bct.Partition
