import BctVerif.Lemmas.ModularitySign

/-! # Labels of the hierarchy levels are exactly `1..k` -/
namespace Bct.Modularity
open Finset

variable {n : ℕ}
variable {g0 : GState}

/-- in a finite set of integers, the numbers of smaller elements take every value below the cardinality -/
theorem card_filter_lt_surj (S : Finset ℤ) (r : ℕ) (hr : r < S.card) :
    ∃ v ∈ S, (S.filter (· < v)).card = r := by
  classical
  let f : ℤ → ℕ := fun v => (S.filter (· < v)).card
  have hmono : ∀ a ∈ S, ∀ b ∈ S, a < b → f a < f b := by
    intro a ha b _ hab
    apply Finset.card_lt_card
    rw [Finset.ssubset_iff_of_subset]
    · exact ⟨a, by simp [ha, hab], by simp⟩
    · intro v hv
      simp only [mem_filter] at hv ⊢
      exact ⟨hv.1, lt_trans hv.2 hab⟩
  have hinj : Set.InjOn f S := by
    intro a ha b hb hab
    by_contra hne
    rcases lt_or_gt_of_ne hne with hlt | hgt
    · exact absurd hab (ne_of_lt (hmono a ha b hb hlt))
    · exact absurd hab.symm (ne_of_lt (hmono b hb a ha hgt))
  have hsub : S.image f ⊆ Finset.range S.card := by
    intro x hx
    obtain ⟨v, hv, rfl⟩ := Finset.mem_image.mp hx
    apply Finset.mem_range.mpr
    apply Finset.card_lt_card
    rw [Finset.ssubset_iff_of_subset (Finset.filter_subset _ _)]
    exact ⟨v, hv, by simp⟩
  have hcard : (S.image f).card = (Finset.range S.card).card := by
    rw [Finset.card_image_of_injOn hinj, Finset.card_range]
  have heq := Finset.eq_of_subset_of_card_le hsub (le_of_eq hcard.symm)
  have hr' : r ∈ S.image f := by rw [heq, Finset.mem_range]; exact hr
  obtain ⟨v, hv, hfv⟩ := Finset.mem_image.mp hr'
  exact ⟨v, hv, hfv⟩

/-- every label has a first carrier, which is not after the given one -/
theorem exists_first_le (c : Fin n → ℤ) (i : Fin n) :
    ∃ j : Fin n, isFirst c j = true ∧ c j = c i ∧ j.val ≤ i.val := by
  classical
  have hne : (univ.filter (fun j : Fin n => c j = c i)).Nonempty := ⟨i, by simp⟩
  refine ⟨(univ.filter (fun j : Fin n => c j = c i)).min' hne, ?_, ?_, ?_⟩
  · rw [isFirst_iff]
    intro j' hlt heq
    have hmem : j' ∈ univ.filter (fun j : Fin n => c j = c i) := by
      have := Finset.min'_mem _ hne
      simp only [mem_filter, mem_univ, true_and] at this ⊢
      rw [heq, this]
    have := Finset.min'_le _ j' hmem
    exact absurd (Fin.lt_def.mpr hlt) (not_lt.mpr this)
  · have := Finset.min'_mem _ hne
    simpa using this
  · have := Finset.min'_le (univ.filter (fun j : Fin n => c j = c i)) i (by simp)
    exact Fin.le_def.mp this

/-- nodes below `nh` carry module slots below `nh`; the others are untouched singletons -/
def ActiveInv (nh : ℕ) (m : Lab n) : Prop :=
  (∀ i : Fin n, i.val < nh → (labOf m i).val < nh) ∧ (∀ i : Fin n, nh ≤ i.val → labOf m i = i)

theorem isFirst_congr (c c' : Fin n → ℤ) (h : ∀ i j, c i = c j ↔ c' i = c' j) (j : Fin n) :
    isFirst c j = isFirst c' j := by
  rw [Bool.eq_iff_iff, isFirst_iff, isFirst_iff]
  constructor
  · intro hf j' hlt he; exact hf j' hlt ((h j' j).mpr he)
  · intro hf j' hlt he; exact hf j' hlt ((h j' j).mp he)

/-- **ranks of the active nodes**: with `k'` the number of distinct labels among the first `nh` nodes
(`nextSize`), the ranks of these nodes are below `k'` and take every value below `k'`. -/
theorem rank_active (m m' : Lab n) (nh : ℕ) (hA : ActiveInv nh m) (hm' : toLab (labFn m) = .ok m') :
    (∀ i : Fin n, i.val < nh → (labOf m' i).val < nextSize m' nh) ∧
    (∀ r, r < nextSize m' nh → ∃ i : Fin n, i.val < nh ∧ (labOf m' i).val = r) := by
  classical
  set c := labFn m with hc
  have hrank : ∀ i : Fin n, (labOf m' i).val = rank c i := fun i => toLab_eq c m' hm' i
  set A : Finset ℤ := (univ.filter (fun i : Fin n => i.val < nh)).image c with hAdef
  -- nextSize counts the distinct labels of the active nodes
  have hk : nextSize m' nh = A.card := by
    unfold nextSize
    rw [length_filter_finRange]
    have hfirst : ∀ j, isFirst (labFn m') j = isFirst c j :=
      isFirst_congr _ _ (fun i j => by
        rw [labFn_congr, ← labOf_toLab_congr c m' hm'])
    have himg : (univ.filter (fun j : Fin n => (decide (j.val < nh) && isFirst (labFn m') j) = true)).image c = A := by
      ext v
      simp only [mem_image, mem_filter, mem_univ, true_and, Bool.and_eq_true, decide_eq_true_eq, hAdef]
      constructor
      · rintro ⟨j, ⟨hj, _⟩, rfl⟩; exact ⟨j, hj, rfl⟩
      · rintro ⟨i, hi, rfl⟩
        obtain ⟨j0, hf, he, hle⟩ := exists_first_le c i
        exact ⟨j0, ⟨lt_of_le_of_lt hle hi, by rw [hfirst]; exact hf⟩, he⟩
    rw [← himg, Finset.card_image_of_injOn]
    intro a ha b hb hab
    simp only [coe_filter, mem_univ, true_and, Bool.and_eq_true, Set.mem_ofPred_eq, hfirst] at ha hb
    exact first_inj c a b ha.2 hb.2 hab
  -- for an active node, only active labels are smaller than its label
  have hfilter : ∀ i : Fin n, i.val < nh → (labelSet c).filter (· < c i) = A.filter (· < c i) := by
    intro i hi
    ext v
    simp only [mem_filter, labelSet, mem_image, mem_univ, true_and, hAdef]
    constructor
    · rintro ⟨⟨j, rfl⟩, hlt⟩
      refine ⟨⟨j, ?_, rfl⟩, hlt⟩
      by_contra hj
      have hj' : nh ≤ j.val := Nat.le_of_not_lt hj
      have e1 := hA.2 j hj'
      have e2 := hA.1 i hi
      simp only [hc, labFn] at hlt
      have : (labOf m j).val < (labOf m i).val := by
        have := hlt; simp only [labOf_apply] ; exact_mod_cast this
      rw [e1] at this
      omega
    · rintro ⟨⟨j, _, rfl⟩, hlt⟩
      exact ⟨⟨j, rfl⟩, hlt⟩
  refine ⟨fun i hi => ?_, fun r hr => ?_⟩
  · rw [hrank, rank_eq_card, hfilter i hi, hk]
    apply Finset.card_lt_card
    rw [Finset.ssubset_iff_of_subset (Finset.filter_subset _ _)]
    exact ⟨c i, Finset.mem_image.mpr ⟨i, by simp [hi], rfl⟩, by simp⟩
  · rw [hk] at hr
    obtain ⟨v, hv, hfv⟩ := card_filter_lt_surj A r hr
    obtain ⟨i, hi, rfl⟩ := Finset.mem_image.mp hv
    simp only [mem_filter, mem_univ, true_and] at hi
    exact ⟨i, hi, by rw [hrank, rank_eq_card, hfilter i hi]; exact hfv⟩

/-! ## sweeps stay inside the active range -/

variable {σ : Type}

theorem visit_m_cases (K : Kern σ n) (lim : ℕ) (x : PSt σ n) (u : Fin n) :
    (visit K lim x u).1.m = x.m ∨ ∃ mb : Fin n, mb.val < lim ∧ (visit K lim x u).1.m = x.m.set u mb := by
  rcases visit_cases K lim x u with ⟨_, hm, _⟩ | ⟨mb, hl, _, _, _, hm, _⟩
  · exact Or.inl hm
  · exact Or.inr ⟨mb, hl, hm⟩

theorem visit_active (K : Kern σ n) (nh : ℕ) (x : PSt σ n) (u : Fin n) (hu : u.val < nh)
    (h : ActiveInv nh x.m) : ActiveInv nh (visit K nh x u).1.m := by
  rcases visit_m_cases K nh x u with e | ⟨mb, hmb, e⟩
  · rw [e]; exact h
  · rw [e]
    unfold ActiveInv
    rw [labOf_set]
    refine ⟨fun i hi => ?_, fun i hi => ?_⟩
    · by_cases hiu : i = u
      · subst hiu; simpa using hmb
      · rw [Function.update_of_ne hiu]; exact h.1 i hi
    · have hiu : i ≠ u := by intro e'; subst e'; omega
      rw [Function.update_of_ne hiu]; exact h.2 i hi

theorem pass_active (K : Kern σ n) (nh : ℕ) (us : List (Fin n)) (hus : ∀ u ∈ us, u.val < nh) (x : PSt σ n)
    (h : ActiveInv nh x.m) : ActiveInv nh (pass K nh x us).1.m := by
  unfold pass
  have key : ∀ (us : List (Fin n)), (∀ u ∈ us, u.val < nh) → ∀ (y : PSt σ n) (fl : Bool), ActiveInv nh y.m →
      ActiveInv nh (us.foldl (fun acc u => ((visit K nh acc.1 u).1, acc.2 || (visit K nh acc.1 u).2)) (y, fl)).1.m := by
    intro us
    induction us with
    | nil => intro _ y fl hy; exact hy
    | cons u us ih =>
      intro hus y fl hy
      simp only [List.foldl_cons]
      exact ih (fun w hw => hus w (List.mem_cons_of_mem _ hw)) _ _
        (visit_active K nh y u (hus u (List.mem_cons_self)) hy)
  exact key us hus x false h

theorem mapM_option_all {α β : Type} (f : α → Option β) (P : β → Prop) (hf : ∀ a b, f a = some b → P b) :
    ∀ (l : List α) (bs : List β), l.mapM f = some bs → ∀ b ∈ bs, P b := by
  intro l
  induction l with
  | nil => intro bs h b hb; simp at h; subst h; simp at hb
  | cons a l ih =>
    intro bs h b hb
    simp only [List.mapM_cons, Option.pure_def, Option.bind_eq_bind, Option.bind_eq_some_iff] at h
    obtain ⟨b0, hb0, bs0, hbs0, hbs⟩ := h
    simp only [Option.some.injEq] at hbs
    subst hbs
    rcases List.mem_cons.mp hb with rfl | hb
    · exact hf a _ hb0
    · exact ih bs0 hbs0 b hb

theorem takePerm_lt (nh : ℕ) (ds rest : List ℕ) (us : List (Fin n)) (h : takePerm n nh ds = .ok (us, rest)) :
    ∀ u ∈ us, u.val < nh := by
  unfold takePerm at h
  split_ifs at h
  generalize hm : (ds.take nh).mapM (fun x => if h : x < n ∧ x < nh then some (⟨x, h.1⟩ : Fin n) else none) = r at h
  cases r with
  | none => simp at h
  | some us' =>
    simp only [Except.ok.injEq, Prod.mk.injEq] at h
    obtain ⟨rfl, _⟩ := h
    refine mapM_option_all _ (fun u : Fin n => u.val < nh) ?_ _ _ hm
    intro a b hab
    split_ifs at hab with hc
    simp only [Option.some.injEq] at hab
    subst hab
    exact hc.2

theorem passes_active (K : Kern σ n) (nh : ℕ) (fuel : ℕ) (x x' : PSt σ n) (ds rest : List ℕ)
    (hx : ActiveInv nh x.m) (h : passes K nh nh fuel x ds = .ok (x', rest)) : ActiveInv nh x'.m := by
  induction fuel generalizing x ds with
  | zero =>
    simp only [passes] at h
    cases h
    exact hx
  | succ fuel ih =>
    simp only [passes] at h
    cases hp : takePerm n nh ds with
    | error e =>
      simp only [hp] at h
      cases h
      exact hx
    | ok p =>
      obtain ⟨us, rest'⟩ := p
      simp only [hp] at h
      have h1 := pass_active K nh us (takePerm_lt nh ds rest' us hp)
        { x with g := { x.g with passNo := x.g.passNo + 1 } } hx
      split_ifs at h with hfl
      · exact ih _ _ h1 h
      · cases h
        exact h1

/-! ## composite labels of a level -/

/-- the composite labels land in, and cover, the `nh` active super-nodes -/
def CiInv (nh : ℕ) (ci : Lab n) : Prop :=
  (∀ v : Fin n, (labOf ci v).val < nh) ∧ (∀ a : ℕ, a < nh → ∃ v : Fin n, (labOf ci v).val = a)

/-- labels `+1` are exactly `1..k` -/
def LabelsExact (c : Lab n) : Prop :=
  ∃ k : ℕ, (∀ v : Fin n, 1 ≤ (labOf c v).val + 1 ∧ (labOf c v).val + 1 ≤ k) ∧
    ∀ l, 1 ≤ l → l ≤ k → ∃ v : Fin n, (labOf c v).val + 1 = l

theorem CiInv.exact {nh : ℕ} {ci : Lab n} (h : CiInv nh ci) : LabelsExact ci := by
  refine ⟨nh, fun v => ⟨by omega, by have := h.1 v; omega⟩, fun l h1 h2 => ?_⟩
  obtain ⟨v, hv⟩ := h.2 (l - 1) (by omega)
  exact ⟨v, by omega⟩

theorem CiInv_idLab : CiInv n (idLab n) := by
  rw [CiInv, labOf_idLab]
  exact ⟨fun v => v.isLt, fun a ha => ⟨⟨a, ha⟩, rfl⟩⟩

theorem ActiveInv_idLab (nh : ℕ) : ActiveInv nh (idLab n) := by
  rw [ActiveInv, labOf_idLab]
  exact ⟨fun i hi => hi, fun i _ => rfl⟩

theorem ActiveInv_full (m : Lab n) : ActiveInv n m :=
  ⟨fun i _ => (labOf m i).isLt, fun i hi => absurd i.isLt (by omega)⟩

/-- one level: relabel the sweep's result, compose with the previous composite labels -/
theorem CiInv_step (nh : ℕ) (ci m m' : Lab n) (hci : CiInv nh ci) (hA : ActiveInv nh m)
    (hm' : toLab (labFn m) = .ok m') : CiInv (nextSize m' nh) (compose ci m') := by
  obtain ⟨h1, h2⟩ := rank_active m m' nh hA hm'
  rw [CiInv, labOf_compose]
  refine ⟨fun v => h1 _ (hci.1 v), fun a ha => ?_⟩
  obtain ⟨i, hi, hr⟩ := h2 a ha
  obtain ⟨v, hv⟩ := hci.2 i.val hi
  exact ⟨v, by show (labOf m' (labOf ci v)).val = a; rw [Fin.ext hv]; exact hr⟩

/-! ## the three level loops -/

theorem louvainUndLoop_labels (s γ : ℚ) :
    ∀ (fuel : ℕ) (W : RMat n) (L L' : LvSt n) (ds rest : List ℕ), CiInv L.nh L.ci →
      (∀ p ∈ L.acc, LabelsExact p.1) → louvainUndLoop s γ fuel W L ds = .ok (L', rest) →
      ∀ p ∈ L'.acc, LabelsExact p.1 := by
  intro fuel
  induction fuel with
  | zero => intro W L L' ds rest _ _ h; simp [louvainUndLoop] at h
  | succ fuel ih =>
    intro W L L' ds rest hci hacc h
    unfold louvainUndLoop at h
    simp only [bind, Except.bind, pure, Except.pure] at h
    generalize hp : passes (undKern n) L.nh L.nh (ds.length + 1) _ ds = res at h
    cases res with
    | error e => simp at h
    | ok r =>
      obtain ⟨x, rest1⟩ := r
      simp only at h
      by_cases hst : x.starved.isSome = true
      · simp only [hst, if_true] at h
        cases h
        exact hacc
      · simp only [hst] at h
        obtain ⟨m', hm', _⟩ := toLab_ok (labFn x.m)
        simp only [hm'] at h
        have hact := passes_active (undKern n) L.nh _ _ _ _ _ (by simpa [pst0] using ActiveInv_idLab (n := n) L.nh) hp
        have hci' := CiInv_step L.nh L.ci x.m m' hci hact hm'
        by_cases hstop : (L.hasPrev && decide (qTraceDot (aggUpper W m') s γ - L.qprev < thr)) = true
        · simp only [hstop, if_true] at h
          cases h
          exact hacc
        · simp only [hstop] at h
          refine ih _ _ _ _ _ hci' ?_ h
          intro p hp'
          rcases List.mem_cons.mp hp' with rfl | hp'
          · exact hci'.exact
          · exact hacc p hp'

theorem louvainSignLoop_labels (s0 s1 d0 d1 γ : ℚ) :
    ∀ (fuel : ℕ) (W0 W1 : RMat n) (L L' : LvSt n) (qcur : ℚ) (ds rest : List ℕ), CiInv L.nh L.ci →
      (∀ p ∈ L.acc, LabelsExact p.1) → louvainSignLoop s0 s1 d0 d1 γ fuel W0 W1 L qcur ds = .ok (L', rest) →
      ∀ p ∈ L'.acc, LabelsExact p.1 := by
  intro fuel
  induction fuel with
  | zero => intro W0 W1 L L' qcur ds rest _ _ h; simp [louvainSignLoop] at h
  | succ fuel ih =>
    intro W0 W1 L L' qcur ds rest hci hacc h
    unfold louvainSignLoop at h
    split_ifs at h with hgo
    · simp only [bind, Except.bind, pure, Except.pure] at h
      generalize hp : passes (signKern n) L.nh L.nh (ds.length + 1) _ ds = res at h
      cases res with
      | error e => simp at h
      | ok r =>
        obtain ⟨x, rest1⟩ := r
        simp only at h
        by_cases hst : x.starved.isSome = true
        · simp only [hst, if_true] at h
          cases h
          exact hacc
        · simp only [hst] at h
          obtain ⟨m', hm', _⟩ := toLab_ok (labFn x.m)
          simp only [hm'] at h
          have hact := passes_active (signKern n) L.nh _ _ _ _ _ (by simpa [pst0] using ActiveInv_idLab (n := n) L.nh) hp
          have hci' := CiInv_step L.nh L.ci x.m m' hci hact hm'
          refine ih _ _ _ _ _ _ _ hci' ?_ h
          intro p hp'
          rcases List.mem_cons.mp hp' with rfl | hp'
          · exact hci'.exact
          · exact hacc p hp'
    · cases h
      exact hacc

theorem clLoop_labels :
    ∀ (fuel : ℕ) (B : RMat n) (Mb : Lab n) (L L' : LvSt n) (q0 : Option ℚ) (q qf : ℚ) (ds rest : List ℕ),
      CiInv L.nh L.ci → ActiveInv L.nh Mb → (∀ p ∈ L.acc, LabelsExact p.1) →
      clLoop fuel B Mb L q0 q ds = .ok (L', qf, rest) → ∀ p ∈ L'.acc, LabelsExact p.1 := by
  intro fuel
  induction fuel with
  | zero => intro B Mb L L' q0 q qf ds rest _ _ _ h; simp [clLoop] at h
  | succ fuel ih =>
    intro B Mb L L' q0 q qf ds rest hci hMb hacc h
    unfold clLoop at h
    split_ifs at h with hgo
    · simp only [bind, Except.bind, pure, Except.pure] at h
      generalize hp : passes (objKern n) L.nh L.nh (ds.length + 1) _ ds = res at h
      cases res with
      | error e => simp at h
      | ok r =>
        obtain ⟨x, rest1⟩ := r
        simp only at h
        by_cases hst : x.starved.isSome = true
        · simp only [hst, if_true] at h
          cases h
          exact hacc
        · simp only [hst] at h
          obtain ⟨m', hm', _⟩ := toLab_ok (labFn x.m)
          simp only [hm'] at h
          have hact := passes_active (objKern n) L.nh _ _ _ _ _ (by simpa [pst0] using hMb) hp
          have hci' := CiInv_step L.nh L.ci x.m m' hci hact hm'
          refine ih _ _ _ _ _ _ _ _ _ hci' (ActiveInv_idLab _) ?_ h
          intro p hp'
          rcases List.mem_cons.mp hp' with rfl | hp'
          · exact hci'.exact
          · exact hacc p hp'
    · cases h
      exact hacc

/-- **labels_range_levels** — every level returned by the models of `modularity_louvain_und`,
`modularity_louvain_und_sign` and `community_louvain` carries labels that are exactly `1..k`. -/
theorem levels_labels_exact (W : RMat n) (γ : ℚ) (ds : List ℕ) (out : Out n) :
    (louvainUnd W γ ds g0 = .ok out → ∀ p ∈ out.levels, LabelsExact p.1) ∧
    (∀ t : QType, louvainSign t W γ ds g0 = .ok out → ∀ p ∈ out.levels, LabelsExact p.1) ∧
    (∀ (obj : Objective n) (c0 : Fin n → ℤ), communityLouvain W γ obj c0 ds g0 = .ok out →
      ∀ p ∈ out.levels, LabelsExact p.1) := by
  refine ⟨fun h => ?_, fun t h => ?_, fun obj c0 h => ?_⟩
  · unfold louvainUnd at h
    simp only [bind, Except.bind, pure, Except.pure] at h
    split_ifs at h with hs0
    generalize hl : louvainUndLoop (total W) γ (ds.length + 1) W (lv0 n g0) ds = res at h
    cases res with
    | error e => simp at h
    | ok r =>
      obtain ⟨L, rest⟩ := r
      simp only at h
      cases h
      have := louvainUndLoop_labels (total W) γ _ _ _ _ _ _ (by simpa [lv0] using CiInv_idLab (n := n))
        (by intro p hp; simp [lv0] at hp) hl
      intro p hp
      exact this p (List.mem_reverse.mp hp)
  · unfold louvainSign at h
    simp only [bind, Except.bind, pure, Except.pure] at h
    generalize hl : louvainSignLoop _ _ _ _ γ (ds.length + 1) _ _ _ 0 ds = res at h
    cases res with
    | error e => simp at h
    | ok r =>
      obtain ⟨L, rest⟩ := r
      simp only at h
      cases h
      have := louvainSignLoop_labels _ _ _ _ γ _ _ _ _ _ _ _ _ (by simpa using CiInv_idLab (n := n))
        (by intro p hp; simp at hp) hl
      intro p hp
      exact this p (List.mem_reverse.mp hp)
  · unfold communityLouvain at h
    simp only [bind, Except.bind, pure, Except.pure] at h
    split_ifs at h with h1 h2 h3
    all_goals
      obtain ⟨c, hc, _⟩ := toLab_ok c0
      simp only [hc] at h
      generalize hl : clLoop (ds.length + 1) _ c _ none _ ds = res at h
      cases res with
      | error e => simp at h
      | ok r =>
        obtain ⟨L, qf, rest⟩ := r
        simp only at h
        have hall := clLoop_labels _ _ _ _ _ _ _ _ _ _ (by simpa using CiInv_idLab (n := n)) (ActiveInv_full c)
          (by intro p hp; simp at hp) hl
        cases hacc : L.acc with
        | nil =>
          simp only [hacc] at h
          cases h
          intro p hp; simp at hp
        | cons p0 tl =>
          obtain ⟨ci, q'⟩ := p0
          simp only [hacc] at h
          cases h
          intro p hp
          simp only [List.mem_singleton] at hp
          subst hp
          exact hall (ci, q') (by rw [hacc]; exact List.mem_cons_self)

/-! ## the single-level routines -/

theorem toLab_labelsExact (c : Fin n → ℤ) (l : Lab n) (h : toLab c = .ok l) : LabelsExact l := by
  have hr : ∀ v : Fin n, (labOf l v).val = rank c v := fun v => toLab_eq c l h v
  refine ⟨numLabels c, fun v => ⟨by omega, ?_⟩, fun k h1 h2 => ?_⟩
  · have := rank_lt_numLabels c v; rw [hr v]; omega
  · obtain ⟨i, hi⟩ := rank_surj c (k - 1) (by omega)
    exact ⟨i, by rw [hr i]; omega⟩

/-- **labels_range (single-level routines)** — the label vector returned by the models of
`modularity_finetune_und`, `modularity_finetune_dir`, `modularity_finetune_und_sign` and
`modularity_probtune_und_sign` is exactly `1..k`. -/
theorem single_level_labels_exact (W : RMat n) (γ : ℚ) (c0 : Fin n → ℤ) (ds : List ℕ) (out : Out n) :
    (finetuneUnd W γ c0 ds g0 = .ok out → ∀ p ∈ out.levels, LabelsExact p.1) ∧
    (finetuneDir W γ c0 ds g0 = .ok out → ∀ p ∈ out.levels, LabelsExact p.1) ∧
    (∀ t : QType, finetuneSign t W γ c0 ds g0 = .ok out → ∀ p ∈ out.levels, LabelsExact p.1) ∧
    (∀ (t : QType) (pr : ℚ), probtuneSign t W γ pr c0 ds g0 = .ok out → ∀ p ∈ out.levels, LabelsExact p.1) := by
  obtain ⟨c, hc, _⟩ := toLab_ok c0
  refine ⟨fun h => ?_, fun h => ?_, fun t h => ?_, fun t pr h => ?_⟩
  · unfold finetuneUnd at h
    simp only [bind, Except.bind, pure, Except.pure] at h
    split_ifs at h with hs0
    simp only [hc] at h
    generalize hp : passes (undKern n) n n (ds.length + 1) _ ds = res at h
    cases res with
    | error e => simp at h
    | ok r =>
      obtain ⟨x, rest⟩ := r
      simp only at h
      obtain ⟨c', hc', _⟩ := toLab_ok (labFn x.m)
      simp only [hc'] at h
      cases h
      intro p hp'
      simp only [List.mem_singleton] at hp'
      subst hp'
      exact toLab_labelsExact _ _ hc'
  · unfold finetuneDir at h
    simp only [bind, Except.bind, pure, Except.pure] at h
    split_ifs at h with hs0
    simp only [hc] at h
    generalize hp : passes (dirKern n) n n (ds.length + 1) _ ds = res at h
    cases res with
    | error e => simp at h
    | ok r =>
      obtain ⟨x, rest⟩ := r
      simp only at h
      obtain ⟨c', hc', _⟩ := toLab_ok (labFn x.m)
      simp only [hc'] at h
      cases h
      intro p hp'
      simp only [List.mem_singleton] at hp'
      subst hp'
      exact toLab_labelsExact _ _ hc'
  · unfold finetuneSign at h
    simp only [hc, bind, Except.bind, pure, Except.pure] at h
    generalize hp : passes (signKern n) n n (ds.length + 1) _ ds = res at h
    cases res with
    | error e => simp at h
    | ok r =>
      obtain ⟨x, rest⟩ := r
      simp only at h
      obtain ⟨c', hc', _⟩ := toLab_ok (labFn x.m)
      simp only [hc'] at h
      cases h
      intro p hp'
      simp only [List.mem_singleton] at hp'
      subst hp'
      exact toLab_labelsExact _ _ hc'
  · unfold probtuneSign at h
    simp only [hc, bind, Except.bind, pure, Except.pure] at h
    cases ht : takePerm n n ds with
    | error e => simp [ht] at h
    | ok r =>
      obtain ⟨us, rest⟩ := r
      simp only [ht] at h
      generalize hp : probLoop pr us _ rest = res at h
      cases res with
      | error e => simp at h
      | ok r2 =>
        obtain ⟨x, rest2⟩ := r2
        simp only at h
        obtain ⟨c', hc', _⟩ := toLab_ok (labFn x.m)
        simp only [hc'] at h
        cases h
        intro p hp'
        simp only [List.mem_singleton] at hp'
        subst hp'
        exact toLab_labelsExact _ _ hc'

end Bct.Modularity
