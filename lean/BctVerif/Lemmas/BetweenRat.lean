import BctVerif.Lemmas.BetweenDep

/-!
# Rational connection lengths (C08)

A rational length matrix `ℓ` with common denominator `den > 0` is given by its numerators
`L : AMat Nat n`: `ℓ i j = L i j / den`.  Minimum-length walks for `ℓ` are exactly the minimum-length
walks for `L`, so every count and every fraction of the definition-level betweenness is the one the
models compute on the numerators; the same argument gives invariance under integer scaling.
-/
namespace Bct.Between
open Bct

variable {n : ℕ} (L : AMat Nat n)

/-- the rational length matrix with numerators `L` and common denominator `den` -/
def lenQ (den : ℕ) (i j : Fin n) : ℚ := (L.get i j : ℚ) / (den : ℚ)

/-- walks of a rational length function: every step has a non-zero length -/
def IsWalkQ (ℓ : Fin n → Fin n → ℚ) : Fin n → List (Fin n) → Prop
  | _, [] => True
  | s, v :: p => ℓ s v ≠ 0 ∧ IsWalkQ ℓ v p

def wlenQ (ℓ : Fin n → Fin n → ℚ) : Fin n → List (Fin n) → ℚ
  | _, [] => 0
  | s, v :: p => ℓ s v + wlenQ ℓ v p

/-- minimum-length walk for rational lengths -/
def IsMinQ (ℓ : Fin n → Fin n → ℚ) (s t : Fin n) (p : List (Fin n)) : Prop :=
  IsWalkQ ℓ s p ∧ wend s p = t ∧ ∀ q, IsWalkQ ℓ s q → wend s q = t → wlenQ ℓ s p ≤ wlenQ ℓ s q

variable {L}

theorem isWalkQ_iff {den : ℕ} (hden : 0 < den) (s : Fin n) (p : List (Fin n)) :
    IsWalkQ (lenQ L den) s p ↔ IsWalk L s p := by
  have hd : (den : ℚ) ≠ 0 := by exact_mod_cast hden.ne'
  induction p generalizing s with
  | nil => exact Iff.rfl
  | cons v p ih =>
    simp only [IsWalkQ, isWalk_cons, ih, lenQ]
    constructor
    · rintro ⟨h, hp⟩
      refine ⟨fun h0 => h ?_, hp⟩
      rw [h0]; simp
    · rintro ⟨h, hp⟩
      refine ⟨?_, hp⟩
      have : (L.get s v : ℚ) ≠ 0 := by exact_mod_cast h
      exact div_ne_zero this hd

theorem wlenQ_eq (den : ℕ) (s : Fin n) (p : List (Fin n)) :
    wlenQ (lenQ L den) s p = (wlen L s p : ℚ) / (den : ℚ) := by
  induction p generalizing s with
  | nil => simp [wlenQ]
  | cons v p ih =>
    simp only [wlenQ, wlen_cons, ih, lenQ]
    push_cast
    ring

/-- minimum-length walks for `L / den` are the minimum-length walks for the numerators `L` -/
theorem isMinQ_iff {den : ℕ} (hden : 0 < den) (s t : Fin n) (p : List (Fin n)) :
    IsMinQ (lenQ L den) s t p ↔ IsMin L s t p := by
  have hd : (0 : ℚ) < (den : ℚ) := by exact_mod_cast hden
  have hle : ∀ a b : ℕ, (a : ℚ) / (den : ℚ) ≤ (b : ℚ) / (den : ℚ) ↔ a ≤ b := by
    intro a b
    rw [div_le_div_iff_of_pos_right hd]
    exact Nat.cast_le
  unfold IsMinQ IsMin
  rw [isWalkQ_iff hden]
  constructor
  · rintro ⟨hw, he, hm⟩
    refine ⟨hw, he, fun q hq hqe => ?_⟩
    have := hm q ((isWalkQ_iff hden s q).2 hq) hqe
    rwa [wlenQ_eq, wlenQ_eq, hle] at this
  · rintro ⟨hw, he, hm⟩
    refine ⟨hw, he, fun q hq hqe => ?_⟩
    rw [wlenQ_eq, wlenQ_eq, hle]
    exact hm q ((isWalkQ_iff hden s q).1 hq) hqe

/-! ### integer scaling -/

/-- every length multiplied by `c` -/
def scaleL (c : ℕ) (L : AMat Nat n) : AMat Nat n := AMat.ofFn fun i j => c * L.get i j

theorem scaleL_get (c : ℕ) (i j : Fin n) : (scaleL c L).get i j = c * L.get i j := by
  simp [scaleL]

theorem isWalk_scale {c : ℕ} (hc : 0 < c) (s : Fin n) (p : List (Fin n)) :
    IsWalk (scaleL c L) s p ↔ IsWalk L s p := by
  induction p generalizing s with
  | nil => exact Iff.rfl
  | cons v p ih =>
    simp only [isWalk_cons, ih, scaleL_get]
    constructor
    · rintro ⟨h, hp⟩; exact ⟨fun h0 => h (by rw [h0, Nat.mul_zero]), hp⟩
    · rintro ⟨h, hp⟩; exact ⟨Nat.mul_ne_zero hc.ne' h, hp⟩

theorem wlen_scale (c : ℕ) (s : Fin n) (p : List (Fin n)) :
    wlen (scaleL c L) s p = c * wlen L s p := by
  induction p generalizing s with
  | nil => simp
  | cons v p ih => simp only [wlen_cons, ih, scaleL_get]; ring

theorem isMin_scale {c : ℕ} (hc : 0 < c) (s t : Fin n) (p : List (Fin n)) :
    IsMin (scaleL c L) s t p ↔ IsMin L s t p := by
  unfold IsMin
  rw [isWalk_scale hc]
  constructor
  · rintro ⟨hw, he, hm⟩
    refine ⟨hw, he, fun q hq hqe => ?_⟩
    have := hm q ((isWalk_scale hc s q).2 hq) hqe
    rw [wlen_scale, wlen_scale] at this
    exact Nat.le_of_mul_le_mul_left this hc
  · rintro ⟨hw, he, hm⟩
    refine ⟨hw, he, fun q hq hqe => ?_⟩
    rw [wlen_scale, wlen_scale]
    exact Nat.mul_le_mul_left c (hm q ((isWalk_scale hc s q).1 hq) hqe)

end Bct.Between
