import BctVerif.Lemmas.BetweenSum

/-!
# Last-step recurrences: every minimum-length walk to `w ≠ s` enters `w` through exactly one predecessor (C08)
-/
namespace Bct.Between
open Bct

variable {n : ℕ} (L : AMat Nat n)

theorem snd_mem_of_mem_edgesOf {s : Fin n} {p : List (Fin n)} {e : Fin n × Fin n} (h : e ∈ edgesOf s p) :
    e.2 ∈ p := by
  have : e.2 ∈ (edgesOf s p).map Prod.snd := List.mem_map_of_mem h
  rwa [edgesOf_map_snd] at this

/-- in a path, each visited vertex is entered through exactly one connection -/
theorem existsUnique_edge_into {s w : Fin n} {p : List (Fin n)} (hnd : p.Nodup) (hw : w ∈ p) :
    ∃! v, (v, w) ∈ edgesOf s p := by
  induction p generalizing s with
  | nil => exact absurd hw (by simp)
  | cons x p ih =>
    obtain ⟨hx, hnd'⟩ := List.nodup_cons.1 hnd
    by_cases hwx : w = x
    · subst hwx
      refine ⟨s, by simp [edgesOf], ?_⟩
      intro v hv
      simp only [edgesOf, List.mem_cons, Prod.mk.injEq] at hv
      rcases hv with hv | hv
      · exact hv.1
      · exact absurd (snd_mem_of_mem_edgesOf hv) hx
    · have hwp : w ∈ p := by
        rcases List.mem_cons.1 hw with h | h
        · exact absurd h hwx
        · exact h
      obtain ⟨v, hv, huniq⟩ := ih (s := x) hnd' hwp
      refine ⟨v, by simp [edgesOf, hv], ?_⟩
      intro v' hv'
      simp only [edgesOf, List.mem_cons, Prod.mk.injEq] at hv'
      rcases hv' with hv' | hv'
      · exact absurd hv'.2 hwx
      · exact huniq v' hv'

theorem sigmaE_last (s v w : Fin n) :
    sigmaE L (dist L) (sigma L) s w v w = if pred L (dist L) s v w = true then (sigma L).get s v else 0 := by
  by_cases hp : pred L (dist L) s v w = true
  · obtain ⟨hL, a, ha, he⟩ := (pred_iff L).1 hp
    rw [if_pos hp, sigmaE_of L hL ha (dist_self L w) (by simpa using he), sigma_self, mul_one]
  · rw [if_neg hp, sigmaE_not_pred L w hp]

/-- last-step recurrence of the shortest-path counts: `σ(s,w) = Σ_{v ∈ P_s(w)} σ(s,v)` for `w ≠ s` -/
theorem sigma_rec_last (s w : Fin n) (hsw : s ≠ w) :
    (sigma L).get s w = ∑ v, if pred L (dist L) s v w = true then (sigma L).get s v else 0 := by
  simp_rw [← sigmaE_last, sigmaE_eq_card_filter, Finset.card_filter]
  rw [Finset.sum_comm]
  have hσ : (sigma L).get s w = ∑ p ∈ minWF L n s w, 1 := by
    rw [sigma_eq_ncard, minW_eq_minWF, Set.ncard_coe_finset]; simp
  rw [hσ]
  refine Finset.sum_congr rfl fun p hp => ?_
  have hm := ((mem_minWF L n s w p).1 hp).1
  have hpn : p.Nodup := (List.nodup_cons.1 (hm.nodup L)).2
  have hpne : p ≠ [] := by
    rintro rfl
    exact hsw hm.2.1
  have hwp : w ∈ p := by
    have := wend_mem_of_ne_nil s p hpne
    rwa [hm.2.1] at this
  obtain ⟨v, hv, huniq⟩ := existsUnique_edge_into (s := s) hpn hwp
  rw [Finset.sum_eq_single v]
  · simp [hv]
  · intro v' _ hne
    rw [if_neg]
    intro h; exact hne (huniq v' h)
  · intro h; exact absurd (Finset.mem_univ v) h

/-- every reachable node other than the source has a predecessor -/
theorem exists_pred {s w : Fin n} {k : ℕ} (hsw : s ≠ w) (hd : (dist L).get s w = some k) :
    ∃ v, pred L (dist L) s v w = true := by
  by_contra hne
  push Not at hne
  have := sigma_rec_last L s w hsw
  rw [Finset.sum_eq_zero (fun v _ => by rw [if_neg (hne v)])] at this
  have hpos := sigma_pos L hd
  omega

end Bct.Between
