import Mathlib.Data.List.ProdSigma
import Mathlib.Data.List.FinRange
import Mathlib.Data.List.Perm.Basic
import Mathlib.Data.Finset.Card
import Mathlib.Data.Fintype.Prod
import Mathlib.Tactic
import BctVerif.Model.Thresh

/-!
# Cell lists, supports and the order oracle (helper lemmas for C17)
-/
namespace Bct.ThreshLemmas
open Bct Bct.Thresh

variable {n : ℕ}

theorem cells_eq_product (n : ℕ) : cells n = List.finRange n ×ˢ List.finRange n := rfl

theorem mem_cells (c : Fin n × Fin n) : c ∈ cells n := by
  obtain ⟨i, j⟩ := c
  rw [cells_eq_product, List.mem_product]
  exact ⟨List.mem_finRange i, List.mem_finRange j⟩

theorem cells_nodup (n : ℕ) : (cells n).Nodup := by
  rw [cells_eq_product]; exact (List.nodup_finRange n).product (List.nodup_finRange n)

theorem mem_support {W : AMat ℚ n} {c : Fin n × Fin n} : c ∈ support W ↔ W.get c.1 c.2 ≠ 0 := by
  simp [support, mem_cells]

theorem support_nodup (W : AMat ℚ n) : (support W).Nodup := (cells_nodup n).filter _

/-- number of nonzero cells of a matrix -/
def nnzCount (R : AMat ℚ n) : ℕ := (Finset.univ.filter fun c : Fin n × Fin n => R.get c.1 c.2 ≠ 0).card

theorem support_length (W : AMat ℚ n) : (support W).length = nnzCount W := by
  unfold nnzCount
  rw [← List.toFinset_card_of_nodup (support_nodup W)]
  congr 1; ext c; simp [mem_support]

/-- a list that is nodup and whose members are exactly the nonzero cells has `nnzCount` elements -/
theorem nnzCount_of_list {R : AMat ℚ n} {l : List (Fin n × Fin n)} (hl : l.Nodup)
    (h : ∀ c, R.get c.1 c.2 ≠ 0 ↔ c ∈ l) : nnzCount R = l.length := by
  unfold nnzCount
  rw [← List.toFinset_card_of_nodup hl]
  congr 1; ext c; simp [h]

theorem filterMap_getElem?_range {α : Type} (l : List α) :
    (List.range l.length).filterMap (fun k => l[k]?) = l := by
  apply List.ext_getElem?
  intro i
  induction l using List.reverseRecOn generalizing i with
  | nil => simp
  | append_singleton l a ih =>
    simp only [List.length_append, List.length_singleton, List.range_succ, List.filterMap_append]
    have h1 : List.filterMap (fun k => (l ++ [a])[k]?) (List.range l.length) = l := by
      have : List.filterMap (fun k => (l ++ [a])[k]?) (List.range l.length)
          = List.filterMap (fun k => l[k]?) (List.range l.length) := by
        apply List.filterMap_congr
        intro k hk
        rw [List.mem_range] at hk
        rw [List.getElem?_append_left hk]
      rw [this]
      exact List.ext_getElem? ih
    rw [h1]; simp

theorem selection_perm {α : Type} {ind sel : List α} {order : List ℕ}
    (h : selection ind order = .ok sel) : sel.Perm ind := by
  unfold selection at h
  split_ifs at h with hp
  injection h with h
  subst h
  have := hp.filterMap (fun k => ind[k]?)
  rwa [filterMap_getElem?_range] at this

theorem selection_error {α : Type} {ind : List α} {order : List ℕ} {e : Err}
    (h : selection ind order = .error e) : e = .badDraw ∧ ¬ order.Perm (List.range ind.length) := by
  unfold selection at h
  split_ifs at h with hp
  injection h with h
  exact ⟨h.symm, hp⟩

end Bct.ThreshLemmas
