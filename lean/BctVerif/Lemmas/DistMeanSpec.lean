import BctVerif.Lemmas.DistMean

/-!
# Means of a distance matrix: composition lemmas

`isDist_pos_offdiag` : positive connection lengths ⇒ a distance between distinct nodes is positive (so `1/d` is finite).
`meanExt_fin`, `meanExt_inf`, `meanInvOff_spec` : the model's `np.mean` / mean-inverse on `Ext` lists as rational
expressions over `offDiag n`, with the conventions of the code (`1/∞ = 0`; a sum containing `∞` is `∞`).
-/
namespace Bct.Dist
variable {n : ℕ}

theorem walkLen_nonneg (L : LMat n) (hL : ∀ i j, 0 ≤ L i j) : ∀ (p : List (Fin n)) (i : Fin n), 0 ≤ walkLen L i p := by
  intro p
  induction p with
  | nil => intro i; simp [walkLen]
  | cons a p ih => intro i; simp only [walkLen]; exact add_nonneg (hL i a) (ih a)

/-- with positive connection lengths the distance between two distinct nodes is positive -/
theorem isDist_pos_offdiag {L D : LMat n} (h : IsDist L D) (hL : ∀ i j, 0 < L i j) (i j : Fin n) (hij : i ≠ j) :
    0 < D i j := by
  by_cases htop : D i j = ⊤
  · rw [htop]; exact WithTop.coe_lt_top 0
  · obtain ⟨p, hp, hl⟩ := h.attained i j (lt_top_iff_ne_top.mpr htop)
    cases p with
    | nil => exact absurd hp hij
    | cons a q =>
      rw [← hl]
      simp only [walkLen]
      calc (0 : Len) < L i a := hL i a
        _ = L i a + 0 := by simp
        _ ≤ L i a + walkLen L a q := by gcongr; exact walkLen_nonneg L (fun x y => le_of_lt (hL x y)) q a

theorem entry_ne_zero_of_pos (D : AMat Ext n) (i j : Fin n) (h : 0 < lenFun D i j) : D.get i j ≠ .fin 0 := by
  intro e
  simp only [lenFun, e, Ext.toLen_fin] at h
  exact lt_irrefl _ h

/-- `1/d` as a rational, `1/∞ = 0` -/
def invQ (x : Ext) : ℚ := finVal x.inv

theorem inv_isFin_of_ne_zero (x : Ext) (h : x ≠ .fin 0) : x.inv.isFin = true := by
  cases x with
  | inf => simp [Ext.inv, Ext.isFin]
  | fin q =>
    have hq : q ≠ 0 := by intro e; rw [e] at h; exact h rfl
    simp [Ext.inv, hq, Ext.isFin]

theorem sumExt_inf_aux : ∀ (xs : List Ext), xs.foldl (· + ·) Ext.inf = Ext.inf := by
  intro xs
  induction xs with
  | nil => rfl
  | cons x xs ih =>
    simp only [List.foldl_cons]
    have : (Ext.inf + x) = Ext.inf := by cases x <;> rfl
    rw [this]; exact ih

theorem sumExt_inf_aux2 : ∀ (xs : List Ext) (a : Ext), Ext.inf ∈ xs → xs.foldl (· + ·) a = Ext.inf := by
  intro xs
  induction xs with
  | nil => intro a h; exact absurd h List.not_mem_nil
  | cons x xs ih =>
    intro a h
    simp only [List.foldl_cons]
    rcases List.mem_cons.mp h with e | e
    · rw [← e]
      have : (a + Ext.inf) = Ext.inf := by cases a <;> rfl
      rw [this]; exact sumExt_inf_aux xs
    · exact ih _ e

/-- a sum containing `∞` is `∞` -/
theorem sumExt_inf (xs : List Ext) (h : Ext.inf ∈ xs) : sumExt xs = .inf := sumExt_inf_aux2 xs _ h

/-- `np.mean` of finitely many finite values -/
theorem meanExt_fin (xs : List Ext) (hne : xs ≠ []) (h : ∀ x ∈ xs, x.isFin = true) :
    meanExt xs = some (.fin ((xs.map finVal).sum / (xs.length : ℚ))) := by
  unfold meanExt
  have : xs.isEmpty = false := by cases xs with
    | nil => exact absurd rfl hne
    | cons _ _ => rfl
  rw [this, sumExt_fin xs h]
  simp

/-- `np.mean` of values one of which is `∞` -/
theorem meanExt_inf (xs : List Ext) (h : Ext.inf ∈ xs) : meanExt xs = some .inf := by
  unfold meanExt
  have : xs.isEmpty = false := by cases xs with
    | nil => exact absurd h List.not_mem_nil
    | cons _ _ => rfl
  rw [this, sumExt_inf xs h]
  simp

/-- mean inverse distance over the ordered pairs of distinct nodes, `1/∞ = 0` -/
def meanInvSpec (D : AMat Ext n) : ℚ :=
  ((offDiag n).map fun p => invQ (D.get p.1 p.2)).sum / ((n * n - n : ℕ) : ℚ)

/-- mean distance over the ordered pairs of distinct nodes (all finite) -/
def meanSpec (D : AMat Ext n) : ℚ :=
  ((offDiag n).map fun p => finVal (D.get p.1 p.2)).sum / ((n * n - n : ℕ) : ℚ)

theorem offDiag_ne_nil (hn : 2 ≤ n) : offDiag n ≠ [] := by
  intro h
  have := offDiag_length (n := n)
  rw [h] at this
  simp only [List.length_nil] at this
  have : n * n ≥ 2 * n := Nat.mul_le_mul_right n hn
  omega

/-- the quantity returned by the three global efficiencies, for a matrix without zero off-diagonal entries -/
theorem meanInvOff_spec (D : AMat Ext n) (hn : 2 ≤ n) (hpos : ∀ p ∈ offDiag n, D.get p.1 p.2 ≠ .fin 0) :
    meanInvOff D = some (.fin (meanInvSpec D)) := by
  unfold meanInvOff
  rw [if_neg (by omega)]
  have hfin : ∀ x ∈ (offDiag n).map (fun p => (D.get p.1 p.2).inv), x.isFin = true := by
    intro x hx
    obtain ⟨p, hp, rfl⟩ := List.mem_map.mp hx
    exact inv_isFin_of_ne_zero _ (hpos p hp)
  rw [sumExt_fin _ hfin, List.map_map]
  rfl

end Bct.Dist
