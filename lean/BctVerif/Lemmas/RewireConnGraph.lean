import Mathlib.Logic.Relation
import BctVerif.Lemmas.RewireFun

/-!
# Graph-level facts used by C11: swapping two edges under a reachability test keeps (strong) connectivity

`adj R u v := R.toFun u v ≠ 0`.  `G'` = graph minus the two removed edges, `G''` = undirected graph
after the swap, `Gd` = digraph after the swap.  `swapUnd_adj` / `swapDir_adj` identify the adjacency
of the executable `swapUnd` / `swapDir` with `G''` / `Gd` of the old adjacency.
-/
open Relation

namespace Bct.RewireConn
open Bct Bct.Rewire Bct.RewireFun

variable {n : ℕ}

/-- adjacency relation of an integer matrix -/
def adj (R : AMat Int n) (u v : Fin n) : Prop := R.toFun u v ≠ 0

/-- every (ordered) pair of nodes is joined by a walk: connected (symmetric relation) / strongly
connected (arbitrary relation) -/
def Conn {V : Type} (r : V → V → Prop) : Prop := ∀ u v, ReflTransGen r u v

section abstract
variable {V : Type}

def isE (x y u v : V) : Prop := (u = x ∧ v = y) ∨ (u = y ∧ v = x)

/-- graph minus the two edges being removed -/
def G' (adj : V → V → Prop) (a b c d : V) (u v : V) : Prop := adj u v ∧ ¬ isE a b u v ∧ ¬ isE c d u v
/-- undirected graph after the swap -/
def G'' (adj : V → V → Prop) (a b c d : V) (u v : V) : Prop := G' adj a b c d u v ∨ isE a d u v ∨ isE c b u v

theorem G'_symm (adj : V → V → Prop) (hs : ∀ u v, adj u v → adj v u) (a b c d u v : V) :
    G' adj a b c d u v → G' adj a b c d v u := by
  intro ⟨h1, h2, h3⟩
  refine ⟨hs _ _ h1, ?_, ?_⟩
  · intro h; apply h2; unfold isE at *; tauto
  · intro h; apply h3; unfold isE at *; tauto

theorem reach_symm (r : V → V → Prop) (hs : ∀ u v, r u v → r v u) {u v : V}
    (h : ReflTransGen r u v) : ReflTransGen r v u := by
  induction h with
  | refl => exact ReflTransGen.refl
  | tail _ hbc ih => exact ReflTransGen.head (hs _ _ hbc) ih

/-- If, in the graph minus the two edges, one of a~b, a~c, d~c, d~b holds, the swapped graph of a
connected graph is connected. -/
theorem und_swap_connected (adj : V → V → Prop) (hs : ∀ u v, adj u v → adj v u)
    (a b c d : V) (hconn : Conn adj)
    (htest : ReflTransGen (G' adj a b c d) a b ∨ ReflTransGen (G' adj a b c d) a c ∨
             ReflTransGen (G' adj a b c d) d c ∨ ReflTransGen (G' adj a b c d) d b) :
    Conn (G'' adj a b c d) := by
  have sub : ∀ {u v}, ReflTransGen (G' adj a b c d) u v → ReflTransGen (G'' adj a b c d) u v :=
    fun {u v} h => (ReflTransGen.mono (fun _ _ h => Or.inl h)) u v h
  have symR := fun {u v} (h : ReflTransGen (G' adj a b c d) u v) =>
    reach_symm (G' adj a b c d) (G'_symm adj hs a b c d) h
  have ad : ReflTransGen (G'' adj a b c d) a d := ReflTransGen.single (Or.inr (Or.inl (Or.inl ⟨rfl, rfl⟩)))
  have cb : ReflTransGen (G'' adj a b c d) c b := ReflTransGen.single (Or.inr (Or.inr (Or.inl ⟨rfl, rfl⟩)))
  have hab : ReflTransGen (G'' adj a b c d) a b ∧ ReflTransGen (G'' adj a b c d) c d := by
    rcases htest with h | h | h | h
    · exact ⟨sub h, cb.trans ((sub (symR h)).trans ad)⟩
    · exact ⟨(sub h).trans cb, (sub (symR h)).trans ad⟩
    · exact ⟨ad.trans ((sub h).trans cb), sub (symR h)⟩
    · exact ⟨ad.trans (sub h), cb.trans (sub (symR h))⟩
  have hba : ReflTransGen (G'' adj a b c d) b a ∧ ReflTransGen (G'' adj a b c d) d c := by
    have s'' : ∀ u v, G'' adj a b c d u v → G'' adj a b c d v u := by
      intro u v h
      rcases h with h | h | h
      · exact Or.inl (G'_symm adj hs a b c d u v h)
      · right; left; unfold isE at *; tauto
      · right; right; unfold isE at *; tauto
    exact ⟨reach_symm _ s'' hab.1, reach_symm _ s'' hab.2⟩
  have step : ∀ u v, adj u v → ReflTransGen (G'' adj a b c d) u v := by
    intro u v huv
    by_cases h1 : isE a b u v
    · rcases h1 with ⟨rfl, rfl⟩ | ⟨rfl, rfl⟩
      · exact hab.1
      · exact hba.1
    · by_cases h2 : isE c d u v
      · rcases h2 with ⟨rfl, rfl⟩ | ⟨rfl, rfl⟩
        · exact hab.2
        · exact hba.2
      · exact ReflTransGen.single (Or.inl ⟨huv, h1, h2⟩)
  intro u v
  have := hconn u v
  induction this with
  | refl => exact ReflTransGen.refl
  | tail _ hbc ih => exact ih.trans (step _ _ hbc)

/-- digraph after the swap: rows a and c lose b resp. d and gain d resp. b -/
def Gd (adj : V → V → Prop) (a b c d : V) (u v : V) : Prop :=
  (adj u v ∧ ¬ (u = a ∧ v = b) ∧ ¬ (u = c ∧ v = d)) ∨ (u = a ∧ v = d) ∨ (u = c ∧ v = b)

/-- If in the swapped digraph a reaches b or c, and c reaches d or a, the swapped digraph of a
strongly connected digraph is strongly connected. -/
theorem dir_swap_strongly_connected (adj : V → V → Prop) (a b c d : V) (hconn : Conn adj)
    (h0 : ReflTransGen (Gd adj a b c d) a b ∨ ReflTransGen (Gd adj a b c d) a c)
    (h1 : ReflTransGen (Gd adj a b c d) c d ∨ ReflTransGen (Gd adj a b c d) c a) :
    Conn (Gd adj a b c d) := by
  have ad : ReflTransGen (Gd adj a b c d) a d := ReflTransGen.single (Or.inr (Or.inl ⟨rfl, rfl⟩))
  have cb : ReflTransGen (Gd adj a b c d) c b := ReflTransGen.single (Or.inr (Or.inr ⟨rfl, rfl⟩))
  have hab : ReflTransGen (Gd adj a b c d) a b := by
    rcases h0 with h | h
    · exact h
    · exact h.trans cb
  have hcd : ReflTransGen (Gd adj a b c d) c d := by
    rcases h1 with h | h
    · exact h
    · exact h.trans ad
  have step : ∀ u v, adj u v → ReflTransGen (Gd adj a b c d) u v := by
    intro u v huv
    by_cases e1 : u = a ∧ v = b
    · obtain ⟨rfl, rfl⟩ := e1; exact hab
    · by_cases e2 : u = c ∧ v = d
      · obtain ⟨rfl, rfl⟩ := e2; exact hcd
      · exact ReflTransGen.single (Or.inl ⟨huv, e1, e2⟩)
  intro u v
  have := hconn u v
  induction this with
  | refl => exact ReflTransGen.refl
  | tail _ hbc ih => exact ih.trans (step _ _ hbc)

end abstract

/-! ### cell level: the executable swaps realise `G''` / `Gd` -/

/-- adjacency after the eight undirected assignments = old adjacency minus {ab, cd} plus {ad, cb} -/
theorem swapUnd_adj (R : AMat Int n) (a b c d : Fin n)
    (hab : a ≠ b) (hac : a ≠ c) (had : a ≠ d) (hbc : b ≠ c) (hbd : b ≠ d) (hcd : c ≠ d)
    (hs : ∀ i j, R.toFun i j = R.toFun j i)
    (e1 : R.toFun a b ≠ 0) (e2 : R.toFun c d ≠ 0) (z1 : R.toFun a d = 0) (z2 : R.toFun c b = 0) :
    adj (swapUnd R a b c d) = G'' (adj R) a b c d := by
  have e1' : R.toFun b a ≠ 0 := by rw [hs]; exact e1
  have e2' : R.toFun d c ≠ 0 := by rw [hs]; exact e2
  have z1' : R.toFun d a = 0 := by rw [hs]; exact z1
  have z2' : R.toFun b c = 0 := by rw [hs]; exact z2
  funext i j
  apply propext
  unfold adj
  rw [toFun_swapUnd, swapUndF_apply R.toFun a b c d hab hac had hbc hbd hcd z1 z1' z2 z2']
  simp only [tauUnd, G'', G', isE, Prod.mk.injEq]
  by_cases hia : i = a <;> by_cases hib : i = b <;> by_cases hic : i = c <;> by_cases hid : i = d <;>
  by_cases hja : j = a <;> by_cases hjb : j = b <;> by_cases hjc : j = c <;> by_cases hjd : j = d <;>
    simp_all

/-- adjacency after the four directed assignments = the swapped digraph `Gd` -/
theorem swapDir_adj (R : AMat Int n) (a b c d : Fin n)
    (hac : a ≠ c) (hbd : b ≠ d)
    (e1 : R.toFun a b ≠ 0) (e2 : R.toFun c d ≠ 0) (z1 : R.toFun a d = 0) (z2 : R.toFun c b = 0) :
    adj (swapDir R a b c d) = Gd (adj R) a b c d := by
  funext i j
  apply propext
  unfold adj
  rw [toFun_swapDir, swapDirF_apply R.toFun a b c d hac hbd z1 z2]
  simp only [Gd]
  by_cases hia : i = a <;> by_cases hic : i = c <;> by_cases hjb : j = b <;> by_cases hjd : j = d <;>
    simp_all [Equiv.swap_apply_def]

/-! ### decidable certificates for (non-)connectivity of concrete matrices -/

/-- `p` is a walk from `x` to `y` along nonzero cells -/
def walkOk (R : AMat Int n) : Fin n → List (Fin n) → Fin n → Bool
  | x, [], y => x == y
  | x, z :: p, y => (R.get x z != 0) && walkOk R z p y

theorem walkOk_reach (R : AMat Int n) : ∀ (p : List (Fin n)) (x y : Fin n),
    walkOk R x p y = true → ReflTransGen (adj R) x y := by
  intro p
  induction p with
  | nil => intro x y h; simp only [walkOk, beq_iff_eq] at h; subst h; exact ReflTransGen.refl
  | cons z p ih =>
    intro x y h
    simp only [walkOk, Bool.and_eq_true, bne_iff_ne, ne_eq] at h
    exact ReflTransGen.head (show adj R x z from h.1) (ih z y h.2)

/-- certificate of connectivity: walks from a hub to every node and back -/
theorem conn_of_walks (R : AMat Int n) (h : Fin n) (fwd bwd : Fin n → List (Fin n))
    (hw : ∀ v, walkOk R h (fwd v) v = true ∧ walkOk R v (bwd v) h = true) : Conn (adj R) :=
  fun u v => (walkOk_reach R _ _ _ (hw u).2).trans (walkOk_reach R _ _ _ (hw v).1)

/-- certificate of non-connectivity: a set closed under the adjacency that contains `u` but not `v` -/
theorem not_conn_of_closed (R : AMat Int n) (S : Fin n → Bool) (u v : Fin n) (hu : S u = true) (hv : S v = false)
    (hc : ∀ x y, S x = true → R.toFun x y ≠ 0 → S y = true) : ¬ Conn (adj R) := by
  intro hconn
  have key : ∀ y, ReflTransGen (adj R) u y → S y = true := by
    intro y hy
    induction hy with
    | refl => exact hu
    | tail _ hbc ih => exact hc _ _ ih hbc
  have := key v (hconn u v)
  rw [hv] at this
  exact Bool.noConfusion this

end Bct.RewireConn
