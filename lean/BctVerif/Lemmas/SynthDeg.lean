import BctVerif.Lemmas.SynthBasic
import BctVerif.Lemmas.SignedDeal

/-!
# C20 helper lemmas: `makerandCIJdegreesfixed`

Invariant of the edge-placing loop after i edges: `CIJ = eye + (number of placed edges t < i with
(e0[t], e1[t]) = (r, c))` and every entry is ≤ 1.  Hence at the end `CIJ - eye` is a 0/1 matrix with
empty diagonal whose row sums count the out-stubs and whose column sums count the in-stubs.
-/
namespace Bct.Synth
open Finset

variable {n k : ℕ}

/-- 0/1 indicator in ℤ -/
def ind (p : Prop) [Decidable p] : ℤ := if p then 1 else 0

theorem ind_nonneg (p : Prop) [Decidable p] : 0 ≤ ind p := by unfold ind; split <;> simp
theorem ind_le_one (p : Prop) [Decidable p] : ind p ≤ 1 := by unfold ind; split <;> simp
theorem ind_true {p : Prop} [Decidable p] (h : p) : ind p = 1 := by simp [ind, h]
theorem ind_false {p : Prop} [Decidable p] (h : ¬p) : ind p = 0 := by simp [ind, h]

/-- number of placed edges `t < i` with `(e0[t], e1[t]) = (r, c)` -/
def placedCnt (e0 e1 : Vector (Fin n) k) (i : Nat) (r c : Fin n) : ℤ :=
  ∑ t : Fin k, ind (t.val < i ∧ e0[t] = r ∧ e1[t] = c)

theorem placedCnt_nonneg (e0 e1 : Vector (Fin n) k) (i : Nat) (r c : Fin n) : 0 ≤ placedCnt e0 e1 i r c :=
  Finset.sum_nonneg fun _ _ => ind_nonneg _

theorem placedCnt_zero (e0 e1 : Vector (Fin n) k) (r c : Fin n) : placedCnt e0 e1 0 r c = 0 := by
  unfold placedCnt; apply Finset.sum_eq_zero; intro t _; exact ind_false (by omega)

/-- a placed edge is counted -/
theorem placedCnt_ge_one (e0 e1 : Vector (Fin n) k) (i : Nat) (s : Fin k) (hs : s.val < i) :
    1 ≤ placedCnt e0 e1 i e0[s] e1[s] := by
  unfold placedCnt
  have h := Finset.single_le_sum (f := fun t : Fin k => ind (t.val < i ∧ e0[t] = e0[s] ∧ e1[t] = e1[s]))
    (fun t _ => ind_nonneg _) (Finset.mem_univ s)
  rw [ind_true ⟨hs, rfl, rfl⟩] at h
  exact h

/-- placing edge i with unchanged `e1` -/
theorem placedCnt_succ (e0 e1 : Vector (Fin n) k) (i : Fin k) (r c : Fin n) :
    placedCnt e0 e1 (i.val + 1) r c = placedCnt e0 e1 i.val r c + ind (e0[i] = r ∧ e1[i] = c) := by
  unfold placedCnt
  have : ∀ t : Fin k, ind (t.val < i.val + 1 ∧ e0[t] = r ∧ e1[t] = c)
      = ind (t.val < i.val ∧ e0[t] = r ∧ e1[t] = c) + (if t = i then ind (e0[i] = r ∧ e1[i] = c) else 0) := by
    intro t
    by_cases hti : t = i
    · subst hti; simp [ind]
    · have : t.val ≠ i.val := fun h => hti (Fin.ext h)
      have e : (t.val < i.val + 1) ↔ t.val < i.val := by omega
      simp [hti, e]
  simp only [this, Finset.sum_add_distrib, Finset.sum_ite_eq', Finset.mem_univ, if_true]

/-- `e1` with the entries i and s exchanged -/
def swapE1 (e1 : Vector (Fin n) k) (i s : Fin k) : Vector (Fin n) k := (e1.set i e1[s]).set s e1[i]

theorem swapE1_get (e1 : Vector (Fin n) k) (i s t : Fin k) :
    (swapE1 e1 i s)[t] = if t = s then e1[i] else if t = i then e1[s] else e1[t] := by
  unfold swapE1
  simp only [Fin.getElem_fin, Vector.getElem_set]
  by_cases h1 : t = s
  · subst h1; simp
  · have h1' : s.val ≠ t.val := fun h => h1 (Fin.ext h.symm)
    by_cases h2 : t = i
    · subst h2; simp [h1, h1']
    · have h2' : i.val ≠ t.val := fun h => h2 (Fin.ext h.symm)
      simp [h1, h2, h1', h2']

/-- switch with a not yet placed edge `s > i` -/
theorem placedCnt_swap_gt (e0 e1 : Vector (Fin n) k) (i s : Fin k) (hs : i.val < s.val) (r c : Fin n) :
    placedCnt e0 (swapE1 e1 i s) (i.val + 1) r c = placedCnt e0 e1 i.val r c + ind (e0[i] = r ∧ e1[s] = c) := by
  unfold placedCnt
  have : ∀ t : Fin k, ind (t.val < i.val + 1 ∧ e0[t] = r ∧ (swapE1 e1 i s)[t] = c)
      = ind (t.val < i.val ∧ e0[t] = r ∧ e1[t] = c) + (if t = i then ind (e0[i] = r ∧ e1[s] = c) else 0) := by
    intro t
    rw [swapE1_get]
    by_cases hti : t = i
    · subst hti
      have : t ≠ s := fun h => by rw [h] at hs; omega
      simp [ind, this]
    · have h1 : t.val ≠ i.val := fun h => hti (Fin.ext h)
      by_cases hts : t = s
      · subst hts
        rw [ind_false (by omega), ind_false (by omega)]; simp [hti]
      · have e : (t.val < i.val + 1) ↔ t.val < i.val := by omega
        simp [hti, hts, e]
  simp only [this, Finset.sum_add_distrib, Finset.sum_ite_eq', Finset.mem_univ, if_true]

/-- switch with an already placed edge `s < i` -/
theorem placedCnt_swap_lt (e0 e1 : Vector (Fin n) k) (i s : Fin k) (hs : s.val < i.val) (r c : Fin n) :
    placedCnt e0 (swapE1 e1 i s) (i.val + 1) r c
      = placedCnt e0 e1 i.val r c - ind (e0[s] = r ∧ e1[s] = c) + ind (e0[s] = r ∧ e1[i] = c)
        + ind (e0[i] = r ∧ e1[s] = c) := by
  unfold placedCnt
  have : ∀ t : Fin k, ind (t.val < i.val + 1 ∧ e0[t] = r ∧ (swapE1 e1 i s)[t] = c)
      = ind (t.val < i.val ∧ e0[t] = r ∧ e1[t] = c)
        + (if t = s then ind (e0[s] = r ∧ e1[i] = c) - ind (e0[s] = r ∧ e1[s] = c) else 0)
        + (if t = i then ind (e0[i] = r ∧ e1[s] = c) else 0) := by
    intro t
    rw [swapE1_get]
    by_cases hti : t = i
    · subst hti
      have : t ≠ s := fun h => by rw [h] at hs; omega
      simp [ind, this]
    · have h1 : t.val ≠ i.val := fun h => hti (Fin.ext h)
      by_cases hts : t = s
      · subst hts
        have e : (t.val < i.val + 1) ↔ True := by simp; omega
        have e' : (t.val < i.val) ↔ True := by simp; omega
        simp only [hti, if_true, if_false, e, e', true_and, add_zero]
        ring
      · have e : (t.val < i.val + 1) ↔ t.val < i.val := by omega
        simp [hti, hts, e]
  simp only [this, Finset.sum_add_distrib, Finset.sum_ite_eq', Finset.mem_univ, if_true]
  ring

end Bct.Synth

namespace Bct.Synth
open Finset
variable {n k : ℕ}

/-! ### the loop invariant -/

structure DfInv (e0 : Vector (Fin n) k) (st : DfSt n k) (i : Nat) : Prop where
  val : ∀ r c, st.C.get r c = ind (r = c) + placedCnt e0 st.e1 i r c
  le1 : ∀ r c, st.C.get r c ≤ 1

/-- a zero cell carries neither the identity nor a placed edge -/
theorem DfInv.zero_cell {e0 : Vector (Fin n) k} {st : DfSt n k} {i : Nat} (inv : DfInv e0 st i) {r c : Fin n}
    (h : st.C.get r c = 0) : ind (r = c) = 0 ∧ placedCnt e0 st.e1 i r c = 0 := by
  have h1 := inv.val r c
  have h2 := ind_nonneg (r = c)
  have h3 := placedCnt_nonneg e0 st.e1 i r c
  constructor <;> omega

/-- the free cell is filled: `CIJ[e0[i], e1[i]] = 1` -/
theorem step_plain (e0 : Vector (Fin n) k) (st : DfSt n k) (i : Fin k) (inv : DfInv e0 st i.val)
    (h0 : st.C.get e0[i] st.e1[i] = 0) :
    DfInv e0 { st with C := st.C.set e0[i] st.e1[i] 1 } (i.val + 1) := by
  obtain ⟨z1, z2⟩ := inv.zero_cell h0
  constructor
  · intro r c
    simp only [AMat.get_set]
    rw [placedCnt_succ]
    by_cases hrc : r = e0[i] ∧ c = st.e1[i]
    · obtain ⟨rfl, rfl⟩ := hrc
      have e : ind (e0[i] = e0[i] ∧ st.e1[i] = st.e1[i]) = 1 := ind_true ⟨rfl, rfl⟩
      rw [if_pos ⟨rfl, rfl⟩]; omega
    · have e : ind (e0[i] = r ∧ st.e1[i] = c) = 0 := ind_false (fun h => hrc ⟨h.1.symm, h.2.symm⟩)
      have := inv.val r c
      rw [if_neg hrc]; omega
  · intro r c
    simp only [AMat.get_set]
    split
    · exact le_refl _
    · exact inv.le1 r c

theorem applySwitch_e1 (e0 : Vector (Fin n) k) (st : DfSt n k) (i s : Fin k) :
    (applySwitch e0 st i s).e1 = swapE1 st.e1 i s := rfl

/-- an accepted switch keeps the invariant -/
theorem step_switch (e0 : Vector (Fin n) k) (st : DfSt n k) (i s : Fin k) (inv : DfInv e0 st i.val)
    (hocc : st.C.get e0[i] st.e1[i] ≠ 0)
    (h1 : st.C.get e0[i] st.e1[s] = 0) (h2 : st.C.get e0[s] st.e1[i] = 0) :
    DfInv e0 (applySwitch e0 st i s) (i.val + 1) := by
  have hsi : s ≠ i := fun h => by subst h; exact hocc h1
  obtain ⟨z1, z1'⟩ := inv.zero_cell h1
  obtain ⟨z2, z2'⟩ := inv.zero_cell h2
  rcases Nat.lt_or_ge s.val i.val with hlt | hge
  · -- s already placed
    have hN := placedCnt_ge_one e0 st.e1 i.val s hlt
    have hv := inv.val e0[s] st.e1[s]
    have hl := inv.le1 e0[s] st.e1[s]
    have hi0 := ind_nonneg (e0[s] = st.e1[s])
    have hC1 : st.C.get e0[s] st.e1[s] = 1 := by omega
    have haa : e0[i] ≠ e0[s] := fun h => by rw [h] at h1; omega
    have hbb : st.e1[i] ≠ st.e1[s] := fun h => by rw [h] at h2; omega
    have hC2 : (applySwitch e0 st i s).C
        = ((st.C.set e0[i] st.e1[s] 1).set e0[s] st.e1[s] 0).set e0[s] st.e1[i] 1 := by
      simp [applySwitch, hlt]
    constructor
    · intro r c
      rw [hC2, applySwitch_e1, placedCnt_swap_lt e0 st.e1 i s hlt]
      simp only [AMat.get_set]
      by_cases c1 : r = e0[s] ∧ c = st.e1[i]
      · obtain ⟨hr, hc⟩ := c1
        rw [hr, hc]
        have e1 : ind (e0[s] = e0[s] ∧ st.e1[s] = st.e1[i]) = 0 := ind_false (fun h => hbb h.2.symm)
        have e2 : ind (e0[s] = e0[s] ∧ st.e1[i] = st.e1[i]) = 1 := ind_true ⟨rfl, rfl⟩
        have e3 : ind (e0[i] = e0[s] ∧ st.e1[s] = st.e1[i]) = 0 := ind_false (fun h => haa h.1)
        rw [if_pos ⟨rfl, rfl⟩]; omega
      · rw [if_neg c1]
        by_cases c2 : r = e0[s] ∧ c = st.e1[s]
        · obtain ⟨hr, hc⟩ := c2
          rw [hr, hc, if_pos ⟨rfl, rfl⟩]
          have e1 : ind (e0[s] = e0[s] ∧ st.e1[s] = st.e1[s]) = 1 := ind_true ⟨rfl, rfl⟩
          have e2 : ind (e0[s] = e0[s] ∧ st.e1[i] = st.e1[s]) = 0 := ind_false (fun h => hbb h.2)
          have e3 : ind (e0[i] = e0[s] ∧ st.e1[s] = st.e1[s]) = 0 := ind_false (fun h => haa h.1)
          omega
        · rw [if_neg c2]
          have e1 : ind (e0[s] = r ∧ st.e1[s] = c) = 0 := ind_false (fun h => c2 ⟨h.1.symm, h.2.symm⟩)
          have e2 : ind (e0[s] = r ∧ st.e1[i] = c) = 0 := ind_false (fun h => c1 ⟨h.1.symm, h.2.symm⟩)
          by_cases c3 : r = e0[i] ∧ c = st.e1[s]
          · obtain ⟨hr, hc⟩ := c3
            rw [hr, hc] at e1 e2 ⊢
            rw [if_pos ⟨rfl, rfl⟩]
            have e3 : ind (e0[i] = e0[i] ∧ st.e1[s] = st.e1[s]) = 1 := ind_true ⟨rfl, rfl⟩
            omega
          · have e3 : ind (e0[i] = r ∧ st.e1[s] = c) = 0 := ind_false (fun h => c3 ⟨h.1.symm, h.2.symm⟩)
            have := inv.val r c
            rw [if_neg c3]; omega
    · intro r c
      rw [hC2]
      simp only [AMat.get_set]
      split
      · exact le_refl _
      · split
        · norm_num
        · split
          · exact le_refl _
          · exact inv.le1 r c
  · -- s not yet placed
    have hgt : i.val < s.val := by
      have : s.val ≠ i.val := fun h => hsi (Fin.ext h)
      omega
    have hC2 : (applySwitch e0 st i s).C = st.C.set e0[i] st.e1[s] 1 := by
      have : ¬ s.val < i.val := by omega
      simp [applySwitch, this]
    constructor
    · intro r c
      rw [hC2, applySwitch_e1, placedCnt_swap_gt e0 st.e1 i s hgt]
      simp only [AMat.get_set]
      by_cases c3 : r = e0[i] ∧ c = st.e1[s]
      · obtain ⟨rfl, rfl⟩ := c3
        have e3 : ind (e0[i] = e0[i] ∧ st.e1[s] = st.e1[s]) = 1 := ind_true ⟨rfl, rfl⟩
        rw [if_pos ⟨rfl, rfl⟩]; omega
      · have e3 : ind (e0[i] = r ∧ st.e1[s] = c) = 0 := ind_false (fun h => c3 ⟨h.1.symm, h.2.symm⟩)
        have := inv.val r c
        rw [if_neg c3]; omega
    · intro r c
      rw [hC2]
      simp only [AMat.get_set]
      split
      · exact le_refl _
      · exact inv.le1 r c

end Bct.Synth

namespace Bct.Synth
open Finset
variable {n k : ℕ}

/-! ### in-stub counts are untouched by the switches -/

/-- number of in-stubs attached to node c -/
def colCnt (e1 : Vector (Fin n) k) (c : Fin n) : ℤ := ∑ t : Fin k, ind (e1[t] = c)

theorem colCnt_swap (e1 : Vector (Fin n) k) (i s : Fin k) (c : Fin n) : colCnt (swapE1 e1 i s) c = colCnt e1 c := by
  unfold colCnt
  have : ∀ t : Fin k, ind ((swapE1 e1 i s)[t] = c) = (fun t => ind (e1[t] = c)) (Equiv.swap i s t) := by
    intro t
    rw [swapE1_get]
    by_cases h1 : t = s
    · subst h1; simp [Equiv.swap_apply_right]
    · by_cases h2 : t = i
      · subst h2; simp [h1, Equiv.swap_apply_left]
      · simp [h1, h2, Equiv.swap_apply_of_ne_of_ne h2 h1]
  simp only [this]
  exact Equiv.sum_comp (Equiv.swap i s) (fun t => ind (e1[t] = c))

/-! ### the loops -/

theorem repair_spec (e0 : Vector (Fin n) k) (st : DfSt n k) (i : Fin k) :
    ∀ (fuel : Nat) (tried ds : List Nat) {st' : DfSt n k} {ds' : List Nat},
      repair e0 st i fuel tried ds = .ok (st', ds') →
      ∃ s : Fin k, st' = applySwitch e0 st i s ∧ st.C.get e0[i] st.e1[s] = 0 ∧ st.C.get e0[s] st.e1[i] = 0
  | 0, tried, ds, st', ds', h => by simp [repair] at h
  | fuel + 1, tried, ds, st', ds', h => by
    unfold repair at h
    split at h
    · simp at h
    · cases hd : drawUntried k tried ds with
      | error e => simp [hd] at h
      | ok v =>
        obtain ⟨s, ds1⟩ := v
        simp only [hd] at h
        split at h
        · rename_i hacc
          simp only [Except.ok.injEq, Prod.mk.injEq] at h
          simp only [Bool.and_eq_true, beq_iff_eq] at hacc
          exact ⟨s, h.1.symm, hacc.1, hacc.2⟩
        · exact repair_spec e0 st i fuel _ ds1 h

theorem placeEdge_inv (e0 : Vector (Fin n) k) (st : DfSt n k) (i : Fin k) (ds : List Nat)
    {st' : DfSt n k} {ds' : List Nat} (h : placeEdge e0 st i ds = .ok (st', ds')) (inv : DfInv e0 st i.val) :
    DfInv e0 st' (i.val + 1) ∧ ∀ c, colCnt st'.e1 c = colCnt st.e1 c := by
  unfold placeEdge at h
  split at h
  · rename_i hocc
    obtain ⟨s, rfl, h1, h2⟩ := repair_spec e0 st i _ _ _ h
    refine ⟨step_switch e0 st i s inv (by simpa using hocc) h1 h2, fun c => ?_⟩
    rw [applySwitch_e1, colCnt_swap]
  · rename_i hfree
    simp only [Except.ok.injEq, Prod.mk.injEq] at h
    obtain ⟨rfl, _⟩ := h
    exact ⟨step_plain e0 st i inv (by simpa using hfree), fun c => rfl⟩

theorem placeAll_inv (e0 : Vector (Fin n) k) : ∀ (m j : Nat) (st : DfSt n k) (ds : List Nat)
    {st' : DfSt n k} {ds' : List Nat}, m + j = k → DfInv e0 st j →
    placeAll e0 ((List.finRange k).drop j) st ds = .ok (st', ds') →
    DfInv e0 st' k ∧ ∀ c, colCnt st'.e1 c = colCnt st.e1 c
  | 0, j, st, ds, st', ds', hm, inv, h => by
    have hj : j = k := by omega
    subst hj
    rw [List.drop_of_length_le (by simp)] at h
    simp only [placeAll, Except.ok.injEq, Prod.mk.injEq] at h
    obtain ⟨rfl, _⟩ := h
    exact ⟨inv, fun c => rfl⟩
  | m + 1, j, st, ds, st', ds', hm, inv, h => by
    have hj : j < k := by omega
    have hd : (List.finRange k).drop j = (⟨j, hj⟩ : Fin k) :: (List.finRange k).drop (j + 1) := by
      rw [List.drop_eq_getElem_cons (by simpa using hj)]; simp
    rw [hd] at h
    unfold placeAll at h
    cases hp : placeEdge e0 st ⟨j, hj⟩ ds with
    | error e => simp [hp] at h
    | ok v =>
      obtain ⟨st1, ds1⟩ := v
      simp only [hp] at h
      obtain ⟨inv1, hc1⟩ := placeEdge_inv e0 st ⟨j, hj⟩ ds hp inv
      obtain ⟨inv2, hc2⟩ := placeAll_inv e0 m (j + 1) st1 ds1 (by omega) inv1 h
      exact ⟨inv2, fun c => (hc2 c).trans (hc1 c)⟩

end Bct.Synth
