import BctVerif.Lemmas.DistReach
import BctVerif.Lemmas.DistCert

/-!
# `reachdist` (boolean matrix powers with the counter matrix `D += R`) is correct

`ReachPost G p R D`: after the pass with `powr = p`, `R` marks the pairs joined by a walk of `1..p` edges, `D = 0` exactly
off `R`, and on `R` the value `p + 1 - D` is the *first* edge count at which the pair was reached.  Exit either by the
counter (`p = n + 1`, where `reach_bound` closes the gap) or because every pair in `rows × cols` is marked.
The hub lemma then gives `IsDist` for `powr - D + 1` with the `n + 2`, `id0`, `od0` cells set to `∞`.
-/
namespace Bct.Dist
variable {n : ℕ}

structure ReachPost (G : AMat ℕ n) (p : ℕ) (R : AMat Bool n) (D : AMat ℕ n) : Prop where
  rspec : ∀ i j, R.get i j = true ↔ ∃ d, 1 ≤ d ∧ d ≤ p ∧ Reach G d i j
  dzero : ∀ i j, D.get i j = 0 ↔ R.get i j = false
  dfirst : ∀ i j, R.get i j = true → D.get i j ≤ p ∧ Reach G (p + 1 - D.get i j) i j ∧
    ∀ d, 1 ≤ d → d < p + 1 - D.get i j → ¬ Reach G d i j

/-- invariant at the head of `reachdist2` with `powr = q + 1` -/
structure ReachInv (G : AMat ℕ n) (q : ℕ) (s : RSt n) : Prop where
  qpos : 1 ≤ q
  pow : ∀ i j, s.Cp.get i j ≠ 0 ↔ Reach G q i j
  post : ReachPost G q s.R s.D

theorem reachInv_step (G : AMat ℕ n) (q : ℕ) (s : RSt n) (h : ReachInv G q s) : ReachInv G (q + 1) (reachStep G s) := by
  have hq := h.qpos
  have hpow : ∀ i j, (boolMul s.Cp G).get i j ≠ 0 ↔ Reach G (q + 1) i j := by
    intro i j
    rw [boolMul_ne_zero]
    simp only [Reach]
    constructor
    · rintro ⟨x, h1, h2⟩; exact ⟨x, (h.pow i x).mp h1, h2⟩
    · rintro ⟨x, h1, h2⟩; exact ⟨x, (h.pow i x).mpr h1, h2⟩
  have hR : ∀ i j, (reachStep G s).R.get i j = true ↔ (s.R.get i j = true ∨ Reach G (q + 1) i j) := by
    intro i j
    simp only [reachStep, AMat.get_ofFn, Bool.or_eq_true, bne_iff_ne]
    rw [hpow]
  have hD : ∀ i j, (reachStep G s).D.get i j = s.D.get i j + (if (reachStep G s).R.get i j = true then 1 else 0) := by
    intro i j
    simp only [reachStep, AMat.get_ofFn]
  refine ⟨by omega, hpow, ⟨?_, ?_, ?_⟩⟩
  · intro i j
    rw [hR, h.post.rspec]
    constructor
    · rintro (⟨d, h1, h2, h3⟩ | h3)
      · exact ⟨d, h1, by omega, h3⟩
      · exact ⟨q + 1, by omega, le_refl _, h3⟩
    · rintro ⟨d, h1, h2, h3⟩
      by_cases hd : d ≤ q
      · exact Or.inl ⟨d, h1, hd, h3⟩
      · have : d = q + 1 := by omega
        subst this; exact Or.inr h3
  · intro i j
    rw [hD]
    by_cases hr' : (reachStep G s).R.get i j = true
    · simp [hr']
    · have hr'f : (reachStep G s).R.get i j = false := by simpa using hr'
      have hrf : s.R.get i j = false := by
        by_contra hh
        exact hr' ((hR i j).mpr (Or.inl (by simpa using hh)))
      simp [hr'f, (h.post.dzero i j).mpr hrf]
  · intro i j hr'
    rw [hD, if_pos hr']
    by_cases hr : s.R.get i j = true
    · obtain ⟨h1, h2, h3⟩ := h.post.dfirst i j hr
      refine ⟨by omega, ?_, ?_⟩
      · have : q + 1 + 1 - (s.D.get i j + 1) = q + 1 - s.D.get i j := by omega
        rw [this]; exact h2
      · intro d hd1 hd2
        exact h3 d hd1 (by omega)
    · have hrf : s.R.get i j = false := by simpa using hr
      have hd0 := (h.post.dzero i j).mpr hrf
      have hreach : Reach G (q + 1) i j := by
        rcases (hR i j).mp hr' with e | e
        · exact absurd e hr
        · exact e
      rw [hd0]
      refine ⟨by omega, by simpa using hreach, ?_⟩
      intro d hd1 hd2 hrd
      exact hr ((h.post.rspec i j).mpr ⟨d, hd1, by omega, hrd⟩)

/-- result of `reachdist2`: post-condition for the returned counter, which is at most `n + 1`, and the reason of exit -/
theorem reachGo_post (G : AMat ℕ n) (rows cols : List (Fin n)) : ∀ (rem q : ℕ) (s : RSt n),
    ReachInv G q s → rem + q = n →
    ReachPost G (reachGo G rows cols rem (q + 1) s).2 (reachGo G rows cols rem (q + 1) s).1.R
        (reachGo G rows cols rem (q + 1) s).1.D ∧
      2 ≤ (reachGo G rows cols rem (q + 1) s).2 ∧ (reachGo G rows cols rem (q + 1) s).2 ≤ n + 1 ∧
      ((reachGo G rows cols rem (q + 1) s).2 = n + 1 ∨
        ∀ i ∈ rows, ∀ j ∈ cols, (reachGo G rows cols rem (q + 1) s).1.R.get i j = true) := by
  intro rem
  induction rem with
  | zero =>
    intro q s h hq
    have := reachInv_step G q s h
    simp only [reachGo]
    exact ⟨this.post, by have := h.qpos; omega, by omega, Or.inl (by omega)⟩
  | succ rem ih =>
    intro q s h hq
    have hs := reachInv_step G q s h
    simp only [reachGo]
    by_cases hany : (rows.any fun i => cols.any fun j => !((reachStep G s).R.get i j)) = true
    · rw [if_pos hany]
      exact ih (q + 1) (reachStep G s) hs (by omega)
    · rw [if_neg hany]
      refine ⟨hs.post, by have := h.qpos; omega, by omega, Or.inr ?_⟩
      intro i hi j hj
      by_contra hf
      apply hany
      rw [List.any_eq_true]
      refine ⟨i, hi, ?_⟩
      rw [List.any_eq_true]
      exact ⟨j, hj, by simpa using hf⟩

theorem reachInv_init (G : AMat ℕ n) (hbin : ∀ i j, G.get i j = 0 ∨ G.get i j = 1) :
    ReachInv G 1 { Cp := G, R := AMat.ofFn fun i j => G.get i j != 0, D := G } where
  qpos := le_refl _
  pow := by intro i j; simp [Reach]
  post := by
    refine ⟨?_, ?_, ?_⟩
    · intro i j
      simp only [AMat.get_ofFn, bne_iff_ne]
      constructor
      · intro h; exact ⟨1, le_refl _, le_refl _, by simpa [Reach] using h⟩
      · rintro ⟨d, h1, h2, h3⟩
        have : d = 1 := by omega
        subst this; simpa [Reach] using h3
    · intro i j; simp
    · intro i j hr
      simp only [AMat.get_ofFn, bne_iff_ne] at hr
      have h1 : G.get i j = 1 := by
        rcases hbin i j with e | e
        · exact absurd e hr
        · exact e
      rw [h1]
      refine ⟨le_refl _, by simpa [Reach] using hr, ?_⟩
      intro d hd1 hd2; omega

theorem reach_first_edge (G : AMat ℕ n) : ∀ (d : ℕ) (i j : Fin n), 1 ≤ d → Reach G d i j → ∃ y, G.get i y ≠ 0 := by
  intro d
  induction d with
  | zero => intro i j h; omega
  | succ d ih =>
    intro i j _ hr
    obtain ⟨x, hx, hg⟩ := hr
    by_cases hd : d = 0
    · subst hd
      simp only [Reach] at hx
      subst hx
      exact ⟨j, hg⟩
    · exact ih i x (by omega) hx

theorem sum_ne_zero_iff (f : Fin n → ℕ) : (List.finRange n).foldl (fun a k => a + f k) 0 ≠ 0 ↔ ∃ k, f k ≠ 0 := by
  rw [foldl_add_ne_zero]
  simp

/-- the distance part of `reachdist`'s output for given loop result -/
def reachOut (G : AMat ℕ n) (p : ℕ) (D : AMat ℕ n) : AMat Ext n :=
  AMat.ofFn fun i j => reachOutCell n p (D.get i j) (inDeg G j != 0) (outDeg G i != 0)

theorem reachOut_correct (G : AMat ℕ n) (rows cols : List (Fin n)) (p : ℕ) (R : AMat Bool n) (D : AMat ℕ n)
    (hrows : ∀ i, i ∈ rows ↔ outDeg G i ≠ 0) (hcols : ∀ j, j ∈ cols ↔ inDeg G j ≠ 0)
    (hp : ReachPost G p R D) (hp2 : 2 ≤ p) (hpn : p ≤ n + 1)
    (hexit : p = n + 1 ∨ ∀ i ∈ rows, ∀ j ∈ cols, R.get i j = true) :
    IsDist (hopLenN G) (zeroDiag' (lenFun (reachOut G p D))) ∧
      ∀ i j, i ≠ j → (R.get i j = true ↔ lenFun (reachOut G p D) i j < ⊤) := by
  have hout : ∀ i, outDeg G i ≠ 0 ↔ ∃ y, G.get i y ≠ 0 := fun i => sum_ne_zero_iff (fun y => G.get i y)
  have hin : ∀ j, inDeg G j ≠ 0 ↔ ∃ x, G.get x j ≠ 0 := fun j => sum_ne_zero_iff (fun x => G.get x j)
  -- value of a marked cell
  have cellT : ∀ i j, R.get i j = true →
      (reachOut G p D).get i j = .fin (((p + 1 - D.get i j : ℕ) : ℤ) : ℚ) ∧ 1 ≤ p + 1 - D.get i j := by
    intro i j hr
    obtain ⟨h1, h2, _⟩ := hp.dfirst i j hr
    have hf1 : 1 ≤ p + 1 - D.get i j := by omega
    have hi : inDeg G j ≠ 0 := by
      rw [hin]
      obtain ⟨f, hf⟩ : ∃ f, p + 1 - D.get i j = f + 1 := ⟨p - D.get i j, by omega⟩
      rw [hf] at h2
      obtain ⟨x, _, hg⟩ := h2
      exact ⟨x, hg⟩
    have ho : outDeg G i ≠ 0 := by
      rw [hout]; exact reach_first_edge G _ i j hf1 h2
    refine ⟨?_, hf1⟩
    simp only [reachOut, AMat.get_ofFn, reachOutCell]
    have e : ((p : ℤ) - (D.get i j : ℤ) + 1) = ((p + 1 - D.get i j : ℕ) : ℤ) := by omega
    rw [e]
    have hne : ¬ (((p + 1 - D.get i j : ℕ) : ℤ) = (n : ℤ) + 2) := by
      have hdpos : D.get i j ≠ 0 := by
        intro e0
        have := (hp.dzero i j).mp e0
        rw [hr] at this; exact absurd this (by decide)
      have : p + 1 - D.get i j ≤ n + 1 := by omega
      omega
    simp [hne, hi, ho]
  -- an unmarked cell is infinite
  have cellF : ∀ i j, R.get i j = false → (reachOut G p D).get i j = .inf := by
    intro i j hr
    have hd0 := (hp.dzero i j).mpr hr
    simp only [reachOut, AMat.get_ofFn, reachOutCell, hd0]
    by_cases hi : inDeg G j = 0
    · simp [hi]
    · by_cases ho : outDeg G i = 0
      · simp [ho]
      · rcases hexit with e | e
        · subst e
          simp
          intro hA
          exact absurd (by omega) hA
        · have := e i ((hrows i).mpr ho) j ((hcols j).mpr hi)
          rw [this] at hr; exact absurd hr (by decide)
  have fin_iff : ∀ i j, R.get i j = true ↔ lenFun (reachOut G p D) i j < ⊤ := by
    intro i j
    constructor
    · intro hr
      simp only [lenFun, (cellT i j hr).1, Ext.toLen_fin]
      exact WithTop.coe_lt_top _
    · intro hfin
      by_contra hr
      have := cellF i j (by simpa using hr)
      simp [lenFun, this] at hfin
  -- value as a natural number in Len
  have valT : ∀ i j, R.get i j = true → lenFun (reachOut G p D) i j = (((p + 1 - D.get i j : ℕ) : ℚ) : Len) := by
    intro i j hr
    simp only [lenFun, (cellT i j hr).1, Ext.toLen_fin]
    norm_cast
  -- minimality: any walk of d ≥ 1 edges to a marked cell has d ≥ the recorded value
  have minimal : ∀ i j, R.get i j = true → ∀ d, 1 ≤ d → Reach G d i j → p + 1 - D.get i j ≤ d := by
    intro i j hr d hd1 hrd
    by_contra hlt
    exact (hp.dfirst i j hr).2.2 d hd1 (by omega) hrd
  refine ⟨⟨?_, ?_⟩, fun i j _ => fin_iff i j⟩
  · apply lower_of_feasible
    · intro i; simp [zeroDiag']
    · intro i x j
      by_cases hg : G.get x j = 0
      · simp [hopLenN, hg]
      · simp only [hopLenN, if_neg hg]
        have nonneg : ∀ a b, (0 : Len) ≤ zeroDiag' (lenFun (reachOut G p D)) a b := by
          intro a b
          simp only [zeroDiag']
          split_ifs
          · exact le_refl _
          · by_cases hr : R.get a b = true
            · rw [valT a b hr]; exact_mod_cast Nat.zero_le _
            · have := cellF a b (by simpa using hr)
              simp [lenFun, this]
        by_cases hij : i = j
        · subst hij
          have : zeroDiag' (lenFun (reachOut G p D)) i i = 0 := by simp [zeroDiag']
          rw [this]
          exact add_nonneg (nonneg i x) zero_le_one
        · have ej : zeroDiag' (lenFun (reachOut G p D)) i j = lenFun (reachOut G p D) i j := by simp [zeroDiag', hij]
          rw [ej]
          by_cases hxi : i = x
          · subst hxi
            have hz : zeroDiag' (lenFun (reachOut G p D)) i i = 0 := by simp [zeroDiag']
            rw [hz]
            have hr1 : Reach G 1 i j := ⟨i, rfl, hg⟩
            have hr : R.get i j = true := (hp.rspec i j).mpr ⟨1, le_refl _, by omega, hr1⟩
            rw [valT i j hr]
            have := minimal i j hr 1 (le_refl _) hr1
            have h' : ((p + 1 - D.get i j : ℕ) : ℚ) ≤ 1 := by exact_mod_cast this
            have : (((p + 1 - D.get i j : ℕ) : ℚ) : Len) ≤ ((1 : ℚ) : Len) := by exact_mod_cast h'
            simpa using this
          · have ex : zeroDiag' (lenFun (reachOut G p D)) i x = lenFun (reachOut G p D) i x := by simp [zeroDiag', hxi]
            rw [ex]
            by_cases hrx : R.get i x = true
            · obtain ⟨hx1, hx2, _⟩ := hp.dfirst i x hrx
              have hfx1 := (cellT i x hrx).2
              have hreach : Reach G (p + 1 - D.get i x + 1) i j := ⟨x, hx2, hg⟩
              have hrj : R.get i j = true := by
                rcases hexit with e | e
                · -- exit by the counter: the first-reach time of (i,x) is at most n
                  obtain ⟨d', g1, g2, g3⟩ := reach_bound G i x _ hfx1 hx2
                  have := minimal i x hrx d' g1 g3
                  exact (hp.rspec i j).mpr ⟨p + 1 - D.get i x + 1, by omega, by omega, hreach⟩
                · have hi : i ∈ rows := (hrows i).mpr ((hout i).mpr (reach_first_edge G _ i x hfx1 hx2))
                  have hj : j ∈ cols := (hcols j).mpr ((hin j).mpr ⟨x, hg⟩)
                  exact e i hi j hj
              rw [valT i j hrj, valT i x hrx]
              have := minimal i j hrj _ (by omega) hreach
              have h' : ((p + 1 - D.get i j : ℕ) : ℚ) ≤ ((p + 1 - D.get i x : ℕ) : ℚ) + 1 := by exact_mod_cast this
              exact_mod_cast h'
            · have := cellF i x (by simpa using hrx)
              simp [lenFun, this]
  · intro i j hfin
    by_cases hij : i = j
    · subst hij; exact ⟨[], rfl, by simp [walkLen, zeroDiag']⟩
    · have ej : zeroDiag' (lenFun (reachOut G p D)) i j = lenFun (reachOut G p D) i j := by simp [zeroDiag', hij]
      rw [ej] at hfin ⊢
      have hr := (fin_iff i j).mpr hfin
      obtain ⟨_, h2, _⟩ := hp.dfirst i j hr
      obtain ⟨w, _, he, hw⟩ := reach_walk G _ i j h2
      exact ⟨w, he, by rw [hw, valT i j hr]⟩

end Bct.Dist
