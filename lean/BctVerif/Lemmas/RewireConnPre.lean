import BctVerif.Model.RewirePre
import BctVerif.Props.C16
import BctVerif.Lemmas.RewireConnGraph

/-!
# The pre-check of the undirected `_connected` routines decides "symmetric and connected"

Built on C16's theorems about the executable `number_of_components` model: same label ⇔ joined by a
path (`C16.components_correct`), number of components = number of distinct labels
(`C16.number_of_components_correct`).
-/
open Relation Finset

namespace Bct.RewireConn
open Bct Bct.RewirePre

variable {n : ℕ}

theorem isSymm_iff_toFun (R : AMat Int n) : Comp.isSymm R = true ↔ ∀ i j, R.toFun i j = R.toFun j i :=
  Comp.isSymm_iff R

/-- on symmetric input: more than one component ⇔ some pair of nodes is not joined by a path -/
theorem components_gt_one_iff (R : AMat Int n) (hsym : Comp.isSymm R = true) :
    1 < (univ.image (C16.labelFn R)).card ↔ ¬ Conn (adj R) := by
  rw [Finset.one_lt_card]
  constructor
  · rintro ⟨l1, h1, l2, h2, hne⟩ hconn
    obtain ⟨x, _, rfl⟩ := Finset.mem_image.mp h1
    obtain ⟨y, _, rfl⟩ := Finset.mem_image.mp h2
    exact hne ((C16.components_correct R hsym x y).mpr (hconn x y))
  · intro hn
    unfold Conn at hn
    push Not at hn
    obtain ⟨u, v, huv⟩ := hn
    refine ⟨_, Finset.mem_image_of_mem _ (mem_univ u), _, Finset.mem_image_of_mem _ (mem_univ v), ?_⟩
    intro heq
    exact huv ((C16.components_correct R hsym u v).mp heq)

theorem precheck_rejects_core (R : AMat Int n)
    (h : ¬ (∀ i j, R.toFun i j = R.toFun j i) ∨ ¬ Conn (adj R)) : precheck R = .error .param := by
  unfold precheck
  by_cases hsym : Comp.isSymm R = true
  · have hconn : ¬ Conn (adj R) := by
      rcases h with h | h
      · exact absurd ((isSymm_iff_toFun R).mp hsym) h
      · exact h
    have hgt := (components_gt_one_iff R hsym).mpr hconn
    simp only [hsym, Bool.not_true, Bool.false_eq_true, if_false, C16.number_of_components_correct R hsym,
      hgt, if_true]
  · simp [hsym]

theorem precheck_ok_core (R : AMat Int n)
    (hs : ∀ i j, R.toFun i j = R.toFun j i) (hconn : Conn (adj R)) : precheck R = .ok () := by
  unfold precheck
  have hsym := (isSymm_iff_toFun R).mpr hs
  have hle : ¬ 1 < (univ.image (C16.labelFn R)).card := fun h => (components_gt_one_iff R hsym).mp h hconn
  simp only [hsym, Bool.not_true, Bool.false_eq_true, if_false, C16.number_of_components_correct R hsym,
    hle]

end Bct.RewireConn
